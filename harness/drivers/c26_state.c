// C26 driver: state vector API (mj_stateSize/getState/setState/extractState/copyState) and
// mj_resetData / mj_resetDataKeyframe on models built through the mjSpec C API.
//
// stdin commands (one per line), stdout one answer line per command:
//   D                      -> per model: "dims <mid> nstate nq nv na nhistory nu nbody neq nmocap nuserdata npluginstate nkey nactuator"
//   F mid sig tsig seed    -> full outputs (integers), see do_case
//   H mid sig tsig seed    -> hashed outputs
//   E mid sig tsig         -> which API calls raise mjERROR for (sig, tsig)
//   R mid nstep            -> reset-vs-fresh comparison
//   K mid key nstep        -> keyframe reset
#include <mujoco/mujoco.h>
#include <mujoco/mjxmacro.h>
#include <mujoco/mjplugin.h>
#include <setjmp.h>
#include <stdint.h>
#include <stdio.h>
#include <stdlib.h>
#include <string.h>

#define NMODEL 5
static mjModel* M[NMODEL];
static jmp_buf jb;
static int in_guard = 0;
static char lasterr[512];

static void on_error(const char* msg) {
  strncpy(lasterr, msg, sizeof(lasterr) - 1);
  if (in_guard) longjmp(jb, 1);
  fprintf(stderr, "mujoco error: %s\n", msg);
  exit(3);
}
static void on_warning(const char* msg) { (void)msg; }

//------------------------------------------------------------------ plugin with state
static int pl_nstate(const mjModel* m, int instance) { return 7; }
static int pl_nstate2(const mjModel* m, int instance) { return 2; }
static int pl_init(const mjModel* m, mjData* d, int instance) { d->plugin_data[instance] = 0; return 0; }
static void pl_reset(const mjModel* m, mjtNum* st, void* data, int instance) {
  int n = m->plugin_stateadr[instance + 1 <= m->nplugin - 1 ? instance + 1 : instance] ;
  (void)n;
  int ns = (instance + 1 < m->nplugin ? m->plugin_stateadr[instance + 1] : m->npluginstate) - m->plugin_stateadr[instance];
  for (int i = 0; i < ns; i++) st[i] = 100 * (instance + 1) + i;
}
static void pl_compute(const mjModel* m, mjData* d, int instance, int cap) {}
static void pl_advance(const mjModel* m, mjData* d, int instance) {
  int a = m->plugin_stateadr[instance];
  int ns = (instance + 1 < m->nplugin ? m->plugin_stateadr[instance + 1] : m->npluginstate) - a;
  for (int i = 0; i < ns; i++) d->plugin_state[a + i] += 1.5;
}
static void register_plugins(void) {
  mjpPlugin p;
  mjp_defaultPlugin(&p);
  p.name = "verif.state7";
  p.capabilityflags = mjPLUGIN_PASSIVE;
  p.nstate = pl_nstate;
  p.init = pl_init;
  p.reset = pl_reset;
  p.compute = pl_compute;
  p.advance = pl_advance;
  mjp_registerPlugin(&p);
  p.name = "verif.state2";
  p.nstate = pl_nstate2;
  mjp_registerPlugin(&p);
}

//------------------------------------------------------------------ models
static mjsBody* add_body(mjsBody* parent, const char* name, double x, double y, double z) {
  mjsBody* b = mjs_addBody(parent, NULL);
  if (name) mjs_setName(b->element, name);
  b->pos[0] = x; b->pos[1] = y; b->pos[2] = z;
  return b;
}
static void add_geom(mjsBody* b, double r) {
  mjsGeom* g = mjs_addGeom(b, NULL);
  g->type = mjGEOM_SPHERE;
  g->size[0] = r;
}
static mjsJoint* add_joint(mjsBody* b, const char* name, mjtJoint type, double ax, double ay, double az) {
  mjsJoint* j = mjs_addJoint(b, NULL);
  mjs_setName(j->element, name);
  j->type = type;
  j->axis[0] = ax; j->axis[1] = ay; j->axis[2] = az;
  return j;
}
static mjsActuator* add_act(mjSpec* s, const char* name, const char* joint) {
  mjsActuator* a = mjs_addActuator(s, NULL);
  mjs_setName(a->element, name);
  a->trntype = mjTRN_JOINT;
  mjs_setString(a->target, joint);
  a->gear[0] = 0.01;
  return a;
}
static void attach_plugin(mjSpec* s, mjsBody* b, const char* pname, const char* iname) {
  // implicit plugin instance, as the MJCF reader does for <plugin plugin="..."/> without instance name
  (void)iname;
  mjs_activatePlugin(s, pname);
  mjs_setString(b->plugin.plugin_name, pname);
  mjs_setString(b->plugin.name, "");
  b->plugin.element = mjs_addPlugin(s)->element;
  b->plugin.active = 1;
}
static void setvec(mjDoubleVec* v, int n, double base) {
  double buf[256];
  for (int i = 0; i < n; i++) buf[i] = base + i;
  mjs_setDouble(v, buf, n);
}

static mjModel* build(int mid) {
  mjSpec* s = mj_makeSpec();
  mjsBody* w = mjs_findBody(s, "world");
  s->option.timestep = 0.002;
  if (mid == 0) {
    // rich model: all dims pairwise distinct (checked by the harness)
    s->nuserdata = 5;
    mjsBody* mc1 = add_body(w, "mc1", 1, 2, 3); mc1->mocap = 1; add_geom(mc1, 0.05);
    mc1->quat[0] = 0; mc1->quat[1] = 1; mc1->quat[2] = 0; mc1->quat[3] = 0;
    mjsBody* mc2 = add_body(w, "mc2", -1, -2, 4); mc2->mocap = 1; add_geom(mc2, 0.05);
    mjsBody* b1 = add_body(w, "b1", 0, 0, 1); add_geom(b1, 0.1);
    mjsJoint* fj = mjs_addFreeJoint(b1); mjs_setName(fj->element, "free1");
    mjsBody* b2 = add_body(b1, "b2", 0.3, 0, 0); add_geom(b2, 0.1);
    add_joint(b2, "ball2", mjJNT_BALL, 0, 0, 1);
    mjsBody* b3 = add_body(w, "b3", 0, 1, 1); add_geom(b3, 0.1);
    mjsJoint* h3 = add_joint(b3, "hinge3", mjJNT_HINGE, 0, 1, 0); h3->ref = 0.25;
    // nq = 7+4+1 = 12, nv = 6+3+1 = 10, nbody = 6
    mjsActuator* a1 = add_act(s, "a1", "hinge3"); a1->dyntype = mjDYN_INTEGRATOR;
    mjsActuator* a2 = add_act(s, "a2", "hinge3"); a2->dyntype = mjDYN_FILTER; a2->dynprm[0] = 0.1;
    mjsActuator* a3 = add_act(s, "a3", "hinge3"); a3->nsample = 4; a3->delay = 0.004;
    add_act(s, "a4", "hinge3");
    // nu = 4, na = 2
    mjsSensor* se = mjs_addSensor(s); mjs_setName(se->element, "s1");
    se->type = mjSENS_JOINTPOS; se->objtype = mjOBJ_JOINT; mjs_setString(se->objname, "hinge3");
    se->nsample = 2; se->delay = 0.002;
    mjsSensor* se2 = mjs_addSensor(s); mjs_setName(se2->element, "s2");
    se2->type = mjSENS_JOINTVEL; se2->objtype = mjOBJ_JOINT; mjs_setString(se2->objname, "hinge3");
    se2->nsample = 3; se2->interval[0] = 0.006; se2->interval[1] = 0;
    // equalities
    for (int i = 0; i < 3; i++) {
      mjsEquality* e = mjs_addEquality(s, NULL);
      char nm[8]; snprintf(nm, sizeof nm, "e%d", i); mjs_setName(e->element, nm);
      e->type = mjEQ_CONNECT; e->objtype = mjOBJ_BODY;
      mjs_setString(e->name1, i == 0 ? "b1" : (i == 1 ? "b2" : "b3"));
      mjs_setString(e->name2, "world");
      e->active = (i != 1);
    }
    attach_plugin(s, b3, "verif.state7", "p1");
    for (int k = 0; k < 2; k++) {
      mjsKey* key = mjs_addKey(s);
      char nm[8]; snprintf(nm, sizeof nm, "k%d", k); mjs_setName(key->element, nm);
      key->time = 1.5 + k;
      double qp[12] = {0.1, 0.2, 0.3 + k, 1, 0, 0, 0, 0, 1, 0, 0, 0.5};
      mjs_setDouble(key->qpos, qp, 12);
      setvec(key->qvel, 10, 0.25 + k);
      setvec(key->act, 2, 0.5 + k);
      setvec(key->ctrl, 4, -0.75 - k);
      double mp[6] = {9, 8, 7, 6, 5, 4 + k};
      double mq[8] = {0, 0, 1, 0, 0, 0, 0, 1};
      mjs_setDouble(key->mpos, mp, 6);
      mjs_setDouble(key->mquat, mq, 8);
    }
  } else if (mid == 1) {
    // minimal: a single hinge; most components are empty
    mjsBody* b1 = add_body(w, "b1", 0, 0, 1); add_geom(b1, 0.1);
    add_joint(b1, "h", mjJNT_HINGE, 0, 1, 0);
  } else if (mid == 2) {
    // mocap-heavy, one plugin with 2 states, one equality, userdata 1, stateless actuators, no history
    s->nuserdata = 1;
    for (int i = 0; i < 3; i++) {
      char nm[8]; snprintf(nm, sizeof nm, "m%d", i);
      mjsBody* mc = add_body(w, nm, i, 2 * i, 1 + i); mc->mocap = 1; add_geom(mc, 0.05);
    }
    mjsBody* b1 = add_body(w, "b1", 0, 0, 1); add_geom(b1, 0.1);
    add_joint(b1, "s1", mjJNT_SLIDE, 0, 0, 1);
    add_joint(b1, "h1", mjJNT_HINGE, 0, 1, 0);
    mjsBody* b2 = add_body(b1, "b2", 0.2, 0, 0); add_geom(b2, 0.1);
    add_joint(b2, "ball", mjJNT_BALL, 0, 0, 1);
    add_act(s, "a1", "s1");
    mjsEquality* e = mjs_addEquality(s, NULL);
    mjs_setName(e->element, "e0");
    e->type = mjEQ_JOINT; e->objtype = mjOBJ_JOINT;
    mjs_setString(e->name1, "s1"); mjs_setString(e->name2, "h1");
    e->data[0] = 0; e->data[1] = 1;
    e->active = 0;
    attach_plugin(s, b2, "verif.state2", "p2");
    mjsKey* key = mjs_addKey(s);
    mjs_setName(key->element, "k0");
    key->time = 0.5;
  } else if (mid == 4) {
    // nu != nactuator: a PID servo with [pos, vel] inputs has two controls; three keyframes, every key field distinct per key
    s->nuserdata = 3;
    mjsBody* mc = add_body(w, "mocap", 0.5, 0, 1); mc->mocap = 1; add_geom(mc, 0.05);
    mjsBody* b1 = add_body(w, "b1", 0, 0, 1); add_geom(b1, 0.1);
    add_joint(b1, "j1", mjJNT_HINGE, 0, 1, 0);
    mjsBody* b2 = add_body(b1, "b2", 0.3, 0, 0); add_geom(b2, 0.1);
    add_joint(b2, "j2", mjJNT_HINGE, 0, 1, 0);
    add_act(s, "motor", "j1");
    mjsActuator* a1 = add_act(s, "pid", "j2");
    a1->gaintype = mjGAIN_PID; a1->biastype = mjBIAS_AFFINE; a1->dyntype = mjDYN_NONE;
    a1->gainprm[0] = 0; a1->gainprm[1] = 10; a1->gainprm[2] = 1;
    mjsActuator* a2 = add_act(s, "filt", "j1"); a2->dyntype = mjDYN_FILTER; a2->dynprm[0] = 0.1;
    for (int k = 0; k < 3; k++) {
      mjsKey* key = mjs_addKey(s);
      char nm[8]; snprintf(nm, sizeof nm, "k%d", k); mjs_setName(key->element, nm);
      double base = 10 * (k + 1);
      key->time = base;
      setvec(key->qpos, 2, base + 0.125);
      setvec(key->qvel, 2, base + 0.25);
      setvec(key->act, 1, base + 0.5);
      setvec(key->ctrl, 4, base + 1);
      setvec(key->mpos, 3, base + 5);
      double mq[4] = {0.5, -0.5, 0.5, (k % 2) ? 0.5 : -0.5};
      mjs_setDouble(key->mquat, mq, 4);
    }
  } else {
    // two plugin instances, muscle-like activation (na = 3), sensors with history only
    s->nuserdata = 2;
    mjsBody* b1 = add_body(w, "b1", 0, 0, 1); add_geom(b1, 0.1);
    add_joint(b1, "h1", mjJNT_HINGE, 0, 1, 0);
    mjsBody* b2 = add_body(b1, "b2", 0.2, 0, 0); add_geom(b2, 0.1);
    add_joint(b2, "h2", mjJNT_HINGE, 1, 0, 0);
    for (int i = 0; i < 3; i++) {
      char nm[8]; snprintf(nm, sizeof nm, "a%d", i);
      mjsActuator* a = add_act(s, nm, i ? "h2" : "h1"); a->dyntype = mjDYN_INTEGRATOR;
    }
    mjsSensor* se = mjs_addSensor(s); mjs_setName(se->element, "s1");
    se->type = mjSENS_JOINTPOS; se->objtype = mjOBJ_JOINT; mjs_setString(se->objname, "h1");
    se->nsample = 5; se->delay = 0.004; se->interval[0] = 0.004; se->interval[1] = -0.002;
    attach_plugin(s, b1, "verif.state7", "pa");
    attach_plugin(s, b2, "verif.state2", "pb");
    mjsBody* mc = add_body(w, "mc", 3, 3, 3); mc->mocap = 1; add_geom(mc, 0.05);
  }
  mjModel* m = mj_compile(s, NULL);
  if (!m) {
    fprintf(stderr, "compile failed for model %d: %s\n", mid, mjs_getError(s));
    exit(4);
  }
  mj_deleteSpec(s);
  return m;
}

//------------------------------------------------------------------ the state components, seen by the harness
// The harness has its OWN list of the integration-state arrays (name, pointer, length, is-bool); it is
// deliberately not derived from mj_stateElemPtr.  Order = order of the mjtState bits.
typedef struct { const char* name; mjtNum* p; mjtBool* b; int n; } Comp;
#define NCOMP 14
static void comps(const mjModel* m, mjData* d, Comp* c) {
  int k = 0;
  c[k++] = (Comp){"time", &d->time, NULL, 1};
  c[k++] = (Comp){"qpos", d->qpos, NULL, (int)m->nq};
  c[k++] = (Comp){"qvel", d->qvel, NULL, (int)m->nv};
  c[k++] = (Comp){"act", d->act, NULL, (int)m->na};
  c[k++] = (Comp){"history", d->history, NULL, (int)m->nhistory};
  c[k++] = (Comp){"qacc_warmstart", d->qacc_warmstart, NULL, (int)m->nv};
  c[k++] = (Comp){"ctrl", d->ctrl, NULL, (int)m->nu};
  c[k++] = (Comp){"qfrc_applied", d->qfrc_applied, NULL, (int)m->nv};
  c[k++] = (Comp){"xfrc_applied", d->xfrc_applied, NULL, 6 * (int)m->nbody};
  c[k++] = (Comp){"eq_active", NULL, d->eq_active, (int)m->neq};
  c[k++] = (Comp){"mocap_pos", d->mocap_pos, NULL, 3 * (int)m->nmocap};
  c[k++] = (Comp){"mocap_quat", d->mocap_quat, NULL, 4 * (int)m->nmocap};
  c[k++] = (Comp){"userdata", d->userdata, NULL, (int)m->nuserdata};
  c[k++] = (Comp){"plugin_state", d->plugin_state, NULL, (int)m->npluginstate};
}

// deterministic integer contents, reproduced by the Coq side: value(tag, comp, j)
//   tag 0/1/2: data sets d, d', d''   (bool arrays: (comp + j) % 2 for tag 0, the complement otherwise)
static int boolval(int tag, int c, int j) { return tag == 0 ? (c + j) % 2 : 1 - (c + j) % 2; }
static long fillval(int tag, int c, int j) { return (long)(tag + 1) * 100000 + (long)c * 1000 + j + 1; }
static void fill(const mjModel* m, mjData* d, int tag) {
  Comp c[NCOMP];
  comps(m, d, c);
  for (int k = 0; k < NCOMP; k++)
    for (int j = 0; j < c[k].n; j++) {
      if (c[k].b) c[k].b[j] = (mjtBool)boolval(tag, k, j);
      else c[k].p[j] = (mjtNum)fillval(tag, k, j);
    }
}
// state vector contents for setState: small signed integers -3..3 derived from (seed, position); same formula in
// harness/props/c26.py and in the Coq pre-amble of the correspondence run
#define M63 0x7FFFFFFFFFFFFFFFULL
static long vecval(long seed, int pos) { return (long)((seed + (long)pos * (pos + 3)) % 7) - 3; }
// checksum modulo 2^63 (same as Model/StateAPI.v : hvec on primitive integers)
static uint64_t hacc(uint64_t h, const mjtNum* v, int n) {
  h = (h * 1000003ULL + (uint64_t)n + 7ULL) & M63;
  for (int i = 0; i < n; i++) h = (h * 1000003ULL + (uint64_t)(long long)v[i] + 7ULL) & M63;
  return h;
}
static int dump(const mjModel* m, mjData* d, mjtNum* out) {
  Comp c[NCOMP];
  comps(m, d, c);
  int n = 0;
  for (int k = 0; k < NCOMP; k++)
    for (int j = 0; j < c[k].n; j++) out[n++] = c[k].b ? (mjtNum)c[k].b[j] : c[k].p[j];
  return n;
}
static void pvec(const mjtNum* v, int n) {
  printf(" %d :", n);
  for (int i = 0; i < n; i++) {
    if (v[i] != (mjtNum)(long long)v[i]) printf(" X%.17g", v[i]);
    else printf(" %lld", (long long)v[i]);
  }
  printf(" ;");
}

#define CANARY 987654321.0
static int count_written(const mjtNum* v, int cap) {
  int n = cap;
  while (n > 0 && v[n - 1] == CANARY) n--;
  return n;
}
// One case: every API function once on (sig, tsig).  Prints the outputs (full or hashed) preceded by `laws`, a
// bitmask of property clauses that FAIL on the implementation outputs, decided by memcmp only:
//   1  length written by mj_getState != mj_stateSize
//   2  mj_setState(d1, mj_getState(d0, sig), sig): a component in sig differs from d0, or one outside sig changed
//   4  mj_getState after mj_setState(w) does not return w (entries of mjtBool components compared after !=0)
//   8  mj_extractState(get(d0,sig), sig, t) != mj_getState(d0, t)   (t subset of sig)
//  16  mj_copyState(d0, d2, sig) != mj_setState(d2, mj_getState(d0, sig), sig)
//  32  d0 modified by get / copy
static void do_case(int mid, int sig, int tsig, long seed, int hashed) {
  const mjModel* m = M[mid];
  static mjData* d[NMODEL][4];
  if (!d[mid][0]) for (int k = 0; k < 4; k++) d[mid][k] = mj_makeData(m);
  mjData *d0 = d[mid][0], *d1 = d[mid][1], *d2 = d[mid][2], *d3 = d[mid][3];
  fill(m, d0, 0); fill(m, d1, 1); fill(m, d2, 2); fill(m, d3, 2);
  int full = mj_stateSize(m, (1 << mjNSTATE) - 1);
  int cap = full + 2;
  int size = mj_stateSize(m, sig);
  mjtNum* buf = malloc(sizeof(mjtNum) * cap * 10);
  mjtNum *v = buf, *w = buf + cap, *x = buf + 2 * cap, *g = buf + 3 * cap, *dmp1 = buf + 4 * cap, *dmp2 = buf + 5 * cap,
         *dmp3 = buf + 6 * cap, *dmp0 = buf + 7 * cap, *y = buf + 8 * cap, *dmp4 = buf + 9 * cap;
  for (int i = 0; i < cap; i++) v[i] = x[i] = g[i] = y[i] = CANARY;
  int laws = 0;
  Comp c0[NCOMP], c1[NCOMP];
  // get
  mj_getState(m, d0, v, sig);
  int nget = count_written(v, cap);
  if (nget != size) laws |= 1;
  // set of a fresh vector into d1, then get back
  for (int i = 0; i < cap; i++) w[i] = (mjtNum)vecval(seed, i);
  mj_setState(m, d1, w, sig);
  int ndump1 = dump(m, d1, dmp1);
  mj_getState(m, d1, g, sig);
  int ng = count_written(g, cap);
  if (ng != size) laws |= 4;
  for (int i = 0; i < ng && i < size; i++)
    if (g[i] != w[i] && !((g[i] == 0 || g[i] == 1) && g[i] == (w[i] != 0) && m->neq > 0 && (sig & mjSTATE_EQ_ACTIVE))) laws |= 4;
  // extract
  mj_extractState(m, v, sig, x, tsig);
  int nx = count_written(x, cap);
  mj_getState(m, d0, y, tsig);
  int ny = count_written(y, cap);
  if (nx != ny || memcmp(x, y, sizeof(mjtNum) * nx)) laws |= 8;
  // copy d0 -> d2
  mj_copyState(m, d0, d2, sig);
  int ndump2 = dump(m, d2, dmp2);
  mj_setState(m, d3, v, sig);
  int ndump4 = dump(m, d3, dmp4);
  if (ndump2 != ndump4 || memcmp(dmp2, dmp4, sizeof(mjtNum) * ndump2)) laws |= 16;
  // set(get(d0)) into a refilled d1: the restore law, observed on every component
  fill(m, d1, 1);
  mj_setState(m, d1, v, sig);
  int ndump3 = dump(m, d1, dmp3);
  comps(m, d0, c0); comps(m, d1, c1);
  for (int k = 0; k < NCOMP; k++)
    for (int j = 0; j < c0[k].n; j++) {
      mjtNum have = c1[k].b ? (mjtNum)c1[k].b[j] : c1[k].p[j];
      mjtNum src = c0[k].b ? (mjtNum)c0[k].b[j] : c0[k].p[j];
      mjtNum keep = c1[k].b ? (mjtNum)boolval(1, k, j) : (mjtNum)fillval(1, k, j);
      if (have != (((sig >> k) & 1) ? src : keep)) laws |= 2;
    }
  // d0 must be unchanged by get/copy
  int ndump0 = dump(m, d0, dmp0);
  for (int k = 0; k < NCOMP; k++)
    for (int j = 0; j < c0[k].n; j++) {
      mjtNum have = c0[k].b ? (mjtNum)c0[k].b[j] : c0[k].p[j];
      mjtNum orig = c0[k].b ? (mjtNum)boolval(0, k, j) : (mjtNum)fillval(0, k, j);
      if (have != orig) laws |= 32;
    }
  if (hashed) {
    // one checksum over (size, then each output vector preceded by its length)
    uint64_t h = (uint64_t)size;
    h = hacc(h, v, nget); h = hacc(h, dmp1, ndump1); h = hacc(h, g, ng); h = hacc(h, x, nx);
    h = hacc(h, dmp2, ndump2); h = hacc(h, dmp3, ndump3); h = hacc(h, dmp0, ndump0);
    printf("%d %d %lld\n", laws, size, (long long)h);
  } else {
    printf("%d %d |", laws, size);
    pvec(v, nget); pvec(dmp1, ndump1); pvec(g, ng); pvec(x, nx); pvec(dmp2, ndump2); pvec(dmp3, ndump3); pvec(dmp0, ndump0);
    printf("\n");
  }
  free(buf);
}

// which calls raise mjERROR
static void do_err(int mid, int sig, int tsig) {
  const mjModel* m = M[mid];
  mjData* d0 = mj_makeData(m);
  mjData* d1 = mj_makeData(m);
  int full = mj_stateSize(m, (1 << mjNSTATE) - 1);
  mjtNum* v = calloc(full + 2, sizeof(mjtNum));
  mjtNum* x = calloc(full + 2, sizeof(mjtNum));
  int r[5] = {0, 0, 0, 0, 0};
  volatile int k;
  for (k = 0; k < 5; k++) {
    in_guard = 1;
    if (setjmp(jb) == 0) {
      if (k == 0) mj_stateSize(m, sig);
      if (k == 1) mj_getState(m, d0, v, sig);
      if (k == 2) mj_setState(m, d1, v, sig);
      if (k == 3) mj_extractState(m, v, sig, x, tsig);
      if (k == 4) mj_copyState(m, d0, d1, sig);
    } else {
      r[k] = 1;
    }
    in_guard = 0;
  }
  printf("%d %d %d %d %d\n", r[0], r[1], r[2], r[3], r[4]);
  free(v); free(x);
  mj_deleteData(d0); mj_deleteData(d1);
}

// make a used mjData: step with inputs, scribble on user-settable arrays
static void use_data(const mjModel* m, mjData* d, int nstep) {
  for (int s = 0; s < nstep; s++) {
    for (int i = 0; i < m->nu; i++) d->ctrl[i] = 0.1 * (i + 1) * ((s % 3) - 1);
    for (int i = 0; i < m->nv; i++) d->qfrc_applied[i] = 0.01 * (i + 1);
    for (int i = 0; i < 6 * m->nbody; i++) d->xfrc_applied[i] = 0.001 * i;
    for (int i = 0; i < m->nuserdata; i++) d->userdata[i] = 5 + i;
    for (int i = 0; i < 3 * m->nmocap; i++) d->mocap_pos[i] += 0.01;
    for (int i = 0; i < m->neq; i++) d->eq_active[i] = (mjtBool)((s + i) % 2);
    mj_step(m, d);
  }
  d->warning[mjWARN_BADQPOS].number = 3;
  d->solver_niter[0] = 9;
  d->maxuse_con = 4;
}

// byte-compare every MJDATA_POINTERS array and the scalar header fields; prints names that differ
static void compare_all(const mjModel* m, const mjData* a, const mjData* b) {
  int nd = 0;
#define X(type, name, nr, nc)                                                          \
  if (memcmp(a->name, b->name, sizeof(type) * (size_t)(m->nr) * (size_t)(nc))) { printf(" %s", #name); nd++; }
  MJDATA_POINTERS
#undef X
#define X(type, name) if (memcmp(&a->name, &b->name, sizeof(type))) { printf(" %s", #name); nd++; }
  MJDATA_SCALAR
#undef X
#define X(type, name, d1, d2) if (memcmp(a->name, b->name, sizeof(type) * (d1) * (d2))) { printf(" %s", #name); nd++; }
  MJDATA_VECTOR
#undef X
#define X(type, name, nr, nc) if ((a->name == NULL) != (b->name == NULL)) { printf(" arena:%s", #name); nd++; }
  MJDATA_ARENA_POINTERS
#undef X
  if (a->pstack != b->pstack) { printf(" pstack"); nd++; }
  if (a->pbase != b->pbase) { printf(" pbase"); nd++; }
  if (a->parena != b->parena) { printf(" parena"); nd++; }
  printf(" | %d", nd);
}

static void pbits(const mjtNum* v, int n) {
  printf(" %d :", n);
  for (int i = 0; i < n; i++) { uint64_t u; memcpy(&u, v + i, 8); printf(" %llu", (unsigned long long)u); }
  printf(" ;");
}

// model quantities that define the documented defaults, as bit patterns (for the harness' own expectation)
static void print_defaults(const mjModel* m) {
  pbits(m->qpos0, m->nq);
  // mocap poses from body_pos/body_quat
  mjtNum* mp = calloc(3 * m->nmocap + 1, sizeof(mjtNum));
  mjtNum* mq = calloc(4 * m->nmocap + 1, sizeof(mjtNum));
  for (int i = 0; i < m->nbody; i++) {
    int id = m->body_mocapid[i];
    if (id >= 0) { memcpy(mp + 3 * id, m->body_pos + 3 * i, 24); memcpy(mq + 4 * id, m->body_quat + 4 * i, 32); }
  }
  pbits(mp, 3 * m->nmocap); pbits(mq, 4 * m->nmocap);
  mjtNum* ea = calloc(m->neq + 1, sizeof(mjtNum));
  for (int i = 0; i < m->neq; i++) ea[i] = m->eq_active0[i];
  pbits(ea, m->neq);
  free(mp); free(mq); free(ea);
  // history layout: per actuator/sensor (adr, n, dim, period, phase)
  printf(" hist %d %d :", (int)(m->nactuator + m->nsensor), (int)m->nactuator);
  for (int i = 0; i < m->nactuator; i++)
    printf(" %d %d 1 0x0p+0 0x0p+0", m->actuator_history[2 * i] > 0 ? m->actuator_historyadr[i] : -1, m->actuator_history[2 * i]);
  for (int i = 0; i < m->nsensor; i++)
    printf(" %d %d %d %a %a", m->sensor_history[2 * i] > 0 ? m->sensor_historyadr[i] : -1, m->sensor_history[2 * i], m->sensor_dim[i],
           m->sensor_interval[2 * i], m->sensor_interval[2 * i + 1]);
  printf(" ; dt %a ;", m->opt.timestep);
  // plugin reset values (contract of the test plugin): 100*(instance+1)+i
  mjtNum* ps = calloc(m->npluginstate + 1, sizeof(mjtNum));
  for (int i = 0; i < m->nplugin; i++) {
    int a = m->plugin_stateadr[i];
    int ns = (i + 1 < m->nplugin ? m->plugin_stateadr[i + 1] : m->npluginstate) - a;
    for (int j = 0; j < ns; j++) ps[a + j] = 100 * (i + 1) + j;
  }
  pbits(ps, m->npluginstate);
  free(ps);
  // neutral ctrl: 1 at ctrladr of SO3/quat actuators
  mjtNum* c0 = calloc(m->nu + 1, sizeof(mjtNum));
  for (int i = 0; i < m->nactuator; i++)
    if (m->actuator_gaintype[i] == mjGAIN_SO3 && m->actuator_ctrlspec[i] == mjCHART_QUAT) c0[m->actuator_ctrladr[i]] = 1;
  pbits(c0, m->nu);
  free(c0);
}

static void print_key(const mjModel* m, int key) {
  if (key < 0 || key >= m->nkey) { printf(" nokey ;"); return; }
  pbits(m->key_time + key, 1);
  pbits(m->key_qpos + key * m->nq, m->nq);
  pbits(m->key_qvel + key * m->nv, m->nv);
  pbits(m->key_act + key * m->na, m->na);
  pbits(m->key_ctrl + key * m->nu, m->nu);
  pbits(m->key_mpos + key * 3 * m->nmocap, 3 * m->nmocap);
  pbits(m->key_mquat + key * 4 * m->nmocap, 4 * m->nmocap);
}

static void do_reset(int mid, int nstep, int key, int usekey) {
  const mjModel* m = M[mid];
  mjData* fresh = mj_makeData(m);
  mjData* used = mj_makeData(m);
  use_data(m, used, nstep);
  // was it really used?
  int changed = memcmp(used->qpos, fresh->qpos, sizeof(mjtNum) * m->nq) != 0 || used->time != fresh->time;
  if (usekey) mj_resetDataKeyframe(m, used, key);
  else mj_resetData(m, used);
  printf("%d |", changed);
  if (usekey) {
    // restrict the full comparison to a data that has the same key loaded through the state API independent path:
    // compare everything against fresh with the key arrays memcpy'd in by the harness
    if (key >= 0 && key < m->nkey) {
      fresh->time = m->key_time[key];
      memcpy(fresh->qpos, m->key_qpos + key * m->nq, sizeof(mjtNum) * m->nq);
      memcpy(fresh->qvel, m->key_qvel + key * m->nv, sizeof(mjtNum) * m->nv);
      memcpy(fresh->act, m->key_act + key * m->na, sizeof(mjtNum) * m->na);
      memcpy(fresh->mocap_pos, m->key_mpos + key * 3 * m->nmocap, sizeof(mjtNum) * 3 * m->nmocap);
      memcpy(fresh->mocap_quat, m->key_mquat + key * 4 * m->nmocap, sizeof(mjtNum) * 4 * m->nmocap);
      memcpy(fresh->ctrl, m->key_ctrl + key * m->nu, sizeof(mjtNum) * m->nu);
    }
  }
  compare_all(m, used, fresh);
  printf(" |");
  // component dump as bit patterns
  Comp c[NCOMP];
  comps(m, used, c);
  for (int k = 0; k < NCOMP; k++) {
    if (c[k].b) {
      mjtNum* t = calloc(c[k].n + 1, sizeof(mjtNum));
      for (int j = 0; j < c[k].n; j++) t[j] = c[k].b[j];
      pbits(t, c[k].n);
      free(t);
    } else pbits(c[k].p, c[k].n);
  }
  printf(" |");
  print_defaults(m);
  printf(" |");
  if (usekey) print_key(m, key);
  printf("\n");
  mj_deleteData(fresh);
  mj_deleteData(used);
}

int main(void) {
  mju_user_error = on_error;
  mju_user_warning = on_warning;
  register_plugins();
  for (int i = 0; i < NMODEL; i++) M[i] = build(i);
  char line[256];
  while (fgets(line, sizeof line, stdin)) {
    char op = line[0];
    int mid = 0, a = 0, b = 0;
    long seed = 0;
    if (op == 'D') {
      for (int i = 0; i < NMODEL; i++) {
        const mjModel* m = M[i];
        printf("dims %d %d %d %d %d %d %d %d %d %d %d %d %d %d;", i, (int)mjNSTATE, (int)m->nq, (int)m->nv, (int)m->na, (int)m->nhistory,
               (int)m->nu, (int)m->nbody, (int)m->neq, (int)m->nmocap, (int)m->nuserdata, (int)m->npluginstate, (int)m->nkey, (int)m->nactuator);
      }
      printf("\n");
    } else if (op == 'F' || op == 'H') {
      sscanf(line + 1, "%d %d %d %ld", &mid, &a, &b, &seed);
      do_case(mid, a, b, seed, op == 'H');
    } else if (op == 'E') {
      sscanf(line + 1, "%d %d %d", &mid, &a, &b);
      do_err(mid, a, b);
    } else if (op == 'R') {
      sscanf(line + 1, "%d %d", &mid, &a);
      do_reset(mid, a, 0, 0);
    } else if (op == 'K') {
      sscanf(line + 1, "%d %d %d", &mid, &a, &b);
      do_reset(mid, b, a, 1);
    }
  }
  return 0;
}
