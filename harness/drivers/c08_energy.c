// C08 driver: energies, spring forces, RK4 energy drift and momentum of the working tree on generated
// models (mjgen.h).  One request per stdin line; the reply is a block of lines "name v v ..." (ints in
// decimal, doubles as C99 hex floats) closed by "END".
//   T seed feat nbody rep        tie data: inputs and outputs of mj_energyPos / mj_energyVel and the joint spring
//                                forces at a random state (polynomial stiffness coefficients randomised here)
//   G seed feat nbody rep        gradient oracle: energy[0] at q +- eps e_k (qvel = 0), qfrc_bias, qfrc_spring
//   D seed feat nbody rep h0 n   drift oracle: conservative version of the model (no damping, friction, actuation,
//                                contacts, constraints), RK4, same initial state integrated over n*h0 seconds with
//                                h0, h0/2, h0/4, h0/8: max |E - E0| and final E for each
//   P seed feat nbody rep h n    momentum oracle: gravity off, free-floating single tree, n RK4 steps of size h:
//                                per-body mass / inertia / pose / velocity data at the start and at the end
#include "mjgen.h"

static void pd(const char* name, const mjtNum* v, int n) {
  printf("%s", name); for (int i = 0; i < n; i++) printf(" %a", (double)v[i]); printf("\n");
}
static void pi(const char* name, const int* v, int n) {
  printf("%s", name); for (int i = 0; i < n; i++) printf(" %d", v[i]); printf("\n");
}
static void p1(const char* name, int v) { printf("%s %d\n", name, v); }

static mjModel* M = NULL; static unsigned long long cs = 0; static unsigned cf = 0; static int cn = -1;
static mjModel* get_model(unsigned long long seed, unsigned feat, int nbody) {
  if (M && cs == seed && cf == feat && cn == nbody) { mj_deleteModel(M); M = NULL; }   // always a fresh copy: requests edit the model
  if (M) { mj_deleteModel(M); M = NULL; }
  M = mjg_model(seed, feat, nbody, NULL);
  cs = seed; cf = feat; cn = nbody;
  return M;
}

// spring coefficients of every joint and tendon: every combination of {linear, quadratic, cubic} coefficient zero / non-zero
// is produced (the mask cycles with the joint index, the repetition and the seed), in particular purely nonlinear springs
// (linear stiffness 0, polynomial coefficients non-zero) and joints without any spring
static void randomize_poly(mjModel* m, mjg_rng* r, unsigned long long seed, int rep) {
  for (int j = 0; j < m->njnt; j++) {
    unsigned mask = (unsigned)((3 * j + rep + seed) % 8);
    m->jnt_stiffness[j] = (mask & 1) ? mjg_range(r, 1, 20) : 0;
    for (int k = 0; k < mjNPOLY; k++) m->jnt_stiffnesspoly[mjNPOLY * j + k] = (mask & (2u << (k % 2))) ? mjg_range(r, 0.5, 10) : 0;
  }
  for (int t = 0; t < m->ntendon; t++) {
    unsigned mask = (unsigned)((3 * t + rep + seed + 5) % 8);
    m->tendon_stiffness[t] = (mask & 1) ? mjg_range(r, 1, 10) : 0;
    for (int k = 0; k < mjNPOLY; k++) m->tendon_stiffnesspoly[mjNPOLY * t + k] = (mask & (2u << (k % 2))) ? mjg_range(r, 0.5, 10) : 0;
    // a dead band on some tendon springs
    if (mjg_chance(r, 0.5)) { m->tendon_lengthspring[2 * t] -= 0.1; m->tendon_lengthspring[2 * t + 1] += 0.05; }
  }
}

// remove every non-conservative element
static void make_conservative(mjModel* m) {
  mju_zero(m->dof_damping, m->nv); mju_zero(m->dof_dampingpoly, mjNPOLY * m->nv);
  mju_zero(m->dof_frictionloss, m->nv);
  mju_zero(m->tendon_damping, m->ntendon); mju_zero(m->tendon_dampingpoly, mjNPOLY * m->ntendon); mju_zero(m->tendon_frictionloss, m->ntendon);
  mju_zero(m->body_gravcomp, m->nbody);
  m->opt.disableflags |= mjDSBL_CONTACT | mjDSBL_CONSTRAINT | mjDSBL_ACTUATION | mjDSBL_DAMPER;
  m->opt.density = 0; m->opt.viscosity = 0; mju_zero3(m->opt.wind);
  m->opt.enableflags |= mjENBL_ENERGY;
  m->opt.integrator = mjINT_RK4;
}

static void clear_inputs(const mjModel* m, mjData* d) {
  mju_zero(d->qfrc_applied, m->nv); mju_zero(d->xfrc_applied, 6 * m->nbody); mju_zero(d->ctrl, m->nu);
}

static void dump_bodies(const char* pre, const mjModel* m, mjData* d) {
  // per body: inertial pose and the 6D velocity of the inertial frame in world orientation; subtree quantities
  char nm[64];
  mj_forward(m, d); mj_subtreeVel(m, d);
  snprintf(nm, sizeof(nm), "%sxipos", pre); pd(nm, d->xipos, 3 * m->nbody);
  snprintf(nm, sizeof(nm), "%sximat", pre); pd(nm, d->ximat, 9 * m->nbody);
  mjtNum* vel = (mjtNum*)calloc(6 * m->nbody, sizeof(mjtNum));
  for (int b = 0; b < m->nbody; b++) mj_objectVelocity(m, d, mjOBJ_BODY, b, vel + 6 * b, 0);
  snprintf(nm, sizeof(nm), "%svel", pre); pd(nm, vel, 6 * m->nbody);
  free(vel);
  snprintf(nm, sizeof(nm), "%ssubtree_com", pre); pd(nm, d->subtree_com, 3 * m->nbody);
  snprintf(nm, sizeof(nm), "%ssubtree_linvel", pre); pd(nm, d->subtree_linvel, 3 * m->nbody);
  snprintf(nm, sizeof(nm), "%ssubtree_angmom", pre); pd(nm, d->subtree_angmom, 3 * m->nbody);
  snprintf(nm, sizeof(nm), "%senergy", pre); pd(nm, d->energy, 2);
  snprintf(nm, sizeof(nm), "%sqvel", pre); pd(nm, d->qvel, m->nv);
}

int main(void) {
  mjg_install_handlers();
  char* line = NULL; size_t cap = 0;
  while (getline(&line, &cap, stdin) > 0) {
    char* p = line; char op = *p++;
    unsigned long long seed = strtoull(p, &p, 10); unsigned feat = (unsigned)strtoul(p, &p, 10);
    int nbody = (int)strtol(p, &p, 10); int rep = (int)strtol(p, &p, 10);
    mjModel* m = get_model(seed, feat, nbody);
    if (!m) { printf("ERR compile\nEND\n"); fflush(stdout); continue; }
    mjg_rng r = { seed * 1009 + (unsigned long long)rep * 7919 + 29 };
    int nv = m->nv, nq = m->nq;
    int err = 0;
    mjData* d = NULL;
    if (MJG_TRY) {
      if (op == 'T' || op == 'G') {
        randomize_poly(m, &r, seed, rep);
        m->opt.enableflags |= mjENBL_ENERGY;
        if (rep % 5 == 3) m->opt.disableflags |= mjDSBL_GRAVITY;
        if (rep % 7 == 4) m->opt.disableflags |= mjDSBL_SPRING;
        m->opt.disableflags |= mjDSBL_CONTACT;
        d = mj_makeData(m);
        mjg_random_state(m, d, &r, 1.0); clear_inputs(m, d);
        if (rep % 3 == 2) for (int j = 0; j < m->njnt; j++) if (m->jnt_type[j] == mjJNT_BALL) for (int i = 0; i < 4; i++) d->qpos[m->jnt_qposadr[j] + i] *= 1.7;  // unnormalised
        if (op == 'G') mju_zero(d->qvel, nv);
        mj_forward(m, d);
        p1("nbody", m->nbody); p1("njnt", m->njnt); p1("nv", nv); p1("nq", nq); p1("ntendon", m->ntendon); p1("npoly", mjNPOLY);
        p1("grav_on", !(m->opt.disableflags & mjDSBL_GRAVITY)); p1("spring_on", !(m->opt.disableflags & mjDSBL_SPRING));
        pd("gravity", m->opt.gravity, 3); pd("body_mass", m->body_mass, m->nbody); pd("xipos", d->xipos, 3 * m->nbody);
        pi("jnt_type", m->jnt_type, m->njnt); pi("jnt_qposadr", m->jnt_qposadr, m->njnt); pi("jnt_dofadr", m->jnt_dofadr, m->njnt);
        pd("jnt_stiffness", m->jnt_stiffness, m->njnt); pd("jnt_stiffnesspoly", m->jnt_stiffnesspoly, mjNPOLY * m->njnt);
        pd("qpos", d->qpos, nq); pd("qpos_spring", m->qpos_spring, nq); pd("qvel", d->qvel, nv);
        pd("tendon_stiffness", m->tendon_stiffness, m->ntendon); pd("tendon_stiffnesspoly", m->tendon_stiffnesspoly, mjNPOLY * m->ntendon);
        pd("tendon_lengthspring", m->tendon_lengthspring, 2 * m->ntendon); pd("ten_length", d->ten_length, m->ntendon);
        pi("M_rownnz", m->M_rownnz, nv); pi("M_rowadr", m->M_rowadr, nv); pi("M_colind", m->M_colind, m->nC); pd("M", d->M, m->nC);
        pd("energy", d->energy, 2); pd("qfrc_spring", d->qfrc_spring, nv); pd("qfrc_bias", d->qfrc_bias, nv);
        pd("dof_armature", m->dof_armature, nv); pd("body_inertia", m->body_inertia, 3 * m->nbody);
        // independent data for the kinetic-energy oracle
        mjtNum* full = (mjtNum*)calloc((size_t)nv * nv + 1, sizeof(mjtNum)); mj_fullM(m, d, full); pd("fullM", full, nv * nv); free(full);
        mjtNum* vel = (mjtNum*)calloc(6 * m->nbody, sizeof(mjtNum));
        for (int b = 0; b < m->nbody; b++) mj_objectVelocity(m, d, mjOBJ_BODY, b, vel + 6 * b, 1);   // in the inertial frame
        pd("vel_local", vel, 6 * m->nbody); free(vel);
        if (op == 'G') {
          mjtNum eps = 1e-6; pd("eps", &eps, 1);
          mjtNum* q0 = (mjtNum*)calloc(nq + 1, sizeof(mjtNum)); mjtNum* dv = (mjtNum*)calloc(nv + 1, sizeof(mjtNum));
          mjtNum* ep = (mjtNum*)calloc(nv + 1, sizeof(mjtNum)); mjtNum* em = (mjtNum*)calloc(nv + 1, sizeof(mjtNum));
          memcpy(q0, d->qpos, sizeof(mjtNum) * nq);
          for (int k = 0; k < nv; k++) for (int sg = 0; sg < 2; sg++) {
            mju_zero(dv, nv); dv[k] = 1;
            memcpy(d->qpos, q0, sizeof(mjtNum) * nq);
            mj_integratePos(m, d->qpos, dv, sg ? -eps : eps);
            mj_forward(m, d);
            (sg ? em : ep)[k] = d->energy[0];
          }
          pd("epot_plus", ep, nv); pd("epot_minus", em, nv);
          free(q0); free(dv); free(ep); free(em);
        }
      } else if (op == 'D') {
        double h0 = strtod(p, &p); int n = (int)strtol(p, &p, 10);
        if (rep > 1) randomize_poly(m, &r, seed, rep);      // rep <= 1: the model's own (linear) springs
        make_conservative(m);
        d = mj_makeData(m);
        mjtNum* q0 = (mjtNum*)calloc(nq + 1, sizeof(mjtNum)); mjtNum* v0 = (mjtNum*)calloc(nv + 1, sizeof(mjtNum));
        mjg_random_state(m, d, &r, 1.0); clear_inputs(m, d);
        memcpy(q0, d->qpos, sizeof(mjtNum) * nq); memcpy(v0, d->qvel, sizeof(mjtNum) * nv);
        p1("nv", nv); p1("njnt", m->njnt); pi("jnt_type", m->jnt_type, m->njnt); p1("npoly", mjNPOLY);
        pd("jnt_stiffness", m->jnt_stiffness, m->njnt); pd("jnt_stiffnesspoly", m->jnt_stiffnesspoly, mjNPOLY * m->njnt);
        mjtNum drift[4], efin[4], e0 = 0, escale = 0;
        for (int lev = 0; lev < 4; lev++) {
          m->opt.timestep = h0 / (1 << lev);
          mj_resetData(m, d);
          memcpy(d->qpos, q0, sizeof(mjtNum) * nq); memcpy(d->qvel, v0, sizeof(mjtNum) * nv);
          mj_forward(m, d);
          e0 = d->energy[0] + d->energy[1]; escale = fabs(d->energy[0]) + fabs(d->energy[1]);
          mjtNum mx = 0;
          int steps = n * (1 << lev);
          for (int s = 0; s < steps; s++) {
            mj_step(m, d);
            if ((s + 1) % (1 << lev) == 0) {      // compare at the common times k*h0: energy of the state after the step
              mj_forward(m, d);
              mjtNum e = d->energy[0] + d->energy[1];
              if (fabs(e - e0) > mx) mx = fabs(e - e0);
              efin[lev] = e;
            }
          }
          drift[lev] = mx;
        }
        pd("e0", &e0, 1); pd("escale", &escale, 1); pd("drift", drift, 4); pd("efin", efin, 4);
        p1("warnings", d->warning[mjWARN_BADQPOS].number + d->warning[mjWARN_BADQVEL].number + d->warning[mjWARN_BADQACC].number);
        free(q0); free(v0);
      } else if (op == 'P') {
        double h = strtod(p, &p); int n = (int)strtol(p, &p, 10);
        make_conservative(m);
        mju_zero3(m->opt.gravity);
        m->opt.timestep = h;
        // free-floating: every body attached to the world must carry a free joint
        int floating = 1;
        for (int b = 1; b < m->nbody; b++) if (m->body_parentid[b] == 0 && !(m->body_jntnum[b] == 1 && m->jnt_type[m->body_jntadr[b]] == mjJNT_FREE)) floating = 0;
        p1("floating", floating); p1("nbody", m->nbody); p1("nv", nv);
        pi("body_parentid", m->body_parentid, m->nbody);
        pd("body_mass", m->body_mass, m->nbody); pd("body_inertia", m->body_inertia, 3 * m->nbody);
        d = mj_makeData(m);
        mjg_random_state(m, d, &r, 2.0); clear_inputs(m, d);
        dump_bodies("A_", m, d);
        for (int s = 0; s < n; s++) mj_step(m, d);
        dump_bodies("B_", m, d);
        p1("warnings", d->warning[mjWARN_BADQPOS].number + d->warning[mjWARN_BADQVEL].number + d->warning[mjWARN_BADQACC].number);
      } else err = 1;
      MJG_END;
    } else err = 2;
    if (err) printf("ERR %d %s\n", err, mjg_last_error);
    printf("END\n"); fflush(stdout);
    if (d) mj_deleteData(d);
  }
  return 0;
}
