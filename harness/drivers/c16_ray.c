// C16 driver: reaches the static functions of the working tree's engine_ray.c by including it
// (ray_eliminate, ray_quad) and runs mj_ray / mj_multiRay / mju_rayGeom on generated scenes.
//
// stdin commands:
//   ELIM bodyid bodyexclude matid galpha malpha flg_static weld usegroup g0..g5 group   -> "r"
//   QUAD a b c  (hex doubles)                                 -> "ret x0 x1" (hex)
//   GEOM type pos[3] mat[9] size[3] pnt[3] vec[3] (hex)       -> "dist" (hex)
//   ROW n (d_i r_i group_i static_i alpha0_i)*n  usegroup g0..g5 flg_static bodyexclude
//        spheres on the +x axis whose front surface is at integer distance d_i (d_i < 0: behind the
//        origin), one body per sphere (static_i = 1: no joint)          -> "dist geomid" (mj_ray), hex
//   CORPUS which                                               -> "CORPUS which d_ray g_ray d_multi g_multi" (hex)
//   SCENE seed nb nray usegroup g0..g5 flg_static bodyexclude cutoff  -> multi-line report, ends "END"
#include <math.h>
#include <setjmp.h>
#include <signal.h>
#include <stdio.h>
#include <stdlib.h>
#include <string.h>

#include <mujoco/mujoco.h>
#include "mjgen.h"
#include "engine/engine_ray.c"

// a crash (SIGSEGV / SIGFPE / SIGBUS) inside one command is attributed to that command: the handler jumps
// back to the command loop, which prints a CRASH line (multi-line commands also print END)
static sigjmp_buf crash_jmp;
static volatile sig_atomic_t crash_armed = 0;
static void on_crash(int sig) {
  if (crash_armed) { crash_armed = 0; siglongjmp(crash_jmp, sig); }
  signal(sig, SIG_DFL); raise(sig);
}
static void install_crash_handlers(void) {
  struct sigaction sa; memset(&sa, 0, sizeof(sa)); sa.sa_handler = on_crash; sa.sa_flags = SA_NODEFER;
  sigaction(SIGSEGV, &sa, NULL); sigaction(SIGBUS, &sa, NULL); sigaction(SIGFPE, &sa, NULL);
}

static void gname(char* buf, int i) { snprintf(buf, 32, "g%d", i); }
static const char* oneline(const char* msg) {
  static char buf[512]; snprintf(buf, sizeof(buf), "%s", msg ? msg : "");
  for (char* p = buf; *p; p++) if (*p == '\n' || *p == '\r') *p = ' ';
  return buf;
}

// explicit inertial frame, decoupled from the body frame and from the geoms (xipos != xpos, ximat != xmat)
static void random_inertial(mjg_rng* r, mjsBody* b) {
  b->explicitinertial = 1;
  b->mass = mjg_range(r, 0.2, 3);
  for (int i = 0; i < 3; i++) { b->ipos[i] = mjg_range(r, -0.4, 0.4); b->inertia[i] = mjg_range(r, 0.1, 0.15); }
  mjg_quat(r, b->iquat);
}

static void add_geoms(mjg_rng* r, mjsBody* body, int ng, int* ngeom, int allow_plane, double sz) {
  // lopsided bodies: geoms strung out along one axis with very different densities, so that the BVH root box is far
  // from the centre of mass and the principal axes are not the body axes
  int lop = ng > 1 && mjg_chance(r, 0.5), lax = mjg_int(r, 3);
  for (int k = 0; k < ng; k++) {
    mjsGeom* g = mjs_addGeom(body, NULL);
    char nm[32]; gname(nm, (*ngeom)++); mjs_setName(g->element, nm);
    int t = mjg_int(r, allow_plane ? 9 : 8);
    g->type = t <= 1 ? mjGEOM_SPHERE : t <= 3 ? mjGEOM_BOX : t == 4 ? mjGEOM_CAPSULE : t == 5 ? mjGEOM_ELLIPSOID
            : t == 6 ? mjGEOM_CYLINDER : t == 7 ? mjGEOM_BOX : mjGEOM_PLANE;
    if (g->type == mjGEOM_PLANE) { g->size[0] = mjg_chance(r, 0.5) ? 0 : mjg_range(r, 0.3, 2); g->size[1] = mjg_chance(r, 0.5) ? 0 : mjg_range(r, 0.3, 2); g->size[2] = 0.1; }
    else { for (int i = 0; i < 3; i++) g->size[i] = mjg_range(r, 0.3 * sz, sz); }
    for (int i = 0; i < 3; i++) g->pos[i] = mjg_range(r, -sz, sz);
    if (lop) { g->pos[lax] = mjg_range(r, -4 * sz, 4 * sz); g->density = 1000 * pow(10, mjg_range(r, -1.5, 1.5)); }
    if (mjg_chance(r, 0.7)) mjg_quat(r, g->quat);
    g->group = mjg_int(r, 8) - 1;                       // -1..6: exercises the clamp to 0..5
    if (mjg_chance(r, 0.12)) g->rgba[3] = 0;            // invisible
    if (mjg_chance(r, 0.2)) mjs_setString(g->material, mjg_chance(r, 0.5) ? "mvis" : "minv");
  }
}

static mjSpec* scene_spec(uint64_t seed, int nb) {
  mjg_rng R = { seed * 0x9E3779B97F4A7C15ULL + 4242 }; mjg_rng* r = &R;
  mjSpec* s = mj_makeSpec();
  s->memory = 1 << 26;
  s->compiler.inertiagrouprange[0] = -10; s->compiler.inertiagrouprange[1] = 10;   // groups outside 0..5 still carry mass
  mjsBody* world = mjs_findBody(s, "world");
  mjsMaterial* mv = mjs_addMaterial(s, NULL); mjs_setName(mv->element, "mvis"); mv->rgba[3] = 1;
  mjsMaterial* mi = mjs_addMaterial(s, NULL); mjs_setName(mi->element, "minv"); mi->rgba[3] = 0;
  int ngeom = 0, nbody = 0;
  double side = 0.5 + 0.45 * cbrt((double)nb), sz = 0.3;
  char nm[32];
  if (mjg_chance(r, 0.6)) {
    mjsGeom* g = mjs_addGeom(world, NULL); g->type = mjGEOM_PLANE; g->size[0] = g->size[1] = 0; g->size[2] = 0.1;
    g->pos[2] = -side; gname(nm, ngeom++); mjs_setName(g->element, nm); g->group = mjg_int(r, 3);
  }
  if (mjg_chance(r, 0.5)) add_geoms(r, world, 1 + mjg_int(r, 2), &ngeom, 1, sz);
  mjsBody** bodies = (mjsBody**)calloc(nb + 8, sizeof(mjsBody*));
  if (mjg_chance(r, 0.5)) {      // static child of the world
    mjsBody* sb = mjs_addBody(world, NULL); snprintf(nm, 32, "b%d", nbody); mjs_setName(sb->element, nm); bodies[nbody++] = sb;
    for (int i = 0; i < 3; i++) sb->pos[i] = mjg_range(r, -side, side);
    add_geoms(r, sb, 1 + mjg_int(r, 3), &ngeom, 1, sz);
    if (mjg_chance(r, 0.5)) {    // jointless grandchild: still welded to the world
      mjsBody* sc = mjs_addBody(sb, NULL); snprintf(nm, 32, "b%d", nbody); mjs_setName(sc->element, nm); bodies[nbody++] = sc;
      for (int i = 0; i < 3; i++) sc->pos[i] = mjg_range(r, -0.4, 0.4);
      add_geoms(r, sc, 1 + mjg_int(r, 2), &ngeom, 0, sz);
    }
  }
  if (mjg_chance(r, 0.4)) {      // mocap body
    mjsBody* mb = mjs_addBody(world, NULL); snprintf(nm, 32, "b%d", nbody); mjs_setName(mb->element, nm); bodies[nbody++] = mb;
    mb->mocap = 1;
    for (int i = 0; i < 3; i++) mb->pos[i] = mjg_range(r, -side, side);
    add_geoms(r, mb, 1 + mjg_int(r, 2), &ngeom, 0, sz);
  }
  int first_moving = nbody;
  for (int b = 0; b < nb; b++) {
    mjsBody* parent = world; int root = 1;
    if (b > 0 && mjg_chance(r, 0.4)) { parent = bodies[first_moving + mjg_int(r, b)]; root = 0; }
    mjsBody* body = mjs_addBody(parent, NULL); snprintf(nm, 32, "b%d", nbody); mjs_setName(body->element, nm); bodies[nbody++] = body;
    if (root) { for (int i = 0; i < 3; i++) body->pos[i] = mjg_range(r, -side, side); }
    else      { for (int i = 0; i < 3; i++) body->pos[i] = mjg_range(r, -0.4, 0.4); }
    if (mjg_chance(r, 0.5)) mjg_quat(r, body->quat);
    int kind = root ? (mjg_chance(r, 0.7) ? 0 : 3) : 1 + mjg_int(r, 4);    // 0 free 1 ball 2 slide 3 hinge 4 welded
    if (kind != 4) {
      mjsJoint* j = mjs_addJoint(body, NULL);
      j->type = kind == 0 ? mjJNT_FREE : kind == 1 ? mjJNT_BALL : kind == 2 ? mjJNT_SLIDE : mjJNT_HINGE;
      if (kind >= 2) { for (int i = 0; i < 3; i++) j->axis[i] = mjg_range(r, -1, 1); if (fabs(j->axis[0]) + fabs(j->axis[1]) + fabs(j->axis[2]) < 0.1) j->axis[2] = 1; }
    }
    add_geoms(r, body, mjg_chance(r, 0.5) ? 1 : 1 + mjg_int(r, 4), &ngeom, 0, sz);
    if (mjg_chance(r, 0.3)) random_inertial(r, body);
  }
  free(bodies);
  return s;
}

static void scene_state(const mjModel* m, mjData* d, uint64_t seed) {
  mjg_rng R = { seed * 0xD1342543DE82EF95ULL + 5 }; mjg_rng* r = &R;
  for (int j = 0; j < m->njnt; j++) {
    int a = m->jnt_qposadr[j];
    switch (m->jnt_type[j]) {
      case mjJNT_FREE: { for (int i = 0; i < 3; i++) d->qpos[a + i] = m->qpos0[a + i] + mjg_range(r, -0.2, 0.2);
                         double q[4]; mjg_quat(r, q); for (int i = 0; i < 4; i++) d->qpos[a + 3 + i] = q[i]; } break;
      case mjJNT_BALL: { double q[4]; mjg_quat(r, q); for (int i = 0; i < 4; i++) d->qpos[a + i] = q[i]; } break;
      default: d->qpos[a] = m->qpos0[a] + mjg_range(r, -0.6, 0.6);
    }
  }
  for (int i = 0; i < m->nmocap; i++) for (int k = 0; k < 3; k++) d->mocap_pos[3 * i + k] += mjg_range(r, -0.2, 0.2);
}

static int rd_group(mjtByte gg[6], int* use) {
  int u; if (scanf("%d", &u) != 1) return 0; *use = u;
  for (int i = 0; i < 6; i++) { int v; if (scanf("%d", &v) != 1) return 0; gg[i] = (mjtByte)v; }
  return 1;
}

static void run_scene(void) {
  unsigned long long seed; int nb, nray, use, flg_static, bodyexclude; mjtByte gg[6]; double cutoff;
  if (scanf("%llu %d %d", &seed, &nb, &nray) != 3 || !rd_group(gg, &use) || scanf("%d %d %lf", &flg_static, &bodyexclude, &cutoff) != 3) exit(2);
  mjSpec* s = scene_spec(seed, nb);
  mjModel* m = mj_compile(s, NULL);
  if (!m) { printf("SCENE fail %s\nEND\n", oneline(mjs_getError(s))); mj_deleteSpec(s); return; }
  mjData* d = mj_makeData(m);
  scene_state(m, d, seed);
  mj_kinematics(m, d); mj_comPos(m, d);
  if (bodyexclude >= m->nbody) bodyexclude = m->nbody - 1;
  printf("SCENE ok %d %d %d\n", m->ngeom, m->nbody, bodyexclude);
  for (int g = 0; g < m->ngeom; g++) {
    int mat = m->geom_matid[g];
    printf("G %d %d %d %d %d %d %d %d %a\n", g, m->geom_type[g], m->geom_bodyid[g], mat, m->geom_rgba[4 * g + 3] == 0,
           mat >= 0 ? (m->mat_rgba[4 * mat + 3] == 0) : 0, m->body_weldid[m->geom_bodyid[g]], m->geom_group[g], m->geom_rbound[g]);
  }
  for (int b = 0; b < m->nbody; b++)
    printf("B %d %d %d %d\n", b, m->body_parentid[b], m->body_jntnum[b], m->body_mocapid[b] >= 0);
  // ray origins: a few per scene; directions random, some axis-aligned
  mjg_rng R = { seed * 0x2545F4914F6CDD1DULL + 31 }; mjg_rng* r = &R;
  double side = 0.5 + 0.45 * cbrt((double)nb);
  mjtNum pnt[3]; for (int i = 0; i < 3; i++) pnt[i] = mjg_range(r, -1.3 * side, 1.3 * side);
  if (mjg_chance(r, 0.3) && m->ngeom > 0) {    // start inside / near a geom
    int g = mjg_int(r, m->ngeom); for (int i = 0; i < 3; i++) pnt[i] = d->geom_xpos[3 * g + i] + mjg_range(r, -0.05, 0.05);
  }
  mjtNum* vec = (mjtNum*)malloc(sizeof(mjtNum) * 3 * nray);
  for (int k = 0; k < nray; k++) {
    int mode = mjg_int(r, 10);
    if (mode == 0) { for (int i = 0; i < 3; i++) vec[3 * k + i] = 0; vec[3 * k + mjg_int(r, 3)] = mjg_chance(r, 0.5) ? 1 : -1; }
    else if (mode <= 5 && m->ngeom > 0) {      // aim at a geom (with jitter)
      int g = mjg_int(r, m->ngeom);
      for (int i = 0; i < 3; i++) vec[3 * k + i] = d->geom_xpos[3 * g + i] - pnt[i] + mjg_range(r, -0.25, 0.25);
      if (mju_norm3(vec + 3 * k) < 1e-3) vec[3 * k + 2] = 1;
      if (mjg_chance(r, 0.5)) mju_normalize3(vec + 3 * k);
    } else { for (int i = 0; i < 3; i++) vec[3 * k + i] = mjg_range(r, -1, 1); if (mju_norm3(vec + 3 * k) < 1e-3) vec[3 * k] = 1; }
  }
  printf("P %a %a %a\n", pnt[0], pnt[1], pnt[2]);
  int* gid = (int*)malloc(sizeof(int) * nray); mjtNum* dist = (mjtNum*)malloc(sizeof(mjtNum) * nray);
  mjtNum* nrm = (mjtNum*)malloc(sizeof(mjtNum) * 3 * nray);
  for (int k = 0; k < nray; k++) gid[k] = 12345;
  mj_multiRay(m, d, pnt, vec, use ? gg : NULL, (mjtBool)flg_static, bodyexclude, gid, dist, nrm, nray, cutoff);
  for (int k = 0; k < nray; k++) {
    int g1 = -7; mjtNum n1[3];
    mjtNum d1 = mj_ray(m, d, pnt, vec + 3 * k, use ? gg : NULL, (mjtBool)flg_static, bodyexclude, &g1, n1);
    int g0 = -7; mjtNum d0 = mj_ray(m, d, pnt, vec + 3 * k, use ? gg : NULL, (mjtBool)flg_static, bodyexclude, &g0, NULL);
    printf("R %d %a %a %a %a %d %a %d %d %a", k, vec[3 * k], vec[3 * k + 1], vec[3 * k + 2], d1, g1, dist[k], gid[k], g0 == g1, d0);
    // brute force table: mju_rayGeom on every primitive geom
    for (int g = 0; g < m->ngeom; g++) {
      mjtNum x = mju_rayGeom(d->geom_xpos + 3 * g, d->geom_xmat + 9 * g, m->geom_size + 3 * g, pnt, vec + 3 * k, m->geom_type[g], NULL);
      printf(" %a", x);
    }
    // normals agree between the two entry points when both hit
    int nsame = 1;
    if (d1 >= 0 && dist[k] == d1 && gid[k] == g1 && g1 >= 0 && g1 < m->ngeom) for (int i = 0; i < 3; i++) if (n1[i] != nrm[3 * k + i]) nsame = 0;
    printf(" %d\n", nsame);
  }
  // geometry of every (primitive) geom: N-correspondence for plane / sphere / box, analytic oracle for all
  for (int g = 0; g < m->ngeom; g++) {
    int t = m->geom_type[g];
    printf("X %d %d", g, t);
    for (int i = 0; i < 3; i++) printf(" %a", d->geom_xpos[3 * g + i]);
    for (int i = 0; i < 9; i++) printf(" %a", d->geom_xmat[9 * g + i]);
    for (int i = 0; i < 3; i++) printf(" %a", m->geom_size[3 * g + i]);
    printf("\n");
  }
  printf("END\n");
  free(vec); free(gid); free(dist); free(nrm);
  mj_deleteData(d); mj_deleteModel(m); mj_deleteSpec(s);
}

static void run_row(void) {
  int n; if (scanf("%d", &n) != 1) exit(2);
  mjSpec* s = mj_makeSpec();
  s->compiler.inertiagrouprange[0] = -10; s->compiler.inertiagrouprange[1] = 10;
  mjsBody* world = mjs_findBody(s, "world");
  for (int i = 0; i < n; i++) {
    int di, grp, st, a0; double ri;
    if (scanf("%d %lf %d %d %d", &di, &ri, &grp, &st, &a0) != 5) exit(2);
    mjsBody* b = mjs_addBody(world, NULL);
    // front surface at distance di > 0 from the origin: centre di + r; di < 0: wholly behind the origin
    b->pos[0] = di >= 0 ? di + ri : di - ri; b->pos[1] = 0; b->pos[2] = 0;
    if (!st) { mjsJoint* j = mjs_addJoint(b, NULL); j->type = mjJNT_SLIDE; j->axis[0] = 0; j->axis[1] = 1; j->axis[2] = 0; }
    mjsGeom* g = mjs_addGeom(b, NULL); g->type = mjGEOM_SPHERE; g->size[0] = ri; g->group = grp;
    if (a0) g->rgba[3] = 0;
  }
  int use, flg_static, bodyexclude; mjtByte gg[6];
  if (!rd_group(gg, &use) || scanf("%d %d", &flg_static, &bodyexclude) != 2) exit(2);
  mjModel* m = mj_compile(s, NULL);
  if (!m) { printf("ROW fail %s\n", oneline(mjs_getError(s))); mj_deleteSpec(s); return; }
  mjData* d = mj_makeData(m);
  mj_kinematics(m, d); mj_comPos(m, d);
  mjtNum pnt[3] = {0, 0, 0}, vec[3] = {1, 0, 0};
  int gid = -7, gid2 = 12345; mjtNum dm;
  mjtNum dist = mj_ray(m, d, pnt, vec, use ? gg : NULL, (mjtBool)flg_static, bodyexclude, &gid, NULL);
  mj_multiRay(m, d, pnt, vec, use ? gg : NULL, (mjtBool)flg_static, bodyexclude, &gid2, &dm, NULL, 1, mjMAXVAL);
  printf("ROW %a %d %a %d\n", dist, gid, dm, gid2);
  mj_deleteData(d); mj_deleteModel(m); mj_deleteSpec(s);
}

// fixed corpus scenes (found by the random oracle, minimised by hand):
//  BVHROT: a free body rotated by 90 deg about x with two spheres of very different size; its BVH root box is
//          off-centre in the inertial frame, the ray hits the small sphere.
//  PLANECUT: infinite ground plane, ray origin 10 m away from the plane's frame origin but 1 m above the plane.
static void run_corpus(int which) {
  mjSpec* s = mj_makeSpec();
  mjsBody* world = mjs_findBody(s, "world");
  mjtNum pnt[3], vec[3] = {0, 0, 0}, cutoff;
  if (which == 0) {
    mjsBody* b = mjs_addBody(world, NULL);
    b->quat[0] = 0.70710678118654757; b->quat[1] = 0.70710678118654757; b->quat[2] = 0; b->quat[3] = 0;
    mjsJoint* j = mjs_addJoint(b, NULL); j->type = mjJNT_FREE;
    mjsGeom* g1 = mjs_addGeom(b, NULL); g1->type = mjGEOM_SPHERE; g1->size[0] = 0.1;
    mjsGeom* g2 = mjs_addGeom(b, NULL); g2->type = mjGEOM_SPHERE; g2->size[0] = 0.3; g2->pos[2] = 1;
    pnt[0] = -2; pnt[1] = 0; pnt[2] = 0; vec[0] = 1; cutoff = mjMAXVAL;
  } else if (which == 2) {
    // inertial frame rotated against the body frame (explicit iquat = 90 deg about z, ipos off the geoms), body frame = world frame
    mjsBody* b = mjs_addBody(world, NULL);
    mjsJoint* j = mjs_addJoint(b, NULL); j->type = mjJNT_FREE;
    b->explicitinertial = 1; b->mass = 1; b->ipos[0] = 0.3; b->inertia[0] = b->inertia[1] = b->inertia[2] = 0.1;
    b->iquat[0] = 0.70710678118654757; b->iquat[1] = 0; b->iquat[2] = 0; b->iquat[3] = 0.70710678118654757;
    mjsGeom* g1 = mjs_addGeom(b, NULL); g1->type = mjGEOM_SPHERE; g1->size[0] = 0.1;
    mjsGeom* g2 = mjs_addGeom(b, NULL); g2->type = mjGEOM_SPHERE; g2->size[0] = 0.1; g2->pos[0] = 2;
    pnt[0] = 2; pnt[1] = -2; pnt[2] = 0; vec[1] = 1; cutoff = mjMAXVAL;
  } else {
    mjsGeom* g = mjs_addGeom(world, NULL); g->type = mjGEOM_PLANE; g->size[0] = g->size[1] = 0; g->size[2] = 0.1;
    mjsBody* b = mjs_addBody(world, NULL); b->pos[2] = 5;
    mjsJoint* j = mjs_addJoint(b, NULL); j->type = mjJNT_FREE;
    mjsGeom* g1 = mjs_addGeom(b, NULL); g1->type = mjGEOM_SPHERE; g1->size[0] = 0.1;
    pnt[0] = 10; pnt[1] = 0; pnt[2] = 1; vec[2] = -1; cutoff = 5;
  }
  mjModel* m = mj_compile(s, NULL);
  if (!m) { printf("CORPUS fail %s\n", oneline(mjs_getError(s))); mj_deleteSpec(s); return; }
  mjData* d = mj_makeData(m);
  mj_kinematics(m, d); mj_comPos(m, d);
  int g1 = -7, g2 = 12345; mjtNum dm = 0;
  mjtNum d1 = mj_ray(m, d, pnt, vec, NULL, 1, -1, &g1, NULL);
  mj_multiRay(m, d, pnt, vec, NULL, 1, -1, &g2, &dm, NULL, 1, cutoff);
  printf("CORPUS %d %a %d %a %d\n", which, d1, g1, dm, g2);
  mj_deleteData(d); mj_deleteModel(m); mj_deleteSpec(s);
}

int main(void) {
  mjg_install_handlers();
  char op[16];
  install_crash_handlers();
  while (scanf("%15s", op) == 1) {
    int sig = sigsetjmp(crash_jmp, 1);
    if (sig) {
      // drop the rest of the input line of the crashed command, report, go on
      int ch; while ((ch = getchar()) != EOF && ch != '\n') {}
      printf("\nCRASH %s signal %d\n", op, sig);
      if (!strcmp(op, "SCENE")) printf("END\n");
      printf("#EOC\n"); fflush(stdout);
      continue;
    }
    crash_armed = 1;
    if (!strcmp(op, "ELIM")) {
      int bodyid, bodyexclude, matid, ga0, ma0, flg, weld, use, group; mjtByte gg[6];
      if (scanf("%d %d %d %d %d %d %d", &bodyid, &bodyexclude, &matid, &ga0, &ma0, &flg, &weld) != 7 || !rd_group(gg, &use) || scanf("%d", &group) != 1) return 2;
      mjModel fm; memset(&fm, 0, sizeof(fm));
      int gb[1] = { bodyid }, gm[1] = { matid }, ggrp[1] = { group };
      float grgba[4] = { 0.5f, 0.5f, 0.5f, ga0 ? 0.0f : 1.0f };
      float mrgba[4 * 4]; for (int i = 0; i < 16; i++) mrgba[i] = 1.0f;
      if (matid >= 0 && matid < 4) mrgba[4 * matid + 3] = ma0 ? 0.0f : 0.7f;
      int weldid[8]; for (int i = 0; i < 8; i++) weldid[i] = 1; if (bodyid >= 0 && bodyid < 8) weldid[bodyid] = weld;
      int parentid[8] = {0, 0, 1, 2, 3, 4, 5, 6};
      fm.nbody = 8; fm.ngeom = 1; fm.nmat = 4;
      fm.geom_bodyid = gb; fm.geom_matid = gm; fm.geom_group = ggrp; fm.geom_rgba = grgba; fm.mat_rgba = mrgba; fm.body_weldid = weldid;
      fm.body_rootid = weldid; fm.body_parentid = parentid;     // other tables stay NULL: a read there is reported as CRASH
      printf("%d\n", ray_eliminate(&fm, NULL, 0, use ? gg : NULL, (mjtBool)flg, bodyexclude));
    } else if (!strcmp(op, "QUAD")) {
      double a, b, c; if (scanf("%la %la %la", &a, &b, &c) != 3) return 2;
      mjtNum x[2]; mjtNum rr = ray_quad(a, b, c, x);
      printf("%a %a %a\n", rr, x[0], x[1]);
    } else if (!strcmp(op, "GEOM")) {
      int type; double v[21];
      if (scanf("%d", &type) != 1) return 2;
      for (int i = 0; i < 21; i++) if (scanf("%la", &v[i]) != 1) return 2;
      printf("%a\n", mju_rayGeom(v, v + 3, v + 12, v + 15, v + 18, type, NULL));
    } else if (!strcmp(op, "ROW")) run_row();
    else if (!strcmp(op, "CORPUS")) { int w; if (scanf("%d", &w) != 1) return 2; run_corpus(w); }
    else if (!strcmp(op, "SCENE")) run_scene();
    else return 3;
    crash_armed = 0;
    printf("#EOC\n");
  }
  return 0;
}
