// C38 driver: runs operation histories on the real mjCCache of the working tree and prints the
// result of every operation followed by a canonical dump of the complete private state.
//
// The class is compiled into this translation unit from the working tree's user_cache.h/.cc with
// `std::mutex` replaced by a logging mutex (the only textual change: the macro below), so that
//  - every lock acquisition is counted (sequential mode: each public method must take the one
//    mutex exactly once), and
//  - in threaded mode the order of lock acquisitions is logged; the Coq model is then replayed in
//    exactly that order (lock-order linearisation).
// Everything else (mju_isModifiedResource, ...) comes from libmj_nox.
// Compiled with -fno-access-control so that the dump can read the private members.
//
// stdin, one case per line:
//   S <cap> <n> <op>*n
//   T <cap> <npre> <op>*npre <nthreads> { <n_t> <op>*n_t }*nthreads
//   W <cap> 0      (HasAsset aliasing witness: prints the pointee before/after a re-insert)
// ops:  I m id ts data sz | P id rts fr | H id | D id | R m | X m | Z | C cap | S | K
// stdout, one line per case:
//   S:  for every op:  L <locks> R <k> v*k <dump> ;
//   T:  <npre prefix ops as above> O <nlog> tid*nlog  { t <n_t> {R <k> v*k}*n_t }*nthreads F <dump>
//   dump: D cap ins size E n id*n A n {id ts bytes data ins acc nrefs ref*}*n M n {m nids id*}*n
#include <algorithm>
#include <atomic>
#include <cstddef>
#include <cstdio>
#include <cstdlib>
#include <cstring>
#include <functional>
#include <iostream>
#include <memory>
#include <mutex>
#include <set>
#include <sstream>
#include <string>
#include <thread>
#include <unordered_map>
#include <unordered_set>
#include <utility>
#include <vector>

static thread_local int verif_tid = 0;
static std::vector<int> verif_log;        // thread ids in lock-acquisition order (written under the lock)
static std::atomic<int> verif_spin{0};

namespace std {
struct verif_mutex {
  std::mutex m;
  void lock() {
    if (verif_spin.load()) { for (int i = 0; i < (verif_tid * 7 + (int)verif_log.size() * 13) % 5; i++) std::this_thread::yield(); }
    m.lock();
    verif_log.push_back(verif_tid);
  }
  bool try_lock() { if (m.try_lock()) { verif_log.push_back(verif_tid); return true; } return false; }
  void unlock() { m.unlock(); }
};
}  // namespace std

#define mutex verif_mutex
#include "user/user_cache.h"
#include "user/user_cache.cc"
#undef mutex

#include <mujoco/mujoco.h>

static int num(const std::string& s) { return s.size() > 1 ? atoi(s.c_str() + 1) : -1; }

static int prov_modified(const mjResource* r, const char* ts) { return strcmp(r->timestamp, ts) != 0; }
static mjpResourceProvider g_prov;

struct Op { char c; long a[5]; };

static bool read_op(std::istream& in, Op& o) {
  std::string t; if (!(in >> t)) return false;
  o.c = t[0]; int n = 0;
  switch (o.c) { case 'I': n = 5; break; case 'P': n = 3; break; case 'H': case 'D': case 'R': case 'X': case 'C': n = 1; break;
                 case 'Z': case 'S': case 'K': n = 0; break; default: return false; }
  for (int i = 0; i < n; i++) if (!(in >> o.a[i])) return false;
  return true;
}

static void mkres(mjResource& r, long ts, bool with_provider) {
  memset(&r, 0, sizeof(r));
  snprintf(r.timestamp, sizeof(r.timestamp), "t%ld", ts);
  r.provider = with_provider ? &g_prov : nullptr;
}

// performs one operation, returns the printed result "R k v*"
static std::string apply(mjCCache& c, const Op& o, bool threaded = false) {
  std::ostringstream os;
  switch (o.c) {
    case 'I': {
      mjResource r; mkres(r, o.a[2], true);
      std::shared_ptr<const void> data(std::shared_ptr<int>(new int((int)o.a[3])));
      bool b = c.Insert("m" + std::to_string(o.a[0]), "a" + std::to_string(o.a[1]), &r, data, (std::size_t)o.a[4]);
      os << "R 1 " << (b ? 1 : 0); break;
    }
    case 'P': {
      mjResource r; mkres(r, o.a[1] < 0 ? 0 : o.a[1], o.a[1] >= 0);
      long got = -1; bool fr = o.a[2] != 0;
      bool b = c.PopulateData("a" + std::to_string(o.a[0]), &r, [&](const void* d) { got = *(const int*)d; return fr; });
      os << "R 2 " << (b ? 1 : 0) << " " << got; break;
    }
    case 'H': {
      // HasAsset returns a pointer into the cache's own node; with other threads running it may be
      // destroyed or rewritten after the lock is released, so threaded runs only observe null-ness
      // (-2 present, -3 absent) and never dereference it.
      const std::string* t = c.HasAsset("a" + std::to_string(o.a[0]));
      if (threaded) os << "R 1 " << (t ? -2 : -3); else os << "R 1 " << (t ? num(*t) : -1);
      break;
    }
    case 'D': c.DeleteAsset("a" + std::to_string(o.a[0])); os << "R 0"; break;
    case 'R': c.RemoveModel("m" + std::to_string(o.a[0])); os << "R 0"; break;
    case 'X': c.Reset("m" + std::to_string(o.a[0])); os << "R 0"; break;
    case 'Z': c.Reset(); os << "R 0"; break;
    case 'C': c.SetCapacity((std::size_t)o.a[0]); os << "R 0"; break;
    case 'S': os << "R 1 " << (long)c.Size(); break;
    case 'K': os << "R 1 " << (long)c.Capacity(); break;
  }
  return os.str();
}

static std::string dump(mjCCache& c) {
  std::ostringstream os;
  os << "D " << (long)c.capacity_ << " " << (long)c.insert_num_ << " " << (long)c.size_;
  os << " E " << c.entries_.size();
  for (mjCAsset* p : c.entries_) os << " " << num(p->Id());
  std::vector<std::pair<int, const mjCAsset*>> as;
  for (auto& kv : c.lookup_) as.push_back({num(kv.first), &kv.second});
  std::sort(as.begin(), as.end());
  os << " A " << as.size();
  for (auto& [id, a] : as) {
    os << " " << id << " " << num(a->Timestamp()) << " " << (long)a->BytesCount() << " " << *(const int*)a->Data()
       << " " << (long)a->InsertNum() << " " << (long)a->AccessCount() << " " << a->References().size();
    for (auto& r : a->References()) os << " " << num(r);
    if (num(a->Id()) != id) os << " BADID";
  }
  std::vector<std::pair<int, std::vector<int>>> ms;
  for (auto& kv : c.models_) {
    if (kv.second.empty()) continue;   // empty entries left behind by operator[] are not part of the abstract state
    std::vector<int> ids; for (mjCAsset* p : kv.second) ids.push_back(num(p->Id()));
    std::sort(ids.begin(), ids.end());
    ms.push_back({num(kv.first), ids});
  }
  std::sort(ms.begin(), ms.end());
  os << " M " << ms.size();
  for (auto& [m, ids] : ms) { os << " " << m << " " << ids.size(); for (int i : ids) os << " " << i; }
  return os.str();
}

int main() {
  mjp_defaultResourceProvider(&g_prov);
  g_prov.modified = prov_modified;
  std::string line;
  while (std::getline(std::cin, line)) {
    if (line.empty()) continue;
    std::istringstream in(line);
    std::string mode; long cap; int n;
    if (!(in >> mode >> cap >> n)) return 2;
    mjCCache c((std::size_t)cap);
    if (mode == "W") {
      // aliasing witness (single thread, no undefined behaviour): the string HasAsset points to is the
      // asset's own timestamp_ member, rewritten in place by a later Insert with another timestamp
      mjResource r1, r2; mkres(r1, 1, true); mkres(r2, 2, true);
      std::shared_ptr<const void> d(std::shared_ptr<int>(new int(1)));
      c.Insert("m0", "a0", &r1, d, 1);
      const std::string* p = c.HasAsset("a0");
      int before = p ? num(*p) : -1;
      c.Insert("m0", "a0", &r2, d, 1);
      int after = p ? num(*p) : -1;
      std::cout << "W " << before << " " << after << std::endl;
      verif_log.clear();
      continue;
    }
    std::ostringstream out;
    for (int i = 0; i < n; i++) {
      Op o; if (!read_op(in, o)) return 2;
      size_t l0 = verif_log.size();
      std::string r = apply(c, o);
      out << "L " << (verif_log.size() - l0) << " " << r << " " << dump(c) << " ; ";
    }
    if (mode == "T") {
      int nt; if (!(in >> nt)) return 2;
      std::vector<std::vector<Op>> ops(nt);
      for (int t = 0; t < nt; t++) { int k; if (!(in >> k)) return 2; ops[t].resize(k); for (int i = 0; i < k; i++) if (!read_op(in, ops[t][i])) return 2; }
      std::vector<std::vector<std::string>> results(nt);
      verif_log.clear(); verif_log.reserve(4096);
      std::atomic<int> ready{0};
      verif_spin = 1;
      std::vector<std::thread> th;
      for (int t = 0; t < nt; t++) th.emplace_back([&, t]() {
        verif_tid = t + 1;
        ready++; while (ready.load() < nt) {}
        for (auto& o : ops[t]) results[t].push_back(apply(c, o, true));
      });
      for (auto& x : th) x.join();
      verif_spin = 0;
      out << "O " << verif_log.size(); for (int t : verif_log) out << " " << (t - 1);
      for (int t = 0; t < nt; t++) { out << " t " << results[t].size(); for (auto& r : results[t]) out << " " << r; }
      out << " F " << dump(c);
    }
    verif_log.clear();
    std::cout << out.str() << std::endl;
  }
  return 0;
}
