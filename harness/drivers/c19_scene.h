// Scene used by the C19 API part and by C20: a ground plane, nbody free bodies (boxes and spheres,
// alternating) stacked so that they touch or penetrate, optionally hinged pendulum links with joint
// limits (more constraint rows); cluster != 0 puts all free bodies at nearly the same place; built through the mjSpec C API with spec->memory = memory
// (memory < 0: compiler default).
#ifndef VERIF_C19_SCENE_H_
#define VERIF_C19_SCENE_H_
#include <stdio.h>
#include <mujoco/mujoco.h>

static mjModel* verif_scene(int nbody, int nlink, long long memory, int cone_elliptic, int islands, int cluster,
                            char* err, int errsz) {
  // cluster = c + 10 * (number of additional hinge bodies without joint limit)
  int nfreehinge = cluster / 10;
  cluster %= 10;
  mjSpec* s = mj_makeSpec();
  if (memory >= 0) s->memory = (mjtSize)memory;
  // cone_elliptic = cone + 10 * option bits: 1 sparse Jacobian, 2 dense Jacobian (neither: auto), 4 PGS solver,
  // 8 CG solver (neither: Newton), 16 noslip iterations, 32 implicitfast, 64 implicit, 128 RK4 integrator,
  // 256 diagexact, 512 multiccd disabled, 1024 sleep
  int optbits = cone_elliptic / 10;
  cone_elliptic %= 10;
  if (optbits & 1) s->option.jacobian = mjJAC_SPARSE;
  if (optbits & 2) s->option.jacobian = mjJAC_DENSE;
  if (optbits & 4) s->option.solver = mjSOL_PGS;
  if (optbits & 8) s->option.solver = mjSOL_CG;
  if (optbits & 16) s->option.noslip_iterations = 3;
  if (optbits & 32) s->option.integrator = mjINT_IMPLICITFAST;
  if (optbits & 64) s->option.integrator = mjINT_IMPLICIT;
  if (optbits & 128) s->option.integrator = mjINT_RK4;
  if (optbits & 256) s->option.enableflags |= mjENBL_DIAGEXACT;
  if (optbits & 512) s->option.disableflags |= mjDSBL_MULTICCD;
  if (optbits & 1024) s->option.enableflags |= mjENBL_SLEEP;
  s->option.cone = cone_elliptic ? mjCONE_ELLIPTIC : mjCONE_PYRAMIDAL;
  if (islands) s->option.disableflags &= ~mjDSBL_ISLAND; else s->option.disableflags |= mjDSBL_ISLAND;
  mjsBody* world = mjs_findBody(s, "world");
  mjsGeom* floor = mjs_addGeom(world, NULL);
  floor->type = mjGEOM_PLANE;
  floor->size[0] = 5; floor->size[1] = 5; floor->size[2] = 0.1;
  for (int i = 0; i < nbody; i++) {
    mjsBody* b = mjs_addBody(world, NULL);
    // two columns of touching bodies: separate islands
    b->pos[0] = (i % 2) ? 1.0 : -1.0;
    b->pos[1] = 0;
    b->pos[2] = 0.095 + 0.19 * (i / 2);
    if (cluster) {
      // all bodies interpenetrate: O(nbody^2) candidate pairs and contacts
      b->pos[0] = 0.01 * (i % 5); b->pos[1] = 0.01 * (i / 5); b->pos[2] = 0.095 + 0.003 * i;
    }
    mjs_addFreeJoint(b);
    mjsGeom* g = mjs_addGeom(b, NULL);
    if (i % 4 < 2) { g->type = mjGEOM_BOX; g->size[0] = g->size[1] = g->size[2] = 0.1; }
    else { g->type = mjGEOM_SPHERE; g->size[0] = 0.1; }
    g->condim = (i % 3 == 0) ? 3 : (i % 3 == 1 ? 4 : 1);
  }
  mjsBody* parent = world;
  for (int i = 0; i < nlink; i++) {
    mjsBody* b = mjs_addBody(parent, NULL);
    b->pos[0] = (i == 0) ? 3.0 : 0.0; b->pos[2] = (i == 0) ? 2.0 : -0.2;
    mjsJoint* j = mjs_addJoint(b, NULL);
    j->type = mjJNT_HINGE; j->axis[0] = 0; j->axis[1] = 1; j->axis[2] = 0;
    j->limited = mjLIMITED_TRUE; j->range[0] = 0.1; j->range[1] = 0.2;   // violated at qpos = 0
    mjsGeom* g = mjs_addGeom(b, NULL);
    g->type = mjGEOM_CAPSULE; g->size[0] = 0.02; g->size[1] = 0.08;
    g->contype = 0; g->conaffinity = 0;
    parent = b;
  }
  for (int i = 0; i < nfreehinge; i++) {
    mjsBody* b = mjs_addBody(world, NULL);
    b->pos[0] = 4.0 + 0.5 * i; b->pos[2] = 2.0;
    mjsJoint* j = mjs_addJoint(b, NULL);
    j->type = mjJNT_HINGE; j->axis[0] = 0; j->axis[1] = 1; j->axis[2] = 0;
    mjsGeom* g = mjs_addGeom(b, NULL);
    g->type = mjGEOM_CAPSULE; g->size[0] = 0.02; g->size[1] = 0.08;
    g->contype = 0; g->conaffinity = 0;
  }
  mjModel* m = mj_compile(s, NULL);
  if (!m && err) snprintf(err, errsz, "%s", mjs_getError(s));
  mj_deleteSpec(s);
  return m;
}
#endif
