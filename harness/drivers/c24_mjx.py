"""C24 MJX driver: runs the functions of <repo>/mjx/mujoco/mjx/_src/math.py (imported BY PATH from
the working tree, never from the installed wheel) in float64 on the CPU.
argv[1] = repo root.  stdin: one call per line `<op> <hex double> ...`; stdout: one line per call
with the results as hex doubles (same protocol as c24_spatial.c)."""
import os, sys, importlib.util
os.environ.setdefault("JAX_PLATFORMS", "cpu")
import numpy as np
import jax
jax.config.update("jax_enable_x64", True)

repo = sys.argv[1]
path = os.path.join(repo, "mjx", "mujoco", "mjx", "_src", "math.py")
spec = importlib.util.spec_from_file_location("c24_mjxmath", path)
m = importlib.util.module_from_spec(spec)
spec.loader.exec_module(m)     # depends on jax and on the constant mujoco.mjMINVAL only

import jax.numpy as jp


def cat(*xs):
    return jp.concatenate([jp.atleast_1d(x).reshape(-1) for x in xs])


OPS = {  # name: (number of inputs, function of a flat input vector returning a flat vector)
    "quat_mul": (8, lambda a: m.quat_mul(a[:4], a[4:8])),
    "rotate": (7, lambda a: m.rotate(a[:3], a[3:7])),
    "quat_inv": (4, lambda a: m.quat_inv(a[:4])),
    "quat_mul_axis": (7, lambda a: m.quat_mul_axis(a[:4], a[4:7])),
    "quat_to_mat": (4, lambda a: m.quat_to_mat(a[:4]).reshape(-1)),
    "axis_angle_to_quat": (4, lambda a: m.axis_angle_to_quat(a[:3], a[3])),
    "quat_integrate": (8, lambda a: m.quat_integrate(a[:4], a[4:7], a[7])),
    "quat_sub": (8, lambda a: m.quat_sub(a[:4], a[4:8])),
    "quat_to_axis_angle": (4, lambda a: cat(*m.quat_to_axis_angle(a[:4]))),
    "normalize_with_norm": (3, lambda a: cat(*m.normalize_with_norm(a[:3]))),
}

calls = []
for line in sys.stdin:
    t = line.split()
    if not t:
        continue
    calls.append((t[0], [float.fromhex(x) if x not in ("nan", "inf", "-inf") else float(x) for x in t[1:]]))
out = [None] * len(calls)
byop = {}
for i, (op, args) in enumerate(calls):
    byop.setdefault(op, []).append(i)
for op, idx in byop.items():
    n, f = OPS[op]
    arr = np.array([calls[i][1] for i in idx], dtype=np.float64).reshape(len(idx), n)
    res = np.asarray(jax.jit(jax.vmap(f))(arr), dtype=np.float64)
    for k, i in enumerate(idx):
        out[i] = res[k].reshape(-1)
for o in out:
    print(" ".join(float(x).hex() for x in o))
