"""C46 driver: runs least_squares of <repo>/python/mujoco/minimize.py (imported BY PATH from the tree
under test) on the problems given on stdin (JSON) with an instrumented residual and a wrapped
mujoco.mju_boxQP, and prints what it observed (JSON).

The installed `mujoco` wheel is only an external library here: minimize.py does `import mujoco` and
calls mujoco.mju_boxQP (the box-QP solver); every call is recorded (arguments, n_free, dx) so that the
answers can drive the Coq model and the solver contract assumed by the theorems can be checked.

Residual family (vectorised over columns, computed with plain Python floats in a fixed order so that
the Coq model at binary64 evaluates bit-identical values):
   r_j(x) = (sum_i A[j][i]*x_i  +  sum_i B[j][i]*(x_i*x_i)) - b[j]
(linear: B = 0; quadratic: B != 0; Rosenbrock-like: rows 10*x_{i+1} - 10*x_i^2 and 1 - x_i)."""
import importlib.util, io, json, os, sys

repo = sys.argv[1]


def load_minimize(repo):
    import mujoco  # noqa: F401  wheel: external solver mju_boxQP only
    path = os.path.join(repo, "python", "mujoco", "minimize.py")
    spec = importlib.util.spec_from_file_location("repo_minimize", path)
    mod = importlib.util.module_from_spec(spec)
    spec.loader.exec_module(mod)
    return mod, path


def make_residual(A, B, b, log):
    import numpy as np
    m, n = len(b), len(A[0]) if A else 0

    def residual(x):
        x = np.asarray(x)
        cols = x.shape[1] if x.ndim == 2 else 1
        x2 = x.reshape(n, cols)
        out = np.zeros((m, cols))
        for k in range(cols):
            pt = [float(x2[i, k]) for i in range(n)]
            log.append(pt)
            for j in range(m):
                s = 0.0
                for i in range(n):
                    s = s + A[j][i] * pt[i]
                for i in range(n):
                    s = s + B[j][i] * (pt[i] * pt[i])
                out[j, k] = s - b[j]
        return out
    return residual


def decision_margins(events, qplog):
    """per outer iteration: smallest distance, relative to 1 + |y|, of a discrete decision of that iteration
    (Armijo sign, sign of the expected reduction, reduction vs 0.75 / 0.25 of the expected reduction) from its
    threshold; the rounding noise of these quantities is a few ulp of y, so iterations with a margin of that
    order are decided by noise and cannot be replayed by a model that differs in the last bit"""
    margins = []
    ycur = None; g = None; h = None; nq_seen = 0
    for ev in events:
        if ev[0] == "gh":
            g, h = ev[1], ev[2]
            margins.append(float("inf"))
        else:
            _, v, nq = ev
            if nq > nq_seen and qplog[nq - 1]["nfree"] >= 0 and ycur is not None and g is not None and margins:
                dx = qplog[nq - 1]["dx"]
                gdx = sum(a * b for a, b in zip(g, dx))
                red = ycur - v
                arm = red + 1e-2 * gdx
                sc = 1.0 + abs(ycur)
                m = abs(arm) / sc
                if arm >= 0:
                    n = len(dx)
                    ered = -(gdx + 0.5 * sum(dx[i] * h[i][j] * dx[j] for i in range(n) for j in range(n)))
                    m = min(m, abs(ered) / sc)
                    if ered > 0:
                        ratio = red / ered
                        m = min(m, abs(ratio - 0.75) * ered / sc, abs(ratio - 0.25) * ered / sc)
                margins[-1] = min(margins[-1], m)
            else:
                ycur = v
            nq_seen = nq
    return margins


def main():
    import numpy as np
    import mujoco
    mz, path = load_minimize(repo)
    req = json.load(sys.stdin)
    orig_qp = mujoco.mju_boxQP
    results = []
    for pb in req["problems"]:
        n = len(pb["x0"])
        evals, qplog = [], []

        def wrapped(res, R, index, H, g, lower, upper, _log=qplog):
            Hc = np.array(H, dtype=float).copy(); gc = np.array(g, dtype=float).copy()
            lc = None if lower is None else np.array(lower, dtype=float).copy()
            uc = None if upper is None else np.array(upper, dtype=float).copy()
            warm = np.array(res, dtype=float).copy()
            nf = orig_qp(res, R, index, H, g, lower, upper)
            _log.append({"H": Hc.tolist(), "g": gc.reshape(-1).tolist(),
                         "lower": None if lc is None else lc.reshape(-1).tolist(),
                         "upper": None if uc is None else uc.reshape(-1).tolist(),
                         "warm": warm.reshape(-1).tolist(),
                         "nfree": int(nf), "dx": np.array(res, dtype=float).reshape(-1).tolist()})
            return nf

        mujoco.mju_boxQP = wrapped
        residual = make_residual(pb["A"], pb["B"], pb["b"], evals)
        events = []
        marks = []        # (number of residual evaluations, number of solver calls) at every trace append

        class RecNorm(mz.Quadratic):          # the repo's Quadratic norm, with its results recorded
            def value(self, r, _ev=events, _q=qplog):
                v = super().value(r)
                _ev.append(("val", float(v), len(_q)))
                return v

            def grad_hess(self, r, proj, _ev=events):
                g, h = super().grad_hess(r, proj)
                _ev.append(("gh", np.array(g).reshape(-1).tolist(), np.array(h).tolist()))
                return g, h
        x0 = np.array(pb["x0"], dtype=float)
        x0_copy = x0.copy()
        lo = np.array(pb["lo"], dtype=float); hi = np.array(pb["hi"], dtype=float)
        lo_c, hi_c = lo.copy(), hi.copy()
        xs = pb.get("x_scale")
        if isinstance(xs, list):
            xs = np.array(xs, dtype=float)
        out = io.StringIO()
        rec = {}
        try:
            kw = dict(bounds=[lo, hi], verbose=mz.Verbosity.FINAL, output=out, x_scale=xs, norm=RecNorm(),
                      iter_callback=lambda tr, _m=marks, _e=evals, _q=qplog: _m.append([len(_e), len(_q)]),
                      max_iter=pb.get("max_iter", 100))
            for k in ("eps", "mu_min", "mu_max", "mu_factor", "xtol", "gtol"):
                if k in pb:
                    kw[k] = pb[k]
            x, trace = mz.least_squares(x0, residual, **kw)
            rec["x"] = [float(v) for v in np.asarray(x).reshape(-1)]
            rec["trace"] = [{"x": [float(v) for v in np.asarray(t.candidate).reshape(-1)], "y": float(t.objective),
                             "red": float(t.reduction), "mu": float(t.regularizer)} for t in trace]
            msg = out.getvalue()
            rec["message"] = msg
            st = None
            for s, text in mz._STATUS_MESSAGE.items():
                if "iterations: " + text in msg:
                    st = s.name
            rec["status"] = st
        except Exception as e:  # noqa: BLE001
            rec["error"] = repr(e)
        finally:
            mujoco.mju_boxQP = orig_qp
        rec["evals"] = evals
        rec["qp"] = qplog
        rec["margins"] = decision_margins(events, qplog)
        rec["marks"] = marks
        rec["inputs_unchanged"] = bool(np.array_equal(x0, x0_copy) and np.array_equal(lo, lo_c) and np.array_equal(hi, hi_c))
        rec["defaults"] = {"eps": float(np.finfo(np.float64).eps ** 0.5), "mu_min": 1e-6, "mu_max": 1e8,
                           "mu_factor": float(10.0 ** 0.1), "xtol": 1e-8, "gtol": 1e-8}
        results.append(rec)
    json.dump({"file": path, "results": results}, sys.stdout)


main()
