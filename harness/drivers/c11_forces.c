// C11 driver: c11_forces s0 s1            (mjgen family)
//             c11_forces isl s0 s1        (island family: several disconnected trees / free bodies, each its own
//                                          constraint island, with different frictionloss / friction / condim per
//                                          island, saturating applied loads, noslip and per-island solvers)
// Builds models for seeds s0..s1-1 with every solver / cone, steps them and, at a few sample points, runs
// mj_forward and prints everything needed to judge admissibility of efc_force, qfrc_constraint = J' efc_force,
// mj_contactForce and the pyramid encode/decode pair.  All doubles as C99 hex floats.
// record (one line):
//  F seed cone solver noslip island adhes step nv ne nf nefc ncon niter nisland sparse
//    type[nefc] id[nefc] floss[nefc] force[nefc] D[nefc] R[nefc] jar[nefc] state[nefc]
//    qfrc_constraint[nv] JTf[nv]
//    {dim mu fr[5] adr exclude adhesion cf[6] rt[6]}[ncon]     (cf = mj_contactForce; rt = decode(encode(decode(edges))) for
//                                                       pyramidal contacts, = cf otherwise)
#include <stdio.h>
#include <stdlib.h>
#include <string.h>
#include "mjgen.h"

static void dump(const mjModel* m, mjData* d, int seed, int noslip, int island, int adhes, int step) {
  int nefc = d->nefc, nv = m->nv;
  int niter = 0;
  for (int i = 0; i < mjMAX(1, d->nisland) && i < mjNISLAND; i++) niter += d->solver_niter[i];
  printf("F %d %d %d %d %d %d %d %d %d %d %d %d %d %d %d", seed, m->opt.cone, m->opt.solver, noslip, island, adhes, step, nv, d->ne, d->nf,
         nefc, d->ncon, niter, d->nisland, mj_isSparse(m));
  int cap = nefc > 0 ? nefc : 1;
  mjtNum* jar = malloc(sizeof(mjtNum) * cap);
  mjtNum* jtf = calloc(nv > 0 ? nv : 1, sizeof(mjtNum));
  if (nefc) { mj_mulJacVec(m, d, jar, d->qacc); for (int i = 0; i < nefc; i++) jar[i] -= d->efc_aref[i]; mj_mulJacTVec(m, d, jtf, d->efc_force); }
  for (int i = 0; i < nefc; i++) printf(" %d", d->efc_type[i]);
  for (int i = 0; i < nefc; i++) printf(" %d", d->efc_id[i]);
  for (int i = 0; i < nefc; i++) printf(" %a", d->efc_frictionloss[i]);
  for (int i = 0; i < nefc; i++) printf(" %a", d->efc_force[i]);
  for (int i = 0; i < nefc; i++) printf(" %a", d->efc_D[i]);
  for (int i = 0; i < nefc; i++) printf(" %a", d->efc_R[i]);
  for (int i = 0; i < nefc; i++) printf(" %a", jar[i]);
  for (int i = 0; i < nefc; i++) printf(" %d", d->efc_state[i]);
  for (int i = 0; i < nv; i++) printf(" %a", d->qfrc_constraint[i]);
  for (int i = 0; i < nv; i++) printf(" %a", jtf[i]);
  for (int c = 0; c < d->ncon; c++) {
    const mjContact* con = d->contact + c;
    mjtNum cf[6], rt[6], pyr[10];
    mj_contactForce(m, d, c, cf);
    memcpy(rt, cf, sizeof(cf));
    if (con->efc_address >= 0 && !con->exclude && con->efc_address + 2*(con->dim-1) <= d->nefc && m->opt.cone == mjCONE_PYRAMIDAL && con->dim > 1) {
      mjtNum f1[6] = {0};
      mju_decodePyramid(f1, d->efc_force + con->efc_address, con->friction, con->dim);
      mju_encodePyramid(pyr, f1, con->friction, con->dim);
      memset(rt, 0, sizeof(rt));
      mju_decodePyramid(rt, pyr, con->friction, con->dim);
    }
    printf(" %d %a", con->dim, con->mu);
    for (int k = 0; k < 5; k++) printf(" %a", con->friction[k]);
    printf(" %d %d %a", con->efc_address, con->exclude, con->adhesion);
    for (int k = 0; k < 6; k++) printf(" %a", cf[k]);
    for (int k = 0; k < 6; k++) printf(" %a", rt[k]);
  }
  printf("\n");
  free(jar); free(jtf);
}

// ---------------------------------------------------------------- island family
// Everything is a deterministic function of the seed.  Trees are placed far apart and their geoms do not collide,
// so every tree with an active constraint and every resting free body is a separate island; the island-local
// position of a row then differs from its efc index.
static mjModel* isl_model(int seed, int* o_noslip, int* o_island) {
  mjg_rng R = {(uint64_t)seed * 0x9E3779B97F4A7C15ULL + 99}; mjg_rng* r = &R;
  mjSpec* s = mj_makeSpec();
  s->option.solver = seed % 3;
  s->option.cone = (seed / 3) % 2 ? mjCONE_ELLIPTIC : mjCONE_PYRAMIDAL;
  { static const int ns[6] = {20, 5, 0, 20, 3, 50}; *o_noslip = ns[(seed / 6) % 6]; }
  s->option.noslip_iterations = *o_noslip;
  s->option.noslip_tolerance = mjg_chance(r, 0.5) ? 0 : 1e-12;
  s->option.iterations = 200; s->option.tolerance = 1e-10;
  { static const double ir[4] = {1, 1, 0.4, 6}; s->option.impratio = ir[mjg_int(r, 4)]; }
  *o_island = (seed % 8 != 7);
  if (!*o_island) s->option.disableflags |= mjDSBL_ISLAND;
  s->option.jacobian = (seed % 2) ? mjJAC_SPARSE : (seed % 4 == 0 ? mjJAC_DENSE : mjJAC_AUTO);
  mjsBody* world = mjs_findBody(s, "world");
  int nrowless_front = mjg_int(r, 3);                  // static blocks declared BEFORE the plane: their contacts tend to come first
  int ngeomname = 0;
  for (int k = 0; k < nrowless_front; k++) {
    mjsBody* ped = mjs_addBody(world, NULL); ped->pos[0] = -20 - 2 * k; ped->pos[2] = 0.08;
    mjsGeom* g = mjs_addGeom(ped, NULL); g->type = mjg_chance(r, 0.5) ? mjGEOM_BOX : mjGEOM_SPHERE; g->size[0] = g->size[1] = g->size[2] = 0.1;
    char nm[16]; snprintf(nm, sizeof(nm), "sf%d", ngeomname++); mjs_setName(g->element, nm);
  }
  mjsGeom* plane = mjs_addGeom(world, NULL); plane->type = mjGEOM_PLANE; plane->size[0] = 50; plane->size[1] = 50; plane->size[2] = 0.1;
  mjs_setName(plane->element, "floor");
  int ntree = 2 + mjg_int(r, 4), njnt = 0, nten = 0;
  int pattern = mjg_int(r, 4);         // frictionloss across trees: ascending, descending, random, few large among small
  for (int t = 0; t < ntree; t++) {
    mjsBody* parent = world;
    int len = 1 + mjg_int(r, 3);
    char first[16] = "", last[16] = ""; int nj_tree = 0;
    char names[8][16];
    for (int k = 0; k < len; k++) {
      mjsBody* b = mjs_addBody(parent, NULL);
      if (k == 0) { b->pos[0] = 3.0 * (t + 1); b->pos[1] = 3.0 * (t % 2); b->pos[2] = 3; } else { b->pos[2] = -0.4; b->pos[0] = 0.05; }
      int nj = mjg_chance(r, 0.15) && k > 0 ? 0 : 1 + (mjg_chance(r, 0.3) ? 1 : 0);   // jointless and two-joint bodies
      for (int q = 0; q < nj; q++) {
        mjsJoint* j = mjs_addJoint(b, NULL);
        char nm[16]; snprintf(nm, sizeof(nm), "j%d", njnt++); mjs_setName(j->element, nm);
        if (nj_tree < 8) snprintf(names[nj_tree], 16, "%s", nm);
        nj_tree++;
        j->type = mjg_chance(r, 0.3) ? mjJNT_SLIDE : mjJNT_HINGE;
        j->axis[0] = q; j->axis[1] = 1 - q; j->axis[2] = mjg_chance(r, 0.3) ? 0.5 : 0;
        double fl;
        switch (pattern) {
          case 0: fl = 0.2 * (1 << t) * (1 + 0.3 * k); break;
          case 1: fl = 0.2 * (1 << (ntree - 1 - t)) * (1 + 0.3 * k); break;
          case 2: fl = pow(10, mjg_range(r, -2, 1)); break;
          default: fl = (t == mjg_int(r, ntree)) ? 8 : 0.05; break;
        }
        if (mjg_chance(r, 0.15)) fl = 0;                 // rows without friction loss shift the index spaces
        j->frictionloss = fl;
        if (mjg_chance(r, 0.5)) { j->limited = mjLIMITED_TRUE; j->range[0] = -mjg_range(r, 0.05, 0.6); j->range[1] = mjg_range(r, 0.05, 0.6); }
        j->damping[0] = mjg_range(r, 0, 0.2); j->armature = mjg_range(r, 0, 0.05);
      }
      mjsGeom* g = mjs_addGeom(b, NULL); g->type = mjGEOM_CAPSULE; g->size[0] = 0.04;
      g->fromto[0] = 0; g->fromto[1] = 0; g->fromto[2] = 0; g->fromto[3] = 0; g->fromto[4] = 0; g->fromto[5] = -0.35;
      g->contype = 0; g->conaffinity = 0; g->density = mjg_range(r, 300, 2000);
      parent = b;
    }
    (void)first; (void)last;
    if (nj_tree >= 1 && mjg_chance(r, 0.5)) {          // a fixed tendon inside the tree, with its own friction loss / limit
      mjsTendon* tn = mjs_addTendon(s, NULL); char nm[16]; snprintf(nm, sizeof(nm), "t%d", nten++); mjs_setName(tn->element, nm);
      int nw = nj_tree < 8 ? nj_tree : 8;
      for (int w = 0; w < nw; w++) mjs_wrapJoint(tn, names[w], mjg_range(r, 0.3, 1.5) * (mjg_chance(r, 0.3) ? -1 : 1));
      tn->frictionloss = pow(10, mjg_range(r, -2, 1));
      if (mjg_chance(r, 0.5)) { tn->limited = mjLIMITED_TRUE; tn->range[0] = -0.3; tn->range[1] = 0.3; }
    }
  }
  int nball = mjg_int(r, 4);
  for (int k = 0; k < nball; k++) {                     // resting free bodies: one contact island each
    mjsBody* b = mjs_addBody(world, NULL);
    double rad = mjg_range(r, 0.05, 0.15), pen = mjg_chance(r, 0.3) ? mjg_range(r, 0.005, 0.04) : mjg_range(r, 0, 0.002);
    b->pos[0] = -3.0 * (k + 1); b->pos[1] = 2.0 * k; b->pos[2] = rad - pen;
    mjs_addFreeJoint(b);
    mjsGeom* g = mjs_addGeom(b, NULL);
    int gt = mjg_int(r, 3);
    g->type = gt == 0 ? mjGEOM_SPHERE : gt == 1 ? mjGEOM_BOX : mjGEOM_CAPSULE;
    g->size[0] = rad; g->size[1] = rad * (gt == 2 ? 1.5 : 1); g->size[2] = rad;
    if (gt == 2) { b->quat[0] = 0.7071067811865476; b->quat[1] = 0; b->quat[2] = 0.7071067811865476; b->quat[3] = 0; }
    { static const int dims[4] = {1, 3, 4, 6}; g->condim = dims[mjg_int(r, 4)]; }
    g->friction[0] = mjg_range(r, 0.1, 1.5); g->friction[1] = mjg_range(r, 0.001, 0.2); g->friction[2] = mjg_range(r, 0.0001, 0.05);
    g->priority = 1;                                    // the body's own friction / condim win over the plane's
  }
  // contacts that own no efc rows: explicit pairs between static geoms (no dofs), between two geoms of one free
  // body (identical dof chains cancel only in the sparse Jacobian), and pairs that are in the gap
  int nrowless_back = mjg_int(r, 3);
  for (int k = 0; k < nrowless_back; k++) {
    mjsBody* ped = mjs_addBody(world, NULL); ped->pos[0] = 20 + 2 * k; ped->pos[1] = 7; ped->pos[2] = 0.07;
    mjsGeom* g = mjs_addGeom(ped, NULL); g->type = mjGEOM_BOX; g->size[0] = g->size[1] = g->size[2] = 0.1;
    char nm[16]; snprintf(nm, sizeof(nm), "sf%d", ngeomname++); mjs_setName(g->element, nm);
  }
  for (int k = 0; k < ngeomname; k++) {
    mjsPair* pr = mjs_addPair(s, NULL); char nm[16]; snprintf(nm, sizeof(nm), "sf%d", k);
    mjs_setString(pr->geomname1, "floor"); mjs_setString(pr->geomname2, nm);
    { static const int dims[4] = {1, 3, 4, 6}; pr->condim = dims[mjg_int(r, 4)]; }
    if (mjg_chance(r, 0.3)) { pr->margin = 0.05; pr->gap = 0.2; }       // some of them only in the gap
  }
  if (mjg_chance(r, 0.6)) {                             // a free body with two overlapping geoms and an explicit pair between them
    mjsBody* b = mjs_addBody(world, NULL); b->pos[0] = -3; b->pos[1] = -9; b->pos[2] = 0.098;
    mjs_addFreeJoint(b);
    mjsGeom* g1 = mjs_addGeom(b, NULL); g1->type = mjGEOM_SPHERE; g1->size[0] = 0.1; mjs_setName(g1->element, "tw1");
    mjsGeom* g2 = mjs_addGeom(b, NULL); g2->type = mjGEOM_SPHERE; g2->size[0] = 0.1; g2->pos[0] = 0.12; mjs_setName(g2->element, "tw2");
    mjsPair* pr = mjs_addPair(s, NULL); mjs_setString(pr->geomname1, "tw1"); mjs_setString(pr->geomname2, "tw2"); pr->condim = 3;
  }
  mjModel* m = mj_compile(s, NULL);
  if (!m) fprintf(stderr, "isl: compile failed seed=%d: %s\n", seed, mjs_getError(s));
  mj_deleteSpec(s);
  return m;
}

static int run_isl(int s0, int s1) {
  mjg_install_handlers();
  for (int seed = s0; seed < s1; seed++) {
    int noslip = 0, island = 1;
    mjModel* m = isl_model(seed, &noslip, &island);
    if (!m) { printf("X %d compile\n", seed); continue; }
    mjData* d = mj_makeData(m);
    mjg_rng r = {(uint64_t)seed * 40503ULL + 5};
    if (MJG_TRY) {
      for (int st = 0; st < 3; st++) {
        // saturating loads on the jointed trees, pushes and spins on the free bodies
        for (int j = 0; j < m->njnt; j++) {
          int a = m->jnt_dofadr[j];
          if (m->jnt_type[j] == mjJNT_FREE) {
            for (int k = 0; k < 2; k++) d->qfrc_applied[a + k] = mjg_range(&r, -6, 6);
            d->qfrc_applied[a + 2] = -mjg_range(&r, 0, 5);
            for (int k = 3; k < 6; k++) d->qfrc_applied[a + k] = mjg_range(&r, -0.3, 0.3);
          } else {
            double mag = mjg_chance(&r, 0.7) ? mjg_range(&r, 5, 60) : mjg_range(&r, 0, 1);
            d->qfrc_applied[a] = (mjg_chance(&r, 0.5) ? 1 : -1) * mag;
            if (st > 0) d->qvel[a] = mjg_range(&r, -2, 2);
          }
        }
        for (int k = 0; k < 3; k++) mj_step(m, d);
        mj_forward(m, d);
        if (d->nefc > 0 && d->nefc <= 200) dump(m, d, 1000000 + seed, noslip, island, 0, st);
      }
      MJG_END;
    } else { printf("X %d error %s\n", seed, mjg_last_error); }
    mj_deleteData(d); mj_deleteModel(m);
  }
  return 0;
}

int main(int argc, char** argv) {
  if (argc >= 4 && !strcmp(argv[1], "isl")) return run_isl(atoi(argv[2]), atoi(argv[3]));
  if (argc >= 2 && !strcmp(argv[1], "clip")) {          // stdin: triples x lo hi (hex floats) -> mju_clip(x, lo, hi)
    char a[64], b[64], c[64];
    while (scanf("%63s %63s %63s", a, b, c) == 3) printf("%a\n", mju_clip(strtod(a, NULL), strtod(b, NULL), strtod(c, NULL)));
    return 0;
  }
  if (argc < 3) { fprintf(stderr, "usage: c11_forces s0 s1\n"); return 2; }
  int s0 = atoi(argv[1]), s1 = atoi(argv[2]);
  mjg_install_handlers();
  for (int seed = s0; seed < s1; seed++) {
    unsigned feat = MJG_CONTACT | MJG_ELLIPTIC | MJG_FREE | MJG_SLIDE | MJG_BALL | MJG_LIMIT | MJG_FRICTIONLOSS |
                    MJG_EQUALITY | MJG_TENDON | MJG_MULTITREE | MJG_SPRING | MJG_ACTUATOR;
    int nb = 2 + seed % 5;
    mjModel* m = mjg_model(seed, feat, nb, NULL);
    if (!m) { printf("X %d compile\n", seed); continue; }
    mjg_rng r = {(uint64_t)seed * 2654435761ULL + 11};
    m->opt.cone = (seed % 2) ? mjCONE_ELLIPTIC : mjCONE_PYRAMIDAL;
    m->opt.solver = (seed / 2) % 3;      // mjSOL_PGS, mjSOL_CG, mjSOL_NEWTON
    { static const double ir[5] = {1, 1, 0.3, 4.5, 17}; m->opt.impratio = ir[mjg_int(&r, 5)]; }
    int noslip = (seed % 7 == 0) ? 3 : (seed % 5 == 2) ? 20 : 0;
    m->opt.noslip_iterations = noslip;
    int island = (seed % 5 != 0);
    if (!island) m->opt.disableflags |= mjDSBL_ISLAND;
    int adhes = (seed % 6 == 1);
    for (int g = 0; g < m->ngeom; g++) {
      if (mjg_chance(&r, 0.5)) { m->geom_friction[3 * g + 1] = mjg_range(&r, 0.001, 0.3); m->geom_friction[3 * g + 2] = mjg_range(&r, 0.0001, 0.1); }
      if (adhes && mjg_chance(&r, 0.6)) { m->geom_adhesion[g] = mjg_range(&r, 0.1, 3.0); m->flg_adhesion = 1; }
    }
    m->opt.tolerance = 1e-10; m->opt.iterations = 200;
    m->opt.jacobian = (seed % 3 == 1) ? mjJAC_SPARSE : (seed % 3 == 2) ? mjJAC_DENSE : mjJAC_AUTO;
    mjData* d = mj_makeData(m);
    mjg_random_state(m, d, &r, 1.0);
    if (seed % 4 == 3) for (int i = 0; i < m->nv; i++) d->qfrc_applied[i] = mjg_range(&r, -40, 40);   // saturating loads
    if (MJG_TRY) {
      int done = 0;
      for (int step = 0; step <= 60 && done < 3; step++) {
        if (step == 0) mj_forward(m, d); else mj_step(m, d);
        if (step == 0 || step == 9 || step == 30 || step == 60) { mj_forward(m, d); if (d->nefc > 0 && d->nefc <= 200) { dump(m, d, seed, noslip, island, adhes, step); done++; } }
      }
      MJG_END;
    } else { printf("X %d error %s\n", seed, mjg_last_error); }
    mj_deleteData(d); mj_deleteModel(m);
  }
  return 0;
}
