// C11 driver: c11_forces s0 s1
// Builds mjgen models for seeds s0..s1-1 with every solver / cone, steps them and, at a few sample points, runs
// mj_forward and prints everything needed to judge admissibility of efc_force, qfrc_constraint = J' efc_force,
// mj_contactForce and the pyramid encode/decode pair.  All doubles as C99 hex floats.
// record (one line):
//  F seed cone solver noslip island adhes step nv ne nf nefc ncon niter
//    type[nefc] id[nefc] floss[nefc] force[nefc] D[nefc] R[nefc] jar[nefc] state[nefc]
//    qfrc_constraint[nv] JTf[nv]
//    {dim mu fr[5] adr adhesion cf[6] rt[6]}[ncon]     (cf = mj_contactForce; rt = decode(encode(decode(edges))) for
//                                                       pyramidal contacts, = cf otherwise)
#include <stdio.h>
#include <stdlib.h>
#include <string.h>
#include "mjgen.h"

static void dump(const mjModel* m, mjData* d, int seed, int noslip, int island, int adhes, int step) {
  int nefc = d->nefc, nv = m->nv;
  int niter = 0;
  for (int i = 0; i < mjMAX(1, d->nisland) && i < mjNISLAND; i++) niter += d->solver_niter[i];
  printf("F %d %d %d %d %d %d %d %d %d %d %d %d %d", seed, m->opt.cone, m->opt.solver, noslip, island, adhes, step, nv, d->ne, d->nf,
         nefc, d->ncon, niter);
  int cap = nefc > 0 ? nefc : 1;
  mjtNum* jar = malloc(sizeof(mjtNum) * cap);
  mjtNum* jtf = calloc(nv > 0 ? nv : 1, sizeof(mjtNum));
  if (nefc) { mj_mulJacVec(m, d, jar, d->qacc); for (int i = 0; i < nefc; i++) jar[i] -= d->efc_aref[i]; mj_mulJacTVec(m, d, jtf, d->efc_force); }
  for (int i = 0; i < nefc; i++) printf(" %d", d->efc_type[i]);
  for (int i = 0; i < nefc; i++) printf(" %d", d->efc_id[i]);
  for (int i = 0; i < nefc; i++) printf(" %a", d->efc_frictionloss[i]);
  for (int i = 0; i < nefc; i++) printf(" %a", d->efc_force[i]);
  for (int i = 0; i < nefc; i++) printf(" %a", d->efc_D[i]);
  for (int i = 0; i < nefc; i++) printf(" %a", d->efc_R[i]);
  for (int i = 0; i < nefc; i++) printf(" %a", jar[i]);
  for (int i = 0; i < nefc; i++) printf(" %d", d->efc_state[i]);
  for (int i = 0; i < nv; i++) printf(" %a", d->qfrc_constraint[i]);
  for (int i = 0; i < nv; i++) printf(" %a", jtf[i]);
  for (int c = 0; c < d->ncon; c++) {
    const mjContact* con = d->contact + c;
    mjtNum cf[6], rt[6], pyr[10];
    mj_contactForce(m, d, c, cf);
    memcpy(rt, cf, sizeof(cf));
    if (con->efc_address >= 0 && m->opt.cone == mjCONE_PYRAMIDAL && con->dim > 1) {
      mjtNum f1[6] = {0};
      mju_decodePyramid(f1, d->efc_force + con->efc_address, con->friction, con->dim);
      mju_encodePyramid(pyr, f1, con->friction, con->dim);
      memset(rt, 0, sizeof(rt));
      mju_decodePyramid(rt, pyr, con->friction, con->dim);
    }
    printf(" %d %a", con->dim, con->mu);
    for (int k = 0; k < 5; k++) printf(" %a", con->friction[k]);
    printf(" %d %a", con->efc_address, con->adhesion);
    for (int k = 0; k < 6; k++) printf(" %a", cf[k]);
    for (int k = 0; k < 6; k++) printf(" %a", rt[k]);
  }
  printf("\n");
  free(jar); free(jtf);
}

int main(int argc, char** argv) {
  if (argc < 3) { fprintf(stderr, "usage: c11_forces s0 s1\n"); return 2; }
  int s0 = atoi(argv[1]), s1 = atoi(argv[2]);
  mjg_install_handlers();
  for (int seed = s0; seed < s1; seed++) {
    unsigned feat = MJG_CONTACT | MJG_ELLIPTIC | MJG_FREE | MJG_SLIDE | MJG_BALL | MJG_LIMIT | MJG_FRICTIONLOSS |
                    MJG_EQUALITY | MJG_TENDON | MJG_MULTITREE | MJG_SPRING | MJG_ACTUATOR;
    int nb = 2 + seed % 5;
    mjModel* m = mjg_model(seed, feat, nb, NULL);
    if (!m) { printf("X %d compile\n", seed); continue; }
    mjg_rng r = {(uint64_t)seed * 2654435761ULL + 11};
    m->opt.cone = (seed % 2) ? mjCONE_ELLIPTIC : mjCONE_PYRAMIDAL;
    m->opt.solver = (seed / 2) % 3;      // mjSOL_PGS, mjSOL_CG, mjSOL_NEWTON
    { static const double ir[5] = {1, 1, 0.3, 4.5, 17}; m->opt.impratio = ir[mjg_int(&r, 5)]; }
    int noslip = (seed % 7 == 0) ? 3 : 0;
    m->opt.noslip_iterations = noslip;
    int island = (seed % 5 != 0);
    if (!island) m->opt.disableflags |= mjDSBL_ISLAND;
    int adhes = (seed % 6 == 1);
    for (int g = 0; g < m->ngeom; g++) {
      if (mjg_chance(&r, 0.5)) { m->geom_friction[3 * g + 1] = mjg_range(&r, 0.001, 0.3); m->geom_friction[3 * g + 2] = mjg_range(&r, 0.0001, 0.1); }
      if (adhes && mjg_chance(&r, 0.6)) { m->geom_adhesion[g] = mjg_range(&r, 0.1, 3.0); m->flg_adhesion = 1; }
    }
    m->opt.tolerance = 1e-10; m->opt.iterations = 200;
    mjData* d = mj_makeData(m);
    mjg_random_state(m, d, &r, 1.0);
    if (MJG_TRY) {
      int done = 0;
      for (int step = 0; step <= 60 && done < 3; step++) {
        if (step == 0) mj_forward(m, d); else mj_step(m, d);
        if (step == 0 || step == 9 || step == 30 || step == 60) { mj_forward(m, d); if (d->nefc > 0 && d->nefc <= 200) { dump(m, d, seed, noslip, island, adhes, step); done++; } }
      }
      MJG_END;
    } else { printf("X %d error %s\n", seed, mjg_last_error); }
    mj_deleteData(d); mj_deleteModel(m);
  }
  return 0;
}
