// C22 driver: instantiates mjSORT / mjPARTIAL_SORT from the working tree's engine_sort.h on
// (key, tag) elements compared by key only, and calls mju_insertionSort / mju_insertionSortInt.
// stdin:  S n k0..    |  P n k k0..   |  I n k0..  |  D n k0..
// stdout: one line per case: "key:tag key:tag ..." (S, P) or keys (I, D)
#include <stdio.h>
#include <stdlib.h>
#include <string.h>
#include <mujoco/mujoco.h>
#include "engine/engine_sort.h"
#include "engine/engine_util_misc.h"

typedef struct { int key; int tag; } elem;
static int elemcmp(const elem* a, const elem* b, void* ctx) {
  (void)ctx; return (a->key > b->key) - (a->key < b->key);
}
mjSORT(elemSort, elem, elemcmp);
mjPARTIAL_SORT(elemPartial, elem, elemcmp);

int main(void) {
  char op[8]; int n;
  while (scanf("%7s %d", op, &n) == 2) {
    int k = 0;
    if (op[0] == 'P') { if (scanf("%d", &k) != 1) return 2; }
    int cap = n > 0 ? n : 1;
    elem* a = malloc(sizeof(elem) * cap); elem* buf = malloc(sizeof(elem) * cap);
    int* ai = malloc(sizeof(int) * cap); mjtNum* ad = malloc(sizeof(mjtNum) * cap);
    for (int i = 0; i < n; i++) { int v; if (scanf("%d", &v) != 1) return 2; a[i].key = v; a[i].tag = i; ai[i] = v; ad[i] = v; }
    if (op[0] == 'S') { elemSort(a, buf, n, NULL); for (int i = 0; i < n; i++) printf("%d:%d ", a[i].key, a[i].tag); }
    else if (op[0] == 'P') { elemPartial(a, buf, n, k, NULL); for (int i = 0; i < n; i++) printf("%d:%d ", a[i].key, a[i].tag); }
    else if (op[0] == 'I') { mju_insertionSortInt(ai, n); for (int i = 0; i < n; i++) printf("%d ", ai[i]); }
    else if (op[0] == 'D') { mju_insertionSort(ad, n); for (int i = 0; i < n; i++) printf("%d ", (int)ad[i]); }
    else return 3;
    printf("\n");
    free(a); free(buf); free(ai); free(ad);
  }
  return 0;
}
