// C17 driver (whole mj_island): builds models through the mjSpec C API of the working tree (random
// articulated models from mjgen.h, and "piles": many free bodies on a lattice with contacts, a
// plane, connect/weld equalities and cross-tree tendons), runs mj_forward (which calls mj_island) and prints
// the inputs mj_island saw (per-row trees recomputed here from the sparsity of efc_J, independent
// of treeIterInit's special cases) together with every island array it produced.
// "chains": many single-dof trees adjacent in tree order, coupled only by rows whose trees come from the
// generic Jacobian scan (joint / tendon equalities, tendon limits and friction), mostly dense Jacobian.
// stdin, one case per line:   G seed feat nbody jac steps   |   P seed nbody jac steps   |   C seed nbody jac steps
//   jac: 0 dense, 1 sparse, 2 auto.  steps: mj_step calls before the final mj_forward.
// stdout, one line per case:  "X <reason>"  or integers:
//   ntree nv nefc nisland nidof | tree_dofnum | dof_treeid | per row: class k t1..tk |
//   efc_type | efc_id | then, if nisland > 0, the island arrays (see below)
#include "mjgen.h"
#include "engine/engine_core_util.h"
#include <signal.h>
#include <unistd.h>

// a crash of the implementation is reported with the phase it happened in ("X crash compile" is not
// attributed to island discovery by the harness)
static volatile const char* phase = "init";
static void on_segv(int sig) {
  (void)sig;
  const char* a = "X crash "; const char* p = (const char*)phase;
  fflush(stdout);
  if (write(1, a, strlen(a)) < 0 || write(1, p, strlen(p)) < 0 || write(1, "\n", 1) < 0) _exit(12);
  _exit(11);
}

static void pr(const int* a, int n) { for (int i = 0; i < n; i++) printf("%d ", a[i]); }

static mjSpec* pile_spec(uint64_t seed, int nbody) {
  mjg_rng R = { seed * 0x9E3779B97F4A7C15ULL + 777 }; mjg_rng* r = &R;
  mjSpec* s = mj_makeSpec();
  mjsBody* world = mjs_findBody(s, "world");
  mjsGeom* fl = mjs_addGeom(world, NULL); fl->type = mjGEOM_PLANE; fl->size[0] = fl->size[1] = 20; fl->size[2] = 0.1;
  int side = 2 + (int)sqrt((double)nbody) + mjg_int(r, 3);
  double spacing = mjg_chance(r, 0.5) ? 0.19 : 0.26;      // radius 0.1: 0.19 overlaps neighbours, 0.26 does not
  int njnt = 0;
  char hinge_names[512][16]; int nh = 0;
  for (int b = 0; b < nbody; b++) {
    mjsBody* body = mjs_addBody(world, NULL); mjg_name(body->element, "b", b);
    body->pos[0] = spacing * mjg_int(r, side); body->pos[1] = spacing * mjg_int(r, side);
    body->pos[2] = mjg_chance(r, 0.5) ? 0.095 : 0.095 + spacing * (1 + mjg_int(r, 2));
    mjsJoint* j = mjs_addJoint(body, NULL); mjg_name(j->element, "j", njnt);
    if (mjg_chance(r, 0.75)) { j->type = mjJNT_FREE; }
    else {
      j->type = mjg_chance(r, 0.5) ? mjJNT_HINGE : mjJNT_SLIDE; j->axis[0] = 0.3; j->axis[1] = -0.5; j->axis[2] = 0.8;
      if (nh < 512) snprintf(hinge_names[nh++], 16, "j%d", njnt);
      if (mjg_chance(r, 0.3)) { j->limited = mjLIMITED_TRUE; j->range[0] = -0.01; j->range[1] = 0.01 * mjg_int(r, 2); }
      if (mjg_chance(r, 0.3)) j->frictionloss = 0.1;
    }
    njnt++;
    mjsGeom* g = mjs_addGeom(body, NULL); mjg_name(g->element, "g", b);
    g->type = mjg_chance(r, 0.7) ? mjGEOM_SPHERE : mjGEOM_BOX; g->size[0] = g->size[1] = g->size[2] = 0.1;
    if (mjg_chance(r, 0.2)) g->condim = 1;
    // a child body on some bodies so that trees have several bodies
    if (mjg_chance(r, 0.25)) {
      mjsBody* ch = mjs_addBody(body, NULL); ch->pos[2] = 0.15;
      mjsJoint* cj = mjs_addJoint(ch, NULL); mjg_name(cj->element, "j", njnt);
      cj->type = mjJNT_HINGE; if (nh < 512) snprintf(hinge_names[nh++], 16, "j%d", njnt); njnt++;
      if (mjg_chance(r, 0.4)) cj->frictionloss = 0.05;
      mjsGeom* cg = mjs_addGeom(ch, NULL); cg->type = mjGEOM_SPHERE; cg->size[0] = 0.04;
    }
  }
  int ne = mjg_int(r, 1 + nbody / 3);
  for (int k = 0; k < ne; k++) {
    mjsEquality* e = mjs_addEquality(s, NULL); mjg_name(e->element, "e", k);
    int t = mjg_int(r, 3);
    char n1[16], n2[16];
    if (t == 2 && nh >= 2) {
      e->type = mjEQ_JOINT; e->objtype = mjOBJ_JOINT;
      int a = mjg_int(r, nh), b2 = (a + 1 + mjg_int(r, nh - 1)) % nh;
      mjs_setString(e->name1, hinge_names[a]); mjs_setString(e->name2, hinge_names[b2]); e->data[1] = 1;
    } else {
      e->type = t == 0 ? mjEQ_CONNECT : mjEQ_WELD; e->objtype = mjOBJ_BODY;
      int a = mjg_int(r, nbody); snprintf(n1, sizeof(n1), "b%d", a); mjs_setString(e->name1, n1);
      if (nbody > 1 && mjg_chance(r, 0.7)) { int b2 = (a + 1 + mjg_int(r, nbody - 1)) % nbody; snprintf(n2, sizeof(n2), "b%d", b2); mjs_setString(e->name2, n2); }
      if (e->type == mjEQ_WELD) { e->data[6] = 1; e->data[10] = 1; }
    }
    e->active = mjg_chance(r, 0.85);
  }
  if (nh >= 2) {
    int nt = mjg_int(r, 3);
    for (int k = 0; k < nt; k++) {
      mjsTendon* t = mjs_addTendon(s, NULL); mjg_name(t->element, "t", k);
      int nw = 2 + mjg_int(r, 3); if (nw > nh) nw = nh;
      int first = mjg_int(r, nh), stride = 1 + mjg_int(r, 3);      // distinct joints (a joint is wrapped at most once)
      while (nh % stride == 0 && stride > 1) stride--;
      for (int w = 0; w < nw; w++) mjs_wrapJoint(t, hinge_names[(first + w * stride) % nh], 0.5 + mjg_u(r));
      if (mjg_chance(r, 0.6)) t->frictionloss = 0.1;
      if (mjg_chance(r, 0.5)) { t->limited = mjLIMITED_TRUE; t->range[0] = -0.001; t->range[1] = 0.001 * mjg_int(r, 2); }
    }
  }
  return s;
}

// single-dof trees in a row, coupled by joint equalities, fixed tendons (friction loss, violated limits)
// and tendon equalities; no contacts.  Some multi-dof trees (two joints, free joint) are interleaved.
static mjSpec* chain_spec(uint64_t seed, int nbody) {
  mjg_rng R = { seed * 0xD1B54A32D192ED03ULL + 4242 }; mjg_rng* r = &R;
  mjSpec* s = mj_makeSpec();
  mjsBody* world = mjs_findBody(s, "world");
  static char jn[1024][16]; int nj = 0, njnt = 0;
  for (int b = 0; b < nbody; b++) {
    mjsBody* body = mjs_addBody(world, NULL); mjg_name(body->element, "b", b);
    body->pos[0] = 0.5 * b; body->pos[2] = 1;
    int kind = mjg_int(r, 20);                    // 0..13 one scalar joint, 14..16 two scalar joints, 17..19 free
    int n = kind < 14 ? 1 : kind < 17 ? 2 : 0;
    if (n == 0) { mjsJoint* j = mjs_addJoint(body, NULL); mjg_name(j->element, "f", njnt++); j->type = mjJNT_FREE; }
    for (int k = 0; k < n; k++) {
      mjsJoint* j = mjs_addJoint(body, NULL); snprintf(jn[nj], 16, "j%d", nj); mjs_setName(j->element, jn[nj]); nj++; njnt++;
      j->type = mjg_chance(r, 0.5) ? mjJNT_HINGE : mjJNT_SLIDE;
      j->axis[0] = k == 0; j->axis[1] = k == 1; j->axis[2] = 0.5;
    }
    mjsGeom* g = mjs_addGeom(body, NULL); g->type = mjGEOM_SPHERE; g->size[0] = 0.05; g->contype = 0; g->conaffinity = 0;
  }
  if (nj == 0) return s;
  int ne = 1 + mjg_int(r, 1 + nbody / 2);
  for (int k = 0; k < ne; k++) {
    mjsEquality* e = mjs_addEquality(s, NULL); mjg_name(e->element, "e", k);
    e->type = mjEQ_JOINT; e->objtype = mjOBJ_JOINT;
    int a = mjg_int(r, nj);
    mjs_setString(e->name1, jn[a]);
    if (nj > 1 && mjg_chance(r, 0.85)) {
      int b2 = mjg_chance(r, 0.65) ? (mjg_chance(r, 0.5) ? a + 1 : a - 1) : mjg_int(r, nj);
      if (b2 < 0) b2 = a + 1; if (b2 >= nj) b2 = a - 1; if (b2 == a) b2 = (a + 1) % nj;
      mjs_setString(e->name2, jn[b2]);
    }
    e->data[0] = 0; e->data[1] = (mjg_chance(r, 0.5) ? 1 : -1) * mjg_range(r, 0.5, 1.5);
    e->active = mjg_chance(r, 0.9);
  }
  int nt = nj >= 2 ? mjg_int(r, 2 + nbody / 3) : 0;
  for (int k = 0; k < nt; k++) {
    mjsTendon* t = mjs_addTendon(s, NULL); mjg_name(t->element, "t", k);
    int nw = 2 + mjg_int(r, 2); if (nw > nj) nw = nj;
    int first = mjg_int(r, nj), stride = mjg_chance(r, 0.7) ? 1 : 1 + mjg_int(r, 3);
    while (stride > 1 && nj % stride == 0) stride--;
    for (int w = 0; w < nw; w++) mjs_wrapJoint(t, jn[(first + w * stride) % nj], (mjg_chance(r, 0.5) ? 1 : -1) * (0.5 + mjg_u(r)));
    int mode = mjg_int(r, 3);
    if (mode == 0 || mode == 2) t->frictionloss = 0.1;
    if (mode == 1 || mode == 2) { t->limited = mjLIMITED_TRUE; t->range[0] = 0.1; t->range[1] = 0.5; }   // length 0 violates it
  }
  if (nt >= 2 && mjg_chance(r, 0.5)) {
    mjsEquality* e = mjs_addEquality(s, NULL); mjs_setName(e->element, "te");
    e->type = mjEQ_TENDON; e->objtype = mjOBJ_TENDON;
    int a = mjg_int(r, nt), b2 = (a + 1 + mjg_int(r, nt - 1)) % nt; char n1[16], n2[16];
    snprintf(n1, 16, "t%d", a); snprintf(n2, 16, "t%d", b2);
    mjs_setString(e->name1, n1); if (mjg_chance(r, 0.7)) mjs_setString(e->name2, n2);
    e->data[0] = 0; e->data[1] = 1;
  }
  return s;
}

int main(void) {
  mjg_install_handlers();
  signal(SIGSEGV, on_segv); signal(SIGBUS, on_segv); signal(SIGABRT, on_segv);
  char op[8];
  while (scanf("%7s", op) == 1) {
    unsigned long long seed; unsigned feat = 0; int nbody, jac, steps;
    mjSpec* s = NULL;
    if (op[0] == 'G') { if (scanf("%llu %u %d %d %d", &seed, &feat, &nbody, &jac, &steps) != 5) return 2; s = mjg_spec(seed, feat, nbody); }
    else if (op[0] == 'P') { if (scanf("%llu %d %d %d", &seed, &nbody, &jac, &steps) != 4) return 2; s = pile_spec(seed, nbody); }
    else if (op[0] == 'C') { if (scanf("%llu %d %d %d", &seed, &nbody, &jac, &steps) != 4) return 2; s = chain_spec(seed, nbody); }
    else return 2;
    s->option.jacobian = jac == 1 ? mjJAC_SPARSE : jac == 2 ? mjJAC_AUTO : mjJAC_DENSE;
    phase = "compile";
    mjModel* m = mj_compile(s, NULL);
    phase = "run";
    if (!m) { printf("X compile %s\n", mjs_getError(s)); fflush(stdout); mj_deleteSpec(s); continue; }
    mjData* d = mj_makeData(m);
    int ok = 1;
    if (MJG_TRY) {
      if (op[0] == 'G') { mjg_rng r = { seed * 31 + 7 }; mjg_random_state(m, d, &r, 0.3); }
      for (int i = 0; i < steps; i++) mj_step(m, d);
      mj_forward(m, d);
      MJG_END;
    } else { ok = 0; }
    if (!ok) { printf("X error %s\n", mjg_last_error); fflush(stdout); mj_deleteData(d); mj_deleteModel(m); mj_deleteSpec(s); continue; }
    int ntree = m->ntree, nv = m->nv, nefc = d->nefc, ni = d->nisland;
    printf("%d %d %d %d %d ", ntree, nv, nefc, ni, d->nidof);
    pr(m->tree_dofnum, ntree); pr(m->dof_treeid, nv);
    int sparse = mj_isSparse(m);
    // per-row trees from the Jacobian; the rows of one constraint (same efc_type and efc_id, consecutive)
    // are given the union of their trees: a single scalar row can vanish numerically in dense mode
    int (*rtrees)[64] = malloc(sizeof(int[64]) * (nefc > 0 ? nefc : 1));
    int* rk = malloc(sizeof(int) * (nefc > 0 ? nefc : 1));
    for (int i = 0; i < nefc; i++) {
      int* trees = rtrees[i]; int k = 0;
      if (sparse) {
        for (int j = 0; j < d->efc_J_rownnz[i]; j++) {
          int t = m->dof_treeid[d->efc_J_colind[d->efc_J_rowadr[i] + j]];
          int seen = 0; for (int q = 0; q < k; q++) if (trees[q] == t) seen = 1;
          if (!seen && k < 64) trees[k++] = t;
        }
      } else {
        for (int j = 0; j < nv; j++) if (d->efc_J[(size_t)nv * i + j] != 0) {
          int t = m->dof_treeid[j];
          int seen = 0; for (int q = 0; q < k; q++) if (trees[q] == t) seen = 1;
          if (!seen && k < 64) trees[k++] = t;
        }
      }
      // dense mode: entries of a geom-geom contact row can vanish numerically although the dofs are
      // structurally in the row (e.g. frictionless contact on a sphere hinged at its centre), so the
      // trees of the two bodies are added; in sparse mode the row's colind is used as it is
      if ((!sparse || k == 0) && (d->efc_type[i] == mjCNSTR_CONTACT_FRICTIONLESS || d->efc_type[i] == mjCNSTR_CONTACT_PYRAMIDAL ||
                                  d->efc_type[i] == mjCNSTR_CONTACT_ELLIPTIC)) {
        const mjContact* con = d->contact + d->efc_id[i];
        for (int q = 0; q < 2; q++) if (con->geom[q] >= 0) {
          int t = m->body_treeid[m->geom_bodyid[con->geom[q]]];
          int seen = 0; for (int z = 0; z < k; z++) if (trees[z] == t) seen = 1;
          if (t >= 0 && !seen && k < 64) trees[k++] = t;
        }
      }
      rk[i] = k;
    }
    for (int i = 0; i < nefc; ) {
      int e = i + 1;
      while (e < nefc && d->efc_type[e] == d->efc_type[i] && d->efc_id[e] == d->efc_id[i]) e++;
      int uni[64]; int uk = 0;
      for (int r2 = i; r2 < e; r2++) for (int q = 0; q < rk[r2]; q++) {
        int t = rtrees[r2][q]; int seen = 0; for (int z = 0; z < uk; z++) if (uni[z] == t) seen = 1;
        if (!seen && uk < 64) uni[uk++] = t;
      }
      for (int r2 = i; r2 < e; r2++) {
        int cls = d->efc_type[r2] == mjCNSTR_EQUALITY ? 0 :
                  (d->efc_type[r2] == mjCNSTR_FRICTION_DOF || d->efc_type[r2] == mjCNSTR_FRICTION_TENDON) ? 1 : 2;
        printf("%d %d ", cls, uk); pr(uni, uk);
      }
      i = e;
    }
    free(rtrees); free(rk);
    pr(d->efc_type, nefc); pr(d->efc_id, nefc);
    if (ni > 0) {
      pr(d->tree_island, ntree); pr(d->island_ntree, ni); pr(d->island_itreeadr, ni); pr(d->map_itree2tree, ntree);
      pr(d->dof_island, nv); pr(d->island_nv, ni); pr(d->island_idofadr, ni); pr(d->island_dofadr, ni);
      pr(d->map_dof2idof, nv); pr(d->map_idof2dof, nv);
      pr(d->efc_island, nefc); pr(d->island_ne, ni); pr(d->island_nf, ni); pr(d->island_nefc, ni); pr(d->island_iefcadr, ni);
      pr(d->map_efc2iefc, nefc); pr(d->map_iefc2efc, nefc); pr(d->iefc_type, nefc); pr(d->iefc_id, nefc);
    }
    printf("\n"); fflush(stdout);
    mj_deleteData(d); mj_deleteModel(m); mj_deleteSpec(s);
  }
  return 0;
}
