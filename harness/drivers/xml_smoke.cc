// Smoke test of the XML-enabled library (src/xml of the working tree on the tinyxml2 shim).
// Self-checking: prints one line per test, exit code = number of failed tests.
#include <mujoco/mujoco.h>

#include <cmath>
#include <cstdio>
#include <cstdlib>
#include <cstring>
#include <string>

#include "tinyxml2.h"

static int nfail = 0;
static void Report(const char* name, bool ok, const std::string& detail = "") {
  std::printf("%s %s %s\n", ok ? "PASS" : "FAIL", name, detail.c_str());
  if (!ok) ++nfail;
}

static const char* kModel = R"(<?xml version="1.0" encoding="utf-8"?>
<!-- leading comment -->
<mujoco model="smoke &amp; &quot;test&quot;">
  <compiler angle="radian" autolimits="true"/>
  <option timestep="0.002" integrator="RK4" gravity='0 0 -9.81'/>
  <default>
    <geom rgba="0.8 0.6 0.4 1" friction="0.9 0.005 0.0001"/>
    <default class="arm">
      <joint damping="0.5" armature="0.01"/>
      <geom type="capsule" size="0.03"/>
    </default>
  </default>
  <asset>
    <texture name="grid" type="2d" builtin="checker" width="64" height="64" rgb1=".1 .2 .3" rgb2=".2 .3 .4"/>
    <material name="grid" texture="grid" texrepeat="2 2"/>
  </asset>
  <worldbody>
    <light pos="0 0 3" dir="0 0 -1"/>
    <geom name="floor" type="plane" size="2 2 .1" material="grid"/>
    <body name="base" pos="0 0 1">
      <freejoint name="root"/>
      <geom name="torso" type="box" size=".1 .1 .1" mass="1"/>
      <site name="imu" pos="0 0 .1"/>
      <body name="upper" pos=".1 0 0" childclass="arm">
        <joint name="shoulder" type="hinge" axis="0 1 0" range="-1.5 1.5"/>
        <geom name="upper" fromto="0 0 0 .3 0 0"/>
        <body name="lower" pos=".3 0 0">
          <joint name="elbow" type="hinge" axis="0 1 0" range="-2 0"/>
          <geom name="lower" fromto="0 0 0 .25 0 0"/>
          <site name="tip" pos=".25 0 0"/>
        </body>
      </body>
    </body>
  </worldbody>
  <tendon>
    <fixed name="coupled">
      <joint joint="shoulder" coef="1"/>
      <joint joint="elbow" coef="-1"/>
    </fixed>
  </tendon>
  <actuator>
    <motor name="m_shoulder" joint="shoulder" gear="20" ctrlrange="-1 1"/>
    <position name="p_elbow" joint="elbow" kp="30" ctrlrange="-2 0"/>
    <general name="g_tendon" tendon="coupled" gaintype="fixed" biastype="affine" gainprm="5" biasprm="0 -5 -1"/>
  </actuator>
  <sensor>
    <accelerometer name="acc" site="imu"/>
    <gyro name="gyro" site="imu"/>
    <jointpos name="q_elbow" joint="elbow"/>
    <framepos name="tip_pos" objtype="site" objname="tip"/>
    <actuatorfrc name="f_shoulder" actuator="m_shoulder"/>
  </sensor>
  <keyframe>
    <key name="home" qpos="0 0 1 1 0 0 0 0.3 -0.6" ctrl="0.1 -0.6 0"/>
  </keyframe>
</mujoco>
)";

struct Case { const char* name; const char* xml; const char* want; };  // want: substring of the error

static const Case kBad[] = {
    {"unclosed", "<mujoco><worldbody><body></worldbody></mujoco>", "XML parse error"},
    {"garbage", "this is not xml", "XML parse error"},
    {"empty", "", "XML parse error"},
    {"truncated", "<mujoco><worldbody><geom size=\"1", "XML parse error"},
    {"unknown_element", "<mujoco><worldbody><bogus/></worldbody></mujoco>", "unrecognized element"},
    {"unknown_attribute", "<mujoco><worldbody><geom size=\"1\" bogus=\"1\"/></worldbody></mujoco>", "unrecognized attribute"},
    {"bad_keyword", "<mujoco><worldbody><geom type=\"blob\" size=\"1\"/></worldbody></mujoco>", "invalid keyword"},
    {"too_much_data", "<mujoco><worldbody><geom size=\"1\" pos=\"1 2 3 4\"/></worldbody></mujoco>", "too much data"},
    {"bad_number", "<mujoco><worldbody><geom size=\"1\" pos=\"1 x 3\"/></worldbody></mujoco>", "bad format"},
    {"dup_unique", "<mujoco><option><flag/><flag/></option></mujoco>", "unique element 'flag' found 2 times"},
    {"accept_repeated_sections_is_not_an_error", nullptr, nullptr},
    {"wrong_root", "<model/>", "Unrecognized XML model type"},
};

int main() {
  char err[1000];

  // ---- shim self test: parse, print, re-parse gives the same DOM
  {
    tinyxml2::XMLDocument d1, d2;
    const char* src = "<?xml version=\"1.0\"?>\n<!--c-->\n<a x=\"1 &lt; 2 &amp; &quot;q&quot; &apos;s&apos; &#65;&#x42;\" y='it&apos;s \"q\"'>\n"
                      "  <b/>\n  <c k=\"v\">text &amp; more</c>\n  <![CDATA[raw <stuff>]]>\n</a>\n";
    bool ok = d1.Parse(src) == tinyxml2::XML_SUCCESS;
    tinyxml2::XMLPrinter p1;
    d1.Print(&p1);
    ok = ok && d2.Parse(p1.CStr(), p1.CStrSize() - 1) == tinyxml2::XML_SUCCESS;
    tinyxml2::XMLPrinter p2;
    d2.Print(&p2);
    ok = ok && !std::strcmp(p1.CStr(), p2.CStr());
    const tinyxml2::XMLElement* a = d2.RootElement();
    ok = ok && a && !std::strcmp(a->Attribute("x"), "1 < 2 & \"q\" 's' AB") && !std::strcmp(a->Attribute("y"), "it's \"q\"");
    ok = ok && a->GetLineNum() == 3 && a->FirstChildElement("c") && a->FirstChildElement("c")->GetLineNum() == 5;
    ok = ok && !std::strcmp(a->FirstChildElement("c")->GetText(), "text & more");
    Report("shim_roundtrip", ok, ok ? "" : p1.CStr());
    tinyxml2::XMLDocument d3;
    bool bad = d3.Parse("<a><b></a>") != tinyxml2::XML_SUCCESS && d3.Error() && d3.ErrorStr()[0] && !d3.RootElement();
    Report("shim_mismatch_is_error", bad, d3.ErrorStr());
    std::string deep;
    for (int i = 0; i < 600; i++) deep += "<a>";
    for (int i = 0; i < 600; i++) deep += "</a>";
    tinyxml2::XMLDocument d4;
    Report("shim_depth_limit", d4.Parse(deep.c_str()) == tinyxml2::XML_ELEMENT_DEPTH_EXCEEDED, d4.ErrorStr());
  }

  // ---- mj_parseXMLString + compile
  err[0] = 0;
  mjSpec* spec = mj_parseXMLString(kModel, nullptr, err, sizeof err);
  Report("parseXMLString", spec != nullptr, err);
  if (!spec) return nfail;
  mjModel* m = mj_compile(spec, nullptr);
  Report("compile", m != nullptr, m ? "" : mjs_getError(spec));
  if (!m) return nfail;
  bool dims = m->nbody == 4 && m->njnt == 3 && m->nq == 9 && m->nv == 8 && m->nu == 3 && m->nsensor == 5 &&
              m->nkey == 1 && m->ntendon == 1 && m->ngeom == 4 && m->nsite == 2 && m->nmat == 1 && m->ntex == 1;
  char dbuf[300];
  std::snprintf(dbuf, sizeof dbuf, "nbody=%d njnt=%d nq=%d nv=%d nu=%d nsensor=%d nkey=%d ntendon=%d ngeom=%d nsite=%d",
                (int)m->nbody, (int)m->njnt, (int)m->nq, (int)m->nv, (int)m->nu, (int)m->nsensor, (int)m->nkey,
                (int)m->ntendon, (int)m->ngeom, (int)m->nsite);
  Report("dimensions", dims, dbuf);
  bool vals = m->opt.timestep == 0.002 && m->opt.integrator == mjINT_RK4 && std::fabs(m->opt.gravity[2] + 9.81) < 1e-12 &&
              std::fabs(m->dof_damping[6] - 0.5) < 1e-12 && std::fabs(m->geom_friction[0] - 0.9) < 1e-12 &&
              std::fabs(m->actuator_gear[0] - 20) < 1e-12 && std::fabs(m->key_qpos[8] + 0.6) < 1e-12 &&
              !std::strcmp(m->names + m->name_bodyadr[3], "lower");
  Report("values_defaults_keyframe", vals);
  mjData* d = mj_makeData(m);
  mj_resetDataKeyframe(m, d, 0);
  for (int i = 0; i < 10; i++) mj_step(m, d);
  Report("step", std::isfinite(d->qpos[2]) && d->time > 0.019);

  // ---- mj_saveXMLString round trip
  static char out[200000];
  err[0] = 0;
  int rc = mj_saveXMLString(spec, out, sizeof out, err, sizeof err);
  Report("saveXMLString", rc == 0 && std::strstr(out, "<mujoco model=\"smoke &amp; &quot;test&quot;\">"), rc == 0 ? "" : err);
  mjSpec* spec2 = mj_parseXMLString(out, nullptr, err, sizeof err);
  Report("reparse_saved", spec2 != nullptr, err);
  if (spec2) {
    mjModel* m2 = mj_compile(spec2, nullptr);
    bool same = m2 && m2->nq == m->nq && m2->nv == m->nv && m2->nu == m->nu && m2->nsensor == m->nsensor &&
                m2->nbody == m->nbody && m2->ngeom == m->ngeom && m2->nkey == m->nkey && m2->ntendon == m->ntendon;
    if (same) {
      for (int i = 0; i < m->nbody * 3 && same; i++) same = std::fabs(m->body_pos[i] - m2->body_pos[i]) < 1e-9;
      for (int i = 0; i < m->nv && same; i++) same = std::fabs(m->dof_damping[i] - m2->dof_damping[i]) < 1e-9;
      for (int i = 0; i < m->nbody && same; i++) same = std::fabs(m->body_mass[i] - m2->body_mass[i]) < 1e-9;
    }
    Report("roundtrip_same_model", same, m2 ? "" : mjs_getError(spec2));
    if (m2) mj_deleteModel(m2);
    mj_deleteSpec(spec2);
  }

  // ---- mj_loadXML through a VFS + mj_saveLastXML
  {
    mjVFS vfs;
    mj_defaultVFS(&vfs);
    int arc = mj_addBufferVFS(&vfs, "smoke.xml", kModel, (int)std::strlen(kModel));
    err[0] = 0;
    mjModel* m3 = mj_loadXML("smoke.xml", &vfs, err, sizeof err);
    Report("loadXML_vfs", arc == 0 && m3 != nullptr && m3->nq == 9, err);
    if (m3) {
      const char* fn = "/var/tmp/verif-xml-smoke-last.xml";
      err[0] = 0;
      int ok = mj_saveLastXML(fn, m3, err, sizeof err);
      Report("saveLastXML", ok == 1, err);
      mjModel* m4 = ok ? mj_loadXML(fn, nullptr, err, sizeof err) : nullptr;
      Report("reload_saveLastXML", m4 != nullptr && m4->nq == 9 && m4->nu == 3, err);
      if (m4) mj_deleteModel(m4);
      std::remove(fn);
      mj_deleteModel(m3);
    }
    err[0] = 0;
    mjModel* m5 = mj_loadXML("missing.xml", &vfs, err, sizeof err);
    Report("loadXML_missing_file", m5 == nullptr && err[0] != 0, err);
    mj_deleteVFS(&vfs);
    mj_freeLastXML();
  }

  // ---- invalid documents: NULL + non-empty message of the expected class
  for (const Case& c : kBad) {
    if (!c.xml) continue;
    std::memset(err, 0, sizeof err);
    mjSpec* s = mj_parseXMLString(c.xml, nullptr, err, sizeof err);
    bool ok = s == nullptr && err[0] != 0 && std::strstr(err, c.want) != nullptr;
    std::string e(err);
    for (char& ch : e) if (ch == '\n') ch = '|';
    Report((std::string("reject_") + c.name).c_str(), ok, e);
    if (s) mj_deleteSpec(s);
  }

  // ---- schema printing
  {
    static char sbuf[400000];
    int n = mj_printSchema(nullptr, sbuf, sizeof sbuf, 0, 0);
    Report("printSchema", n > 1000 && std::strstr(sbuf, "mujoco (!)") != nullptr);
  }

  mj_deleteData(d);
  mj_deleteModel(m);
  mj_deleteSpec(spec);
  std::printf("%s: %d failed\n", nfail ? "SMOKE-FAIL" : "SMOKE-OK", nfail);
  return nfail;
}
