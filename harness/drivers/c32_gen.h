// c32_gen.h — C32's local extensions of the mjgen.h generator (stub, filled below)
#ifndef VERIF_C32_GEN_H_
#define VERIF_C32_GEN_H_
#include "mjgen.h"
static inline void c32_extend(mjSpec* s, uint64_t seed, unsigned feat, int nbody, unsigned ext) { (void)s; (void)seed; (void)feat; (void)nbody; (void)ext; }
#endif
