// c32_gen.h — C32's local extensions of the mjgen.h generator (mjSpec route): states that MJCF text
// does not produce directly.  ext bits:
//   1  default classes added through mjs_addDefault with modified joint/geom/site defaults, and existing
//      elements re-assigned to them with mjs_setDefault (the class changes, the element's values do not)
//   2  keyframes with full qpos/qvel/act/ctrl/mpos/mquat vectors (sizes taken from a trial compile)
//   4  frames: new geoms and sites attached to (nested) frames with mjs_setFrame
#ifndef VERIF_C32_GEN_H_
#define VERIF_C32_GEN_H_
#include "mjgen.h"

static inline void c32_extend(mjSpec* s, uint64_t seed, unsigned feat, int nbody, unsigned ext) {
  (void)feat; (void)nbody;
  mjg_rng R = { seed * 0x9E3779B97F4A7C15ULL + 777 }; mjg_rng* r = &R;
  mjsBody* world = mjs_findBody(s, "world");
  if (ext & 1) {
    mjsDefault* main_def = mjs_getSpecDefault(s);
    mjsDefault* a = mjs_addDefault(s, "cA", main_def);
    a->geom->friction[0] = mjg_range(r, 0.2, 1.5); a->geom->margin = mjg_range(r, 0, 0.01); a->geom->rgba[0] = 0.25f;
    a->geom->solref[0] = mjg_range(r, 0.005, 0.05); a->geom->group = 2;
    a->joint->armature = mjg_range(r, 0, 0.1); a->joint->damping[0] = mjg_range(r, 0, 1); a->joint->stiffness[1] = mjg_range(r, 0, 1);
    a->joint->solimp_limit[2] = mjg_range(r, 0.0005, 0.01);
    a->site->size[0] = 0.02; a->site->rgba[1] = 0.75f;
    mjsDefault* b = mjs_addDefault(s, "cB", a);
    b->geom->friction[0] = a->geom->friction[0];          // same as the parent: must not be written
    b->geom->friction[1] = mjg_range(r, 0.001, 0.01);
    b->geom->condim = 4;
    b->joint->armature = 0;                                 // back to the builtin value: differs from the parent
    b->joint->frictionloss = mjg_range(r, 0, 0.5);
    mjsDefault* defs[3] = {main_def, a, b};
    for (mjsElement* e = mjs_firstElement(s, mjOBJ_GEOM); e; e = mjs_nextElement(s, e))
      if (mjg_chance(r, 0.5)) mjs_setDefault(e, defs[mjg_int(r, 3)]);
    for (mjsElement* e = mjs_firstElement(s, mjOBJ_JOINT); e; e = mjs_nextElement(s, e))
      if (mjg_chance(r, 0.5) && mjs_asJoint(e)->type != mjJNT_FREE) mjs_setDefault(e, defs[mjg_int(r, 3)]);
    // new elements created from the classes (values copied from the class at creation)
    for (mjsElement* e = mjs_firstElement(s, mjOBJ_BODY); e; e = mjs_nextElement(s, e)) {
      mjsBody* body = mjs_asBody(e);
      if (body == world || !mjg_chance(r, 0.4)) continue;
      mjsGeom* g = mjs_addGeom(body, defs[1 + mjg_int(r, 2)]);
      g->type = mjGEOM_SPHERE; g->size[0] = mjg_range(r, 0.02, 0.05); g->contype = 0; g->conaffinity = 0;
      if (mjg_chance(r, 0.5)) g->friction[0] = mjg_range(r, 0.2, 1.5);
    }
  }
  if (ext & 4) {
    int k = 0;
    for (mjsElement* e = mjs_firstElement(s, mjOBJ_BODY); e; e = mjs_nextElement(s, e)) {
      mjsBody* body = mjs_asBody(e);
      if (body == world || !mjg_chance(r, 0.5)) continue;
      mjsFrame* f = mjs_addFrame(body, NULL);
      for (int i = 0; i < 3; i++) f->pos[i] = mjg_range(r, -0.2, 0.2);
      mjg_quat(r, f->quat);
      if (mjg_chance(r, 0.5)) mjg_name(f->element, "fr", k);
      mjsFrame* f2 = mjg_chance(r, 0.5) ? mjs_addFrame(body, f) : NULL;
      if (f2) { f2->pos[0] = mjg_range(r, -0.1, 0.1); mjg_quat(r, f2->quat); }
      mjsGeom* g = mjs_addGeom(body, NULL);
      g->type = mjGEOM_BOX; g->size[0] = 0.02; g->size[1] = 0.03; g->size[2] = 0.04; g->contype = 0; g->conaffinity = 0;
      for (int i = 0; i < 3; i++) g->pos[i] = mjg_range(r, -0.1, 0.1);
      if (mjg_chance(r, 0.5)) mjg_quat(r, g->quat);
      mjs_setFrame(g->element, f2 ? f2 : f);
      mjsSite* st = mjs_addSite(body, NULL);
      mjg_name(st->element, "fs", k++);
      for (int i = 0; i < 3; i++) st->pos[i] = mjg_range(r, -0.1, 0.1);
      mjs_setFrame(st->element, f);
    }
  }
  if (ext & 2) {
    mjModel* m = mj_compile(s, NULL);
    if (m) {
      int nq = (int)m->nq, nv = (int)m->nv, na = (int)m->na, nu = (int)m->nu, nm = (int)m->nmocap;
      double* buf = (double*)calloc((size_t)(nq + nv + na + nu + 7 * nm + 8), sizeof(double));
      for (int k = 0; k < 3; k++) {
        mjsKey* key = mjs_addKey(s);
        mjg_name(key->element, "kk", k);
        key->time = k == 0 ? 0 : mjg_range(r, 0, 2);
        if (k == 2) continue;                       // named key with default data
        for (int i = 0; i < nq; i++) buf[i] = m->qpos0[i] + (mjg_chance(r, 0.7) ? mjg_range(r, -0.3, 0.3) : 0);
        for (int j = 0; j < m->njnt; j++) {          // keep quaternions of free/ball joints normalized
          int adr = m->jnt_qposadr[j];
          if (m->jnt_type[j] == mjJNT_FREE) mjg_quat(r, buf + adr + 3);
          if (m->jnt_type[j] == mjJNT_BALL) mjg_quat(r, buf + adr);
        }
        if (mjg_chance(r, 0.8)) mjs_setDouble(key->qpos, buf, nq);
        for (int i = 0; i < nv; i++) buf[i] = mjg_range(r, -1, 1);
        if (mjg_chance(r, 0.7)) mjs_setDouble(key->qvel, buf, nv);
        for (int i = 0; i < na; i++) buf[i] = mjg_range(r, -0.5, 0.5);
        if (na && mjg_chance(r, 0.7)) mjs_setDouble(key->act, buf, na);
        for (int i = 0; i < nu; i++) buf[i] = mjg_range(r, -1, 1);
        if (nu && mjg_chance(r, 0.7)) mjs_setDouble(key->ctrl, buf, nu);
        for (int i = 0; i < 3 * nm; i++) buf[i] = mjg_range(r, -1, 1);
        if (nm && mjg_chance(r, 0.7)) mjs_setDouble(key->mpos, buf, 3 * nm);
        for (int i = 0; i < nm; i++) mjg_quat(r, buf + 4 * i);
        if (nm && mjg_chance(r, 0.7)) mjs_setDouble(key->mquat, buf, 4 * nm);
      }
      // a key that differs from qpos0 only in the last coordinate (beyond nv when there are free/ball joints)
      if (nq > 0) {
        mjsKey* key = mjs_addKey(s);
        mjs_setName(key->element, "klast");
        for (int i = 0; i < nq; i++) buf[i] = m->qpos0[i];
        int lastj = m->njnt - 1;
        if (m->jnt_type[lastj] == mjJNT_FREE || m->jnt_type[lastj] == mjJNT_BALL) {
          buf[nq - 4] = 0.6; buf[nq - 3] = 0; buf[nq - 2] = 0; buf[nq - 1] = 0.8;
        } else {
          buf[nq - 1] += 0.25;
        }
        mjs_setDouble(key->qpos, buf, nq);
      }
      free(buf);
      mj_deleteModel(m);
    }
  }
}
#endif
