// C28 driver: sensors of the working tree.  One request per stdin line, replies are blocks of lines
// closed by "END".  Doubles are printed as C99 hex floats.
//   C                              enum constants the Python side and the Coq model rely on
//   K type datatype cutoff dim x.. apply_cutoff (the static function of engine_sensor.c) on a patched model
//   W seed nrep                    touch scene: plane, box on it, box on the box, thin touch zones in front of / behind the
//                                  contact points on all three bodies (same reply format as M)
//   M seed feat nbody nrep         mjgen model + cameras + probe geoms/sites + sensors of every kind that
//                                  can be instantiated through mjSpec here, in shuffled order; per
//                                  repetition a random state (optionally advanced by some mj_step),
//                                  mj_forward, then for every sensor the reading and the documented
//                                  quantity recomputed here from the simulation state with independent
//                                  formulas (Jacobians mj_jac / mj_jacDot instead of cvel / cacc,
//                                  own frame algebra), canary checks, finite-difference checks and
//                                  the inputs/outputs of the reference-frame kernels for the Coq model.
#include "mjgen.h"
#include "engine/engine_sensor.c"   // apply_cutoff is static: every symbol of that TU is defined here

#define CAN (-7.7e77)

static void pd(const mjtNum* v, int n) { for (int i = 0; i < n; i++) printf(" %a", (double)v[i]); }

// ---------------------------------------------------------------- small algebra (own code)
static void mTv(const mjtNum* R, const mjtNum* v, mjtNum* o) {
  for (int i = 0; i < 3; i++) o[i] = R[i] * v[0] + R[3 + i] * v[1] + R[6 + i] * v[2];
}
static void crs(const mjtNum* a, const mjtNum* b, mjtNum* o) {
  o[0] = a[1] * b[2] - a[2] * b[1]; o[1] = a[2] * b[0] - a[0] * b[2]; o[2] = a[0] * b[1] - a[1] * b[0];
}
static mjtNum nrm(const mjtNum* a) { return sqrt(a[0] * a[0] + a[1] * a[1] + a[2] * a[2]); }
static void q2m(const mjtNum* q, mjtNum* m) {
  mjtNum w = q[0], x = q[1], y = q[2], z = q[3];
  m[0] = w * w + x * x - y * y - z * z; m[1] = 2 * (x * y - w * z); m[2] = 2 * (x * z + w * y);
  m[3] = 2 * (x * y + w * z); m[4] = w * w - x * x + y * y - z * z; m[5] = 2 * (y * z - w * x);
  m[6] = 2 * (x * z - w * y); m[7] = 2 * (y * z + w * x); m[8] = w * w - x * x - y * y + z * z;
}
// rotation matrix -> unit quaternion (largest-component branch), own code
static void m2q(const mjtNum* m, mjtNum* q) {
  mjtNum t0 = 1 + m[0] + m[4] + m[8], t1 = 1 + m[0] - m[4] - m[8], t2 = 1 - m[0] + m[4] - m[8], t3 = 1 - m[0] - m[4] + m[8];
  if (t0 >= t1 && t0 >= t2 && t0 >= t3) { mjtNum s = 0.5 * sqrt(t0); q[0] = s; q[1] = (m[7] - m[5]) / (4 * s); q[2] = (m[2] - m[6]) / (4 * s); q[3] = (m[3] - m[1]) / (4 * s); }
  else if (t1 >= t2 && t1 >= t3) { mjtNum s = 0.5 * sqrt(t1); q[1] = s; q[0] = (m[7] - m[5]) / (4 * s); q[2] = (m[1] + m[3]) / (4 * s); q[3] = (m[2] + m[6]) / (4 * s); }
  else if (t2 >= t3) { mjtNum s = 0.5 * sqrt(t2); q[2] = s; q[0] = (m[2] - m[6]) / (4 * s); q[1] = (m[1] + m[3]) / (4 * s); q[3] = (m[5] + m[7]) / (4 * s); }
  else { mjtNum s = 0.5 * sqrt(t3); q[3] = s; q[0] = (m[3] - m[1]) / (4 * s); q[1] = (m[2] + m[6]) / (4 * s); q[2] = (m[5] + m[7]) / (4 * s); }
}
// A^T B for row-major 3x3
static void mTm(const mjtNum* A, const mjtNum* B, mjtNum* C) {
  for (int i = 0; i < 3; i++) for (int j = 0; j < 3; j++) C[3 * i + j] = A[i] * B[j] + A[3 + i] * B[3 + j] + A[6 + i] * B[6 + j];
}

// ---------------------------------------------------------------- frames and point kinematics
// documented frame of an object: body = inertial frame, xbody = regular body frame, geom, site, camera
static int frame_of(const mjModel* m, const mjData* d, int ot, int id, const mjtNum** pos, const mjtNum** mat, int* body) {
  switch (ot) {
    case mjOBJ_BODY: *pos = d->xipos + 3 * id; *mat = d->ximat + 9 * id; *body = id; return 1;
    case mjOBJ_XBODY: *pos = d->xpos + 3 * id; *mat = d->xmat + 9 * id; *body = id; return 1;
    case mjOBJ_GEOM: *pos = d->geom_xpos + 3 * id; *mat = d->geom_xmat + 9 * id; *body = m->geom_bodyid[id]; return 1;
    case mjOBJ_SITE: *pos = d->site_xpos + 3 * id; *mat = d->site_xmat + 9 * id; *body = m->site_bodyid[id]; return 1;
    case mjOBJ_CAMERA: *pos = d->cam_xpos + 3 * id; *mat = d->cam_xmat + 9 * id; *body = m->cam_bodyid[id]; return 1;
    default: return 0;
  }
}
static mjtNum *JP, *JR, *JDP, *JDR;   // 3 x nv scratch
// velocity of the material point p of body b: w = Jr qvel, v = Jp qvel
static void point_vel(const mjModel* m, const mjData* d, int b, const mjtNum* p, mjtNum* w, mjtNum* v) {
  mj_jac(m, d, JP, JR, p, b);
  for (int i = 0; i < 3; i++) { w[i] = 0; v[i] = 0; for (int k = 0; k < m->nv; k++) { w[i] += JR[i * m->nv + k] * d->qvel[k]; v[i] += JP[i * m->nv + k] * d->qvel[k]; } }
}
// classical acceleration of the material point p of body b in the frame where the world accelerates with -gravity
static void point_acc(const mjModel* m, const mjData* d, int b, const mjtNum* p, mjtNum* al, mjtNum* a, mjtNum* scl) {
  mj_jac(m, d, JP, JR, p, b);
  mj_jacDot(m, d, JDP, JDR, p, b);
  mjtNum s = 0;
  for (int i = 0; i < 3; i++) {
    mjtNum a1 = 0, a2 = 0, b1 = 0, b2 = 0;
    for (int k = 0; k < m->nv; k++) {
      a1 += JP[i * m->nv + k] * d->qacc[k]; a2 += JDP[i * m->nv + k] * d->qvel[k];
      b1 += JR[i * m->nv + k] * d->qacc[k]; b2 += JDR[i * m->nv + k] * d->qvel[k];
      s += fabs(JP[i * m->nv + k] * d->qacc[k]) + fabs(JDP[i * m->nv + k] * d->qvel[k]) + fabs(JR[i * m->nv + k] * d->qacc[k]) + fabs(JDR[i * m->nv + k] * d->qvel[k]);
    }
    a[i] = a1 + a2 - m->opt.gravity[i]; al[i] = b1 + b2;
  }
  *scl = s + nrm(m->opt.gravity);
}
static int inside_site(const mjModel* m, const mjData* d, int sid, const mjtNum* p) {
  mjtNum r[3], l[3]; for (int i = 0; i < 3; i++) r[i] = p[i] - d->site_xpos[3 * sid + i];
  mTv(d->site_xmat + 9 * sid, r, l);
  const mjtNum* s = m->site_size + 3 * sid;
  switch (m->site_type[sid]) {
    case mjGEOM_SPHERE: return l[0] * l[0] + l[1] * l[1] + l[2] * l[2] < s[0] * s[0];
    case mjGEOM_BOX: return fabs(l[0]) < s[0] && fabs(l[1]) < s[1] && fabs(l[2]) < s[2];
    case mjGEOM_ELLIPSOID: return l[0] * l[0] / (s[0] * s[0]) + l[1] * l[1] / (s[1] * s[1]) + l[2] * l[2] / (s[2] * s[2]) < 1;
    case mjGEOM_CYLINDER: return fabs(l[2]) < s[1] && l[0] * l[0] + l[1] * l[1] < s[0] * s[0];
    case mjGEOM_CAPSULE: { mjtNum z = l[2] < -s[1] ? -s[1] : (l[2] > s[1] ? s[1] : l[2]); return l[0] * l[0] + l[1] * l[1] + (l[2] - z) * (l[2] - z) < s[0] * s[0]; }
    default: return -1;
  }
}
// own half-line / solid test: does p + t*v, t >= 0, meet the (convex) solid of site sid?  -1: unsupported shape
static int interval_quadratic(mjtNum A, mjtNum B, mjtNum C, mjtNum* t0, mjtNum* t1) {
  // solutions of A t^2 + 2 B t + C <= 0 with A > 0; returns 0 if empty
  mjtNum disc = B * B - A * C; if (disc < 0) return 0;
  mjtNum r = sqrt(disc); *t0 = (-B - r) / A; *t1 = (-B + r) / A; return 1;
}
static int ray_hits_site(const mjModel* m, const mjData* d, int sid, const mjtNum* p, const mjtNum* v) {
  mjtNum r[3], lp[3], lv[3]; for (int i = 0; i < 3; i++) r[i] = p[i] - d->site_xpos[3 * sid + i];
  mTv(d->site_xmat + 9 * sid, r, lp); mTv(d->site_xmat + 9 * sid, v, lv);
  const mjtNum* s = m->site_size + 3 * sid; mjtNum t0, t1, lo = 0, hi = 1e30;
  switch (m->site_type[sid]) {
    case mjGEOM_SPHERE:
      if (!interval_quadratic(lv[0] * lv[0] + lv[1] * lv[1] + lv[2] * lv[2], lp[0] * lv[0] + lp[1] * lv[1] + lp[2] * lv[2], lp[0] * lp[0] + lp[1] * lp[1] + lp[2] * lp[2] - s[0] * s[0], &t0, &t1)) return 0;
      return t1 >= 0;
    case mjGEOM_ELLIPSOID: {
      mjtNum q[3], w[3]; for (int i = 0; i < 3; i++) { q[i] = lp[i] / s[i]; w[i] = lv[i] / s[i]; }
      if (!interval_quadratic(w[0] * w[0] + w[1] * w[1] + w[2] * w[2], q[0] * w[0] + q[1] * w[1] + q[2] * w[2], q[0] * q[0] + q[1] * q[1] + q[2] * q[2] - 1, &t0, &t1)) return 0;
      return t1 >= 0;
    }
    case mjGEOM_BOX:
      for (int k = 0; k < 3; k++) {
        if (fabs(lv[k]) < 1e-14) { if (fabs(lp[k]) > s[k]) return 0; }
        else { mjtNum a = (-s[k] - lp[k]) / lv[k], b = (s[k] - lp[k]) / lv[k]; if (a > b) { mjtNum t = a; a = b; b = t; } if (a > lo) lo = a; if (b < hi) hi = b; if (lo > hi) return 0; }
      }
      return 1;
    case mjGEOM_CYLINDER: {
      // |xy| <= radius and |z| <= half height
      mjtNum A = lv[0] * lv[0] + lv[1] * lv[1];
      if (A < 1e-28) { if (lp[0] * lp[0] + lp[1] * lp[1] > s[0] * s[0]) return 0; }
      else { if (!interval_quadratic(A, lp[0] * lv[0] + lp[1] * lv[1], lp[0] * lp[0] + lp[1] * lp[1] - s[0] * s[0], &t0, &t1)) return 0; if (t0 > lo) lo = t0; if (t1 < hi) hi = t1; }
      if (fabs(lv[2]) < 1e-14) { if (fabs(lp[2]) > s[1]) return 0; }
      else { mjtNum a = (-s[1] - lp[2]) / lv[2], b = (s[1] - lp[2]) / lv[2]; if (a > b) { mjtNum t = a; a = b; b = t; } if (a > lo) lo = a; if (b < hi) hi = b; }
      return lo <= hi;
    }
    case mjGEOM_CAPSULE: {
      // union of the cylinder part and the two end spheres
      int hit = 0;
      mjtNum A = lv[0] * lv[0] + lv[1] * lv[1]; mjtNum l2 = 0, h2 = 1e30; int ok = 1;
      if (A < 1e-28) { if (lp[0] * lp[0] + lp[1] * lp[1] > s[0] * s[0]) ok = 0; }
      else { if (!interval_quadratic(A, lp[0] * lv[0] + lp[1] * lv[1], lp[0] * lp[0] + lp[1] * lp[1] - s[0] * s[0], &t0, &t1)) ok = 0; else { if (t0 > l2) l2 = t0; if (t1 < h2) h2 = t1; } }
      if (ok) {
        if (fabs(lv[2]) < 1e-14) { if (fabs(lp[2]) > s[1]) ok = 0; }
        else { mjtNum a = (-s[1] - lp[2]) / lv[2], b = (s[1] - lp[2]) / lv[2]; if (a > b) { mjtNum t = a; a = b; b = t; } if (a > l2) l2 = a; if (b < h2) h2 = b; }
        if (ok && l2 <= h2) hit = 1;
      }
      for (int e = -1; e <= 1 && !hit; e += 2) {
        mjtNum q[3] = {lp[0], lp[1], lp[2] - e * s[1]};
        if (interval_quadratic(lv[0] * lv[0] + lv[1] * lv[1] + lv[2] * lv[2], q[0] * lv[0] + q[1] * lv[1] + q[2] * lv[2], q[0] * q[0] + q[1] * q[1] + q[2] * q[2] - s[0] * s[0], &t0, &t1) && t1 >= 0) hit = 1;
      }
      return hit;
    }
    default: return -1;
  }
}
static int in_subtree(const mjModel* m, int b, int root) { while (b > root) b = m->body_parentid[b]; return b == root; }

// ---------------------------------------------------------------- user sensors
static double uval(int i, int j) { return ((j % 2) ? -1.0 : 1.0) * (0.4 + 0.9 * j + 0.1 * (i % 7)); }
static void user_cb(const mjModel* m, mjData* d, int stage) {
  for (int i = 0; i < m->nsensor; i++)
    if (m->sensor_type[i] == mjSENS_USER && m->sensor_needstage[i] == stage)
      for (int j = 0; j < m->sensor_dim[i]; j++) d->sensordata[m->sensor_adr[i] + j] = uval(i, j);
}

// ---------------------------------------------------------------- model construction
typedef struct {
  int type, ot, rt, datatype, needstage, dim, intprm0, group, role; double cutoff; char on[40], rn[40];
} Req;
#define MAXREQ 400
static Req reqs[MAXREQ]; static int nreq;
static void req(int type, int ot, const char* on, int rt, const char* rn, double cutoff, int group, int role) {
  if (nreq >= MAXREQ || !on) return;
  Req* q = &reqs[nreq++]; memset(q, 0, sizeof(*q));
  q->type = type; q->ot = ot; q->rt = rt; q->cutoff = cutoff; q->group = group; q->role = role;
  snprintf(q->on, sizeof(q->on), "%s", on); if (rn) snprintf(q->rn, sizeof(q->rn), "%s", rn);
}
static double cut(mjg_rng* r, double scale) { return mjg_chance(r, 0.4) ? scale * mjg_range(r, 0.1, 1.5) : 0; }
static const char* nm(const mjModel* m, int type, int id) { return mj_id2name(m, type == mjOBJ_XBODY ? mjOBJ_BODY : type, id); }
static int pick_frame(const mjModel* m0, mjg_rng* r, int* ot, const char** name) {
  static const int types[5] = {mjOBJ_BODY, mjOBJ_XBODY, mjOBJ_GEOM, mjOBJ_SITE, mjOBJ_CAMERA};
  for (int tries = 0; tries < 10; tries++) {
    int t = types[mjg_int(r, 5)];
    int cnt = (t == mjOBJ_BODY || t == mjOBJ_XBODY) ? m0->nbody : t == mjOBJ_GEOM ? m0->ngeom : t == mjOBJ_SITE ? m0->nsite : m0->ncam;
    if (!cnt) continue;
    int id = mjg_int(r, cnt);
    const char* n = nm(m0, t, id);
    if (!n || !n[0]) continue;
    *ot = t; *name = n; return 1;
  }
  return 0;
}

static int nxtm;   // number of tendon motors added after the SO3 servo
#define MAXGROUP 8
static int grp_idx[MAXGROUP][16];   // group -> role -> sensor id (-1 none); roles: 0 pos 1 quat 2..4 axes 5 linvel 6 angvel
static int ngroup;

static mjModel* build(uint64_t seed, unsigned feat, int nbody) {
  mjSpec* s = mjg_spec(seed, feat & ~(unsigned)MJG_SENSOR, nbody);
  mjg_rng R = { seed * 91 + 7 }; mjg_rng* r = &R;
  char b0[16], b1[16];
  snprintf(b0, sizeof(b0), "b%d", 0); snprintf(b1, sizeof(b1), "b%d", nbody - 1);
  // gravity and magnetic field in general position
  if (mjg_chance(r, 0.5)) { s->option.gravity[0] = mjg_range(r, -2, 2); s->option.gravity[1] = mjg_range(r, -2, 2); }
  s->option.magnetic[0] = mjg_range(r, -0.5, 0.5); s->option.magnetic[2] = mjg_range(r, -0.5, 0.5);
  // cameras with a resolution
  for (int k = 0; k < 2; k++) {
    mjsBody* b = k == 0 ? mjs_findBody(s, b0) : mjs_findBody(s, "world");
    if (!b) continue;
    mjsCamera* c = mjs_addCamera(b, NULL); char n[16]; snprintf(n, sizeof(n), "c28cam%d", k); mjs_setName(c->element, n);
    for (int i = 0; i < 3; i++) c->pos[i] = mjg_range(r, -0.3, 0.3);
    mjg_quat(r, c->quat); c->resolution[0] = 64; c->resolution[1] = 48; c->fovy = mjg_range(r, 30, 70);
  }
  // probe spheres (no contacts) for the distance sensors
  for (int k = 0; k < 2; k++) {
    mjsBody* b = mjs_findBody(s, k == 0 ? b0 : (nbody > 1 ? b1 : "world"));
    if (!b) continue;
    mjsGeom* g = mjs_addGeom(b, NULL); mjs_setName(g->element, k == 0 ? "c28sa" : "c28sb");
    g->type = mjGEOM_SPHERE; g->size[0] = mjg_range(r, 0.02, 0.08); g->contype = 0; g->conaffinity = 0;
    for (int i = 0; i < 3; i++) g->pos[i] = mjg_range(r, -0.1, 0.1);
  }
  // a static body (no joint, child of the world) carrying a site: IMU-type sensors on a dof-less body
  {
    mjsBody* sb = mjs_addBody(mjs_findBody(s, "world"), NULL); mjs_setName(sb->element, "c28static");
    sb->pos[0] = mjg_range(r, -1, 1); sb->pos[1] = mjg_range(r, -1, 1); sb->pos[2] = mjg_range(r, 1.5, 2.5); mjg_quat(r, sb->quat);
    mjsGeom* g = mjs_addGeom(sb, NULL); mjs_setName(g->element, "c28sg"); g->type = mjGEOM_BOX; g->size[0] = g->size[1] = g->size[2] = 0.05; g->contype = 0; g->conaffinity = 0;
    mjsSite* st = mjs_addSite(sb, NULL); mjs_setName(st->element, "c28ss"); st->pos[0] = 0.1; mjg_quat(r, st->quat);
  }
  // large sites: touch zones / insidesite zones
  int ntz = 0;
  for (int k = 0; k < 4 && k < nbody + 1; k++) {
    char bn[16]; snprintf(bn, sizeof(bn), "b%d", mjg_int(r, nbody));
    mjsBody* b = mjs_findBody(s, bn); if (!b) continue;
    mjsSite* st = mjs_addSite(b, NULL); char n[16]; snprintf(n, sizeof(n), "c28t%d", ntz++); mjs_setName(st->element, n);
    static const int ty[5] = {mjGEOM_SPHERE, mjGEOM_BOX, mjGEOM_ELLIPSOID, mjGEOM_CYLINDER, mjGEOM_CAPSULE};
    st->type = ty[mjg_int(r, 5)];
    for (int i = 0; i < 3; i++) { st->size[i] = mjg_range(r, 0.1, 0.3); st->pos[i] = mjg_range(r, -0.05, 0.05); }
    if (mjg_chance(r, 0.5)) mjg_quat(r, st->quat);
  }
  // index spaces that coincide on ordinary models (actuator id / force-output address / control address): a ball-joint body for a
  // 3-output SO3 servo, a slide body and a fixed tendon over it for the single-output actuators that are added AFTER the servo
  {
    mjsBody* world = mjs_findBody(s, "world"); mjsBody* bb = mjs_addBody(world, NULL); mjs_setName(bb->element, "c28ballb"); bb->pos[0] = 2.5; bb->pos[2] = 1.0;
    mjsJoint* jb = mjs_addJoint(bb, NULL); jb->type = mjJNT_BALL; mjs_setName(jb->element, "c28ball");
    mjsGeom* gb = mjs_addGeom(bb, NULL); gb->type = mjGEOM_BOX; gb->size[0] = 0.05; gb->size[1] = 0.08; gb->size[2] = 0.11; gb->pos[0] = 0.1; gb->contype = 0; gb->conaffinity = 0; mjs_setName(gb->element, "c28gball");
    mjsBody* sb = mjs_addBody(world, NULL); mjs_setName(sb->element, "c28slideb"); sb->pos[0] = -2.5; sb->pos[2] = 1.0;
    mjsJoint* js = mjs_addJoint(sb, NULL); js->type = mjJNT_SLIDE; js->axis[0] = 1; js->axis[1] = 0; js->axis[2] = 0; js->damping[0] = 5; mjs_setName(js->element, "c28slide");
    mjsGeom* gs = mjs_addGeom(sb, NULL); gs->type = mjGEOM_SPHERE; gs->size[0] = 0.07; gs->contype = 0; gs->conaffinity = 0; mjs_setName(gs->element, "c28gslide");
    mjsTendon* tn = mjs_addTendon(s, NULL); mjs_setName(tn->element, "c28ten"); mjs_wrapJoint(tn, "c28slide", 2.0);
  }
  mjModel* m0 = mj_compile(s, NULL);
  if (!m0) { fprintf(stderr, "c28: first compile failed: %s\n", mjs_getError(s)); mj_deleteSpec(s); return NULL; }
  // the SO3 servo (3 outputs; 3 or 4 controls) followed by plain motors on the tendons and on the slide joint
  {
    mjg_rng R3 = { seed * 733 + 19 };
    mjsActuator* a = mjs_addActuator(s, NULL); mjs_setName(a->element, "xso3"); a->trntype = mjTRN_JOINT; mjs_setString(a->target, "c28ball");
    a->gaintype = mjGAIN_SO3; a->biastype = mjBIAS_SO3; a->gainprm[0] = mjg_range(&R3, 2, 12); a->biasprm[1] = -a->gainprm[0]; a->biasprm[2] = -mjg_range(&R3, 0, 1);
    if (mjg_chance(&R3, 0.3)) a->ctrlspec = mjCHART_QUAT;
    static const char* tnames[3]; char tb[2][16]; int nt = 0;
    tnames[nt++] = "c28ten";
    for (int t = 0; t < m0->ntendon && nt < 3; t++) { const char* n = mj_id2name(m0, mjOBJ_TENDON, t); if (n && strcmp(n, "c28ten")) { snprintf(tb[nt - 1], 16, "%s", n); tnames[nt] = tb[nt - 1]; nt++; } }
    int k = 0;
    for (int t = 0; t < nt; t++) for (int rep2 = 0; rep2 < (t == 0 ? 2 : 1); rep2++) {
      mjsActuator* b = mjs_addActuator(s, NULL); char n[16]; snprintf(n, sizeof(n), "xtm%d", k++); mjs_setName(b->element, n);
      b->trntype = mjTRN_TENDON; mjs_setString(b->target, tnames[t]); b->gaintype = mjGAIN_FIXED; b->gainprm[0] = mjg_range(&R3, 0.3, 4); b->biastype = mjBIAS_NONE;
      if (mjg_chance(&R3, 0.4)) { b->ctrllimited = mjLIMITED_TRUE; b->ctrlrange[0] = -0.8; b->ctrlrange[1] = 0.6; }
      if (t == 0 && rep2 == 0) {   // a joint motor between the two motors of the dedicated tendon
        mjsActuator* c = mjs_addActuator(s, NULL); mjs_setName(c->element, "xjm"); c->trntype = mjTRN_JOINT; mjs_setString(c->target, "c28slide");
        c->gaintype = mjGAIN_FIXED; c->gainprm[0] = mjg_range(&R3, 1, 9); c->biastype = mjBIAS_NONE; c->gear[0] = mjg_range(&R3, 0.5, 2);
      }
    }
    nxtm = k;
  }

  nreq = 0; ngroup = 0;
  for (int g = 0; g < MAXGROUP; g++) for (int k = 0; k < 16; k++) grp_idx[g][k] = -1;
  // frame-sensor groups: the same (object, reference) for pos, quat, axes, linvel, angvel
  int ng = 3 + mjg_int(r, 3);
  for (int g = 0; g < ng; g++) {
    int ot, rt = 0; const char *on, *rn = NULL;
    if (!pick_frame(m0, r, &ot, &on)) continue;
    char onb[40]; snprintf(onb, sizeof(onb), "%s", on);
    char rnb[40]; rnb[0] = 0;
    if (mjg_chance(r, 0.7) && pick_frame(m0, r, &rt, &rn)) snprintf(rnb, sizeof(rnb), "%s", rn);
    const char* rr = rnb[0] ? rnb : NULL;
    int G = ngroup++;
    req(mjSENS_FRAMEPOS, ot, onb, rt, rr, (G % 2) ? cut(r, 0.5) : 0, G, 0);
    req(mjSENS_FRAMEQUAT, ot, onb, rt, rr, 0, G, 1);
    req(mjSENS_FRAMEXAXIS, ot, onb, rt, rr, 0, G, 2);
    req(mjSENS_FRAMEYAXIS, ot, onb, rt, rr, 0, G, 3);
    req(mjSENS_FRAMEZAXIS, ot, onb, rt, rr, 0, G, 4);
    req(mjSENS_FRAMELINVEL, ot, onb, rt, rr, cut(r, 1.0), G, 5);
    req(mjSENS_FRAMEANGVEL, ot, onb, rt, rr, cut(r, 2.0), G, 6);
    req(mjSENS_FRAMELINACC, ot, onb, 0, NULL, cut(r, 10.0), -1, 0);
    req(mjSENS_FRAMEANGACC, ot, onb, 0, NULL, cut(r, 20.0), -1, 0);
  }
  // site sensors
  for (int k = 0; k < 2 && m0->nsite; k++) {
    const char* sn = nm(m0, mjOBJ_SITE, mjg_int(r, m0->nsite));
    req(mjSENS_ACCELEROMETER, mjOBJ_SITE, sn, 0, NULL, cut(r, 10.0), -1, 0);
    req(mjSENS_VELOCIMETER, mjOBJ_SITE, sn, 0, NULL, cut(r, 1.0), -1, 0);
    req(mjSENS_GYRO, mjOBJ_SITE, sn, 0, NULL, cut(r, 2.0), -1, 0);
    sn = nm(m0, mjOBJ_SITE, mjg_int(r, m0->nsite));
    req(mjSENS_FORCE, mjOBJ_SITE, sn, 0, NULL, cut(r, 5.0), -1, 0);
    req(mjSENS_TORQUE, mjOBJ_SITE, sn, 0, NULL, cut(r, 1.0), -1, 0);
    req(mjSENS_MAGNETOMETER, mjOBJ_SITE, sn, 0, NULL, cut(r, 0.3), -1, 0);
    sn = nm(m0, mjOBJ_SITE, mjg_int(r, m0->nsite));
    req(mjSENS_RANGEFINDER, mjOBJ_SITE, sn, 0, NULL, cut(r, 1.0), -1, 0);
    reqs[nreq - 1].intprm0 = 1 << mjRAYDATA_DIST;
    req(mjSENS_CAMPROJECTION, mjOBJ_SITE, sn, mjOBJ_CAMERA, k ? "c28cam1" : "c28cam0", cut(r, 40.0), -1, 0);
  }
  req(mjSENS_ACCELEROMETER, mjOBJ_SITE, "c28ss", 0, NULL, 0, -1, 0);
  req(mjSENS_VELOCIMETER, mjOBJ_SITE, "c28ss", 0, NULL, 0, -1, 0);
  req(mjSENS_GYRO, mjOBJ_SITE, "c28ss", 0, NULL, 0, -1, 0);
  for (int k = 0; k < ntz; k++) {
    char n[16]; snprintf(n, sizeof(n), "c28t%d", k);
    req(mjSENS_TOUCH, mjOBJ_SITE, n, 0, NULL, cut(r, 3.0), -1, 0);
    int ot; const char* on;
    if (pick_frame(m0, r, &ot, &on)) req(mjSENS_INSIDESITE, ot, on, mjOBJ_SITE, n, mjg_chance(r, 0.3) ? 0.5 : 0, -1, 0);
  }
  // joints
  for (int j = 0; j < m0->njnt; j++) {
    const char* jn = nm(m0, mjOBJ_JOINT, j); int t = m0->jnt_type[j];
    if (t == mjJNT_HINGE || t == mjJNT_SLIDE) {
      if (mjg_chance(r, 0.6)) req(mjSENS_JOINTPOS, mjOBJ_JOINT, jn, 0, NULL, cut(r, 0.5), -1, 0);
      if (mjg_chance(r, 0.6)) req(mjSENS_JOINTVEL, mjOBJ_JOINT, jn, 0, NULL, cut(r, 1.0), -1, 0);
      if (mjg_chance(r, 0.6)) req(mjSENS_JOINTACTFRC, mjOBJ_JOINT, jn, 0, NULL, cut(r, 1.0), -1, 0);
      if (m0->jnt_limited[j]) {
        req(mjSENS_JOINTLIMITPOS, mjOBJ_JOINT, jn, 0, NULL, cut(r, 0.2), -1, 0);
        req(mjSENS_JOINTLIMITVEL, mjOBJ_JOINT, jn, 0, NULL, cut(r, 1.0), -1, 0);
        req(mjSENS_JOINTLIMITFRC, mjOBJ_JOINT, jn, 0, NULL, cut(r, 5.0), -1, 0);
      }
    } else if (t == mjJNT_BALL) {
      req(mjSENS_BALLQUAT, mjOBJ_JOINT, jn, 0, NULL, 0, -1, 0);
      req(mjSENS_BALLANGVEL, mjOBJ_JOINT, jn, 0, NULL, cut(r, 1.0), -1, 0);
    }
  }
  for (int t = 0; t < m0->ntendon; t++) {
    const char* tn = nm(m0, mjOBJ_TENDON, t);
    req(mjSENS_TENDONPOS, mjOBJ_TENDON, tn, 0, NULL, cut(r, 0.3), -1, 0);
    req(mjSENS_TENDONVEL, mjOBJ_TENDON, tn, 0, NULL, cut(r, 1.0), -1, 0);
    req(mjSENS_TENDONACTFRC, mjOBJ_TENDON, tn, 0, NULL, cut(r, 1.0), -1, 0);
    if (m0->tendon_limited[t]) {
      req(mjSENS_TENDONLIMITPOS, mjOBJ_TENDON, tn, 0, NULL, cut(r, 0.2), -1, 0);
      req(mjSENS_TENDONLIMITVEL, mjOBJ_TENDON, tn, 0, NULL, cut(r, 1.0), -1, 0);
      req(mjSENS_TENDONLIMITFRC, mjOBJ_TENDON, tn, 0, NULL, cut(r, 5.0), -1, 0);
    }
  }
  for (int a = 0; a < m0->nactuator; a++) {
    const char* an = nm(m0, mjOBJ_ACTUATOR, a);
    req(mjSENS_ACTUATORPOS, mjOBJ_ACTUATOR, an, 0, NULL, cut(r, 0.5), -1, 0);
    req(mjSENS_ACTUATORVEL, mjOBJ_ACTUATOR, an, 0, NULL, cut(r, 1.0), -1, 0);
    req(mjSENS_ACTUATORFRC, mjOBJ_ACTUATOR, an, 0, NULL, cut(r, 1.0), -1, 0);
  }
  // sensors on the actuators that follow the 3-output servo (output address != actuator id, control address != actuator id)
  req(mjSENS_ACTUATORFRC, mjOBJ_ACTUATOR, "xso3", 0, NULL, 0, -1, 0);
  req(mjSENS_ACTUATORPOS, mjOBJ_ACTUATOR, "xso3", 0, NULL, 0, -1, 0);
  req(mjSENS_ACTUATORVEL, mjOBJ_ACTUATOR, "xso3", 0, NULL, 0, -1, 0);
  for (int k = 0; k < nxtm; k++) {
    char n[16]; snprintf(n, sizeof(n), "xtm%d", k);
    req(mjSENS_ACTUATORFRC, mjOBJ_ACTUATOR, n, 0, NULL, cut(r, 1.0), -1, 0);
    req(mjSENS_ACTUATORPOS, mjOBJ_ACTUATOR, n, 0, NULL, 0, -1, 0);
    req(mjSENS_ACTUATORVEL, mjOBJ_ACTUATOR, n, 0, NULL, 0, -1, 0);
  }
  req(mjSENS_ACTUATORFRC, mjOBJ_ACTUATOR, "xjm", 0, NULL, 0, -1, 0);
  req(mjSENS_ACTUATORPOS, mjOBJ_ACTUATOR, "xjm", 0, NULL, 0, -1, 0);
  req(mjSENS_ACTUATORVEL, mjOBJ_ACTUATOR, "xjm", 0, NULL, 0, -1, 0);
  req(mjSENS_JOINTACTFRC, mjOBJ_JOINT, "c28slide", 0, NULL, 0, -1, 0);
  req(mjSENS_BALLQUAT, mjOBJ_JOINT, "c28ball", 0, NULL, 0, -1, 0);
  req(mjSENS_BALLANGVEL, mjOBJ_JOINT, "c28ball", 0, NULL, 0, -1, 0);
  // subtrees (world included)
  for (int k = 0; k < 3; k++) {
    const char* bn = nm(m0, mjOBJ_BODY, mjg_int(r, m0->nbody));
    req(mjSENS_SUBTREECOM, mjOBJ_BODY, bn, 0, NULL, cut(r, 0.5), -1, 0);
    req(mjSENS_SUBTREELINVEL, mjOBJ_BODY, bn, 0, NULL, cut(r, 0.5), -1, 0);
    req(mjSENS_SUBTREEANGMOM, mjOBJ_BODY, bn, 0, NULL, cut(r, 0.05), -1, 0);
  }
  // distance sensors between the probe spheres (cutoff = search distance)
  {
    double c = mjg_chance(r, 0.2) ? 0 : mjg_range(r, 0.05, 1.5);
    req(mjSENS_GEOMDIST, mjOBJ_GEOM, "c28sa", mjOBJ_GEOM, "c28sb", c, -1, 0);
    req(mjSENS_GEOMNORMAL, mjOBJ_GEOM, "c28sa", mjOBJ_GEOM, "c28sb", c, -1, 0);
    req(mjSENS_GEOMFROMTO, mjOBJ_GEOM, "c28sa", mjOBJ_GEOM, "c28sb", c, -1, 0);
  }
  req(mjSENS_E_POTENTIAL, mjOBJ_UNKNOWN, "", 0, NULL, cut(r, 5.0), -1, 0);
  req(mjSENS_E_KINETIC, mjOBJ_UNKNOWN, "", 0, NULL, cut(r, 1.0), -1, 0);
  req(mjSENS_CLOCK, mjOBJ_UNKNOWN, "", 0, NULL, cut(r, 1.0), -1, 0);
  // user sensors of every datatype and stage
  static const int udt[6] = {mjDATATYPE_REAL, mjDATATYPE_POSITIVE, mjDATATYPE_AXIS, mjDATATYPE_QUATERNION, mjDATATYPE_REAL, mjDATATYPE_POSITIVE};
  static const int ust[6] = {mjSTAGE_POS, mjSTAGE_VEL, mjSTAGE_ACC, mjSTAGE_POS, mjSTAGE_ACC, mjSTAGE_POS};
  static const int udim[6] = {3, 2, 3, 4, 5, 1};
  for (int k = 0; k < 6; k++) {
    double c = (udt[k] == mjDATATYPE_REAL || udt[k] == mjDATATYPE_POSITIVE) ? (mjg_chance(r, 0.8) ? mjg_range(r, 0.3, 2.5) : 0) : 0;
    req(mjSENS_USER, mjOBJ_UNKNOWN, "", 0, NULL, c, -1, 0);
    reqs[nreq - 1].datatype = udt[k]; reqs[nreq - 1].needstage = ust[k]; reqs[nreq - 1].dim = udim[k];
  }
  // shuffle so that neighbouring slices belong to different stages / types
  for (int i = nreq - 1; i > 0; i--) { int j = mjg_int(r, i + 1); Req t = reqs[i]; reqs[i] = reqs[j]; reqs[j] = t; }
  for (int i = 0; i < nreq; i++) {
    Req* q = &reqs[i];
    mjsSensor* sn = mjs_addSensor(s); char n[24]; snprintf(n, sizeof(n), "c28s%d", i); mjs_setName(sn->element, n);
    sn->type = (mjtSensor)q->type; sn->objtype = (mjtObj)q->ot; if (q->on[0]) mjs_setString(sn->objname, q->on);
    if (q->rn[0]) { sn->reftype = (mjtObj)q->rt; mjs_setString(sn->refname, q->rn); }
    sn->cutoff = q->cutoff; sn->intprm[0] = q->intprm0;
    if (q->type == mjSENS_USER) { sn->datatype = (mjtDataType)q->datatype; sn->needstage = (mjtStage)q->needstage; sn->dim = q->dim; }
    if (q->group >= 0 && q->group < MAXGROUP) grp_idx[q->group][q->role] = i;
  }
  mj_deleteModel(m0);
  mjModel* m = mj_compile(s, NULL);
  if (!m) fprintf(stderr, "c28: compile with sensors failed: %s\n", mjs_getError(s));
  mj_deleteSpec(s);
  if (m && m->nsensor != nreq) { fprintf(stderr, "c28: nsensor %d != requested %d\n", m->nsensor, nreq); mj_deleteModel(m); return NULL; }
  return m;
}

// force of a plain motor computed from its inputs (fixed gain, no bias, no dynamics, no force limit, single output):
// gain * ctrl, the control clamped to ctrlrange when limited; returns 0 when actuator a is not of that kind
static int plain_motor_force(const mjModel* m, const mjData* d, int a, mjtNum* f) {
  if (m->actuator_gaintype[a] != mjGAIN_FIXED || m->actuator_biastype[a] != mjBIAS_NONE || m->actuator_dyntype[a] != mjDYN_NONE) return 0;
  if (m->actuator_forcelimited[a] || m->actuator_outnum[a] != 1 || m->actuator_ctrlnum[a] != 1 || m->actuator_plugin[a] >= 0) return 0;
  if (m->actuator_trntype[a] == mjTRN_TENDON && m->tendon_actfrclimited[m->actuator_trnid[2 * a]]) return 0;
  if (m->actuator_trntype[a] == mjTRN_JOINT && m->jnt_actfrclimited[m->actuator_trnid[2 * a]]) return 0;
  if (mj_actuatorDisabled(m, a) || (m->opt.disableflags & mjDSBL_ACTUATION)) { *f = 0; return 1; }
  int ua = m->actuator_ctrladr[a];   // ctrllimited / ctrlrange are per control (nu), not per actuator
  mjtNum c = d->ctrl[ua];
  if (m->actuator_ctrllimited[ua] && !(m->opt.disableflags & mjDSBL_CLAMPCTRL)) { mjtNum lo = m->actuator_ctrlrange[2 * ua], hi = m->actuator_ctrlrange[2 * ua + 1]; c = c < lo ? lo : (c > hi ? hi : c); }
  *f = m->actuator_gainprm[mjNGAIN * a] * c; return 1;
}
static int touch_inside, touch_reproj, touch_wrongdir;   // per repetition: contacts counted by clause (inside / outward ray) and contacts only a backward ray would pick up
// ---------------------------------------------------------------- the documented quantity of sensor i
// returns the number of expected values written to e (0: no oracle), sets *scl (magnitude of intermediate terms)
static int expected(const mjModel* m, mjData* d, int i, mjtNum* e, mjtNum* scl, const char** kind) {
  int type = m->sensor_type[i], ot = m->sensor_objtype[i], id = m->sensor_objid[i], rt = m->sensor_reftype[i], rid = m->sensor_refid[i];
  const mjtNum *p, *R, *pr, *Rr; int b, br;
  mjtNum w[3], v[3], wr[3], vr[3], t[3], u[3];
  *scl = 0; *kind = "formula";
  switch (type) {
    case mjSENS_JOINTPOS: e[0] = d->qpos[m->jnt_qposadr[id]]; *kind = "state"; return 1;
    case mjSENS_JOINTVEL: e[0] = d->qvel[m->jnt_dofadr[id]]; *kind = "state"; return 1;
    case mjSENS_BALLQUAT: { const mjtNum* q = d->qpos + m->jnt_qposadr[id]; mjtNum n = sqrt(q[0] * q[0] + q[1] * q[1] + q[2] * q[2] + q[3] * q[3]); for (int k = 0; k < 4; k++) e[k] = q[k] / n; *kind = "state"; return 4; }
    case mjSENS_BALLANGVEL: for (int k = 0; k < 3; k++) e[k] = d->qvel[m->jnt_dofadr[id] + k]; *kind = "state"; return 3;
    case mjSENS_TENDONPOS: case mjSENS_TENDONVEL: {
      // fixed tendons: sum of coef * joint coordinate
      mjtNum s = 0; int ok = 1;
      for (int k = m->tendon_adr[id]; k < m->tendon_adr[id] + m->tendon_num[id]; k++) {
        if (m->wrap_type[k] != mjWRAP_JOINT) { ok = 0; break; }
        int j = m->wrap_objid[k];
        s += m->wrap_prm[k] * (type == mjSENS_TENDONPOS ? d->qpos[m->jnt_qposadr[j]] : d->qvel[m->jnt_dofadr[j]]);
      }
      if (!ok) { e[0] = type == mjSENS_TENDONPOS ? d->ten_length[id] : d->ten_velocity[id]; *kind = "copy"; }
      else e[0] = s;
      return 1;
    }
    case mjSENS_ACTUATORPOS: case mjSENS_ACTUATORVEL: {
      int n = m->actuator_outnum[id], oa = m->actuator_outadr[id];
      if (n == 1 && m->actuator_trntype[id] == mjTRN_JOINT && (m->jnt_type[m->actuator_trnid[2 * id]] == mjJNT_HINGE || m->jnt_type[m->actuator_trnid[2 * id]] == mjJNT_SLIDE)) {
        int j = m->actuator_trnid[2 * id];
        e[0] = m->actuator_gear[6 * oa] * (type == mjSENS_ACTUATORPOS ? d->qpos[m->jnt_qposadr[j]] : d->qvel[m->jnt_dofadr[j]]);
      } else if (n == 1 && m->actuator_trntype[id] == mjTRN_TENDON) {
        int tn = m->actuator_trnid[2 * id];
        e[0] = m->actuator_gear[6 * oa] * (type == mjSENS_ACTUATORPOS ? d->ten_length[tn] : d->ten_velocity[tn]);
      } else { for (int k = 0; k < n; k++) e[k] = (type == mjSENS_ACTUATORPOS ? d->actuator_length : d->actuator_velocity)[oa + k]; *kind = "copy"; }
      return n;
    }
    case mjSENS_ACTUATORFRC: {
      int n = m->actuator_outnum[id]; mjtNum f;
      if (plain_motor_force(m, d, id, &f)) { e[0] = f; return 1; }
      for (int k = 0; k < n; k++) e[k] = d->actuator_force[m->actuator_outadr[id] + k]; *kind = "copy"; return n;
    }
    case mjSENS_JOINTACTFRC: {
      // generalized force of all actuators on this dof: moment^T force (+ gravity compensation routed through actuators)
      int dof = m->jnt_dofadr[id]; mjtNum s = 0, sc = 0;
      for (int a = 0; a < m->nactuator; a++) for (int o = m->actuator_outadr[a]; o < m->actuator_outadr[a] + m->actuator_outnum[a]; o++)
        for (int k = 0; k < d->moment_rownnz[o]; k++) if (d->moment_colind[d->moment_rowadr[o] + k] == dof) { s += d->actuator_moment[d->moment_rowadr[o] + k] * d->actuator_force[o]; sc += fabs(d->actuator_moment[d->moment_rowadr[o] + k] * d->actuator_force[o]); }
      if (m->jnt_actgravcomp[id]) s += d->qfrc_gravcomp[dof];
      e[0] = s; *scl = sc; return 1;
    }
    case mjSENS_TENDONACTFRC: {
      // total force of the actuators acting on this tendon; plain motors from their inputs (gain * ctrl), others from actuator_force at their output address
      mjtNum s = 0; int allplain = 1;
      for (int a = 0; a < m->nactuator; a++) if (m->actuator_trntype[a] == mjTRN_TENDON && m->actuator_trnid[2 * a] == id) {
        mjtNum f; if (plain_motor_force(m, d, a, &f)) s += f; else { s += d->actuator_force[m->actuator_outadr[a]]; allplain = 0; }
      }
      if (!allplain) *kind = "partly-copy";
      e[0] = s; return 1;
    }
    case mjSENS_JOINTLIMITPOS: case mjSENS_JOINTLIMITVEL: case mjSENS_TENDONLIMITPOS: case mjSENS_TENDONLIMITVEL: {
      int isj = (type == mjSENS_JOINTLIMITPOS || type == mjSENS_JOINTLIMITVEL), ispos = (type == mjSENS_JOINTLIMITPOS || type == mjSENS_TENDONLIMITPOS);
      mjtNum val = isj ? d->qpos[m->jnt_qposadr[id]] : d->ten_length[id];
      mjtNum vel = isj ? d->qvel[m->jnt_dofadr[id]] : d->ten_velocity[id];
      const mjtNum* rg = isj ? m->jnt_range + 2 * id : m->tendon_range + 2 * id;
      mjtNum mg = isj ? m->jnt_margin[id] : m->tendon_margin[id];
      e[0] = 0;
      if (val - rg[0] < mg) e[0] = ispos ? (val - rg[0]) - mg : vel;          // lower side first
      else if (rg[1] - val < mg) e[0] = ispos ? (rg[1] - val) - mg : -vel;
      return 1;
    }
    case mjSENS_JOINTLIMITFRC: case mjSENS_TENDONLIMITFRC: {
      e[0] = 0; *kind = "copy";
      for (int j = d->ne + d->nf; j < d->nefc; j++)
        if (d->efc_type[j] == (type == mjSENS_JOINTLIMITFRC ? mjCNSTR_LIMIT_JOINT : mjCNSTR_LIMIT_TENDON) && d->efc_id[j] == id) { e[0] = d->efc_force[j]; break; }
      return 1;
    }
    case mjSENS_FRAMEPOS:
      if (!frame_of(m, d, ot, id, &p, &R, &b)) return 0;
      if (rid < 0) { for (int k = 0; k < 3; k++) e[k] = p[k]; return 3; }
      if (!frame_of(m, d, rt, rid, &pr, &Rr, &br)) return 0;
      for (int k = 0; k < 3; k++) t[k] = p[k] - pr[k]; mTv(Rr, t, e); return 3;
    case mjSENS_FRAMEXAXIS: case mjSENS_FRAMEYAXIS: case mjSENS_FRAMEZAXIS: {
      int c = type - mjSENS_FRAMEXAXIS;
      if (!frame_of(m, d, ot, id, &p, &R, &b)) return 0;
      for (int k = 0; k < 3; k++) t[k] = R[3 * k + c];
      if (rid < 0) { for (int k = 0; k < 3; k++) e[k] = t[k]; return 3; }
      if (!frame_of(m, d, rt, rid, &pr, &Rr, &br)) return 0;
      mTv(Rr, t, e); return 3;
    }
    case mjSENS_FRAMEQUAT: {
      // orientation = the unit quaternion of the (relative) rotation matrix, sign aligned with the reading
      mjtNum M[9];
      if (!frame_of(m, d, ot, id, &p, &R, &b)) return 0;
      if (rid < 0) memcpy(M, R, sizeof(M)); else { if (!frame_of(m, d, rt, rid, &pr, &Rr, &br)) return 0; mTm(Rr, R, M); }
      m2q(M, e);
      const mjtNum* obs = d->sensordata + m->sensor_adr[i];
      if (obs[0] * e[0] + obs[1] * e[1] + obs[2] * e[2] + obs[3] * e[3] < 0) for (int k = 0; k < 4; k++) e[k] = -e[k];
      *kind = "matrix"; return 4;
    }
    case mjSENS_FRAMELINVEL: case mjSENS_FRAMEANGVEL: {
      if (!frame_of(m, d, ot, id, &p, &R, &b)) return 0;
      point_vel(m, d, b, p, w, v);
      if (rid >= 0) {
        if (!frame_of(m, d, rt, rid, &pr, &Rr, &br)) return 0;
        point_vel(m, d, br, pr, wr, vr);
        for (int k = 0; k < 3; k++) t[k] = p[k] - pr[k];
        crs(wr, t, u);   // velocity of the reference frame's material point at p: vr + wr x (p - pr)
        mjtNum dl[3], dw[3]; for (int k = 0; k < 3; k++) { dl[k] = v[k] - vr[k] - u[k]; dw[k] = w[k] - wr[k]; }
        *scl = nrm(v) + nrm(vr) + nrm(u);
        mTv(Rr, type == mjSENS_FRAMELINVEL ? dl : dw, e); return 3;
      }
      for (int k = 0; k < 3; k++) e[k] = (type == mjSENS_FRAMELINVEL ? v : w)[k];
      return 3;
    }
    case mjSENS_FRAMELINACC: case mjSENS_FRAMEANGACC: {
      if (!frame_of(m, d, ot, id, &p, &R, &b)) return 0;
      point_acc(m, d, b, p, w, v, scl);
      for (int k = 0; k < 3; k++) e[k] = (type == mjSENS_FRAMELINACC ? v : w)[k];
      return 3;
    }
    case mjSENS_ACCELEROMETER: point_acc(m, d, m->site_bodyid[id], d->site_xpos + 3 * id, w, v, scl); mTv(d->site_xmat + 9 * id, v, e); return 3;
    case mjSENS_VELOCIMETER: point_vel(m, d, m->site_bodyid[id], d->site_xpos + 3 * id, w, v); mTv(d->site_xmat + 9 * id, v, e); return 3;
    case mjSENS_GYRO: point_vel(m, d, m->site_bodyid[id], d->site_xpos + 3 * id, w, v); mTv(d->site_xmat + 9 * id, w, e); return 3;
    case mjSENS_MAGNETOMETER: mTv(d->site_xmat + 9 * id, m->opt.magnetic, e); return 3;
    case mjSENS_FORCE: case mjSENS_TORQUE: {
      // cfrc_int = (torque about subtree_com[root], force) in the global frame
      int bd = m->site_bodyid[id], root = m->body_rootid[bd];
      const mjtNum* cf = d->cfrc_int + 6 * bd;
      for (int k = 0; k < 3; k++) t[k] = d->site_xpos[3 * id + k] - d->subtree_com[3 * root + k];
      crs(t, cf + 3, u);
      mjtNum tq[3]; for (int k = 0; k < 3; k++) tq[k] = cf[k] - u[k];
      *scl = nrm(cf) + nrm(cf + 3) * (1 + nrm(t)); *kind = "cfrc_int";
      mTv(d->site_xmat + 9 * id, type == mjSENS_FORCE ? cf + 3 : tq, e); return 3;
    }
    case mjSENS_TOUCH: {
      int bd = m->site_bodyid[id]; mjtNum tot = 0;
      for (int j = 0; j < d->ncon; j++) {
        const mjContact* c = d->contact + j;
        if (c->efc_address < 0 || c->geom[0] < 0 || c->geom[1] < 0) continue;
        int b1 = m->geom_bodyid[c->geom[0]], b2 = m->geom_bodyid[c->geom[1]];
        if (b1 != bd && b2 != bd) continue;
        mjtNum f[6]; mj_contactForce(m, d, j, f);
        if (f[0] <= 0) continue;
        int in = inside_site(m, d, id, c->pos);
        if (in < 0) return 0;
        if (in) touch_inside++;
        else {
          // the contact normal points from geom 1 to geom 2: the ray leaving the sensorized body is +normal for body 1, -normal for body 2
          mjtNum ray[3], back[3]; for (int k = 0; k < 3; k++) { ray[k] = (b1 == bd ? 1 : -1) * c->frame[k]; back[k] = -ray[k]; }
          in = ray_hits_site(m, d, id, c->pos, ray);
          if (in < 0) return 0;
          if (in) touch_reproj++; else if (ray_hits_site(m, d, id, c->pos, back) > 0) touch_wrongdir++;
        }
        if (in) tot += f[0];
      }
      e[0] = tot; return 1;
    }
    case mjSENS_SUBTREECOM: case mjSENS_SUBTREELINVEL: case mjSENS_SUBTREEANGMOM: {
      mjtNum M = 0, c[3] = {0, 0, 0}, vc[3] = {0, 0, 0}, L[3] = {0, 0, 0}, sc = 0;
      for (int k = id; k < m->nbody; k++) if (in_subtree(m, k, id)) { M += m->body_mass[k]; for (int a = 0; a < 3; a++) c[a] += m->body_mass[k] * d->xipos[3 * k + a]; }
      if (M < mjMINVAL) { for (int a = 0; a < 3; a++) c[a] = d->xipos[3 * id + a]; } else for (int a = 0; a < 3; a++) c[a] /= M;
      if (type == mjSENS_SUBTREECOM) { for (int a = 0; a < 3; a++) e[a] = c[a]; return 3; }
      for (int k = id; k < m->nbody; k++) if (in_subtree(m, k, id)) { point_vel(m, d, k, d->xipos + 3 * k, w, v); for (int a = 0; a < 3; a++) vc[a] += m->body_mass[k] * v[a]; }
      for (int a = 0; a < 3; a++) vc[a] /= (M < mjMINVAL ? mjMINVAL : M);
      if (type == mjSENS_SUBTREELINVEL) { for (int a = 0; a < 3; a++) e[a] = vc[a]; return 3; }
      for (int k = id; k < m->nbody; k++) if (in_subtree(m, k, id)) {
        point_vel(m, d, k, d->xipos + 3 * k, w, v);
        mjtNum wl[3], Il[3], Iw[3]; mTv(d->ximat + 9 * k, w, wl);
        for (int a = 0; a < 3; a++) Il[a] = m->body_inertia[3 * k + a] * wl[a];
        for (int a = 0; a < 3; a++) Iw[a] = d->ximat[9 * k + 3 * a] * Il[0] + d->ximat[9 * k + 3 * a + 1] * Il[1] + d->ximat[9 * k + 3 * a + 2] * Il[2];
        for (int a = 0; a < 3; a++) { t[a] = d->xipos[3 * k + a] - c[a]; u[a] = m->body_mass[k] * (v[a] - vc[a]); }
        mjtNum x[3]; crs(t, u, x);
        for (int a = 0; a < 3; a++) { L[a] += Iw[a] + x[a]; sc += fabs(Iw[a]) + fabs(x[a]); }
      }
      for (int a = 0; a < 3; a++) e[a] = L[a]; *scl = sc; return 3;
    }
    case mjSENS_E_KINETIC: {
      mjtNum E = 0;
      for (int k = 1; k < m->nbody; k++) {
        point_vel(m, d, k, d->xipos + 3 * k, w, v); mjtNum wl[3]; mTv(d->ximat + 9 * k, w, wl);
        E += 0.5 * m->body_mass[k] * (v[0] * v[0] + v[1] * v[1] + v[2] * v[2]);
        for (int a = 0; a < 3; a++) E += 0.5 * m->body_inertia[3 * k + a] * wl[a] * wl[a];
      }
      // armature contributes 0.5 * armature * qvel^2
      for (int k = 0; k < m->nv; k++) E += 0.5 * m->dof_armature[k] * d->qvel[k] * d->qvel[k];
      e[0] = E; return 1;
    }
    case mjSENS_E_POTENTIAL: {
      int springs = 0;
      for (int j = 0; j < m->njnt; j++) if (m->jnt_stiffness[j] != 0 || !mju_isZero(m->jnt_stiffnesspoly + mjNPOLY * j, mjNPOLY)) springs = 1;
      for (int k = 0; k < m->ntendon; k++) if (m->tendon_stiffness[k] != 0 || !mju_isZero(m->tendon_stiffnesspoly + mjNPOLY * k, mjNPOLY)) springs = 1;
      if (springs || m->nflex) { e[0] = d->energy[0]; *kind = "copy"; return 1; }
      mjtNum E = 0; for (int k = 1; k < m->nbody; k++) E -= m->body_mass[k] * (m->opt.gravity[0] * d->xipos[3 * k] + m->opt.gravity[1] * d->xipos[3 * k + 1] + m->opt.gravity[2] * d->xipos[3 * k + 2]);
      e[0] = E; return 1;
    }
    case mjSENS_CLOCK: e[0] = d->time; *kind = "state"; return 1;
    case mjSENS_RANGEFINDER: {
      if (ot != mjOBJ_SITE || m->sensor_intprm[i * mjNSENS] != (1 << mjRAYDATA_DIST)) return 0;
      mjtNum z[3] = {d->site_xmat[9 * id + 2], d->site_xmat[9 * id + 5], d->site_xmat[9 * id + 8]}; int g;
      e[0] = mj_ray(m, d, d->site_xpos + 3 * id, z, NULL, 1, m->site_bodyid[id], &g, NULL); *kind = "mj_ray"; return 1;
    }
    case mjSENS_CAMPROJECTION: {
      mjtNum f = 0.5 / tan(m->cam_fovy[rid] * mjPI / 360.0) * m->cam_resolution[2 * rid + 1];
      if (m->cam_sensorsize[2 * rid] && m->cam_sensorsize[2 * rid + 1]) return 0;
      for (int k = 0; k < 3; k++) t[k] = d->site_xpos[3 * id + k] - d->cam_xpos[3 * rid + k];
      mTv(d->cam_xmat + 9 * rid, t, u);
      if (fabs(u[2]) < 1e-6) return 0;
      e[0] = -f * u[0] / u[2] + 0.5 * m->cam_resolution[2 * rid]; e[1] = f * u[1] / u[2] + 0.5 * m->cam_resolution[2 * rid + 1];
      *scl = fabs(f * u[0] / u[2]) + fabs(f * u[1] / u[2]); return 2;
    }
    case mjSENS_INSIDESITE: {
      if (!frame_of(m, d, ot, id, &p, &R, &b)) return 0;
      if (ot == mjOBJ_BODY && id > 0 && m->body_mass[id] < mjMINVAL) return 0;
      int in = inside_site(m, d, rid, p); if (in < 0) return 0;
      e[0] = in; return 1;
    }
    case mjSENS_GEOMDIST: case mjSENS_GEOMNORMAL: case mjSENS_GEOMFROMTO: {
      // two spheres: signed distance |c2 - c1| - r1 - r2, detected only below the cutoff (search distance)
      if (ot != mjOBJ_GEOM || rt != mjOBJ_GEOM || m->geom_type[id] != mjGEOM_SPHERE || m->geom_type[rid] != mjGEOM_SPHERE) return 0;
      mjtNum c = m->sensor_cutoff[i];
      for (int k = 0; k < 3; k++) t[k] = d->geom_xpos[3 * rid + k] - d->geom_xpos[3 * id + k];
      mjtNum n = nrm(t), dist = n - m->geom_size[3 * id] - m->geom_size[3 * rid];
      if (n < 1e-9 || fabs(dist - c) < 1e-9) return 0;
      int found = dist < c;
      if (type == mjSENS_GEOMDIST) { e[0] = found ? dist : c; return 1; }
      // documented: from the surface point of geom1 to the surface point of geom2, i.e. opposite to the centroid direction under penetration
      if (type == mjSENS_GEOMNORMAL) { if (fabs(dist) < 1e-9) return 0; for (int k = 0; k < 3; k++) e[k] = found ? (dist < 0 ? -1 : 1) * t[k] / n : 0; return 3; }
      for (int k = 0; k < 3; k++) { e[k] = found ? d->geom_xpos[3 * id + k] + m->geom_size[3 * id] * t[k] / n : 0; e[3 + k] = found ? d->geom_xpos[3 * rid + k] - m->geom_size[3 * rid] * t[k] / n : 0; }
      return 6;
    }
    case mjSENS_USER: for (int j = 0; j < m->sensor_dim[i]; j++) e[j] = uval(i, j); *kind = "callback"; return m->sensor_dim[i];
    default: return 0;
  }
}

// global quaternion of a frame object as the frame sensors build it (inputs of the Coq quaternion kernel)
static int quat_of(const mjModel* m, const mjData* d, int ot, int id, mjtNum* q) {
  switch (ot) {
    case mjOBJ_XBODY: mju_copy4(q, d->xquat + 4 * id); return 1;
    case mjOBJ_BODY: mju_mulQuat(q, d->xquat + 4 * id, m->body_iquat + 4 * id); return 1;
    case mjOBJ_GEOM: mju_mulQuat(q, d->xquat + 4 * m->geom_bodyid[id], m->geom_quat + 4 * id); return 1;
    case mjOBJ_SITE: mju_mulQuat(q, d->xquat + 4 * m->site_bodyid[id], m->site_quat + 4 * id); return 1;
    case mjOBJ_CAMERA: mju_mulQuat(q, d->xquat + 4 * m->cam_bodyid[id], m->cam_quat + 4 * id); return 1;
    default: return 0;
  }
}

// ---------------------------------------------------------------- touch scene: thin sensor slabs in front of / behind the contact points
// floor plane (world, geom 0), box A on it (penetrating by d1), box B on A (penetrating by d2): the world and A are
// contact body 1, A and B are contact body 2.  On every body two thin slabs (box / ellipsoid / cylinder) per contact
// plane, one shifted along the direction leaving the body (documented re-projection: counted) and one shifted into
// the body (not counted), plus enclosing zones.
static double TS_d1, TS_d2, TS_hzA, TS_hzB;
static void add_slab(mjSpec* s, mjsBody* b, mjg_rng* r, const char* name, double zc, double tz, double ext) {
  mjsSite* st = mjs_addSite(b, NULL); mjs_setName(st->element, name);
  int k = mjg_int(r, 3);
  st->type = k == 0 ? mjGEOM_BOX : k == 1 ? mjGEOM_ELLIPSOID : mjGEOM_CYLINDER;
  if (k == 2) { st->size[0] = ext; st->size[1] = tz; st->size[2] = tz; } else { st->size[0] = ext; st->size[1] = ext * mjg_range(r, 0.9, 1.2); st->size[2] = tz; }
  st->pos[0] = mjg_range(r, -0.01, 0.01); st->pos[1] = mjg_range(r, -0.01, 0.01); st->pos[2] = zc;
  double ax = mjg_range(r, -0.004, 0.004), ay = mjg_range(r, -0.004, 0.004), yaw = mjg_range(r, -3, 3);   // small tilt, any yaw
  double q[4] = {cos(yaw / 2), 0, 0, sin(yaw / 2)}, t[4] = {1, ax / 2, ay / 2, 0}, o[4];
  o[0] = q[0] * t[0] - q[1] * t[1] - q[2] * t[2] - q[3] * t[3]; o[1] = q[0] * t[1] + q[1] * t[0] + q[2] * t[3] - q[3] * t[2];
  o[2] = q[0] * t[2] - q[1] * t[3] + q[2] * t[0] + q[3] * t[1]; o[3] = q[0] * t[3] + q[1] * t[2] - q[2] * t[1] + q[3] * t[0];
  double n = sqrt(o[0] * o[0] + o[1] * o[1] + o[2] * o[2] + o[3] * o[3]); for (int i = 0; i < 4; i++) st->quat[i] = o[i] / n;
}
static mjModel* build_touch_scene(uint64_t seed) {
  mjg_rng R = { seed * 313 + 11 }; mjg_rng* r = &R;
  mjSpec* s = mj_makeSpec();
  mjsBody* world = mjs_findBody(s, "world");
  mjsGeom* fl = mjs_addGeom(world, NULL); fl->type = mjGEOM_PLANE; fl->size[0] = fl->size[1] = 5; fl->size[2] = 0.1; mjs_setName(fl->element, "floor");
  double ax = mjg_range(r, 0.08, 0.15), ay = mjg_range(r, 0.08, 0.15), hzA = mjg_range(r, 0.05, 0.1);
  double bx = ax * mjg_range(r, 0.5, 0.8), by = ay * mjg_range(r, 0.5, 0.8), hzB = mjg_range(r, 0.04, 0.08);
  double d1 = mjg_range(r, 0.004, 0.016), d2 = mjg_range(r, 0.004, 0.016);
  TS_d1 = d1; TS_d2 = d2; TS_hzA = hzA; TS_hzB = hzB;
  mjsBody* A = mjs_addBody(world, NULL); mjs_setName(A->element, "A"); A->pos[2] = hzA - d1;
  { mjsJoint* j = mjs_addJoint(A, NULL); j->type = mjJNT_FREE; mjsGeom* g = mjs_addGeom(A, NULL); g->type = mjGEOM_BOX; g->size[0] = ax; g->size[1] = ay; g->size[2] = hzA; mjs_setName(g->element, "gA"); }
  mjsBody* B = mjs_addBody(world, NULL); mjs_setName(B->element, "B"); B->pos[2] = 2 * hzA - d1 + hzB - d2;
  { mjsJoint* j = mjs_addJoint(B, NULL); j->type = mjJNT_FREE; mjsGeom* g = mjs_addGeom(B, NULL); g->type = mjGEOM_BOX; g->size[0] = bx; g->size[1] = by; g->size[2] = hzB; mjs_setName(g->element, "gB"); }
  // contact planes (local z of the contact points): world -d1/2 (leaving direction +z); A bottom -hzA + d1/2 (leaving -z);
  // A top hzA - d2/2 (leaving +z); B bottom -hzB + d2/2 (leaving -z)
  struct { mjsBody* b; double z; int dir; const char* tag; } pl[4] = {{world, -d1 / 2, 1, "w"}, {A, -hzA + d1 / 2, -1, "ab"}, {A, hzA - d2 / 2, 1, "at"}, {B, -hzB + d2 / 2, -1, "bb"}};
  nreq = 0; ngroup = 0; for (int g = 0; g < MAXGROUP; g++) for (int k = 0; k < 16; k++) grp_idx[g][k] = -1;
  for (int k = 0; k < 4; k++) for (int side = 0; side < 2; side++) {
    double tz = mjg_range(r, 0.0008, 0.003), gap = mjg_range(r, 0.003, 0.02);
    double zc = pl[k].z + (side == 0 ? 1 : -1) * pl[k].dir * (tz + gap);   // side 0: shifted out of the body, side 1: into the body
    char n[24]; snprintf(n, sizeof(n), "ts_%s_%s", pl[k].tag, side == 0 ? "out" : "in");
    add_slab(s, pl[k].b, r, n, zc, tz, 0.3);
    req(mjSENS_TOUCH, mjOBJ_SITE, n, 0, NULL, side == 0 && mjg_chance(r, 0.3) ? mjg_range(r, 1, 50) : 0, -1, 0);
  }
  // enclosing zones and a zone that straddles the contact plane
  { mjsSite* st = mjs_addSite(world, NULL); mjs_setName(st->element, "ts_w_big"); st->type = mjGEOM_BOX; st->size[0] = st->size[1] = 0.4; st->size[2] = 0.05; req(mjSENS_TOUCH, mjOBJ_SITE, "ts_w_big", 0, NULL, 0, -1, 0); }
  { mjsSite* st = mjs_addSite(A, NULL); mjs_setName(st->element, "ts_a_big"); st->type = mjGEOM_SPHERE; st->size[0] = 0.5; req(mjSENS_TOUCH, mjOBJ_SITE, "ts_a_big", 0, NULL, 0, -1, 0); }
  { mjsSite* st = mjs_addSite(B, NULL); mjs_setName(st->element, "ts_b_big"); st->type = mjGEOM_CAPSULE; st->size[0] = 0.3; st->size[1] = 0.2; req(mjSENS_TOUCH, mjOBJ_SITE, "ts_b_big", 0, NULL, 0, -1, 0); }
  { mjsSite* st = mjs_addSite(A, NULL); mjs_setName(st->element, "ts_a_half"); st->type = mjGEOM_BOX; st->size[0] = ax * 0.6; st->size[1] = 0.4; st->size[2] = 0.01; st->pos[0] = ax * 0.6; st->pos[2] = -hzA + d1 / 2; req(mjSENS_TOUCH, mjOBJ_SITE, "ts_a_half", 0, NULL, 0, -1, 0); }
  for (int i = 0; i < nreq; i++) {
    Req* q = &reqs[i]; mjsSensor* sn = mjs_addSensor(s); char n[24]; snprintf(n, sizeof(n), "c28s%d", i); mjs_setName(sn->element, n);
    sn->type = (mjtSensor)q->type; sn->objtype = (mjtObj)q->ot; mjs_setString(sn->objname, q->on); sn->cutoff = q->cutoff;
  }
  mjModel* m = mj_compile(s, NULL);
  if (!m) fprintf(stderr, "c28: touch scene compile failed: %s\n", mjs_getError(s));
  mj_deleteSpec(s);
  return m;
}
static void touch_state(const mjModel* m, mjData* d, mjg_rng* r, int rep) {
  // boxes upright with a yaw, small lateral offsets, penetration depths varied by +-25 %
  for (int b = 0; b < 2; b++) {
    int a = m->jnt_qposadr[b]; double yaw = rep == 0 ? 0 : mjg_range(r, -3, 3);
    d->qpos[a] = mjg_range(r, -0.01, 0.01); d->qpos[a + 1] = mjg_range(r, -0.01, 0.01);
    d->qpos[a + 3] = cos(yaw / 2); d->qpos[a + 4] = 0; d->qpos[a + 5] = 0; d->qpos[a + 6] = sin(yaw / 2);
  }
  double d1 = TS_d1 * (rep == 0 ? 1 : mjg_range(r, 0.75, 1.25)), d2 = TS_d2 * (rep == 0 ? 1 : mjg_range(r, 0.75, 1.25));
  d->qpos[m->jnt_qposadr[0] + 2] = TS_hzA - d1; d->qpos[m->jnt_qposadr[1] + 2] = 2 * TS_hzA - d1 + TS_hzB - d2;
}

static void position_only(const mjModel* m, mjData* d) { mj_fwdPosition(m, d); mj_sensorPos(m, d); }

static void run_model(uint64_t seed, unsigned feat, int nbody, int nrep, int scene) {
  mjModel* m = scene ? build_touch_scene(seed) : build(seed, feat, nbody);
  if (!m) { printf("FAIL compile\nEND\n"); return; }
  mjcb_sensor = user_cb;
  mjData* d = mj_makeData(m); mjData* d2 = mj_makeData(m);
  JP = (mjtNum*)malloc(sizeof(mjtNum) * 3 * (m->nv + 1)); JR = (mjtNum*)malloc(sizeof(mjtNum) * 3 * (m->nv + 1));
  JDP = (mjtNum*)malloc(sizeof(mjtNum) * 3 * (m->nv + 1)); JDR = (mjtNum*)malloc(sizeof(mjtNum) * 3 * (m->nv + 1));
  printf("L %d %d", m->nsensor, m->nsensordata);
  for (int i = 0; i < m->nsensor; i++) printf(" %d", m->sensor_dim[i]);
  for (int i = 0; i < m->nsensor; i++) printf(" %d", m->sensor_adr[i]);
  printf("\n");
  mjg_rng R = { seed * 131 + 17 }; mjg_rng* r = &R;
  int maxdim = 8; for (int i = 0; i < m->nsensor; i++) if (m->sensor_dim[i] > maxdim) maxdim = m->sensor_dim[i];
  mjtNum* e = (mjtNum*)malloc(sizeof(mjtNum) * (maxdim + 8));
  mjtNum* buf = (mjtNum*)malloc(sizeof(mjtNum) * (maxdim + 16));
  for (int rep = 0; rep < nrep; rep++) {
    mj_resetData(m, d);
    if (scene) touch_state(m, d, r, rep); else mjg_random_state(m, d, r, rep == 0 ? 0.0 : mjg_range(r, 0.2, 3.0));
    d->time = mjg_range(r, 0, 5);
    int nstep = (!scene && rep % 3 == 2) ? 5 + mjg_int(r, 120) : 0;
    mjg_nwarning = 0;
    int err = 0;
    if (MJG_TRY) {
      for (int k = 0; k < nstep; k++) mj_step(m, d);
      for (int k = 0; k < m->nsensordata; k++) d->sensordata[k] = CAN;
      mj_forward(m, d);
      MJG_END;
    } else err = 1;
    int bad = err;
    for (int k = 0; k < m->nq; k++) if (!isfinite(d->qpos[k])) bad = 1;
    for (int k = 0; k < m->nv; k++) if (!isfinite(d->qvel[k]) || !isfinite(d->qacc[k]) || fabs(d->qacc[k]) > 1e6 || fabs(d->qvel[k]) > 1e3) bad = 1;
    if (d->warning[mjWARN_BADQACC].number || d->warning[mjWARN_BADQPOS].number || d->warning[mjWARN_BADQVEL].number) bad = 1;
    printf("REP %d %d %d %d\n", rep, bad, nstep, d->ncon);
    if (bad) { printf("ENDREP\n"); continue; }
    // canary (a): every entry of sensordata was written by mj_forward
    int uncovered = 0; for (int k = 0; k < m->nsensordata; k++) if (d->sensordata[k] == CAN) uncovered++;
    // per sensor
    touch_inside = touch_reproj = touch_wrongdir = 0;
    for (int i = 0; i < m->nsensor; i++) {
      mjtNum scl; const char* kind;
      int ne = expected(m, d, i, e, &scl, &kind);
      int dofless = 0;
      { const mjtNum *fp, *fR; int fb; if (frame_of(m, d, m->sensor_objtype[i], m->sensor_objid[i], &fp, &fR, &fb)) dofless = m->body_dofnum[m->body_weldid[fb]] == 0; }
      int docdim = -1;   // documented size where it depends on the object: actuator sensors report one value per force output (3 for an SO3 servo)
      if (m->sensor_type[i] == mjSENS_ACTUATORPOS || m->sensor_type[i] == mjSENS_ACTUATORVEL || m->sensor_type[i] == mjSENS_ACTUATORFRC)
        docdim = m->actuator_gaintype[m->sensor_objid[i]] == mjGAIN_SO3 ? 3 : 1;
      printf("S %d %d %d %d %d %d %d %d %d %d %a %s %a %d %d", i, m->sensor_type[i], m->sensor_objtype[i], m->sensor_objid[i], m->sensor_reftype[i], m->sensor_refid[i],
             m->sensor_datatype[i], m->sensor_needstage[i], m->sensor_dim[i], m->sensor_adr[i], (double)m->sensor_cutoff[i], ne ? kind : "none", (double)scl, dofless, docdim);
      printf(" |"); pd(d->sensordata + m->sensor_adr[i], m->sensor_dim[i]);
      printf(" |"); pd(e, ne); printf("\n");
    }
    // canary (b): each stage alone writes exactly the slices of its own sensors; same values as in mj_forward
    int stage_viol = 0, stage_mismatch = 0;
    for (int st = mjSTAGE_POS; st <= mjSTAGE_ACC; st++) {
      mj_copyData(d2, m, d);
      for (int k = 0; k < m->nsensordata; k++) d2->sensordata[k] = CAN;
      if (st == mjSTAGE_POS) mj_sensorPos(m, d2); else if (st == mjSTAGE_VEL) mj_sensorVel(m, d2); else mj_sensorAcc(m, d2);
      for (int i = 0; i < m->nsensor; i++) for (int k = 0; k < m->sensor_dim[i]; k++) {
        mjtNum x = d2->sensordata[m->sensor_adr[i] + k];
        if (m->sensor_needstage[i] == st) { if (x == CAN) stage_viol++; else if (memcmp(&x, d->sensordata + m->sensor_adr[i] + k, sizeof(mjtNum))) stage_mismatch++; }
        else if (x != CAN) stage_viol++;
      }
    }
    // canary (c): mj_computeSensor into a padded private buffer
    int pad_viol = 0, recompute_mismatch = 0;
    mj_copyData(d2, m, d);
    for (int i = 0; i < m->nsensor; i++) {
      if (m->sensor_type[i] == mjSENS_USER || m->sensor_type[i] == mjSENS_PLUGIN) continue;
      int dim = m->sensor_dim[i];
      for (int k = 0; k < dim + 16; k++) buf[k] = CAN;
      mj_computeSensor(m, d2, i, buf + 8);
      for (int k = 0; k < 8; k++) if (buf[k] != CAN || buf[8 + dim + k] != CAN) pad_viol++;
      if (memcmp(buf + 8, d->sensordata + m->sensor_adr[i], sizeof(mjtNum) * dim)) recompute_mismatch++;
    }
    printf("CAN %d %d %d %d %d\n", uncovered, stage_viol, stage_mismatch, pad_viol, recompute_mismatch);
    printf("TCH %d %d %d\n", touch_inside, touch_reproj, touch_wrongdir);
    // finite differences along the motion: d/dt framepos = framelinvel, d/dt framequat -> frameangvel (same object and reference)
    {
      mjtNum h = 1e-6;
      mjData* dp = d2; mj_copyData(dp, m, d);
      mjtNum* sp = (mjtNum*)malloc(sizeof(mjtNum) * m->nsensordata); mjtNum* sm = (mjtNum*)malloc(sizeof(mjtNum) * m->nsensordata);
      mj_integratePos(m, dp->qpos, d->qvel, h); position_only(m, dp); memcpy(sp, dp->sensordata, sizeof(mjtNum) * m->nsensordata);
      mj_copyData(dp, m, d);
      mj_integratePos(m, dp->qpos, d->qvel, -h); position_only(m, dp); memcpy(sm, dp->sensordata, sizeof(mjtNum) * m->nsensordata);
      for (int g = 0; g < ngroup; g++) {
        int ip = grp_idx[g][0], iq = grp_idx[g][1], il = grp_idx[g][5], ia = grp_idx[g][6];
        if (ip >= 0 && il >= 0 && m->sensor_cutoff[ip] == 0) {
          printf("FD %d", il); for (int k = 0; k < 3; k++) printf(" %a", (double)((sp[m->sensor_adr[ip] + k] - sm[m->sensor_adr[ip] + k]) / (2 * h))); printf("\n");
        }
        if (iq >= 0 && ia >= 0) {
          // w = 2 * vec( qdot * conj(q) ), expressed in the frame in which q is given
          const mjtNum* q = d->sensordata + m->sensor_adr[iq]; mjtNum qd[4], qc[4] = {q[0], -q[1], -q[2], -q[3]}, pr[4];
          mjtNum sgn = 0; for (int k = 0; k < 4; k++) sgn += sp[m->sensor_adr[iq] + k] * sm[m->sensor_adr[iq] + k];
          for (int k = 0; k < 4; k++) qd[k] = (sp[m->sensor_adr[iq] + k] - (sgn < 0 ? -1 : 1) * sm[m->sensor_adr[iq] + k]) / (2 * h);
          mju_mulQuat(pr, qd, qc);
          printf("FDQ %d %a %a %a\n", ia, (double)(2 * pr[1]), (double)(2 * pr[2]), (double)(2 * pr[3]));
        }
      }
      free(sp); free(sm);
    }
    // inputs and outputs of the reference-frame kernels (tie of Model/Sensor.v)
    for (int i = 0; i < m->nsensor; i++) {
      int type = m->sensor_type[i], ot = m->sensor_objtype[i], id = m->sensor_objid[i], rt = m->sensor_reftype[i], rid = m->sensor_refid[i];
      if (rid < 0) continue;
      const mjtNum *p, *Rm, *pr, *Rr; int b, br;
      const mjtNum* obs = d->sensordata + m->sensor_adr[i];
      if (type == mjSENS_FRAMEPOS && frame_of(m, d, ot, id, &p, &Rm, &b) && frame_of(m, d, rt, rid, &pr, &Rr, &br)) {
        printf("FKP %d %a", i, (double)m->sensor_cutoff[i]); pd(p, 3); pd(pr, 3); pd(Rr, 9); pd(obs, 3); printf("\n");
      } else if (type >= mjSENS_FRAMEXAXIS && type <= mjSENS_FRAMEZAXIS && frame_of(m, d, ot, id, &p, &Rm, &b) && frame_of(m, d, rt, rid, &pr, &Rr, &br)) {
        printf("FKA %d %d", i, type - mjSENS_FRAMEXAXIS); pd(Rm, 9); pd(Rr, 9); pd(obs, 3); printf("\n");
      } else if (type == mjSENS_FRAMEQUAT) {
        mjtNum qo[4], qr[4];
        if (quat_of(m, d, ot, id, qo) && quat_of(m, d, rt, rid, qr)) { printf("FKQ %d", i); pd(qo, 4); pd(qr, 4); pd(obs, 4); printf("\n"); }
      } else if ((type == mjSENS_FRAMELINVEL || type == mjSENS_FRAMEANGVEL) && frame_of(m, d, ot, id, &p, &Rm, &b) && frame_of(m, d, rt, rid, &pr, &Rr, &br)) {
        mjtNum xv[6], xr[6]; mj_objectVelocity(m, d, ot, id, xv, 0); mj_objectVelocity(m, d, rt, rid, xr, 0);
        printf("FKV %d %d %a", i, type == mjSENS_FRAMELINVEL, (double)m->sensor_cutoff[i]); pd(p, 3); pd(pr, 3); pd(Rr, 9); pd(xv, 6); pd(xr, 6); pd(obs, 3); printf("\n");
      }
    }
    printf("ENDREP\n");
  }
  free(e); free(buf); free(JP); free(JR); free(JDP); free(JDR);
  mj_deleteData(d); mj_deleteData(d2); mj_deleteModel(m);
  printf("END\n");
}

// ---------------------------------------------------------------- cutoff kernel on a patched model
static mjModel* KM = NULL;
static void kernel(int type, int datatype, double cutoff, int dim, const double* x) {
  if (!KM) {
    mjSpec* s = mj_makeSpec();
    mjsSensor* sn = mjs_addSensor(s); sn->type = mjSENS_USER; sn->dim = 16; sn->datatype = mjDATATYPE_REAL; sn->needstage = mjSTAGE_POS;
    KM = mj_compile(s, NULL); mj_deleteSpec(s);
    if (!KM) { printf("FAIL kernel model\nEND\n"); return; }
  }
  mjtNum data[18]; for (int k = 0; k < 18; k++) data[k] = CAN;
  for (int k = 0; k < dim; k++) data[1 + k] = x[k];
  KM->sensor_type[0] = type; KM->sensor_datatype[0] = datatype; KM->sensor_cutoff[0] = cutoff; KM->sensor_dim[0] = dim;
  apply_cutoff(KM, 0, data + 1);
  printf("K %d", (data[0] != CAN) + (data[1 + dim] != CAN)); pd(data + 1, dim); printf("\nEND\n");
}

int main(void) {
  mjg_install_handlers();
  char line[8192];
  while (fgets(line, sizeof(line), stdin)) {
    if (line[0] == 'C') {
      printf("CONST REAL %d POSITIVE %d AXIS %d QUATERNION %d STAGE_POS %d STAGE_VEL %d STAGE_ACC %d NSENSTYPE %d", mjDATATYPE_REAL, mjDATATYPE_POSITIVE, mjDATATYPE_AXIS, mjDATATYPE_QUATERNION,
             mjSTAGE_POS, mjSTAGE_VEL, mjSTAGE_ACC, mjSENS_USER + 1);
#define SN(x) printf(" " #x " %d", mjSENS_##x);
      SN(TOUCH) SN(ACCELEROMETER) SN(VELOCIMETER) SN(GYRO) SN(FORCE) SN(TORQUE) SN(MAGNETOMETER) SN(RANGEFINDER) SN(CAMPROJECTION)
      SN(JOINTPOS) SN(JOINTVEL) SN(TENDONPOS) SN(TENDONVEL) SN(ACTUATORPOS) SN(ACTUATORVEL) SN(ACTUATORFRC) SN(JOINTACTFRC) SN(TENDONACTFRC)
      SN(BALLQUAT) SN(BALLANGVEL) SN(JOINTLIMITPOS) SN(JOINTLIMITVEL) SN(JOINTLIMITFRC) SN(TENDONLIMITPOS) SN(TENDONLIMITVEL) SN(TENDONLIMITFRC)
      SN(FRAMEPOS) SN(FRAMEQUAT) SN(FRAMEXAXIS) SN(FRAMEYAXIS) SN(FRAMEZAXIS) SN(FRAMELINVEL) SN(FRAMEANGVEL) SN(FRAMELINACC) SN(FRAMEANGACC)
      SN(SUBTREECOM) SN(SUBTREELINVEL) SN(SUBTREEANGMOM) SN(INSIDESITE) SN(GEOMDIST) SN(GEOMNORMAL) SN(GEOMFROMTO) SN(CONTACT)
      SN(E_POTENTIAL) SN(E_KINETIC) SN(CLOCK) SN(TACTILE) SN(PLUGIN) SN(USER)
      printf("\nEND\n");
    } else if (line[0] == 'K') {
      int type, dt, dim, off = 0, n; double c, x[16]; char cs[64];
      if (sscanf(line + 1, "%d %d %63s %d%n", &type, &dt, cs, &dim, &n) != 4 || dim > 16) { printf("FAIL parse\nEND\n"); continue; }
      c = strtod(cs, NULL); off = 1 + n;
      for (int k = 0; k < dim; k++) { char xs[64]; int nn; if (sscanf(line + off, "%63s%n", xs, &nn) != 1) break; x[k] = strtod(xs, NULL); off += nn; }
      kernel(type, dt, c, dim, x);
    } else if (line[0] == 'M') {
      unsigned long long seed; unsigned feat; int nbody, nrep;
      if (sscanf(line + 1, "%llu %u %d %d", &seed, &feat, &nbody, &nrep) != 4) { printf("FAIL parse\nEND\n"); continue; }
      run_model(seed, feat, nbody, nrep, 0);
    } else if (line[0] == 'W') {
      unsigned long long seed; int nrep;
      if (sscanf(line + 1, "%llu %d", &seed, &nrep) != 2) { printf("FAIL parse\nEND\n"); continue; }
      run_model(seed, 0, 2, nrep, 1);
    }
    fflush(stdout);
  }
  return 0;
}
