"""C10 / C09 oracle side (run with /venv/bin/python: needs numpy).  Independent of the engine and of the Coq model.

stdin: the text printed by `c10_solvers solve` (P / S records).  stdout: one JSON object per problem.

For every problem the documented objective
      cost(a) = 1/2 (a - a0)' M (a - a0) + s(J a - aref),      a0 = qacc_smooth
is rebuilt from the dumped dense M, J, efc_D, efc_R, frictionloss, aref and the contact descriptors; s is the constraint
cost as documented (quadratic equality rows, Huber friction-loss rows, one-sided quadratic limit / frictionless /
pyramidal rows, three-zone elliptic cones), its gradient -f is derived here by hand and cross-checked by central
differences on every problem.  A reference minimiser (damped generalised Newton with a numerically differentiated cone
Hessian, falling back to M-preconditioned gradient descent with backtracking) is run from a0, and certified by
      |a - a*|_M <= |grad cost(a)|_{M^-1}                        (cost is 1-strongly convex in the M norm),
so the reference is only used when its own certificate is tiny.  Every solver answer is then compared with it."""
import json, math, sys
import numpy as np

ELL = 7


def fh(x):
    return float.fromhex(x)


class Problem:
    def __init__(self, t):
        p = 1
        def ints(n):
            nonlocal p
            v = [int(x) for x in t[p:p + n]]; p += n
            return v
        def nums(n):
            nonlocal p
            v = np.array([fh(x) for x in t[p:p + n]], dtype=float); p += n
            return v
        self.seed, self.step, self.cone, nv, nefc, self.ne, self.nf, ncon, self.nisland = ints(9)
        self.meaninertia, self.tolerance, self.impratio = nums(3)
        self.nv, self.nefc = nv, nefc
        self.M = nums(nv * nv).reshape(nv, nv)
        self.J = nums(nefc * nv).reshape(nefc, nv)
        self.D, self.R, self.fl, self.aref = nums(nefc), nums(nefc), nums(nefc), nums(nefc)
        self.type, self.id = ints(nefc), ints(nefc)
        self.a0, self.qfrc_smooth, self.warm = nums(nv), nums(nv), nums(nv)
        self.con = []
        for _ in range(ncon):
            dim = ints(1)[0]; mu = nums(1)[0]; fr = nums(5); adr = ints(1)[0]
            self.con.append((dim, mu, fr, adr))
        self.bad = None
        if not all(np.all(np.isfinite(x)) for x in (self.M, self.J, self.D, self.R, self.fl, self.aref, self.a0, self.qfrc_smooth, self.warm)):
            self.bad = "non-finite problem data (state diverged before the sample)"
        else:
            try:
                self.L = np.linalg.cholesky(self.M)
            except np.linalg.LinAlgError:
                self.bad = "inertia matrix not positive definite"
        self.sols = []
        # row blocks
        self.blocks = []
        i = 0
        while i < nefc:
            if i < self.ne:
                self.blocks.append(("eq", i, 1, None)); i += 1
            elif i < self.ne + self.nf:
                self.blocks.append(("fric", i, 1, None)); i += 1
            elif self.type[i] != ELL:
                self.blocks.append(("uni", i, 1, None)); i += 1
            else:
                c = self.con[self.id[i]]
                self.blocks.append(("ell", i, c[0], c)); i += c[0]

    # ---- the documented constraint cost and its gradient (-force)
    def s_f(self, x):
        cost = 0.0
        f = np.zeros(self.nefc)
        active = np.zeros(self.nefc)      # generalised second derivative of scalar rows
        cones = []                        # elliptic blocks in the middle zone
        D, R, fl = self.D, self.R, self.fl
        for kind, i, dim, c in self.blocks:
            if kind == "eq":
                cost += 0.5 * D[i] * x[i] * x[i]; f[i] = -D[i] * x[i]; active[i] = D[i]
            elif kind == "fric":
                b = R[i] * fl[i]
                if abs(x[i]) < b:
                    cost += 0.5 * D[i] * x[i] * x[i]; f[i] = -D[i] * x[i]; active[i] = D[i]
                else:
                    cost += fl[i] * (abs(x[i]) - 0.5 * b); f[i] = -fl[i] * (1.0 if x[i] > 0 else -1.0)
            elif kind == "uni":
                if x[i] < 0:
                    cost += 0.5 * D[i] * x[i] * x[i]; f[i] = -D[i] * x[i]; active[i] = D[i]
            else:
                _, mu, fr, _ = c
                N = x[i] * mu
                u = x[i + 1:i + dim] * fr[:dim - 1]
                T = math.sqrt(float(np.dot(u, u)))
                if N >= mu * T:
                    pass
                elif mu * N + T <= 0:
                    cost += 0.5 * float(np.dot(D[i:i + dim], x[i:i + dim] ** 2))
                    f[i:i + dim] = -D[i:i + dim] * x[i:i + dim]; active[i:i + dim] = D[i:i + dim]
                else:
                    Dm = D[i] / (mu * mu * (1 + mu * mu))
                    d = N - mu * T
                    cost += 0.5 * Dm * d * d
                    f[i] = -Dm * d * mu
                    f[i + 1:i + dim] = Dm * d * mu / T * u * fr[:dim - 1]
                    cones.append((i, dim))
        return cost, f, active, cones

    def cost(self, a):
        da = a - self.a0
        s, _, _, _ = self.s_f(self.J @ a - self.aref)
        return 0.5 * float(da @ (self.M @ da)) + s

    def grad(self, a):
        _, f, _, _ = self.s_f(self.J @ a - self.aref)
        return self.M @ (a - self.a0) - self.J.T @ f, f

    def minv(self, g):
        y = np.linalg.solve(self.L, g)
        return np.linalg.solve(self.L.T, y)

    def cert(self, a):
        g, _ = self.grad(a)
        return math.sqrt(max(0.0, float(g @ self.minv(g))))

    def mnorm(self, v):
        return math.sqrt(max(0.0, float(v @ (self.M @ v))))

    def fd_check(self, a, rng):
        v = rng.standard_normal(self.nv)
        v /= max(1e-300, np.linalg.norm(v))
        g, _ = self.grad(a)
        h = 1e-6 * (1 + np.linalg.norm(a))
        num = (self.cost(a + h * v) - self.cost(a - h * v)) / (2 * h)
        return float(g @ v), num

    # ---- reference minimiser
    def hess(self, a):
        x = self.J @ a - self.aref
        _, f, active, cones = self.s_f(x)
        H = self.M + self.J.T @ (active[:, None] * self.J)
        for (i, dim) in cones:
            B = np.zeros((dim, dim))
            for k in range(dim):
                h = 1e-6 * (1 + abs(x[i + k]))
                xp = x.copy(); xp[i + k] += h
                xm = x.copy(); xm[i + k] -= h
                _, fp, _, _ = self.s_f(xp); _, fm, _, _ = self.s_f(xm)
                B[:, k] = -(fp[i:i + dim] - fm[i:i + dim]) / (2 * h)
            B = 0.5 * (B + B.T)
            w, V = np.linalg.eigh(B)
            B = (V * np.maximum(w, 0)) @ V.T
            Jb = self.J[i:i + dim]
            H = H + Jb.T @ B @ Jb
        return H

    def reference(self, maxit=400):
        a = self.a0.copy()
        c = self.cost(a)
        it = 0
        best = (self.cert(a), a.copy())
        while it < maxit:
            it += 1
            g, _ = self.grad(a)
            ce = math.sqrt(max(0.0, float(g @ self.minv(g))))
            if ce < best[0]:
                best = (ce, a.copy())
            if ce <= 1e-13 * (1 + self.mnorm(a)):
                break
            try:
                step = -np.linalg.solve(self.hess(a), g)
            except np.linalg.LinAlgError:
                step = -self.minv(g)
            if float(step @ g) >= 0:
                step = -self.minv(g)
            slope = float(step @ g)
            t, ok = 1.0, False
            for _ in range(60):
                cn = self.cost(a + t * step)
                if cn <= c + 1e-4 * t * slope:
                    ok = True
                    break
                t *= 0.5
            if not ok:
                # gradient step with exact-ish line search along -M^-1 g
                step = -self.minv(g); slope = float(step @ g); t = 1.0
                for _ in range(80):
                    cn = self.cost(a + t * step)
                    if cn < c:
                        ok = True
                        break
                    t *= 0.5
                if not ok:
                    break
            a = a + t * step
            c = cn
        ce = self.cert(a)
        if ce > best[0]:
            ce, a = best
        return a, ce, it


def parse_solution(t, nv):
    p = 1
    seed, step, cfg, solver, island, sparse, cold, maxiter, nefc = [int(x) for x in t[p:p + 9]]; p += 9
    chk = t[p]; p += 1
    nisl, nrep = int(t[p]), int(t[p + 1]); p += 2
    niter = [int(x) for x in t[p:p + nrep]]; p += nrep
    qacc = np.array([fh(x) for x in t[p:p + nv]]); p += nv
    force = np.array([fh(x) for x in t[p:p + nefc]]); p += nefc
    nstat = int(t[p]); p += 1
    stats = [(fh(t[p + 2 * k]), fh(t[p + 2 * k + 1])) for k in range(nstat)]
    return {"cfg": cfg, "solver": solver, "island": island, "sparse": sparse, "cold": cold, "maxiter": maxiter, "nefc": nefc, "chk": chk,
            "nisland": nisl, "niter": niter, "qacc": qacc, "force": force, "stats": stats}


def analyse(P, rng):
    if P.bad:
        return {"seed": P.seed, "step": P.step, "cone": P.cone, "nv": P.nv, "nefc": P.nefc, "bad": P.bad}
    out = {"seed": P.seed, "step": P.step, "cone": P.cone, "nv": P.nv, "nefc": P.nefc, "ne": P.ne, "nf": P.nf, "ncon": len(P.con),
           "nisland": P.nisland, "kinds": sorted(set(b[0] + (str(b[2]) if b[0] == "ell" else "") for b in P.blocks)),
           "types": sorted(set(P.type))}
    aref, cert_ref, it = P.reference()
    gv, num = P.fd_check(aref + 0.01 * rng.standard_normal(P.nv), rng)
    out["fd"] = [gv, num]
    out["ref_cert"] = cert_ref; out["ref_iter"] = it
    out["ref_mnorm"] = P.mnorm(aref - P.a0)
    out["ref_inf"] = float(np.max(np.abs(aref))) if P.nv else 0.0
    _, fref = P.grad(aref)
    out["ref_force_inf"] = float(np.max(np.abs(fref))) if P.nefc else 0.0
    c_ref = P.cost(aref)
    c_warm, c_smooth = P.cost(P.warm), P.cost(P.a0)
    out["cost_ref"], out["cost_warm"], out["cost_smooth"] = c_ref, c_warm, c_smooth
    # M a0 = qfrc_smooth (consistency of the dumped data)
    out["smooth_resid"] = float(np.max(np.abs(P.M @ P.a0 - P.qfrc_smooth))) / (1 + float(np.max(np.abs(P.qfrc_smooth))))
    sols = []
    A = P.J @ np.linalg.solve(P.M, P.J.T) if P.nefc else np.zeros((0, 0))
    b0 = P.J @ P.a0 - P.aref
    out["cfg"] = {"ne": P.ne, "nf": P.nf, "D": [x.hex() for x in P.D], "R": [x.hex() for x in P.R], "fl": [x.hex() for x in P.fl],
                  "type": P.type, "id": P.id, "con": [{"dim": c[0], "mu": float(c[1]).hex(), "fr": [float(x).hex() for x in c[2]], "adr": c[3]} for c in P.con]}
    for s in P.sols:
        a = s["qacc"]
        f = s["force"]
        base = {"cfg": s["cfg"], "solver": s["solver"], "island": s["island"], "sparse": s["sparse"], "cold": s["cold"], "maxiter": s["maxiter"],
                "nefc": s["nefc"], "chk": s["chk"], "nisland": s["nisland"], "niter": s["niter"]}
        if s["nefc"] != P.nefc or len(f) != P.nefc or len(a) != P.nv:
            sols.append(dict(base, bad="different number of constraint rows than the dumped problem", finite=True))
            continue
        if not (np.all(np.isfinite(a)) and np.all(np.isfinite(f))):
            sols.append(dict(base, bad="non-finite qacc / efc_force", finite=False))
            continue
        _, flaw = P.grad(a)
        # dual cost 1/2 f'(A+R)f + f'b and admissibility of the reported forces
        dual = float(0.5 * f @ (A @ f) + 0.5 * f @ (P.R * f) + f @ b0) if P.nefc else 0.0
        res = P.J @ a - P.aref + P.R * f
        apex, inadm, qcqpdet = 0, 0, 0
        AR = A + np.diag(P.R) if P.nefc else A
        fscale = 1 + (float(np.max(np.abs(f))) if P.nefc else 0.0)
        for kind, i, dim, c in P.blocks:
            if kind == "fric":
                inadm += not (abs(f[i]) <= P.fl[i] + 1e-9 * fscale)
            elif kind == "uni":
                inadm += not (f[i] >= -1e-9 * fscale)
            elif kind == "ell":
                fr = c[2][:dim - 1]
                tn = math.sqrt(float(np.sum((f[i + 1:i + dim] / fr) ** 2)))
                inadm += not (f[i] >= -1e-9 * fscale and tn <= f[i] + 1e-9 * fscale)
                rt = math.sqrt(float(np.sum((fr * res[i + 1:i + dim]) ** 2)))
                if abs(f[i]) <= 1e-15:
                    apex += bool(res[i] < rt * (1 - 1e-9) - 1e-9 * (1 + abs(res[i])))
                elif dim in (3, 4) and not np.any(f[i + 1:i + dim]) and rt > 1e-9 * (1 + abs(res[i])):
                    # mju_QCQP2 / mju_QCQP3 return zero friction when det(scaled block) < 1e-10 although the block is SPD
                    As = AR[i + 1:i + dim, i + 1:i + dim] * np.outer(fr, fr)
                    qcqpdet += bool(np.linalg.det(As) < 1e-10 and np.min(np.linalg.eigvalsh(As)) > 0)
        pair = None
        if s["island"]:
            for s2 in P.sols:
                if s2["solver"] == s["solver"] and not s2["island"] and (s2["sparse"] == s["sparse"] or s["solver"] != 2):
                    pair = float(np.max(np.abs(a - s2["qacc"])))
        c = P.cost(a)
        start = P.a0 if s["cold"] else (P.warm if c_warm <= c_smooth else P.a0)
        c_start = min(c_warm, c_smooth) if not s["cold"] else c_smooth
        scale = 1.0 / (P.meaninertia * max(1, P.nv))
        sols.append({"cfg": s["cfg"], "solver": s["solver"], "island": s["island"], "sparse": s["sparse"], "cold": s["cold"], "maxiter": s["maxiter"],
                     "nefc": s["nefc"], "chk": s["chk"], "nisland": s["nisland"], "niter": s["niter"],
                     "err_inf": float(np.max(np.abs(a - aref))), "err_m": P.mnorm(a - aref), "cert": P.cert(a),
                     "force_err": float(np.max(np.abs(s["force"] - fref))) if P.nefc else 0.0,
                     "force_law_err": float(np.max(np.abs(s["force"] - flaw))) if P.nefc else 0.0,
                     "cost": c, "cost_start": c_start, "cost_minus_ref": c - c_ref,
                     "sum_improvement": sum(x[0] for x in s["stats"]) / scale, "min_improvement": min([x[0] for x in s["stats"]] + [0.0]) / scale,
                     "last_gradient": (s["stats"][-1][1] / scale) if s["stats"] else None, "nstat": len(s["stats"]),
                     "finite": bool(np.all(np.isfinite(a)) and np.all(np.isfinite(s["force"]))),
                     "dual": dual, "apex_viol": apex, "qcqp_det_viol": qcqpdet, "inadmissible": int(inadm), "pair_err": pair,
                     "jar": [float(x).hex() for x in (P.J @ a - P.aref)] if s["cfg"] in (0, 4) else None,
                     "force_hex": [float(x).hex() for x in f] if s["cfg"] in (0, 4) else None})
    out["sols"] = sols
    return out


def main():
    rng = np.random.default_rng(12345)
    cur = None
    res = []
    for line in sys.stdin:
        t = line.split()
        if not t:
            continue
        if t[0] == "P":
            if cur is not None:
                res.append(analyse(cur, rng))
            cur = Problem(t)
            # the row blocks need valid contact ids

        elif t[0] == "S" and cur is not None:
            cur.sols.append(parse_solution(t, cur.nv))
    if cur is not None:
        res.append(analyse(cur, rng))
    for r in res:
        print(json.dumps(r))


if __name__ == "__main__":
    main()
