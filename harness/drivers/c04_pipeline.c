// C04 driver: (E) end-to-end mj_step vs mj_step1;U;mj_step2 and (H) commutation of individual stage
// functions with the user update U (writes constants to ctrl, qfrc_applied, xfrc_applied), and
// (S) forwardSkip vs full forward, (P) forward purity / idempotence.  All comparisons bitwise.
// stdin lines:
//   E seed feat nbody integrator enableflags disableflags cbmode nsteps solver cone
//   H seed feat nbody enableflags stagename
//   S seed feat nbody integrator enableflags skipstage solver cone
//   V seed feat nbody integrator enableflags skipstage solver cone   (mj_inverseSkip vs mj_inverse)
// stdout: one line per case: "OK ..." | "DIFF <fields>" | "ERR <msg>" | "UNKNOWN <stage>"
#include "mjgen.h"
#include "mjcmp.h"

typedef void (*stagefn)(const mjModel*, mjData*);
static void st_rk4(const mjModel* m, mjData* d) { mj_RungeKutta(m, d, 4); }
static struct { const char* name; stagefn fn; } STAGES[] = {
  {"mj_checkPos", mj_checkPos}, {"mj_checkVel", mj_checkVel}, {"mj_checkAcc", mj_checkAcc},
  {"mj_fwdPosition", mj_fwdPosition}, {"mj_sensorPos", mj_sensorPos}, {"mj_energyPos", mj_energyPos},
  {"mj_fwdVelocity", mj_fwdVelocity}, {"mj_sensorVel", mj_sensorVel}, {"mj_energyVel", mj_energyVel},
  {"mj_fwdActuation", mj_fwdActuation}, {"mj_fwdAcceleration", mj_fwdAcceleration},
  {"mj_fwdConstraint", mj_fwdConstraint}, {"mj_sensorAcc", mj_sensorAcc}, {"mj_compareFwdInv", mj_compareFwdInv},
  {"mj_Euler", mj_Euler}, {"mj_implicit", mj_implicit}, {"mj_RungeKutta,4", st_rk4},
  {"mj_forward", mj_forward}, {"mj_step", mj_step}, {"mj_step1", mj_step1}, {"mj_step2", mj_step2},
  {NULL, NULL}};

static void st_assign_energy1(const mjModel* m, mjData* d) { (void)m; d->energy[1] = 0; }
static void st_assign_energy0(const mjModel* m, mjData* d) { (void)m; d->energy[0] = 0; }
static void st_assign_rnepost(const mjModel* m, mjData* d) { (void)m; d->flg_rnepost = 0; }
static stagefn find_stage(const char* n) {
  for (int i = 0; STAGES[i].name; i++) if (!strcmp(STAGES[i].name, n)) return STAGES[i].fn;
  if (!strcmp(n, "d->energy[1]=0")) return st_assign_energy1;
  if (!strcmp(n, "d->energy[0]=0")) return st_assign_energy0;
  if (!strcmp(n, "d->flg_rnepost=0")) return st_assign_rnepost;
  return NULL;
}

// the user update: constants derived from (useed, k)
static void user_update(const mjModel* m, mjData* d, uint64_t useed, int k) {
  mjg_rng r = {useed * 1000003ULL + (uint64_t)k};
  for (int i = 0; i < m->nu; i++) d->ctrl[i] = mjg_range(&r, -1.5, 1.5);
  for (int i = 0; i < m->nv; i++) d->qfrc_applied[i] = mjg_range(&r, -1, 1);
  for (int i = 6; i < 6 * m->nbody; i++) d->xfrc_applied[i] = mjg_range(&r, -0.5, 0.5);
}

// fresh mjData with a zeroed arena: stage functions allocate arena arrays that later stages fill
// (efc_vel, efc_aref, efc_force...); comparing two runs bitwise requires the not-yet-written bytes
// to start out equal in both
static mjData* fresh_data(const mjModel* m) { mjData* d = mj_makeData(m); if (d && d->arena) memset(d->arena, 0, d->narena); return d; }
static int cb_mode = 0;
static void control_cb(const mjModel* m, mjData* d) {
  // a deterministic controller that sets controls AND applied forces (both allowed for mjcb_control)
  for (int i = 0; i < m->nu; i++) d->ctrl[i] = 0.3 * sin(3 * d->time + i);
  if (cb_mode == 2) for (int i = 0; i < m->nv; i++) d->qfrc_applied[i] = 0.2 * cos(2 * d->time + i) - 0.1 * d->qvel[i];
}

int main(void) {
  mjg_install_handlers();
  char op[8];
  while (scanf("%7s", op) == 1) {
    unsigned long long seed; unsigned feat; int nb;
    if (scanf("%llu %u %d", &seed, &feat, &nb) != 3) return 2;
    if (op[0] == 'E') {
      int integ, en, dis, cbm, nsteps, solver, cone;
      if (scanf("%d %d %d %d %d %d %d", &integ, &en, &dis, &cbm, &nsteps, &solver, &cone) != 7) return 2;
      mjModel* m = mjg_model(seed, feat, nb, NULL);
      if (!m) { printf("ERR compile\n"); continue; }
      m->opt.integrator = integ; m->opt.enableflags |= en; m->opt.disableflags |= dis;
      m->opt.solver = solver; m->opt.cone = cone;
      mjData* a = fresh_data(m); mjData* b = fresh_data(m);
      mjg_rng r = {seed * 31 + 7}; mjg_random_state(m, a, &r, 1.0); mj_copyData(b, m, a);
      cb_mode = cbm; mjcb_control = cbm ? control_cb : NULL;
      char buf[512]; int nd = 0, kbad = -1;
      if (MJG_TRY) {
        for (int k = 0; k < nsteps && !nd; k++) {
          if (!cbm) user_update(m, a, seed, k);
          mj_step(m, a);
          mj_step1(m, b);
          if (!cbm) user_update(m, b, seed, k);
          mj_step2(m, b);
          nd = mjcmp_data(m, a, b, buf, sizeof(buf), 0);
          if (nd) kbad = k;
        }
        MJG_END;
        if (nd) printf("DIFF step=%d n=%d %s\n", kbad, nd, buf); else printf("OK ncon=%d nefc=%d time=%.17g\n", a->ncon, a->nefc, a->time);
      } else printf("ERR %s\n", mjg_last_error);
      mjcb_control = NULL;
      mj_deleteData(a); mj_deleteData(b); mj_deleteModel(m);
    } else if (op[0] == 'H') {
      int en; char sname[128];
      if (scanf("%d %127s", &en, sname) != 2) return 2;
      stagefn f = find_stage(sname);
      if (!f) { printf("UNKNOWN %s\n", sname); continue; }
      mjModel* m = mjg_model(seed, feat, nb, NULL);
      if (!m) { printf("ERR compile\n"); continue; }
      m->opt.enableflags |= en;
      mjData* a = fresh_data(m); mjData* b = fresh_data(m);
      mjg_rng r = {seed * 31 + 7}; mjg_random_state(m, a, &r, 1.0);
      char buf[512];
      if (MJG_TRY) {
        for (int k = 0; k < 3; k++) mj_step(m, a);
        // perturb positions/velocities so that the stage has work to do
        for (int i = 0; i < m->nv; i++) a->qvel[i] += 0.01 * (i + 1);
        mjData* base = a; a = fresh_data(m); mj_copyData(a, m, base); mj_copyData(b, m, base);
        user_update(m, a, seed, 99); f(m, a);        // U ; f
        f(m, b); user_update(m, b, seed, 99);        // f ; U
        MJG_END;
        int nd = mjcmp_data(m, a, b, buf, sizeof(buf), 0);
        if (nd) printf("DIFF n=%d %s\n", nd, buf); else printf("OK\n");
      } else printf("ERR %s\n", mjg_last_error);
      mj_deleteData(a); mj_deleteData(b); mj_deleteModel(m);
    } else if (op[0] == 'S') {
      int integ, en, skip, solver, cone;
      if (scanf("%d %d %d %d %d", &integ, &en, &skip, &solver, &cone) != 5) return 2;
      mjModel* m = mjg_model(seed, feat, nb, NULL);
      if (!m) { printf("ERR compile\n"); continue; }
      m->opt.integrator = integ; m->opt.enableflags |= en;
      m->opt.solver = solver; m->opt.cone = cone;
      m->opt.disableflags |= mjDSBL_WARMSTART;
      mjData* a = fresh_data(m); mjData* b = fresh_data(m); mjData* c = fresh_data(m);
      mjg_rng r = {seed * 31 + 7}; mjg_random_state(m, a, &r, 1.0);
      char buf[512]; char buf2[512];
      if (MJG_TRY) {
        for (int k = 0; k < 2; k++) mj_step(m, a);
        mj_forward(m, a);
        mj_copyData(c, m, a);                         // c: state after a full forward (for purity)
        // purity: integration state unchanged by forward
        int sz = mj_stateSize(m, mjSTATE_INTEGRATION);
        mjtNum* s0 = (mjtNum*)malloc(sizeof(mjtNum) * (sz + 1)); mjtNum* s1 = (mjtNum*)malloc(sizeof(mjtNum) * (sz + 1));
        mj_getState(m, a, s0, mjSTATE_INTEGRATION);
        mj_forward(m, a);                             // idempotence (warmstart disabled)
        mj_getState(m, a, s1, mjSTATE_INTEGRATION);
        int pure = !memcmp(s0, s1, sizeof(mjtNum) * sz);
        int nidem = mjcmp_data(m, a, c, buf2, sizeof(buf2), 2);
        // skip: change only what the skipped stages do not read
        mj_copyData(b, m, a);
        mjg_rng r2 = {seed * 77 + 1};
        if (skip >= mjSTAGE_POS) { for (int i = 0; i < m->nu; i++) { a->ctrl[i] = b->ctrl[i] = mjg_range(&r2, -1, 1); } }
        if (skip == mjSTAGE_POS) { for (int i = 0; i < m->nv; i++) { a->qvel[i] = b->qvel[i] = mjg_range(&r2, -1, 1); } }
        mj_forwardSkip(m, a, skip, 0);
        mj_forward(m, b);
        MJG_END;
        int nd = mjcmp_data(m, a, b, buf, sizeof(buf), 2);
        free(s0); free(s1);
        if (nd) printf("DIFF skip n=%d %s\n", nd, buf);
        else if (!pure) printf("DIFF purity\n");
        else if (nidem) printf("DIFF idempotence n=%d %s\n", nidem, buf2);
        else printf("OK\n");
      } else printf("ERR %s\n", mjg_last_error);
      mj_deleteData(a); mj_deleteData(b); mj_deleteData(c); mj_deleteModel(m);
    } else if (op[0] == 'V') {
      int integ, en, skip, solver, cone;
      if (scanf("%d %d %d %d %d", &integ, &en, &skip, &solver, &cone) != 5) return 2;
      mjModel* m = mjg_model(seed, feat, nb, NULL);
      if (!m) { printf("ERR compile\n"); continue; }
      m->opt.integrator = integ; m->opt.enableflags |= en;
      m->opt.solver = solver; m->opt.cone = cone;
      mjData* a = fresh_data(m); mjData* b = fresh_data(m);
      mjg_rng r = {seed * 31 + 7}; mjg_random_state(m, a, &r, 1.0);
      char buf[512];
      if (MJG_TRY) {
        for (int k = 0; k < 2; k++) mj_step(m, a);
        mj_forward(m, a);                             // consistent qacc
        mj_inverse(m, a);                             // the last FULL inverse call
        mj_copyData(b, m, a);
        // change only what the skipped stages do not read: qacc always, qvel when only the position stage is skipped
        mjg_rng r2 = {seed * 77 + 1};
        for (int i = 0; i < m->nv; i++) { a->qacc[i] = b->qacc[i] = a->qacc[i] + mjg_range(&r2, -1, 1); }
        if (skip == mjSTAGE_POS) { for (int i = 0; i < m->nv; i++) { a->qvel[i] = b->qvel[i] = mjg_range(&r2, -1, 1); } }
        mj_inverseSkip(m, a, skip, 0);
        mj_inverse(m, b);
        MJG_END;
        int nd = mjcmp_data(m, a, b, buf, sizeof(buf), 2);
        if (nd) printf("DIFF invskip n=%d %s\n", nd, buf);
        else printf("OK nefc=%d\n", a->nefc);
      } else printf("ERR %s\n", mjg_last_error);
      mj_deleteData(a); mj_deleteData(b); mj_deleteModel(m);
    } else return 3;
  }
  return 0;
}
