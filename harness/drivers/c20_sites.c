// C20 driver (site level): calls the four arena allocation sites of the working tree on a real
// mjData with a chosen number of free arena bytes and prints everything the client model
// (coq/Model/ArenaClients.v) predicts.  The three engine files are included as text to reach the
// static functions pushPairArena, arenaAllocEfc, arenaAllocIsland.
//
// argv: nbody nlink cone islands cluster
// stdin: lines  <site> <avail>   site: P pushPairArena | C mj_addContact | E arenaAllocEfc | I arenaAllocIsland |
//                              Y mj_makeY(m,d,0) | A mj_makeAR (both: extra lines  D <sparse> <nv> <nefc> <nY> <nA>  before and
//                              P <n> <dual pointers of the call in allocation order>  after the O line)
// stdout per line (each test runs in a child process):
//   K <sizeof mjContact> <alignof mjContact> <sizeof mjcPair> <alignof mjcPair> <base> <narena>
//   R <n> <bytes align>*n                       request list of the X-macro (E, I), empty otherwise
//   S <parena> <pstack> <maxuse_arena> <ncon> <nefc> <nisland> <nefcp> <p..> <nislp> <p..>      before
//   O <kind> <ret> <parena> <pstack> <maxuse_arena> <ncon> <nefc> <nisland> <p..efc> <p..isl> <nwarn> <wkind> <winfo> <nstale>
//       nstale = contacts with efc_address >= nefc; then <allocations violating the oracle of c20_wrap.h> <first violation>
//       kind 0 = returned, 1 = mju_error raised
//   or  X <signal>   when the process died
#include <inttypes.h>
#include <setjmp.h>
#include <stdint.h>
#include <stdio.h>
#include <stdlib.h>
#include <string.h>
#include <sys/mman.h>
#include <sys/types.h>
#include <sys/wait.h>
#include <unistd.h>

#include "engine/engine_collision_driver.c"
#include "engine/engine_core_constraint.c"
#include "engine/engine_island.c"
#include "c19_scene.h"
#include "c20_wrap.h"

static jmp_buf jb;
static void on_error(const char* msg) { (void)msg; longjmp(jb, 1); }
static void on_warning(const char* msg) { (void)msg; }
static FILE* vout;
static char* vbuf; static size_t vlen, vflushed;
static void flush_out(void) {
  fflush(vout);
  while (vflushed < vlen) { ssize_t w = write(1, vbuf + vflushed, vlen - vflushed); if (w <= 0) _exit(4); vflushed += (size_t)w; }
}

static uintptr_t P(const void* p) { return (uintptr_t)p; }

static void print_ptrs(const mjModel* m, const mjData* d) {
  int n = 0;
#undef MJ_M
#define MJ_M(n) m->n
#undef MJ_D
#define MJ_D(n) d->n
#define X(type, name, nr, nc) n++;
  MJDATA_ARENA_POINTERS_SOLVER
#undef X
  fprintf(vout, " %d", n);
#define X(type, name, nr, nc) fprintf(vout, " %" PRIuPTR, P(d->name));
  MJDATA_ARENA_POINTERS_SOLVER
#undef X
  n = 0;
#define X(type, name, nr, nc) n++;
  MJDATA_ARENA_POINTERS_ISLAND
#undef X
  fprintf(vout, " %d", n);
#define X(type, name, nr, nc) fprintf(vout, " %" PRIuPTR, P(d->name));
  MJDATA_ARENA_POINTERS_ISLAND
#undef X
}

static void print_reqs(const mjModel* m, const mjData* d, char site) {
  int n = 0;
  if (site == 'E') {
#define X(type, name, nr, nc) n++;
    MJDATA_ARENA_POINTERS_SOLVER
#undef X
    fprintf(vout, "R %d", n);
#define X(type, name, nr, nc) fprintf(vout, " %zu %zu", (size_t)(sizeof(type) * (nr) * (nc)), (size_t)_Alignof(type));
    MJDATA_ARENA_POINTERS_SOLVER
#undef X
  } else if (site == 'I') {
#define X(type, name, nr, nc) n++;
    MJDATA_ARENA_POINTERS_ISLAND
#undef X
    fprintf(vout, "R %d", n);
#define X(type, name, nr, nc) fprintf(vout, " %zu %zu", (size_t)(sizeof(type) * (nr) * (nc)), (size_t)_Alignof(type));
    MJDATA_ARENA_POINTERS_ISLAND
#undef X
  } else {
    fprintf(vout, "R 0");
  }
  fprintf(vout, "\n");
#undef MJ_M
#define MJ_M(n) n
#undef MJ_D
#define MJ_D(n) n
}

static void print_state(const mjModel* m, const mjData* d) {
  fprintf(vout, " %zu %zu %" PRIu64 " %d %d %d", d->parena, d->pstack, (uint64_t)d->maxuse_arena, d->ncon, d->nefc, d->nisland);
}

// the scene is built and forwarded once in the parent; every test works on its own copy-on-write copy
static mjModel* gm; static mjData* gd;
static int one_test(char site, long long avail) {
  mjModel* m = gm; mjData* d = mj_copyData(NULL, gm, gd);   // every test starts from the forwarded state
  fprintf(vout, "K %zu %zu %zu %zu %" PRIuPTR " %lld\n", sizeof(mjContact), (size_t)_Alignof(mjContact), sizeof(mjcPair),
          (size_t)_Alignof(mjcPair), P(d->arena), (long long)d->narena);
  // leave exactly `avail` free bytes above the arena pointer the site starts from
  size_t start = (site == 'E' || site == 'C') ? d->ncon * sizeof(mjContact) : d->parena;
  if ((long long)d->narena - (long long)start - avail < 0) { fprintf(stderr, "avail too large\n"); return 2; }
  d->pstack = (size_t)d->narena - start - (size_t)avail;
  print_reqs(m, d, site);
  fprintf(vout, "S"); print_state(m, d); print_ptrs(m, d); fprintf(vout, "\n");
  if (site == 'Y' || site == 'A') {
    // what the phases of mj_makeY / mj_makeAR request: sparse?, nv, nefc, nY, nA of the forwarded state
    fprintf(vout, "D %d %d %d %d %d\n", mj_isSparse(m), m->nv, d->nefc, (int)d->nY, (int)d->nA);
  }
  flush_out();   // the lines above survive a crash inside the site
  w_nviol = 0;
  int w0[mjNWARNING];
  for (int k = 0; k < mjNWARNING; k++) w0[k] = d->warning[k].number;
  volatile int ret = 0, kind = 0;
  mjContact con; memset(&con, 0, sizeof(con));
  if (d->ncon > 0) con = d->contact[0];
  con.efc_address = -1;   // a contact handed to mj_addContact is not yet part of any constraint set
  mjcPair pair; defaultPair(&pair, mjCPAIR_GEOM_GEOM);
  if (setjmp(jb) == 0) {
    switch (site) {
      case 'P': pushPairArena(d, &pair); break;
      case 'C': ret = mj_addContact(m, d, &con); break;
      case 'E': ret = arenaAllocEfc(m, d); break;
      case 'I': ret = arenaAllocIsland(m, d); break;
      case 'Y': mj_makeY(m, d, 0); break;
      case 'A': mj_makeAR(m, d); break;
      default: return 2;
    }
  } else {
    kind = 1;
  }
  fprintf(vout, "O %d %d", kind, ret); print_state(m, d);
  {
    // pointers without the counts
#undef MJ_M
#define MJ_M(n) m->n
#undef MJ_D
#define MJ_D(n) d->n
#define X(type, name, nr, nc) fprintf(vout, " %" PRIuPTR, P(d->name));
    MJDATA_ARENA_POINTERS_SOLVER
    MJDATA_ARENA_POINTERS_ISLAND
#undef X
#undef MJ_M
#define MJ_M(n) n
#undef MJ_D
#define MJ_D(n) n
  }
  int nw = 0, wk = 0; long long wi = 0;
  for (int k = 0; k < mjNWARNING; k++) if (d->warning[k].number != w0[k]) { nw += d->warning[k].number - w0[k]; wk = k; wi = d->warning[k].lastinfo; }
  // contacts whose efc_address does not address a row of the current constraint set
  int nstale = 0;
  for (int i = 0; i < d->ncon; i++) if (d->contact[i].efc_address >= d->nefc) nstale++;
  fprintf(vout, " %d %d %lld %d %ld %lld %lld %lld %lld %lld %lld\n", nw, wk, wi, nstale,
          (long)w_nviol, w_first[0], w_first[1], w_first[2], w_first[3], w_first[4], w_first[5]);
  if (site == 'Y') {
    if (mj_isSparse(m)) fprintf(vout, "P 4 %" PRIuPTR " %" PRIuPTR " %" PRIuPTR " %" PRIuPTR "\n", P(d->efc_Y_rownnz), P(d->efc_Y_rowadr), P(d->efc_Y), P(d->efc_Y_colind));
    else fprintf(vout, "P 1 %" PRIuPTR "\n", P(d->efc_Y));
  } else if (site == 'A') {
    fprintf(vout, "P 1 %" PRIuPTR "\n", P(d->efc_AR));
  }
  mj_deleteData(d);
  return 0;
}

int main(int argc, char** argv) {
  if (argc < 5) return 2;
  mju_user_error = on_error;
  mju_user_warning = on_warning;
  char err[1000] = "";
  gm = verif_scene(atoi(argv[1]), atoi(argv[2]), -1, atoi(argv[3]), atoi(argv[4]), argc > 5 ? atoi(argv[5]) : 0, err, sizeof(err));
  if (!gm) { fprintf(stderr, "compile: %s\n", err); return 2; }
  gd = mj_makeData(gm);
  mj_forward(gm, gd);
  // tests run in batches of up to 32 per child process; the child counts finished tests in shared memory so that
  // after a crash the parent prints X for the crashed test and resumes behind it
  volatile long* done = mmap(NULL, sizeof(long), PROT_READ | PROT_WRITE, MAP_SHARED | MAP_ANONYMOUS, -1, 0);
  if (done == MAP_FAILED) return 2;
  static char sites[1 << 16]; static long long avails[1 << 16]; long n = 0;
  char site[8];
  while (n < (1 << 16) && scanf("%7s %lld", site, &avails[n]) == 2) { sites[n] = site[0]; n++; }
  *done = 0;
  while (*done < n) {
    long first = *done;
    fflush(stdout);
    pid_t pid = fork();
    if (pid < 0) return 2;
    if (pid == 0) {
      for (long i = first; i < n && i < first + 32; i++) {
        vbuf = NULL; vlen = 0; vflushed = 0;
        vout = open_memstream(&vbuf, &vlen);
        int rc = one_test(sites[i], avails[i]);
        flush_out();
        fclose(vout);
        if (rc) _exit(rc);
        (*done)++;
      }
      _exit(0);
    }
    int status = 0;
    waitpid(pid, &status, 0);
    if (WIFSIGNALED(status)) { printf("X %d\n", WTERMSIG(status)); (*done)++; }
    else if (WEXITSTATUS(status)) return WEXITSTATUS(status);
  }
  return 0;
}
