// C13 driver: calls the real primitive colliders (mjc_PlaneSphere, mjc_SphereSphere, mjc_PlaneCapsule,
// mjc_SphereCapsule, mjc_CapsuleCapsule), mju_makeFrame, mj_collision and mj_geomDistance of the
// working tree.  All doubles are read and written as hex floats.
//
// stdin commands (one per line):
//   PAIR t1 t2 pos1[3] mat1[9] size1[3] pos2[3] mat2[9] size2[3] margin
//        two-geom model (built once per type pair through mjSpec); poses are written into
//        mjData.geom_xpos/geom_xmat, sizes into mjModel.geom_size; calls mjCOLLISIONFUNC-entry
//        mjc_<T1><T2> directly.  -> "n  (dist pos[3] normal[3] tangent[3])*n  gd12 ft12[6] gd21 ft21[6]"
//        (gd = mj_geomDistance(m, d, 0, 1 / 1, 0, distmax = margin, fromto))
//   FRAME f[9]                                  -> "f'[9]" after mju_makeFrame, or "ERR"
//   WORLD t1 size1[3] pos1[3] quat1[4] t2 size2[3] pos2[3] quat2[4] margin1 gap1 margin2 gap2 distmax
//        geom1 on the world body, geom2 on a body with a free joint; mj_kinematics + mj_collision.
//        -> "ncon m12 gd12 ft12[6] gd21 ft21[6] (dist pos[3] frame[9] includemargin g1 g2)*ncon"
//           m12 = detection distance margin+gap of the pair, gd = mj_geomDistance(.., distmax, fromto)
//   CCD n   set mjOption.ccd_iterations = n for the WORLD models built afterwards (n <= 0: default); no output
//   SCENE seed feat nbody distmax
//        mjgen scene, random state, mj_kinematics + mj_collision
//        -> "SCENE ncon" then per contact "C t1 t2 g1 g2 dist pos[3] frame[9] includemargin detect gd12 ft12[6] gd21 ft21[6]"
//           then "END"
#include <math.h>
#include <stdio.h>
#include <stdlib.h>
#include <string.h>

#include <mujoco/mujoco.h>
#include "mjgen.h"
#include "engine/engine_collision_primitive.h"
#include "engine/engine_collision_driver.h"
#include "engine/engine_util_spatial.h"

static int rd(double* x, int n) {
  for (int i = 0; i < n; i++) {
    char tok[128];
    if (scanf("%127s", tok) != 1) return 0;
    if (!strcmp(tok, "nan")) x[i] = NAN;
    else if (!strcmp(tok, "inf")) x[i] = INFINITY;
    else if (!strcmp(tok, "-inf")) x[i] = -INFINITY;
    else x[i] = strtod(tok, NULL);
  }
  return 1;
}
static void pr(const double* x, int n) { for (int i = 0; i < n; i++) printf(" %a", x[i]); }

// ---------------------------------------------------------------- PAIR: cached two-geom models
static mjModel* pair_m[mjNGEOMTYPES][mjNGEOMTYPES];
static mjData* pair_d[mjNGEOMTYPES][mjNGEOMTYPES];

static void set_default_size(mjsGeom* g, int type) {
  g->type = (mjtGeom)type;
  g->size[0] = 0.1; g->size[1] = 0.2; g->size[2] = 0.3;
  if (type == mjGEOM_PLANE) { g->size[0] = g->size[1] = 1; g->size[2] = 0.1; }
}

static int get_pair(int t1, int t2) {
  if (pair_m[t1][t2]) return 1;
  mjSpec* s = mj_makeSpec();
  mjsBody* world = mjs_findBody(s, "world");
  mjsGeom* g1 = mjs_addGeom(world, NULL); set_default_size(g1, t1);
  mjsBody* b = mjs_addBody(world, NULL);
  mjsJoint* j = mjs_addJoint(b, NULL); j->type = mjJNT_FREE;
  mjsGeom* g2 = mjs_addGeom(b, NULL); set_default_size(g2, t2);
  mjModel* m = mj_compile(s, NULL);
  if (!m) { fprintf(stderr, "c13: compile failed: %s\n", mjs_getError(s)); mj_deleteSpec(s); return 0; }
  mj_deleteSpec(s);
  pair_m[t1][t2] = m;
  pair_d[t1][t2] = mj_makeData(m);
  return 1;
}

static void run_pair(void) {
  int t1, t2; double a[31];
  if (scanf("%d %d", &t1, &t2) != 2 || !rd(a, 31)) exit(2);
  if (t1 < 0 || t2 < 0 || t1 >= mjNGEOMTYPES || t2 >= mjNGEOMTYPES || !get_pair(t1, t2)) { printf("ERR\n"); return; }
  mjModel* m = pair_m[t1][t2]; mjData* d = pair_d[t1][t2];
  memcpy(d->geom_xpos, a, 3 * sizeof(double));
  memcpy(d->geom_xmat, a + 3, 9 * sizeof(double));
  memcpy(m->geom_size, a + 12, 3 * sizeof(double));
  memcpy(d->geom_xpos + 3, a + 15, 3 * sizeof(double));
  memcpy(d->geom_xmat + 9, a + 18, 9 * sizeof(double));
  memcpy(m->geom_size + 3, a + 27, 3 * sizeof(double));
  double margin = a[30];
  mjfCollision f = 0;
  if (t1 == mjGEOM_PLANE && t2 == mjGEOM_SPHERE) f = mjc_PlaneSphere;
  else if (t1 == mjGEOM_PLANE && t2 == mjGEOM_CAPSULE) f = mjc_PlaneCapsule;
  else if (t1 == mjGEOM_SPHERE && t2 == mjGEOM_SPHERE) f = mjc_SphereSphere;
  else if (t1 == mjGEOM_SPHERE && t2 == mjGEOM_CAPSULE) f = mjc_SphereCapsule;
  else if (t1 == mjGEOM_CAPSULE && t2 == mjGEOM_CAPSULE) f = mjc_CapsuleCapsule;
  else if (t1 == mjGEOM_PLANE && t2 == mjGEOM_CYLINDER) f = mjc_PlaneCylinder;
  else if (t1 == mjGEOM_SPHERE && t2 == mjGEOM_CYLINDER) f = mjc_SphereCylinder;
  if (!f || mjCOLLISIONFUNC[t1][t2] != f) { printf("ERR\n"); return; }   // the table entry must be this function
  mjPreContact con[mjMAXCONPAIR];
  memset(con, 0, sizeof(con));
  int n = 0;
  if (MJG_TRY) { n = f(m, d, con, 0, 1, margin); MJG_END; } else { printf("ERR\n"); return; }
  printf("%d", n);
  for (int i = 0; i < n && i < mjMAXCONPAIR; i++) { pr(&con[i].dist, 1); pr(con[i].pos, 3); pr(con[i].normal, 3); pr(con[i].tangent, 3); }
  // mj_geomDistance in both orders, distmax = margin
  double ft12[6], ft21[6], gd12 = 0, gd21 = 0;
  if (MJG_TRY) { gd12 = mj_geomDistance(m, d, 0, 1, margin, ft12); gd21 = mj_geomDistance(m, d, 1, 0, margin, ft21); MJG_END; }
  else { printf(" ERR\n"); return; }
  pr(&gd12, 1); pr(ft12, 6); pr(&gd21, 1); pr(ft21, 6);
  printf("\n");
}

static void run_frame(void) {
  double f[9];
  if (!rd(f, 9)) exit(2);
  if (MJG_TRY) { mju_makeFrame(f); MJG_END; printf("OK"); pr(f, 9); printf("\n"); } else printf("ERR\n");
}

// ---------------------------------------------------------------- WORLD: full pipeline on two geoms
static int ccd_iter_override = 0;   // "CCD n": mjOption.ccd_iterations of subsequently built WORLD models (0: default)

static void print_contacts(const mjModel* m, mjData* d) {
  for (int i = 0; i < d->ncon; i++) {
    mjContact* c = d->contact + i;
    pr(&c->dist, 1); pr(c->pos, 3); pr(c->frame, 9); pr(&c->includemargin, 1);
    printf(" %d %d", c->geom[0], c->geom[1]);
  }
}

static void run_world(void) {
  int t1, t2; double s1[3], p1[3], q1[4], s2[3], p2[3], q2[4], mg[5];
  if (scanf("%d", &t1) != 1 || !rd(s1, 3) || !rd(p1, 3) || !rd(q1, 4)) exit(2);
  if (scanf("%d", &t2) != 1 || !rd(s2, 3) || !rd(p2, 3) || !rd(q2, 4) || !rd(mg, 5)) exit(2);
  mjSpec* s = mj_makeSpec();
  mjsBody* world = mjs_findBody(s, "world");
  mjsGeom* g1 = mjs_addGeom(world, NULL); g1->type = (mjtGeom)t1;
  memcpy(g1->size, s1, sizeof(s1)); memcpy(g1->pos, p1, sizeof(p1)); memcpy(g1->quat, q1, sizeof(q1));
  g1->margin = mg[0]; g1->gap = mg[1];
  mjsBody* b = mjs_addBody(world, NULL);
  memcpy(b->pos, p2, sizeof(p2)); memcpy(b->quat, q2, sizeof(q2));
  mjsJoint* j = mjs_addJoint(b, NULL); j->type = mjJNT_FREE;
  mjsGeom* g2 = mjs_addGeom(b, NULL); g2->type = (mjtGeom)t2;
  memcpy(g2->size, s2, sizeof(s2)); g2->margin = mg[2]; g2->gap = mg[3];
  mjModel* m = mj_compile(s, NULL);
  if (!m) { printf("ERR %s\n", mjs_getError(s)); mj_deleteSpec(s); return; }
  mjData* d = mj_makeData(m);
  int ok = 0;
  if (ccd_iter_override > 0) m->opt.ccd_iterations = ccd_iter_override;
  if (MJG_TRY) {
    mj_kinematics(m, d); mj_comPos(m, d); mj_collision(m, d);
    double ft12[6], ft21[6];
    double gd12 = mj_geomDistance(m, d, 0, 1, mg[4], ft12);
    double gd21 = mj_geomDistance(m, d, 1, 0, mg[4], ft21);
    double det = (m->geom_margin[0] + m->geom_margin[1]) + (m->geom_gap[0] + m->geom_gap[1]);
    printf("%d", d->ncon); pr(&det, 1); pr(&gd12, 1); pr(ft12, 6); pr(&gd21, 1); pr(ft21, 6);
    print_contacts(m, d);
    printf("\n");
    ok = 1;
    MJG_END;
  }
  if (!ok) printf("ERR %s\n", mjg_last_error);
  mj_deleteData(d); mj_deleteModel(m); mj_deleteSpec(s);
}

// ---------------------------------------------------------------- SCENE: mjgen scenes
static void run_scene(void) {
  unsigned long long seed; unsigned feat; int nbody; double distmax;
  if (scanf("%llu %u %d", &seed, &feat, &nbody) != 3 || !rd(&distmax, 1)) exit(2);
  mjModel* m = mjg_model(seed, feat, nbody, NULL);
  if (!m) { printf("SCENE -1\nEND\n"); return; }
  mjData* d = mj_makeData(m);
  mjg_rng R = { seed * 0x9E3779B97F4A7C15ULL + 77 };
  mjg_random_state(m, d, &R, 0.0);
  int ok = 0;
  if (MJG_TRY) {
    mj_kinematics(m, d); mj_comPos(m, d); mj_collision(m, d);
    printf("SCENE %d\n", d->ncon);
    for (int i = 0; i < d->ncon; i++) {
      mjContact* c = d->contact + i;
      int g1 = c->geom[0], g2 = c->geom[1];
      if (g1 < 0 || g2 < 0) continue;
      double det = (m->geom_margin[g1] + m->geom_margin[g2]) + (m->geom_gap[g1] + m->geom_gap[g2]);
      double ft12[6], ft21[6];
      double gd12 = mj_geomDistance(m, d, g1, g2, distmax, ft12);
      double gd21 = mj_geomDistance(m, d, g2, g1, distmax, ft21);
      printf("C %d %d %d %d", m->geom_type[g1], m->geom_type[g2], g1, g2);
      pr(&c->dist, 1); pr(c->pos, 3); pr(c->frame, 9); pr(&c->includemargin, 1); pr(&det, 1);
      pr(&gd12, 1); pr(ft12, 6); pr(&gd21, 1); pr(ft21, 6);
      // geometry of the two geoms so that the harness can recompute analytic distances
      pr(d->geom_xpos + 3 * g1, 3); pr(d->geom_xmat + 9 * g1, 9); pr(m->geom_size + 3 * g1, 3);
      pr(d->geom_xpos + 3 * g2, 3); pr(d->geom_xmat + 9 * g2, 9); pr(m->geom_size + 3 * g2, 3);
      printf("\n");
    }
    ok = 1;
    MJG_END;
  }
  if (!ok) printf("SCENE -2 %s\n", mjg_last_error);
  printf("END\n");
  mj_deleteData(d); mj_deleteModel(m);
}

int main(void) {
  mjg_install_handlers();
  char cmd[32];
  while (scanf("%31s", cmd) == 1) {
    if (!strcmp(cmd, "PAIR")) run_pair();
    else if (!strcmp(cmd, "FRAME")) run_frame();
    else if (!strcmp(cmd, "WORLD")) run_world();
    else if (!strcmp(cmd, "SCENE")) run_scene();
    else if (!strcmp(cmd, "CCD")) { if (scanf("%d", &ccd_iter_override) != 1) return 2; }
    else { fprintf(stderr, "c13: unknown command %s\n", cmd); return 2; }
  }
  return 0;
}
