// smoke test of mjgen.h: builds models for seeds given as args range, steps them, prints a summary
#include "mjgen.h"
int main(int argc, char** argv) {
  int n = argc > 1 ? atoi(argv[1]) : 50;
  mjg_install_handlers();
  int fail = 0, tot_ncon = 0, tot_nefc = 0, bad = 0;
  for (int seed = 1; seed <= n; seed++) {
    unsigned feat = (seed % 4 == 0) ? MJG_ALL : (unsigned)(mjg_next(&(mjg_rng){seed}) & MJG_ALL);
    int nb = 1 + seed % 7;
    mjModel* m = mjg_model(seed, feat, nb, NULL);
    if (!m) { fail++; continue; }
    mjData* d = mj_makeData(m);
    mjg_rng r = {seed * 77};
    mjg_random_state(m, d, &r, 1.0);
    if (MJG_TRY) {
      for (int i = 0; i < 20; i++) mj_step(m, d);
      MJG_END;
    } else { printf("seed %d error %s\n", seed, mjg_last_error); bad++; }
    tot_ncon += d->ncon; tot_nefc += d->nefc;
    if (seed <= 5) printf("seed=%d nq=%d nv=%d nu=%d na=%d neq=%d ntendon=%d nsensor=%d ncon=%d nefc=%d time=%g\n", seed, m->nq, m->nv, m->nu, m->na, m->neq, m->ntendon, m->nsensor, d->ncon, d->nefc, d->time);
    mj_deleteData(d); mj_deleteModel(m);
  }
  printf("models=%d compile_fail=%d errors=%d warnings=%d tot_ncon=%d tot_nefc=%d\n", n, fail, bad, mjg_nwarning, tot_ncon, tot_nefc);
  return 0;
}
