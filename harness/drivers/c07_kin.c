// C07 driver: forward kinematics, Jacobians and configuration-space maps of the working tree on
// generated models (mjgen.h, plus fixed cameras added here).  One request per stdin line; the reply is
// a block of lines "name v v v ..." (ints in decimal, doubles as C99 hex floats) closed by "END".
//   K seed feat nbody rep   correspondence data: tree parameters of the compiled mjModel, qpos, the
//                           outputs of mj_kinematics / mj_comPos / mj_camlight, mj_jac for attached
//                           points, mj_integratePos / mj_differentiatePos on a random velocity
//   J seed feat nbody rep   oracle data: every Jacobian kind at a random state, object velocities,
//                           mj_jacDot, and the frames recomputed after mj_integratePos perturbations
//                           of +-eps along every dof and along qvel
//   E seed feat nbody rep   constraint rows: efc_J (dense) and efc_pos at q and at q +- eps e_k
//   S seed rep              'simple' bodies on static mounts: constraint rows, mj_jacDifPair / mj_jacSum sparse and dense, finite differences
//   A k                     fixed corpus: constraint rows of every kind below quaternion joints (qpos address != dof address)
//   Q k                     fixed corpus: joint / tendon equalities with coupling polynomials (coefficient pattern k)
//   R                       a fixed tendon that lists the same joint twice must be rejected by mj_compile
#include "mjgen.h"
#include "engine/engine_core_util.h"   // mj_jacSparse, mj_bodyChain are not part of the public header

static void pd(const char* name, const mjtNum* v, int n) {
  printf("%s", name); for (int i = 0; i < n; i++) printf(" %a", (double)v[i]); printf("\n");
}
static void pi(const char* name, const int* v, int n) {
  printf("%s", name); for (int i = 0; i < n; i++) printf(" %d", v[i]); printf("\n");
}
static void pb(const char* name, const mjtByte* v, int n) {
  printf("%s", name); for (int i = 0; i < n; i++) printf(" %d", (int)v[i]); printf("\n");
}
static void p1(const char* name, int v) { printf("%s %d\n", name, v); }
static void pdk(const char* base, int k, const mjtNum* v, int n) { char nm[64]; snprintf(nm, sizeof(nm), "%s_%d", base, k); pd(nm, v, n); }

static mjModel* M = NULL; static unsigned long long cs = 0; static unsigned cf = 0; static int cn = -1;
static mjModel* get_model(unsigned long long seed, unsigned feat, int nbody) {
  if (M && cs == seed && cf == feat && cn == nbody) return M;
  if (M) { mj_deleteModel(M); M = NULL; }
  mjSpec* s = mjg_spec(seed, feat, nbody);
  // fixed cameras on the first and the last moving body
  mjg_rng R = { seed * 77 + 1 };
  for (int k = 0; k < 2; k++) {
    char nm[16]; snprintf(nm, sizeof(nm), "b%d", k == 0 ? 0 : nbody - 1);
    mjsBody* b = mjs_findBody(s, nm);
    if (!b || (k == 1 && nbody == 1)) continue;
    mjsCamera* c = mjs_addCamera(b, NULL);
    for (int i = 0; i < 3; i++) c->pos[i] = mjg_range(&R, -0.2, 0.2);
    mjg_quat(&R, c->quat);
  }
  // C07_FIXED (bit 20 of feat, ignored by mjgen): jointless bodies, so that body id, weld id and root id differ:
  // fixed links under moving bodies, chains of fixed links, jointed bodies under fixed links, a jointless body with a
  // mass-less second geom, static bodies welded to the world; every one carries geoms and, mostly, sites / cameras
  // (which also breaks the site-id = body-id - 1 pattern of mjgen)
  if (feat & (1u << 20)) {
    mjsBody* pool[64]; int npool = 0;
    for (int b = 0; b < nbody && npool < 32; b++) { char nm[16]; snprintf(nm, sizeof(nm), "b%d", b); mjsBody* bb = mjs_findBody(s, nm); if (bb) pool[npool++] = bb; }
    int nextra = 2 + mjg_int(&R, 4);
    for (int k = 0; k < nextra && npool < 60; k++) {
      int toworld = mjg_chance(&R, 0.15);
      mjsBody* parent = toworld ? mjs_findBody(s, "world") : pool[npool - 1 - mjg_int(&R, npool > 3 ? 3 : npool)];   // prefer recent ones: chains
      if (k == 0 && npool > 0) parent = pool[mjg_int(&R, npool)];
      mjsBody* fb = mjs_addBody(parent, NULL);
      char nm[16]; snprintf(nm, sizeof(nm), "f%d", k); mjs_setName(fb->element, nm);
      for (int i = 0; i < 3; i++) fb->pos[i] = mjg_range(&R, -0.3, 0.3);
      if (mjg_chance(&R, 0.7)) mjg_quat(&R, fb->quat);
      int jointed = !toworld && k > 0 && mjg_chance(&R, 0.3);       // a moving link below (possibly) fixed links
      if (jointed) {
        mjsJoint* j = mjs_addJoint(fb, NULL); snprintf(nm, sizeof(nm), "fj%d", k); mjs_setName(j->element, nm);
        int t = mjg_int(&R, 3); j->type = t == 0 ? mjJNT_HINGE : t == 1 ? mjJNT_SLIDE : mjJNT_BALL;
        for (int i = 0; i < 3; i++) { j->pos[i] = mjg_range(&R, -0.1, 0.1); j->axis[i] = mjg_range(&R, -1, 1); }
        if (fabs(j->axis[0]) + fabs(j->axis[1]) + fabs(j->axis[2]) < 0.1) j->axis[2] = 1;
      }
      int ng = 1 + mjg_int(&R, 2);
      for (int g = 0; g < ng; g++) {
        mjsGeom* gg = mjs_addGeom(fb, NULL);
        gg->type = mjg_chance(&R, 0.5) ? mjGEOM_BOX : mjGEOM_SPHERE;
        for (int i = 0; i < 3; i++) { gg->size[i] = mjg_range(&R, 0.03, 0.1); gg->pos[i] = mjg_range(&R, -0.15, 0.15); }
        if (mjg_chance(&R, 0.6)) mjg_quat(&R, gg->quat);
        gg->density = mjg_range(&R, 200, 2000); gg->contype = 0; gg->conaffinity = 0;
      }
      int nst = mjg_int(&R, 3);
      for (int q = 0; q < nst; q++) {
        mjsSite* st = mjs_addSite(fb, NULL);
        for (int i = 0; i < 3; i++) st->pos[i] = mjg_range(&R, -0.15, 0.15);
        if (mjg_chance(&R, 0.6)) mjg_quat(&R, st->quat);
      }
      if (mjg_chance(&R, 0.5)) {
        mjsCamera* c = mjs_addCamera(fb, NULL);
        for (int i = 0; i < 3; i++) c->pos[i] = mjg_range(&R, -0.2, 0.2);
        mjg_quat(&R, c->quat);
      }
      if (!toworld) pool[npool++] = fb;
    }
  }
  // tendon equalities (mjgen has none): t0 alone, t0 coupled to t1, t1 coupled to t0
  if ((feat & MJG_EQUALITY) && (feat & MJG_TENDON) && mjs_findElement(s, mjOBJ_TENDON, "t0")) {
    int two = mjs_findElement(s, mjOBJ_TENDON, "t1") != NULL;
    for (int k = 0; k < (two ? 3 : 1); k++) {
      mjsEquality* e = mjs_addEquality(s, NULL); char nm[16]; snprintf(nm, sizeof(nm), "et%d", k); mjs_setName(e->element, nm);
      e->type = mjEQ_TENDON; e->objtype = mjOBJ_TENDON;
      mjs_setString(e->name1, k == 2 ? "t1" : "t0");
      if (k >= 1) mjs_setString(e->name2, k == 2 ? "t0" : "t1");
      e->data[0] = mjg_range(&R, -0.1, 0.1); e->data[1] = 1;
      e->active = 1;
    }
  }
  M = mj_compile(s, NULL);
  if (!M) fprintf(stderr, "c07: compile failed: %s\n", mjs_getError(s));
  mj_deleteSpec(s);
  cs = seed; cf = feat; cn = nbody;
  return M;
}

static void position_stage(const mjModel* m, mjData* d) { mj_kinematics(m, d); mj_comPos(m, d); mj_camlight(m, d); }

static void dump_model(const mjModel* m, const mjData* d) {
  p1("nbody", m->nbody); p1("njnt", m->njnt); p1("nq", m->nq); p1("nv", m->nv);
  p1("ngeom", m->ngeom); p1("nsite", m->nsite); p1("ncam", m->ncam); p1("nmocap", m->nmocap);
  pi("body_parentid", m->body_parentid, m->nbody); pd("body_pos", m->body_pos, 3 * m->nbody); pd("body_quat", m->body_quat, 4 * m->nbody);
  pi("body_mocapid", m->body_mocapid, m->nbody); pd("mocap_pos", d->mocap_pos, 3 * m->nmocap); pd("mocap_quat", d->mocap_quat, 4 * m->nmocap);
  pi("body_jntadr", m->body_jntadr, m->nbody); pi("body_jntnum", m->body_jntnum, m->nbody);
  pd("body_ipos", m->body_ipos, 3 * m->nbody); pd("body_iquat", m->body_iquat, 4 * m->nbody); pb("body_sameframe", m->body_sameframe, m->nbody);
  pi("body_rootid", m->body_rootid, m->nbody); pi("body_weldid", m->body_weldid, m->nbody);
  pi("body_dofadr", m->body_dofadr, m->nbody); pi("body_dofnum", m->body_dofnum, m->nbody);
  pd("body_mass", m->body_mass, m->nbody); pd("body_subtreemass", m->body_subtreemass, m->nbody);
  pi("jnt_type", m->jnt_type, m->njnt); pd("jnt_pos", m->jnt_pos, 3 * m->njnt); pd("jnt_axis", m->jnt_axis, 3 * m->njnt);
  pi("jnt_qposadr", m->jnt_qposadr, m->njnt); pi("jnt_dofadr", m->jnt_dofadr, m->njnt); pi("jnt_bodyid", m->jnt_bodyid, m->njnt);
  pd("qpos0", m->qpos0, m->nq); pi("dof_parentid", m->dof_parentid, m->nv); pi("dof_bodyid", m->dof_bodyid, m->nv); pi("dof_jntid", m->dof_jntid, m->nv);
  pi("geom_bodyid", m->geom_bodyid, m->ngeom); pd("geom_pos", m->geom_pos, 3 * m->ngeom); pd("geom_quat", m->geom_quat, 4 * m->ngeom); pb("geom_sameframe", m->geom_sameframe, m->ngeom);
  pi("site_bodyid", m->site_bodyid, m->nsite); pd("site_pos", m->site_pos, 3 * m->nsite); pd("site_quat", m->site_quat, 4 * m->nsite); pb("site_sameframe", m->site_sameframe, m->nsite);
  pi("cam_bodyid", m->cam_bodyid, m->ncam); pd("cam_pos", m->cam_pos, 3 * m->ncam); pd("cam_quat", m->cam_quat, 4 * m->ncam); pi("cam_mode", m->cam_mode, m->ncam);
}

static void dump_frames(const char* pre, const mjModel* m, const mjData* d) {
  char nm[64];
#define PF(field, n) snprintf(nm, sizeof(nm), "%s%s", pre, #field); pd(nm, d->field, (n));
  PF(xpos, 3 * m->nbody) PF(xquat, 4 * m->nbody) PF(xmat, 9 * m->nbody) PF(xipos, 3 * m->nbody) PF(ximat, 9 * m->nbody)
  PF(xanchor, 3 * m->njnt) PF(xaxis, 3 * m->njnt) PF(geom_xpos, 3 * m->ngeom) PF(geom_xmat, 9 * m->ngeom)
  PF(site_xpos, 3 * m->nsite) PF(site_xmat, 9 * m->nsite) PF(cam_xpos, 3 * m->ncam) PF(cam_xmat, 9 * m->ncam)
  PF(subtree_com, 3 * m->nbody)
#undef PF
}

// state used by K: rep 0 = the reference configuration (zero joint angles: identity arms), others random;
// some repetitions carry unnormalised / nearly-unit ball and free quaternions and mocap quaternions
static void k_state(const mjModel* m, mjData* d, unsigned long long seed, int rep) {
  mjg_rng r = { seed * 1000003ULL + (unsigned long long)rep * 7919 + 17 };
  mj_resetData(m, d);
  if (rep == 0) return;
  mjg_random_state(m, d, &r, 1.0);
  memset(d->qfrc_applied, 0, sizeof(mjtNum) * m->nv); memset(d->xfrc_applied, 0, sizeof(mjtNum) * 6 * m->nbody);
  for (int j = 0; j < m->njnt; j++) {
    int t = m->jnt_type[j];
    if (t == mjJNT_FREE || t == mjJNT_BALL) {
      int pa = m->jnt_qposadr[j] + (t == mjJNT_FREE ? 3 : 0);
      int c = (rep % 3 == 2) ? mjg_int(&r, 4) : 9;
      if (c == 0) for (int i = 0; i < 4; i++) d->qpos[pa + i] *= 2.5;
      else if (c == 1) d->qpos[pa] *= 1 + 3e-16;
      else if (c == 2) for (int i = 0; i < 4; i++) d->qpos[pa + i] *= 1e-3;
    } else if (rep % 4 == 1 && mjg_chance(&r, 0.3)) d->qpos[m->jnt_qposadr[j]] = m->qpos0[m->jnt_qposadr[j]];   // exactly zero angle
    else if (rep % 4 == 3 && mjg_chance(&r, 0.3)) d->qpos[m->jnt_qposadr[j]] += mjg_range(&r, -7, 7);            // beyond one turn
  }
  for (int i = 0; i < m->nmocap; i++) {
    mjtNum q[4]; mjg_quat(&r, q);
    mjtNum s = (rep % 3 == 2) ? 1.7 : 1.0;
    for (int k = 0; k < 4; k++) d->mocap_quat[4 * i + k] = q[k] * s;
  }
}

// constraint rows: efc_J (dense) and efc_pos at the current qpos and at qpos +- eps e_k
static void efc_block(mjModel* m, mjData* d) {
  int nv = m->nv, nq = m->nq;
  mjtNum* q0 = (mjtNum*)calloc(nq + 1, sizeof(mjtNum)); mjtNum* dv = (mjtNum*)calloc(nv + 1, sizeof(mjtNum));
  int savej = m->opt.jacobian; m->opt.jacobian = mjJAC_DENSE;
  mj_fwdPosition(m, d);   // position stage only: the rows are built by mj_makeConstraint, the solver is not needed
  p1("nv", nv); p1("nefc", d->nefc); p1("ncon", d->ncon);
  pi("efc_type", d->efc_type, d->nefc); pi("efc_id", d->efc_id, d->nefc);
  pd("efc_pos", d->efc_pos, d->nefc); pd("efc_margin", d->efc_margin, d->nefc); pd("efc_J", d->efc_J, d->nefc * nv);
  pi("eq_type", m->eq_type, m->neq); pi("eq_obj1id", m->eq_obj1id, m->neq); pi("eq_obj2id", m->eq_obj2id, m->neq);
  pd("eq_data", m->eq_data, mjNEQDATA * m->neq); p1("neqdata", mjNEQDATA);
  pi("jnt_qposadr", m->jnt_qposadr, m->njnt); pi("jnt_dofadr", m->jnt_dofadr, m->njnt); pd("qpos", d->qpos, nq); pd("qpos0", m->qpos0, nq);
  pd("ten_length", d->ten_length, m->ntendon); pd("tendon_length0", m->tendon_length0, m->ntendon);
  pi("jnt_type", m->jnt_type, m->njnt); pi("dof_jntid", m->dof_jntid, nv); p1("cone", m->opt.cone); pd("jnt_range", m->jnt_range, 2 * m->njnt);
  { int* ci = (int*)calloc(4 * d->ncon + 4, sizeof(int));
    for (int c = 0; c < d->ncon; c++) { ci[4*c] = m->geom_type[d->contact[c].geom[0]]; ci[4*c+1] = m->geom_type[d->contact[c].geom[1]]; ci[4*c+2] = d->contact[c].dim; ci[4*c+3] = d->contact[c].efc_address; }
    pi("contact_info", ci, 4 * d->ncon); free(ci); }
  { // dense copy of ten_J
    mjtNum* tj = (mjtNum*)calloc((size_t)m->ntendon * nv + 1, sizeof(mjtNum));
    for (int t = 0; t < m->ntendon; t++) for (int k = 0; k < m->ten_J_rownnz[t]; k++)
      tj[t * nv + m->ten_J_colind[m->ten_J_rowadr[t] + k]] += d->ten_J[m->ten_J_rowadr[t] + k];
    pd("ten_J", tj, m->ntendon * nv); free(tj);
  }
  memcpy(q0, d->qpos, sizeof(mjtNum) * nq);
  { // the same rows with the sparse constraint Jacobian, densified here
    int nefc_dense = d->nefc;
    m->opt.jacobian = mjJAC_SPARSE;
    mj_fwdPosition(m, d);   // position stage only: the rows are built by mj_makeConstraint, the solver is not needed
    p1("nefc_sparse", d->nefc);
    mjtNum* js = (mjtNum*)calloc((size_t)d->nefc * nv + 1, sizeof(mjtNum));
    for (int r = 0; r < d->nefc; r++) for (int k = 0; k < d->efc_J_rownnz[r]; k++)
      js[r * nv + d->efc_J_colind[d->efc_J_rowadr[r] + k]] += d->efc_J[d->efc_J_rowadr[r] + k];
    pd("efc_Jsp", js, d->nefc * nv); pi("sp_efc_type", d->efc_type, d->nefc); pi("sp_efc_id", d->efc_id, d->nefc);
    free(js); (void)nefc_dense;
    m->opt.jacobian = mjJAC_DENSE;
  }
  mjtNum eps = 1e-6; pd("eps", &eps, 1);
  for (int k = 0; k < nv; k++) for (int sg = 0; sg < 2; sg++) {
    for (int i = 0; i < nv; i++) dv[i] = (i == k ? 1.0 : 0.0);
    memcpy(d->qpos, q0, sizeof(mjtNum) * nq);
    mj_integratePos(m, d->qpos, dv, sg ? -eps : eps);
    mj_fwdPosition(m, d);   // position stage only: the rows are built by mj_makeConstraint, the solver is not needed
    char nm[64];
    snprintf(nm, sizeof(nm), "%c%d_efc_type", sg ? 'M' : 'P', k); pi(nm, d->efc_type, d->nefc);
    snprintf(nm, sizeof(nm), "%c%d_efc_id", sg ? 'M' : 'P', k); pi(nm, d->efc_id, d->nefc);
    snprintf(nm, sizeof(nm), "%c%d_efc_pos", sg ? 'M' : 'P', k); pd(nm, d->efc_pos, d->nefc);
    snprintf(nm, sizeof(nm), "%c%d_ten_length", sg ? 'M' : 'P', k); pd(nm, d->ten_length, m->ntendon);
  }
  m->opt.jacobian = savej;
  free(q0); free(dv);
}

// support for the repaired defect "fixed tendon listing a joint twice": the compiler must reject such a tendon;
// if it is accepted the constraint-row data of the model are dumped so that the oracle can judge the rows
static void repeated_joint_tendon(void) {
  mjSpec* s = mj_makeSpec();
  mjsBody* b = mjs_addBody(mjs_findBody(s, "world"), NULL);
  mjsJoint* j = mjs_addJoint(b, NULL); j->type = mjJNT_HINGE; mjs_setName(j->element, "j0");
  mjsGeom* g = mjs_addGeom(b, NULL); g->type = mjGEOM_SPHERE; g->size[0] = 0.1; g->pos[0] = 0.3;
  mjsTendon* t = mjs_addTendon(s, NULL); mjs_setName(t->element, "t0");
  mjs_wrapJoint(t, "j0", 1.0); mjs_wrapJoint(t, "j0", 2.0);
  t->limited = mjLIMITED_TRUE; t->range[0] = -0.1; t->range[1] = 0.1;
  mjModel* m = mj_compile(s, NULL);
  p1("rejected", m ? 0 : 1);
  if (m) {
    mjData* d = mj_makeData(m);
    d->qpos[0] = 0.5;
    if (MJG_TRY) { efc_block(m, d); MJG_END; } else printf("ERR 2 %s\n", mjg_last_error);
    mj_deleteData(d); mj_deleteModel(m);
  }
  mj_deleteSpec(s);
}

// fixed corpus for coupling polynomials: a 4-joint arm (hinge, slide, hinge, slide), two fixed tendons, joint and tendon
// equalities with one and two objects; variant k selects which of the coefficients c1..c4 are non-zero
static void eq_poly_corpus(int k) {
  static const unsigned masks[6] = { 0x1F, 0x11, 0x15, 0x09, 0x03, 0x1E };
  unsigned mask = masks[k % 6];
  mjSpec* s = mj_makeSpec();
  mjsBody* parent = mjs_findBody(s, "world");
  for (int i = 0; i < 4; i++) {
    mjsBody* b = mjs_addBody(parent, NULL);
    b->pos[0] = 0.2; b->pos[2] = 0.1 * i;
    mjsJoint* j = mjs_addJoint(b, NULL); char nm[16]; snprintf(nm, sizeof(nm), "q%d", i); mjs_setName(j->element, nm);
    j->type = (i % 2) ? mjJNT_SLIDE : mjJNT_HINGE; j->axis[0] = 0.3; j->axis[1] = (i % 2) ? 1 : -0.5; j->axis[2] = 1;
    if (i == 1) j->ref = 0.2;
    mjsGeom* g = mjs_addGeom(b, NULL); g->type = mjGEOM_SPHERE; g->size[0] = 0.05; g->contype = 0; g->conaffinity = 0;
    parent = b;
  }
  mjsTendon* t0 = mjs_addTendon(s, NULL); mjs_setName(t0->element, "t0"); mjs_wrapJoint(t0, "q0", 0.7); mjs_wrapJoint(t0, "q1", -1.3);
  mjsTendon* t1 = mjs_addTendon(s, NULL); mjs_setName(t1->element, "t1"); mjs_wrapJoint(t1, "q2", 1.1); mjs_wrapJoint(t1, "q3", 0.4); mjs_wrapJoint(t1, "q0", -0.6);
  const char* pairs[6][3] = { {"J", "q0", "q2"}, {"J", "q3", "q1"}, {"J", "q1", NULL}, {"T", "t0", "t1"}, {"T", "t1", "t0"}, {"T", "t1", NULL} };
  for (int e = 0; e < 6; e++) {
    mjsEquality* q = mjs_addEquality(s, NULL);
    q->type = pairs[e][0][0] == 'J' ? mjEQ_JOINT : mjEQ_TENDON; q->objtype = pairs[e][0][0] == 'J' ? mjOBJ_JOINT : mjOBJ_TENDON;
    mjs_setString(q->name1, pairs[e][1]); if (pairs[e][2]) mjs_setString(q->name2, pairs[e][2]);
    static const double c[5] = { 0.05, -0.8, 0.6, 1.2, -0.9 };
    for (int i = 0; i < 5; i++) q->data[i] = (mask & (1u << i)) ? c[i] * (1 + 0.1 * e) : 0;
    q->active = 1;
  }
  mjModel* m = mj_compile(s, NULL);
  if (!m) { printf("ERR compile %s\n", mjs_getError(s)); mj_deleteSpec(s); return; }
  mjData* d = mj_makeData(m);
  static const double q0[4] = { 0.37, -0.21, -0.64, 0.45 };
  for (int i = 0; i < 4; i++) d->qpos[i] = q0[i] * (1 + 0.2 * (k / 6));
  if (MJG_TRY) { efc_block(m, d); MJG_END; } else printf("ERR 2 %s\n", mjg_last_error);
  mj_deleteData(d); mj_deleteModel(m); mj_deleteSpec(s);
}

// "simple" bodies (body_simple: leaf, inertial frame = body frame, joints at the origin, axis-aligned, at most one rotational
// joint; child of the world or of a jointless child of the world) take fast paths in the sparse Jacobian code
// (mj_jacSparseSimple, mj_mergeChainSimple).  Corpus: static mounts with their own mass and several children, simple and
// deliberately non-simple leaves of every joint kind, connect / weld equalities between them and to the world; data: the
// constraint rows (dense and sparse) and mj_jacDifPair / mj_jacSum, sparse and dense, with finite differences of the points
static void simple_corpus(unsigned long long seed, int rep) {
  mjg_rng R = { seed * 7919 + (unsigned long long)rep * 104729 + 11 }; mjg_rng* r = &R;
  mjSpec* s = mj_makeSpec();
  mjsBody* world = mjs_findBody(s, "world");
  mjsBody* mounts[3]; int nm = 1 + mjg_int(r, 2);
  for (int i = 0; i < nm; i++) {
    mjsBody* parent = (i == 1 && mjg_chance(r, 0.3)) ? mounts[0] : world;     // sometimes a mount on a mount (then its leaves are not simple)
    mjsBody* mb = mjs_addBody(parent, NULL); char nmn[16]; snprintf(nmn, sizeof(nmn), "mount%d", i); mjs_setName(mb->element, nmn);
    for (int k = 0; k < 3; k++) mb->pos[k] = mjg_range(r, -0.5, 0.5);
    if (mjg_chance(r, 0.7)) mjg_quat(r, mb->quat);
    if (mjg_chance(r, 0.7)) { mjsGeom* g = mjs_addGeom(mb, NULL); g->type = mjGEOM_BOX; for (int k = 0; k < 3; k++) { g->size[k] = mjg_range(r, 0.05, 0.2); g->pos[k] = mjg_range(r, -0.4, 0.4); } g->contype = 0; g->conaffinity = 0; }
    mounts[i] = mb;
  }
  int nl = 3 + mjg_int(r, 4);
  for (int i = 0; i < nl; i++) {
    int onmount = mjg_chance(r, 0.65);
    mjsBody* lb = mjs_addBody(onmount ? mounts[mjg_int(r, nm)] : world, NULL); char nmn[16]; snprintf(nmn, sizeof(nmn), "leaf%d", i); mjs_setName(lb->element, nmn);
    for (int k = 0; k < 3; k++) lb->pos[k] = mjg_range(r, -0.4, 0.4);
    if (mjg_chance(r, 0.5)) mjg_quat(r, lb->quat);
    int spoil = mjg_chance(r, 0.25) ? 1 + mjg_int(r, 3) : 0;      // 1: geom off-centre, 2: joint off the origin, 3: oblique axis
    int kind = mjg_int(r, onmount ? 5 : 6);                        // 0 ball, 1 hinge, 2 slide, 3 slide+hinge, 4 slide+slide+ball, 5 free
    if (kind == 5) mjs_addFreeJoint(lb);
    else {
      int nj = kind == 3 ? 2 : kind == 4 ? 3 : 1;
      for (int q = 0; q < nj; q++) {
        mjsJoint* j = mjs_addJoint(lb, NULL);
        int rot = (q == nj - 1) && kind != 2;
        j->type = !rot ? mjJNT_SLIDE : (kind == 0 || kind == 4) ? mjJNT_BALL : mjJNT_HINGE;
        int ax = mjg_int(r, 3); j->axis[0] = j->axis[1] = j->axis[2] = 0; j->axis[ax] = mjg_chance(r, 0.5) ? 1 : -1;
        if (spoil == 3 && j->type != mjJNT_BALL) j->axis[(ax + 1) % 3] = 0.5;
        if (spoil == 2) j->pos[mjg_int(r, 3)] = 0.1;
      }
    }
    mjsGeom* g = mjs_addGeom(lb, NULL); g->type = mjGEOM_SPHERE; g->size[0] = mjg_range(r, 0.04, 0.1); g->contype = 0; g->conaffinity = 0;
    if (spoil == 1) g->pos[0] = 0.07;
  }
  int ne = 2 + mjg_int(r, 3);
  for (int e = 0; e < ne; e++) {
    mjsEquality* q = mjs_addEquality(s, NULL);
    q->type = mjg_chance(r, 0.7) ? mjEQ_CONNECT : mjEQ_WELD; q->objtype = mjOBJ_BODY;
    int a = mjg_int(r, nl), b = (a + 1 + mjg_int(r, nl - 1)) % nl; char n1[16], n2[16];
    snprintf(n1, sizeof(n1), "leaf%d", a); snprintf(n2, sizeof(n2), "leaf%d", b);
    mjs_setString(q->name1, n1); if (!mjg_chance(r, 0.2)) mjs_setString(q->name2, n2);
    if (q->type == mjEQ_CONNECT) for (int k = 0; k < 3; k++) q->data[k] = mjg_range(r, -0.2, 0.2);
    else { q->data[6] = 1; q->data[10] = 1; for (int k = 0; k < 3; k++) q->data[k] = mjg_range(r, -0.2, 0.2); }
    q->active = 1;
  }
  mjModel* m = mj_compile(s, NULL);
  if (!m) { printf("ERR compile %s\n", mjs_getError(s)); mj_deleteSpec(s); return; }
  mjData* d = mj_makeData(m);
  int nv = m->nv, nq = m->nq;
  if (MJG_TRY) {
    mjg_random_state(m, d, r, 1.0);
    mju_zero(d->qfrc_applied, nv); mju_zero(d->xfrc_applied, 6 * m->nbody);
    p1("nbody", m->nbody);
    { int* bs = (int*)calloc(m->nbody, sizeof(int)); for (int b = 0; b < m->nbody; b++) bs[b] = m->body_simple[b]; pi("body_simple", bs, m->nbody); free(bs); }
    pi("body_parentid", m->body_parentid, m->nbody); pi("body_rootid", m->body_rootid, m->nbody); pi("body_dofnum", m->body_dofnum, m->nbody);
    pi("body_jntnum", m->body_jntnum, m->nbody); pi("body_jntadr", m->body_jntadr, m->nbody); pi("jnt_type", m->jnt_type, m->njnt);
    efc_block(m, d);
    // body pairs
    mjtNum* q0 = (mjtNum*)calloc(nq + 1, sizeof(mjtNum)); mjtNum* dv = (mjtNum*)calloc(nv + 1, sizeof(mjtNum));
    memcpy(q0, d->qpos, sizeof(mjtNum) * nq);
    mj_fwdPosition(m, d);
    int* chain = (int*)calloc(nv + 1, sizeof(int));
    mjtNum* buf = (mjtNum*)calloc(24 * (size_t)nv + 24, sizeof(mjtNum));
    mjtNum *j1p = buf, *j2p = buf + 3 * nv, *jdp = buf + 6 * nv, *j1r = buf + 9 * nv, *j2r = buf + 12 * nv, *jdr = buf + 15 * nv, *fd = buf + 18 * nv;
    int npair = 0;
    for (int b1 = 0; b1 < m->nbody && npair < 12; b1++) for (int b2 = 0; b2 < m->nbody && npair < 12; b2++) {
      if (b1 == b2 || !mjg_chance(r, 0.35)) continue;
      if (m->body_dofnum[m->body_weldid[b1]] == 0 && m->body_dofnum[m->body_weldid[b2]] == 0) continue;
      mjtNum l1[3], l2[3], p1w[3], p2w[3];
      for (int k = 0; k < 3; k++) { l1[k] = mjg_range(r, -0.3, 0.3); l2[k] = mjg_range(r, -0.3, 0.3); }
      memcpy(d->qpos, q0, sizeof(mjtNum) * nq); mj_fwdPosition(m, d);
      mju_mulMatVec3(p1w, d->xmat + 9 * b1, l1); mju_addTo3(p1w, d->xpos + 3 * b1);
      mju_mulMatVec3(p2w, d->xmat + 9 * b2, l2); mju_addTo3(p2w, d->xpos + 3 * b2);
      char nm[64]; int pr[2] = { b1, b2 }; snprintf(nm, sizeof(nm), "pair_%d", npair); pi(nm, pr, 2);
      mju_zero(buf, 18 * nv);
      int NV = mj_jacDifPair(m, d, chain, b1, b2, p1w, p2w, j1p, j2p, jdp, j1r, j2r, jdr, 1, 0);
      snprintf(nm, sizeof(nm), "pair_chain_%d", npair); pi(nm, chain, NV);
      pdk("pair_sp_p", npair, jdp, 3 * NV); pdk("pair_sp_r", npair, jdr, 3 * NV);
      mju_zero(buf, 18 * nv);
      mj_jacDifPair(m, d, chain, b1, b2, p1w, p2w, j1p, j2p, jdp, j1r, j2r, jdr, 0, 0);
      pdk("pair_de_p", npair, jdp, 3 * nv); pdk("pair_de_r", npair, jdr, 3 * nv);
      // mj_jacSum at p2w of the two bodies with weights (-0.4, 1.3): sparse and dense
      { int bodies[2] = { b1, b2 }; mjtNum w[2] = { -0.4, 1.3 };
        m->opt.jacobian = mjJAC_SPARSE; mju_zero(buf, 18 * nv);
        int NS = mj_jacSum(m, d, chain, 2, bodies, w, p2w, j1p, j1r, 1);
        snprintf(nm, sizeof(nm), "sum_chain_%d", npair); pi(nm, chain, NS); pdk("sum_sp_p", npair, j1p, 3 * NS); pdk("sum_sp_r", npair, j1r, 3 * NS);
        m->opt.jacobian = mjJAC_DENSE; mju_zero(buf, 18 * nv);
        mj_jacSum(m, d, chain, 2, bodies, w, p2w, j1p, j1r, 1);
        pdk("sum_de_p", npair, j1p, 3 * nv); pdk("sum_de_r", npair, j1r, 3 * nv);
        // reference: weighted sum of mj_jac
        mj_jac(m, d, j1p, j1r, p2w, b1); mj_jac(m, d, j2p, j2r, p2w, b2);
        for (int k = 0; k < 3 * nv; k++) { jdp[k] = w[0] * j1p[k] + w[1] * j2p[k]; jdr[k] = w[0] * j1r[k] + w[1] * j2r[k]; }
        pdk("sum_ref_p", npair, jdp, 3 * nv); pdk("sum_ref_r", npair, jdr, 3 * nv);
      }
      // finite difference of (p2 - p1), the points moving with their bodies
      mjtNum eps = 1e-6;
      for (int k = 0; k < nv; k++) {
        mjtNum dp[2][3];
        for (int sg = 0; sg < 2; sg++) {
          mju_zero(dv, nv); dv[k] = 1; memcpy(d->qpos, q0, sizeof(mjtNum) * nq);
          mj_integratePos(m, d->qpos, dv, sg ? -eps : eps); mj_kinematics(m, d);
          mjtNum a[3], b[3];
          mju_mulMatVec3(a, d->xmat + 9 * b1, l1); mju_addTo3(a, d->xpos + 3 * b1);
          mju_mulMatVec3(b, d->xmat + 9 * b2, l2); mju_addTo3(b, d->xpos + 3 * b2);
          for (int c = 0; c < 3; c++) dp[sg][c] = b[c] - a[c];
        }
        for (int c = 0; c < 3; c++) fd[c * nv + k] = (dp[0][c] - dp[1][c]) / (2 * eps);
      }
      pdk("pair_fd_p", npair, fd, 3 * nv);
      npair++;
    }
    p1("npair", npair);
    free(q0); free(dv); free(chain); free(buf);
    MJG_END;
  } else printf("ERR 2 %s\n", mjg_last_error);
  mj_deleteData(d); mj_deleteModel(m); mj_deleteSpec(s);
}

// fixed corpus "address spaces": quaternion joints (free, ball) precede every constrained joint, so that jnt_qposadr, jnt_dofadr,
// joint id and body id all differ; every row kind is present and active: limits of ball / hinge / slide joints and of a
// tendon, friction loss on dofs and on a tendon, joint / connect equalities, sphere-plane contacts.  k varies cone, condim, margins
static void address_corpus(int k) {
  mjSpec* s = mj_makeSpec();
  s->option.cone = (k % 2) ? mjCONE_ELLIPTIC : mjCONE_PYRAMIDAL;
  mjsBody* w = mjs_findBody(s, "world");
  mjsGeom* fl = mjs_addGeom(w, NULL); fl->type = mjGEOM_PLANE; fl->size[0] = fl->size[1] = 5; fl->size[2] = 0.1;
  mjsBody* base = mjs_addBody(w, NULL); mjs_setName(base->element, "base"); base->pos[2] = 0.5;
  mjs_addFreeJoint(base);
  mjsGeom* g = mjs_addGeom(base, NULL); g->type = mjGEOM_BOX; g->size[0] = 0.1; g->size[1] = 0.08; g->size[2] = 0.05; g->contype = 0; g->conaffinity = 0;
  const char* names[4] = { "shoulder", "elbow", "wrist", "hand" };
  int types[4] = { mjJNT_BALL, mjJNT_HINGE, mjJNT_BALL, mjJNT_SLIDE };
  mjsBody* parent = base;
  for (int i = 0; i < 4; i++) {
    mjsBody* b = mjs_addBody(parent, NULL); mjs_setName(b->element, names[i]); b->pos[0] = 0.2; b->pos[1] = 0.03 * i;
    mjsJoint* j = mjs_addJoint(b, NULL); char jn[16]; snprintf(jn, sizeof(jn), "j%d", i); mjs_setName(j->element, jn);
    j->type = types[i]; j->axis[0] = 0.2; j->axis[1] = 1; j->axis[2] = 0.3 * i; j->pos[2] = 0.02;
    j->limited = mjLIMITED_TRUE;
    if (types[i] == mjJNT_BALL) { j->range[0] = 0; j->range[1] = 0.4 + 0.1 * (k % 3); }
    else { j->range[0] = -0.3; j->range[1] = 0.2; }
    if (k % 3 == 1) j->margin = 0.03;
    j->frictionloss = (i % 2) ? 0.3 : 0;
    mjsGeom* gg = mjs_addGeom(b, NULL); gg->type = mjGEOM_SPHERE; gg->size[0] = 0.04; gg->pos[0] = 0.1;
    gg->condim = (k % 4 == 0) ? 1 : (k % 4 == 1) ? 3 : (k % 4 == 2) ? 4 : 6; gg->contype = 1; gg->conaffinity = 1;
    if (i == 3) { mjsBody* leaf = mjs_addBody(b, NULL); mjs_setName(leaf->element, "tip"); leaf->pos[0] = 0.15;       // second branch below
      mjsJoint* jj = mjs_addJoint(leaf, NULL); mjs_setName(jj->element, "j4"); jj->type = mjJNT_HINGE; jj->axis[2] = 1; jj->limited = mjLIMITED_TRUE; jj->range[0] = 0.3; jj->range[1] = 0.9; jj->frictionloss = 0.2;
      mjsGeom* g3 = mjs_addGeom(leaf, NULL); g3->type = mjGEOM_SPHERE; g3->size[0] = 0.03; g3->contype = 1; g3->conaffinity = 1; g3->condim = 3; }
    parent = b;
  }
  mjsTendon* t = mjs_addTendon(s, NULL); mjs_setName(t->element, "t0"); mjs_wrapJoint(t, "j1", 0.8); mjs_wrapJoint(t, "j3", -1.4); mjs_wrapJoint(t, "j4", 0.5);
  t->limited = mjLIMITED_TRUE; t->range[0] = -0.05; t->range[1] = 0.05; t->frictionloss = 0.4;
  mjsEquality* e = mjs_addEquality(s, NULL); e->type = mjEQ_JOINT; e->objtype = mjOBJ_JOINT; mjs_setString(e->name1, "j4"); mjs_setString(e->name2, "j1");
  e->data[0] = 0.1; e->data[1] = 0.7; e->data[2] = -0.4; e->active = 1;
  mjsEquality* e2 = mjs_addEquality(s, NULL); e2->type = mjEQ_CONNECT; e2->objtype = mjOBJ_BODY; mjs_setString(e2->name1, "hand"); mjs_setString(e2->name2, "shoulder");
  e2->data[0] = 0.1; e2->data[1] = 0.05; e2->active = 1;
  mjModel* m = mj_compile(s, NULL);
  if (!m) { printf("ERR compile %s\n", mjs_getError(s)); mj_deleteSpec(s); return; }
  mjData* d = mj_makeData(m);
  mjg_rng R = { 4242ULL + 977ULL * (unsigned long long)k };
  if (MJG_TRY) {
    // state: base low above the floor and tilted, ball joints rotated by about 1 rad (beyond their range), hinge / slide beyond an end
    mjtNum q[4]; mjg_quat(&R, q);
    d->qpos[2] = 0.12 + 0.02 * (k % 3);
    for (int i = 0; i < 4; i++) d->qpos[3 + i] = q[i];
    for (int j = 1; j < m->njnt; j++) {
      int a = m->jnt_qposadr[j];
      if (m->jnt_type[j] == mjJNT_BALL) { mjtNum ax[3] = { mjg_range(&R, -1, 1), mjg_range(&R, -1, 1), mjg_range(&R, 0.2, 1) }; mju_normalize3(ax); mju_axisAngle2Quat(d->qpos + a, ax, mjg_range(&R, 0.9, 1.6)); }
      else d->qpos[a] = (j % 2) ? mjg_range(&R, 0.3, 0.6) : mjg_range(&R, -0.7, -0.4);
    }
    { int a = m->jnt_qposadr[m->njnt - 1]; d->qpos[a] = (k % 2) ? 1.2 : 0.1; }
    efc_block(m, d);
    MJG_END;
  } else printf("ERR 2 %s\n", mjg_last_error);
  mj_deleteData(d); mj_deleteModel(m); mj_deleteSpec(s);
}

int main(void) {
  mjg_install_handlers();
  char* line = NULL; size_t cap = 0;
  while (getline(&line, &cap, stdin) > 0) {
    char* p = line; char op = *p++;
    if (op == 'R') { repeated_joint_tendon(); printf("END\n"); fflush(stdout); continue; }
    if (op == 'S') { unsigned long long sd = strtoull(p, &p, 10); int rp = (int)strtol(p, &p, 10); simple_corpus(sd, rp); printf("END\n"); fflush(stdout); continue; }
    if (op == 'A') { address_corpus((int)strtol(p, &p, 10)); printf("END\n"); fflush(stdout); continue; }
    if (op == 'Q') { eq_poly_corpus((int)strtol(p, &p, 10)); printf("END\n"); fflush(stdout); continue; }
    unsigned long long seed = strtoull(p, &p, 10); unsigned feat = (unsigned)strtoul(p, &p, 10);
    int nbody = (int)strtol(p, &p, 10); int rep = (int)strtol(p, &p, 10);
    mjModel* m = get_model(seed, feat, nbody);
    if (!m) { printf("ERR compile\nEND\n"); fflush(stdout); continue; }
    mjData* d = mj_makeData(m);
    int nv = m->nv, nq = m->nq;
    mjtNum* jp = (mjtNum*)calloc(3 * nv + 3, sizeof(mjtNum)); mjtNum* jr = (mjtNum*)calloc(3 * nv + 3, sizeof(mjtNum));
    mjtNum* q0 = (mjtNum*)calloc(nq + 1, sizeof(mjtNum)); mjtNum* dv = (mjtNum*)calloc(nv + 1, sizeof(mjtNum));
    int err = 0;
    if (MJG_TRY) {
      if (op == 'K') {
        k_state(m, d, seed, rep);
        position_stage(m, d);
        dump_model(m, d); pd("qpos", d->qpos, nq);
        dump_frames("", m, d); pd("cdof", d->cdof, 6 * nv);
        // mj_jac for a point attached to every body (random offset in the body frame)
        mjg_rng r = { seed * 31 + rep * 101 + 7 };
        for (int b = 0; b < m->nbody; b++) {
          mjtNum loc[3] = { mjg_range(&r, -0.3, 0.3), mjg_range(&r, -0.3, 0.3), mjg_range(&r, -0.3, 0.3) }, pt[3];
          mju_mulMatVec3(pt, d->xmat + 9 * b, loc); mju_addTo3(pt, d->xpos + 3 * b);
          mj_jac(m, d, jp, jr, pt, b);
          pdk("jac_point", b, pt, 3); pdk("jacp", b, jp, 3 * nv); pdk("jacr", b, jr, 3 * nv);
        }
        // configuration-space maps
        for (int i = 0; i < nv; i++) dv[i] = mjg_range(&r, -3, 3);
        if (rep % 4 == 1) for (int i = 0; i < nv; i++) if (mjg_chance(&r, 0.3)) dv[i] = 0;
        mjtNum dt = (rep % 2) ? m->opt.timestep : mjg_range(&r, 0.01, 0.3) * (mjg_chance(&r, 0.3) ? -1 : 1);
        memcpy(q0, d->qpos, sizeof(mjtNum) * nq);
        mj_integratePos(m, q0, dv, dt);
        pd("qvel", dv, nv); pd("dt", &dt, 1); pd("qpos_int", q0, nq);
        mj_differentiatePos(m, jp, dt, d->qpos, q0);
        pd("qvel_diff", jp, nv);
      } else if (op == 'J') {
        mjg_rng r = { seed * 131 + rep * 7919 + 5 };
        mj_resetData(m, d);
        if (rep > 0) mjg_random_state(m, d, &r, 1.0); else for (int i = 0; i < nv; i++) d->qvel[i] = mjg_range(&r, -1, 1);
        memset(d->qfrc_applied, 0, sizeof(mjtNum) * nv); memset(d->xfrc_applied, 0, sizeof(mjtNum) * 6 * m->nbody);
        mj_forward(m, d);
        dump_model(m, d); pd("qpos", d->qpos, nq); pd("qvel", d->qvel, nv);
        dump_frames("", m, d); pd("cvel", d->cvel, 6 * m->nbody);
        mjtNum eps = 1e-6; pd("eps", &eps, 1);
        int* chain = (int*)calloc(nv + 1, sizeof(int));
        mjtNum* locs = (mjtNum*)calloc(3 * m->nbody, sizeof(mjtNum));
        for (int b = 0; b < m->nbody; b++) {
          mj_jacBody(m, d, jp, jr, b); pdk("jacBody_p", b, jp, 3 * nv); pdk("jacBody_r", b, jr, 3 * nv);
          mj_jacBodyCom(m, d, jp, jr, b); pdk("jacBodyCom_p", b, jp, 3 * nv); pdk("jacBodyCom_r", b, jr, 3 * nv);
          mj_jacSubtreeCom(m, d, jp, b); pdk("jacSubtreeCom_p", b, jp, 3 * nv);
          // generic attached point: mj_jac, mj_jacSparse over the body chain, mj_jacPointAxis, mj_jacDot
          mjtNum* loc = locs + 3 * b; for (int i = 0; i < 3; i++) loc[i] = mjg_range(&r, -0.3, 0.3);
          mjtNum pt[3]; mju_mulMatVec3(pt, d->xmat + 9 * b, loc); mju_addTo3(pt, d->xpos + 3 * b);
          mj_jac(m, d, jp, jr, pt, b); pdk("jac_p", b, jp, 3 * nv); pdk("jac_r", b, jr, 3 * nv);
          int NV = mj_bodyChain(m, b, chain);
          char nm[64]; snprintf(nm, sizeof(nm), "chain_%d", b); pi(nm, chain, NV);
          if (NV > 0) { mj_jacSparse(m, d, jp, jr, pt, b, NV, chain, 0); pdk("jacSparse_p", b, jp, 3 * NV); pdk("jacSparse_r", b, jr, 3 * NV); }
          mjtNum ax[3] = { d->xmat[9 * b + 2], d->xmat[9 * b + 5], d->xmat[9 * b + 8] };   // body z axis
          mj_jacPointAxis(m, d, jp, jr, pt, ax, b); pdk("jacPA_p", b, jp, 3 * nv); pdk("jacPA_a", b, jr, 3 * nv);
          mj_jacDot(m, d, jp, jr, pt, b); pdk("jacDot_p", b, jp, 3 * nv); pdk("jacDot_r", b, jr, 3 * nv);
          mjtNum vel[6];
          mj_objectVelocity(m, d, mjOBJ_XBODY, b, vel, 0); pdk("vel_xbody", b, vel, 6);
          mj_objectVelocity(m, d, mjOBJ_BODY, b, vel, 0); pdk("vel_body", b, vel, 6);
          mj_objectVelocity(m, d, mjOBJ_XBODY, b, vel, 1); pdk("vel_xbody_local", b, vel, 6);
          mj_objectVelocity(m, d, mjOBJ_BODY, b, vel, 1); pdk("vel_body_local", b, vel, 6);
        }
        pd("locs", locs, 3 * m->nbody);
        for (int g = 0; g < m->ngeom; g++) { mj_jacGeom(m, d, jp, jr, g); pdk("jacGeom_p", g, jp, 3 * nv); pdk("jacGeom_r", g, jr, 3 * nv);
          mjtNum vel[6]; mj_objectVelocity(m, d, mjOBJ_GEOM, g, vel, 0); pdk("vel_geom", g, vel, 6);
          mj_objectVelocity(m, d, mjOBJ_GEOM, g, vel, 1); pdk("vel_geom_local", g, vel, 6); }
        for (int s = 0; s < m->nsite; s++) { mj_jacSite(m, d, jp, jr, s); pdk("jacSite_p", s, jp, 3 * nv); pdk("jacSite_r", s, jr, 3 * nv);
          mjtNum vel[6]; mj_objectVelocity(m, d, mjOBJ_SITE, s, vel, 0); pdk("vel_site", s, vel, 6);
          mj_objectVelocity(m, d, mjOBJ_SITE, s, vel, 1); pdk("vel_site_local", s, vel, 6); }
        for (int c = 0; c < m->ncam; c++) { mj_jac(m, d, jp, jr, d->cam_xpos + 3 * c, m->cam_bodyid[c]); pdk("jacCam_p", c, jp, 3 * nv); pdk("jacCam_r", c, jr, 3 * nv);
          mjtNum vel[6]; mj_objectVelocity(m, d, mjOBJ_CAMERA, c, vel, 0); pdk("vel_cam", c, vel, 6);
          mj_objectVelocity(m, d, mjOBJ_CAMERA, c, vel, 1); pdk("vel_cam_local", c, vel, 6); }
        // perturbed configurations: +-eps along every dof (index k) and along qvel (index nv)
        memcpy(q0, d->qpos, sizeof(mjtNum) * nq);
        for (int k = 0; k <= nv; k++) for (int sg = 0; sg < 2; sg++) {
          for (int i = 0; i < nv; i++) dv[i] = (k == nv) ? d->qvel[i] : (i == k ? 1.0 : 0.0);
          memcpy(d->qpos, q0, sizeof(mjtNum) * nq);
          mj_integratePos(m, d->qpos, dv, sg ? -eps : eps);
          position_stage(m, d);
          char pre[32]; snprintf(pre, sizeof(pre), "%c%d_", sg ? 'M' : 'P', k);
          dump_frames(pre, m, d);
          if (k == nv) for (int b = 0; b < m->nbody; b++) {     // J at the displaced configuration, same material point
            mjtNum pt[3]; mju_mulMatVec3(pt, d->xmat + 9 * b, locs + 3 * b); mju_addTo3(pt, d->xpos + 3 * b);
            mj_jac(m, d, jp, jr, pt, b);
            char nm[64]; snprintf(nm, sizeof(nm), "%cV_jac_p", sg ? 'M' : 'P'); pdk(nm, b, jp, 3 * nv);
            snprintf(nm, sizeof(nm), "%cV_jac_r", sg ? 'M' : 'P'); pdk(nm, b, jr, 3 * nv);
          }
        }
        free(chain); free(locs);
      } else if (op == 'E') {
        mjg_rng r = { seed * 137 + rep * 7927 + 3 };
        mj_resetData(m, d);
        mjg_random_state(m, d, &r, 1.0);
        memset(d->qfrc_applied, 0, sizeof(mjtNum) * nv); memset(d->xfrc_applied, 0, sizeof(mjtNum) * 6 * m->nbody);
        // coupling polynomials of joint / tendon equalities: every zero / non-zero combination of the five coefficients
        for (int e = 0; e < m->neq; e++) {
          d->eq_active[e] = 1;
          if (m->eq_type[e] != mjEQ_JOINT && m->eq_type[e] != mjEQ_TENDON) continue;
          unsigned mask = (unsigned)((7 * e + 5 * rep + seed) % 32);
          if (rep % 2 == 0) mask |= 16;                     // the highest (quartic) term present in every second request
          for (int k = 0; k < 5; k++) {
            mjtNum c = (k == 0) ? mjg_range(&r, -0.1, 0.1) : mjg_range(&r, 0.3, 1.5) * (mjg_chance(&r, 0.5) ? -1 : 1);
            m->eq_data[mjNEQDATA * e + k] = (mask & (1u << k)) ? c : 0;
          }
        }
        // constraint rows of every kind where qpos addresses and dof addresses differ: in every second request most joint and
        // tendon limits are made active at the current configuration (ball joints rotated beyond their range, hinge / slide
        // beyond the lower or the upper end, some with a margin), and friction loss is put on dofs and tendons
        if (rep % 2 == 1) {
          mj_fwdPosition(m, d);
          for (int j = 0; j < m->njnt; j++) {
            int t = m->jnt_type[j], a = m->jnt_qposadr[j];
            if (t == mjJNT_FREE || !mjg_chance(&r, 0.7)) continue;
            if (t == mjJNT_BALL) {
              mjtNum* q = d->qpos + a; mjtNum vn = sqrt(q[1]*q[1] + q[2]*q[2] + q[3]*q[3]);
              mjtNum ang = 2 * atan2(vn, fabs(q[0]));
              if (ang < 0.2) continue;
              m->jnt_limited[j] = 1; m->jnt_range[2*j] = 0; m->jnt_range[2*j+1] = ang * mjg_range(&r, 0.3, 0.8);
            } else {
              mjtNum q = d->qpos[a]; m->jnt_limited[j] = 1;
              if (mjg_chance(&r, 0.5)) { m->jnt_range[2*j] = q + mjg_range(&r, 0.05, 0.2); m->jnt_range[2*j+1] = q + mjg_range(&r, 0.3, 0.6); }
              else { m->jnt_range[2*j] = q - mjg_range(&r, 0.3, 0.6); m->jnt_range[2*j+1] = q - mjg_range(&r, 0.05, 0.2); }
            }
            m->jnt_margin[j] = mjg_chance(&r, 0.3) ? 0.02 : 0;
          }
          for (int t = 0; t < m->ntendon; t++) if (mjg_chance(&r, 0.7)) {
            mjtNum L = d->ten_length[t]; m->tendon_limited[t] = 1;
            if (mjg_chance(&r, 0.5)) { m->tendon_range[2*t] = L + 0.1; m->tendon_range[2*t+1] = L + 0.5; } else { m->tendon_range[2*t] = L - 0.5; m->tendon_range[2*t+1] = L - 0.1; }
            if (mjg_chance(&r, 0.5)) m->tendon_frictionloss[t] = mjg_range(&r, 0.1, 1);
          }
          for (int k = 0; k < nv; k++) if (mjg_chance(&r, 0.3)) m->dof_frictionloss[k] = mjg_range(&r, 0.1, 1);
        }
        efc_block(m, d);
        cn = -1;      // the model was edited: never reuse it from the cache
      } else err = 1;
      MJG_END;
    } else err = 2;
    if (err) printf("ERR %d %s\n", err, mjg_last_error);
    printf("END\n"); fflush(stdout);
    free(jp); free(jr); free(q0); free(dv);
    mj_deleteData(d);
  }
  return 0;
}
