// C24 driver: calls the exported rotation/pose utilities mju_* of the working tree (library
// libmj_nox) and their inlined twins mji_* (engine_inline.h of the working tree) on the
// arguments read from stdin and prints every result as hex doubles.
// stdin : one call per line:  <op> <hex double> ...        (euler2Quat: <op> e0 e1 e2 <seq>)
// stdout: one line per call:  <hex double> ...   or  ERR   (mju_error was raised)
#include <assert.h>
#include <setjmp.h>
#include <stdio.h>
#include <stdlib.h>
#include <string.h>
#include <mujoco/mujoco.h>
#include "engine/engine_inline.h"
#include "engine/engine_util_blas.h"
#include "engine/engine_util_spatial.h"
#include "engine/engine_derivative.h"

static jmp_buf env;
static void on_error(const char* msg) { (void)msg; longjmp(env, 1); }

static int rd(mjtNum* x, int n) {
  for (int i = 0; i < n; i++) {
    char tok[128];
    if (scanf("%127s", tok) != 1) return 0;
    x[i] = strtod(tok, NULL);
  }
  return 1;
}
static void pr(const mjtNum* x, int n) {
  for (int i = 0; i < n; i++) printf("%a ", x[i]);
}

int main(void) {
  char op[64];
  mju_user_error = on_error;
  while (scanf("%63s", op) == 1) {
    mjtNum a[32], r[32];
    memset(a, 0, sizeof a); memset(r, 0, sizeof r);
    if (setjmp(env)) { printf("ERR\n"); continue; }
    if (!strcmp(op, "rotVecQuat")) { if (!rd(a, 7)) return 2; mju_rotVecQuat(r, a, a+3); pr(r, 3); }
    else if (!strcmp(op, "rotVecQuat_i")) { if (!rd(a, 7)) return 2; mji_rotVecQuat(r, a, a+3); pr(r, 3); }
    else if (!strcmp(op, "rotVecQuat_alias")) { if (!rd(a, 7)) return 2; mju_rotVecQuat(a, a, a+3); pr(a, 3); }
    else if (!strcmp(op, "negQuat")) { if (!rd(a, 4)) return 2; mju_negQuat(r, a); pr(r, 4); }
    else if (!strcmp(op, "negQuat_i")) { if (!rd(a, 4)) return 2; mji_negQuat(r, a); pr(r, 4); }
    else if (!strcmp(op, "mulQuat")) { if (!rd(a, 8)) return 2; mju_mulQuat(r, a, a+4); pr(r, 4); }
    else if (!strcmp(op, "mulQuat_i")) { if (!rd(a, 8)) return 2; mji_mulQuat(r, a, a+4); pr(r, 4); }
    else if (!strcmp(op, "mulQuat_alias_a")) { if (!rd(a, 8)) return 2; mju_mulQuat(a, a, a+4); pr(a, 4); }
    else if (!strcmp(op, "mulQuat_alias_b")) { if (!rd(a, 8)) return 2; mju_mulQuat(a+4, a, a+4); pr(a+4, 4); }
    else if (!strcmp(op, "mulQuatAxis")) { if (!rd(a, 7)) return 2; mju_mulQuatAxis(r, a, a+4); pr(r, 4); }
    else if (!strcmp(op, "mulQuatAxis_i")) { if (!rd(a, 7)) return 2; mji_mulQuatAxis(r, a, a+4); pr(r, 4); }
    else if (!strcmp(op, "mulQuatAxis_alias")) { if (!rd(a, 7)) return 2; mju_mulQuatAxis(a, a, a+4); pr(a, 4); }
    else if (!strcmp(op, "axisAngle2Quat")) { if (!rd(a, 4)) return 2; mju_axisAngle2Quat(r, a, a[3]); pr(r, 4); }
    else if (!strcmp(op, "axisAngle2Quat_i")) { if (!rd(a, 4)) return 2; mji_axisAngle2Quat(r, a, a[3]); pr(r, 4); }
    else if (!strcmp(op, "quat2Vel")) { if (!rd(a, 5)) return 2; mju_quat2Vel(r, a, a[4]); pr(r, 3); }
    else if (!strcmp(op, "quat2Vel_i")) { if (!rd(a, 5)) return 2; mji_quat2Vel(r, a, a[4]); pr(r, 3); }
    else if (!strcmp(op, "subQuat")) { if (!rd(a, 8)) return 2; mju_subQuat(r, a, a+4); pr(r, 3); }
    else if (!strcmp(op, "subQuat_i")) { if (!rd(a, 8)) return 2; mji_subQuat(r, a, a+4); pr(r, 3); }
    else if (!strcmp(op, "quat2Mat")) { if (!rd(a, 4)) return 2; mju_quat2Mat(r, a); pr(r, 9); }
    else if (!strcmp(op, "mat2Quat")) { if (!rd(a, 9)) return 2; mju_mat2Quat(r, a); pr(r, 4); }
    else if (!strcmp(op, "mat2Quat_i")) { if (!rd(a, 9)) return 2; mji_mat2Quat(r, a); pr(r, 4); }
    else if (!strcmp(op, "derivQuat")) { if (!rd(a, 7)) return 2; mju_derivQuat(r, a, a+4); pr(r, 4); }
    else if (!strcmp(op, "quatIntegrate")) { if (!rd(a, 8)) return 2; mju_quatIntegrate(a, a+4, a[7]); pr(a, 4); }
    else if (!strcmp(op, "quatIntegrate_i")) { if (!rd(a, 8)) return 2; mji_quatIntegrate(a, a+4, a[7]); pr(a, 4); }
    else if (!strcmp(op, "quatZ2Vec")) { if (!rd(a, 3)) return 2; mju_quatZ2Vec(r, a); pr(r, 4); }
    else if (!strcmp(op, "normalize3")) { if (!rd(a, 3)) return 2; a[3] = mju_normalize3(a); pr(a, 4); }
    else if (!strcmp(op, "normalize3_i")) { if (!rd(a, 3)) return 2; a[3] = mji__normalize3(a); pr(a, 4); }
    else if (!strcmp(op, "normalize4")) { if (!rd(a, 4)) return 2; a[4] = mju_normalize4(a); pr(a, 5); }
    else if (!strcmp(op, "normalize4_i")) { if (!rd(a, 4)) return 2; a[4] = mji__normalize4(a); pr(a, 5); }
    // poses: pos1(3) quat1(4) pos2(3) quat2(4)  ->  pos(3) quat(4)
    else if (!strcmp(op, "mulPose")) { if (!rd(a, 14)) return 2; mju_mulPose(r, r+3, a, a+3, a+7, a+10); pr(r, 7); }
    else if (!strcmp(op, "negPose")) { if (!rd(a, 7)) return 2; mju_negPose(r, r+3, a, a+3); pr(r, 7); }
    else if (!strcmp(op, "trnVecPose")) { if (!rd(a, 10)) return 2; mju_trnVecPose(r, a, a+3, a+7); pr(r, 3); }
    else if (!strcmp(op, "euler2Quat")) {
      char seq[64];
      if (!rd(a, 3)) return 2;
      if (scanf("%63s", seq) != 1) return 2;
      if (!strcmp(seq, "-")) seq[0] = 0;           // "-" stands for the empty string
      mju_euler2Quat(r, a, seq); pr(r, 4);
    }
    else if (!strcmp(op, "mjd_subQuat")) { if (!rd(a, 8)) return 2; mjd_subQuat(a, a+4, r, r+9); pr(r, 18); }
    else if (!strcmp(op, "mjd_quatIntegrate")) { if (!rd(a, 4)) return 2; mjd_quatIntegrate(a, a[3], r, r+9, r+18); pr(r, 21); }
    else { fprintf(stderr, "unknown op %s\n", op); return 3; }
    printf("\n");
  }
  return 0;
}
