// C14 driver: reaches the static functions of the working tree's engine_collision_driver.c by
// including it (filterBitmask, filterBodyPair, canCollide, canCollide2, add_pair, mj_SAP, makeAAMM)
// and runs generated scenes through mj_collision next to a brute-force narrow-phase table.
//
// stdin commands (one per line):
//   FBM c1 a1 c2 a2                                  -> "r" filterBitmask
//   FBP w1 p1 s1 d1 w2 p2 s2 d2 dsbl                 -> "r" filterBodyPair
//   CC  ct ca                                        -> "r" canCollide on a one-body table
//   CC2 ct1 ca1 ct2 ca2                              -> "r" canCollide2 on a two-body table
//   ADD usem maxpair nb  n_0 (ct ca)*n_0 ... n_{nb-1} (..)  k  (bf1 bf2)*k
//                                                    -> "E|K npair p0 p1 ..." add_pair called k times
//   SAP n axis maxpair  v[6n] (hex doubles, column-major aamm as in mj_broadphase)
//                                                    -> "ret id1:id2 ..."
//   SCENE seed nb dsbl enbl omargin                  -> multi-line scene report (see below), ends "END"
//   TIE  which order dx                              -> end-to-end replay of the float-tie scenes
#include <inttypes.h>
#include <math.h>
#include <stdio.h>
#include <stdlib.h>
#include <string.h>

#include <mujoco/mujoco.h>
#include "mjgen.h"   // PRNG + error capture only
#include "engine/engine_collision_driver.c"

static mjModel* g_m0; static mjData* g_d0;   // tiny model whose mjData stack serves mj_SAP

static void mini(void) {
  mjSpec* s = mj_makeSpec();
  s->memory = 1 << 27;
  mjsBody* b = mjs_addBody(mjs_findBody(s, "world"), NULL);
  mjsGeom* g = mjs_addGeom(b, NULL); g->type = mjGEOM_SPHERE; g->size[0] = 0.1;
  mjsJoint* j = mjs_addJoint(b, NULL); j->type = mjJNT_FREE;
  g_m0 = mj_compile(s, NULL);
  if (!g_m0) { fprintf(stderr, "mini compile: %s\n", mjs_getError(s)); exit(4); }
  g_d0 = mj_makeData(g_m0);
  mj_deleteSpec(s);
}

// ------------------------------------------------------------------ scene generator
typedef struct { int nb; int ngeomnames; } scene_info;

static void gname(char* buf, int i) { snprintf(buf, 32, "g%d", i); }
static void bname(char* buf, int i) { snprintf(buf, 32, "b%d", i); }

static void random_inertial(mjg_rng* r, mjsBody* b);

static int add_geoms(mjg_rng* r, mjsBody* body, int ng, int* ngeom, int allow_plane, double sz) {
  static const int masks[8] = {1, 1, 1, 2, 3, 4, 5, 0};
  for (int k = 0; k < ng; k++) {
    mjsGeom* g = mjs_addGeom(body, NULL);
    char nm[32]; gname(nm, (*ngeom)++); mjs_setName(g->element, nm);
    int t = mjg_int(r, allow_plane ? 7 : 5);
    g->type = t == 0 ? mjGEOM_SPHERE : t == 1 ? mjGEOM_CAPSULE : t == 2 ? mjGEOM_ELLIPSOID : t == 3 ? mjGEOM_CYLINDER
            : t == 4 ? mjGEOM_BOX : t == 5 ? mjGEOM_PLANE : mjGEOM_BOX;
    if (g->type == mjGEOM_PLANE) { g->size[0] = g->size[1] = 2; g->size[2] = 0.1; }
    else { for (int i = 0; i < 3; i++) g->size[i] = mjg_range(r, 0.3 * sz, sz); }
    for (int i = 0; i < 3; i++) g->pos[i] = mjg_range(r, -sz, sz);
    if (mjg_chance(r, 0.6)) mjg_quat(r, g->quat);
    if (mjg_chance(r, 0.3)) g->margin = mjg_range(r, 0, 0.05);
    if (mjg_chance(r, 0.15)) g->gap = mjg_range(r, 0, 0.03);
    if (mjg_chance(r, 0.45)) { g->contype = masks[mjg_int(r, 8)]; g->conaffinity = masks[mjg_int(r, 8)]; }
  }
  return ng;
}

static mjSpec* scene_spec(uint64_t seed, int nb) {
  mjg_rng R = { seed * 0x9E3779B97F4A7C15ULL + 777 }; mjg_rng* r = &R;
  mjSpec* s = mj_makeSpec();
  s->memory = 1 << 26;
  mjsBody* world = mjs_findBody(s, "world");
  int ngeom = 0, nbody = 0;
  double side = 0.25 + 0.28 * cbrt((double)nb);
  double sz = 0.16;
  char nm[32];
  // world geoms
  if (mjg_chance(r, 0.6)) {
    mjsGeom* g = mjs_addGeom(world, NULL); g->type = mjGEOM_PLANE; g->size[0] = g->size[1] = 3; g->size[2] = 0.1;
    g->pos[2] = -0.3 * side; gname(nm, ngeom++); mjs_setName(g->element, nm);
    if (mjg_chance(r, 0.2)) g->margin = 0.03;
  }
  if (mjg_chance(r, 0.4)) {
    int before = ngeom;
    add_geoms(r, world, 1 + mjg_int(r, 2), &ngeom, 0, sz);
    (void)before;
  }
  mjsBody** bodies = (mjsBody**)calloc(nb + 8, sizeof(mjsBody*));
  // static and mocap bodies (possibly carrying planes) are declared before OR after the moving bodies: the order decides which
  // geom of a candidate pair comes first
  int first_moving = 0, static_late = mjg_chance(r, 0.5), mocap_late = mjg_chance(r, 0.5);
  for (int pass = 0; pass < 2; pass++) {
  // static child body of the world (weld id 0), possibly with a plane
  if (static_late == pass && mjg_chance(r, 0.6)) {
    mjsBody* sb = mjs_addBody(world, NULL); bname(nm, nbody); mjs_setName(sb->element, nm); bodies[nbody++] = sb;
    for (int i = 0; i < 3; i++) sb->pos[i] = mjg_range(r, -side, side);
    add_geoms(r, sb, 1 + mjg_int(r, 3), &ngeom, mjg_chance(r, 0.5), sz);
  }
  // mocap body
  if (mocap_late == pass && mjg_chance(r, 0.6)) {
    mjsBody* mb = mjs_addBody(world, NULL); bname(nm, nbody); mjs_setName(mb->element, nm); bodies[nbody++] = mb;
    mb->mocap = 1;
    for (int i = 0; i < 3; i++) mb->pos[i] = mjg_range(r, -side, side);
    add_geoms(r, mb, 1 + mjg_int(r, 2), &ngeom, mjg_chance(r, 0.3), sz);
    if (mjg_chance(r, 0.4)) {     // static child of the mocap body: welded to it
      mjsBody* mc = mjs_addBody(mb, NULL); bname(nm, nbody); mjs_setName(mc->element, nm); bodies[nbody++] = mc;
      for (int i = 0; i < 3; i++) mc->pos[i] = mjg_range(r, -0.2, 0.2);
      add_geoms(r, mc, 1, &ngeom, 0, sz);
    }
  }
    if (pass == 0) {
    first_moving = nbody;
  for (int b = 0; b < nb; b++) {
    mjsBody* parent = world; int root = 1;
    if (b > 0 && mjg_chance(r, 0.45)) { parent = bodies[first_moving + mjg_int(r, b)]; root = 0; }
    mjsBody* body = mjs_addBody(parent, NULL); bname(nm, nbody); mjs_setName(body->element, nm); bodies[nbody++] = body;
    if (root) { for (int i = 0; i < 3; i++) body->pos[i] = mjg_range(r, -side, side); }
    else      { for (int i = 0; i < 3; i++) body->pos[i] = mjg_range(r, -0.25, 0.25); }
    if (mjg_chance(r, 0.5)) mjg_quat(r, body->quat);
    int kind = root ? (mjg_chance(r, 0.7) ? 0 : (mjg_chance(r, 0.5) ? 3 : 4)) : mjg_int(r, 5);   // 0 free,1 ball,2 slide,3 hinge,4 none (welded)
    if (!root && kind == 0) kind = 3;
    if (kind != 4) {
      mjsJoint* j = mjs_addJoint(body, NULL);
      j->type = kind == 0 ? mjJNT_FREE : kind == 1 ? mjJNT_BALL : kind == 2 ? mjJNT_SLIDE : mjJNT_HINGE;
      if (kind >= 2) { for (int i = 0; i < 3; i++) j->axis[i] = mjg_range(r, -1, 1); if (fabs(j->axis[0]) + fabs(j->axis[1]) + fabs(j->axis[2]) < 0.1) j->axis[2] = 1; }
    }
    int ng = mjg_chance(r, 0.5) ? 1 : 1 + mjg_int(r, 4);
    add_geoms(r, body, ng, &ngeom, 0, sz);
    if (mjg_chance(r, 0.25)) random_inertial(r, body);
    // mass for welded/any bodies comes from geoms (density default)
  }
    }
  }
  // explicit pairs
  int np = mjg_chance(r, 0.6) ? mjg_int(r, 4) : 0;
  for (int k = 0; k < np && ngeom >= 2; k++) {
    int a = mjg_int(r, ngeom), b2 = (a + 1 + mjg_int(r, ngeom - 1)) % ngeom;
    mjsPair* p = mjs_addPair(s, NULL);
    char n1[32], n2[32]; gname(n1, a); gname(n2, b2);
    mjs_setString(p->geomname1, n1); mjs_setString(p->geomname2, n2);
    if (mjg_chance(r, 0.5)) p->margin = mjg_range(r, 0, 0.2);
    if (mjg_chance(r, 0.3)) p->gap = mjg_range(r, 0, 0.05);
  }
  // excludes
  int nx = mjg_chance(r, 0.6) ? mjg_int(r, 4) : 0;
  for (int k = 0; k < nx && nbody >= 2; k++) {
    int a = mjg_int(r, nbody), b2 = (a + 1 + mjg_int(r, nbody - 1)) % nbody;
    mjsExclude* e = mjs_addExclude(s);
    char n1[32], n2[32]; bname(n1, a); bname(n2, b2);
    mjs_setString(e->bodyname1, n1); mjs_setString(e->bodyname2, n2);
  }
  free(bodies);
  return s;
}

// explicit inertial frame, decoupled from the body frame and from the geoms (xipos != xpos, ximat != xmat)
static void random_inertial(mjg_rng* r, mjsBody* b) {
  b->explicitinertial = 1;
  b->mass = mjg_range(r, 0.2, 3);
  for (int i = 0; i < 3; i++) { b->ipos[i] = mjg_range(r, -0.3, 0.3); b->inertia[i] = mjg_range(r, 0.1, 0.15); }
  mjg_quat(r, b->iquat);
}

// a jointless (static) or mocap body carrying a plane (and sometimes a box), placed near the given point
static void add_plane_body(mjg_rng* r, mjsBody* world, int mocap, const double at[3], int* ngeom, int* nbody_names) {
  char nm[32];
  mjsBody* pb = mjs_addBody(world, NULL); snprintf(nm, 32, "pb%d", (*nbody_names)++); mjs_setName(pb->element, nm);
  pb->mocap = mocap;
  for (int i = 0; i < 3; i++) pb->pos[i] = at[i] + mjg_range(r, -0.3, 0.3);
  mjsGeom* g = mjs_addGeom(pb, NULL); gname(nm, (*ngeom)++); mjs_setName(g->element, nm);
  g->type = mjGEOM_PLANE; g->size[0] = g->size[1] = 1; g->size[2] = 0.1;
  if (mjg_chance(r, 0.8)) mjg_quat(r, g->quat);
  if (mjg_chance(r, 0.4)) g->margin = mjg_range(r, 0.02, 0.2);
  if (mjg_chance(r, 0.3)) {
    mjsGeom* g2 = mjs_addGeom(pb, NULL); gname(nm, (*ngeom)++); mjs_setName(g2->element, nm);
    g2->type = mjGEOM_BOX; for (int i = 0; i < 3; i++) { g2->size[i] = mjg_range(r, 0.05, 0.2); g2->pos[i] = mjg_range(r, -0.3, 0.3); }
  }
}

// "margin" scenes (nb < 0): free multi-geom bodies whose geoms carry large margins / gaps, placed so that the surface
// distance between a geom of the new body and a geom of an earlier body is f * (sum of their margins and gaps), f in
// [-0.6, 1.2]: many geom pairs are separated but within margin, others just outside; no state perturbation afterwards
static mjSpec* margin_spec(uint64_t seed, int nb) {
  mjg_rng R = { seed * 0x9E3779B97F4A7C15ULL + 31337 }; mjg_rng* r = &R;
  mjSpec* s = mj_makeSpec();
  s->memory = 1 << 26;
  mjsBody* world = mjs_findBody(s, "world");
  int ngeom = 0; char nm[32];
  // per placed geom: world centre, bounding radius, margin + gap
  double gc[256][3], gr[256], gm[256]; int ng_all = 0;
  if (mjg_chance(r, 0.3)) {     // a static geom with margin in the world body
    mjsGeom* g = mjs_addGeom(world, NULL); gname(nm, ngeom++); mjs_setName(g->element, nm);
    g->type = mjGEOM_BOX; g->size[0] = g->size[1] = 0.3; g->size[2] = 0.1; g->pos[2] = -0.6;
    g->margin = mjg_chance(r, 0.7) ? mjg_range(r, 0.03, 0.3) : 0;
  }
  int npb = 0; const double origin[3] = {0, 0, 0};
  if (mjg_chance(r, 0.25)) add_plane_body(r, world, mjg_chance(r, 0.5), origin, &ngeom, &npb);      // plane body BEFORE the moving bodies
  for (int b = 0; b < nb; b++) {
    mjsBody* body = mjs_addBody(world, NULL); bname(nm, b); mjs_setName(body->element, nm);
    mjsJoint* j = mjs_addJoint(body, NULL); j->type = mjJNT_FREE;
    double q[4] = {1, 0, 0, 0}; if (mjg_chance(r, 0.6)) mjg_quat(r, q);
    for (int i = 0; i < 4; i++) body->quat[i] = q[i];
    int ng = mjg_chance(r, 0.25) ? 1 : 2 + mjg_int(r, 3);
    double bm = mjg_chance(r, 0.8) ? mjg_range(r, 0.03, 0.3) : 0;      // body-wide margin style
    double lpos[8][3], lr[8], lm[8];
    for (int k = 0; k < ng; k++) {
      mjsGeom* g = mjs_addGeom(body, NULL); gname(nm, ngeom++); mjs_setName(g->element, nm);
      int t = mjg_int(r, 8);
      g->type = t <= 3 ? mjGEOM_SPHERE : t == 4 ? mjGEOM_CAPSULE : t == 5 ? mjGEOM_ELLIPSOID : t == 6 ? mjGEOM_CYLINDER : mjGEOM_BOX;
      for (int i = 0; i < 3; i++) g->size[i] = mjg_range(r, 0.06, 0.16);
      for (int i = 0; i < 3; i++) g->pos[i] = mjg_range(r, -0.35, 0.35);
      if (mjg_chance(r, 0.5)) mjg_quat(r, g->quat);
      g->margin = mjg_chance(r, 0.75) ? bm : (mjg_chance(r, 0.5) ? 0 : mjg_range(r, 0.0, 0.3));
      if (mjg_chance(r, 0.2)) g->gap = mjg_range(r, 0, 0.1);
      if (mjg_chance(r, 0.15)) { g->contype = 1 + mjg_int(r, 3); g->conaffinity = 1 + mjg_int(r, 3); }
      for (int i = 0; i < 3; i++) lpos[k][i] = g->pos[i];
      double sz0 = g->size[0], sz1 = g->size[1], sz2 = g->size[2];
      lr[k] = g->type == mjGEOM_SPHERE ? sz0 : g->type == mjGEOM_CAPSULE ? sz0 + sz1 : g->type == mjGEOM_CYLINDER ? sqrt(sz0 * sz0 + sz1 * sz1)
            : g->type == mjGEOM_ELLIPSOID ? fmax(sz0, fmax(sz1, sz2)) : sqrt(sz0 * sz0 + sz1 * sz1 + sz2 * sz2);
      lm[k] = g->margin + g->gap;
    }
    if (mjg_chance(r, 0.3)) random_inertial(r, body);
    // placement: geom ka of this body at a chosen surface distance from an earlier geom
    double bpos[3] = {0, 0, 0};
    if (ng_all > 0) {
      int ka = mjg_int(r, ng), kb = mjg_int(r, ng_all);
      double dir[3]; do { for (int i = 0; i < 3; i++) dir[i] = mjg_range(r, -1, 1); } while (mju_norm3(dir) < 0.2);
      mju_normalize3(dir);
      double f = mjg_chance(r, 0.55) ? mjg_range(r, 0.45, 1.02) : mjg_range(r, -0.6, 1.2);
      double dist = gr[kb] + lr[ka] + f * (gm[kb] + lm[ka]) - (mjg_chance(r, 0.2) ? mjg_range(r, 0, 0.1) : 0);
      double off[3]; mju_rotVecQuat(off, lpos[ka], q);
      for (int i = 0; i < 3; i++) bpos[i] = gc[kb][i] + dist * dir[i] - off[i];
    }
    for (int i = 0; i < 3; i++) body->pos[i] = bpos[i];
    for (int k = 0; k < ng && ng_all < 256; k++) {
      double off[3]; mju_rotVecQuat(off, lpos[k], q);
      for (int i = 0; i < 3; i++) gc[ng_all][i] = bpos[i] + off[i];
      gr[ng_all] = lr[k]; gm[ng_all] = lm[k]; ng_all++;
    }
  }
  // plane bodies (static, mocap) AFTER the moving bodies, through the cluster: the plane is then the second geom of its pairs
  for (int k = 0; k < 2; k++)
    if (mjg_chance(r, 0.5) && ng_all > 0) add_plane_body(r, world, k, gc[mjg_int(r, ng_all)], &ngeom, &npb);
  return s;
}

// "sweep" scenes (nb <= -100): two free two-sphere bodies A, B (margins mA, mB) whose facing spheres are at surface distance
// max(mA,mB) + u * min(mA,mB), i.e. inside the contact-inclusion distance mA + mB but beyond either single margin, a single-sphere
// body C on the other side of A, and a margin-less body D just outside B
static mjSpec* sweep_spec(int k) {
  static const double tab[8][3] = {{0.1, 0.1, 0.5}, {0.05, 0.2, 0.3}, {0.2, 0.05, 0.7}, {0.3, 0.3, 0.2}, {0.1, 0.1, 0.9}, {0.15, 0.02, 0.5},
                                   {0.1, 0.1, 1.2}, {0.0, 0.2, 0.5}};
  double mA = tab[k % 8][0], mB = tab[k % 8][1], u = tab[k % 8][2];
  double sdist = fmax(mA, mB) + u * fmin(mA, mB);
  mjSpec* s = mj_makeSpec(); s->memory = 1 << 26;
  mjsBody* world = mjs_findBody(s, "world");
  const double xs[4] = {0, 0.2 + sdist, -(0.2 + 0.5 * (mA + 0.1)), 0.2 + sdist + 0.2 + 0.05};
  const double mg[4] = {mA, mB, 0.1, 0.0};
  const int ngs[4] = {2, 2, 1, 2};
  int ngeom = 0; char nm[32];
  for (int b = 0; b < 4; b++) {
    mjsBody* body = mjs_addBody(world, NULL); bname(nm, b); mjs_setName(body->element, nm);
    body->pos[0] = xs[b]; body->pos[2] = 1 + (b == 2 ? 0.3 : 0);
    mjsJoint* j = mjs_addJoint(body, NULL); j->type = mjJNT_FREE;
    for (int g = 0; g < ngs[b]; g++) {
      mjsGeom* ge = mjs_addGeom(body, NULL); gname(nm, ngeom++); mjs_setName(ge->element, nm);
      ge->type = mjGEOM_SPHERE; ge->size[0] = 0.1; ge->margin = mg[b];
      if (ngs[b] == 2) ge->pos[2] = g ? 0.3 : -0.3;
    }
  }
  return s;
}

// fixed corpus scene (nb = -200): world box, three overlapping free spheres, a static and a mocap body (declared last) each
// carrying a plane: before /repo 3ff575b68 the plane bodies were paired twice and mj_collision raised "broadphase buffer full"
static mjSpec* bpfull_spec(void) {
  mjSpec* s = mj_makeSpec(); s->memory = 1 << 26;
  mjsBody* w = mjs_findBody(s, "world");
  int ngeom = 0; char nm[32];
  mjsGeom* g0 = mjs_addGeom(w, NULL); gname(nm, ngeom++); mjs_setName(g0->element, nm);
  g0->type = mjGEOM_BOX; g0->size[0] = g0->size[1] = 1; g0->size[2] = 0.1; g0->pos[2] = -1;
  for (int i = 0; i < 3; i++) {
    mjsBody* b = mjs_addBody(w, NULL); bname(nm, i); mjs_setName(b->element, nm); b->pos[0] = 0.05 * i; b->pos[2] = 0.05;
    mjsJoint* j = mjs_addJoint(b, NULL); j->type = mjJNT_FREE;
    mjsGeom* g = mjs_addGeom(b, NULL); gname(nm, ngeom++); mjs_setName(g->element, nm); g->type = mjGEOM_SPHERE; g->size[0] = 0.1;
  }
  for (int k = 0; k < 2; k++) {
    mjsBody* pb = mjs_addBody(w, NULL); bname(nm, 3 + k); mjs_setName(pb->element, nm); pb->mocap = k;
    mjsGeom* g = mjs_addGeom(pb, NULL); gname(nm, ngeom++); mjs_setName(g->element, nm);
    g->type = mjGEOM_PLANE; g->size[0] = g->size[1] = 1; g->size[2] = 0.1;
  }
  return s;
}

// kinematic chains with jointless ("tool") bodies: world -> A (free) -> L (hinge) -> T1 (jointless) -> T2 (jointless),
// a second branch L2 (slide) -> T3 (jointless), and jointless bodies S1 -> S2 welded to the world; all geoms are placed
// close to the chain so that the geoms of a weld group overlap those of the weld group one joint up
static mjSpec* chain_spec(uint64_t seed) {
  mjg_rng R = { seed * 0x9E3779B97F4A7C15ULL + 991 }; mjg_rng* r = &R;
  mjSpec* s = mj_makeSpec();
  s->memory = 1 << 26;
  mjsBody* world = mjs_findBody(s, "world");
  int ngeom = 0, nbody = 0; char nm[32];
  double sz = 0.2;
  if (mjg_chance(r, 0.5)) add_geoms(r, world, 1, &ngeom, 0, sz);
  mjsBody* parent = world;
  mjsBody* S1 = NULL;
  if (mjg_chance(r, 0.7)) {
    S1 = mjs_addBody(world, NULL); bname(nm, nbody++); mjs_setName(S1->element, nm);
    for (int i = 0; i < 3; i++) S1->pos[i] = mjg_range(r, -0.15, 0.15);
    add_geoms(r, S1, 1 + mjg_int(r, 2), &ngeom, 0, sz);
    if (mjg_chance(r, 0.6)) {
      mjsBody* S2 = mjs_addBody(S1, NULL); bname(nm, nbody++); mjs_setName(S2->element, nm);
      for (int i = 0; i < 3; i++) S2->pos[i] = mjg_range(r, -0.15, 0.15);
      add_geoms(r, S2, 1, &ngeom, 0, sz);
    }
  }
  int nlink = 2 + mjg_int(r, 3);
  for (int k = 0; k < nlink; k++) {
    mjsBody* L = mjs_addBody(parent, NULL); bname(nm, nbody++); mjs_setName(L->element, nm);
    for (int i = 0; i < 3; i++) L->pos[i] = mjg_range(r, -0.15, 0.15);
    mjsJoint* j = mjs_addJoint(L, NULL);
    j->type = (k == 0) ? (mjg_chance(r, 0.6) ? mjJNT_FREE : mjJNT_HINGE) : (mjg_chance(r, 0.5) ? mjJNT_HINGE : mjJNT_SLIDE);
    if (j->type != mjJNT_FREE) { j->axis[0] = mjg_range(r, -1, 1); j->axis[1] = mjg_range(r, -1, 1); j->axis[2] = 1; }
    add_geoms(r, L, 1 + mjg_int(r, 2), &ngeom, 0, sz);
    if (mjg_chance(r, 0.25)) random_inertial(r, L);
    mjsBody* tip = L;
    int ntool = mjg_int(r, 3);
    for (int t = 0; t < ntool; t++) {           // jointless bodies welded to L
      mjsBody* T = mjs_addBody(tip, NULL); bname(nm, nbody++); mjs_setName(T->element, nm);
      for (int i = 0; i < 3; i++) T->pos[i] = mjg_range(r, -0.12, 0.12);
      add_geoms(r, T, 1 + mjg_int(r, 2), &ngeom, 0, sz);
      tip = T;
    }
    parent = mjg_chance(r, 0.7) ? tip : L;      // the next link hangs on the tool or on the link itself
  }
  { int npb = 0; const double origin[3] = {0, 0, 0};
    if (mjg_chance(r, 0.4)) add_plane_body(r, world, mjg_chance(r, 0.5), origin, &ngeom, &npb); }
  if (mjg_chance(r, 0.4) && nbody >= 2) {
    mjsExclude* e = mjs_addExclude(s);
    char n1[32], n2[32]; int a = mjg_int(r, nbody), b2 = (a + 1 + mjg_int(r, nbody - 1)) % nbody;
    bname(n1, a); bname(n2, b2); mjs_setString(e->bodyname1, n1); mjs_setString(e->bodyname2, n2);
  }
  return s;
}

static double g_jscale = 1.0;   // joint perturbation scale (chain scenes keep the links close)
static void scene_state(const mjModel* m, mjData* d, uint64_t seed) {
  mjg_rng R = { seed * 0xD1342543DE82EF95ULL + 99 }; mjg_rng* r = &R;
  for (int j = 0; j < m->njnt; j++) {
    int a = m->jnt_qposadr[j];
    switch (m->jnt_type[j]) {
      case mjJNT_FREE: { for (int i = 0; i < 3; i++) d->qpos[a + i] = m->qpos0[a + i] + g_jscale * mjg_range(r, -0.15, 0.15);
                         double q[4]; mjg_quat(r, q); if (g_jscale > 0) for (int i = 0; i < 4; i++) d->qpos[a + 3 + i] = q[i]; } break;
      case mjJNT_BALL: { double q[4]; mjg_quat(r, q); for (int i = 0; i < 4; i++) d->qpos[a + i] = q[i]; } break;
      default: d->qpos[a] = m->qpos0[a] + g_jscale * mjg_range(r, -0.6, 0.6);
    }
  }
  for (int i = 0; i < m->nmocap; i++) {
    for (int k = 0; k < 3; k++) d->mocap_pos[3 * i + k] += mjg_range(r, -0.2, 0.2);
    double q[4]; mjg_quat(r, q); for (int k = 0; k < 4; k++) d->mocap_quat[4 * i + k] = q[k];
  }
}

// narrow phase exactly as collisionTask calls it (geoms ordered by type); -1: no collision function
static int narrow(const mjModel* m, mjData* d, int g1, int g2, mjtNum margin) {
  if (m->geom_type[g1] > m->geom_type[g2]) { int t = g1; g1 = g2; g2 = t; }
  mjfCollision f = mjCOLLISIONFUNC[m->geom_type[g1]][m->geom_type[g2]];
  if (!f) return -1;
  mjPreContact con[mjMAXCONPAIR];
  mj_markStack(d);
  int n = f(m, d, con, g1, g2, margin);
  mj_freeStack(d);
  return n;
}

// the frame of mj_broadphase, replicated (only decides on which AAMMs mj_SAP is exercised)
static int bp_frame(const mjModel* m, mjData* d, mjtNum frame[9]) {
  mjtNum cov[9], cen[3], eigval[3], quat[4];
  int cnt = 0; mju_zero3(cen);
  for (int i = 0; i < m->ngeom; i++) if (m->geom_bodyid[i]) { mju_addTo3(cen, d->geom_xpos + 3 * i); cnt++; }
  if (!cnt) return 0;
  mju_scl3(cen, cen, 1.0 / cnt);
  mju_zero(cov, 9);
  for (int i = 0; i < m->ngeom; i++) if (m->geom_bodyid[i]) updateCov(cov, d->geom_xpos + 3 * i, cen);
  mju_scl(cov, cov, 1.0 / cnt, 9);
  mju_eig3(eigval, frame, quat, cov);
  return 1;
}

static void run_scene(uint64_t seed, int nb, int dsbl, int enbl, double omargin) {
  mjSpec* s = nb > 0 ? scene_spec(seed, nb) : nb == 0 ? chain_spec(seed) : nb > -100 ? margin_spec(seed, -nb) : nb > -200 ? sweep_spec(-nb - 100) : bpfull_spec();   // nb = 0: chain scene, nb < 0: margin scene
  mjModel* m = mj_compile(s, NULL);
  if (!m) { { char eb[300]; snprintf(eb, sizeof(eb), "%s", mjs_getError(s)); for (char* q = eb; *q; q++) if (*q == '\n') *q = ' '; printf("SCENE fail %s\nEND\n", eb); } mj_deleteSpec(s); return; }
  m->opt.disableflags = dsbl; m->opt.enableflags = enbl; m->opt.o_margin = omargin;
  mjData* d = mj_makeData(m);
  g_jscale = nb > 0 ? 1.0 : nb == 0 ? 0.2 : 0.0;
  scene_state(m, d, seed);
  if (MJG_TRY) {
    // position stage up to collision only (mj_forward's constraint stage rejects explicit pairs between static bodies)
    mj_kinematics(m, d); mj_comPos(m, d); mj_collision(m, d);
    MJG_END;
  } else { printf("SCENE error %s\nEND\n", mjg_last_error); mj_deleteData(d); mj_deleteModel(m); mj_deleteSpec(s); return; }
  printf("SCENE ok %d %d %d %d %d\n", m->ngeom, m->nbody, m->npair, m->nexclude, d->ncon);
  for (int g = 0; g < m->ngeom; g++)
    printf("G %d %d %d %d %d %a %a\n", g, m->geom_bodyid[g], m->geom_type[g], m->geom_contype[g], m->geom_conaffinity[g],
           m->geom_margin[g], m->geom_gap[g]);
  for (int b = 0; b < m->nbody; b++) {
    int w = m->body_weldid[b];
    printf("B %d %d %d %d %d %d %d %d %d %d %d %d %d\n", b, w, m->body_weldid[m->body_parentid[w]], m->body_dofnum[w], m->body_mocapid[b] >= 0,
           m->body_geomnum[b], m->body_geomadr[b], m->body_bvhadr[b], m->body_contype[b], m->body_conaffinity[b],
           m->body_parentid[b], m->body_jntnum[b], m->body_dofnum[b]);
  }
  for (int k = 0; k < m->npair; k++)
    printf("P %d %d %d %d %a %a\n", k, m->pair_geom1[k], m->pair_geom2[k], m->pair_signature[k], m->pair_margin[k], m->pair_gap[k]);
  for (int k = 0; k < m->nexclude; k++) printf("X %d %d\n", k, m->exclude_signature[k]);
  // observed contacts
  printf("C %d", d->ncon);
  for (int i = 0; i < d->ncon; i++) printf(" %d:%d", d->contact[i].geom[0], d->contact[i].geom[1]);
  printf("\n");
  // determinism: an independent mjData, same state
  {
    mjData* d2 = mj_makeData(m);
    scene_state(m, d2, seed);
    mj_kinematics(m, d2); mj_comPos(m, d2); mj_collision(m, d2);
    int same = d2->ncon == d->ncon;
    for (int i = 0; same && i < d->ncon; i++)
      same = d->contact[i].geom[0] == d2->contact[i].geom[0] && d->contact[i].geom[1] == d2->contact[i].geom[1] &&
             memcmp(&d->contact[i].dist, &d2->contact[i].dist, sizeof(mjtNum)) == 0 &&
             memcmp(d->contact[i].pos, d2->contact[i].pos, 3 * sizeof(mjtNum)) == 0;
    // and a second mj_collision on the same mjData
    int n1 = d->ncon;
    int* gg = (int*)malloc(sizeof(int) * 2 * (n1 + 1));
    for (int i = 0; i < n1; i++) { gg[2 * i] = d->contact[i].geom[0]; gg[2 * i + 1] = d->contact[i].geom[1]; }
    mj_collision(m, d);
    int same2 = d->ncon == n1;
    for (int i = 0; same2 && i < n1; i++) same2 = gg[2 * i] == d->contact[i].geom[0] && gg[2 * i + 1] == d->contact[i].geom[1];
    free(gg);
    printf("D %d %d\n", same, same2);
    mj_deleteData(d2);
  }
  // narrow-phase table for every geom pair of different bodies, with the margin of dynamic pairs
  printf("N");
  for (int g1 = 0; g1 < m->ngeom; g1++)
    for (int g2 = g1 + 1; g2 < m->ngeom; g2++) {
      if (m->geom_bodyid[g1] == m->geom_bodyid[g2]) continue;
      mjtNum margin = (enbl & mjENBL_OVERRIDE) ? omargin : m->geom_margin[g1] + m->geom_margin[g2];
      mjtNum gap = m->geom_gap[g1] + m->geom_gap[g2];
      int n = narrow(m, d, g1, g2, margin + gap);
      // second opinion on "within margin": mj_geomDistance (GJK for box-box / convex pairs, where the SAT-based narrow phase may
      // report a contact although the geoms are farther apart than the margin)
      //   2 = within margin (the property's "within margin": an active contact), 1 = only within margin + gap (inactive contact)
      if (n != 0) {
        mjtNum gd = n > 0 ? mj_geomDistance(m, d, g1, g2, margin + gap + 1, NULL) : 0;
        printf(" %d:%d:%d:%d", g1, g2, n, n > 0 ? (gd < margin ? 2 : gd < margin + gap ? 1 : 0) : 0);
      }
    }
  printf("\n");
  printf("NP");
  for (int k = 0; k < m->npair; k++) {
    mjtNum margin = (enbl & mjENBL_OVERRIDE) ? omargin : m->pair_margin[k];
    int n = narrow(m, d, m->pair_geom1[k], m->pair_geom2[k], margin + m->pair_gap[k]);
    mjtNum gd = n > 0 ? mj_geomDistance(m, d, m->pair_geom1[k], m->pair_geom2[k], margin + m->pair_gap[k] + 1, NULL) : 0;
    printf(" %d:%d:%d", k, n, n > 0 ? (gd < margin ? 2 : gd < margin + m->pair_gap[k] ? 1 : 0) : 0);
  }
  printf("\n");
  // broad phase: AAMMs in the replicated frame, mj_SAP on them, and mj_broadphase itself
  {
    mjtNum frame[9];
    int nbf = m->nbody;
    int* bfid = (int*)malloc(sizeof(int) * (nbf + 1));
    int nc = 0;
    for (int i = 1; i < nbf; i++)      // the bodies mj_broadphase feeds to SAP (dof-less plane bodies are paired separately)
      if (canCollide(m, i) && !(m->body_dofnum[m->body_weldid[i]] == 0 && hasPlane(m, i))) bfid[nc++] = i;
    int have = bp_frame(m, d, frame);
    printf("A %d", have ? nc : 0);
    if (have && nc > 1) {
      mjtNum* aamm = (mjtNum*)malloc(sizeof(mjtNum) * 6 * nc);
      for (int i = 0; i < nc; i++)
        makeAAMM(m, d, aamm + 0 * nc + i, aamm + 1 * nc + i, aamm + 2 * nc + i, aamm + 3 * nc + i, aamm + 4 * nc + i, aamm + 5 * nc + i,
                 bfid[i], frame);
      for (int i = 0; i < nc; i++) printf(" %d", bfid[i]);
      for (int i = 0; i < 6 * nc; i++) printf(" %a", aamm[i]);
      printf("\n");
      int maxp = nc * (nc - 1) / 2;
      int* sp = (int*)malloc(sizeof(int) * (maxp + 1));
      mj_markStack(d);
      int ns = mj_SAP(d, aamm, nc, 0, sp, maxp);
      mj_freeStack(d);
      printf("S %d", ns);
      for (int i = 0; i < ns; i++) printf(" %d:%d", sp[i] >> 16, sp[i] & 0xFFFF);
      printf("\n");
      free(sp); free(aamm);
    } else printf("\nS 0\n");
    int maxbp = nbf * (nbf - 1) / 2 + 1;
    int* bp = (int*)malloc(sizeof(int) * maxbp);
    mj_markStack(d);
    int nbp = mj_broadphase(m, d, bp, maxbp);
    mj_freeStack(d);
    printf("BF %d", nbp);
    for (int i = 0; i < nbp; i++) printf(" %d", bp[i]);
    printf("\n");
    free(bp); free(bfid);
  }
  printf("END\n");
  mj_deleteData(d); mj_deleteModel(m); mj_deleteSpec(s);
}

// end-to-end replay of the float-tie witness: two free boxes of half-size 0.5 side by side along x
//   which = 0: centres at x0 and x0 + 1 - pen ;  order = 0: left body declared first, 1: right body first
static void run_tie(double x0, double pen, int order) {
  mjSpec* s = mj_makeSpec();
  mjsBody* world = mjs_findBody(s, "world");
  double xs[2] = { x0, x0 + 1.0 - pen };
  for (int k = 0; k < 2; k++) {
    int which = order ? 1 - k : k;
    mjsBody* b = mjs_addBody(world, NULL);
    b->pos[0] = xs[which]; b->pos[1] = 0; b->pos[2] = 0;
    mjsJoint* j = mjs_addJoint(b, NULL); j->type = mjJNT_FREE;
    mjsGeom* g = mjs_addGeom(b, NULL); g->type = mjGEOM_BOX; g->size[0] = g->size[1] = g->size[2] = 0.5;
  }
  mjModel* m = mj_compile(s, NULL);
  if (!m) { printf("TIE fail\n"); mj_deleteSpec(s); return; }
  mjData* d = mj_makeData(m);
  mj_forward(m, d);
  int g_left = order ? 1 : 0, g_right = order ? 0 : 1;
  int n = narrow(m, d, 0, 1, 0);
  mjtNum dist = mj_geomDistance(m, d, 0, 1, 1.0, NULL);
  // the x intervals the sweep sees (frame of the broadphase) and their float casts
  mjtNum frame[9]; bp_frame(m, d, frame);
  mjtNum a[12];
  for (int i = 0; i < 2; i++) makeAAMM(m, d, a + 0 + i, a + 2 + i, a + 4 + i, a + 6 + i, a + 8 + i, a + 10 + i, i + 1, frame);
  int sp[4]; mj_markStack(d); int ns = mj_SAP(d, a, 2, 0, sp, 1); mj_freeStack(d);
  printf("TIE ncon %d narrow %d dist %a sap %d left %d right %d aamm", d->ncon, n, dist, ns, g_left, g_right);
  for (int i = 0; i < 12; i++) printf(" %a", a[i]);
  printf(" fl");
  for (int i = 0; i < 12; i++) printf(" %a", (double)(float)a[i]);
  printf("\n");
  mj_deleteData(d); mj_deleteModel(m); mj_deleteSpec(s);
}

int main(void) {
  mjg_install_handlers();
  mini();
  char op[16];
  while (scanf("%15s", op) == 1) {
    if (!strcmp(op, "FBM")) {
      int c1, a1, c2, a2; if (scanf("%d %d %d %d", &c1, &a1, &c2, &a2) != 4) return 2;
      printf("%d\n", filterBitmask(c1, a1, c2, a2));
    } else if (!strcmp(op, "FBP")) {
      int v[9]; for (int i = 0; i < 9; i++) if (scanf("%d", &v[i]) != 1) return 2;
      printf("%d\n", filterBodyPair(v[0], v[1], v[2], v[3], v[4], v[5], v[6], v[7], v[8]));
    } else if (!strcmp(op, "CC") || !strcmp(op, "CC2")) {
      int two = op[2] == '2';
      int ct[2] = {0, 0}, ca[2] = {0, 0};
      for (int i = 0; i < (two ? 2 : 1); i++) if (scanf("%d %d", &ct[i], &ca[i]) != 2) return 2;
      mjModel fm; memset(&fm, 0, sizeof(fm));
      fm.nbody = 2; fm.body_contype = ct; fm.body_conaffinity = ca;
      printf("%d\n", two ? canCollide2(&fm, 0, 1) : canCollide(&fm, 0));
    } else if (!strcmp(op, "ADD")) {
      int usem, maxpair, nbd; if (scanf("%d %d %d", &usem, &maxpair, &nbd) != 3) return 2;
      int* adr = (int*)calloc(nbd + 1, sizeof(int)); int* num = (int*)calloc(nbd + 1, sizeof(int));
      int cap = 1024, ng = 0; int* ct = (int*)malloc(sizeof(int) * cap); int* ca = (int*)malloc(sizeof(int) * cap);
      for (int b = 0; b < nbd; b++) {
        if (scanf("%d", &num[b]) != 1) return 2;
        adr[b] = ng;
        for (int k = 0; k < num[b]; k++) { if (ng >= cap) return 2; if (scanf("%d %d", &ct[ng], &ca[ng]) != 2) return 2; ng++; }
      }
      mjModel fm; memset(&fm, 0, sizeof(fm));
      fm.nbody = nbd; fm.body_geomadr = adr; fm.body_geomnum = num; fm.geom_contype = ct; fm.geom_conaffinity = ca;
      int k; if (scanf("%d", &k) != 1) return 2;
      int* pair = (int*)calloc((maxpair > 0 ? maxpair : 0) + 1, sizeof(int));
      int npair = 0, err = 0;
      for (int i = 0; i < k; i++) {
        int b1, b2; if (scanf("%d %d", &b1, &b2) != 2) return 2;
        if (err) continue;
        if (MJG_TRY) { add_pair(usem ? &fm : NULL, b1, b2, &npair, pair, maxpair); MJG_END; } else err = 1;
      }
      printf("%s %d", err ? "E" : "K", npair);
      for (int i = 0; i < npair; i++) printf(" %d", pair[i]);
      printf("\n");
      free(adr); free(num); free(ct); free(ca); free(pair);
    } else if (!strcmp(op, "SAP")) {
      int n, axis, maxpair; if (scanf("%d %d %d", &n, &axis, &maxpair) != 3) return 2;
      mjtNum* a = (mjtNum*)malloc(sizeof(mjtNum) * (6 * n + 1));
      for (int i = 0; i < 6 * n; i++) if (scanf("%la", &a[i]) != 1) return 2;
      int* pr = (int*)malloc(sizeof(int) * ((maxpair > 0 ? maxpair : 0) + 2));
      mj_markStack(g_d0);
      int ret = mj_SAP(g_d0, a, n, axis, pr, maxpair);
      mj_freeStack(g_d0);
      printf("%d", ret);
      for (int i = 0; i < ret; i++) printf(" %d:%d", pr[i] >> 16, pr[i] & 0xFFFF);
      printf("\n");
      free(a); free(pr);
    } else if (!strcmp(op, "SCENE")) {
      unsigned long long seed; int nb, dsbl, enbl; double om;
      if (scanf("%llu %d %d %d %lf", &seed, &nb, &dsbl, &enbl, &om) != 5) return 2;
      run_scene(seed, nb, dsbl, enbl, om);
    } else if (!strcmp(op, "TIE")) {
      double x0, pen; int order; if (scanf("%lf %lf %d", &x0, &pen, &order) != 3) return 2;
      run_tie(x0, pen, order);
    } else return 3;
  }
  return 0;
}
