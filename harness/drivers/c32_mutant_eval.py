#!/usr/bin/env python3
"""usage: c32_mutant_eval.py <log of selftest/mutant.sh ... C32>
Until the C32 findings are listed in KNOWN_FINDINGS.json the unchanged tree already reports them; this
helper prints the violation classes of a self-test run that are NOT among those baseline classes
(= what the mutant added) and the broken ties.  KILLED when anything is added, QUIET otherwise."""
import json, re, sys
BASELINE = {"writer-tag-energy-sensor", "actdim-class-default", "default-userdata-zero", "emptykey", "settotalmass", "inertiafromgeom",
            "inertiagrouprange", "balanceinertia", "fitaabb", "mesh", "hfield", "tolerance-1e-12", "bodyframe", "freealign"}
log = open(sys.argv[1]).read()
added = []
for f in re.findall(r"replay=(\S+\.json)", log):
    v = json.load(open(f))
    sig = v.get("signature") or {}
    cls = sig.get("class")
    if v["kind"] != "impl_violation" or cls not in BASELINE:
        added.append((v["kind"], json.dumps(sig), str(v.get("theorem"))[:70], str(v.get("observed"))[:140]))
ev = None
for a in added:
    print("ADDED", a)
print("KILLED" if added else "QUIET", sys.argv[1])
