// C19 support driver: "every public engine call returns with the stack pointer it started with",
// observed around public API calls on a scene built from the working tree (library code, not a
// textual include).  Also reports the alignment of d->arena and of arena blocks for alignments
// up to 4096 on a real mjData.
// stdout: one line per call:  <name> <pstack before> <pbase before> <pstack after> <pbase after> <returned 1|error 0>
#include <setjmp.h>
#include <stdint.h>
#include <stdio.h>
#include <stdlib.h>
#include <string.h>
#include <mujoco/mujoco.h>
#include "engine/engine_memory.h"
#include "c19_scene.h"

static jmp_buf jb;
static void on_error(const char* msg) { (void)msg; longjmp(jb, 1); }
static void on_warning(const char* msg) { (void)msg; }

#define CALL(name, stmt) do { \
    size_t ps0 = d->pstack, pb0 = d->pbase; volatile int ok = 1; \
    if (setjmp(jb) == 0) { stmt; } else { ok = 0; } \
    printf("%s %zu %zu %zu %zu %d\n", name, ps0, pb0, d->pstack, d->pbase, ok); \
    if (!ok) { mj_resetData(m, d); OUTER(); } \
  } while (0)

int main(int argc, char** argv) {
  int nbody = argc > 1 ? atoi(argv[1]) : 8;
  int nlink = argc > 2 ? atoi(argv[2]) : 3;
  long long memory = argc > 3 ? atoll(argv[3]) : -1;
  mju_user_error = on_error;
  mju_user_warning = on_warning;
  char err[1000] = "";
  mjModel* m = verif_scene(nbody, nlink, memory, argc > 4 ? atoi(argv[4]) : 0, argc > 5 ? atoi(argv[5]) : 1, 0, err, sizeof(err));
  if (!m) { fprintf(stderr, "compile failed: %s\n", err); return 2; }
  mjData* d = mj_makeData(m);
  if (!d) return 2;
  printf("arena %zu narena %lld\n", (size_t)((uintptr_t)d->arena % 4096), (long long)d->narena);
  int nv = m->nv;
  mjtNum* M = calloc((size_t)nv * nv + 1, sizeof(mjtNum));
  mjtNum* jac = calloc(6 * (size_t)nv + 1, sizeof(mjtNum));
  mjtNum* A = calloc((size_t)(2*nv + m->na) * (2*nv + m->na) + 1, sizeof(mjtNum));
  mjtNum pnt[3] = {0, 0, 3}, vec[3] = {0, 0, -1}; int geomid[1];
  // an open frame and a block of the caller, so that pstack/pbase are non-zero around the calls
#define OUTER() do { mj_markStack(d); memset(mj_stackAllocByte(d, 100, 8), 0x5A, 100); } while (0)
  OUTER();
  CALL("mj_forward", mj_forward(m, d));
  for (int i = 0; i < 3; i++) CALL("mj_step", mj_step(m, d));
  CALL("mj_step1", mj_step1(m, d));
  CALL("mj_step2", mj_step2(m, d));
  CALL("mj_inverse", mj_inverse(m, d));
  CALL("mj_forwardSkip", mj_forwardSkip(m, d, mjSTAGE_POS, 1));
  CALL("mj_kinematics", mj_kinematics(m, d));
  CALL("mj_comPos", mj_comPos(m, d));
  CALL("mj_makeM", mj_makeM(m, d));
  CALL("mj_factorM", mj_factorM(m, d));
  CALL("mj_collision", mj_collision(m, d));
  CALL("mj_makeConstraint", mj_makeConstraint(m, d));
  CALL("mj_island", mj_island(m, d));
  CALL("mj_projectConstraint", mj_projectConstraint(m, d));
  CALL("mj_fwdPosition", mj_fwdPosition(m, d));
  CALL("mj_fwdVelocity", mj_fwdVelocity(m, d));
  CALL("mj_fwdActuation", mj_fwdActuation(m, d));
  CALL("mj_fwdAcceleration", mj_fwdAcceleration(m, d));
  CALL("mj_fwdConstraint", mj_fwdConstraint(m, d));
  CALL("mj_sensorPos", mj_sensorPos(m, d));
  CALL("mj_energyPos", mj_energyPos(m, d));
  CALL("mj_energyVel", mj_energyVel(m, d));
  CALL("mj_Euler", mj_Euler(m, d));
  CALL("mj_forward", mj_forward(m, d));
  CALL("mj_RungeKutta", mj_RungeKutta(m, d, 4));
  CALL("mj_forward", mj_forward(m, d));
  CALL("mj_implicit", mj_implicit(m, d));
  CALL("mj_fullM", mj_fullM(m, d, M));
  CALL("mj_jacBody", mj_jacBody(m, d, jac, jac + 3*nv, m->nbody - 1));
  CALL("mj_ray", mj_ray(m, d, pnt, vec, NULL, 1, -1, geomid, NULL));
  CALL("mj_rne", mj_rne(m, d, 1, jac));
  CALL("mj_constraintUpdate", mj_constraintUpdate(m, d, d->efc_force, NULL, 0));
  CALL("mjd_transitionFD", mjd_transitionFD(m, d, 1e-6, 1, A, NULL, NULL, NULL));
  mj_resetData(m, d);   // resets pstack and pbase to 0 by definition
  printf("reset %zu %zu\n", d->pstack, d->pbase);
  OUTER();
  CALL("mj_step", mj_step(m, d));
  // alignment of arena blocks on a real mjData
  mj_resetData(m, d);
  for (size_t al = 1; al <= 4096; al *= 2) {
    void* p = mj_arenaAllocByte(d, 3, al);
    mj_markStack(d);
    void* q = mj_stackAllocByte(d, 3, al);
    mj_freeStack(d);
    printf("align %zu %d %d\n", al, p ? (int)((uintptr_t)p % al == 0) : -1, q ? (int)((uintptr_t)q % al == 0) : -1);
  }
  mj_deleteData(d); mj_deleteModel(m);
  return 0;
}
