"""C41 driver: runs doc/generate/mjcf_schema.py of the working tree under test on a list of texts and
prints one canonical outcome line per text.

usage: /venv/bin/python c41_parse.py <repo> < cases.json
  cases.json: {"cases": [{"text": str, "rl": int|null}, ...]}
  rl = number of Python frames that must be available below _validate (null: interpreter default)

output (one line per case, space separated integers, same encoding as Model/SchemaLang.v `outcome`):
  0 <dump of the schema>      parse_string returned a Schema
  1 <line>                    SchemaError
  2 <code> <class name>       any other exception (1 IndexError, 2 KeyError, 3 RecursionError, 5 TypeError, 9 other)
first line:  CAL <offset> <default recursion limit>   (frames below _validate = limit - offset)
"""
import json
import math
import os
import sys


def load(repo):
    sys.path.insert(0, os.path.join(repo, 'doc', 'generate'))
    import mjcf_schema  # noqa
    return mjcf_schema


def d_str(s):
    return [len(s)] + [ord(c) for c in s]


def d_ostr(s):
    if s is None:
        return [0]
    if not isinstance(s, str):
        return [9, 9, 9]
    return [1] + d_str(s)


def d_fl(x):
    if x != x:
        return [2, 0]
    s = 1 if math.copysign(1.0, x) < 0 else 0
    if x == 0:
        return [0, s]
    if math.isinf(x):
        return [1, s]
    m, e = math.frexp(abs(x))
    M = int(m * (1 << 53))
    E = e - 53
    if E < -1074:
        sh = -1074 - E
        M >>= sh
        E = -1074
    return [3, s, M, E]


def d_list(f, l):
    out = [len(l)]
    for x in l:
        out += f(x)
    return out


TYPES = ['double', 'float', 'int', 'bool', 'string', 'file', 'chars', 'enum', 'flags', 'id', 'ref']
KINDS = ['exclusive', 'together', 'requires', 'oneof']


def d_arity(a):
    lo = a.lo if isinstance(a.lo, int) and not isinstance(a.lo, bool) else -999
    if a.hi is None:
        return [lo, 0]
    if isinstance(a.hi, str):
        return [lo, 2] + d_str(a.hi)
    if isinstance(a.hi, int) and not isinstance(a.hi, bool):
        return [lo, 1, a.hi]
    return [lo, 9]


def d_dflt(d):
    if d is None:
        return [0]
    if isinstance(d, float):
        return [1] + d_fl(d)
    if isinstance(d, str):
        return [2] + d_str(d)
    if isinstance(d, tuple) and all(isinstance(x, float) for x in d):
        return [3] + d_list(d_fl, list(d))
    return [9]


def d_fval(v):
    if v is True:
        return [0]
    if isinstance(v, str):
        return [1] + d_str(v)
    if isinstance(v, float):
        return [2] + d_fl(v)
    return [9]


def d_facets(f):
    return d_list(lambda kv: d_str(kv[0]) + d_fval(kv[1]), list(f.items()))


def make_dump(M):
    def d_attr(a):
        return (d_str(a.name) + [TYPES.index(a.type) if a.type in TYPES else 99] + d_ostr(a.target) +
                d_arity(a.arity) + d_dflt(a.default) + d_facets(a.facets) + d_ostr(a.doc) + [a.line])

    def d_member(m):
        if isinstance(m, M.Attr):
            return [1] + d_attr(m)
        if isinstance(m, M.Use):
            return [2] + d_str(m.group) + [m.line]
        if isinstance(m, M.Child):
            return [3] + d_str(m.name) + d_str(m.card) + d_ostr(m.doc) + [m.line]
        if isinstance(m, M.Const):
            return [4] + d_str(m.field) + d_str(m.value) + d_ostr(m.doc) + [m.line]
        if isinstance(m, M.Constraint):
            return ([5, KINDS.index(m.kind) if m.kind in KINDS else 99] +
                    d_list(lambda b: d_list(d_str, list(b)), m.bundles) + d_ostr(m.doc) + [m.line])
        return [99]

    def d_group(g):
        return (d_str(g.name) + [1 if g.variant else 0] + d_list(d_member, g.members) + d_ostr(g.doc) + [g.line])

    def d_element(e):
        return (d_str(e.name) + d_ostr(e.spec) + d_facets(e.facets) + d_list(d_member, e.members) +
                d_ostr(e.doc) + [e.line])

    def d_enum(e):
        return (d_str(e.name) + d_ostr(e.ctype) + d_list(lambda kv: d_str(kv[0]) + d_str(kv[1]), e.items) +
                d_ostr(e.doc) + [e.line])

    def keyed(f, table):
        out = [len(table)]
        for k, v in table.items():
            if k != v.name:
                out += [777]
            out += f(v)
        return out

    def dump(s):
        return keyed(d_enum, s.enums) + keyed(d_group, s.groups) + keyed(d_element, s.elements)
    return dump


EXN = {'IndexError': 1, 'KeyError': 2, 'RecursionError': 3, 'TypeError': 5}


def run_one(M, dump, text):
    # every case and the calibration go through this function: the stack depth at parse_string is fixed
    try:
        s = M.parse_string(text)
    except M.SchemaError as e:
        return [1, e.line], ''
    except BaseException as e:  # noqa
        return [2, EXN.get(type(e).__name__, 9)], type(e).__name__
    try:
        return [0] + dump(s), ''
    except BaseException as e:  # noqa
        return [2, 8], 'dump:' + type(e).__name__


def chain(n):
    s = ''.join('group g%d { use g%d }\n' % (i, i + 1) for i in range(n - 1))
    return s + 'group g%d { a : int }\n' % (n - 1)


def exec_case(M, dump, text, limit):
    """always called from main(): parse_string then runs at a fixed stack depth"""
    old = sys.getrecursionlimit()
    if limit is not None:
        sys.setrecursionlimit(limit)
    try:
        return run_one(M, dump, text)
    finally:
        sys.setrecursionlimit(old)


def main():
    repo = sys.argv[1]
    M = load(repo)
    dump = make_dump(M)
    default_limit = sys.getrecursionlimit()
    # calibration: frames available below _validate = recursion limit - offset
    offs = []
    for limit in (120, 90):
        n = 1
        while n < limit + 5 and exec_case(M, dump, chain(n), limit)[0][0] == 0:
            n += 1
        offs.append(limit - (n - 1))
    offset = offs[0] if offs[0] == offs[1] else -1
    print('CAL %d %d' % (offset, default_limit))
    cases = json.load(sys.stdin)['cases']
    for c in cases:
        rl = c.get('rl')
        # offset < 0: the implementation no longer spends one frame per use edge; the limit is then left alone
        out, name = exec_case(M, dump, c['text'], None if rl is None or offset < 0 else rl + offset)
        print(' '.join(map(str, out)) + ((' ' + name) if name else ''))
    sys.stdout.flush()


if __name__ == '__main__':
    main()
