// mjcmp.h — bitwise comparison of two mjData of the same model: every MJDATA_POINTERS array, every
// arena array (contact, efc_*, island arrays, ...), the scalar fields and the vector fields except
// timers.  Returns the number of differing fields and writes the names of the first few into buf.
// Padding bytes inside mjContact are not compared (fields are compared one by one).
#ifndef VERIF_MJCMP_H_
#define VERIF_MJCMP_H_
#include <stdio.h>
#include <string.h>
#include <mujoco/mujoco.h>
#include <mujoco/mjxmacro.h>

static int mjcmp_contact(const mjContact* a, const mjContact* b, int cmpH) {
  return memcmp(&a->dist, &b->dist, sizeof(mjtNum)) || memcmp(a->pos, b->pos, sizeof(a->pos)) ||
         memcmp(a->frame, b->frame, sizeof(a->frame)) || memcmp(&a->includemargin, &b->includemargin, sizeof(mjtNum)) ||
         memcmp(a->friction, b->friction, sizeof(a->friction)) || memcmp(a->solref, b->solref, sizeof(a->solref)) ||
         memcmp(a->solreffriction, b->solreffriction, sizeof(a->solreffriction)) ||
         memcmp(a->solimp, b->solimp, sizeof(a->solimp)) || memcmp(&a->mu, &b->mu, sizeof(mjtNum)) ||
         (cmpH && memcmp(a->H, b->H, sizeof(a->H))) || a->dim != b->dim || a->geom1 != b->geom1 || a->geom2 != b->geom2 ||
         memcmp(a->geom, b->geom, sizeof(a->geom)) || memcmp(a->flex, b->flex, sizeof(a->flex)) ||
         memcmp(a->elem, b->elem, sizeof(a->elem)) || memcmp(a->vert, b->vert, sizeof(a->vert)) ||
         a->exclude != b->exclude || a->efc_address != b->efc_address;
}

// skip_mask bit 0: skip solver statistics (solver, solver_niter, solver_nnz, solver_fwdinv)
// skip_mask bit 1: skip contact[i].H (cone Hessian scratch: only rewritten for middle-zone contacts)
// The sparse index arrays of efc_J are compared only when the Jacobian is sparse (unset otherwise);
// a dense efc_J is compared on its used part nefc*nv (nJ is an allocation upper bound).
static int mjcmp_data(const mjModel* m, const mjData* a, const mjData* b, char* buf, int nbuf, int skip_mask) {
  int ndiff = 0; int pos = 0; int sparse = mj_isSparse(m);
  if (buf && nbuf > 0) buf[0] = 0;
#define MJCMP_REPORT(nm) do { ndiff++; if (buf && pos < nbuf - 40) pos += snprintf(buf + pos, nbuf - pos, "%s ", nm); } while (0)
  // scalars (memory bookkeeping fields that legitimately differ between instances are skipped)
#define X(type, name) \
  if (strcmp(#name, "threadpool") && strcmp(#name, "maxuse_stack") && strcmp(#name, "maxuse_arena") && \
      strcmp(#name, "maxuse_con") && strcmp(#name, "maxuse_efc") && strcmp(#name, "narena") && \
      strcmp(#name, "nbuffer") && strcmp(#name, "pstack") && strcmp(#name, "pbase") && strcmp(#name, "parena")) \
    { if (memcmp(&a->name, &b->name, sizeof(type))) MJCMP_REPORT(#name); }
  MJDATA_SCALAR
#undef X
#define X(type, name, nr, nc) \
  if (strcmp(#name, "timer") && !((skip_mask & 1) && !strncmp(#name, "solver", 6))) \
    { if (memcmp(a->name, b->name, sizeof(type) * (nr) * (nc))) MJCMP_REPORT(#name); }
  MJDATA_VECTOR
#undef X
#define X(type, name, nr, nc) \
  if (memcmp(a->name, b->name, sizeof(type) * (size_t)(m->nr) * (nc))) MJCMP_REPORT(#name);
  MJDATA_POINTERS
#undef X
#undef MJ_D
#define MJ_D(n) (a->n)
#undef MJ_M
#define MJ_M(n) (m->n)
#define X(type, name, nr, nc) \
  if (strcmp(#name, "contact") && (sparse || strncmp(#name, "efc_J_", 6))) { \
    if ((a->name == NULL) != (b->name == NULL)) MJCMP_REPORT(#name "(null)"); \
    else if (a->name && memcmp(a->name, b->name, sizeof(type) * (size_t)((!sparse && !strcmp(#name, "efc_J")) ? a->nefc * m->nv : (nr)) * (nc))) MJCMP_REPORT(#name); }
  MJDATA_ARENA_POINTERS
#undef X
#undef MJ_D
#define MJ_D(n) n
#undef MJ_M
#define MJ_M(n) n
  if (a->ncon == b->ncon) {
    for (int i = 0; i < a->ncon; i++) if (mjcmp_contact(a->contact + i, b->contact + i, !(skip_mask & 2))) { MJCMP_REPORT("contact"); break; }
  }
  return ndiff;
}
#endif
