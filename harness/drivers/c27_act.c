// C27 driver: mj_fwdActuation of the working tree on mjgen models extended with muscles, actuator
// groups / disableactuator, joint and tendon actuator-force ranges, actearly; and the exported muscle
// functions.  engine_forward.c is #included so that the file-local wrapPeriod is reachable.
//
// stdin, one request per line:
//   M seed feat nbody variant       model + random state -> mj_forward -> dump (see below) -> mj_step
//       dump: C per control (ctrllimited lo hi ctrl), O per output (length velocity force), A per actuator, T tendons,
//       MOM nout x nv moment, DOF per dof, Q qfrc_actuator, AD act_dot, 4 x N: act after each of four steps
//   G len vel lr0 lr1 acc0 prm[9]   mju_muscleGain
//   B len lr0 lr1 acc0 prm[9]       mju_muscleBias
//   D ctrl act p0 p1 p2             mju_muscleDynamics
//   L len lmin lmax                 mju_muscleGainLength
//   S x                             mju_sigmoid
#include "engine/engine_forward.c"
#include "mjgen.h"

static void pv(const mjtNum* x, int n) { for (int i = 0; i < n; i++) printf(" %a", x[i]); }

static void model_case(unsigned long long seed, unsigned feat, int nbody, int variant) {
  mjg_rng R = { seed * 0x9E3779B97F4A7C15ULL + 77u * (unsigned)variant + 5 }; mjg_rng* r = &R;
  mjSpec* s = mjg_spec(seed, feat, nbody);
  // ---- extras on top of the generated spec
  mjsJoint* scal[256]; int nscal = 0;
  for (mjsElement* e = mjs_firstElement(s, mjOBJ_JOINT); e; e = mjs_nextElement(s, e)) {
    mjsJoint* j = mjs_asJoint(e);
    if (j && (j->type == mjJNT_HINGE || j->type == mjJNT_SLIDE) && nscal < 256) scal[nscal++] = j;
  }
  for (int k = 0; k < nscal; k++) {
    if (mjg_chance(r, 0.35)) {
      scal[k]->actfrclimited = mjLIMITED_TRUE;
      scal[k]->actfrcrange[0] = -mjg_range(r, 0.2, 3); scal[k]->actfrcrange[1] = mjg_range(r, 0.2, 3);
    }
    if ((feat & MJG_GRAVCOMP) && mjg_chance(r, 0.4)) scal[k]->actgravcomp = 1;
  }
  for (mjsElement* e = mjs_firstElement(s, mjOBJ_TENDON); e; e = mjs_nextElement(s, e)) {
    mjsTendon* t = mjs_asTendon(e);
    if (t && mjg_chance(r, 0.5)) {
      t->actfrclimited = mjLIMITED_TRUE; t->actfrcrange[0] = -mjg_range(r, 0.1, 1.5); t->actfrcrange[1] = mjg_range(r, 0.1, 1.5);
    }
  }
  for (mjsElement* e = mjs_firstElement(s, mjOBJ_ACTUATOR); e; e = mjs_nextElement(s, e)) {
    mjsActuator* a = mjs_asActuator(e);
    if (!a) continue;
    static const int groups[8] = {0, 1, 2, 3, 4, 5, 30, 31};
    a->group = groups[mjg_int(r, 8)];
    if (mjg_chance(r, 0.1)) a->group = -1 - mjg_int(r, 2);
    if (a->dyntype != mjDYN_NONE) a->actearly = mjg_chance(r, 0.5);
    if (mjg_chance(r, 0.3)) { a->forcelimited = mjLIMITED_TRUE; a->forcerange[0] = -mjg_range(r, 0.1, 1); a->forcerange[1] = mjg_range(r, 0.1, 1); }
  }
  // multi-output actuator in the middle of the list: an SO3 orientation servo (3 outputs, 3 or 4 controls)
  // on its own ball joint, declared AFTER the generated scalars and BEFORE force-limited scalar motors and
  // the muscles, so that actuator index, control index and output index all differ for what follows
  int with_so3 = (variant % 3 != 1);
  if (with_so3) {
    mjsBody* sb = mjs_addBody(mjs_findBody(s, "world"), NULL); mjs_setName(sb->element, "so3body");
    sb->pos[0] = -1.5; sb->pos[2] = 0.7;
    mjsJoint* bj = mjs_addJoint(sb, NULL); bj->type = mjJNT_BALL; mjs_setName(bj->element, "so3ball");
    mjsGeom* bg = mjs_addGeom(sb, NULL); bg->type = mjGEOM_BOX; bg->size[0] = 0.05; bg->size[1] = 0.08; bg->size[2] = 0.11;
    bg->contype = 0; bg->conaffinity = 0;
    int nso3 = 1 + (variant % 5 == 0);
    for (int k = 0; k < nso3; k++) {
      mjsActuator* a = mjs_addActuator(s, NULL);
      char nmb[32]; snprintf(nmb, sizeof(nmb), "so3_%d", k); mjs_setName(a->element, nmb);
      double kv = mjg_range(r, 0, 2);
      int chart = mjg_chance(r, 0.5) ? mjCHART_EXPMAP : mjCHART_QUAT;
      mjs_setToOrientation(a, mjg_range(r, 1, 30), &kv, NULL, chart);
      a->trntype = mjTRN_JOINT; mjs_setString(a->target, "so3ball");
      a->group = mjg_int(r, 4);
      if (mjg_chance(r, 0.5)) { a->forcelimited = mjLIMITED_TRUE; a->forcerange[0] = 0; a->forcerange[1] = mjg_range(r, 0.5, 6); }
    }
    if (nscal > 0) {
      int nafter = 1 + mjg_int(r, 3);
      for (int k = 0; k < nafter; k++) {
        mjsActuator* a = mjs_addActuator(s, NULL);
        char nmb[32]; snprintf(nmb, sizeof(nmb), "after%d", k); mjs_setName(a->element, nmb);
        a->trntype = mjTRN_JOINT;
        mjs_setString(a->target, mjs_getString(mjs_getName(scal[mjg_int(r, nscal)]->element)));
        mjs_setToMotor(a);
        a->gainprm[0] = mjg_range(r, 0.5, 3);
        a->gear[0] = mjg_range(r, 0.5, 2);
        a->group = 10 + k;      // never disabled by the masks below
        if (k == 0 || mjg_chance(r, 0.6)) { a->forcelimited = mjLIMITED_TRUE; a->forcerange[0] = -mjg_range(r, 0.2, 2); a->forcerange[1] = mjg_range(r, 0.2, 2) + 3 * k; }
        if (mjg_chance(r, 0.3)) { a->ctrllimited = mjLIMITED_TRUE; a->ctrlrange[0] = -mjg_range(r, 2, 6); a->ctrlrange[1] = mjg_range(r, 2, 6); }
      }
    }
  }
  if (nscal > 0 && (variant % 2 == 0)) {
    int nm = 1 + mjg_int(r, 2);
    for (int k = 0; k < nm; k++) {
      mjsActuator* a = mjs_addActuator(s, NULL);
      char nmb[32]; snprintf(nmb, sizeof(nmb), "mus%d", k); mjs_setName(a->element, nmb);
      a->trntype = mjTRN_JOINT;
      mjs_setString(a->target, mjs_getString(mjs_getName(scal[mjg_int(r, nscal)]->element)));
      double tc[2] = { mjg_range(r, 0.005, 0.05), mjg_range(r, 0.02, 0.1) };
      double range[2] = { mjg_range(r, 0.5, 0.9), mjg_range(r, 1.0, 1.4) };
      double force = mjg_chance(r, 0.5) ? -1 : mjg_range(r, 1, 50);
      mjs_setToMuscle(a, tc, mjg_chance(r, 0.5) ? 0 : mjg_range(r, 0.05, 0.5), range, force, mjg_range(r, 50, 400),
                      mjg_range(r, 0.3, 0.7), mjg_range(r, 1.3, 1.9), mjg_range(r, 0.8, 2), mjg_range(r, 0.8, 1.6), mjg_range(r, 1.05, 1.5));
      a->lengthrange[0] = -mjg_range(r, 0.3, 0.8); a->lengthrange[1] = mjg_range(r, 0.3, 0.8);
      a->gear[0] = mjg_range(r, 0.5, 2);
      a->group = mjg_int(r, 4);
      a->actearly = mjg_chance(r, 0.5);
      if (mjg_chance(r, 0.3)) { a->forcelimited = mjLIMITED_TRUE; a->forcerange[0] = -mjg_range(r, 1, 20); a->forcerange[1] = 0; }
      if (mjg_chance(r, 0.3)) { a->ctrllimited = mjLIMITED_TRUE; a->ctrlrange[0] = 0; a->ctrlrange[1] = 1; }
    }
  }
  // activation-range stratum: stateful actuators of every dyntype (integrator, filter, filterexact, muscle) with an
  // ASYMMETRIC actrange, no (or a wider) ctrlrange, time constants of the order of the timestep; their state is later
  // put at / next to / beyond an end of the range with a control pushing outwards
  int nedge = nscal > 0 ? 1 + mjg_int(r, 3) : 0;
  for (int k = 0; k < nedge; k++) {
    mjsActuator* a = mjs_addActuator(s, NULL);
    char nmb[32]; snprintf(nmb, sizeof(nmb), "edge%d", k); mjs_setName(a->element, nmb);
    a->trntype = mjTRN_JOINT;
    mjs_setString(a->target, mjs_getString(mjs_getName(scal[mjg_int(r, nscal)]->element)));
    a->gaintype = mjGAIN_FIXED; a->gainprm[0] = mjg_range(r, 0.5, 2);
    a->biastype = mjg_chance(r, 0.5) ? mjBIAS_NONE : mjBIAS_AFFINE; a->biasprm[1] = -mjg_range(r, 0, 1);
    int dt = (variant + k) % 4;
    a->dyntype = dt == 0 ? mjDYN_INTEGRATOR : dt == 1 ? mjDYN_FILTER : dt == 2 ? mjDYN_FILTEREXACT : mjDYN_MUSCLE;
    double h = s->option.timestep;
    a->dynprm[0] = mjg_range(r, 0.5 * h, 5 * h); a->dynprm[1] = mjg_range(r, 0.5 * h, 5 * h); a->dynprm[2] = mjg_chance(r, 0.5) ? 0 : 0.2;
    a->actlimited = mjLIMITED_TRUE;
    int shape = mjg_int(r, 3);
    if (a->dyntype == mjDYN_MUSCLE || shape == 0) { a->actrange[0] = mjg_range(r, 0.05, 0.3); a->actrange[1] = mjg_range(r, 0.4, 0.8); }
    else if (shape == 1) { a->actrange[0] = -mjg_range(r, 0.1, 0.9); a->actrange[1] = mjg_range(r, 0.05, 0.3); }
    else { a->actrange[0] = -mjg_range(r, 0.5, 0.9); a->actrange[1] = -mjg_range(r, 0.05, 0.3); }
    if (mjg_chance(r, 0.3)) { a->ctrllimited = mjLIMITED_TRUE; a->ctrlrange[0] = -8; a->ctrlrange[1] = 8; }
    a->actearly = mjg_chance(r, 0.5);
    a->group = 12 + k;        // never disabled by the masks below
    a->gear[0] = mjg_range(r, 0.5, 2);
  }
  int mask = 0;
  for (int g = 0; g < 6; g++) if (mjg_chance(r, 0.3)) mask |= 1 << g;
  if (mjg_chance(r, 0.3)) mask |= 1 << 30;
  if (variant % 7 == 3) {
    // corpus family: a disabled actuator whose forcerange does not contain 0
    mjsActuator* a = mjs_asActuator(mjs_firstElement(s, mjOBJ_ACTUATOR));
    if (a && a->gaintype != mjGAIN_SO3) { a->forcelimited = mjLIMITED_TRUE; a->forcerange[0] = 0.25; a->forcerange[1] = 1.25; a->group = 1; mask |= 2; }
  }
  s->option.disableactuator = mask;
  int noclamp = mjg_chance(r, 0.15);
  if (noclamp) s->option.disableflags |= mjDSBL_CLAMPCTRL;
  int actoff = (variant % 11 == 5);
  if (actoff) s->option.disableflags |= mjDSBL_ACTUATION;
  mjModel* m = mj_compile(s, NULL);
  if (!m) {
    char e[400]; snprintf(e, sizeof(e), "%s", mjs_getError(s));
    for (char* c = e; *c; c++) if (*c == '\n' || *c == '\r') *c = ' ';
    printf("M ERR %s\n", e); mj_deleteSpec(s); return;
  }
  mjData* d = mj_makeData(m);
  mjg_random_state(m, d, r, 1.0);
  int nact = m->nactuator, nu = m->nu, nout = m->nout, nv = m->nv, na = m->na, nt = m->ntendon;
  for (int i = 0; i < nact; i++) {
    int c = m->actuator_ctrladr[i];
    if (m->actuator_gaintype[i] == mjGAIN_SO3) {
      for (int k = 0; k < m->actuator_ctrlnum[i]; k++) d->ctrl[c + k] = mjg_range(r, -2, 2);
      if (mjg_chance(r, 0.1)) for (int k = 0; k < m->actuator_ctrlnum[i]; k++) d->ctrl[c + k] = 0;
      continue;
    }
    if (m->actuator_dyntype[i] == mjDYN_MUSCLE) { d->ctrl[c] = mjg_range(r, -0.5, 1.5); }
    else if (mjg_chance(r, 0.4)) d->ctrl[c] = mjg_range(r, -8, 8);      // saturating controls
    if (m->actuator_actnum[i] == 1 && m->actuator_dyntype[i] == mjDYN_MUSCLE) d->act[m->actuator_actadr[i]] = mjg_range(r, -0.2, 1.2);
  }
  for (int k = 0; k < nedge; k++) {
    char nmb[32]; snprintf(nmb, sizeof(nmb), "edge%d", k);
    int i = mj_name2id(m, mjOBJ_ACTUATOR, nmb);
    if (i < 0 || m->actuator_actnum[i] != 1) continue;
    int adr = m->actuator_actadr[i], c = m->actuator_ctrladr[i];
    double lo = m->actuator_actrange[2 * i], hi = m->actuator_actrange[2 * i + 1];
    int up = m->actuator_dyntype[i] == mjDYN_MUSCLE ? 1 : mjg_chance(r, 0.5);
    int where = mjg_int(r, 4);     // exactly at the end, just inside, beyond, or well inside
    double end = up ? hi : lo, in = up ? -1 : 1;
    d->act[adr] = where == 0 ? end : where == 1 ? end + in * 1e-3 : where == 2 ? end - in * mjg_range(r, 0.05, 0.3) : end + in * 0.5 * (hi - lo);
    d->ctrl[c] = m->actuator_dyntype[i] == mjDYN_MUSCLE ? mjg_range(r, 0.9, 1.5) : end - in * mjg_range(r, 1, 5);
  }
  // supported subset of the model; the output layout must be the cumulative one
  int ok = nact > 0, ocum = 0, ccum = 0;
  for (int i = 0; i < nact && ok; i++) {
    int so3 = m->actuator_gaintype[i] == mjGAIN_SO3;
    ok = m->actuator_delay[i] == 0 && m->actuator_plugin[i] < 0 && m->actuator_outadr[i] == ocum && m->actuator_ctrladr[i] == ccum &&
         wrapPeriod(m, i) == 0;
    if (so3) ok = ok && m->actuator_biastype[i] == mjBIAS_SO3 && m->actuator_dyntype[i] == mjDYN_NONE && m->actuator_actnum[i] == 0 &&
                  m->actuator_outnum[i] == 3 && (m->actuator_ctrlspec[i] == mjCHART_EXPMAP || m->actuator_ctrlspec[i] == mjCHART_QUAT) &&
                  m->actuator_ctrlnum[i] == (m->actuator_ctrlspec[i] == mjCHART_QUAT ? 4 : 3);
    else ok = ok && m->actuator_dyntype[i] <= mjDYN_MUSCLE && m->actuator_gaintype[i] <= mjGAIN_MUSCLE && m->actuator_biastype[i] <= mjBIAS_MUSCLE &&
                   m->actuator_ctrlnum[i] == 1 && m->actuator_outnum[i] == 1 && m->actuator_actnum[i] <= 1;
    ocum += m->actuator_outnum[i]; ccum += m->actuator_ctrlnum[i];
  }
  ok = ok && ocum == nout && ccum == nu;
  if (!ok) { printf("M SKIP nact %d\n", nact); mj_deleteData(d); mj_deleteModel(m); mj_deleteSpec(s); return; }
  for (int i = 0; i < na; i++) d->act_dot[i] = 7.25 + i;      // stale values must not survive mj_fwdActuation
  mj_forward(m, d);
  printf("M OK nact %d nu %d nout %d nv %d na %d nt %d h %a mask %d noclamp %d actoff %d\n", nact, nu, nout, nv, na, nt,
         m->opt.timestep, m->opt.disableactuator, noclamp, actoff);
  printf("C");
  for (int c = 0; c < nu; c++) { printf(" %d", m->actuator_ctrllimited[c]); pv(m->actuator_ctrlrange + 2 * c, 2); pv(d->ctrl + c, 1); }
  printf("\n");
  printf("O");
  for (int o = 0; o < nout; o++) { pv(d->actuator_length + o, 1); pv(d->actuator_velocity + o, 1); pv(d->actuator_force + o, 1); }
  printf("\n");
  for (int i = 0; i < nact; i++) {
    int adr = m->actuator_actadr[i], num = m->actuator_actnum[i], o = m->actuator_outadr[i];
    printf("A %d %d %d", m->actuator_dyntype[i], m->actuator_gaintype[i], m->actuator_biastype[i]);
    pv(m->actuator_dynprm + mjNDYN * i, 3); pv(m->actuator_gainprm + mjNGAIN * i, 9); pv(m->actuator_biasprm + mjNBIAS * i, 9);
    printf(" %d", m->actuator_forcelimited[i]); pv(m->actuator_forcerange + 2 * i, 2);
    printf(" %d", m->actuator_actlimited[i]); pv(m->actuator_actrange + 2 * i, 2);
    printf(" %d %d %d %d", m->actuator_actearly[i], m->actuator_group[i], num, adr);
    pv(m->actuator_lengthrange + 2 * o, 2); pv(m->actuator_acc0 + o, 1);
    printf(" %d", m->actuator_trntype[i] == mjTRN_TENDON ? m->actuator_trnid[2 * i] : -1);
    printf(" %d %d %d %d %d", m->actuator_ctrladr[i], m->actuator_ctrlnum[i], m->actuator_ctrlspec[i], o, m->actuator_outnum[i]);
    mjtNum zero = 0;
    pv(num ? d->act + adr : &zero, 1); pv(num ? d->act_dot + adr : &zero, 1);
    printf("\n");
  }
  printf("T");
  for (int t = 0; t < nt; t++) { printf(" %d", m->tendon_actfrclimited[t]); pv(m->tendon_actfrcrange + 2 * t, 2); }
  printf("\n");
  mjtNum* dense = (mjtNum*)calloc((size_t)nout * nv + 1, sizeof(mjtNum));
  // accumulate (mju_sparse2dense overwrites on a repeated column index)
  for (int i = 0; i < nout; i++)
    for (int k = 0; k < d->moment_rownnz[i]; k++)
      dense[i * nv + d->moment_colind[d->moment_rowadr[i] + k]] += d->actuator_moment[d->moment_rowadr[i] + k];
  printf("MOM"); pv(dense, nout * nv); printf("\n");
  free(dense);
  // per-dof post-processing data
  int gc = m->flg_gravcomp && !(m->opt.disableflags & mjDSBL_GRAVITY) && mju_norm3(m->opt.gravity) != 0;
  printf("DOF");
  for (int v = 0; v < nv; v++) {
    int j = m->dof_jntid[v];
    int add = gc && m->jnt_actgravcomp[j];
    int lim = m->jnt_actfrclimited[j] && m->jnt_dofadr[j] == v;
    printf(" %d %a %d %a %a", add, d->qfrc_gravcomp[v], lim, m->jnt_actfrcrange[2 * j], m->jnt_actfrcrange[2 * j + 1]);
  }
  printf("\n");
  printf("Q"); pv(d->qfrc_actuator, nv); printf("\n");
  printf("AD"); pv(d->act_dot, na); printf("\n");
  for (int k = 0; k < 4; k++) {       // controls held, four steps
    mj_step(m, d);
    printf("N"); pv(d->act, na); printf("\n");
  }
  mj_deleteData(d); mj_deleteModel(m); mj_deleteSpec(s);
}

int main(void) {
  mjg_install_handlers();
  char line[4096];
  while (fgets(line, sizeof(line), stdin)) {
    char op = line[0];
    char* p = line + 1;
    double x[16]; int n = 0;
    if (op == 'M') {
      unsigned long long seed; unsigned feat; int nbody, variant;
      if (sscanf(p, "%llu %u %d %d", &seed, &feat, &nbody, &variant) != 4) return 2;
      if (MJG_TRY) { model_case(seed, feat, nbody, variant); MJG_END; }
      else printf("M ERR mju_error: %s\n", mjg_last_error);
      fflush(stdout);
      continue;
    }
    char* end;
    while (n < 16) { double v = strtod(p, &end); if (end == p) break; x[n++] = v; p = end; }
    if (op == 'G' && n == 14) { mjtNum lr[2] = {x[2], x[3]}; printf("G %a\n", mju_muscleGain(x[0], x[1], lr, x[4], x + 5)); }
    else if (op == 'B' && n == 13) { mjtNum lr[2] = {x[1], x[2]}; printf("B %a\n", mju_muscleBias(x[0], lr, x[3], x + 4)); }
    else if (op == 'D' && n == 5) { printf("D %a\n", mju_muscleDynamics(x[0], x[1], x + 2)); }
    else if (op == 'L' && n == 3) { printf("L %a\n", mju_muscleGainLength(x[0], x[1], x[2])); }
    else if (op == 'S' && n == 1) { printf("S %a\n", mju_sigmoid(x[0])); }
    else { fprintf(stderr, "bad request: %s", line); return 2; }
  }
  return 0;
}
