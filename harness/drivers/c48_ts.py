"""C48 driver: runs the signal modifiers / TimeSeries methods of <repo>/python/mujoco/sysid/_src
(signal_modifier.py, timeseries.py, parameter.py; imported BY PATH from the tree under test) on the
cases given on stdin (JSON) and prints results plus purity fingerprints (JSON).

Purity: before every call the argument buffers (times, data, every index array of the signal mapping,
the parameter value, extra arrays such as new_times) are fingerprinted: bytes, shape, dtype, and the
identity of the array objects held by the TimeSeries; after the call the fingerprints are taken again.
Aliasing of the result with the input buffers is reported separately (np.shares_memory): a modifier
may return views, but it may never write to its input.

The `mujoco` wheel and scipy/numpy of /venv are library dependencies only (signal_modifier.py does
`import mujoco`; TimeSeries.interpolate calls scipy.interpolate.interp1d).  colorama / tabulate / yaml
are not installed: parameter.py only uses them for printing / file IO, so empty stand-ins are used."""
import hashlib, importlib, json, os, sys, types

repo = sys.argv[1]


def load(repo):
    import mujoco  # noqa: F401
    for name in ("colorama", "tabulate", "yaml"):
        try:
            importlib.import_module(name)
        except ImportError:
            m = types.ModuleType(name)
            if name == "colorama":
                class _C:
                    def __getattr__(self, k):
                        return ""
                m.Fore = _C(); m.Style = _C(); m.Back = _C()
            if name == "tabulate":
                m.tabulate = lambda *a, **k: ""
            sys.modules[name] = m
    for name, sub in (("mujoco.sysid", "python/mujoco/sysid"), ("mujoco.sysid._src", "python/mujoco/sysid/_src")):
        m = types.ModuleType(name)
        m.__path__ = [os.path.join(repo, sub)]
        sys.modules[name] = m
    mods = {}
    for n in ("timeseries", "parameter", "signal_modifier", "signal_transform"):
        mods[n] = importlib.import_module("mujoco.sysid._src." + n)
        assert os.path.realpath(mods[n].__file__).startswith(os.path.realpath(repo)), mods[n].__file__
    return mods


def fp(a):
    import numpy as np
    a = np.asarray(a)
    return [hashlib.sha256(np.ascontiguousarray(a).tobytes()).hexdigest(), list(a.shape), str(a.dtype)]


def run_transform(case, mods):
    """SignalTransform.apply with the registrations of the case: fingerprints of BOTH input series (and of the base
    arrays that the measured series views) before / after, repeated-apply idempotence, and comparison with the
    composition of the standalone modifiers."""
    import numpy as np
    from fnmatch import fnmatch
    tsm, pm, sm, stm = mods["timeseries"], mods["parameter"], mods["signal_modifier"], mods["signal_transform"]
    mapping = lambda: {name: (tsm.SignalType.MjSensor, np.array(idx, dtype=int)) for name, idx in case["mapping"]}
    ptimes = np.array(case["ptimes"], dtype=float); pdata = np.array(case["pdata"], dtype=float)
    pad = case.get("pad", 2)
    mt = np.array(case["mtimes"], dtype=float); md = np.array(case["mdata"], dtype=float)
    dt = (mt[1] - mt[0]) if len(mt) > 1 else 1.0
    base_t = np.concatenate([mt[0] - dt * np.arange(pad, 0, -1), mt, mt[-1] + dt * np.arange(1, pad + 1)])
    base_d = np.vstack([np.full((pad, md.shape[1]), 7.0), md, np.full((pad, md.shape[1]), -7.0)])
    if case.get("fortran"):
        base_d = np.asfortranarray(base_d); pdata = np.asfortranarray(pdata)
    mtimes_v = base_t[pad:len(base_t) - pad] if pad else base_t
    mdata_v = base_d[pad:len(base_d) - pad] if pad else base_d
    predicted = tsm.TimeSeries(ptimes, pdata, mapping())
    measured = tsm.TimeSeries(mtimes_v, mdata_v, mapping())
    params = pm.ParameterDict()
    tr = stm.SignalTransform(normalize=case["normalize"])
    plist = []
    for k, (pat, val, lo, hi) in enumerate(case["delays"]):
        q = pm.Parameter("d%d" % k, val, lo, hi); params.add(q); tr.delay(pat, q); plist.append(q)
    for k, (pat, val, target) in enumerate(case["gains"]):
        q = pm.Parameter("g%d" % k, val, val - 1.0, val + 1.0); params.add(q); tr.gain(pat, q, target=target); plist.append(q)
    for k, (pat, val, target) in enumerate(case["biases"]):
        q = pm.Parameter("b%d" % k, val, val - 1.0, val + 1.0); params.add(q); tr.bias(pat, q, target=target); plist.append(q)

    def fingerprint():
        f = {"predicted.times": fp(predicted.times), "predicted.data": fp(predicted.data), "measured.times": fp(measured.times),
             "measured.data": fp(measured.data), "measured.base_times": fp(base_t), "measured.base_data": fp(base_d),
             "id": [predicted.times is ptimes, predicted.data is pdata, measured.times is mtimes_v, measured.data is mdata_v],
             "predicted.mapping": [[k, fp(v[1])] for k, v in predicted.signal_mapping.items()],
             "measured.mapping": [[k, fp(v[1])] for k, v in measured.signal_mapping.items()],
             "params": [[fp(q.value), fp(q.nominal), fp(q.min_value), fp(q.max_value)] for q in plist]}
        return f

    rec = {"op": "transform"}
    before = fingerprint()
    outs = []
    try:
        for rep in range(3):
            r, p, m = tr.apply(params, predicted, measured, None, True)
            outs.append((np.array(r, copy=True), np.array(p.times, copy=True), np.array(p.data, copy=True), np.array(m.times, copy=True), np.array(m.data, copy=True)))
            after = fingerprint()
            if rep == 0:
                rec["modified"] = sorted(k for k in before if before[k] != after[k])
                rec["outputs_are_inputs"] = bool(p is predicted or m is measured)
                rec["alias_measured"] = bool(np.shares_memory(m.data, base_d)); rec["alias_predicted"] = bool(np.shares_memory(p.data, pdata))
        rec["modified_after_repeats"] = sorted(k for k in before if before[k] != after[k])
        rec["idempotent"] = all(all(np.array_equal(a, b, equal_nan=True) for a, b in zip(outs[0], o)) for o in outs[1:])
        rec["residual"] = outs[0][0].tolist(); rec["residual_third_call"] = outs[2][0].tolist()
    except Exception as e:  # noqa: BLE001
        rec["error"] = type(e).__name__ + ": " + str(e)[:200]
        rec.setdefault("modified", sorted(k for k in before if before[k] != fingerprint()[k]))
    # composition of the standalone modifiers on fresh copies of the inputs
    try:
        P = tsm.TimeSeries(np.array(case["ptimes"], dtype=float), np.array(case["pdata"], dtype=float), mapping())
        M = tsm.TimeSeries(np.array(case["mtimes"], dtype=float), np.array(case["mdata"], dtype=float), mapping())
        names = [n for n, _ in case["mapping"]]
        lo = min([d[2] for d in case["delays"]], default=0.0); hi = max([d[3] for d in case["delays"]], default=0.0)
        Mw = sm.apply_delayed_ts_window(M, P, lo, hi)
        sd = {}
        for pat, val, _, _ in case["delays"]:
            for n in names:
                if fnmatch(n, pat):
                    sd[n] = val
        Pr = sm.apply_resample_and_delay(P, Mw.times, 0.0, sensor_delays=sd) if sd else P.resample(Mw.times)

        def gb(ts, label):
            for k, (pat, val, target) in enumerate(case["gains"]):
                if target in (label, "both"):
                    for n in names:
                        if fnmatch(n, pat):
                            ts = sm.apply_gain(ts, n, pm.Parameter("g", val, val - 1, val + 1))
            for k, (pat, val, target) in enumerate(case["biases"]):
                if target in (label, "both"):
                    for n in names:
                        if fnmatch(n, pat):
                            ts = sm.apply_bias(ts, n, pm.Parameter("b", val, val - 1, val + 1))
            return ts
        Pr = gb(Pr, "predicted"); Mw = gb(Mw, "measured")
        ref = Mw.data - Pr.data
        if case["normalize"]:
            with np.errstate(all="ignore"):
                ref = ref / (np.linalg.norm(Mw.data, axis=0) / np.sqrt(2))
        rec["reference_error"] = None
        if outs:
            with np.errstate(all="ignore"):
                rec["equals_composition"] = bool(np.array_equal(outs[0][0], ref, equal_nan=True) and np.array_equal(outs[0][2], Pr.data, equal_nan=True)
                                                 and np.array_equal(outs[0][4], Mw.data, equal_nan=True) and np.array_equal(outs[0][3], Mw.times))
            rec["reference_residual"] = np.asarray(ref).tolist()
    except Exception as e:  # noqa: BLE001
        rec["reference_error"] = type(e).__name__ + ": " + str(e)[:200]
    return rec


def main():
    import numpy as np
    mods = load(repo)
    tsm, pm, sm = mods["timeseries"], mods["parameter"], mods["signal_modifier"]
    req = json.load(sys.stdin)
    results = []
    for case in req["cases"]:
        if case["op"] == "transform":
            results.append(run_transform(case, mods))
            continue
        times = np.array(case["times"], dtype=float)
        data = np.array(case["data"], dtype=float).reshape(len(case["times"]), -1)
        if case.get("fortran"):
            data = np.asfortranarray(data)
        mapping = {name: (tsm.SignalType.CustomObs, np.array(idx, dtype=int)) for name, idx in case["mapping"]}
        ts = tsm.TimeSeries(times, data, mapping)
        op = case["op"]
        extra = {}
        par = None
        if op in ("bias", "gain", "delay"):
            par = pm.Parameter("p", case["value"], [v - 1.0 for v in case["value"]], [v + 1.0 for v in case["value"]])
        if op in ("resample", "identity", "resample_delay", "interpolate", "zoh"):
            extra["new_times"] = times if op == "identity" else np.array(case["new_times"], dtype=float)
        if op == "delayed_window":
            dt = np.array(case["dtimes"], dtype=float)
            extra["ts_delayed"] = tsm.TimeSeries(dt, np.zeros((len(dt), 1)), None)
            extra["dtimes"] = dt
        sensor_delays = dict(case["sensor_delays"]) if case.get("sensor_delays") is not None else None

        def fingerprint():
            f = {"times": fp(ts.times), "data": fp(ts.data), "id_times": id(ts.times) == id(times), "id_data": id(ts.data) == id(data),
                 "mapping": [[k, fp(v[1])] for k, v in (ts.signal_mapping or {}).items()],
                 "mapping_same_objects": all(ts.signal_mapping[k] is mapping[k] for k in mapping) and ts.signal_mapping is mapping}
            if par is not None:
                f["param"] = [fp(par.value), fp(par.nominal), fp(par.min_value), fp(par.max_value)]
            for k, v in extra.items():
                if k != "ts_delayed":
                    f[k] = fp(v)
            if sensor_delays is not None:
                f["sensor_delays"] = sorted(sensor_delays.items())
            return f

        before = fingerprint()
        rec = {"op": op}
        out = None
        try:
            if op == "bias":
                out = sm.apply_bias(ts, case["sensor"], par)
            elif op == "gain":
                out = sm.apply_gain(ts, case["sensor"], par)
            elif op == "delay":
                out = sm.apply_delay(ts, case["sensor"], par)
            elif op == "window":
                out = sm.apply_time_window(ts, case["min_t"], case["max_t"])
            elif op == "delayed_window":
                out = sm.apply_delayed_ts_window(ts, extra["ts_delayed"], case["min_delay"], case["max_delay"])
            elif op in ("resample", "identity"):
                out = ts.resample(extra["new_times"])
            elif op == "resample_delay":
                out = sm.apply_resample_and_delay(ts, extra["new_times"], case["default_delay"], sensor_delays, case["predicted"])
                delays = sm._build_per_column_delays(ts, case["default_delay"], sensor_delays, case["predicted"])
                rec["delays"] = [float(d) for d in delays]
                ref = sm._apply_resample_and_delay_columnwise(ts, extra["new_times"], delays)
                rec["columnwise"] = np.asarray(ref).tolist()
                rec["grouped_equals_columnwise_exactly"] = bool(np.array_equal(out.data, ref) and out.data.shape == ref.shape)
            elif op in ("interpolate", "zoh"):
                arr = ts.interpolate(extra["new_times"], method="linear" if op == "interpolate" else "zoh")
                rec["array"] = np.asarray(arr).tolist()
                rec["alias_data"] = bool(np.shares_memory(arr, ts.data))
            else:
                raise KeyError(op)
        except Exception as e:  # noqa: BLE001
            rec["error"] = type(e).__name__ + ": " + str(e)[:200]
        after = fingerprint()
        rec["modified"] = sorted(k for k in before if before[k] != after[k])
        if out is not None:
            rec["times"] = np.asarray(out.times).tolist()
            rec["data"] = np.asarray(out.data).reshape(len(out.times), -1).tolist()
            rec["is_input_object"] = out is ts
            rec["alias_data"] = bool(np.shares_memory(out.data, ts.data))
            rec["alias_times"] = bool(np.shares_memory(out.times, ts.times))
            rec["mapping_kept"] = out.signal_mapping is ts.signal_mapping
        results.append(rec)
    json.dump({"files": [mods[n].__file__ for n in mods], "results": results}, sys.stdout)


main()
