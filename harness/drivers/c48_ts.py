"""C48 driver: runs the signal modifiers / TimeSeries methods of <repo>/python/mujoco/sysid/_src
(signal_modifier.py, timeseries.py, parameter.py; imported BY PATH from the tree under test) on the
cases given on stdin (JSON) and prints results plus purity fingerprints (JSON).

Purity: before every call the argument buffers (times, data, every index array of the signal mapping,
the parameter value, extra arrays such as new_times) are fingerprinted: bytes, shape, dtype, and the
identity of the array objects held by the TimeSeries; after the call the fingerprints are taken again.
Aliasing of the result with the input buffers is reported separately (np.shares_memory): a modifier
may return views, but it may never write to its input.

The `mujoco` wheel and scipy/numpy of /venv are library dependencies only (signal_modifier.py does
`import mujoco`; TimeSeries.interpolate calls scipy.interpolate.interp1d).  colorama / tabulate / yaml
are not installed: parameter.py only uses them for printing / file IO, so empty stand-ins are used."""
import hashlib, importlib, json, os, sys, types

repo = sys.argv[1]


def load(repo):
    import mujoco  # noqa: F401
    for name in ("colorama", "tabulate", "yaml"):
        try:
            importlib.import_module(name)
        except ImportError:
            m = types.ModuleType(name)
            if name == "colorama":
                class _C:
                    def __getattr__(self, k):
                        return ""
                m.Fore = _C(); m.Style = _C(); m.Back = _C()
            if name == "tabulate":
                m.tabulate = lambda *a, **k: ""
            sys.modules[name] = m
    for name, sub in (("mujoco.sysid", "python/mujoco/sysid"), ("mujoco.sysid._src", "python/mujoco/sysid/_src")):
        m = types.ModuleType(name)
        m.__path__ = [os.path.join(repo, sub)]
        sys.modules[name] = m
    mods = {}
    for n in ("timeseries", "parameter", "signal_modifier"):
        mods[n] = importlib.import_module("mujoco.sysid._src." + n)
        assert os.path.realpath(mods[n].__file__).startswith(os.path.realpath(repo)), mods[n].__file__
    return mods


def fp(a):
    import numpy as np
    a = np.asarray(a)
    return [hashlib.sha256(np.ascontiguousarray(a).tobytes()).hexdigest(), list(a.shape), str(a.dtype)]


def main():
    import numpy as np
    mods = load(repo)
    tsm, pm, sm = mods["timeseries"], mods["parameter"], mods["signal_modifier"]
    req = json.load(sys.stdin)
    results = []
    for case in req["cases"]:
        times = np.array(case["times"], dtype=float)
        data = np.array(case["data"], dtype=float).reshape(len(case["times"]), -1)
        if case.get("fortran"):
            data = np.asfortranarray(data)
        mapping = {name: (tsm.SignalType.CustomObs, np.array(idx, dtype=int)) for name, idx in case["mapping"]}
        ts = tsm.TimeSeries(times, data, mapping)
        op = case["op"]
        extra = {}
        par = None
        if op in ("bias", "gain", "delay"):
            par = pm.Parameter("p", case["value"], [v - 1.0 for v in case["value"]], [v + 1.0 for v in case["value"]])
        if op in ("resample", "identity", "resample_delay", "interpolate", "zoh"):
            extra["new_times"] = times if op == "identity" else np.array(case["new_times"], dtype=float)
        if op == "delayed_window":
            dt = np.array(case["dtimes"], dtype=float)
            extra["ts_delayed"] = tsm.TimeSeries(dt, np.zeros((len(dt), 1)), None)
            extra["dtimes"] = dt
        sensor_delays = dict(case["sensor_delays"]) if case.get("sensor_delays") is not None else None

        def fingerprint():
            f = {"times": fp(ts.times), "data": fp(ts.data), "id_times": id(ts.times) == id(times), "id_data": id(ts.data) == id(data),
                 "mapping": [[k, fp(v[1])] for k, v in (ts.signal_mapping or {}).items()],
                 "mapping_same_objects": all(ts.signal_mapping[k] is mapping[k] for k in mapping) and ts.signal_mapping is mapping}
            if par is not None:
                f["param"] = [fp(par.value), fp(par.nominal), fp(par.min_value), fp(par.max_value)]
            for k, v in extra.items():
                if k != "ts_delayed":
                    f[k] = fp(v)
            if sensor_delays is not None:
                f["sensor_delays"] = sorted(sensor_delays.items())
            return f

        before = fingerprint()
        rec = {"op": op}
        out = None
        try:
            if op == "bias":
                out = sm.apply_bias(ts, case["sensor"], par)
            elif op == "gain":
                out = sm.apply_gain(ts, case["sensor"], par)
            elif op == "delay":
                out = sm.apply_delay(ts, case["sensor"], par)
            elif op == "window":
                out = sm.apply_time_window(ts, case["min_t"], case["max_t"])
            elif op == "delayed_window":
                out = sm.apply_delayed_ts_window(ts, extra["ts_delayed"], case["min_delay"], case["max_delay"])
            elif op in ("resample", "identity"):
                out = ts.resample(extra["new_times"])
            elif op == "resample_delay":
                out = sm.apply_resample_and_delay(ts, extra["new_times"], case["default_delay"], sensor_delays, case["predicted"])
                delays = sm._build_per_column_delays(ts, case["default_delay"], sensor_delays, case["predicted"])
                rec["delays"] = [float(d) for d in delays]
                ref = sm._apply_resample_and_delay_columnwise(ts, extra["new_times"], delays)
                rec["columnwise"] = np.asarray(ref).tolist()
                rec["grouped_equals_columnwise_exactly"] = bool(np.array_equal(out.data, ref) and out.data.shape == ref.shape)
            elif op in ("interpolate", "zoh"):
                arr = ts.interpolate(extra["new_times"], method="linear" if op == "interpolate" else "zoh")
                rec["array"] = np.asarray(arr).tolist()
                rec["alias_data"] = bool(np.shares_memory(arr, ts.data))
            else:
                raise KeyError(op)
        except Exception as e:  # noqa: BLE001
            rec["error"] = type(e).__name__ + ": " + str(e)[:200]
        after = fingerprint()
        rec["modified"] = sorted(k for k in before if before[k] != after[k])
        if out is not None:
            rec["times"] = np.asarray(out.times).tolist()
            rec["data"] = np.asarray(out.data).reshape(len(out.times), -1).tolist()
            rec["is_input_object"] = out is ts
            rec["alias_data"] = bool(np.shares_memory(out.data, ts.data))
            rec["alias_times"] = bool(np.shares_memory(out.times, ts.times))
            rec["mapping_kept"] = out.signal_mapping is ts.signal_mapping
        results.append(rec)
    json.dump({"files": [mods[n].__file__ for n in mods], "results": results}, sys.stdout)


main()
