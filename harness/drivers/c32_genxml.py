"""c32_genxml.py — schema-driven random MJCF generator for C32 (owned by C32).

A structurally valid skeleton (bodies, frames, joints, geoms, assets, tendons, actuators, sensors,
keyframes, default-class tree, ...) is written by hand; every element is then *decorated* with random
attributes taken from the working tree's src/xml/mjcf.schema (parsed with the tree's own
doc/generate/mjcf_schema.py), so that each emit/parse pair of the writer/reader gets exercised with
non-default values.  Everything is a deterministic function of (seed, level).
"""
import importlib.util
import math
import os
import random

_SCHEMA_CACHE = {}


def load_schema(repo):
    if repo in _SCHEMA_CACHE:
        return _SCHEMA_CACHE[repo]
    p = os.path.join(repo, "doc", "generate", "mjcf_schema.py")
    spec = importlib.util.spec_from_file_location("c32_mjcf_schema", p)
    mod = importlib.util.module_from_spec(spec)
    import sys
    sys.modules["c32_mjcf_schema"] = mod
    spec.loader.exec_module(mod)
    sc = mod.parse_file(os.path.join(repo, "src", "xml", "mjcf.schema"))
    _SCHEMA_CACHE[repo] = sc
    return sc


CONSTS = {"mjNREF": 2, "mjNIMP": 5, "mjNDYN": 10, "mjNGAIN": 10, "mjNBIAS": 10, "mjNPOLY": 2, "mjNFLUID": 12}

ORIENT = ("quat", "axisangle", "xyaxes", "zaxis", "euler")

# attributes never produced by the generic decorator (structural, handled by hand, or constrained)
SKIP_ALWAYS = {"name", "class", "childclass", "type", "size", "fromto", "mesh", "hfield", "material", "target",
               "file", "content_type", "vertex", "normal", "texcoord", "face", "builtin", "params", "texture",
               "user", "mass", "density", "fitscale", "joint", "jointinparent", "tendon", "slidersite", "cranksite",
               "site", "refsite", "body", "objtype", "objname", "reftype", "refname", "geom1", "geom2", "body1",
               "body2", "site1", "site2", "joint1", "joint2", "tendon1", "tendon2", "anchor", "relpose", "polycoef",
               "qpos", "qvel", "act", "mpos", "mquat", "ctrl", "data", "elevation", "nrow", "ncol", "geom", "sidesite",
               "coef", "divisor", "actdim", "cranklength", "sensorsize", "focal", "focalpixel", "principal",
               "principalpixel", "fovy", "directional", "gridsize", "gridlayout", "fileright", "fileleft", "fileup",
               "filedown", "filefront", "fileback", "hflip", "vflip", "nchannel", "width", "height", "camera",
               "subtree1", "subtree2", "num", "reduce", "dim", "needstage", "datatype", "cutoff_unused",
               "maxhullvert", "inertia", "refpos", "refquat", "smoothnormal", "scale", "springdamper", "mocap",
               "input", "inheritrange", "lengthrange", "nsample", "interp", "delay", "interval", "resolution",
               "output", "sleep", "align", "flex", "cell", "plugin", "instance", "memory", "njmax", "nconmax",
               "nstack", "nkey", "nuserdata", "nuser_body", "nuser_jnt", "nuser_geom", "nuser_site", "nuser_cam",
               "nuser_tendon", "nuser_actuator", "nuser_sensor", "strippath", "coordinate", "assetdir", "meshdir",
               "texturedir", "discardvisual", "fusestatic", "eulerseq", "angle", "springlength", "condim", "mode",
               "dyntype", "gaintype", "biastype", "dynprm", "gainprm", "biasprm", "actearly", "actlimited",
               "actrange", "timeconst", "tausmooth", "offwidth", "offheight", "projection", "orthographic",
               "cameraid", "time", "ipd_unused", "colorspace", "mark", "random", "limited", "actuatorfrclimited",
               "actuatorfrcrange", "ctrllimited", "forcelimited", "ctrlrange", "forcerange", "kp", "kv", "ki", "kd", "dampratio", "area", "diameter",
               "bias", "force", "lmin", "lmax", "vmax", "fpmax", "fvmax", "gain", "imax", "slewmax", "posrange",
               "velrange", "ffrange", "motorconst", "resistance", "nominal", "saturation", "inductance", "cogging",
               "controller", "thermal", "lugre", "range", "extent", "meansize", "meanmass", "meaninertia", "cutoff"}


class Gen:
    def __init__(self, schema, seed, level=2, opts=None):
        self.sc = schema
        self.r = random.Random(seed)
        self.level = level            # 0: skeleton only, 1: light decoration, 2: heavy decoration
        self.o = dict(opts or {})
        self.degree = False
        self.eulerseq = "xyz"
        self.out = []
        self.ind = 0
        self.classes = []             # names of default classes
        self.n = {}                   # counters
        self.nuser = {}
        self.attr_cache = {}
        # lossy / special features are only produced when listed (strata of the corpus)
        self.feat = set(self.o.get("features", ()))
        self.default_pos_mode = self.r.random() < 0.4

    # ------------------------------------------------------------------ values
    def fmt(self, x):
        r = self.r
        if isinstance(x, int):
            return str(x)
        k = r.random()
        if k < 0.55:
            return repr(float(x))
        if k < 0.75:
            return "%.3g" % x
        if k < 0.85:
            return "%.9g" % x
        if k < 0.93:
            return "%.6e" % x
        return repr(float(round(x, 2)))

    def num(self, lo=-2.0, hi=2.0):
        r = self.r
        k = r.random()
        if k < 0.15:
            return float(r.randint(int(math.ceil(lo)), int(math.floor(hi)))) if math.floor(hi) >= math.ceil(lo) else r.uniform(lo, hi)
        if k < 0.25:
            return round(r.uniform(lo, hi), 1)
        return r.uniform(lo, hi)

    def vec(self, n, lo=-2.0, hi=2.0):
        return [self.num(lo, hi) for _ in range(n)]

    def quat(self):
        r = self.r
        while True:
            q = [r.uniform(-1, 1) for _ in range(4)]
            nn = math.sqrt(sum(a * a for a in q))
            if nn > 0.1:
                break
        if r.random() < 0.6:
            q = [a / nn for a in q]          # otherwise left unnormalized (the compiler normalizes)
        return q

    def ang(self, lo=-3.0, hi=3.0):
        a = self.r.uniform(lo, hi)
        return a * 180.0 / math.pi if self.degree else a

    def orientation(self, names):
        """returns {attr: value list} with at most one orientation specifier among those available"""
        r = self.r
        avail = [a for a in ORIENT if a in names]
        if not avail or r.random() < 0.3:
            return {}
        a = r.choice(avail)
        if a == "quat":
            return {a: self.quat()}
        if a == "axisangle":
            ax = [r.uniform(-1, 1) for _ in range(3)]
            if sum(abs(t) for t in ax) < 0.2:
                ax[2] = 1.0
            return {a: ax + [self.ang()]}
        if a == "xyaxes":
            x = [r.uniform(-1, 1) for _ in range(3)]
            if sum(abs(t) for t in x) < 0.3:
                x[0] = 1.0
            y = [r.uniform(-1, 1) for _ in range(3)]
            c = [x[1] * y[2] - x[2] * y[1], x[2] * y[0] - x[0] * y[2], x[0] * y[1] - x[1] * y[0]]
            if sum(abs(t) for t in c) < 0.2:
                y = [-x[1], x[0], 0.3]
            return {a: x + y}
        if a == "zaxis":
            z = [r.uniform(-1, 1) for _ in range(3)]
            if sum(abs(t) for t in z) < 0.2:
                z[2] = 1.0
            return {a: z}
        return {a: [self.ang(), self.ang(-1.5, 1.5), self.ang()]}

    def solref(self):
        r = self.r
        v = [r.uniform(0.005, 0.1), r.uniform(0.3, 2.0)] if r.random() < 0.7 else [-r.uniform(10, 1000), -r.uniform(1, 100)]
        return v[:r.choice([1, 2, 2])]

    def solimp(self):
        r = self.r
        d0 = r.uniform(0.3, 0.9)
        v = [d0, r.uniform(d0, 0.99), r.uniform(0.0005, 0.01), r.uniform(0.1, 0.9), float(r.choice([1, 2, 3])) if r.random() < 0.5 else r.uniform(1, 4)]
        return v[:r.randint(1, 5)]

    def attrs_of(self, ename):
        if ename not in self.attr_cache:
            e = self.sc.elements[ename]
            self.attr_cache[ename] = self.sc.expanded_attrs(e)
        return self.attr_cache[ename]

    def gen_value(self, a, ename):
        """random value for schema attribute a (None: leave out)"""
        r = self.r
        name, t = a.name, a.type
        hi = a.arity.hi
        if isinstance(hi, str):
            hi = CONSTS.get(hi)
            if hi is None:
                return None
        lo = a.arity.lo
        if t in ("string", "file", "chars", "id", "ref"):
            return None
        if t == "bool":
            return r.choice(["true", "false"])
        if t == "enum":
            kws = self.sc.enums[a.target].keywords()
            return r.choice(kws)
        if t == "flags":
            return None
        fac = a.facets
        if t == "int":
            if hi is None:
                return None
            if name in ("contype", "conaffinity"):
                return [r.randint(0, 7)]
            if name == "group":
                return [r.randint(0, 5)]
            if name == "priority":
                return [r.randint(-2, 3)]
            if "iterations" in name:
                return [r.randint(1, 200)]
            if name == "sdf_initpoints":
                return [r.randint(1, 60)]
            if name == "inertiagrouprange":
                a0 = r.randint(0, 2)
                return [a0, r.randint(max(a0, 3), 5)]   # generator's geoms use groups 0..5: keep 3 in range
            if name in ("shadowsize", "offsamples", "numslices", "numstacks", "numquads"):
                return [r.randint(1, 64)]
            if name in ("ellipsoidinertia", "bvactive", "active"):
                return [r.randint(0, 1)]
            n = r.randint(lo, hi)
            return [r.randint(0, 9) for _ in range(n)]
        if t in ("double", "float"):
            if hi is None:
                return None
            if name.startswith("solref") or name == "o_solref":
                return self.solref()
            if name.startswith("solimp") or name == "o_solimp":
                return self.solimp()
            n = r.randint(lo, hi)
            if (name.endswith("range") or name in ("range",)) and lo == 2 and hi == 2:
                if name == "range" and ename == "light":
                    return [r.uniform(0.1, 20)]
                a0 = self.num(-2, 0.0)
                return [a0, a0 + r.uniform(0.1, 3)]
            if name in ("rgba", "rgb1", "rgb2", "markrgb", "ambient", "diffuse", "specular") or ename == "rgba":
                return [round(r.random(), r.choice([1, 2, 3, 6])) for _ in range(n)]
            if name in ("friction", "o_friction"):
                return [r.uniform(0.0001, 1.5) for _ in range(n)]
            if name in ("pos", "refpos", "center", "gravity", "wind", "magnetic", "dir", "axis"):
                v = self.vec(n, -1.5, 1.5)
                if name in ("dir", "axis") and sum(abs(t_) for t_ in v) < 0.2:
                    v[2] = 1.0
                return v
            if name in ("timestep",):
                return [r.choice([0.001, 0.002, 0.005, r.uniform(0.0005, 0.01)])]
            if name in ("solmix", "impratio", "armature", "frictionloss", "margin", "gap", "adhesion", "gravcomp",
                        "density", "viscosity", "o_margin", "width", "meaninertia", "meanmass", "meansize", "extent",
                        "boundmass", "boundinertia", "bulbradius", "intensity", "softness", "exponent", "emission",
                        "shininess", "reflectance", "metallic", "roughness", "ipd", "kp", "kv", "ki", "imax", "area",
                        "diameter", "force", "scale", "lmin", "lmax", "vmax", "fpmax", "fvmax", "gain", "noise", "cutoff",
                        "accel", "maxforce", "inttotal", "tolrange", "dampratio", "resistance", "inductance", "cogging"
                        ) or "tolerance" in name or fac.get("positive") or ename in ("map", "scale", "global", "lengthrange"):
                v = [abs(self.num(0.0, 2.0)) + (0.001 if r.random() < 0.8 else 0.0) for _ in range(n)]
                if name in ("shininess", "reflectance", "specular", "emission", "metallic", "roughness", "softness"):
                    v = [min(x, 1.0) for x in v]
                if name == "attenuation":
                    v[0] = max(v[0], 0.1)
                return v
            if name in ("stiffness", "damping"):
                return [abs(self.num(0, 3)) for _ in range(n)]
            if name == "gear":
                return self.vec(n, -3, 3)
            if name == "settotalmass":
                return [r.uniform(0.5, 20)]
            if name == "fluidcoef":
                return [r.uniform(0.1, 2) for _ in range(n)]
            if name == "texrepeat":
                return [r.uniform(0.5, 4) for _ in range(n)]
            if name == "attenuation":
                return [r.uniform(0.1, 2), r.uniform(0, 1), r.uniform(0, 1)]
            if name in ("azimuth", "elevation", "fovy", "cutoff"):
                return [r.uniform(1, 90)]
            if "min" in fac or "max" in fac:
                lo_ = float(fac.get("min", -2.0))
                hi_ = float(fac.get("max", lo_ + 4.0))
                return [r.uniform(lo_, hi_) for _ in range(n)]
            if name in ("ref", "springref"):
                return [self.num(-0.5, 0.5)]
            return self.vec(n)
        return None

    def decorate(self, ename, attrs, p=None, skip=(), indefault=False):
        """adds random schema attributes to attrs (dict name -> str); hand-set attributes win."""
        if self.level == 0:
            return attrs
        r = self.r
        if p is None:
            p = 0.12 if self.level == 1 else 0.3
        alist = self.attrs_of(ename)
        names = {a.name for a in alist}
        # orientation (one alternative)
        if not any(o in attrs for o in ORIENT) and not any(o in skip for o in ORIENT) and ename != "inertial":
            for k, v in self.orientation(names).items():
                if not (indefault and k != "quat") or True:
                    attrs[k] = " ".join(self.fmt(x) for x in v)
        for a in alist:
            if a.name in attrs or a.name in SKIP_ALWAYS or a.name in skip or a.name in ORIENT:
                continue
            if indefault and a.facets.get("nodefault"):
                continue
            if r.random() > p:
                continue
            v = self.gen_value(a, ename)
            if v is None:
                continue
            attrs[a.name] = v if isinstance(v, str) else " ".join(self.fmt(x) for x in v)
        return attrs

    # ------------------------------------------------------------------ output
    def open(self, tag, attrs=None, close=False):
        s = "  " * self.ind + "<" + tag
        for k, v in (attrs or {}).items():
            if v is None:
                continue
            s += ' %s="%s"' % (k, v)
        s += "/>" if close else ">"
        self.out.append(s)
        if not close:
            self.ind += 1

    def leaf(self, tag, attrs=None):
        self.open(tag, attrs, close=True)

    def only(self, en, a):
        names = {x.name for x in self.attrs_of(en)}
        return {k: v for k, v in a.items() if k in names}

    def limits(self, a, en, rng, lim, lo=(-2.0, -0.1), hi=(0.1, 2.0), p=0.35):
        """range attribute together with its limited flag (always explicit when autolimits is off)"""
        r = self.r
        names = {x.name for x in self.attrs_of(en)}
        if rng not in names or rng in a or r.random() > p:
            return
        a[rng] = self.v2s([self.num(*lo), self.num(*hi)])
        if lim in names:
            if not self.autolimits:
                a[lim] = r.choice(["true", "false"])
            elif r.random() < 0.5:
                a[lim] = r.choice(["true", "auto", "false"])

    def close(self, tag):
        self.ind -= 1
        self.out.append("  " * self.ind + "</" + tag + ">")

    def nm(self, pre):
        i = self.n.get(pre, 0)
        self.n[pre] = i + 1
        return "%s%d" % (pre, i)

    def v2s(self, v):
        return " ".join(self.fmt(x) for x in v)

    def user(self, kind):
        n = self.nuser.get(kind, 0)
        if n and self.r.random() < 0.5:
            return self.v2s(self.vec(self.r.randint(1, n)))
        return None

    def cls(self, p=0.4):
        if self.classes and self.r.random() < p:
            return self.r.choice(self.classes)
        return None

    # ------------------------------------------------------------------ sections
    def model(self):
        r = self.r
        self.open("mujoco", {"model": "c32 &amp; &quot;gen&quot; %d" % r.randint(0, 99)})
        self.sec_compiler()
        self.sec_option()
        self.sec_size()
        if r.random() < 0.3:
            self.leaf("statistic", self.stat_attrs())
        if r.random() < 0.5:
            self.sec_visual()
        self.sec_default()
        self.sec_asset()
        self.sec_world()
        self.sec_contact()
        self.sec_tendon()
        self.sec_equality()
        self.sec_actuator()
        self.sec_sensor()
        self.sec_custom()
        self.sec_keyframe()
        self.close("mujoco")
        return "\n".join(self.out) + "\n"

    def stat_attrs(self):
        r = self.r
        a = {}
        for k in ("meaninertia", "meanmass", "meansize", "extent"):
            if r.random() < 0.5:
                a[k] = self.fmt(r.uniform(0.01, 5))
        if r.random() < 0.5:
            a["center"] = self.v2s(self.vec(3))
        return a

    def sec_compiler(self):
        r = self.r
        a = {}
        if r.random() < 0.5:
            self.degree = r.random() < 0.6
            a["angle"] = "degree" if self.degree else "radian"
        else:
            self.degree = True     # MJCF default
        if r.random() < 0.3:
            self.eulerseq = "".join(r.choice("xyzXYZ") for _ in range(3))
            a["eulerseq"] = self.eulerseq
        lossy = ("settotalmass", "inertiafromgeom", "inertiagrouprange", "balanceinertia", "fitaabb")
        self.decorate("compiler", a, p=0.25, skip=("usethread",) + tuple(x for x in lossy if x not in self.feat))
        for x in lossy:
            if x in self.feat and x not in a:
                for at in self.attrs_of("compiler"):
                    if at.name == x:
                        v = self.gen_value(at, "compiler")
                        a[x] = v if isinstance(v, str) else " ".join(self.fmt(y) for y in v)
        self.inertiafromgeom = a.get("inertiafromgeom", "auto")
        self.autolimits = a.get("autolimits", "true") == "true"
        if r.random() < 0.2:
            self.open("compiler", a)
            self.leaf("lengthrange", self.decorate("lengthrange", {}, p=0.4, skip=("mode", "useexisting")))
            self.close("compiler")
        else:
            self.leaf("compiler", a)

    def sec_option(self):
        r = self.r
        a = self.decorate("option", {}, p=0.25)
        if r.random() < 0.2:
            a["actuatorgroupdisable"] = " ".join(str(x) for x in sorted(r.sample(range(0, 31), r.randint(1, 4))))
        if r.random() < 0.5:
            fl = {}
            for at in self.attrs_of("flag"):
                if r.random() < 0.15:
                    fl[at.name] = r.choice(["enable", "disable"])
            self.open("option", a)
            self.leaf("flag", fl)
            self.close("option")
        else:
            self.leaf("option", a)

    def sec_size(self):
        r = self.r
        a = {}
        for k, key in (("body", "nuser_body"), ("jnt", "nuser_jnt"), ("geom", "nuser_geom"), ("site", "nuser_site"),
                       ("cam", "nuser_cam"), ("tendon", "nuser_tendon"), ("actuator", "nuser_actuator"), ("sensor", "nuser_sensor")):
            if r.random() < 0.3:
                n = r.randint(1, 3)
                self.nuser[k] = n
                a[key] = str(n) if r.random() < 0.7 else "-1"
                if a[key] == "-1":
                    self.nuser[k] = 3
        if r.random() < 0.3:
            a["nuserdata"] = str(r.randint(0, 5))
        if r.random() < 0.2:
            a["memory"] = r.choice(["1M", "500K", "2000000", "-1", "10M"])
        elif r.random() < 0.2:
            a["njmax"] = str(r.randint(50, 500))
            a["nconmax"] = str(r.randint(20, 200))
        if r.random() < 0.2:
            a["nkey"] = str(r.randint(0, 4))
        if a:
            self.leaf("size", a)

    def sec_visual(self):
        r = self.r
        self.open("visual")
        for sub in ("global", "quality", "headlight", "map", "scale", "rgba"):
            if r.random() < 0.5:
                a = self.decorate(sub, {}, p=0.3)
                if a:
                    self.leaf(sub, a)
        self.close("visual")

    # default tree
    DEF_ELEMS = ("mesh", "material", "joint", "geom", "site", "camera", "light", "pair", "default_equality", "default_tendon")
    ACT_SHORT = ("general", "motor", "position", "velocity", "intvelocity", "damper", "cylinder", "muscle", "adhesion", "pid", "dcmotor")

    def default_body(self, depth):
        r = self.r
        for en in self.DEF_ELEMS:
            if r.random() < 0.45:
                tag = self.sc.elements[en].xml_name()
                a = {}
                if en == "geom":
                    if r.random() < 0.4:
                        a["type"] = r.choice(["sphere", "capsule", "box", "ellipsoid", "cylinder"])
                    if r.random() < 0.4:
                        a["size"] = self.v2s([r.uniform(0.02, 0.2) for _ in range(r.randint(1, 3))])
                    if r.random() < 0.3:
                        a["density"] = self.fmt(r.uniform(100, 3000))
                    if r.random() < 0.3:
                        a["condim"] = r.choice(["1", "3", "4", "6"])
                    if self.nuser.get("geom") and r.random() < 0.3:
                        a["user"] = self.v2s(self.vec(r.randint(1, self.nuser["geom"])))
                if en == "site" and r.random() < 0.4:
                    a["size"] = self.v2s([r.uniform(0.002, 0.05) for _ in range(r.randint(1, 3))])
                if en == "joint":
                    if r.random() < 0.2:
                        a["type"] = r.choice(["hinge", "slide"])
                    if self.nuser.get("jnt") and r.random() < 0.3:
                        a["user"] = self.v2s(self.vec(r.randint(1, self.nuser["jnt"])))
                if en == "camera" and r.random() < 0.3:
                    a["fovy"] = self.fmt(r.uniform(10, 90))
                if en == "pair" and r.random() < 0.3:
                    a["condim"] = r.choice(["1", "3", "4", "6"])
                if en == "mesh" and r.random() < 0.5:
                    a["scale"] = self.v2s([r.uniform(0.5, 2) for _ in range(3)])
                if en == "default_tendon" and r.random() < 0.3:
                    a["springlength"] = self.v2s([r.uniform(0, 0.5)] if r.random() < 0.5 else sorted([r.uniform(0, 0.5), r.uniform(0, 0.5)]))
                skip = ("pos", "axis") if en == "joint" and r.random() < 0.5 else ()
                if en in ("geom", "site", "camera", "light") and (r.random() < 0.5 or not self.default_pos_mode):
                    skip = tuple(skip) + ("pos",) + ORIENT
                self.decorate(en, a, skip=skip, indefault=True)
                if a:
                    self.leaf(tag, a)
        if r.random() < 0.5:
            en = r.choice(self.ACT_SHORT)
            a = self.act_params(en, indefault=True)
            a.pop("tausmooth", None)
            self.decorate(en, a, indefault=True, skip=("gear", "damping", "armature"))
            self.leaf(en, self.only(en, a))
        if depth < 3:
            for _ in range(r.choice([0, 0, 1, 1, 2])):
                if len(self.classes) >= 5:
                    break
                c = self.nm("cls")
                self.classes.append(c)
                self.open("default", {"class": c})
                self.default_body(depth + 1)
                self.close("default")

    def sec_default(self):
        r = self.r
        self.has_defaults = False
        if self.o.get("nodefaults") or r.random() < 0.2:
            return
        self.has_defaults = True
        self.open("default")
        self.default_body(0)
        self.close("default")

    def sec_asset(self):
        r = self.r
        self.textures, self.materials, self.meshes, self.hfields = [], [], [], []
        self.nocollide = set()
        self.tex2d = []
        if r.random() < 0.25 and not (self.feat & {"mesh", "hfield"}):
            return
        self.open("asset")
        for _ in range(r.randint(0, 2)):
            t = self.nm("tex")
            ty = r.choice(["2d", "cube", "skybox"])
            a = {"name": t, "type": ty, "builtin": r.choice(["gradient", "checker", "flat"]),
                 "width": str(r.choice([4, 8, 16])), }
            a["height"] = a["width"] if ty == "2d" else str(int(a["width"]) * (6 if ty != "2d" else 1))
            if ty == "cube" and r.random() < 0.5:
                a["height"] = a["width"]
            if r.random() < 0.5:
                a["mark"] = r.choice(["none", "edge", "cross", "random"])
            if r.random() < 0.5:
                a["random"] = self.fmt(r.uniform(0, 0.2))
            if r.random() < 0.3:
                a["colorspace"] = r.choice(["auto", "linear", "sRGB"])
            if r.random() < 0.3:
                a["nchannel"] = "3"
            self.decorate("texture", a, p=0.4)
            self.leaf("texture", a)
            self.textures.append(t)
            if ty != "skybox":
                self.tex2d.append(t)
        for _ in range(r.randint(0, 3)):
            m = self.nm("mat")
            a = {"name": m, "class": self.cls()}
            if self.tex2d and r.random() < 0.5:
                a["texture"] = r.choice(self.tex2d)
            self.decorate("material", a)
            self.leaf("material", a)
            self.materials.append(m)
        for _ in range(r.randint(1, 2) if "mesh" in self.feat else 0):
            m = self.nm("mesh")
            if r.random() < 0.5:
                base = [(0, 0, 0), (1, 0, 0), (0, 1, 0), (0, 0, 1)]
                faces = [0, 2, 1, 0, 1, 3, 0, 3, 2, 1, 2, 3]
            else:
                base = [(0, 0, 0), (1, 0, 0), (1, 1, 0), (0, 1, 0), (0, 0, 1), (1, 0, 1), (1, 1, 1), (0, 1, 1)]
                faces = [0, 2, 1, 0, 3, 2, 4, 5, 6, 4, 6, 7, 0, 1, 5, 0, 5, 4, 1, 2, 6, 1, 6, 5, 2, 3, 7, 2, 7, 6, 3, 0, 4, 3, 4, 7]
            vs = []
            for b_ in base:
                vs += [0.1 * (c + r.uniform(-0.15, 0.15)) for c in b_]
            a = {"name": m, "class": self.cls(), "vertex": " ".join(self.fmt(x) for x in vs),
                 "face": " ".join(str(x) for x in faces)}
            if r.random() < 0.3:
                a["scale"] = self.v2s([r.uniform(0.5, 2) * r.choice([1, 1, 1, -1]) for _ in range(3)])
            if r.random() < 0.3:
                a["refpos"] = self.v2s(self.vec(3, -0.1, 0.1))
            if r.random() < 0.3:
                a["refquat"] = self.v2s(self.quat())
            if r.random() < 0.3:
                a["inertia"] = r.choice(["exact", "legacy", "shell"])
            if r.random() < 0.2:
                a["smoothnormal"] = r.choice(["true", "false"])
            if self.materials and r.random() < 0.3:
                a["material"] = r.choice(self.materials)
            self.leaf("mesh", a)
            self.meshes.append(m)
        if "hfield" in self.feat:
            h = self.nm("hf")
            nr, nc = r.randint(2, 4), r.randint(2, 4)
            a = {"name": h, "nrow": str(nr), "ncol": str(nc), "size": self.v2s([r.uniform(0.5, 2), r.uniform(0.5, 2), r.uniform(0.1, 0.5), r.uniform(0.05, 0.2)])}
            if r.random() < 0.8:
                a["elevation"] = " ".join(self.fmt(r.uniform(0, 1)) for _ in range(nr * nc))
            self.leaf("hfield", a)
            self.hfields.append(h)
        self.close("asset")

    # kinematic tree
    def geom_attrs(self, massive=True, allow_mesh=True):
        r = self.r
        a = {"name": self.nm("g"), "class": self.cls()}
        kinds = ["sphere", "capsule", "ellipsoid", "cylinder", "box", "default"]
        if allow_mesh and self.meshes:
            kinds.append("mesh")
        t = r.choice(kinds)
        use_fromto = False
        if t == "default":
            # rely on the class/default type and size: only safe when no class (main default may set type/size)
            a["size"] = self.v2s([r.uniform(0.03, 0.15) for _ in range(3)])
            t = None
        else:
            a["type"] = t
        if t in ("sphere",):
            a["size"] = self.fmt(r.uniform(0.03, 0.15))
        elif t in ("capsule", "cylinder"):
            if r.random() < 0.35 and not self.default_pos_mode:
                use_fromto = True
                a["size"] = self.fmt(r.uniform(0.02, 0.08))
                p = self.vec(3, -0.2, 0.2)
                q = [p[0] + r.uniform(0.05, 0.3), p[1] + r.uniform(-0.2, 0.2), p[2] + r.uniform(-0.2, 0.2)]
                a["fromto"] = self.v2s(p + q)
            else:
                a["size"] = self.v2s([r.uniform(0.02, 0.1), r.uniform(0.03, 0.2)])
        elif t in ("ellipsoid", "box"):
            if r.random() < 0.15 and not self.default_pos_mode:
                use_fromto = True
                a["size"] = self.fmt(r.uniform(0.02, 0.08))
                p = self.vec(3, -0.2, 0.2)
                a["fromto"] = self.v2s(p + [p[0] + 0.1, p[1] - 0.2, p[2] + 0.15])
            else:
                a["size"] = self.v2s([r.uniform(0.03, 0.15) for _ in range(3)])
        elif t == "mesh":
            a["mesh"] = r.choice(self.meshes)
            a["contype"] = "0"
            a["conaffinity"] = "0"
            self.nocollide.add(a["name"])
        if self.materials and r.random() < 0.3:
            a["material"] = r.choice(self.materials)
        k = r.random()
        if k < 0.3:
            a["mass"] = self.fmt(r.uniform(0.1, 5))
        elif k < 0.6:
            a["density"] = self.fmt(r.uniform(100, 3000))
        if t in ("sphere", "capsule", "ellipsoid", "cylinder", "box") and r.random() < 0.15:
            a["shellinertia"] = r.choice(["true", "false"])
        if r.random() < 0.3:
            a["condim"] = r.choice(["1", "3", "4", "6"])
        u = self.user("geom")
        if u:
            a["user"] = u
        skip = ORIENT + ("pos",) if use_fromto else ()
        if not use_fromto and r.random() < 0.7:
            a["pos"] = self.v2s(self.vec(3, -0.2, 0.2))
        if t == "mesh":
            skip = tuple(skip) + ("shellinertia",)      # not written for mesh geoms: separate probe (meshshell)
        self.decorate("geom", a, skip=skip + ("fluidshape", "fluidcoef") if r.random() < 0.8 else skip)
        if "fluidcoef" in a and "fluidshape" not in a:
            a["fluidshape"] = "ellipsoid"
        return a

    def site_attrs(self):
        r = self.r
        a = {"name": self.nm("s"), "class": self.cls()}
        if r.random() < 0.5:
            t = r.choice(["sphere", "capsule", "ellipsoid", "cylinder", "box"])
            a["type"] = t
            n = {"sphere": 1, "capsule": 2, "cylinder": 2}.get(t, 3)
            if r.random() < 0.8:
                a["size"] = self.v2s([r.uniform(0.005, 0.05) for _ in range(n)])
            if t in ("capsule", "cylinder", "box", "ellipsoid") and r.random() < 0.2 and not self.default_pos_mode:
                a["size"] = self.fmt(r.uniform(0.005, 0.03))
                p = self.vec(3, -0.2, 0.2)
                a["fromto"] = self.v2s(p + [p[0] + 0.1, p[1] + 0.05, p[2] - 0.1])
        if self.materials and r.random() < 0.2:
            a["material"] = r.choice(self.materials)
        u = self.user("site")
        if u:
            a["user"] = u
        self.decorate("site", a, skip=(ORIENT + ("pos",)) if "fromto" in a else ())
        self.sites.append(a["name"])
        return a

    def body(self, depth, parentname):
        r = self.r
        name = self.nm("b")
        self.bodies.append(name)
        a = {"name": name}
        if r.random() < 0.3 and self.classes:
            a["childclass"] = r.choice(self.classes)
        if r.random() < 0.85:
            a["pos"] = self.v2s(self.vec(3, -0.5, 0.5))
        u = self.user("body")
        if u:
            a["user"] = u
        if depth == 0 and r.random() < 0.0:
            a["sleep"] = r.choice(["auto", "never", "allowed", "init"])
        self.decorate("body", a, skip=("mocap",))
        self.open("body", a)
        free = depth == 0 and r.random() < 0.35
        explicit_inertial = r.random() < 0.25 or self.inertiafromgeom == "false"
        if explicit_inertial:
            ia = {"pos": self.v2s(self.vec(3, -0.1, 0.1)), "mass": self.fmt(r.uniform(0.2, 5))}
            k = r.random()
            if k < 0.5:
                ia["diaginertia"] = self.v2s([r.uniform(0.01, 0.02) for _ in range(3)])
                for kk, vv in self.orientation(set(ORIENT)).items():
                    ia[kk] = self.v2s(vv)
            else:
                d = [r.uniform(0.01, 0.02) for _ in range(3)]
                ia["fullinertia"] = self.v2s(d + [r.uniform(-0.002, 0.002) for _ in range(3)])
            self.leaf("inertial", ia)
        # joints
        if free:
            if r.random() < 0.5:
                fa = {"name": self.nm("j")}
                if r.random() < 0.3 and "freealign" in self.feat:
                    fa["align"] = r.choice(["true", "false", "auto"])
                if r.random() < 0.3:
                    fa["group"] = str(r.randint(0, 5))
                self.leaf("freejoint", fa)
            else:
                ja = {"name": self.nm("j"), "type": "free"}
                self.decorate("joint", ja, skip=("pos", "axis", "limited", "range", "ref", "springref", "stiffness", "springdamper",
                                                 "margin", "actuatorfrclimited", "actuatorfrcrange", "solreflimit", "solimplimit"))
                self.leaf("joint", ja)
            self.freejoints.append(name)
        else:
            k = r.random()
            nj = 0 if k < 0.1 else (1 if k < 0.7 else (2 if k < 0.9 else 3))
            ball = nj == 1 and r.random() < 0.2
            for _ in range(nj):
                ja = {"name": self.nm("j"), "class": self.cls()}
                if ball:
                    ja["type"] = "ball"
                    self.balls.append(ja["name"])
                    if r.random() < 0.3:
                        ja["range"] = "0 " + self.fmt(self.ang(0.3, 1.5))
                        if not self.autolimits:
                            ja["limited"] = r.choice(["true", "false"])
                        elif r.random() < 0.5:
                            ja["limited"] = r.choice(["true", "auto", "false"])
                        if ja.get("limited") != "false":
                            self.limited_j.add(ja["name"])
                    self.limits(ja, "joint", "actuatorfrcrange", "actuatorfrclimited")
                    self.decorate("joint", ja, skip=("range", "limited", "ref", "springref", "axis"))
                else:
                    ty = r.choice(["hinge", "slide", None])
                    if ty:
                        ja["type"] = ty
                    if r.random() < 0.5:
                        ax = self.vec(3, -1, 1)
                        if sum(abs(t_) for t_ in ax) < 0.2:
                            ax[0] = 1.0
                        ja["axis"] = self.v2s(ax)
                    if r.random() < 0.4:
                        lo = self.num(-1.5, -0.1)
                        hi = self.num(0.1, 1.5)
                        if ty != "slide":
                            lo, hi = (lo * 57.0, hi * 57.0) if self.degree else (lo, hi)
                        ja["range"] = self.v2s([lo, hi])
                        if not self.autolimits:
                            ja["limited"] = r.choice(["true", "false"])
                        elif r.random() < 0.5:
                            ja["limited"] = r.choice(["true", "auto", "false"])
                        if ja.get("limited") != "false":
                            self.limited_j.add(ja["name"])
                    self.limits(ja, "joint", "actuatorfrcrange", "actuatorfrclimited")
                    if r.random() < 0.15:
                        ja["springdamper"] = self.v2s([r.uniform(0.05, 1), r.uniform(0.3, 1.5)])
                    u = self.user("jnt")
                    if u:
                        ja["user"] = u
                    self.decorate("joint", ja, skip=("range", "limited", "axis"))
                    self.scalars.append(ja["name"])
                self.leaf("joint", ja)
        # geoms, sites, cameras, lights (some inside frames)
        def leaves():
            ng = r.randint(1, 3) if not explicit_inertial else r.randint(0, 2)
            for _ in range(ng):
                ga = self.geom_attrs()
                self.geoms.append((ga["name"], name))
                self.leaf("geom", ga)
            for _ in range(r.choice([0, 0, 1, 2])):
                self.leaf("site", self.site_attrs())
            if r.random() < 0.2:
                ca = {"name": self.nm("cam"), "class": self.cls()}
                if r.random() < 0.3:
                    ca["mode"] = r.choice(["fixed", "track", "trackcom"])
                if r.random() < 0.3 and len(self.bodies) > 1:
                    ca["mode"] = r.choice(["targetbody", "targetbodycom"])
                    ca["target"] = r.choice([b for b in self.bodies if b != name] or self.bodies)
                k2 = r.random()
                if k2 < 0.25:
                    ca["fovy"] = self.fmt(r.uniform(10, 100))
                elif k2 < 0.5:
                    ca["sensorsize"] = self.v2s([r.uniform(0.001, 0.01), r.uniform(0.001, 0.01)])
                    ca["resolution"] = "%d %d" % (r.randint(16, 640), r.randint(16, 480))
                    if r.random() < 0.5:
                        ca["focal"] = self.v2s([r.uniform(0.001, 0.01), r.uniform(0.001, 0.01)])
                    else:
                        ca["focalpixel"] = self.v2s([r.uniform(10, 300), r.uniform(10, 300)])
                    if r.random() < 0.5:
                        ca["principal"] = self.v2s([r.uniform(-0.001, 0.001), r.uniform(-0.001, 0.001)])
                    elif r.random() < 0.5:
                        ca["principalpixel"] = self.v2s([r.uniform(-10, 10), r.uniform(-10, 10)])
                elif k2 < 0.6:
                    ca["resolution"] = "%d %d" % (r.randint(16, 640), r.randint(16, 480))
                if r.random() < 0.3:
                    ca["projection"] = r.choice(["perspective", "orthographic"])
                if r.random() < 0.2:
                    ca["output"] = " ".join(r.sample(self.sc.enums["camout"].keywords(), r.randint(1, 2)))
                u2 = self.user("cam")
                if u2:
                    ca["user"] = u2
                self.decorate("camera", ca)
                self.cams.append(ca["name"])
                self.leaf("camera", ca)
            if r.random() < 0.2:
                la = {"name": self.nm("lt"), "class": self.cls()}
                if r.random() < 0.3:
                    la["type"] = r.choice(self.sc.enums["lighttype"].keywords())
                elif r.random() < 0.2:
                    la["directional"] = r.choice(["true", "false"])
                if r.random() < 0.2 and len(self.bodies) > 1:
                    la["mode"] = "targetbody"
                    la["target"] = r.choice(self.bodies)
                elif r.random() < 0.3:
                    la["mode"] = r.choice(["fixed", "track", "trackcom"])
                self.decorate("light", la)
                self.leaf("light", la)
        leaves()
        # frames
        if r.random() < 0.3 and depth < 4:
            self.frame(depth, name, 0)
        # children
        if depth < 3:
            for _ in range(r.choice([0, 0, 1, 1, 2])):
                if len(self.bodies) >= self.maxbody:
                    break
                self.body(depth + 1, name)
        self.close("body")

    def frame(self, depth, bodyname, fdepth):
        r = self.r
        fa = {}
        if r.random() < 0.5:
            fa["name"] = self.nm("f")
        if r.random() < 0.3 and self.classes:
            fa["childclass"] = r.choice(self.classes)
        if r.random() < 0.8:
            fa["pos"] = self.v2s(self.vec(3, -0.3, 0.3))
        self.decorate("frame", fa, p=0.5)
        self.open("frame", fa)
        for _ in range(r.randint(0, 2)):
            ga = self.geom_attrs()
            self.geoms.append((ga["name"], bodyname))
            self.leaf("geom", ga)
        if r.random() < 0.5:
            self.leaf("site", self.site_attrs())
        if r.random() < 0.3 and fdepth < 2:
            self.frame(depth, bodyname, fdepth + 1)
        if r.random() < 0.4 and depth < 3 and len(self.bodies) < self.maxbody and "bodyframe" in self.feat:
            self.body(depth + 1, bodyname)
        self.close("frame")

    def sec_world(self):
        r = self.r
        self.bodies, self.geoms, self.sites, self.cams = [], [], [], []
        self.scalars, self.balls, self.freejoints = [], [], []
        self.limited_j, self.limited_t = set(), set()
        self.maxbody = self.o.get("maxbody", r.randint(1, 7))
        self.open("worldbody")
        if r.random() < 0.6:
            ga = {"name": "floor", "type": "plane", "size": self.v2s([r.uniform(1, 5), r.uniform(1, 5), r.uniform(0.05, 0.2)])}
            if self.materials and r.random() < 0.4:
                ga["material"] = r.choice(self.materials)
            self.decorate("geom", ga, skip=("mass", "density", "fluidshape", "fluidcoef", "shellinertia"))
            self.geoms.append(("floor", "world"))
            self.leaf("geom", ga)
        if self.hfields and r.random() < 0.8:
            ga = {"name": self.nm("g"), "type": "hfield", "hfield": self.hfields[0]}
            self.decorate("geom", ga, skip=("mass", "density", "fluidshape", "fluidcoef", "shellinertia"))
            self.leaf("geom", ga)
        if r.random() < 0.3:
            self.leaf("site", self.site_attrs())
        if r.random() < 0.4:
            la = {"name": self.nm("lt")}
            self.decorate("light", la)
            self.leaf("light", la)
        if r.random() < 0.3:
            ca = {"name": self.nm("cam")}
            self.decorate("camera", ca)
            self.cams.append(ca["name"])
            self.leaf("camera", ca)
        while len(self.bodies) < max(1, self.maxbody // 2):
            if r.random() < 0.25 and "bodyframe" in self.feat:
                self.open("frame", self.decorate("frame", {"name": self.nm("f")} if r.random() < 0.5 else {}, p=0.5))
                self.body(0, "world")
                self.close("frame")
            else:
                self.body(0, "world")
        self.mocaps = []
        if r.random() < 0.3:
            for _ in range(r.randint(1, 2)):
                mb = self.nm("mocap")
                a = {"name": mb, "mocap": "true", "pos": self.v2s(self.vec(3, -1, 1))}
                self.decorate("body", a, skip=("gravcomp",))
                self.open("body", a)
                self.leaf("geom", {"name": self.nm("g"), "size": "0.03", "contype": "0", "conaffinity": "0"})
                self.close("body")
                self.mocaps.append(mb)
                self.bodies.append(mb)
        self.close("worldbody")

    def sec_contact(self):
        r = self.r
        gs = [g for g, b in self.geoms if g not in self.nocollide]
        if r.random() < 0.5 or len(gs) < 2:
            return
        self.open("contact")
        used = set()
        for _ in range(r.randint(0, 3)):
            g1, g2 = r.sample(gs, 2)
            if (g1, g2) in used or (g2, g1) in used:
                continue
            used.add((g1, g2))
            a = {"geom1": g1, "geom2": g2, "class": self.cls()}
            if r.random() < 0.5:
                a["name"] = self.nm("pair")
            if r.random() < 0.3:
                a["condim"] = r.choice(["1", "3", "4", "6"])
            self.decorate("pair", a)
            self.leaf("pair", a)
        bs = [b for b in self.bodies]
        usedb = set()
        for _ in range(r.randint(0, 2)):
            if len(bs) < 2:
                break
            b1, b2 = r.sample(bs, 2)
            if (b1, b2) in usedb or (b2, b1) in usedb:
                continue
            usedb.add((b1, b2))
            a = {"body1": b1, "body2": b2}
            if r.random() < 0.5:
                a["name"] = self.nm("ex")
            self.leaf("exclude", a)
        self.close("contact")

    def sec_tendon(self):
        r = self.r
        self.tendons = []
        if r.random() < 0.4:
            return
        items = []
        for _ in range(r.randint(1, 3)):
            if self.scalars and r.random() < 0.5:
                items.append("fixed")
            elif len(self.sites) >= 2:
                items.append("spatial")
        if not items:
            return
        self.open("tendon")
        for kind in items:
            a = {"name": self.nm("t"), "class": self.cls()}
            if r.random() < 0.3:
                a["springlength"] = self.v2s([r.uniform(0, 0.5)] if r.random() < 0.5 else sorted([r.uniform(0, 0.5), r.uniform(0, 0.5)]))
            if r.random() < 0.4:
                a["range"] = self.v2s([self.num(-1, -0.1), self.num(0.1, 2)] if kind == "fixed" else [self.num(0, 0.3), self.num(0.5, 3)])
                if not self.autolimits:
                    a["limited"] = r.choice(["true", "false"])
                elif r.random() < 0.5:
                    a["limited"] = r.choice(["true", "auto", "false"])
                if a.get("limited") != "false":
                    self.limited_t.add(a["name"])
            self.limits(a, kind, "actuatorfrcrange", "actuatorfrclimited")
            u = self.user("tendon")
            if u:
                a["user"] = u
            if kind == "spatial" and self.materials and r.random() < 0.2:
                a["material"] = r.choice(self.materials)
            self.decorate(kind, a, skip=("range", "limited"))
            self.open(kind, a)
            if kind == "fixed":
                for j in r.sample(self.scalars, min(len(self.scalars), r.randint(1, 3))):
                    self.leaf("joint", {"joint": j, "coef": self.fmt(self.num(-2, 2) or 1.0)})
            else:
                ss = r.sample(self.sites, min(len(self.sites), r.randint(2, 4)))
                self.leaf("site", {"site": ss[0]})
                for i, s in enumerate(ss[1:]):
                    if r.random() < 0.15 and i + 2 < len(ss) + 1 and i > 0:
                        self.leaf("pulley", {"divisor": self.fmt(r.choice([1.0, 2.0, r.uniform(0.5, 3)]))})
                        self.leaf("site", {"site": ss[0]})
                    self.leaf("site", {"site": s})
            self.close(kind)
            self.tendons.append(a["name"])
        self.close("tendon")

    def sec_equality(self):
        r = self.r
        if r.random() < 0.5:
            return
        items = []
        for _ in range(r.randint(1, 3)):
            k = r.choice(["connect", "weld", "joint", "tendon", "connect_site", "weld_site"])
            items.append(k)
        self.open("equality")
        nonmocap = [b for b in self.bodies if b not in self.mocaps]
        for k in items:
            a = {"class": self.cls()}
            if r.random() < 0.7:
                a["name"] = self.nm("eq")
            if k == "connect":
                a["body1"] = r.choice(nonmocap)
                if len(self.bodies) > 1 and r.random() < 0.6:
                    a["body2"] = r.choice([b for b in self.bodies if b != a["body1"]])
                a["anchor"] = self.v2s(self.vec(3, -0.2, 0.2))
                en = "connect"
            elif k == "weld":
                a["body1"] = r.choice(nonmocap)
                if len(self.bodies) > 1 and r.random() < 0.6:
                    a["body2"] = r.choice([b for b in self.bodies if b != a["body1"]])
                if r.random() < 0.5:
                    a["anchor"] = self.v2s(self.vec(3, -0.2, 0.2))
                if r.random() < 0.5:
                    a["relpose"] = self.v2s(self.vec(3, -0.2, 0.2) + self.quat())
                if r.random() < 0.4:
                    a["torquescale"] = self.fmt(r.uniform(0.1, 2))
                en = "weld"
            elif k in ("connect_site", "weld_site"):
                if len(self.sites) < 2:
                    continue
                s1, s2 = r.sample(self.sites, 2)
                a["site1"], a["site2"] = s1, s2
                en = "connect" if k == "connect_site" else "weld"
                if en == "weld" and r.random() < 0.4:
                    a["torquescale"] = self.fmt(r.uniform(0.1, 2))
            elif k == "joint":
                if not self.scalars:
                    continue
                a["joint1"] = r.choice(self.scalars)
                if len(self.scalars) > 1 and r.random() < 0.7:
                    a["joint2"] = r.choice([j for j in self.scalars if j != a["joint1"]])
                if r.random() < 0.7:
                    a["polycoef"] = self.v2s(self.vec(r.randint(1, 5), -1, 1))
                en = "equality_joint"
            else:
                if not self.tendons:
                    continue
                a["tendon1"] = r.choice(self.tendons)
                if len(self.tendons) > 1 and r.random() < 0.7:
                    a["tendon2"] = r.choice([t for t in self.tendons if t != a["tendon1"]])
                if r.random() < 0.7:
                    a["polycoef"] = self.v2s(self.vec(r.randint(1, 5), -1, 1))
                en = "equality_tendon"
            self.decorate(en, a, skip=("torquescale",))
            self.leaf(self.sc.elements[en].xml_name(), a)
        self.close("equality")

    def act_params(self, en, indefault=False):
        """type-specific attributes of an actuator shortcut"""
        r = self.r
        a = {}
        if en == "general":
            if r.random() < 0.6:
                d = r.choice(["none", "integrator", "filter", "filterexact", "muscle"])
                a["dyntype"] = d
                if d in ("filter", "filterexact") or r.random() < 0.3:
                    a["dynprm"] = self.v2s([r.uniform(0.01, 1)] + self.vec(r.randint(0, 3), 0.1, 1))
                if r.random() < 0.2 and d != "none":
                    a["actdim"] = "1"
                if d != "none" and r.random() < 0.3:
                    a["actrange"] = self.v2s([self.num(-2, -0.1), self.num(0.1, 2)])
                    a["actlimited"] = r.choice(["true", "false"]) if (not self.autolimits or r.random() < 0.5) else None
                if d != "none" and r.random() < 0.2:
                    a["actearly"] = r.choice(["true", "false"])
            if r.random() < 0.6:
                a["gaintype"] = r.choice(["fixed", "affine", "muscle"])
                a["gainprm"] = self.v2s(self.vec(r.randint(1, 4), 0.1, 3) if a["gaintype"] != "muscle" else [0.75, 1.05, -1, 200, 0.5, 1.6, 1.5, 1.3, 1.2][:r.randint(1, 9)])
            if r.random() < 0.6:
                a["biastype"] = r.choice(["none", "affine", "muscle"])
                if a["biastype"] != "none" or r.random() < 0.3:
                    a["biasprm"] = self.v2s(self.vec(r.randint(1, 4), -2, 0.5) if a["biastype"] != "muscle" else [0.75, 1.05, -1, 200, 0.5, 1.6, 1.5, 1.3, 1.2][:r.randint(1, 9)])
        elif en in ("position", "intvelocity", "pid", "orientation"):
            if r.random() < 0.7:
                a["kp"] = self.fmt(r.uniform(0.5, 50))
            k = r.random()
            if k < 0.3:
                a["kv"] = self.fmt(r.uniform(0.0, 5))
            elif k < 0.5:
                a["dampratio"] = self.fmt(r.uniform(0.1, 2))
            if r.random() < 0.2 and en == "position":
                a["timeconst"] = self.fmt(r.uniform(0.0, 0.5))
            if en == "intvelocity" and (not indefault or r.random() < 0.5):
                a["actrange"] = self.v2s([self.num(-2, -0.1), self.num(0.1, 2)])
                if not self.autolimits:
                    a["actlimited"] = "true"
            if en == "pid":
                if r.random() < 0.5:
                    a["ki"] = self.fmt(r.uniform(0.1, 20))
                if r.random() < 0.3:
                    a["imax"] = self.fmt(r.uniform(0.1, 5))
                if r.random() < 0.3:
                    a["slewmax"] = self.fmt(r.uniform(0.1, 5))
        elif en in ("velocity", "damper"):
            if r.random() < 0.7:
                a["kv"] = self.fmt(r.uniform(0.1, 5))
            if en == "damper" and (not indefault or r.random() < 0.5):
                a["ctrlrange"] = self.v2s([0.0, r.uniform(0.5, 2)])
        elif en == "cylinder":
            for k_ in ("timeconst", "area", "diameter"):
                if r.random() < 0.4:
                    a[k_] = self.fmt(r.uniform(0.01, 1.5))
            if "area" in a and "diameter" in a:
                del a["area"]
            if r.random() < 0.3:
                a["bias"] = self.v2s(self.vec(3, -1, 1))
        elif en == "muscle":
            if r.random() < 0.3:
                a["timeconst"] = self.v2s([r.uniform(0.005, 0.05), r.uniform(0.02, 0.08)])
            if r.random() < 0.3:
                a["tausmooth"] = self.fmt(r.uniform(0, 0.3))
            if r.random() < 0.3:
                a["range"] = self.v2s([r.uniform(0.5, 0.9), r.uniform(1.0, 1.3)])
            for k_ in ("force", "scale", "lmin", "lmax", "vmax", "fpmax", "fvmax"):
                if r.random() < 0.25:
                    a[k_] = self.fmt({"lmin": r.uniform(0.2, 0.7), "lmax": r.uniform(1.3, 2)}.get(k_, r.uniform(0.5, 300 if k_ in ("force", "scale") else 2)))
            if indefault:
                a.pop("range", None)
        elif en == "adhesion":
            a["gain"] = self.fmt(r.uniform(0.1, 10))
            if not indefault or r.random() < 0.5:
                a["ctrlrange"] = self.v2s([0.0, r.uniform(0.5, 2)])
        elif en == "dcmotor":
            a["motorconst"] = self.v2s([r.uniform(0.01, 1)] + ([r.uniform(0.01, 1)] if r.random() < 0.5 else []))
            a["resistance"] = self.fmt(r.uniform(0.1, 10))
            if r.random() < 0.3:
                a["inductance"] = self.v2s([r.uniform(0.001, 0.1)])
        return self.only(en, {k: v for k, v in a.items() if v is not None})

    def sec_actuator(self):
        r = self.r
        self.acts = []
        if r.random() < 0.25:
            return
        targets = []
        if self.scalars:
            targets.append("joint")
        if self.tendons:
            targets.append("tendon")
        if self.sites:
            targets.append("site")
        if len(self.sites) >= 2:
            targets.append("slidercrank")
        if not targets:
            return
        self.open("actuator")
        nbody_act = [b for b in self.bodies if b not in self.mocaps]
        for _ in range(r.randint(1, 5)):
            en = r.choice(self.ACT_SHORT + ("general", "motor"))
            a = {"name": self.nm("a"), "class": self.cls()}
            names = {x.name for x in self.attrs_of(en)}
            jt = False
            if en == "adhesion":
                a["body"] = r.choice(nbody_act)
            else:
                tg = r.choice([t for t in targets if (t != "site" or "site" in names) and (t != "tendon" or "tendon" in names)
                               and (t != "slidercrank" or "cranksite" in names)] or ["joint"])
                if tg == "joint" and not self.scalars:
                    continue
                if tg == "joint":
                    a[r.choice(["joint", "joint", "jointinparent"])] = r.choice(self.scalars)
                    jt = True
                elif tg == "tendon":
                    a["tendon"] = r.choice(self.tendons)
                    jt = True
                elif tg == "site":
                    a["site"] = r.choice(self.sites)
                    if r.random() < 0.4 and len(self.sites) > 1:
                        a["refsite"] = r.choice(self.sites)
                    a["gear"] = self.v2s(self.vec(6, -2, 2))
                else:
                    s1, s2 = r.sample(self.sites, 2)
                    a["cranksite"], a["slidersite"] = s1, s2
                    a["cranklength"] = self.fmt(r.uniform(0.1, 1))
            a.update(self.act_params(en))
            if en not in ("adhesion", "damper"):
                self.limits(a, en, "ctrlrange", "ctrllimited")
            self.limits(a, en, "forcerange", "forcelimited", lo=(-20, -0.1), hi=(0.1, 20))
            musc = en == "muscle" or a.get("gaintype") == "muscle" or a.get("biastype") == "muscle" or a.get("dyntype") == "muscle" or bool(a.get("class")) or bool(self.classes)
            if (r.random() < 0.2 or musc or self.has_defaults) and "lengthrange" in names:
                a["lengthrange"] = self.v2s([self.num(-1, -0.01), self.num(0.1, 2)])
            if "gear" in names and "gear" not in a and r.random() < 0.4:
                a["gear"] = self.v2s(self.vec(r.randint(1, 6), -3, 3))
            u = self.user("actuator")
            if u:
                a["user"] = u
            self.decorate(en, a, skip=("gear",) + (() if jt else ("damping", "armature")))
            self.leaf(en, self.only(en, a))
            self.acts.append(a["name"])
        self.close("actuator")

    def sec_sensor(self):
        r = self.r
        if r.random() < 0.25:
            return
        S = []
        def add(en, a):
            a["name"] = self.nm("sn") if r.random() < 0.8 else None
            u = self.user("sensor")
            if u:
                a["user"] = u
            self.decorate(en, a, p=0.3)
            if en not in ("framequat", "framexaxis", "frameyaxis", "framezaxis", "ballquat", "user", "sensor_contact", "rangefinder", "clock") and r.random() < 0.3:
                a["cutoff"] = self.fmt(r.uniform(0.1, 5))
            S.append((self.sc.elements[en].xml_name(), self.only(en, a)))
        for _ in range(r.randint(1, 8)):
            k = r.random()
            if k < 0.2 and self.sites:
                add(r.choice(["touch", "accelerometer", "velocimeter", "gyro", "force", "torque", "magnetometer"]), {"site": r.choice(self.sites)})
            elif k < 0.3 and self.sites:
                a = {"site": r.choice(self.sites)} if r.random() < 0.6 or not self.cams else {"camera": r.choice(self.cams)}
                if r.random() < 0.4:
                    kw = self.sc.enums["raydata"].keywords()
                    a["data"] = " ".join(sorted(r.sample(kw, r.randint(1, 2)), key=kw.index))
                add("rangefinder", a)
            elif k < 0.4 and self.scalars:
                lj = sorted(self.limited_j & set(self.scalars))
                if lj and r.random() < 0.4:
                    add(r.choice(["jointlimitpos", "jointlimitvel", "jointlimitfrc"]), {"joint": r.choice(lj)})
                else:
                    add(r.choice(["jointpos", "jointvel", "jointactuatorfrc"]), {"joint": r.choice(self.scalars)})
            elif k < 0.45 and self.balls:
                add(r.choice(["ballquat", "ballangvel"]), {"joint": r.choice(self.balls)})
            elif k < 0.55 and self.tendons:
                lt = sorted(self.limited_t)
                if lt and r.random() < 0.4:
                    add(r.choice(["tendonlimitpos", "tendonlimitvel", "tendonlimitfrc"]), {"tendon": r.choice(lt)})
                else:
                    add(r.choice(["tendonpos", "tendonvel", "tendonactuatorfrc"]), {"tendon": r.choice(self.tendons)})
            elif k < 0.65 and self.acts:
                add(r.choice(["actuatorpos", "actuatorvel", "actuatorfrc"]), {"actuator": r.choice(self.acts)})
            elif k < 0.8:
                en = r.choice(["framepos", "framequat", "framexaxis", "frameyaxis", "framezaxis", "framelinvel", "frameangvel", "framelinacc", "frameangacc"])
                ot, on = self.frameobj()
                a = {"objtype": ot, "objname": on}
                if en not in ("framelinacc", "frameangacc") and r.random() < 0.4:
                    a["reftype"], a["refname"] = self.frameobj()
                add(en, a)
            elif k < 0.85:
                add(r.choice(["subtreecom", "subtreelinvel", "subtreeangmom"]), {"body": r.choice(self.bodies)})
            elif k < 0.9 and len(self.geoms) >= 2:
                g1, g2 = r.sample(self.geoms, 2)
                a = {}
                if r.random() < 0.6 or g1[1] == "world" or g2[1] == "world" or g1[1] == g2[1]:
                    a["geom1"], a["geom2"] = g1[0], g2[0]
                else:
                    a["body1"], a["body2"] = g1[1], g2[1]
                add(r.choice(["distance", "normal", "fromto"]), a)
            elif k < 0.94:
                add(r.choice(["e_potential", "e_kinetic", "clock"]) if "energy" in self.feat else "clock", {})
            elif k < 0.97:
                a = {"dim": str(r.randint(1, 4))}
                if r.random() < 0.5:
                    a["objtype"], a["objname"] = self.frameobj()
                if r.random() < 0.5:
                    a["needstage"] = r.choice(["pos", "vel", "acc"])
                if r.random() < 0.5:
                    a["datatype"] = r.choice(["real", "positive", "axis", "quaternion"])
                add("user", a)
            else:
                a = {}
                if self.geoms and r.random() < 0.7:
                    a["geom1"] = r.choice(self.geoms)[0]
                if r.random() < 0.4:
                    a["num"] = str(r.randint(1, 4))
                if r.random() < 0.5 and "condata" in self.sc.enums:
                    a["data"] = " ".join(sorted(r.sample(self.sc.enums["condata"].keywords(), r.randint(1, 3)), key=self.sc.enums["condata"].keywords().index))
                if r.random() < 0.4 and "reduce" in self.sc.enums:
                    a["reduce"] = r.choice(self.sc.enums["reduce"].keywords())
                add("sensor_contact", a)
        if not S:
            return
        self.open("sensor")
        for tag, a in S:
            self.leaf(tag, a)
        self.close("sensor")

    def frameobj(self):
        r = self.r
        opts = [("body", r.choice(self.bodies)), ("xbody", r.choice(self.bodies))]
        if self.geoms:
            opts.append(("geom", r.choice(self.geoms)[0]))
        if self.sites:
            opts.append(("site", r.choice(self.sites)))
        if self.cams:
            opts.append(("camera", r.choice(self.cams)))
        return r.choice(opts)

    def sec_custom(self):
        r = self.r
        if r.random() < 0.6:
            return
        self.open("custom")
        for _ in range(r.randint(0, 2)):
            n = r.randint(1, 5)
            a = {"name": self.nm("num")}
            k = r.random()
            if k < 0.4:
                a["data"] = self.v2s(self.vec(n))
            elif k < 0.8:
                a["size"] = str(n + r.randint(0, 2))
                a["data"] = self.v2s(self.vec(n))
            else:
                a["size"] = str(n)
            self.leaf("numeric", a)
        for _ in range(r.randint(0, 2)):
            self.leaf("text", {"name": self.nm("txt"), "data": r.choice(["hello world", "a&amp;b &lt;c&gt;", "x", "tab\tsep  two"])})
        if r.random() < 0.5 and self.bodies:
            self.open("tuple", {"name": self.nm("tup")})
            for _ in range(r.randint(1, 3)):
                ot, on = self.frameobj()
                if ot == "xbody":
                    ot = "body"
                a = {"objtype": ot, "objname": on}
                if r.random() < 0.5:
                    a["prm"] = self.fmt(self.num())
                self.leaf("element", a)
            self.close("tuple")
        self.close("custom")

    def sec_keyframe(self):
        # keyframe vectors need nq/nv/...: only time/ctrl-free keys here; full keys are produced by the
        # driver's E mode (mjSpec route) and by add_keys() once sizes are known
        r = self.r
        if r.random() < 0.5:
            return
        self.open("keyframe")
        for _ in range(r.randint(1, 3)):
            a = {}
            if r.random() < 0.7 or "emptykey" not in self.feat:
                a["name"] = self.nm("key")
            if r.random() < 0.7:
                a["time"] = self.fmt(abs(self.num(0, 3)))
            if self.mocaps and r.random() < 0.5:
                a["mpos"] = self.v2s(self.vec(3 * len(self.mocaps), -1, 1))
            if self.mocaps and r.random() < 0.5:
                q = []
                for _m in self.mocaps:
                    q += self.quat()
                a["mquat"] = self.v2s(q)
            if self.acts and r.random() < 0.5:
                a["ctrl"] = self.v2s(self.vec(len(self.acts), -1, 1))
            if "emptykey" in self.feat and r.random() < 0.5:
                a = {}
            self.leaf("key", a)
        self.close("keyframe")


def generate(repo, seed, level=2, opts=None):
    return Gen(load_schema(repo), seed, level, opts).model()


if __name__ == "__main__":
    import sys
    print(generate(sys.argv[1] if len(sys.argv) > 1 else "/repo", int(sys.argv[2]) if len(sys.argv) > 2 else 1,
                   int(sys.argv[3]) if len(sys.argv) > 3 else 2))
