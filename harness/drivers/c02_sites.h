// C02: call-site identification helpers (each implemented in a TU that #includes the engine .c file
// with the static task function).
#ifndef VERIF_C02_SITES_H_
#define VERIF_C02_SITES_H_
#include <mujoco/mujoco.h>
#ifdef __cplusplus
extern "C" {
#endif

typedef void (*c02TaskFunc)(const mjModel* m, mjData* d, void* arg, int thread_id, int task_id);

typedef struct {
  const char* conbuffer;   // mjPreContact[maxcon]
  int conelem;             // sizeof(mjPreContact)
  const char* nconbuffer;  // int[npair]
  const char* epabuffer;   // char[ccd_size * nthread]
  const char* pairbuffer;
  int pair_stride;
  int ccd_size;
  int npair;
  int chunksize;
  int maxcon;
} c02ColInfo;

int c02_col_is(c02TaskFunc f);
void c02_col_info(const void* arg, c02ColInfo* out);
int c02_col_conpos(const void* arg, int i);

typedef struct {
  const char* forcesT;     // mjtNum[3 * ntaxel]
  int ntaxel;
  int ntask;
  int batch;               // taxels per task
  int last_end;            // end_taxel of the last task
} c02TacInfo;

int c02_tac_is(c02TaskFunc f);
void c02_tac_info(const mjModel* m, const void* arg, int ntask, c02TacInfo* out);

#ifdef __cplusplus
}
#endif
#endif
