// C19 driver: runs operation sequences on the working tree's engine_memory.c (included as text, so
// that the static mjStackFrame type and the atomic macro are reachable) on a raw mjData whose
// arena is a harness buffer with guard zones.  mju_error is intercepted with mju_user_error +
// longjmp, which is the "error outcome".
//
// stdin, one scenario after the other:
//   S <narena> <off> <parena0> <pstack0> <nops>        sequential scenario, then nops lines:
//       M | F | A <size> <align> | R <bytes> <align> | N <n> | I <n> | L <0|1>
//   T <nthreads> <nper> <narena> <off> <parena0> <seed> <maxsize>   concurrent thread-lock scenario
// stdout:
//   B <base> <sizeof frame> <alignof frame> <offsetof pbase> <offsetof pstack>
//   per op:  <kind> <ptr> <pstack> <parena> <pbase> <maxuse_stack> <maxuse_arena>
//            kind 0 = void, 1 = NULL, 2 = pointer, 3 = mju_error raised, 9 = not executed (after an error
//            under the thread lock)
//   E <guard bytes modified> <live blocks whose fill pattern was damaged>
//   (a scenario whose process died prints the single line  X <signal>  instead)
//   T scenario: B line, then per call: t <tid> <size> <align> <old> <alloc> <kind> <ptr>, then
//            E <guard> <damaged> <final pstack>
#include <inttypes.h>
#include <pthread.h>
#include <setjmp.h>
#include <stddef.h>
#include <stdint.h>
#include <stdio.h>
#include <stdlib.h>
#include <string.h>
#include <sys/types.h>
#include <sys/wait.h>
#include <unistd.h>

#include <mujoco/mujoco.h>
#include "engine/engine_crossplatform.h"

// the repository's atomic add, captured before the macro is wrapped for logging
static inline size_t verif_repo_faa(size_t* p, size_t v) { return mj_atomic_add_size_t(p, v); }
static __thread size_t faa_old, faa_val;
static __thread int faa_count;
static inline size_t verif_faa(size_t* p, size_t v) {
  size_t old = verif_repo_faa(p, v);
  faa_old = old; faa_val = v; faa_count++;
  return old;
}
#undef mj_atomic_add_size_t
#define mj_atomic_add_size_t(ptr, val) verif_faa(ptr, val)

#include "engine/engine_memory.c"

static __thread jmp_buf jb;
static __thread int jb_armed;
static void on_error(const char* msg) {
  (void)msg;
  if (jb_armed) longjmp(jb, 1);
  fprintf(stderr, "mju_error outside a guarded call: %s\n", msg);
  exit(3);
}

#define GUARD 4096
#define MAXLIVE 4096
typedef struct { unsigned char* p; size_t n; unsigned char tag; int level; int stack; } blk;

static unsigned char* raw;
static size_t rawsize;

static mjData* make_data(size_t narena, size_t off, size_t parena0, size_t pstack0) {
  rawsize = narena + off + 2 * GUARD + 64;
  raw = aligned_alloc(4096, (rawsize + 4095) / 4096 * 4096);
  memset(raw, 0xA5, rawsize);
  mjData* d = calloc(1, sizeof(mjData));
  d->arena = raw + GUARD + off;
  memset(d->arena, 0, narena);
  d->narena = (mjtSize)narena;
  d->parena = parena0;
  d->pstack = pstack0;
  return d;
}

static long guard_damage(const mjData* d) {
  long bad = 0;
  unsigned char* a = (unsigned char*)d->arena;
  for (unsigned char* q = raw; q < a; q++) bad += (*q != 0xA5);
  for (unsigned char* q = a + d->narena; q < raw + rawsize; q++) bad += (*q != 0xA5);
  return bad;
}

static int intact(const blk* b) {
  for (size_t i = 0; i < b->n; i++) if (b->p[i] != b->tag) return 0;
  return 1;
}

static int inside(const mjData* d, void* p, size_t n) {
  uintptr_t a = (uintptr_t)d->arena, q = (uintptr_t)p;
  return q >= a && q - a <= (size_t)d->narena && n <= (size_t)d->narena - (q - a);
}

static FILE* vout;   // output of the scenario being run (memory stream of the child process)

static void print_state(int kind, void* p, const mjData* d) {
  fprintf(vout, "%d %" PRIuPTR " %zu %zu %zu %" PRIu64 " %" PRIu64 "\n", kind, (uintptr_t)p, d->pstack,
         d->parena, d->pbase, (uint64_t)d->maxuse_stack, (uint64_t)d->maxuse_arena);
}

typedef struct { char op; unsigned long long x, y; } opline;

static int sequential(unsigned long long narena, unsigned long long off, unsigned long long parena0,
                      unsigned long long pstack0, int nops, const opline* ol) {
  mjData* d = make_data(narena, off, parena0, pstack0);
  fprintf(vout, "B %" PRIuPTR " %zu %zu %zu %zu\n", (uintptr_t)d->arena, sizeof(mjStackFrame),
         (size_t)_Alignof(mjStackFrame), offsetof(mjStackFrame, pbase), offsetof(mjStackFrame, pstack));
  static blk live[MAXLIVE]; volatile int nlive = 0, level = 0; volatile long damaged = 0; volatile int dead = 0;
  for (int i = 0; i < nops; i++) {
    char op[2] = { ol[i].op, 0 }; unsigned long long x = ol[i].x, y = ol[i].y;
    void* volatile p = NULL; volatile int kind = 0;
    if (dead) { print_state(9, NULL, d); continue; }
    jb_armed = 1;
    if (setjmp(jb) == 0) {
      switch (op[0]) {
        case 'M': mj_markStack(d); if (!d->threadlock) level++; break;
        case 'F':
          if (!d->threadlock && d->pbase) {
            // blocks of the frame being released must still carry their pattern
            while (nlive > 0 && live[nlive-1].stack && live[nlive-1].level == level) {
              { nlive--; damaged += !intact(&live[nlive]); }
            }
            level--;
          }
          mj_freeStack(d); break;
        case 'A': p = mj_stackAllocByte(d, (size_t)x, (size_t)y); kind = p ? 2 : 1; break;
        case 'R': p = mj_arenaAllocByte(d, (size_t)x, (size_t)y); kind = p ? 2 : 1; break;
        case 'N': p = mj_stackAllocNum(d, (size_t)x); kind = p ? 2 : 1; x *= sizeof(mjtNum); break;
        case 'I': p = mj_stackAllocInt(d, (size_t)x); kind = p ? 2 : 1; x *= sizeof(int); break;
        case 'L': d->threadlock = (mjtBool)(x != 0); break;
        default: return 2;
      }
    } else {
      kind = 3; p = NULL;
      // mju_error under the thread lock happens after pstack was bumped: nothing may run afterwards
      if (d->threadlock) dead = 1;
    }
    jb_armed = 0;
    if (kind == 2 && inside(d, p, (size_t)x) && nlive < MAXLIVE) {
      // user code uses its block: fill it completely
      blk b = { (unsigned char*)p, (size_t)x, (unsigned char)(1 + (i % 250)), level, op[0] != 'R' };
      memset(b.p, b.tag, b.n);
      // arena blocks are kept below stack blocks in the list so that the pop above sees stack blocks
      if (b.stack) live[nlive++] = b;
      else { memmove(live + 1, live, sizeof(blk) * nlive); live[0] = b; nlive++; }
    }
    print_state(kind, p, d);
  }
  for (int k = 0; k < nlive; k++) damaged += !intact(&live[k]);
  fprintf(vout, "E %ld %ld\n", guard_damage(d), damaged);
  free(raw); free(d);
  return 0;
}

// ---------------------------------------------------------------- concurrent thread-lock scenario
typedef struct { int tid; int nper; unsigned long long seed, maxsize; mjData* d;
                 size_t* size; size_t* al; size_t* old; size_t* alloc; int* kind; uintptr_t* ptr; } targ;
static pthread_barrier_t bar;

static void* worker(void* a_) {
  targ* a = (targ*)a_;
  unsigned long long z = a->seed * 6364136223846793005ULL + 1442695040888963407ULL * (a->tid + 1);
  pthread_barrier_wait(&bar);
  for (int i = 0; i < a->nper; i++) {
    z = z * 6364136223846793005ULL + 1442695040888963407ULL;
    size_t size = 1 + (size_t)((z >> 33) % a->maxsize);
    size_t al = (size_t)1 << ((z >> 20) % 7);
    a->size[i] = size; a->al[i] = al;
    faa_count = 0;
    void* volatile p = NULL; volatile int kind;
    jb_armed = 1;
    if (setjmp(jb) == 0) { p = mj_stackAllocByte(a->d, size, al); kind = p ? 2 : 1; }
    else { kind = 3; p = NULL; }
    jb_armed = 0;
    // exactly one fetch-add per call; none only when the request is rejected before reserving (old = SIZE_MAX then)
    a->old[i] = faa_count ? faa_old : (size_t)-1; a->alloc[i] = faa_count ? faa_val : 0;
    a->kind[i] = (faa_count == 1 || (faa_count == 0 && kind == 3)) ? kind : 9;
    a->ptr[i] = (uintptr_t)p;
    if (kind == 2 && inside(a->d, p, size)) memset(p, (unsigned char)(1 + a->tid), size);
  }
  return NULL;
}

static int concurrent(int nth, int nper, unsigned long long narena, unsigned long long off,
                      unsigned long long parena0, unsigned long long seed, unsigned long long maxsize) {
  mjData* d = make_data(narena, off, parena0, 0);
  d->threadlock = 1;
  fprintf(vout, "B %" PRIuPTR " %zu %zu %zu %zu\n", (uintptr_t)d->arena, sizeof(mjStackFrame),
         (size_t)_Alignof(mjStackFrame), offsetof(mjStackFrame, pbase), offsetof(mjStackFrame, pstack));
  pthread_barrier_init(&bar, NULL, nth);
  pthread_t* th = calloc(nth, sizeof(pthread_t));
  targ* ta = calloc(nth, sizeof(targ));
  for (int t = 0; t < nth; t++) {
    ta[t] = (targ){ t, nper, seed, maxsize, d, calloc(nper, sizeof(size_t)), calloc(nper, sizeof(size_t)),
                    calloc(nper, sizeof(size_t)), calloc(nper, sizeof(size_t)), calloc(nper, sizeof(int)),
                    calloc(nper, sizeof(uintptr_t)) };
    pthread_create(&th[t], NULL, worker, &ta[t]);
  }
  for (int t = 0; t < nth; t++) pthread_join(th[t], NULL);
  long damaged = 0;
  for (int t = 0; t < nth; t++) for (int i = 0; i < nper; i++) {
    fprintf(vout, "t %d %zu %zu %zu %zu %d %" PRIuPTR "\n", t, ta[t].size[i], ta[t].al[i], ta[t].old[i],
           ta[t].alloc[i], ta[t].kind[i], ta[t].ptr[i]);
    if (ta[t].kind[i] == 2 && inside(d, (void*)ta[t].ptr[i], ta[t].size[i])) {
      blk b = { (unsigned char*)ta[t].ptr[i], ta[t].size[i], (unsigned char)(1 + t), 0, 1 };
      damaged += !intact(&b);
    }
  }
  fprintf(vout, "E %ld %ld %zu\n", guard_damage(d), damaged, d->pstack);
  free(raw); free(d);
  return 0;
}

// every scenario runs in a child process: a crash of the allocator on a corrupted frame must not hide
// the other scenarios.  The child's output is fully buffered and written at its end; the parent prints
// "X <signal>" instead when the child died.
static int in_child(int (*fn)(void*), void* arg) {
  fflush(stdout);
  pid_t pid = fork();
  if (pid < 0) return 2;
  if (pid == 0) {
    char* buf = NULL; size_t len = 0;
    vout = open_memstream(&buf, &len);
    int rc = fn(arg);
    fclose(vout);
    size_t done = 0;
    while (done < len) { ssize_t w = write(1, buf + done, len - done); if (w <= 0) _exit(4); done += (size_t)w; }
    _exit(rc);
  }
  int status = 0;
  waitpid(pid, &status, 0);
  if (WIFSIGNALED(status)) { printf("X %d\n", WTERMSIG(status)); return 0; }
  return WEXITSTATUS(status);
}

typedef struct { unsigned long long narena, off, parena0, pstack0; int nops; opline* ol; } seqarg;
static int run_seq(void* a_) { seqarg* a = a_; return sequential(a->narena, a->off, a->parena0, a->pstack0, a->nops, a->ol); }
typedef struct { int nth, nper; unsigned long long narena, off, parena0, seed, maxsize; } conarg;
static int run_con(void* a_) { conarg* a = a_; return concurrent(a->nth, a->nper, a->narena, a->off, a->parena0, a->seed, a->maxsize); }

// sequential scenarios are run in batches of up to BATCH per child process (forking is slow on a loaded
// machine); a batch whose process died is re-run one scenario per process
#define BATCH 64
typedef struct { seqarg* v; int n; } batcharg;
static int run_batch(void* a_) {
  batcharg* b = a_;
  for (int i = 0; i < b->n; i++) { int rc = run_seq(&b->v[i]); if (rc) return rc; }
  return 0;
}
static int in_child_quiet(int (*fn)(void*), void* arg, int* died) {
  // like in_child, but prints nothing when the child died
  fflush(stdout);
  pid_t pid = fork();
  if (pid < 0) return 2;
  if (pid == 0) {
    char* buf = NULL; size_t len = 0;
    vout = open_memstream(&buf, &len);
    int rc = fn(arg);
    fclose(vout);
    size_t done = 0;
    while (done < len) { ssize_t w = write(1, buf + done, len - done); if (w <= 0) _exit(4); done += (size_t)w; }
    _exit(rc);
  }
  int status = 0;
  waitpid(pid, &status, 0);
  *died = WIFSIGNALED(status);
  return *died ? 0 : WEXITSTATUS(status);
}
static int flush_batch(seqarg* v, int* n) {
  int rc = 0;
  if (*n > 0) {
    batcharg b = { v, *n }; int died = 0;
    rc = in_child_quiet(run_batch, &b, &died);
    if (died) { for (int i = 0; i < *n && !rc; i++) rc = in_child(run_seq, &v[i]); }
    for (int i = 0; i < *n; i++) free(v[i].ol);
    *n = 0;
  }
  return rc;
}

int main(void) {
  mju_user_error = on_error;
  char c[8];
  static seqarg pend[BATCH]; int npend = 0;
  while (scanf("%7s", c) == 1) {
    int rc = 0;
    if (c[0] == 'S') {
      seqarg a;
      if (scanf("%llu %llu %llu %llu %d", &a.narena, &a.off, &a.parena0, &a.pstack0, &a.nops) != 5) return 2;
      a.ol = calloc(a.nops + 1, sizeof(opline));
      for (int i = 0; i < a.nops; i++) {
        char op[8];
        if (scanf("%7s", op) != 1) return 2;
        a.ol[i].op = op[0];
        if (op[0] == 'A' || op[0] == 'R') { if (scanf("%llu %llu", &a.ol[i].x, &a.ol[i].y) != 2) return 2; }
        if (op[0] == 'N' || op[0] == 'I' || op[0] == 'L') { if (scanf("%llu", &a.ol[i].x) != 1) return 2; }
      }
      pend[npend++] = a;
      if (npend == BATCH) rc = flush_batch(pend, &npend);
    } else if (c[0] == 'T') {
      rc = flush_batch(pend, &npend);
      if (rc) return rc;
      conarg a;
      if (scanf("%d %d %llu %llu %llu %llu %llu", &a.nth, &a.nper, &a.narena, &a.off, &a.parena0, &a.seed, &a.maxsize) != 7) return 2;
      rc = in_child(run_con, &a);
    } else return 2;
    if (rc) return rc;
  }
  return flush_batch(pend, &npend);
}
