// C18 driver: sleep state machine of the working tree's engine_sleep.c.
//  raw commands (stdin, one per line; output one line per command):
//   M                                   -> mjMINAWAKE mjS_STATIC mjS_ASLEEP mjS_AWAKE
//   C ntree i v0..                      -> mj_sleepCycle result
//   W ntree i wakeval v0..              -> err nwoke v0'..          (mj_wakeIsland; err from mju_error text)
//   S n nefc nisl ta[n] code[n] {len t..}*nisl ntail t..   -> err nslept ta'[n] qz   (mj_sleep on n free boxes)
//   K n enabled ta[n] flags[n] code[n]  -> err nwoke ta'[n]          (mj_wake on n free boxes)
//   U seed feat nbody flg taseed        -> arrays in / out of mj_updateSleepInit on an mjgen model
//   P seed nbox steps variant           -> trace of a pipeline scenario (see run_pipe)
//  code: 0 can sleep, 1 large qvel, 2 xfrc_applied, 3 qfrc_applied, 4 policy NEVER, 5 policy AUTO_NEVER,
//        6 nonzero qvel below the tolerance
#include "mjgen.h"
#include "engine/engine_sleep.h"

static int err_code(void) {
  const char* e = mjg_last_error;
  if (strstr(e, "invalid tree")) return 1;
  if (strstr(e, "invalid sleep state index")) return 2;
  if (strstr(e, "is not in a cycle")) return 3;
  if (strstr(e, "already asleep")) return 4;
  if (strstr(e, "not ready to sleep")) return 5;
  if (strstr(e, "found sleeping tree")) return 6;
  return 99;
}

// ------------------------------------------------------------------ box models
#define MAXBOX 16
static mjModel* boxm[MAXBOX + 1];
static mjData* boxd[MAXBOX + 1];
static mjModel* box_model(int n) {
  if (boxm[n]) return boxm[n];
  mjSpec* s = mj_makeSpec();
  s->option.enableflags |= mjENBL_SLEEP;
  mjsBody* w = mjs_findBody(s, "world");
  mjsGeom* g = mjs_addGeom(w, NULL); g->type = mjGEOM_PLANE; g->size[0] = g->size[1] = 50; g->size[2] = 0.1;
  for (int i = 0; i < n; i++) {
    mjsBody* b = mjs_addBody(w, NULL); b->pos[0] = 1.0 * i; b->pos[2] = 0.1;
    mjs_addFreeJoint(b);
    mjsGeom* bg = mjs_addGeom(b, NULL); bg->type = mjGEOM_BOX; bg->size[0] = bg->size[1] = bg->size[2] = 0.1;
  }
  mjModel* m = mj_compile(s, NULL);
  if (!m) { fprintf(stderr, "box model %d: %s\n", n, mjs_getError(s)); exit(4); }
  mj_deleteSpec(s);
  boxm[n] = m; boxd[n] = mj_makeData(m);
  return m;
}

static void set_codes(mjModel* m, mjData* d, const int* code) {
  mju_zero(d->qvel, m->nv); mju_zero(d->qfrc_applied, m->nv); mju_zero(d->xfrc_applied, 6 * m->nbody);
  for (int t = 0; t < m->ntree; t++) {
    int dadr = m->tree_dofadr[t], badr = m->tree_bodyadr[t];
    m->tree_sleep_policy[t] = mjSLEEP_AUTO_ALLOWED;
    switch (code[t]) {
      case 1: d->qvel[dadr + 2] = 0.7; break;
      case 2: d->xfrc_applied[6 * badr + 4] = -0.25; break;
      case 3: d->qfrc_applied[dadr + 5] = 1e-9; break;
      case 4: m->tree_sleep_policy[t] = mjSLEEP_NEVER; break;
      case 5: m->tree_sleep_policy[t] = mjSLEEP_AUTO_NEVER; break;
      case 6: d->qvel[dadr + 1] = 0.01 * m->opt.sleep_tolerance / (m->dof_length[dadr + 1] > 0 ? m->dof_length[dadr + 1] : 1); break;
      default: break;
    }
  }
}

static int rd(int* v) { return scanf("%d", v) == 1; }

static void cmd_S(void) {
  int n, nefc, nisl; rd(&n); rd(&nefc); rd(&nisl);
  int ta[MAXBOX], code[MAXBOX];
  for (int i = 0; i < n; i++) rd(&ta[i]);
  for (int i = 0; i < n; i++) rd(&code[i]);
  int island_ntree[64], island_adr[64], map[256]; int pos = 0;
  for (int k = 0; k < nisl; k++) { int len; rd(&len); island_ntree[k] = len; island_adr[k] = pos; for (int j = 0; j < len; j++) rd(&map[pos++]); }
  int ntail; rd(&ntail); for (int j = 0; j < ntail; j++) rd(&map[pos++]);
  for (int j = pos; j < 256; j++) map[j] = 0;
  mjModel* m = box_model(n); mjData* d = boxd[n];
  set_codes(m, d, code);
  for (int i = 0; i < m->nv; i++) d->qacc[i] = 3.0;
  for (int i = 0; i < m->nv; i++) if (d->qvel[i] == 0) d->qvel[i] = 0;  // keep
  memcpy(d->tree_asleep, ta, sizeof(int) * n);
  int* s1 = d->island_ntree; int* s2 = d->island_itreeadr; int* s3 = d->map_itree2tree;
  d->island_ntree = island_ntree; d->island_itreeadr = island_adr; d->map_itree2tree = map;
  d->nisland = nisl; d->nefc = nefc;
  int err = 0, ns = 0;
  if (MJG_TRY) { ns = mj_sleep(m, d); MJG_END; } else { err = err_code(); }
  // slept trees must have zero qvel and qacc
  int qz = 1;
  for (int t = 0; t < n; t++) if (ta[t] < 0 && d->tree_asleep[t] >= 0)
    for (int k = 0; k < m->tree_dofnum[t]; k++) if (d->qvel[m->tree_dofadr[t] + k] != 0 || d->qacc[m->tree_dofadr[t] + k] != 0) qz = 0;
  printf("%d %d", err, ns);
  for (int i = 0; i < n; i++) printf(" %d", d->tree_asleep[i]);
  printf(" %d\n", qz);
  d->island_ntree = s1; d->island_itreeadr = s2; d->map_itree2tree = s3; d->nisland = 0; d->nefc = 0;
}

static void cmd_K(void) {
  int n, enabled; rd(&n); rd(&enabled);
  int ta[MAXBOX], flags[MAXBOX], code[MAXBOX];
  for (int i = 0; i < n; i++) rd(&ta[i]);
  for (int i = 0; i < n; i++) rd(&flags[i]);
  for (int i = 0; i < n; i++) rd(&code[i]);
  mjModel* m = box_model(n); mjData* d = boxd[n];
  set_codes(m, d, code);
  memcpy(d->tree_asleep, ta, sizeof(int) * n);
  memcpy(d->tree_awake, flags, sizeof(int) * n);
  int na = 0; for (int i = 0; i < n; i++) na += ta[i] < 0;
  d->ntree_awake = na;
  if (!enabled) m->opt.enableflags &= ~mjENBL_SLEEP;
  int err = 0, nw = 0;
  if (MJG_TRY) { nw = mj_wake(m, d); MJG_END; } else { err = err_code(); }
  m->opt.enableflags |= mjENBL_SLEEP;
  printf("%d %d", err, nw);
  for (int i = 0; i < n; i++) printf(" %d", d->tree_asleep[i]);
  printf("\n");
}

static void pr(const char* tag, const int* a, int n) { printf(" %s", tag); for (int i = 0; i < n; i++) printf(" %d", a[i]); }

// bodies on which the index spaces body id / root id / weld id / parent id differ: mocap bodies with
// chains of jointless descendants, jointless chains under the world, jointless children inside moving trees
static void add_jointless(mjsBody* parent, mjg_rng* r, int depth, const char* tag, int* cnt) {
  for (int k = 0; k < depth; k++) {
    mjsBody* ch = mjs_addBody(parent, NULL); char nm[40]; snprintf(nm, sizeof nm, "%s_%d", tag, (*cnt)++); mjs_setName(ch->element, nm);
    for (int j = 0; j < 3; j++) ch->pos[j] = mjg_range(r, -0.2, 0.2);
    if (mjg_chance(r, 0.5)) mjg_quat(r, ch->quat);
    mjsGeom* g = mjs_addGeom(ch, NULL); g->type = mjGEOM_BOX; g->size[0] = g->size[1] = g->size[2] = 0.03; g->contype = 0; g->conaffinity = 0;
    if (mjg_chance(r, 0.3)) { int c2 = *cnt; add_jointless(ch, r, 1, tag, &c2); *cnt = c2; }   // side branch
    parent = ch;
  }
}
static void add_extras(mjSpec* s, mjg_rng* r, int nbody) {
  mjsBody* world = mjs_findBody(s, "world"); int cnt = 0; char nm[40];
  int nmoc = mjg_int(r, 3);
  for (int k = 0; k < nmoc; k++) {
    mjsBody* mb = mjs_addBody(world, NULL); snprintf(nm, sizeof nm, "xmocap%d", k); mjs_setName(mb->element, nm); mb->mocap = 1;
    for (int j = 0; j < 3; j++) mb->pos[j] = mjg_range(r, -1, 1);
    mjsGeom* g = mjs_addGeom(mb, NULL); g->type = mjGEOM_SPHERE; g->size[0] = 0.02; g->contype = 0; g->conaffinity = 0;
    add_jointless(mb, r, mjg_int(r, 4), "xmc", &cnt);
  }
  int nst = mjg_int(r, 3);
  for (int k = 0; k < nst; k++) add_jointless(world, r, 1 + mjg_int(r, 3), "xst", &cnt);
  for (int b = 0; b < nbody; b++) if (mjg_chance(r, 0.3)) {
    snprintf(nm, sizeof nm, "b%d", b); mjsBody* pb = mjs_findBody(s, nm);
    if (pb) add_jointless(pb, r, 1 + mjg_int(r, 2), "xdy", &cnt);
  }
}

static void cmd_U(void) {
  int seed, feat, nbody, flg, taseed; rd(&seed); rd(&feat); rd(&nbody); rd(&flg); rd(&taseed);
  mjSpec* sp = mjg_spec(seed, (unsigned)feat, nbody);
  mjg_rng RX = { (uint64_t)taseed * 104729u + 3 };
  if (taseed % 4 != 0) add_extras(sp, &RX, nbody);
  mjModel* m = mj_compile(sp, NULL);
  if (!m) { fprintf(stderr, "U compile: %s\n", mjs_getError(sp)); mj_deleteSpec(sp); printf("X\n"); return; }
  mj_deleteSpec(sp);
  mjData* d = mj_makeData(m);
  mjg_rng R = { (uint64_t)taseed * 7919u + 17 };
  int mode = mjg_int(&R, 3);
  for (int i = 0; i < m->ntree; i++) d->tree_asleep[i] = mode == 0 ? -1 - mjg_int(&R, 11) : (mjg_chance(&R, mode == 1 ? 0.5 : 0.85) ? mjg_int(&R, m->ntree) : -1 - mjg_int(&R, 11));
  for (int i = 0; i < m->nbody; i++) d->body_awake[i] = mjg_int(&R, 3) - 1;
  printf("U %d %d %d", m->ntree, m->nbody, m->nv);
  pr("|", d->tree_asleep, m->ntree); pr("|", m->body_treeid, m->nbody); pr("|", m->body_parentid, m->nbody);
  pr("|", m->body_rootid, m->nbody); pr("|", m->body_mocapid, m->nbody); pr("|", m->dof_bodyid, m->nv);
  pr("|", d->body_awake, m->nbody);
  mj_updateSleepInit(m, d, flg);
  pr("|", d->tree_awake, m->ntree);
  printf(" | %d %d %d %d", d->ntree_awake, d->nbody_awake, d->nparent_awake, d->nv_awake);
  pr("|", d->body_awake, m->nbody);
  pr("|", d->body_awake_ind, d->nbody_awake >= 0 && d->nbody_awake <= m->nbody ? d->nbody_awake : 0);
  pr("|", d->parent_awake_ind, d->nparent_awake >= 0 && d->nparent_awake <= m->nbody ? d->nparent_awake : 0);
  pr("|", d->dof_awake_ind, d->nv_awake >= 0 && d->nv_awake <= m->nv ? d->nv_awake : 0);
  printf("\n");
  mj_deleteData(d); mj_deleteModel(m);
}

// ------------------------------------------------------------------ pipeline scenarios
// independent evaluation of the can-sleep predicate (policy, applied forces, weighted velocity)
static int bytes_zero(const void* p, size_t n) { const unsigned char* c = (const unsigned char*)p; for (size_t i = 0; i < n; i++) if (c[i]) return 0; return 1; }
static int my_can(const mjModel* m, const mjData* d, int t, double tol) {
  int pol = m->tree_sleep_policy[t];
  if (pol == mjSLEEP_NEVER || pol == mjSLEEP_AUTO_NEVER) return 0;
  if (!bytes_zero(d->xfrc_applied + 6 * m->tree_bodyadr[t], sizeof(mjtNum) * 6 * m->tree_bodynum[t])) return 0;
  int adr = m->tree_dofadr[t], num = m->tree_dofnum[t];
  if (!bytes_zero(d->qfrc_applied + adr, sizeof(mjtNum) * num)) return 0;
  if (tol) { double mx = 0; for (int i = 0; i < num; i++) { double v = m->dof_length[adr + i] * fabs(d->qvel[adr + i]); if (v > mx) mx = v; if (mx >= tol) return 0; } return 1; }
  return bytes_zero(d->qvel + adr, sizeof(mjtNum) * num);
}

// bitwise hash of the qpos entries of tree t
static uint64_t tree_qpos_hash(const mjModel* m, const mjData* d, int t) {
  uint64_t h = 1469598103934665603ULL;
  for (int j = 0; j < m->njnt; j++) if (m->body_treeid[m->jnt_bodyid[j]] == t) {
    int a = m->jnt_qposadr[j], n = m->jnt_type[j] == mjJNT_FREE ? 7 : m->jnt_type[j] == mjJNT_BALL ? 4 : 1;
    for (int k = 0; k < n; k++) { uint64_t b; memcpy(&b, d->qpos + a + k, 8); h = (h ^ b) * 1099511628211ULL; h ^= h >> 29; }
  }
  return h;
}
static int tree_qvel_zero(const mjModel* m, const mjData* d, int t) {
  return bytes_zero(d->qvel + m->tree_dofadr[t], sizeof(mjtNum) * m->tree_dofnum[t]);
}

// sphere (centre c, radius r) against box (pos p, rotation R row-major, half sizes s): penetration depth (>0 touching)
static double sphere_box_pen(const double* c, double r, const double* p, const double* R, const double* s) {
  double l[3], q[3], d2 = 0;
  for (int i = 0; i < 3; i++) { l[i] = 0; for (int k = 0; k < 3; k++) l[i] += R[3 * k + i] * (c[k] - p[k]); }
  int inside = 1;
  for (int i = 0; i < 3; i++) { q[i] = l[i] < -s[i] ? -s[i] : l[i] > s[i] ? s[i] : l[i]; if (q[i] != l[i]) inside = 0; d2 += (l[i] - q[i]) * (l[i] - q[i]); }
  if (inside) return r + 1;
  return r - sqrt(d2);
}

static void run_pipe(void) {
  int seed, nbox, steps, variant; rd(&seed); rd(&nbox); rd(&steps); rd(&variant);
  mjg_rng R = { (uint64_t)seed * 0x9E3779B97F4A7C15ULL + 99 }; mjg_rng* r = &R;
  mjSpec* s = mj_makeSpec();
  s->option.enableflags |= mjENBL_SLEEP;
  if (variant & 1) s->option.integrator = mjINT_IMPLICITFAST;
  if (variant & 2) s->option.timestep = 0.004;
  if (variant & 8) s->option.cone = mjCONE_ELLIPTIC;
  mjsBody* w = mjs_findBody(s, "world");
  mjsGeom* g = mjs_addGeom(w, NULL); g->type = mjGEOM_PLANE; g->size[0] = g->size[1] = 50; g->size[2] = 0.1;
  int all_init = (variant & 4) != 0;
  // piles
  int b = 0, pile = 0; double pilex[MAXBOX], piley[MAXBOX], pileh[MAXBOX]; char nm[32];
  int pile_of[MAXBOX];
  // variant bit 32: pile 0 stands on a pad that is a jointless child body of a mocap body ("hand"), which
  // the history moves; variant bit 64: every tree has sleep policy "never" (twin comparison on every step)
  int with_mocap = (variant & 32) != 0, all_never = (variant & 64) != 0;
  double padtop = 0;
  if (with_mocap) {
    mjsBody* hand = mjs_addBody(w, NULL); mjs_setName(hand->element, "hand"); hand->mocap = 1;
    hand->pos[0] = -0.3; hand->pos[2] = 0.25;
    mjsGeom* mg = mjs_addGeom(hand, NULL); mg->type = mjGEOM_SPHERE; mg->size[0] = 0.01; mg->contype = 0; mg->conaffinity = 0;
    mjsBody* pad = mjs_addBody(hand, NULL); mjs_setName(pad->element, "pad"); pad->pos[0] = 0.3;
    mjsGeom* pg = mjs_addGeom(pad, NULL); pg->type = mjGEOM_BOX; pg->size[0] = pg->size[1] = 0.25; pg->size[2] = 0.02;
    mjs_setName(pg->element, "gpad");
    padtop = 0.27;
  }
  while (b < nbox) {
    int hgt = 1 + mjg_int(r, 3); double z = pile == 0 ? padtop : 0, hs = mjg_range(r, 0.08, 0.11);
    pilex[pile] = 0.7 * (pile % 4); piley[pile] = 0.7 * (pile / 4);
    for (int k = 0; k < hgt && b < nbox; k++, b++) {
      mjsBody* bd = mjs_addBody(w, NULL); snprintf(nm, sizeof nm, "box%d", b); mjs_setName(bd->element, nm);
      double h = hs * (1 - 0.1 * k);
      bd->pos[0] = pilex[pile]; bd->pos[1] = piley[pile]; bd->pos[2] = z + h + 0.0005; z += 2 * h + 0.0005;
      mjs_addFreeJoint(bd);
      mjsGeom* bg = mjs_addGeom(bd, NULL); bg->type = mjGEOM_BOX; bg->size[0] = bg->size[1] = h; bg->size[2] = h;
      snprintf(nm, sizeof nm, "gbox%d", b); mjs_setName(bg->element, nm);
      int p = mjg_int(r, 10);
      bd->sleep = all_init ? mjSLEEP_INIT : (p == 0 || all_never) ? mjSLEEP_NEVER : p == 1 ? mjSLEEP_ALLOWED : mjSLEEP_AUTO;
      pile_of[b] = pile;
    }
    pileh[pile] = z; pile++;
  }
  // bullet: a free sphere parked away from the piles
  double brad = 0.05;
  { mjsBody* bd = mjs_addBody(w, NULL); mjs_setName(bd->element, "bullet"); bd->pos[0] = -2; bd->pos[1] = -2; bd->pos[2] = brad + 0.0005;
    mjs_addFreeJoint(bd); mjsGeom* bg = mjs_addGeom(bd, NULL); bg->type = mjGEOM_SPHERE; bg->size[0] = brad; bg->density = 3000;
    mjs_setName(bg->element, "gbullet");
    int p = mjg_int(r, 3); bd->sleep = all_init ? mjSLEEP_INIT : (p == 0 || all_never) ? mjSLEEP_NEVER : mjSLEEP_AUTO; }
  // connect equalities between boxes of different piles
  int neq = (nbox >= 2) ? mjg_int(r, 3) : 0;
  for (int k = 0; k < neq; k++) {
    int a = mjg_int(r, nbox), c = (a + 1 + mjg_int(r, nbox - 1)) % nbox;
    if (pile_of[a] == pile_of[c]) continue;
    mjsEquality* e = mjs_addEquality(s, NULL); e->type = mjEQ_CONNECT; e->objtype = mjOBJ_BODY;
    snprintf(nm, sizeof nm, "box%d", a); mjs_setString(e->name1, nm);
    snprintf(nm, sizeof nm, "box%d", c); mjs_setString(e->name2, nm);
    e->active = all_init ? 0 : mjg_chance(r, 0.5);
  }
  // explicit contact pairs with their own parameters (variant bit 16 turns them off): sphere against
  // about two thirds of the boxes, and some box-box pairs (neighbours in a pile or boxes of different piles)
  int npair = 0; char used[MAXBOX][MAXBOX]; memset(used, 0, sizeof used);
  if (!(variant & 16)) {
    for (int k = 0; k < nbox; k++) if (mjg_int(r, 3) != 0) {
      mjsPair* pr2 = mjs_addPair(s, NULL); snprintf(nm, sizeof nm, "gbox%d", k);
      int flip = mjg_chance(r, 0.5);
      mjs_setString(pr2->geomname1, flip ? "gbullet" : nm); mjs_setString(pr2->geomname2, flip ? nm : "gbullet");
      pr2->condim = mjg_chance(r, 0.5) ? 3 : 4; pr2->friction[0] = pr2->friction[1] = mjg_range(r, 0.4, 1.2); npair++;
    }
    for (int k = 0; k + 1 < nbox; k++) if (mjg_chance(r, 0.3)) {
      int c = mjg_chance(r, 0.6) ? k + 1 : mjg_int(r, nbox); if (c == k || used[k][c] || used[c][k]) continue;
      used[k][c] = 1;
      mjsPair* pr2 = mjs_addPair(s, NULL);
      snprintf(nm, sizeof nm, "gbox%d", k); mjs_setString(pr2->geomname1, nm);
      snprintf(nm, sizeof nm, "gbox%d", c); mjs_setString(pr2->geomname2, nm);
      pr2->condim = 3; pr2->friction[0] = pr2->friction[1] = mjg_range(r, 0.6, 1.2); npair++;
    }
  }
  mjModel* m = mj_compile(s, NULL);
  if (!m) { printf("X compile: %s\n", mjs_getError(s)); return; }
  mjModel* m2 = mj_copyModel(NULL, m); m2->opt.enableflags &= ~mjENBL_SLEEP;
  mjData* d = NULL; mjData* d2 = NULL;
  if (MJG_TRY) { d = mj_makeData(m); d2 = mj_makeData(m2); MJG_END; } else { printf("E makeData %s\n", mjg_last_error); return; }
  int nt = m->ntree, bullet_body = m->nbody - 1, bullet_tree = m->body_treeid[bullet_body];
  printf("H ntree %d nbody %d neq %d minawake %d tol %a npair %d policies", nt, m->nbody, m->neq, mjMINAWAKE, m->opt.sleep_tolerance, m->npair);
  for (int t = 0; t < nt; t++) printf(" %d", m->tree_sleep_policy[t]);
  pr("| ta0", d->tree_asleep, nt);
  printf("\n");
  int synced = 1;       // d2 is a faithful sleep-disabled twin of d
  for (int t = 0; t < nt; t++) if (d->tree_asleep[t] >= 0) synced = 0;
  int frc_left = 0, frc_kind = 0, frc_tree = 0;
  uint64_t h0[MAXBOX + 2]; int ta_start[MAXBOX + 2], taF[MAXBOX + 2], can[MAXBOX + 2];
  for (int k = 0; k < steps; k++) {
    // ---- pokes (applied to both twins)
    int poke = 0, ptree = -1;
    double u = mjg_u(r);
    if (frc_left > 0) { if (--frc_left == 0) { mju_zero(d->xfrc_applied, 6 * m->nbody); mju_zero(d->qfrc_applied, m->nv); mju_zero(d2->xfrc_applied, 6 * m->nbody); mju_zero(d2->qfrc_applied, m->nv); poke = 9; } }
    else if (u < 0.012) {
      poke = 1 + mjg_int(r, m->nmocap ? 11 : 8); if (poke >= 9) poke = 10; ptree = mjg_int(r, nt);
      int body = m->tree_bodyadr[ptree], qa = m->jnt_qposadr[m->body_jntadr[body]], da = m->tree_dofadr[ptree];
      switch (poke) {
        case 1: { double dx = mjg_chance(r, 0.5) ? 0.03 : 1e-9; int ax = mjg_int(r, 3); if (ax == 2) dx = fabs(dx); d->qpos[qa + ax] += dx; d2->qpos[qa + ax] += dx; break; }
        case 2: { double v = mjg_chance(r, 0.5) ? 0.5 : 1e-12; int ax = mjg_int(r, 6); d->qvel[da + ax] = v; d2->qvel[da + ax] = v; break; }
        case 3: { double f = mjg_chance(r, 0.5) ? 0.3 : 1e-300; int ax = mjg_int(r, 6); d->xfrc_applied[6 * body + ax] = f; d2->xfrc_applied[6 * body + ax] = f; frc_left = 1 + mjg_int(r, 30); break; }
        case 4: { double f = mjg_chance(r, 0.5) ? 0.3 : 1e-300; int ax = mjg_int(r, 6); d->qfrc_applied[da + ax] = f; d2->qfrc_applied[da + ax] = f; frc_left = 1 + mjg_int(r, 30); break; }
        case 5: case 6: {   // bullet: drop on a pile (5) or shoot sideways at a pile (6)
          int p = mjg_int(r, pile); int ba = m->jnt_qposadr[m->body_jntadr[bullet_body]], bd_ = m->tree_dofadr[bullet_tree];
          double q[7] = { pilex[p], piley[p], pileh[p] + brad + 0.05, 1, 0, 0, 0 }, v[6] = { 0, 0, -1.0, 0, 0, 0 };
          if (poke == 6) { q[0] -= 0.35; q[2] = brad + 0.02 + 0.5 * pileh[p]; v[0] = 2.0; v[2] = 0; }
          for (int i = 0; i < 7; i++) { d->qpos[ba + i] = q[i]; d2->qpos[ba + i] = q[i]; }
          for (int i = 0; i < 6; i++) { d->qvel[bd_ + i] = v[i]; d2->qvel[bd_ + i] = v[i]; }
          ptree = bullet_tree; break; }
        case 7: if (m->neq) { int e = mjg_int(r, m->neq); d->eq_active[e] ^= 1; d2->eq_active[e] = d->eq_active[e]; ptree = e; } else poke = 0; break;
        case 10: { double dx[3] = { mjg_range(r, -0.02, 0.02), mjg_range(r, -0.02, 0.02), mjg_range(r, -0.004, 0.004) };
          for (int i = 0; i < 3; i++) { d->mocap_pos[i] += dx[i]; d2->mocap_pos[i] += dx[i]; } ptree = -1; break; }
        case 8: if (mjg_chance(r, 0.15)) { mj_resetData(m, d); mj_resetData(m2, d2); synced = 1; for (int t = 0; t < nt; t++) if (d->tree_asleep[t] >= 0) synced = 0; } else poke = 0; break;
      }
    }
    for (int t = 0; t < nt; t++) { h0[t] = tree_qpos_hash(m, d, t); ta_start[t] = d->tree_asleep[t]; }
    // ---- step of the sleep-enabled data, split at the end of mj_forward
    int failed = 0;
    if (MJG_TRY) { mj_checkPos(m, d); mj_checkVel(m, d); mj_forward(m, d); MJG_END; } else failed = 1;
    if (failed) { printf("E step %d forward: %s\n", k, mjg_last_error); break; }
    for (int t = 0; t < nt; t++) { taF[t] = d->tree_asleep[t]; can[t] = my_can(m, d, t, m->opt.sleep_tolerance); }
    printf("T %d %d %d", k, poke, ptree);
    pr("| s", ta_start, nt); pr("| f", taF, nt); pr("| can", can, nt);
    printf(" | isl %d %d", d->nefc, d->nisland);
    if (d->nisland > 0) {
      pr("ti", d->tree_island, nt); pr("map", d->map_itree2tree, nt); pr("n", d->island_ntree, d->nisland); pr("adr", d->island_itreeadr, d->nisland);
    }
    // contacts (tree pairs), active equalities (tree pairs), bullet touches (independent geometry)
    printf(" | con");
    for (int c = 0; c < d->ncon; c++) {
      const mjContact* con = d->contact + c;
      if (con->geom[0] < 0 || con->geom[1] < 0) continue;
      int cb[2]; for (int q = 0; q < 2; q++) { int bb = m->geom_bodyid[con->geom[q]]; cb[q] = m->body_treeid[bb]; if (cb[q] < 0 && m->body_mocapid[m->body_rootid[bb]] >= 0) cb[q] = -2; }
      printf(" %d:%d", cb[0], cb[1]);
    }
    printf(" | eq");
    for (int e = 0; e < m->neq; e++) if (d->eq_active[e] && m->eq_type[e] == mjEQ_CONNECT && m->eq_objtype[e] == mjOBJ_BODY)
      printf(" %d:%d", m->body_treeid[m->eq_obj1id[e]], m->body_treeid[m->eq_obj2id[e]]);
    printf(" | touch");
    { int bg = m->body_geomadr[bullet_body];
      for (int gi = 0; gi < m->ngeom; gi++) if (m->geom_type[gi] == mjGEOM_BOX) {
        double pen = sphere_box_pen(d->geom_xpos + 3 * bg, m->geom_size[3 * bg], d->geom_xpos + 3 * gi, d->geom_xmat + 9 * gi, m->geom_size + 3 * gi);
        if (pen > 1e-6) printf(" %d", m->body_treeid[m->geom_bodyid[gi]]);
      } }
    if (MJG_TRY) { mj_checkAcc(m, d); if (m->opt.integrator == mjINT_EULER) mj_Euler(m, d); else mj_implicit(m, d); MJG_END; } else failed = 1;
    if (failed) { printf("\nE step %d integrate: %s\n", k, mjg_last_error); break; }
    pr("| e", d->tree_asleep, nt);
    // frozen: qpos of the tree unchanged by the step (bitwise), qvel zero after the step
    printf(" | same"); for (int t = 0; t < nt; t++) printf(" %d", tree_qpos_hash(m, d, t) == h0[t]);
    printf(" | vz"); for (int t = 0; t < nt; t++) printf(" %d", tree_qvel_zero(m, d, t));
    // derived arrays consistent with tree_asleep at the end of the step
    { int ok = 1, na = 0; for (int t = 0; t < nt; t++) { na += d->tree_asleep[t] < 0; if (d->tree_awake[t] != (d->tree_asleep[t] < 0)) ok = 0; }
      if (na != d->ntree_awake) ok = 0; printf(" | der %d", ok); }
    // ---- sleep-disabled twin: the real mj_step
    if (MJG_TRY) { mj_step(m2, d2); MJG_END; } else { printf("\nE step %d twin: %s\n", k, mjg_last_error); break; }
    int nasleep = 0; for (int t = 0; t < nt; t++) nasleep += (d->tree_asleep[t] >= 0) || (taF[t] >= 0) || (ta_start[t] >= 0);
    if (nasleep) synced = 0;
    int cmp = -1;
    if (synced) {
      cmp = memcmp(d->qpos, d2->qpos, sizeof(mjtNum) * m->nq) == 0 && memcmp(d->qvel, d2->qvel, sizeof(mjtNum) * m->nv) == 0 &&
            memcmp(d->qacc, d2->qacc, sizeof(mjtNum) * m->nv) == 0 && memcmp(&d->time, &d2->time, sizeof(mjtNum)) == 0 &&
            d->ncon == d2->ncon && d->nefc == d2->nefc &&
            memcmp(d->qfrc_constraint, d2->qfrc_constraint, sizeof(mjtNum) * m->nv) == 0 &&
            memcmp(d->xpos, d2->xpos, sizeof(mjtNum) * 3 * m->nbody) == 0 && memcmp(d->xquat, d2->xquat, sizeof(mjtNum) * 4 * m->nbody) == 0 &&
            memcmp(d->geom_xpos, d2->geom_xpos, sizeof(mjtNum) * 3 * m->ngeom) == 0 && memcmp(d->geom_xmat, d2->geom_xmat, sizeof(mjtNum) * 9 * m->ngeom) == 0;
    } else if (!nasleep) {
      // everything awake again: restart the comparison from a copy of the sleep-enabled state
      mj_copyData(d2, m2, d); synced = 1; cmp = -2;
    }
    printf(" | twin %d\n", cmp);
  }
  printf("Z\n");
  mj_deleteData(d); mj_deleteData(d2); mj_deleteModel(m); mj_deleteModel(m2); mj_deleteSpec(s);
}

int main(void) {
  mjg_install_handlers();
  char op[8];
  while (scanf("%7s", op) == 1) {
    if (op[0] == 'M') { printf("%d %d %d %d\n", mjMINAWAKE, (int)mjS_STATIC, (int)mjS_ASLEEP, (int)mjS_AWAKE); }
    else if (op[0] == 'C') {
      int n, i; rd(&n); rd(&i); int cnt; rd(&cnt); int* a = malloc(sizeof(int) * (cnt + 1));
      for (int k = 0; k < cnt; k++) rd(&a[k]);
      printf("%d\n", mj_sleepCycle(a, n, i)); free(a);
    } else if (op[0] == 'W') {
      int n, i, wv, cnt; rd(&n); rd(&i); rd(&wv); rd(&cnt); int* a = malloc(sizeof(int) * (cnt + 1));
      for (int k = 0; k < cnt; k++) rd(&a[k]);
      int err = 0, nw = 0;
      if (MJG_TRY) { nw = mj_wakeIsland(a, n, i, wv, NULL, 0); MJG_END; } else err = err_code();
      printf("%d %d", err, nw); for (int k = 0; k < cnt; k++) printf(" %d", a[k]); printf("\n"); free(a);
    } else if (op[0] == 'S') cmd_S();
    else if (op[0] == 'K') cmd_K();
    else if (op[0] == 'U') cmd_U();
    else if (op[0] == 'P') run_pipe();
    else return 3;
    fflush(stdout);
  }
  return 0;
}
