// C25 driver: analytic velocity derivatives and finite-difference Jacobians of the working tree.
// One request per stdin line, replies are blocks of lines closed by "END"; doubles as C99 hex floats.
//   S seed feat nbody nrep xflags integrator
//       mjgen model (+ extra actuators / fluid selected by xflags), per repetition a random state:
//       QD   nv | dense qDeriv of mjd_smooth_vel(flg_bias = 1) | 0/1 mask of the sparsity pattern D
//       FDS  nv | central finite differences (own loop, eps 1e-6) of qfrc_actuator + qfrc_passive - qfrc_bias w.r.t. qvel
//       LIN  ... the inputs of the linear-terms model (actuators, tendons, dofs) and the dense qDeriv after
//            mjd_actuator_vel + mjd_passive_vel only (printed when the model is in the modelled class)
//   T seed feat nbody nrep xflags integrator
//       mjd_transitionFD forward and centred (A, B, C, D), own centred differences of mj_step,
//       state comparison (mjcmp.h + mj_getState) before/after mjd_transitionFD and mjd_inverseFD
//   CD fp fm h n x.. xp.. xm..    the static clampedDiff of engine_derivative_fd.c (fp / fm: x_plus / x_minus given or NULL)
//   E limited centered ctrl eps lo hi   one hinge, motor (gear 2), actuatorfrc sensor: the D and B entries of mjd_transitionFD
// xflags: 128 three extra bodies (hinge+slide / ball / free) with an off-centre ellipsoid-fluid capsule / cylinder / sphere / ellipsoid / box, density-only / viscosity-only / both
// xflags: 64 force-limited actuators with a velocity term that saturate (velocity servo / affine gain, tiny forcerange)
// xflags: 1 fluid (density, viscosity, one ellipsoid-fluid geom)   2 damper + cylinder + intvelocity actuators
//         4 muscle actuator   8 DC motor actuator   16 PID actuator   32 smooth model (no contacts/limits/friction/equalities)
#include "mjgen.h"
#include "mjcmp.h"
#include "engine/engine_derivative.h"
#include "engine/engine_derivative_fd.c"   // static clampedDiff: every symbol of that TU is defined here
#include "engine/engine_core_util.h"   // mj_actuatorDamping
#include "engine/engine_support.h"     // mj_actuatorDisabled
#include "engine/engine_util_misc.h"   // mju_geomSemiAxes

static void pd(const mjtNum* v, int n) { for (int i = 0; i < n; i++) printf(" %a", (double)v[i]); }

static mjModel* build(uint64_t seed, unsigned feat, int nbody, unsigned xf, int integrator) {
  if (xf & 32) feat &= ~(unsigned)(MJG_CONTACT | MJG_LIMIT | MJG_FRICTIONLOSS | MJG_EQUALITY | MJG_MOCAP);
  mjSpec* s = mjg_spec(seed, feat, nbody);
  mjg_rng R = { seed * 57 + 3 }; mjg_rng* r = &R;
  s->option.integrator = integrator;
  if (xf & 1) { s->option.density = mjg_range(r, 1, 50); s->option.viscosity = mjg_range(r, 0.001, 0.5); s->option.wind[0] = mjg_range(r, -1, 1); }
  mjModel* m0 = mj_compile(s, NULL);
  if (!m0) { fprintf(stderr, "c25: base compile failed: %s\n", mjs_getError(s)); mj_deleteSpec(s); return NULL; }
  // scalar joints of the base model
  int sj[64], nsj = 0;
  for (int j = 0; j < m0->njnt && nsj < 64; j++) if (m0->jnt_type[j] == mjJNT_HINGE || m0->jnt_type[j] == mjJNT_SLIDE) sj[nsj++] = j;
  int extra = 0;
  if ((xf & 1) && m0->ngeom > 0) {
    // ellipsoid fluid model on one geom of a moving body
    for (int g = 0; g < m0->ngeom; g++) if (m0->geom_bodyid[g] > 0 && m0->geom_type[g] != mjGEOM_PLANE) {
      mjsGeom* sg = mjs_asGeom(mjs_findElement(s, mjOBJ_GEOM, mj_id2name(m0, mjOBJ_GEOM, g)));
      if (sg) { sg->fluid_ellipsoid = 1; sg->fluid_coefs[0] = 0.5; sg->fluid_coefs[1] = 0.25; sg->fluid_coefs[2] = 1.5; sg->fluid_coefs[3] = 1.0; sg->fluid_coefs[4] = 1.0; }
      break;
    }
  }
  if (nsj > 0) {
    if (xf & 2) {
      mjsActuator* a = mjs_addActuator(s, NULL); mjs_setName(a->element, "xdamper"); a->trntype = mjTRN_JOINT;
      mjs_setString(a->target, mj_id2name(m0, mjOBJ_JOINT, sj[mjg_int(r, nsj)])); mjs_setToDamper(a, mjg_range(r, 0.1, 2));
      a->ctrllimited = mjLIMITED_TRUE; a->ctrlrange[0] = 0; a->ctrlrange[1] = 2; a->gear[0] = mjg_range(r, 0.5, 2);
      a = mjs_addActuator(s, NULL); mjs_setName(a->element, "xcyl"); a->trntype = mjTRN_JOINT;
      mjs_setString(a->target, mj_id2name(m0, mjOBJ_JOINT, sj[mjg_int(r, nsj)])); mjs_setToCylinder(a, 0.2, -0.3, 1.5, -1); a->biasprm[2] = -0.4;
      a = mjs_addActuator(s, NULL); mjs_setName(a->element, "xintvel"); a->trntype = mjTRN_JOINT;
      mjs_setString(a->target, mj_id2name(m0, mjOBJ_JOINT, sj[mjg_int(r, nsj)]));
      { double kv = 0.3; mjs_setToIntVelocity(a, 5.0, &kv, NULL, NULL, 0); a->actlimited = mjLIMITED_TRUE; a->actrange[0] = -1; a->actrange[1] = 1; }
      extra += 3;
    }
    if (xf & 4) {
      mjsActuator* a = mjs_addActuator(s, NULL); mjs_setName(a->element, "xmuscle"); a->trntype = mjTRN_JOINT;
      mjs_setString(a->target, mj_id2name(m0, mjOBJ_JOINT, sj[mjg_int(r, nsj)]));
      double tc[2] = {0.01, 0.04}, rg[2] = {0.75, 1.05};
      mjs_setToMuscle(a, tc, 0, rg, 3.0, 200, 0.5, 1.6, 1.5, 1.3, 1.2);
      a->lengthrange[0] = -1.0; a->lengthrange[1] = 1.0;
      extra++;
    }
    if (xf & 8) {
      mjsActuator* a = mjs_addActuator(s, NULL); mjs_setName(a->element, "xdc"); a->trntype = mjTRN_JOINT;
      mjs_setString(a->target, mj_id2name(m0, mjOBJ_JOINT, sj[mjg_int(r, nsj)]));
      double mc[2] = {0.05, 0.05};
      const char* e = mjs_setToDCMotor(a, mc, 1.5, NULL, NULL, NULL, NULL, NULL, NULL, NULL, 0);
      if (e && e[0]) fprintf(stderr, "c25: dcmotor: %s\n", e);
      a->gear[0] = 5;
      extra++;
    }
    if (xf & 16) {
      mjsActuator* a = mjs_addActuator(s, NULL); mjs_setName(a->element, "xpid"); a->trntype = mjTRN_JOINT;
      mjs_setString(a->target, mj_id2name(m0, mjOBJ_JOINT, sj[mjg_int(r, nsj)]));
      double kv = 0.4, ki = 0.5, imax = 1.0;
      const char* e = mjs_setToPID(a, 4.0, &kv, NULL, &ki, &imax, NULL, 0, 0);
      if (e && e[0]) fprintf(stderr, "c25: pid: %s\n", e);
      extra++;
    }
  }
  if (xf & 128) {
    // ellipsoid-fluid geoms of every shape (two or three equal semi-axes included: capsule, cylinder, sphere), off-centre, on
    // hinge+slide / ball / free parents; medium with density only, viscosity only or both (chosen by the seed)
    mjg_rng RF = { seed * 419 + 23 }; int mode = (int)(seed % 3);
    s->option.density = mode == 1 ? 0 : mjg_range(&RF, 1, 1000); s->option.viscosity = mode == 0 ? 0 : mjg_range(&RF, 0.001, 0.5);
    if (mjg_chance(&RF, 0.5)) { s->option.wind[0] = mjg_range(&RF, -1, 1); s->option.wind[1] = mjg_range(&RF, -1, 1); }
    static const int gt[5] = {mjGEOM_CAPSULE, mjGEOM_CYLINDER, mjGEOM_SPHERE, mjGEOM_ELLIPSOID, mjGEOM_BOX};
    for (int k = 0; k < 3; k++) {
      mjsBody* fb = mjs_addBody(mjs_findBody(s, "world"), NULL); char n[16]; snprintf(n, sizeof(n), "xfl%d", k); mjs_setName(fb->element, n);
      fb->pos[0] = 3 + k; fb->pos[2] = 1;
      int jk = (int)((seed + k) % 3);
      if (jk == 0) { mjsJoint* j = mjs_addJoint(fb, NULL); j->type = mjJNT_HINGE; j->axis[0] = 0.3; j->axis[1] = 1; j->axis[2] = 0.2; mjsJoint* j2 = mjs_addJoint(fb, NULL); j2->type = mjJNT_SLIDE; j2->axis[0] = 1; j2->axis[1] = 0.2; j2->axis[2] = -0.4; }
      else if (jk == 1) { mjsJoint* j = mjs_addJoint(fb, NULL); j->type = mjJNT_BALL; }
      else { mjsJoint* j = mjs_addJoint(fb, NULL); j->type = mjJNT_FREE; }
      mjsGeom* g = mjs_addGeom(fb, NULL); g->type = gt[mjg_int(&RF, 5)]; g->contype = 0; g->conaffinity = 0;
      double sc = mjg_chance(&RF, 0.5) ? 1.0 : 0.3;     // decimetre- and centimetre-sized geoms
      g->size[0] = sc * mjg_range(&RF, 0.04, 0.2); g->size[1] = sc * mjg_range(&RF, 0.04, 0.2); g->size[2] = sc * mjg_range(&RF, 0.04, 0.2);
      for (int i = 0; i < 3; i++) g->pos[i] = mjg_range(&RF, -0.15, 0.15);
      if (mjg_chance(&RF, 0.5)) mjg_quat(&RF, g->quat);
      g->fluid_ellipsoid = 1; g->fluid_coefs[0] = 0.5; g->fluid_coefs[1] = 0.25; g->fluid_coefs[2] = 1.5; g->fluid_coefs[3] = 1.0; g->fluid_coefs[4] = 1.0;
    }
  }
  if (nsj > 0 && (xf & 64)) {
    mjsActuator* a = mjs_addActuator(s, NULL); mjs_setName(a->element, "xsatv"); a->trntype = mjTRN_JOINT;
    mjs_setString(a->target, mj_id2name(m0, mjOBJ_JOINT, sj[mjg_int(r, nsj)])); mjs_setToVelocity(a, 2.0);
    a->forcelimited = mjLIMITED_TRUE; a->forcerange[0] = -0.02; a->forcerange[1] = 0.03;
    a = mjs_addActuator(s, NULL); mjs_setName(a->element, "xsatg"); a->trntype = mjTRN_JOINT;
    mjs_setString(a->target, mj_id2name(m0, mjOBJ_JOINT, sj[mjg_int(r, nsj)]));
    a->gaintype = mjGAIN_AFFINE; a->gainprm[0] = 0.5; a->gainprm[2] = 0.8; a->biastype = mjBIAS_NONE;
    a->forcelimited = mjLIMITED_TRUE; a->forcerange[0] = -0.05; a->forcerange[1] = 0.04;
    extra += 2;
  }
  // sensors that depend on the controls: one actuatorfrc per actuator, jointactuatorfrc on a few joints
  {
    int nact0 = m0->nu + extra, k = 0;
    static const char* xn[] = {"xdamper", "xcyl", "xintvel", "xmuscle", "xdc", "xpid", "xsatv", "xsatg"};
    for (int a = 0; a < m0->nu; a++) { mjsSensor* sn = mjs_addSensor(s); sn->type = mjSENS_ACTUATORFRC; sn->objtype = mjOBJ_ACTUATOR; mjs_setString(sn->objname, mj_id2name(m0, mjOBJ_ACTUATOR, a)); }
    for (k = 0; k < 8; k++) if (mjs_findElement(s, mjOBJ_ACTUATOR, xn[k])) { mjsSensor* sn = mjs_addSensor(s); sn->type = mjSENS_ACTUATORFRC; sn->objtype = mjOBJ_ACTUATOR; mjs_setString(sn->objname, xn[k]); }
    for (k = 0; k < nsj && k < 3; k++) { mjsSensor* sn = mjs_addSensor(s); sn->type = mjSENS_JOINTACTFRC; sn->objtype = mjOBJ_JOINT; mjs_setString(sn->objname, mj_id2name(m0, mjOBJ_JOINT, sj[k])); }
    (void)nact0;
  }
  mj_deleteModel(m0);
  mjModel* m = mj_compile(s, NULL);
  if (!m) fprintf(stderr, "c25: compile failed (xflags %u): %s\n", xf, mjs_getError(s));
  mj_deleteSpec(s);
  return m;
}

static void densify(const mjModel* m, const mjtNum* qDeriv, mjtNum* dense, mjtNum* mask) {
  int nv = m->nv;
  for (int k = 0; k < nv * nv; k++) { dense[k] = 0; mask[k] = 0; }
  for (int i = 0; i < nv; i++) for (int k = 0; k < m->D_rownnz[i]; k++) {
    int adr = m->D_rowadr[i] + k, j = m->D_colind[adr];
    dense[i * nv + j] += qDeriv[adr]; mask[i * nv + j] = 1;
  }
}

static void smooth_force(const mjModel* m, mjData* d, mjtNum* f) {
  mj_fwdVelocity(m, d); mj_fwdActuation(m, d);
  for (int i = 0; i < m->nv; i++) f[i] = d->qfrc_actuator[i] + d->qfrc_passive[i] - d->qfrc_bias[i];
}

static int finite_state(const mjModel* m, const mjData* d) {
  for (int k = 0; k < m->nq; k++) if (!isfinite(d->qpos[k])) return 0;
  for (int k = 0; k < m->nv; k++) if (!isfinite(d->qvel[k]) || !isfinite(d->qacc[k]) || fabs(d->qvel[k]) > 1e3 || fabs(d->qacc[k]) > 1e7) return 0;
  for (int k = 0; k < m->na; k++) if (!isfinite(d->act[k])) return 0;
  return !(d->warning[mjWARN_BADQACC].number || d->warning[mjWARN_BADQPOS].number || d->warning[mjWARN_BADQVEL].number);
}

static void random_state(const mjModel* m, mjData* d, mjg_rng* r, int rep) {
  mj_resetData(m, d);
  mjg_random_state(m, d, r, rep == 0 ? 0.5 : mjg_range(r, 0.2, 3.0));
  for (int i = 0; i < m->nu; i++) {   // keep ctrl finite and inside ranges that are required non-negative (damper, muscle)
    if (m->actuator_ctrllimited[i]) { mjtNum lo = m->actuator_ctrlrange[2 * i], hi = m->actuator_ctrlrange[2 * i + 1]; d->ctrl[i] = lo + (hi - lo) * mjg_u(r); if (mjg_chance(r, 0.15)) d->ctrl[i] = hi + 0.3; }
  }
  for (int i = 0; i < m->na; i++) d->act[i] = mjg_range(r, 0.05, 0.6);
  d->time = mjg_range(r, 0, 3);
}

// ---------------------------------------------------------------- S: smooth-force derivatives
static void run_smooth(uint64_t seed, unsigned feat, int nbody, int nrep, unsigned xf, int integrator) {
  mjModel* m = build(seed, feat, nbody, xf, integrator);
  if (!m) { printf("FAIL compile\nEND\n"); return; }
  mjData* d = mj_makeData(m); mjData* d2 = mj_makeData(m);
  int nv = m->nv;
  mjtNum* A = (mjtNum*)malloc(sizeof(mjtNum) * (nv * nv + 1)); mjtNum* K = (mjtNum*)malloc(sizeof(mjtNum) * (nv * nv + 1));
  mjtNum* FD = (mjtNum*)malloc(sizeof(mjtNum) * (nv * nv + 1)); mjtNum* fp = (mjtNum*)malloc(sizeof(mjtNum) * (nv + 1)); mjtNum* fm = (mjtNum*)malloc(sizeof(mjtNum) * (nv + 1));
  mjtNum* row = (mjtNum*)malloc(sizeof(mjtNum) * (nv + 1));
  mjg_rng R = { seed * 193 + 29 }; mjg_rng* r = &R;
  // is the model inside the class of the linear-terms model?
  int linear_class = !(m->opt.density > 0 || m->opt.viscosity > 0) && m->nflex == 0;
  for (int i = 0; i < m->nu; i++) {
    if (!(m->actuator_gaintype[i] == mjGAIN_FIXED || m->actuator_gaintype[i] == mjGAIN_AFFINE)) linear_class = 0;
    if (!(m->actuator_biastype[i] == mjBIAS_NONE || m->actuator_biastype[i] == mjBIAS_AFFINE)) linear_class = 0;
    if (m->actuator_actearly[i] || m->actuator_outnum[i] != 1 || m->actuator_plugin[i] >= 0) linear_class = 0;
  }
  printf("INFO nv %d nu %d na %d ntendon %d linear_class %d fluid %d ngain", nv, m->nu, m->na, m->ntendon, linear_class, m->opt.density > 0 || m->opt.viscosity > 0);
  for (int i = 0; i < m->nu; i++) printf(" %d:%d:%d", m->actuator_gaintype[i], m->actuator_biastype[i], m->actuator_dyntype[i]);
  printf("\n");
  for (int rep = 0; rep < nrep; rep++) {
    random_state(m, d, r, rep);
    int err = 0;
    if (MJG_TRY) { mj_forward(m, d); MJG_END; } else err = 1;
    if (err || !finite_state(m, d)) { printf("REP %d 1\nENDREP\n", rep); continue; }
    printf("REP %d 0\n", rep);
    // analytic
    mjd_smooth_vel(m, d, 1);
    densify(m, d->qDeriv, A, K);
    printf("QD %d", nv); pd(A, nv * nv); printf(" |"); for (int k = 0; k < nv * nv; k++) printf(" %d", (int)K[k]); printf("\n");
    // own central differences on a copy
    mjtNum eps = 1e-6;
    for (int j = 0; j < nv; j++) {
      mj_copyData(d2, m, d); d2->qvel[j] = d->qvel[j] + eps; smooth_force(m, d2, fp);
      mj_copyData(d2, m, d); d2->qvel[j] = d->qvel[j] - eps; smooth_force(m, d2, fm);
      for (int i = 0; i < nv; i++) FD[i * nv + j] = (fp[i] - fm[i]) / (2 * eps);
    }
    printf("FDS %d", nv); pd(FD, nv * nv); printf("\n");
    // the same differences with eps/4 and eps/16: a finite-difference value is used as oracle only where it has converged
    for (int lvl = 1; lvl <= 2; lvl++) {
      mjtNum e2 = lvl == 1 ? eps / 4 : eps / 16;
      for (int j = 0; j < nv; j++) {
        mj_copyData(d2, m, d); d2->qvel[j] = d->qvel[j] + e2; smooth_force(m, d2, fp);
        mj_copyData(d2, m, d); d2->qvel[j] = d->qvel[j] - e2; smooth_force(m, d2, fm);
        for (int i = 0; i < nv; i++) FD[i * nv + j] = (fp[i] - fm[i]) / (2 * e2);
      }
      printf(lvl == 1 ? "FDS4 %d" : "FDS16 %d", nv); pd(FD, nv * nv); printf("\n");
    }
    // forces (magnitude for the tolerance) and clamp information
    mj_copyData(d2, m, d); smooth_force(m, d2, fp);
    printf("FRC"); pd(fp, nv); printf("\n");
    printf("CLAMP");
    for (int i = 0; i < m->nu; i++) {
      int oa = m->actuator_outadr[i]; mjtNum f = d->actuator_force[oa];
      int atlimit = m->actuator_forcelimited[i] && (fabs(f - m->actuator_forcerange[2 * i]) < 1e-3 || fabs(f - m->actuator_forcerange[2 * i + 1]) < 1e-3);
      printf(" %d", atlimit);
    }
    printf("\n");
    // attribution data for known approximations of the analytic derivative
    {
      // (a) controls outside their range: the force law clamps ctrl, so does this recomputation of the analytic derivative
      int noor = 0;
      for (int i = 0; i < m->nu; i++) if (m->actuator_ctrllimited[i]) {
        mjtNum c = d->ctrl[m->actuator_ctrladr[i]];
        if (c < m->actuator_ctrlrange[2 * i] || c > m->actuator_ctrlrange[2 * i + 1]) noor++;
      }
      printf("CTRLOOR %d\n", noor);
      if (noor) {
        mj_copyData(d2, m, d);
        for (int i = 0; i < m->nu; i++) if (m->actuator_ctrllimited[i]) {
          int ua = m->actuator_ctrladr[i];
          d2->ctrl[ua] = mju_clip(d2->ctrl[ua], m->actuator_ctrlrange[2 * i], m->actuator_ctrlrange[2 * i + 1]);
        }
        mjd_smooth_vel(m, d2, 1);
        densify(m, d2->qDeriv, A, K);
        printf("QDC %d", nv); pd(A, nv * nv); printf("\n");
      }
      // (b) ellipsoid-fluid geoms: the quantity guarded by mjMINVAL in mjd_viscous_drag, sqrt(proj_num^3 * proj_denom)
      for (int g = 0; g < m->ngeom; g++) if (m->geom_fluid[mjNFLUID * g] > 0 && (m->opt.density > 0 || m->opt.viscosity > 0)) {
        mjtNum sz[3], lvel[6], wind[6] = {0, 0, 0, m->opt.wind[0], m->opt.wind[1], m->opt.wind[2]}, lwind[6];
        mju_geomSemiAxes(sz, m->geom_size + 3 * g, m->geom_type[g]);
        mj_objectVelocity(m, d, mjOBJ_GEOM, g, lvel, 1);
        mju_transformSpatial(lwind, wind, 0, d->geom_xpos + 3 * g, d->geom_xpos + 3 * g, d->geom_xmat + 9 * g);
        mjtNum x = lvel[3] - lwind[3], y = lvel[4] - lwind[4], z = lvel[5] - lwind[5];
        mjtNum a = (sz[1] * sz[2]) * (sz[1] * sz[2]), b = (sz[2] * sz[0]) * (sz[2] * sz[0]), c = (sz[0] * sz[1]) * (sz[0] * sz[1]);
        mjtNum den = a * a * x * x + b * b * y * y + c * c * z * z, num = a * x * x + b * y * y + c * z * z;
        // the quantity guarded since /repo 186c34282: sqrt(num_n^3 * denom_n) on the unit direction and (a,b,c)/max
        mjtNum sp = sqrt(x * x + y * y + z * z), smax = a > b ? (a > c ? a : c) : (b > c ? b : c);
        mjtNum an = a / smax, bn = b / smax, cn = c / smax, xn = sp > 0 ? x / sp : 0, yn = sp > 0 ? y / sp : 0, zn = sp > 0 ? z / sp : 0;
        mjtNum numn = an * xn * xn + bn * yn * yn + cn * zn * zn, denn = an * an * xn * xn + bn * bn * yn * yn + cn * cn * zn * zn;
        // plus the quantities mjd_kutta_lift guards with an absolute mjMINVAL: proj_denom, norm^2, sqrt(proj_denom*proj_num*norm^2)
        printf("GUARD %d %d %a %a %a %a %a %a %a\n", g, m->geom_bodyid[g], (double)sqrt(num * num * num * den), (double)sqrt(numn * numn * numn * denn), (double)sp,
               (double)den, (double)(sp * sp), (double)sqrt(den * num * sp * sp), (double)m->geom_fluid[mjNFLUID * g + 4]);
      }
    }
    // linear-terms model inputs
    if (linear_class) {
      mju_zero(d->qDeriv, m->nD);
      mjd_actuator_vel(m, d); mjd_passive_vel(m, d);
      densify(m, d->qDeriv, A, K);
      printf("LINQ %d", nv); pd(A, nv * nv); printf("\n");
      for (int i = 0; i < m->nu; i++) {
        int oa = m->actuator_outadr[i];
        for (int k = 0; k < nv; k++) row[k] = 0;
        for (int k = 0; k < d->moment_rownnz[oa]; k++) row[d->moment_colind[d->moment_rowadr[oa] + k]] = d->actuator_moment[d->moment_rowadr[oa] + k];
        mjtNum input = (m->actuator_dyntype[i] == mjDYN_NONE) ? d->ctrl[m->actuator_ctrladr[i]] : d->act[m->actuator_actadr[i] + m->actuator_actnum[i] - 1];
        // gain/bias prm as the force law uses them: FIXED gain = (prm0, 0, 0), NONE bias = (0, 0, 0)
        mjtNum g[3] = {m->actuator_gainprm[mjNGAIN * i], 0, 0}, b[3] = {0, 0, 0};
        if (m->actuator_gaintype[i] == mjGAIN_AFFINE) { g[1] = m->actuator_gainprm[mjNGAIN * i + 1]; g[2] = m->actuator_gainprm[mjNGAIN * i + 2]; }
        if (m->actuator_biastype[i] == mjBIAS_AFFINE) for (int k = 0; k < 3; k++) b[k] = m->actuator_biasprm[mjNBIAS * i + k];
        // the raw input and, for stateless actuators, the control limits the forward pass clamps with (indexed by control)
        int ua = m->actuator_ctrladr[i], stateless = m->actuator_dyntype[i] == mjDYN_NONE;
        int climited = stateless && m->actuator_ctrllimited[ua] && !(m->opt.disableflags & mjDSBL_CLAMPCTRL);
        printf("LINA %d %d %a %a %a", mj_actuatorDisabled(m, i), (int)m->actuator_forcelimited[i], (double)d->actuator_force[oa],
               (double)m->actuator_forcerange[2 * i], (double)m->actuator_forcerange[2 * i + 1]);
        pd(g, 3); pd(b, 3); printf(" %a %d %a %a", (double)input, climited, (double)m->actuator_ctrlrange[2 * ua], (double)m->actuator_ctrlrange[2 * ua + 1]); pd(row, nv); printf("\n");
      }
      for (int t = 0; t < m->ntendon; t++) {
        for (int k = 0; k < nv; k++) row[k] = 0;
        for (int k = 0; k < m->ten_J_rownnz[t]; k++) row[m->ten_J_colind[m->ten_J_rowadr[t] + k]] = d->ten_J[m->ten_J_rowadr[t] + k];
        mjtNum poly[mjNPOLY]; mju_copy(poly, m->tendon_dampingpoly + mjNPOLY * t, mjNPOLY);
        mjtNum damping = m->tendon_damping[t] + mj_actuatorDamping(m, mjOBJ_TENDON, t, poly);
        printf("LINT %d %a %a", mjNPOLY, (double)damping, (double)d->ten_velocity[t]); pd(poly, mjNPOLY); pd(row, nv); printf("\n");
      }
      for (int i = 0; i < nv; i++) {
        mjtNum poly[mjNPOLY]; mju_copy(poly, m->dof_dampingpoly + mjNPOLY * i, mjNPOLY);
        mjtNum damping = m->dof_damping[i] + mj_actuatorDamping(m, mjOBJ_JOINT, m->dof_jntid[i], poly);
        printf("LIND %d %a %a", mjNPOLY, (double)damping, (double)d->qvel[i]); pd(poly, mjNPOLY); printf("\n");
      }
    }
    printf("ENDREP\n");
  }
  free(A); free(K); free(FD); free(fp); free(fm); free(row);
  mj_deleteData(d); mj_deleteData(d2); mj_deleteModel(m);
  printf("END\n");
}

// ---------------------------------------------------------------- T: transition / inverse finite differences
static const char* STATE_FIELDS[] = {"time", "qpos", "qvel", "act", "history", "ctrl", "qfrc_applied", "xfrc_applied", "eq_active", "mocap_pos", "mocap_quat", "userdata", "plugin_state", NULL};

static int state_fields_differ(const mjModel* m, const char* names, int warmstart, char* out, int nout) {
  // names: space separated list from mjcmp_data; returns how many state fields are in it
  int cnt = 0, pos = 0; out[0] = 0;
  char buf[4096]; snprintf(buf, sizeof(buf), "%s", names);
  for (char* t = strtok(buf, " "); t; t = strtok(NULL, " ")) {
    int isstate = 0;
    for (int k = 0; STATE_FIELDS[k]; k++) if (!strcmp(t, STATE_FIELDS[k])) isstate = 1;
    if (warmstart && !strcmp(t, "qacc_warmstart")) isstate = 1;
    if (isstate) { cnt++; if (pos < nout - 40) pos += snprintf(out + pos, nout - pos, "%s,", t); }
  }
  return cnt;
}

static void step_from(const mjModel* m, mjData* work, const mjData* base, mjtNum* y) {
  (void)base; mj_step(m, work);
  mju_copy(y, work->qpos, m->nq); mju_copy(y + m->nq, work->qvel, m->nv); mju_copy(y + m->nq + m->nv, work->act, m->na);
}
static void state_diff(const mjModel* m, mjtNum* ds, const mjtNum* s1, const mjtNum* s2, mjtNum h) {
  mj_differentiatePos(m, ds, h, s1, s2);
  for (int k = 0; k < m->nv + m->na; k++) ds[m->nv + k] = (s2[m->nq + k] - s1[m->nq + k]) / h;
}

static void run_transition(uint64_t seed, unsigned feat, int nbody, int nrep, unsigned xf, int integrator) {
  mjModel* m = build(seed, feat, nbody, xf, integrator);
  if (!m) { printf("FAIL compile\nEND\n"); return; }
  mjData* d = mj_makeData(m); mjData* d0 = mj_makeData(m); mjData* w = mj_makeData(m);
  int nv = m->nv, na = m->na, nu = m->nu, nq = m->nq, ns = m->nsensordata, ndx = 2 * nv + na;
  mjtNum *A0 = malloc(sizeof(mjtNum) * (ndx * ndx + 1)), *A1 = malloc(sizeof(mjtNum) * (ndx * ndx + 1)), *AO = malloc(sizeof(mjtNum) * (ndx * ndx + 1));
  mjtNum *B0 = malloc(sizeof(mjtNum) * (ndx * nu + 1)), *B1 = malloc(sizeof(mjtNum) * (ndx * nu + 1)), *BO = malloc(sizeof(mjtNum) * (ndx * nu + 1));
  mjtNum *C0 = malloc(sizeof(mjtNum) * (ns * ndx + 1)), *C1 = malloc(sizeof(mjtNum) * (ns * ndx + 1));
  mjtNum *D0 = malloc(sizeof(mjtNum) * (ns * nu + 1)), *D1 = malloc(sizeof(mjtNum) * (ns * nu + 1));
  mjtNum *yp = malloc(sizeof(mjtNum) * (nq + nv + na + 1)), *ym = malloc(sizeof(mjtNum) * (nq + nv + na + 1)), *col = malloc(sizeof(mjtNum) * (ndx + 1));
  int nst = mj_stateSize(m, mjSTATE_INTEGRATION);
  mjtNum *s0 = malloc(sizeof(mjtNum) * (nst + 1)), *s1 = malloc(sizeof(mjtNum) * (nst + 1));
  mjtNum *dv = malloc(sizeof(mjtNum) * (nv + 1));
  mjtNum *F1 = malloc(sizeof(mjtNum) * (nv * nv + 1)), *F2 = malloc(sizeof(mjtNum) * (nv * nv + 1)), *F3 = malloc(sizeof(mjtNum) * (nv * nv + 1));
  mjg_rng R = { seed * 211 + 41 }; mjg_rng* r = &R;
  int warm = !(m->opt.disableflags & mjDSBL_WARMSTART);
  unsigned sig = mjSTATE_INTEGRATION & ~(warm ? 0u : (unsigned)mjSTATE_WARMSTART);
  int velgain = 0;   // does qDeriv depend on ctrl / act (velocity term in a gain)?
  for (int i = 0; i < nu; i++) if ((m->actuator_gaintype[i] == mjGAIN_AFFINE && m->actuator_gainprm[mjNGAIN * i + 2] != 0) || m->actuator_gaintype[i] == mjGAIN_MUSCLE || m->actuator_gaintype[i] == mjGAIN_DCMOTOR || m->actuator_gaintype[i] == mjGAIN_PID) velgain++;
  printf("INFO nv %d nu %d na %d ns %d ndx %d integrator %d smooth %d velgain %d spec %d specwarm %d\n", nv, nu, na, ns, ndx, m->opt.integrator, (xf & 32) != 0, velgain,
         (int)(mjSTATE_FULLPHYSICS | mjSTATE_CTRL), (int)(mjSTATE_FULLPHYSICS | mjSTATE_CTRL | mjSTATE_WARMSTART));
  for (int rep = 0; rep < nrep; rep++) {
    random_state(m, d, r, rep);
    if (rep >= 2) {   // controls exactly at / within eps of / outside the limits of their range (separate stream: earlier repetitions unchanged)
      mjg_rng R2 = { seed * 977 + 5 + rep };
      for (int i = 0; i < m->nu; i++) if (m->actuator_ctrllimited[i]) {
        mjtNum lo = m->actuator_ctrlrange[2 * i], hi = m->actuator_ctrlrange[2 * i + 1]; int k = mjg_int(&R2, 6);
        d->ctrl[i] = k == 0 ? lo : k == 1 ? hi : k == 2 ? lo + 0.4e-6 : k == 3 ? hi - 0.4e-6 : k == 4 ? hi + 0.2 : lo + (hi - lo) * mjg_u(&R2);
      }
    }
    int err = 0;
    if (MJG_TRY) { int nst0 = rep % 2 ? 3 : 0; for (int k = 0; k < nst0; k++) mj_step(m, d); mj_forward(m, d); MJG_END; } else err = 1;
    if (err || !finite_state(m, d)) { printf("REP %d 1\nENDREP\n", rep); continue; }
    printf("REP %d 0\n", rep);
    mjtNum eps = 1e-6;
    // ---- transitionFD, forward then centred; full-data comparison before / after each call
    for (int cen = 0; cen < 2; cen++) {
      mj_copyData(d0, m, d); mj_getState(m, d, s0, sig);
      int e2 = 0;
      if (MJG_TRY) { mjd_transitionFD(m, d, eps, cen, cen ? A1 : A0, cen ? B1 : B0, ns ? (cen ? C1 : C0) : NULL, (ns && nu) ? (cen ? D1 : D0) : NULL); MJG_END; } else e2 = 1;
      mj_getState(m, d, s1, sig);
      char names[4096], st[1024]; int nd = mjcmp_data(m, d0, d, names, sizeof(names), 0);
      int nsd = state_fields_differ(m, names, warm, st, sizeof(st));
      printf("RESTORE transitionFD %d err %d statevec_equal %d ndiff_fields %d state_fields_differing %d [%s]\n", cen, e2, !memcmp(s0, s1, sizeof(mjtNum) * nst), nd, nsd, st);
      mj_copyData(d, m, d0);
    }
    // ---- refinement pass: forward differences again with eps/4 (a truncation error shrinks about 4x, a wrong term does not)
    {
      mjtNum *AQ = malloc(sizeof(mjtNum) * (ndx * ndx + 1)), *BQ = malloc(sizeof(mjtNum) * (ndx * nu + 1)), *CQ = malloc(sizeof(mjtNum) * (ns * ndx + 1)), *DQ = malloc(sizeof(mjtNum) * (ns * nu + 1));
      mj_copyData(d0, m, d); int e2 = 0;
      if (MJG_TRY) { mjd_transitionFD(m, d, eps / 4, 0, AQ, BQ, ns ? CQ : NULL, (ns && nu) ? DQ : NULL); MJG_END; } else e2 = 1;
      mj_copyData(d, m, d0);
      if (!e2) {
        printf("A0Q %d", ndx); pd(AQ, ndx * ndx); printf("\n"); printf("B0Q %d", nu); pd(BQ, ndx * nu); printf("\n");
        if (ns) { printf("C0Q %d", ns); pd(CQ, ns * ndx); printf("\n"); }
        if (ns && nu) { printf("D0Q %d", ns); pd(DQ, ns * nu); printf("\n"); }
      }
      free(AQ); free(BQ); free(CQ); free(DQ);
    }
    printf("A0 %d", ndx); pd(A0, ndx * ndx); printf("\n");
    printf("A1 %d", ndx); pd(A1, ndx * ndx); printf("\n");
    printf("B0 %d", nu); pd(B0, ndx * nu); printf("\n");
    printf("B1 %d", nu); pd(B1, ndx * nu); printf("\n");
    if (ns) { printf("C0 %d", ns); pd(C0, ns * ndx); printf("\n"); printf("C1 %d", ns); pd(C1, ns * ndx); printf("\n"); }
    if (ns && nu) { printf("D0 %d", ns); pd(D0, ns * nu); printf("\n"); printf("D1 %d", ns); pd(D1, ns * nu); printf("\n"); }
    // ---- own centred differences of mj_step (A: state columns, B: control columns)
    for (int j = 0; j < ndx; j++) {
      for (int sgn = 0; sgn < 2; sgn++) {
        mj_copyData(w, m, d); mjtNum h = sgn ? -eps : eps;
        if (j < nv) { mju_zero(dv, nv); dv[j] = 1; mj_integratePos(m, w->qpos, dv, h); }
        else if (j < 2 * nv) w->qvel[j - nv] += h; else w->act[j - 2 * nv] += h;
        step_from(m, w, d, sgn ? ym : yp);
      }
      state_diff(m, col, ym, yp, 2 * eps);
      for (int i = 0; i < ndx; i++) AO[i * ndx + j] = col[i];
    }
    printf("AO %d", ndx); pd(AO, ndx * ndx); printf("\n");
    if (ns) {
      mjtNum* CO = malloc(sizeof(mjtNum) * (ns * ndx + 1)); mjtNum* sp = malloc(sizeof(mjtNum) * (ns + 1)); mjtNum* sm = malloc(sizeof(mjtNum) * (ns + 1));
      for (int j = 0; j < ndx; j++) {
        for (int sgn = 0; sgn < 2; sgn++) {
          mj_copyData(w, m, d); mjtNum h = sgn ? -eps : eps;
          if (j < nv) { mju_zero(dv, nv); dv[j] = 1; mj_integratePos(m, w->qpos, dv, h); }
          else if (j < 2 * nv) w->qvel[j - nv] += h; else w->act[j - 2 * nv] += h;
          mj_step(m, w); mju_copy(sgn ? sm : sp, w->sensordata, ns);
        }
        for (int i = 0; i < ns; i++) CO[i * ndx + j] = (sp[i] - sm[i]) / (2 * eps);
      }
      printf("CO %d", ns); pd(CO, ns * ndx); printf("\n");
      if (nu) {
        mjtNum* DO = malloc(sizeof(mjtNum) * (ns * nu + 1));
        for (int j = 0; j < nu; j++) {
          mjtNum c = d->ctrl[j]; const mjtNum* rg = m->actuator_ctrlrange + 2 * j;
          if (m->actuator_ctrllimited[j] && !(c - eps >= rg[0] && c + eps <= rg[1])) { for (int i = 0; i < ns; i++) DO[i * nu + j] = NAN; continue; }
          for (int sgn = 0; sgn < 2; sgn++) { mj_copyData(w, m, d); w->ctrl[j] += sgn ? -eps : eps; mj_step(m, w); mju_copy(sgn ? sm : sp, w->sensordata, ns); }
          for (int i = 0; i < ns; i++) DO[i * nu + j] = (sp[i] - sm[i]) / (2 * eps);
        }
        printf("DO %d", ns); pd(DO, ns * nu); printf("\n"); free(DO);
      }
      free(CO); free(sp); free(sm);
    }
    int bok = 1;
    for (int j = 0; j < nu; j++) {
      // centred only when both nudges stay inside the control range (as documented for mjd_transitionFD)
      mjtNum c = d->ctrl[j]; const mjtNum* rg = m->actuator_ctrlrange + 2 * j;
      if (m->actuator_ctrllimited[j] && !(c - eps >= rg[0] && c + eps <= rg[1])) { bok = 0; for (int i = 0; i < ndx; i++) BO[i * nu + j] = NAN; continue; }
      for (int sgn = 0; sgn < 2; sgn++) { mj_copyData(w, m, d); w->ctrl[j] += sgn ? -eps : eps; step_from(m, w, d, sgn ? ym : yp); }
      state_diff(m, col, ym, yp, 2 * eps);
      for (int i = 0; i < ndx; i++) BO[i * nu + j] = col[i];
    }
    printf("BO %d %d", nu, bok); pd(BO, ndx * nu); printf("\n");
    // ---- inverseFD: input state unchanged; DfDv against own centred differences of mj_inverse
    {
      mj_copyData(d0, m, d); mj_getState(m, d, s0, sig);
      mjtNum* qacc0 = malloc(sizeof(mjtNum) * (nv + 1)); mju_copy(qacc0, d->qacc, nv);
      int e2 = 0;
      if (MJG_TRY) { mjd_inverseFD(m, d, eps, 0, F1, F2, F3, NULL, NULL, NULL, NULL); MJG_END; } else e2 = 1;
      mj_getState(m, d, s1, sig);
      char names[4096], st[1024]; int nd = mjcmp_data(m, d0, d, names, sizeof(names), 0);
      int nsd = state_fields_differ(m, names, warm, st, sizeof(st));
      int qacc_same = !memcmp(qacc0, d->qacc, sizeof(mjtNum) * nv);
      printf("RESTORE inverseFD 0 err %d statevec_equal %d ndiff_fields %d state_fields_differing %d [%s] qacc_equal %d\n", e2, !memcmp(s0, s1, sizeof(mjtNum) * nst), nd, nsd, st, qacc_same);
      free(qacc0);
      mj_copyData(d, m, d0);
      // own differences of qfrc_inverse w.r.t. qvel (transposed like DfDv: row = perturbed dof) and w.r.t. qacc
      mjtNum* O = malloc(sizeof(mjtNum) * (2 * nv * nv + 1));
      for (int j = 0; j < nv; j++) for (int which = 0; which < 2; which++) {
        mjtNum *fp2 = yp, *fm2 = ym;
        for (int sgn = 0; sgn < 2; sgn++) {
          mj_copyData(w, m, d); if (which == 0) w->qvel[j] += sgn ? -eps : eps; else w->qacc[j] += sgn ? -eps : eps;
          mj_inverse(m, w); mju_copy(sgn ? fm2 : fp2, w->qfrc_inverse, nv);
        }
        for (int i = 0; i < nv; i++) O[which * nv * nv + j * nv + i] = (fp2[i] - fm2[i]) / (2 * eps);
      }
      {  // refinement pass of the (forward-only) mjd_inverseFD with eps/4
        mjtNum *G1 = malloc(sizeof(mjtNum) * (nv * nv + 1)), *G2 = malloc(sizeof(mjtNum) * (nv * nv + 1)), *G3 = malloc(sizeof(mjtNum) * (nv * nv + 1));
        mj_copyData(d0, m, d); int e3 = 0;
        if (MJG_TRY) { mjd_inverseFD(m, d, eps / 4, 0, G1, G2, G3, NULL, NULL, NULL, NULL); MJG_END; } else e3 = 1;
        mj_copyData(d, m, d0);
        if (!e3) { printf("IFVQ %d", nv); pd(G2, nv * nv); printf("\n"); printf("IFAQ %d", nv); pd(G3, nv * nv); printf("\n"); }
        free(G1); free(G2); free(G3);
      }
      printf("IFV %d", nv); pd(F2, nv * nv); printf("\n"); printf("IFVO %d", nv); pd(O, nv * nv); printf("\n");
      printf("IFA %d", nv); pd(F3, nv * nv); printf("\n"); printf("IFAO %d", nv); pd(O + nv * nv, nv * nv); printf("\n");
      free(O);
    }
    printf("ENDREP\n");
  }
  free(A0); free(A1); free(AO); free(B0); free(B1); free(BO); free(C0); free(C1); free(D0); free(D1); free(yp); free(ym); free(col); free(s0); free(s1); free(dv); free(F1); free(F2); free(F3);
  mj_deleteData(d); mj_deleteData(d0); mj_deleteData(w); mj_deleteModel(m);
  printf("END\n");
}

// ---------------------------------------------------------------- CD: the static clampedDiff
static void run_clamped(const char* args) {
  int fp, fm, n, off = 0, k; char hs[64]; double h, v[3][16];
  if (sscanf(args, "%d %d %63s %d%n", &fp, &fm, hs, &n, &k) != 4 || n > 16) { printf("FAIL parse\nEND\n"); return; }
  h = strtod(hs, NULL); off = k;
  for (int a = 0; a < 3; a++) for (int i = 0; i < n; i++) { char xs[64]; int nn; if (sscanf(args + off, "%63s%n", xs, &nn) != 1) { printf("FAIL parse\nEND\n"); return; } v[a][i] = strtod(xs, NULL); off += nn; }
  mjtNum dx[18], x[16], xp[16], xm[16];
  for (int i = 0; i < 18; i++) dx[i] = -7.7e77;
  for (int i = 0; i < n; i++) { x[i] = v[0][i]; xp[i] = v[1][i]; xm[i] = v[2][i]; }
  clampedDiff(dx + 1, x, fp ? xp : NULL, fm ? xm : NULL, h, n);
  printf("CD %d", (dx[0] != -7.7e77) + (dx[n + 1] != -7.7e77)); pd(dx + 1, n); printf("\nEND\n");
}

// ---------------------------------------------------------------- E: control at / near / outside its range
static void run_edge(const char* args) {
  int limited, centered; char cs[4][64]; double c, eps, lo, hi;
  if (sscanf(args, "%d %d %63s %63s %63s %63s", &limited, &centered, cs[0], cs[1], cs[2], cs[3]) != 6) { printf("FAIL parse\nEND\n"); return; }
  c = strtod(cs[0], NULL); eps = strtod(cs[1], NULL); lo = strtod(cs[2], NULL); hi = strtod(cs[3], NULL);
  mjSpec* s = mj_makeSpec();
  mjsBody* b = mjs_addBody(mjs_findBody(s, "world"), NULL);
  mjsJoint* j = mjs_addJoint(b, NULL); j->type = mjJNT_HINGE; mjs_setName(j->element, "j"); j->damping[0] = 0.1;
  mjsGeom* g = mjs_addGeom(b, NULL); g->type = mjGEOM_SPHERE; g->size[0] = 0.1; g->pos[0] = 0.3;
  mjsActuator* a = mjs_addActuator(s, NULL); mjs_setName(a->element, "a"); a->trntype = mjTRN_JOINT; mjs_setString(a->target, "j"); mjs_setToMotor(a); a->gear[0] = 2;
  a->ctrllimited = limited ? mjLIMITED_TRUE : mjLIMITED_FALSE; a->ctrlrange[0] = lo; a->ctrlrange[1] = hi;
  mjsSensor* sn = mjs_addSensor(s); sn->type = mjSENS_ACTUATORFRC; sn->objtype = mjOBJ_ACTUATOR; mjs_setString(sn->objname, "a");
  mjModel* m = mj_compile(s, NULL);
  if (!m) { printf("FAIL compile %s\nEND\n", mjs_getError(s)); mj_deleteSpec(s); return; }
  mj_deleteSpec(s);
  mjData* d = mj_makeData(m); d->ctrl[0] = c; d->qvel[0] = 0.1; mj_forward(m, d);
  mjtNum B[2], D[1]; int err = 0;
  if (MJG_TRY) { mjd_transitionFD(m, d, eps, centered, NULL, B, NULL, D); MJG_END; } else err = 1;
  // the sensor before and after the nudges, as the model of the check needs it: sensor(u) = clip(u) (gain 1)
  printf("E %d %a %a %a %a\nEND\n", err, (double)D[0], (double)B[0], (double)B[1], (double)d->ctrl[0]);
  mj_deleteData(d); mj_deleteModel(m);
}

int main(void) {
  mjg_install_handlers();
  char line[4096];
  while (fgets(line, sizeof(line), stdin)) {
    if (line[0] == 'C' && line[1] == 'D') { run_clamped(line + 2); fflush(stdout); continue; }
    if (line[0] == 'E') { run_edge(line + 1); fflush(stdout); continue; }
    unsigned long long seed; unsigned feat, xf; int nbody, nrep, integ;
    if ((line[0] == 'S' || line[0] == 'T') && sscanf(line + 1, "%llu %u %d %d %u %d", &seed, &feat, &nbody, &nrep, &xf, &integ) == 6) {
      if (line[0] == 'S') run_smooth(seed, feat, nbody, nrep, xf, integ); else run_transition(seed, feat, nbody, nrep, xf, integ);
    } else printf("FAIL parse\nEND\n");
    fflush(stdout);
  }
  return 0;
}
