// C43 driver: builds models of a restricted family through the mjSpec C API of the working tree from a line
// description written by the harness (which also prints the equivalent MJCF for MJX), runs mj_forward / mj_step on
// given states and dumps the compiled model arrays and the outputs of each stage as JSON (one line per model).
//
// stdin:
//   MODEL
//   opt timestep gx gy gz cone integrator solver iterations impratio tolerance disableflags
//   body parent px py pz qw qx qy qz             (parent = -1: child of the world; bodies are numbered from 0)
//   joint type ax ay az px py pz damping stiffness armature limited lo hi springref      (of the last body)
//   geom type s0 s1 s2 px py pz qw qx qy qz condim f0 f1 f2 margin gap density            (of the last body)
//   wgeom ...same as geom...                                                               (on the world body)
//   (joint lines may continue with: frictionloss  solref_limit[2] solimp_limit[5]  solref_friction[2] solimp_friction[5];
//    geom lines with: solref[2] solimp[5])
//   eq 0 j1 j2 c0 c1 solref[2] solimp[5]          joint equality (j2 = -1: none);   eq 1 body ax ay az solref[2] solimp[5]   connect to the world
//   site name px py pz                            (of the last body)      wsite name px py pz   (on the world body)
//   tendon stiffness damping sl0 sl1 nwrap (kind ref coef)*     kind 0: joint j<ref> with coef; kind 1: site named s<ref>
//   (body lines may continue with: gravcomp; joint lines after the solver parameters with: actgravcomp actfrclimited lo hi;
//    act lines with: kv ctrllimited clo chi forcelimited flo fhi;  act kind 2 = velocity servo with gain kv)
//   sensor typename objtype objname reftype refname      (objtype / reftype: body xbody site joint actuator none; refname "-" when none)
//   act jointindex kind gear kp                   (kind 0 motor, 1 position)
//   END
//   STATE nq qpos.. nv qvel.. nu ctrl..          (any number)
//   DONE
#include <math.h>
#include <stdio.h>
#include <stdlib.h>
#include <string.h>

#include <mujoco/mujoco.h>
#include "mjgen.h"

#define MAXB 64

static void pa(const char* name, const mjtNum* v, int n, int comma) {
  printf("\"%s\":[", name);
  for (int i = 0; i < n; i++) printf("%s%.17g", i ? "," : "", v[i]);
  printf("]%s", comma ? "," : "");
}
static void pi(const char* name, const int* v, int n, int comma) {
  printf("\"%s\":[", name);
  for (int i = 0; i < n; i++) printf("%s%d", i ? "," : "", v[i]);
  printf("]%s", comma ? "," : "");
}
static void pb(const char* name, const mjtByte* v, int n, int comma) {
  printf("\"%s\":[", name);
  for (int i = 0; i < n; i++) printf("%s%d", i ? "," : "", (int)v[i]);
  printf("]%s", comma ? "," : "");
}

static void pbl(const char* name, const mjtBool* v, int n, int comma) {
  printf("\"%s\":[", name);
  for (int i = 0; i < n; i++) printf("%s%d", i ? "," : "", (int)v[i]);
  printf("]%s", comma ? "," : "");
}

static void read_geom(mjsGeom* g, char* p) {
  int type = (int)strtol(p, &p, 10);
  g->type = (mjtGeom)type;
  for (int i = 0; i < 3; i++) g->size[i] = strtod(p, &p);
  for (int i = 0; i < 3; i++) g->pos[i] = strtod(p, &p);
  for (int i = 0; i < 4; i++) g->quat[i] = strtod(p, &p);
  g->condim = (int)strtol(p, &p, 10);
  for (int i = 0; i < 3; i++) g->friction[i] = strtod(p, &p);
  g->margin = strtod(p, &p);
  g->gap = strtod(p, &p);
  g->density = strtod(p, &p);
  char* q = p; while (*q == ' ') q++;
  if (*q && *q != '\n') {
    for (int i = 0; i < mjNREF; i++) g->solref[i] = strtod(p, &p);
    for (int i = 0; i < mjNIMP; i++) g->solimp[i] = strtod(p, &p);
  }
}

static const struct { const char* name; int type; } SENS[] = {
  {"framepos", mjSENS_FRAMEPOS}, {"framequat", mjSENS_FRAMEQUAT}, {"framexaxis", mjSENS_FRAMEXAXIS}, {"frameyaxis", mjSENS_FRAMEYAXIS},
  {"framezaxis", mjSENS_FRAMEZAXIS}, {"framelinvel", mjSENS_FRAMELINVEL}, {"frameangvel", mjSENS_FRAMEANGVEL},
  {"framelinacc", mjSENS_FRAMELINACC}, {"frameangacc", mjSENS_FRAMEANGACC}, {"velocimeter", mjSENS_VELOCIMETER}, {"gyro", mjSENS_GYRO},
  {"accelerometer", mjSENS_ACCELEROMETER}, {"jointpos", mjSENS_JOINTPOS}, {"jointvel", mjSENS_JOINTVEL}, {"ballquat", mjSENS_BALLQUAT},
  {"ballangvel", mjSENS_BALLANGVEL}, {"subtreecom", mjSENS_SUBTREECOM}, {"subtreelinvel", mjSENS_SUBTREELINVEL},
  {"subtreeangmom", mjSENS_SUBTREEANGMOM}, {"actuatorpos", mjSENS_ACTUATORPOS}, {"actuatorvel", mjSENS_ACTUATORVEL},
  {"actuatorfrc", mjSENS_ACTUATORFRC}, {"clock", mjSENS_CLOCK}, {NULL, 0}};
static int objtype_of(const char* t) {
  if (!strcmp(t, "body")) return mjOBJ_BODY;
  if (!strcmp(t, "xbody")) return mjOBJ_XBODY;
  if (!strcmp(t, "site")) return mjOBJ_SITE;
  if (!strcmp(t, "joint")) return mjOBJ_JOINT;
  if (!strcmp(t, "actuator")) return mjOBJ_ACTUATOR;
  return mjOBJ_UNKNOWN;
}

static void dump_model(const mjModel* m) {
  printf("\"dims\":{\"nq\":%d,\"nv\":%d,\"nu\":%d,\"na\":%d,\"nbody\":%d,\"njnt\":%d,\"ngeom\":%d},", (int)m->nq, (int)m->nv, (int)m->nu,
         (int)m->na, (int)m->nbody, (int)m->njnt, (int)m->ngeom);
  printf("\"opt\":{\"timestep\":%.17g,\"gravity\":[%.17g,%.17g,%.17g],\"cone\":%d,\"solver\":%d,\"integrator\":%d,\"iterations\":%d,"
         "\"tolerance\":%.17g,\"impratio\":%.17g,\"disableflags\":%d},",
         m->opt.timestep, m->opt.gravity[0], m->opt.gravity[1], m->opt.gravity[2], m->opt.cone, m->opt.solver, m->opt.integrator,
         m->opt.iterations, m->opt.tolerance, m->opt.impratio, m->opt.disableflags);
  printf("\"model\":{");
  pa("body_mass", m->body_mass, m->nbody, 1); pa("body_inertia", m->body_inertia, 3 * m->nbody, 1);
  pa("body_pos", m->body_pos, 3 * m->nbody, 1); pa("body_quat", m->body_quat, 4 * m->nbody, 1);
  pa("body_ipos", m->body_ipos, 3 * m->nbody, 1); pa("body_iquat", m->body_iquat, 4 * m->nbody, 1);
  pi("body_parentid", m->body_parentid, m->nbody, 1); pi("jnt_type", m->jnt_type, m->njnt, 1);
  pa("jnt_pos", m->jnt_pos, 3 * m->njnt, 1); pa("jnt_axis", m->jnt_axis, 3 * m->njnt, 1); pi("jnt_bodyid", m->jnt_bodyid, m->njnt, 1);
  pa("jnt_stiffness", m->jnt_stiffness, m->njnt, 1); pa("jnt_range", m->jnt_range, 2 * m->njnt, 1);
  pa("dof_damping", m->dof_damping, m->nv, 1); pa("dof_armature", m->dof_armature, m->nv, 1);
  pa("dof_frictionloss", m->dof_frictionloss, m->nv, 1);
  pa("qpos0", m->qpos0, m->nq, 1); pa("qpos_spring", m->qpos_spring, m->nq, 1);
  pi("geom_type", m->geom_type, m->ngeom, 1); pa("geom_size", m->geom_size, 3 * m->ngeom, 1);
  pa("geom_pos", m->geom_pos, 3 * m->ngeom, 1); pa("geom_quat", m->geom_quat, 4 * m->ngeom, 1);
  pi("geom_bodyid", m->geom_bodyid, m->ngeom, 1); pi("geom_condim", m->geom_condim, m->ngeom, 1);
  pa("geom_friction", m->geom_friction, 3 * m->ngeom, 1); pa("geom_solref", m->geom_solref, mjNREF * m->ngeom, 1);
  pa("geom_solimp", m->geom_solimp, mjNIMP * m->ngeom, 1); pa("geom_margin", m->geom_margin, m->ngeom, 1);
  pa("geom_gap", m->geom_gap, m->ngeom, 1);
  pa("actuator_gainprm", m->actuator_gainprm, mjNGAIN * m->nu, 1); pa("actuator_biasprm", m->actuator_biasprm, mjNBIAS * m->nu, 1);
  pa("actuator_gear", m->actuator_gear, 6 * m->nu, 1); pi("actuator_trnid", m->actuator_trnid, 2 * m->nu, 1);
  pa("site_pos", m->site_pos, 3 * m->nsite, 1); pi("site_bodyid", m->site_bodyid, m->nsite, 1);
  pa("tendon_stiffness", m->tendon_stiffness, m->ntendon, 1); pa("tendon_damping", m->tendon_damping, m->ntendon, 1);
  pa("tendon_lengthspring", m->tendon_lengthspring, 2 * m->ntendon, 1);
  pa("jnt_solref", m->jnt_solref, mjNREF * m->njnt, 1); pa("jnt_solimp", m->jnt_solimp, mjNIMP * m->njnt, 1);
  pa("dof_solref", m->dof_solref, mjNREF * m->nv, 1); pa("dof_solimp", m->dof_solimp, mjNIMP * m->nv, 1);
  pa("eq_solref", m->eq_solref, mjNREF * m->neq, 1); pa("eq_solimp", m->eq_solimp, mjNIMP * m->neq, 1);
  pa("eq_data", m->eq_data, mjNEQDATA * m->neq, 1);
  pi("sensor_type", m->sensor_type, m->nsensor, 1); pi("sensor_objtype", m->sensor_objtype, m->nsensor, 1); pi("sensor_objid", m->sensor_objid, m->nsensor, 1);
  pi("sensor_reftype", m->sensor_reftype, m->nsensor, 1); pi("sensor_refid", m->sensor_refid, m->nsensor, 1); pi("sensor_adr", m->sensor_adr, m->nsensor, 1);
  pi("sensor_dim", m->sensor_dim, m->nsensor, 1);
  pa("body_gravcomp", m->body_gravcomp, m->nbody, 1); pbl("jnt_actgravcomp", m->jnt_actgravcomp, m->njnt, 1);
  pbl("jnt_actfrclimited", m->jnt_actfrclimited, m->njnt, 1); pa("jnt_actfrcrange", m->jnt_actfrcrange, 2 * m->njnt, 1);
  pbl("actuator_ctrllimited", m->actuator_ctrllimited, m->nu, 1); pa("actuator_ctrlrange", m->actuator_ctrlrange, 2 * m->nu, 1);
  pbl("actuator_forcelimited", m->actuator_forcelimited, m->nu, 1); pa("actuator_forcerange", m->actuator_forcerange, 2 * m->nu, 0);
  printf("},");
}

static void dump_state(const mjModel* m, mjData* d, const mjtNum* qpos, const mjtNum* qvel, const mjtNum* ctrl) {
  int nv = (int)m->nv;
  mj_resetData(m, d);
  mju_copy(d->qpos, qpos, m->nq); mju_copy(d->qvel, qvel, nv); mju_copy(d->ctrl, ctrl, m->nu);
  mj_forward(m, d);
  printf("{");
  pa("xpos", d->xpos, 3 * m->nbody, 1); pa("xquat", d->xquat, 4 * m->nbody, 1); pa("xipos", d->xipos, 3 * m->nbody, 1);
  pa("qfrc_bias", d->qfrc_bias, nv, 1); pa("qfrc_passive", d->qfrc_passive, nv, 1); pa("qfrc_actuator", d->qfrc_actuator, nv, 1);
  pa("qacc", d->qacc, nv, 1); pa("qacc_smooth", d->qacc_smooth, nv, 1); pa("qfrc_constraint", d->qfrc_constraint, nv, 1);
  pa("actuator_force", d->actuator_force, m->nu, 1); pa("qfrc_gravcomp", d->qfrc_gravcomp, nv, 1);
  pa("ten_length", d->ten_length, m->ntendon, 1); pa("sensordata", d->sensordata, m->nsensordata, 1);
  mjtNum* qM = (mjtNum*)calloc((size_t)nv * nv + 1, sizeof(mjtNum));
  mj_fullM(m, d, qM);
  pa("qM", qM, nv * nv, 1);
  free(qM);
  printf("\"contact\":[");
  for (int i = 0; i < d->ncon; i++) {
    const mjContact* c = d->contact + i;
    printf("%s{\"dist\":%.17g,", i ? "," : "", c->dist);
    pa("pos", c->pos, 3, 1); pa("frame", c->frame, 9, 1);
    printf("\"geom\":[%d,%d],\"dim\":%d,\"efc_address\":%d,\"exclude\":%d,\"includemargin\":%.17g}", c->geom[0], c->geom[1], c->dim,
           c->efc_address, c->exclude, c->includemargin);
  }
  printf("],\"nefc\":%d,\"ne\":%d,\"nf\":%d,\"nl\":%d,", d->nefc, d->ne, d->nf, d->nl);
  int nefc = d->nefc;
  mjtNum* J = (mjtNum*)calloc((size_t)nefc * nv + 1, sizeof(mjtNum));
  if (mj_isSparse(m)) mju_sparse2dense(J, d->efc_J, nefc, nv, d->efc_J_rownnz, d->efc_J_rowadr, d->efc_J_colind);
  else mju_copy(J, d->efc_J, nefc * nv);
  pa("efc_J", J, nefc * nv, 1);
  free(J);
  pi("efc_type", d->efc_type, nefc, 1); pi("efc_id", d->efc_id, nefc, 1);
  pa("efc_aref", d->efc_aref, nefc, 1); pa("efc_D", d->efc_D, nefc, 1); pa("efc_pos", d->efc_pos, nefc, 1);
  pa("efc_force", d->efc_force, nefc, 1);
  pa("efc_KBIP", d->efc_KBIP, 4 * nefc, 1); pa("efc_vel", d->efc_vel, nefc, 1); pa("efc_margin", d->efc_margin, nefc, 1);
  printf("\"solver_niter\":%d,", d->solver_niter[0]);
  // one step from the same state
  mj_resetData(m, d);
  mju_copy(d->qpos, qpos, m->nq); mju_copy(d->qvel, qvel, nv); mju_copy(d->ctrl, ctrl, m->nu);
  mj_step(m, d);
  pa("next_qpos", d->qpos, m->nq, 1); pa("next_qvel", d->qvel, nv, 1); pa("next_act", d->act, m->na, 0);
  printf("}");
}

int main(void) {
  mjg_install_handlers();
  char* line = NULL; size_t cap = 0;
  mjSpec* s = NULL; mjModel* m = NULL; mjData* d = NULL;
  mjsBody* bodies[MAXB]; int nb = 0; mjsBody* cur = NULL; int njnt = 0, nact = 0, nstate = 0, failed = 0, ntend = 0, nsens = 0;
  while (getline(&line, &cap, stdin) > 0) {
    char* p = line;
    char kw[32]; int off = 0;
    if (sscanf(p, "%31s%n", kw, &off) != 1) continue;
    p += off;
    if (!strcmp(kw, "MODEL")) {
      s = mj_makeSpec(); nb = 0; cur = NULL; njnt = 0; nact = 0; nstate = 0; failed = 0; ntend = 0; nsens = 0; m = NULL; d = NULL;
      s->compiler.degree = 0;
      s->option.jacobian = mjJAC_DENSE;
    } else if (!strcmp(kw, "opt")) {
      s->option.timestep = strtod(p, &p);
      for (int i = 0; i < 3; i++) s->option.gravity[i] = strtod(p, &p);
      s->option.cone = (int)strtol(p, &p, 10); s->option.integrator = (int)strtol(p, &p, 10);
      s->option.solver = (int)strtol(p, &p, 10); s->option.iterations = (int)strtol(p, &p, 10);
      s->option.impratio = strtod(p, &p); s->option.tolerance = strtod(p, &p);
      s->option.disableflags = (int)strtol(p, &p, 10);
    } else if (!strcmp(kw, "body")) {
      int parent = (int)strtol(p, &p, 10);
      mjsBody* par = parent < 0 ? mjs_findBody(s, "world") : bodies[parent];
      cur = mjs_addBody(par, NULL);
      mjg_name(cur->element, "b", nb);
      if (nb < MAXB) bodies[nb++] = cur;
      for (int i = 0; i < 3; i++) cur->pos[i] = strtod(p, &p);
      for (int i = 0; i < 4; i++) cur->quat[i] = strtod(p, &p);
      { char* q = p; while (*q == ' ') q++; if (*q && *q != '\n') cur->gravcomp = strtod(p, &p); }
    } else if (!strcmp(kw, "joint")) {
      mjsJoint* j = mjs_addJoint(cur, NULL);
      mjg_name(j->element, "j", njnt++);
      j->type = (mjtJoint)strtol(p, &p, 10);
      for (int i = 0; i < 3; i++) j->axis[i] = strtod(p, &p);
      for (int i = 0; i < 3; i++) j->pos[i] = strtod(p, &p);
      j->damping[0] = strtod(p, &p); j->stiffness[0] = strtod(p, &p); j->armature = strtod(p, &p);
      int lim = (int)strtol(p, &p, 10);
      j->limited = lim ? mjLIMITED_TRUE : mjLIMITED_FALSE;
      j->range[0] = strtod(p, &p); j->range[1] = strtod(p, &p);
      j->springref = strtod(p, &p);
      { char* q = p; while (*q == ' ') q++;
        if (*q && *q != '\n') {
          j->frictionloss = strtod(p, &p);
          for (int i = 0; i < mjNREF; i++) j->solref_limit[i] = strtod(p, &p);
          for (int i = 0; i < mjNIMP; i++) j->solimp_limit[i] = strtod(p, &p);
          for (int i = 0; i < mjNREF; i++) j->solref_friction[i] = strtod(p, &p);
          for (int i = 0; i < mjNIMP; i++) j->solimp_friction[i] = strtod(p, &p);
          char* q2 = p; while (*q2 == ' ') q2++;
          if (*q2 && *q2 != '\n') {
            j->actgravcomp = (mjtBool)strtol(p, &p, 10);
            j->actfrclimited = strtol(p, &p, 10) ? mjLIMITED_TRUE : mjLIMITED_FALSE;
            j->actfrcrange[0] = strtod(p, &p); j->actfrcrange[1] = strtod(p, &p);
          }
        } }
    } else if (!strcmp(kw, "geom")) {
      read_geom(mjs_addGeom(cur, NULL), p);
    } else if (!strcmp(kw, "wgeom")) {
      read_geom(mjs_addGeom(mjs_findBody(s, "world"), NULL), p);
    } else if (!strcmp(kw, "site") || !strcmp(kw, "wsite")) {
      char nm[32]; int o2 = 0; sscanf(p, "%31s%n", nm, &o2); p += o2;
      mjsSite* st = mjs_addSite(!strcmp(kw, "site") ? cur : mjs_findBody(s, "world"), NULL);
      mjs_setName(st->element, nm);
      for (int i = 0; i < 3; i++) st->pos[i] = strtod(p, &p);
    } else if (!strcmp(kw, "tendon")) {
      mjsTendon* t = mjs_addTendon(s, NULL); mjg_name(t->element, "t", ntend++);
      t->stiffness[0] = strtod(p, &p); t->damping[0] = strtod(p, &p);
      t->springlength[0] = strtod(p, &p); t->springlength[1] = strtod(p, &p);
      int nw = (int)strtol(p, &p, 10);
      for (int k = 0; k < nw; k++) {
        int kind = (int)strtol(p, &p, 10); int ref = (int)strtol(p, &p, 10); double coef = strtod(p, &p);
        char nm[32]; snprintf(nm, sizeof(nm), kind == 0 ? "j%d" : "s%d", ref);
        if (kind == 0) mjs_wrapJoint(t, nm, coef); else mjs_wrapSite(t, nm);
      }
    } else if (!strcmp(kw, "eq")) {
      int kind = (int)strtol(p, &p, 10);
      mjsEquality* e = mjs_addEquality(s, NULL);
      char nm[32];
      if (kind == 0) {
        int j1 = (int)strtol(p, &p, 10), j2 = (int)strtol(p, &p, 10);
        e->type = mjEQ_JOINT; e->objtype = mjOBJ_JOINT;
        snprintf(nm, sizeof(nm), "j%d", j1); mjs_setString(e->name1, nm);
        if (j2 >= 0) { snprintf(nm, sizeof(nm), "j%d", j2); mjs_setString(e->name2, nm); }
        for (int i = 0; i < 5; i++) e->data[i] = 0;
        e->data[0] = strtod(p, &p); e->data[1] = strtod(p, &p);
      } else {
        int b = (int)strtol(p, &p, 10);
        e->type = mjEQ_CONNECT; e->objtype = mjOBJ_BODY;
        snprintf(nm, sizeof(nm), "b%d", b); mjs_setString(e->name1, nm);
        for (int i = 0; i < 3; i++) e->data[i] = strtod(p, &p);
      }
      for (int i = 0; i < mjNREF; i++) e->solref[i] = strtod(p, &p);
      for (int i = 0; i < mjNIMP; i++) e->solimp[i] = strtod(p, &p);
    } else if (!strcmp(kw, "sensor")) {
      char tn[32], ot[32], on[32], rt[32], rn[32];
      if (sscanf(p, "%31s %31s %31s %31s %31s", tn, ot, on, rt, rn) == 5) {
        mjsSensor* sn = mjs_addSensor(s); mjg_name(sn->element, "sn", nsens++);
        int found = 0;
        for (int k = 0; SENS[k].name; k++) if (!strcmp(SENS[k].name, tn)) { sn->type = (mjtSensor)SENS[k].type; found = 1; }
        if (!found) { fprintf(stderr, "unknown sensor %s\n", tn); }
        sn->objtype = (mjtObj)objtype_of(ot);
        if (strcmp(on, "-")) mjs_setString(sn->objname, on);
        if (strcmp(rt, "none")) { sn->reftype = (mjtObj)objtype_of(rt); mjs_setString(sn->refname, rn); }
      }
    } else if (!strcmp(kw, "act")) {
      int ji = (int)strtol(p, &p, 10); int kind = (int)strtol(p, &p, 10);
      double gear = strtod(p, &p), kp = strtod(p, &p);
      mjsActuator* a = mjs_addActuator(s, NULL); mjg_name(a->element, "a", nact++);
      char tn[16]; snprintf(tn, sizeof(tn), "j%d", ji);
      a->trntype = mjTRN_JOINT; mjs_setString(a->target, tn);
      double kv = 0; int cl = 0, fl = 0; double cr[2] = {0, 0}, fr[2] = {0, 0};
      { char* q = p; while (*q == ' ') q++;
        if (*q && *q != '\n') {
          kv = strtod(p, &p); cl = (int)strtol(p, &p, 10); cr[0] = strtod(p, &p); cr[1] = strtod(p, &p);
          fl = (int)strtol(p, &p, 10); fr[0] = strtod(p, &p); fr[1] = strtod(p, &p);
        } }
      if (kind == 0) mjs_setToMotor(a);
      else if (kind == 1) { double kvv = kv; mjs_setToPosition(a, kp, &kvv, NULL, NULL, 0); }
      else mjs_setToVelocity(a, kv);
      a->gear[0] = gear;
      a->ctrllimited = cl ? mjLIMITED_TRUE : mjLIMITED_FALSE; a->ctrlrange[0] = cr[0]; a->ctrlrange[1] = cr[1];
      a->forcelimited = fl ? mjLIMITED_TRUE : mjLIMITED_FALSE; a->forcerange[0] = fr[0]; a->forcerange[1] = fr[1];
    } else if (!strcmp(kw, "END")) {
      printf("{");
      if (MJG_TRY) { m = mj_compile(s, NULL); MJG_END; } else m = NULL;
      if (!m) {
        printf("\"error\":\"compile: %.200s\",", mjs_getError(s));
        failed = 1;
      } else {
        d = mj_makeData(m);
        dump_model(m);
      }
      printf("\"states\":[");
    } else if (!strcmp(kw, "STATE")) {
      if (failed || !m) continue;
      int nq = (int)strtol(p, &p, 10);
      mjtNum* qpos = (mjtNum*)calloc(nq + 1, sizeof(mjtNum));
      for (int i = 0; i < nq; i++) qpos[i] = strtod(p, &p);
      int nv = (int)strtol(p, &p, 10);
      mjtNum* qvel = (mjtNum*)calloc(nv + 1, sizeof(mjtNum));
      for (int i = 0; i < nv; i++) qvel[i] = strtod(p, &p);
      int nu = (int)strtol(p, &p, 10);
      mjtNum* ctrl = (mjtNum*)calloc(nu + 1, sizeof(mjtNum));
      for (int i = 0; i < nu; i++) ctrl[i] = strtod(p, &p);
      if (nstate++) printf(",");
      if (nq != m->nq || nv != m->nv || nu != m->nu) printf("{\"error\":\"state dimensions %d %d %d vs model %d %d %d\"}", nq, nv, nu, (int)m->nq, (int)m->nv, (int)m->nu);
      else if (MJG_TRY) { dump_state(m, d, qpos, qvel, ctrl); MJG_END; }
      else printf("\"error\":\"%.200s\"}", mjg_last_error);
      free(qpos); free(qvel); free(ctrl);
    } else if (!strcmp(kw, "DONE")) {
      printf("]}\n");
      fflush(stdout);
      if (d) mj_deleteData(d);
      if (m) mj_deleteModel(m);
      if (s) mj_deleteSpec(s);
      s = NULL; m = NULL; d = NULL;
    }
  }
  return 0;
}
