// C15 driver (Minkowski-difference support): includes the working tree's engine_collision_gjk.c so
// that the static functions support() / gjkSupport() are reachable; the per-shape support functions
// come from the library through mjc_initCCDObj.
//
//   MINK t1 mat1[9] pos1[3] size1[3] margin1 t2 mat2[9] pos2[3] size2[3] margin2 dir[3]
//        -> "vert[3] vert1[3] vert2[3]"  of support(&v, &obj1, &obj2, dir, -dir)   (gjkIntersectSupport)
//   GJKS t1 ... margin2 x_k[3] x_norm
//        -> the same for gjkSupport(&v, &obj1, &obj2, x_k, x_norm)
#include <math.h>
#include <stdio.h>
#include <stdlib.h>
#include <string.h>

#include <mujoco/mujoco.h>
#include "mjgen.h"
#include "engine/engine_collision_gjk.c"

static int rd(double* x, int n) {
  for (int i = 0; i < n; i++) {
    char tok[128];
    if (scanf("%127s", tok) != 1) return 0;
    if (!strcmp(tok, "nan")) x[i] = NAN;
    else if (!strcmp(tok, "inf")) x[i] = INFINITY;
    else if (!strcmp(tok, "-inf")) x[i] = -INFINITY;
    else x[i] = strtod(tok, NULL);
  }
  return 1;
}
static void pr(const double* x, int n) { for (int i = 0; i < n; i++) printf(" %a", x[i]); }

static mjModel* M = NULL;
static mjData* D = NULL;

// two geoms of every convex primitive type: index 2*k and 2*k+1
static const int TYPES[5] = {mjGEOM_SPHERE, mjGEOM_CAPSULE, mjGEOM_ELLIPSOID, mjGEOM_CYLINDER, mjGEOM_BOX};
static void build(void) {
  mjSpec* s = mj_makeSpec();
  mjsBody* world = mjs_findBody(s, "world");
  for (int i = 0; i < 10; i++) {
    mjsBody* b = mjs_addBody(world, NULL);
    b->pos[0] = i;
    mjsJoint* j = mjs_addJoint(b, NULL); j->type = mjJNT_FREE;
    mjsGeom* g = mjs_addGeom(b, NULL); g->type = (mjtGeom)TYPES[i / 2];
    g->size[0] = 0.1; g->size[1] = 0.2; g->size[2] = 0.3;
  }
  M = mj_compile(s, NULL);
  if (!M) { fprintf(stderr, "c15: compile failed: %s\n", mjs_getError(s)); exit(3); }
  mj_deleteSpec(s);
  D = mj_makeData(M);
  mj_kinematics(M, D);
}
static int geom_of(int type, int which) {
  for (int k = 0; k < 5; k++) if (TYPES[k] == type) return 2 * k + which;
  return -1;
}
static int read_obj(mjCCDObj* obj, int which) {
  int type; double a[16];
  if (scanf("%d", &type) != 1 || !rd(a, 16)) exit(2);
  int g = geom_of(type, which);
  if (g < 0) return 0;
  memcpy(D->geom_xmat + 9 * g, a, 9 * sizeof(double));
  memcpy(D->geom_xpos + 3 * g, a + 9, 3 * sizeof(double));
  memcpy(M->geom_size + 3 * g, a + 12, 3 * sizeof(double));
  mjc_initCCDObj(obj, M, D, g, a[15]);
  return obj->support != NULL;
}

static void run(int mode) {
  mjCCDObj o1, o2;
  int ok1 = read_obj(&o1, 0), ok2 = read_obj(&o2, 1);
  double x[4];
  if (!rd(x, mode == 0 ? 3 : 4)) exit(2);
  if (!ok1 || !ok2) { printf("ERR\n"); return; }
  Vertex v;
  memset(&v, 0, sizeof(v));
  if (mode == 0) gjkIntersectSupport(&v, &o1, &o2, x);
  else gjkSupport(&v, &o1, &o2, x, x[3]);
  pr(v.vert, 3); pr(v.vert1, 3); pr(v.vert2, 3); printf("\n");
}

int main(void) {
  mjg_install_handlers();
  build();
  char cmd[32];
  while (scanf("%31s", cmd) == 1) {
    if (!strcmp(cmd, "MINK")) run(0);
    else if (!strcmp(cmd, "GJKS")) run(1);
    else { fprintf(stderr, "c15: unknown command %s\n", cmd); return 2; }
  }
  return 0;
}
