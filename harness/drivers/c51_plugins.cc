// C51 driver: the first-party PID actuator plugin and cable elasticity plugin of the working tree,
// compiled into this translation unit (so that the file-local LocalStress is reachable) and
// registered by calling their RegisterPlugin functions.  Models are built through the mjSpec C API.
//
// stdin (whitespace separated tokens, doubles as hex or decimal):
//   PIDMODEL h nj nact ninst
//     ninst x : nattr (key value)*                      plugin instance "pid<k>" with string attributes
//     nj    x : type(2 slide | 3 hinge)
//     nact  x : joint gear inst(-1 native) dyntype actdim ctrllimited clo chi actlimited alo ahi
//               actearly tau gain0 bias0 bias1 bias2
//     then commands:
//       FWD time qpos[nq] qvel[nv] ctrl[nu] act[na]   -> state set, mj_forward, then per plugin
//            instance: act_dot filled with canaries, actuator_act_dot callback, force filled with
//            canaries, compute callback
//       TRAJ nsteps qpos[nq] qvel[nv] act[na] (ctrl[nu])*nsteps   -> mj_step loop from time 0; `warn` is the
//            number of engine warnings raised by the step (a bad-state warning resets the data)
//       END
//   CABLEMODEL n flat twist bend firstjoint(0 none|1 ball|2 free) geomtype(0 capsule|1 box|2 cylinder)
//              otherfirst
//     n x : pos[3] quat[4] size[3] npre (type(2 slide|3 hinge) ref)*npre    scalar joints in front of the ball joint
//     then commands:  REST | STATE qpos[nq] | END
//   LS k[4] q[4] w0[3] pullback        direct call of LocalStress
//   QUIT
#include <csetjmp>
#include <cstdio>
#include <cstdlib>
#include <cstring>
#include <map>
#include <string>
#include <vector>

#include <mujoco/mujoco.h>

#include "plugin/actuator/pid.cc"
#include "plugin/elasticity/cable.cc"

static std::jmp_buf g_jb;
static int g_armed = 0;
static char g_err[512];
static int g_nwarn = 0;
static char g_warn[512];
static void on_error(const char* msg) {
  snprintf(g_err, sizeof(g_err), "%s", msg);
  if (g_armed) std::longjmp(g_jb, 1);
  fprintf(stderr, "uncaught mujoco error: %s\n", msg);
  exit(3);
}
static void on_warning(const char* msg) { g_nwarn++; snprintf(g_warn, sizeof(g_warn), "%s", msg); }

static std::string rs() {
  char buf[256];
  if (scanf("%255s", buf) != 1) exit(0);
  return buf;
}
static double rdbl() { std::string s = rs(); return strtod(s.c_str(), nullptr); }
static int rint() { std::string s = rs(); return atoi(s.c_str()); }
static void pv(const mjtNum* x, int n) { for (int i = 0; i < n; i++) printf(" %a", x[i]); }
static void pi_(const int* x, int n) { for (int i = 0; i < n; i++) printf(" %d", x[i]); }

static void sanitize(char* s) { for (; *s; s++) if (*s == '\n' || *s == '\r') *s = ' '; }

using AttrMap = std::map<std::string, std::string, std::less<> >;

// ------------------------------------------------------------------------------------------ PID
struct ActSpec { int joint; double gear; int inst, dyntype, actdim, ctrllimited; double clo, chi; int actlimited;
                 double alo, ahi; int actearly; double tau, gain0, b0, b1, b2; };

static void skip_to_end() { for (;;) { std::string t = rs(); if (t == "END") return; } }

static void pid_section() {
  double h = rdbl();
  int nj = rint(), nact = rint(), ninst = rint();
  std::vector<AttrMap> attrs(ninst);
  for (int k = 0; k < ninst; k++) {
    int na = rint();
    for (int a = 0; a < na; a++) { std::string key = rs(); std::string val = rs(); attrs[k][key] = val; }
  }
  std::vector<int> jtype(nj);
  for (int j = 0; j < nj; j++) jtype[j] = rint();
  std::vector<ActSpec> acts(nact);
  for (int i = 0; i < nact; i++) {
    ActSpec& a = acts[i];
    a.joint = rint(); a.gear = rdbl(); a.inst = rint(); a.dyntype = rint(); a.actdim = rint();
    a.ctrllimited = rint(); a.clo = rdbl(); a.chi = rdbl(); a.actlimited = rint(); a.alo = rdbl(); a.ahi = rdbl();
    a.actearly = rint(); a.tau = rdbl(); a.gain0 = rdbl(); a.b0 = rdbl(); a.b1 = rdbl(); a.b2 = rdbl();
  }
  mjSpec* s = mj_makeSpec();
  s->option.timestep = h;
  mjs_activatePlugin(s, "mujoco.pid");
  mjsBody* parent = mjs_findBody(s, "world");
  char nm[64];
  for (int j = 0; j < nj; j++) {
    mjsBody* b = mjs_addBody(parent, NULL);
    b->pos[0] = 0.1 * (j + 1); b->pos[2] = 0.05 * j;
    mjsJoint* jn = mjs_addJoint(b, NULL);
    snprintf(nm, sizeof(nm), "j%d", j); mjs_setName(jn->element, nm);
    jn->type = jtype[j] == 2 ? mjJNT_SLIDE : mjJNT_HINGE;
    jn->axis[0] = (j % 2) ? 1 : 0; jn->axis[1] = (j % 2) ? 0 : 1; jn->axis[2] = 0.3;
    jn->armature = 2.0;              // keeps the explicit integration of stiff PID gains stable
    mjsGeom* g = mjs_addGeom(b, NULL); g->type = mjGEOM_SPHERE; g->size[0] = 0.05 + 0.01 * j;
    g->contype = 0; g->conaffinity = 0;
    if (j % 2 == 0) parent = b;    // a mixture of chain and siblings
  }
  for (int k = 0; k < ninst; k++) {
    mjsPlugin* p = mjs_addPlugin(s);
    mjs_setString(p->plugin_name, "mujoco.pid");
    snprintf(nm, sizeof(nm), "pid%d", k); mjs_setString(p->name, nm);
    AttrMap copy = attrs[k];
    mjs_setPluginAttributes(p, &copy);
  }
  for (int i = 0; i < nact; i++) {
    const ActSpec& a = acts[i];
    mjsActuator* ac = mjs_addActuator(s, NULL);
    snprintf(nm, sizeof(nm), "a%d", i); mjs_setName(ac->element, nm);
    ac->trntype = mjTRN_JOINT;
    snprintf(nm, sizeof(nm), "j%d", a.joint); mjs_setString(ac->target, nm);
    ac->gear[0] = a.gear;
    ac->dyntype = (mjtDyn)a.dyntype;
    ac->dynprm[0] = a.tau;
    ac->actdim = a.actdim;
    ac->actearly = a.actearly;
    if (a.ctrllimited) { ac->ctrllimited = mjLIMITED_TRUE; ac->ctrlrange[0] = a.clo; ac->ctrlrange[1] = a.chi; }
    if (a.actlimited) { ac->actlimited = mjLIMITED_TRUE; ac->actrange[0] = a.alo; ac->actrange[1] = a.ahi; }
    if (a.inst >= 0) {
      ac->plugin.active = 1;
      mjs_setString(ac->plugin.plugin_name, "mujoco.pid");
      snprintf(nm, sizeof(nm), "pid%d", a.inst); mjs_setString(ac->plugin.name, nm);
    } else {
      ac->gaintype = mjGAIN_FIXED; ac->gainprm[0] = a.gain0;
      ac->biastype = mjBIAS_AFFINE; ac->biasprm[0] = a.b0; ac->biasprm[1] = a.b1; ac->biasprm[2] = a.b2;
    }
  }
  mjModel* m = NULL;
  mjData* d = NULL;
  g_nwarn = 0;
  g_armed = 1;
  if (setjmp(g_jb) == 0) {
    m = mj_compile(s, NULL);
    if (!m) {
      char e[512]; snprintf(e, sizeof(e), "%s", mjs_getError(s)); sanitize(e);
      printf("MODEL ERR compile: %s\n", e);
      g_armed = 0; mj_deleteSpec(s); skip_to_end(); return;
    }
    d = mj_makeData(m);
  } else {
    sanitize(g_err); sanitize(g_warn);
    printf("MODEL ERR %s | warning: %s\n", g_err, g_nwarn ? g_warn : "");
    g_armed = 0;
    skip_to_end(); return;      // leaks the model; the process is short-lived
  }
  g_armed = 0;
  if (!d) { printf("MODEL ERR makeData returned null\n"); skip_to_end(); return; }
  int nu = m->nu, na = m->na, nq = m->nq, nv = m->nv;
  printf("MODEL OK nq %d nv %d nu %d na %d nplugin %d actadr", nq, nv, nu, na, m->nplugin);
  pi_(m->actuator_actadr, nu); printf(" actnum"); pi_(m->actuator_actnum, nu);
  printf(" plugin"); pi_(m->actuator_plugin, nu); printf("\n");
  int slot = -1;
  const mjpPlugin* plugin = mjp_getPlugin("mujoco.pid", &slot);
  for (;;) {
    std::string cmd = rs();
    if (cmd == "END") break;
    if (cmd == "FWD") {
      mj_resetData(m, d);
      d->time = rdbl();
      for (int i = 0; i < nq; i++) d->qpos[i] = rdbl();
      for (int i = 0; i < nv; i++) d->qvel[i] = rdbl();
      for (int i = 0; i < nu; i++) d->ctrl[i] = rdbl();
      for (int i = 0; i < na; i++) d->act[i] = rdbl();
      mj_forward(m, d);
      std::vector<mjtNum> eng_dot(d->act_dot, d->act_dot + na), eng_force(d->actuator_force, d->actuator_force + nu);
      printf("FWD length"); pv(d->actuator_length, nu); printf(" velocity"); pv(d->actuator_velocity, nu);
      printf(" act_dot"); pv(eng_dot.data(), na); printf(" force"); pv(eng_force.data(), nu); printf("\n");
      for (int k = 0; k < m->nplugin; k++) {
        // canaries everywhere, except the native activation slot (last of the slice) of plugin
        // actuators with native dynamics, which the engine computes and the plugin reads
        for (int j = 0; j < na; j++) d->act_dot[j] = 1000.5 + j;
        for (int i = 0; i < nu; i++) {
          int dt = m->actuator_dyntype[i];
          if (m->actuator_plugin[i] >= 0 && dt != mjDYN_NONE && m->actuator_actnum[i] > 0) {
            int last = m->actuator_actadr[i] + m->actuator_actnum[i] - 1;
            d->act_dot[last] = eng_dot[last];
          }
        }
        std::vector<mjtNum> act0(d->act, d->act + na), ctrl0(d->ctrl, d->ctrl + nu), qpos0(d->qpos, d->qpos + nq),
            qvel0(d->qvel, d->qvel + nv), len0(d->actuator_length, d->actuator_length + nu),
            qfa0(d->qfrc_actuator, d->qfrc_actuator + nv);
        mjtNum time0 = d->time;
        printf("INST %d dot_in", k); pv(d->act_dot, na);
        plugin->actuator_act_dot(m, d, k);
        printf(" dot_out"); pv(d->act_dot, na);
        for (int i = 0; i < nu; i++) d->actuator_force[i] = 2000.5 + i;
        printf(" force_in"); pv(d->actuator_force, nu);
        plugin->compute(m, d, k, mjPLUGIN_ACTUATOR);
        printf(" force_out"); pv(d->actuator_force, nu);
        int same = !memcmp(act0.data(), d->act, na * sizeof(mjtNum)) && !memcmp(ctrl0.data(), d->ctrl, nu * sizeof(mjtNum)) &&
                   !memcmp(qpos0.data(), d->qpos, nq * sizeof(mjtNum)) && !memcmp(qvel0.data(), d->qvel, nv * sizeof(mjtNum)) &&
                   !memcmp(len0.data(), d->actuator_length, nu * sizeof(mjtNum)) &&
                   !memcmp(qfa0.data(), d->qfrc_actuator, nv * sizeof(mjtNum)) && time0 == d->time;
        printf(" untouched %d\n", same);
      }
    } else if (cmd == "TRAJ") {
      int nsteps = rint();
      mj_resetData(m, d);
      for (int i = 0; i < nq; i++) d->qpos[i] = rdbl();
      for (int i = 0; i < nv; i++) d->qvel[i] = rdbl();
      for (int i = 0; i < na; i++) d->act[i] = rdbl();
      for (int t = 0; t < nsteps; t++) {
        for (int i = 0; i < nu; i++) d->ctrl[i] = rdbl();
        std::vector<mjtNum> act0(d->act, d->act + na);
        mjtNum time0 = d->time;
        int nw0 = 0, nw1 = 0;
        for (int w = 0; w < mjNWARNING; w++) nw0 += d->warning[w].number;
        mj_step(m, d);
        for (int w = 0; w < mjNWARNING; w++) nw1 += d->warning[w].number;
        printf("STEP warn %d time %a act", nw1 - nw0, time0); pv(act0.data(), na); printf(" length"); pv(d->actuator_length, nu);
        printf(" velocity"); pv(d->actuator_velocity, nu); printf(" act_dot"); pv(d->act_dot, na);
        printf(" force"); pv(d->actuator_force, nu); printf(" act_next"); pv(d->act, na); printf("\n");
      }
    } else {
      fprintf(stderr, "bad PID command %s\n", cmd.c_str()); exit(2);
    }
  }
  mj_deleteData(d);
  mj_deleteModel(m);
  mj_deleteSpec(s);
}

// ---------------------------------------------------------------------------------------- cable
static void cable_section() {
  int n = rint();
  std::string flat = rs(), twist = rs(), bend = rs();
  int firstjoint = rint(), geomtype = rint(), otherfirst = rint();
  mjSpec* s = mj_makeSpec();
  mjs_activatePlugin(s, "mujoco.elasticity.cable");
  mjsPlugin* p = mjs_addPlugin(s);
  mjs_setString(p->plugin_name, "mujoco.elasticity.cable");
  mjs_setString(p->name, "cab");
  AttrMap am; am["flat"] = flat; am["twist"] = twist; am["bend"] = bend; am["vmax"] = "0";
  mjs_setPluginAttributes(p, &am);
  mjsBody* world = mjs_findBody(s, "world");
  auto add_other = [&]() {
    mjsBody* o = mjs_addBody(world, NULL); mjs_setName(o->element, "other");
    o->pos[1] = 1.0;
    mjsJoint* j = mjs_addJoint(o, NULL); j->type = mjJNT_HINGE; j->axis[0] = 1; j->axis[1] = 0; j->axis[2] = 0;
    mjsGeom* g = mjs_addGeom(o, NULL); g->type = mjGEOM_SPHERE; g->size[0] = 0.05; g->contype = 0; g->conaffinity = 0;
  };
  if (otherfirst) add_other();
  mjsBody* parent = world;
  for (int b = 0; b < n; b++) {
    mjsBody* body = mjs_addBody(parent, NULL);
    for (int i = 0; i < 3; i++) body->pos[i] = rdbl();
    for (int i = 0; i < 4; i++) body->quat[i] = rdbl();
    double size[3]; for (int i = 0; i < 3; i++) size[i] = rdbl();
    // scalar joints in front of the rotational joint (extensible / hinged segments): type (2 slide | 3 hinge) and ref
    int npre = rint();
    for (int k = 0; k < npre; k++) {
      int pt = rint(); double ref = rdbl();
      mjsJoint* pj = mjs_addJoint(body, NULL); pj->type = pt == 2 ? mjJNT_SLIDE : mjJNT_HINGE;
      pj->axis[0] = pt == 2 ? 1 : 0; pj->axis[1] = pt == 2 ? 0 : 1; pj->axis[2] = 0; pj->ref = ref;
    }
    int jt = (b == 0) ? firstjoint : 1;
    if (jt && !(jt == 2 && npre)) { mjsJoint* j = mjs_addJoint(body, NULL); j->type = jt == 1 ? mjJNT_BALL : mjJNT_FREE; }
    mjsGeom* g = mjs_addGeom(body, NULL);
    g->type = geomtype == 0 ? mjGEOM_CAPSULE : geomtype == 1 ? mjGEOM_BOX : mjGEOM_CYLINDER;
    for (int i = 0; i < 3; i++) g->size[i] = size[i];
    g->contype = 0; g->conaffinity = 0;
    body->plugin.active = 1;
    mjs_setString(body->plugin.plugin_name, "mujoco.elasticity.cable");
    mjs_setString(body->plugin.name, "cab");
    parent = body;
  }
  if (!otherfirst) add_other();
  mjModel* m = NULL;
  mjData* d = NULL;
  g_nwarn = 0;
  g_armed = 1;
  if (setjmp(g_jb) == 0) {
    m = mj_compile(s, NULL);
    if (!m) {
      char e[512]; snprintf(e, sizeof(e), "%s", mjs_getError(s)); sanitize(e);
      printf("MODEL ERR compile: %s\n", e);
      g_armed = 0; mj_deleteSpec(s); skip_to_end(); return;
    }
    d = mj_makeData(m);
  } else {
    sanitize(g_err);
    printf("MODEL ERR %s\n", g_err);
    g_armed = 0; skip_to_end(); return;
  }
  g_armed = 0;
  if (!d) { printf("MODEL ERR makeData returned null\n"); skip_to_end(); return; }
  int nq = m->nq, nv = m->nv;
  using mujoco::plugin::elasticity::Cable;
  Cable* cab = reinterpret_cast<Cable*>(d->plugin_data[0]);
  printf("MODEL OK nq %d nv %d nbody %d i0 %d n %d qpos0", nq, nv, m->nbody, cab->i0, cab->n); pv(m->qpos0, nq);
  printf(" stiffness"); pv(cab->stiffness.data(), 4 * cab->n); printf(" omega0"); pv(cab->omega0.data(), 3 * cab->n); printf("\n");
  for (;;) {
    std::string cmd = rs();
    if (cmd == "END") break;
    if (cmd == "REST" || cmd == "STATE") {
      mj_resetData(m, d);
      if (cmd == "STATE") for (int i = 0; i < nq; i++) d->qpos[i] = rdbl();
      mj_forward(m, d);
      printf("%s qfrc", cmd.c_str()); pv(d->qfrc_passive, nv); printf("\n");
      std::vector<mjtNum> jacr(3 * nv);
      for (int b = 0; b < cab->n; b++) {
        int i = cab->i0 + b;
        mjtNum jq[4] = {1, 0, 0, 0}, q0[4] = {1, 0, 0, 0};
        // the rotational joint of the body, located by type (not by the plugin's address arithmetic)
        for (int j = m->body_jntadr[i]; j >= 0 && j < m->body_jntadr[i] + m->body_jntnum[i]; j++) {
          if (m->jnt_type[j] != mjJNT_BALL && m->jnt_type[j] != mjJNT_FREE) continue;
          int qadr = m->jnt_qposadr[j] + (m->jnt_type[j] == mjJNT_FREE ? 3 : 0);
          mju_copy4(jq, d->qpos + qadr); mju_copy4(q0, m->qpos0 + qadr);
        }
        mj_jacBody(m, d, NULL, jacr.data(), i);
        printf("B %d bq", b); pv(m->body_quat + 4 * i, 4); printf(" jq"); pv(jq, 4); printf(" q0"); pv(q0, 4);
        printf(" k"); pv(cab->stiffness.data() + 4 * b, 4); printf(" w0"); pv(cab->omega0.data() + 3 * b, 3);
        printf(" xq"); pv(d->xquat + 4 * i, 4); printf(" stress"); pv(cab->stress.data() + 3 * b, 3);
        printf(" jacr"); pv(jacr.data(), 3 * nv); printf("\n");
      }
    } else {
      fprintf(stderr, "bad cable command %s\n", cmd.c_str()); exit(2);
    }
  }
  mj_deleteData(d);
  mj_deleteModel(m);
  mj_deleteSpec(s);
}

int main() {
  mju_user_error = on_error;
  mju_user_warning = on_warning;
  mujoco::plugin::actuator::Pid::RegisterPlugin();
  mujoco::plugin::elasticity::Cable::RegisterPlugin();
  for (;;) {
    std::string t = rs();
    if (t == "QUIT") break;
    if (t == "PIDMODEL") pid_section();
    else if (t == "CABLEMODEL") cable_section();
    else if (t == "LS") {
      mjtNum k[4], q[4], w0[3], st[3];
      for (int i = 0; i < 4; i++) k[i] = rdbl();
      for (int i = 0; i < 4; i++) q[i] = rdbl();
      for (int i = 0; i < 3; i++) w0[i] = rdbl();
      int pullback = rint();
      mujoco::plugin::elasticity::LocalStress(st, k, q, w0, pullback != 0);
      printf("LS"); pv(st, 3); printf("\n");
    } else { fprintf(stderr, "bad section %s\n", t.c_str()); return 2; }
  }
  return 0;
}
