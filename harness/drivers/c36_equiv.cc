// C36 driver: equivalent model descriptions.  Numbers are C hex floats (or decimal).
// stdin, one request per line:
//   R <type 1 axisangle|2 xyaxes|3 zaxis|4 euler> <degree 0|1> <sequence|-> a...   -> mjs_resolveOrientation
//        "ok q0 q1 q2 q3" | "err <message>"
//   M <command>...                                                                  -> build a model through the mjSpec
//        C API, compile it, run mj_forward, record every body pose, run <n> steps, record again:
//        "ok <nbody> (<name> x0[3] q0[4] xN[3] qN[4])* G <ngeom> (<name> type size[3])* J <njnt> (<name> stiffness damping armature limited range[2] qpos0 qpos_spring)*
//            B <nbody> (<name> mass)*" | "err <message>"
//     commands (whitespace separated, executed in order):
//        spec <0|1>                                        following commands build spec 0 (main) or 1 (child, for attach)
//        opt <degree 0|1> <eulerseq> <fusestatic 0|1>
//        def <name> <parent|-> <k> (<attr> <val>)*k          attr: gtype gs0 gs1 gs2 gdens jdamp jarm jstiff jlo jhi jlim jref jsref
//        body <name> <parent body|world> <frame|-> <class|-> px py pz ORI
//        frame <name> <body> <parent frame|-> px py pz ORI
//        joint <name> <body> <class|-> <type 0 free|1 ball|2 slide|3 hinge> ax ay az <k> (<attr> <val>)*k   attr: damp arm stiff lo hi lim ref sref
//        geom <name> <body> <frame|-> <class|-> px py pz ORI <k> (<attr> <val>)*k     attr: type s0 s1 s2 dens
//        attach <frame of spec 0> <body of spec 1> <prefix>
//        attachx <parent spec> <frame> <child spec> <body> <prefix>      nested attachment (specs 0..7), executed in the order given
//        rt <edit> ... | presteps <n> | recompile           runtime-edit protocol (see run_setconst): spec 0 = base, spec 2 = edited spec
//        qvel <v>                                          initial velocity of every dof
//        sim <nsteps>
//     ORI: q w x y z | aa x y z angle | eu a b c | xy x0 x1 x2 y0 y1 y2 | z z0 z1 z2
#include <map>
#include <string>
#include <vector>
#include "mjgen.h"

typedef std::vector<std::string> Toks;
static Toks split(char* line) {
  Toks t;
  for (char* p = strtok(line, " \t\r\n"); p; p = strtok(NULL, " \t\r\n")) t.push_back(p);
  return t;
}
static double num(const std::string& s) { return strtod(s.c_str(), NULL); }

struct Ctx {
  mjSpec* s = NULL;
  std::map<std::string, mjsBody*> bodies;
  std::map<std::string, mjsFrame*> frames;
  std::map<std::string, mjsDefault*> defs;
};

struct Fail { std::string msg; };
static void need(bool c, const char* m) { if (!c) throw Fail{m}; }

// parse an orientation at t[i...]; writes quat / alt; returns number of tokens consumed
static size_t ori(const Toks& t, size_t i, double quat[4], mjsOrientation* alt) {
  need(i < t.size(), "orientation expected");
  const std::string& k = t[i];
  auto get = [&](size_t n, double* dst) { need(i + n < t.size(), "orientation numbers"); for (size_t j = 0; j < n; j++) dst[j] = num(t[i + 1 + j]); };
  if (k == "q") { get(4, quat); return 5; }
  if (k == "aa") { alt->type = mjORIENTATION_AXISANGLE; get(4, alt->axisangle); return 5; }
  if (k == "eu") { alt->type = mjORIENTATION_EULER; get(3, alt->euler); return 4; }
  if (k == "xy") { alt->type = mjORIENTATION_XYAXES; get(6, alt->xyaxes); return 7; }
  if (k == "z") { alt->type = mjORIENTATION_ZAXIS; get(3, alt->zaxis); return 4; }
  throw Fail{"unknown orientation kind " + k};
}

static const mjsDefault* finddef(Ctx& c, const std::string& n) {
  if (n == "-") return NULL;
  need(c.defs.count(n), "unknown default class");
  return c.defs[n];
}

// constants that mj_setConst derives (and the edited parameters themselves), in a fixed order
static void append_constants(std::string& r, const mjModel* m) {
  char buf[64];
  auto put = [&](double x) { snprintf(buf, sizeof buf, " %a", x); r += buf; };
  for (int b = 1; b < m->nbody; b++) {
    put(m->body_mass[b]); put(m->body_subtreemass[b]);
    for (int k = 0; k < 3; k++) put(m->body_inertia[3 * b + k]);
    for (int k = 0; k < 2; k++) put(m->body_invweight0[2 * b + k]);
    for (int k = 0; k < 3; k++) put(m->body_pos[3 * b + k]);
  }
  for (int v = 0; v < m->nv; v++) { put(m->dof_M0[v]); put(m->dof_invweight0[v]); put(m->dof_armature[v]); put(m->dof_damping[v]); }
  for (int q = 0; q < m->nq; q++) { put(m->qpos0[q]); put(m->qpos_spring[q]); }
  put(m->stat.meaninertia); put(m->stat.meanmass); put(m->stat.meansize); put(m->stat.extent);
  for (int k = 0; k < 3; k++) put(m->stat.center[k]);
}

// "editing a real-valued model parameter at runtime and calling mj_setConst matches recompiling the edited spec":
//   m1 = compile(base); simulate presteps (the data is then away from qpos0); save the state; apply the runtime edits to m1;
//   mj_setConst(m1, d1);  m2 = compile(edited spec);  both continue from the saved state for nsteps.
// output: "ok <nconst> A <constants of m1> B <constants of m2> C <constants of m1 after mj_resetData + mj_setConst again>
//          P <nbody> (<name> pose7 of m1 after the steps, pose7 of m2 after the steps)*"
static std::string run_setconst(mjSpec* base, mjSpec* edited, const std::vector<Toks>& edits, int presteps, int nsteps, double qvel0) {
  if (!base || !edited) throw Fail{"recompile needs spec 0 and spec 2"};
  mjModel* m1 = NULL; mjModel* m2 = NULL;
  if (MJG_TRY) { m1 = mj_compile(base, NULL); MJG_END; }
  if (!m1) throw Fail{std::string("compile base: ") + mjs_getError(base)};
  if (MJG_TRY) { m2 = mj_compile(edited, NULL); MJG_END; }
  if (!m2) { mj_deleteModel(m1); throw Fail{std::string("compile edited: ") + mjs_getError(edited)}; }
  if (m1->nq != m2->nq || m1->nv != m2->nv || m1->nbody != m2->nbody) { mj_deleteModel(m1); mj_deleteModel(m2); throw Fail{"edited spec has a different structure"}; }
  mjData* d1 = mj_makeData(m1); mjData* d2 = mj_makeData(m2);
  std::string r;
  bool ok = true;
  std::string emsg;
  if (MJG_TRY) {
    for (int k = 0; k < m1->nv; k++) d1->qvel[k] = qvel0;
    for (int k = 0; k < presteps; k++) mj_step(m1, d1);
    std::vector<double> qp(d1->qpos, d1->qpos + m1->nq), qv(d1->qvel, d1->qvel + m1->nv);
    for (const Toks& e : edits) {
      const std::string& k = e[0];
      if (k == "bmass" || k == "bpos") {
        int b = mj_name2id(m1, mjOBJ_BODY, e[1].c_str());
        if (b < 0) { emsg = "rt: unknown body " + e[1]; ok = false; break; }
        if (k == "bmass") { double sc = num(e[2]); m1->body_mass[b] *= sc; for (int j = 0; j < 3; j++) m1->body_inertia[3 * b + j] *= sc; }
        else for (int j = 0; j < 3; j++) m1->body_pos[3 * b + j] = num(e[2 + j]);
      } else {
        int jn = mj_name2id(m1, mjOBJ_JOINT, e[1].c_str());
        if (jn < 0) { emsg = "rt: unknown joint " + e[1]; ok = false; break; }
        int dof = m1->jnt_dofadr[jn], nd = m1->jnt_type[jn] == mjJNT_FREE ? 6 : m1->jnt_type[jn] == mjJNT_BALL ? 3 : 1;
        if (k == "jarm") for (int j = 0; j < nd; j++) m1->dof_armature[dof + j] = num(e[2]);
        else if (k == "jdamp") for (int j = 0; j < nd; j++) m1->dof_damping[dof + j] = num(e[2]);
        else if (k == "jsref") m1->qpos_spring[m1->jnt_qposadr[jn]] = num(e[2]);
        else { emsg = "rt: unknown edit " + k; ok = false; break; }
      }
    }
    if (ok) {
      mj_setConst(m1, d1);
      char buf[64];
      std::string a, b, c;
      append_constants(a, m1);
      append_constants(b, m2);
      // the derived constants must not depend on the state the scratch mjData happened to be in
      mj_resetData(m1, d1);
      mj_setConst(m1, d1);
      append_constants(c, m1);
      int nconst = 10 * (m1->nbody - 1) + 4 * m1->nv + 2 * m1->nq + 7;
      snprintf(buf, sizeof buf, "ok %d", nconst);
      r = buf; r += " A" + a + " B" + b + " C" + c;
      // continue both models from the saved state
      mj_resetData(m1, d1); mj_resetData(m2, d2);
      for (int k = 0; k < m1->nq; k++) { d1->qpos[k] = qp[k]; d2->qpos[k] = qp[k]; }
      for (int k = 0; k < m1->nv; k++) { d1->qvel[k] = qv[k]; d2->qvel[k] = qv[k]; }
      for (int k = 0; k < nsteps; k++) { mj_step(m1, d1); mj_step(m2, d2); }
      mj_forward(m1, d1); mj_forward(m2, d2);
      snprintf(buf, sizeof buf, " P %d", m1->nbody - 1); r += buf;
      for (int bb = 1; bb < m1->nbody; bb++) {
        const char* nm = mj_id2name(m1, mjOBJ_BODY, bb);
        r += " "; r += (nm && nm[0]) ? nm : "?";
        for (int k = 0; k < 3; k++) { snprintf(buf, sizeof buf, " %a", d1->xpos[3 * bb + k]); r += buf; }
        for (int k = 0; k < 4; k++) { snprintf(buf, sizeof buf, " %a", d1->xquat[4 * bb + k]); r += buf; }
        for (int k = 0; k < 3; k++) { snprintf(buf, sizeof buf, " %a", d2->xpos[3 * bb + k]); r += buf; }
        for (int k = 0; k < 4; k++) { snprintf(buf, sizeof buf, " %a", d2->xquat[4 * bb + k]); r += buf; }
      }
    }
    MJG_END;
  } else { ok = false; emsg = std::string("engine error: ") + mjg_last_error; }
  mj_deleteData(d1); mj_deleteData(d2); mj_deleteModel(m1); mj_deleteModel(m2);
  if (!ok) throw Fail{emsg};
  return r;
}

static void build_and_run(const Toks& t) {
  Ctx cs[8];
  for (int k = 1; k < 8; k++) cs[k].s = NULL;
  std::vector<Toks> rtedits;
  int presteps = 0;
  bool recompile = false;
  cs[0].s = mj_makeSpec();
  cs[1].s = NULL;
  Ctx* c = &cs[0];
  int nsteps = 0;
  double qvel0 = 0;
  std::string result;
  try {
    size_t i = 1;
    while (i < t.size()) {
      const std::string& cmd = t[i];
      if (cmd == "spec") {
        need(i + 1 < t.size(), "spec id");
        int id = atoi(t[i + 1].c_str());
        need(id >= 0 && id < 8, "spec id");
        if (!cs[id].s) cs[id].s = mj_makeSpec();
        c = &cs[id];
        i += 2;
      } else if (cmd == "opt") {
        need(i + 3 < t.size(), "opt");
        c->s->compiler.degree = atoi(t[i + 1].c_str());
        need(t[i + 2].size() == 3, "eulerseq");
        for (int k = 0; k < 3; k++) c->s->compiler.eulerseq[k] = t[i + 2][k];
        c->s->compiler.fusestatic = atoi(t[i + 3].c_str());
        i += 4;
      } else if (cmd == "def") {
        need(i + 3 < t.size(), "def");
        const std::string& name = t[i + 1];
        const mjsDefault* par = t[i + 2] == "-" ? mjs_getSpecDefault(c->s) : finddef(*c, t[i + 2]);
        mjsDefault* d = mjs_addDefault(c->s, name.c_str(), par);
        need(d != NULL, "mjs_addDefault failed");
        c->defs[name] = d;
        int k = atoi(t[i + 3].c_str());
        i += 4;
        for (int j = 0; j < k; j++, i += 2) {
          need(i + 1 < t.size(), "def attr");
          const std::string& a = t[i];
          double v = num(t[i + 1]);
          if (a == "gtype") d->geom->type = (mjtGeom)(int)v;
          else if (a == "gs0") d->geom->size[0] = v;
          else if (a == "gs1") d->geom->size[1] = v;
          else if (a == "gs2") d->geom->size[2] = v;
          else if (a == "gdens") d->geom->density = v;
          else if (a == "jdamp") d->joint->damping[0] = v;
          else if (a == "jarm") d->joint->armature = v;
          else if (a == "jstiff") d->joint->stiffness[0] = v;
          else if (a == "jlo") d->joint->range[0] = v;
          else if (a == "jhi") d->joint->range[1] = v;
          else if (a == "jlim") d->joint->limited = (mjtLimited)(int)v;
          else if (a == "jref") d->joint->ref = v;
          else if (a == "jsref") d->joint->springref = v;
          else throw Fail{"unknown def attr " + a};
        }
      } else if (cmd == "body") {
        need(i + 7 < t.size(), "body");
        const std::string& name = t[i + 1];
        mjsBody* par = t[i + 2] == "world" ? mjs_findBody(c->s, "world") : (c->bodies.count(t[i + 2]) ? c->bodies[t[i + 2]] : NULL);
        need(par != NULL, "unknown parent body");
        mjsBody* b = mjs_addBody(par, finddef(*c, t[i + 4]));
        mjs_setName(b->element, name.c_str());
        if (t[i + 3] != "-") { need(c->frames.count(t[i + 3]), "unknown frame"); need(mjs_setFrame(b->element, c->frames[t[i + 3]]) == 0, "mjs_setFrame"); }
        for (int k = 0; k < 3; k++) b->pos[k] = num(t[i + 5 + k]);
        i += 8;
        i += ori(t, i, b->quat, &b->alt);
        c->bodies[name] = b;
      } else if (cmd == "frame") {
        need(i + 6 < t.size(), "frame");
        const std::string& name = t[i + 1];
        mjsBody* body = t[i + 2] == "world" ? mjs_findBody(c->s, "world") : (c->bodies.count(t[i + 2]) ? c->bodies[t[i + 2]] : NULL);
        need(body != NULL, "unknown body of frame");
        mjsFrame* pf = NULL;
        if (t[i + 3] != "-") { need(c->frames.count(t[i + 3]), "unknown parent frame"); pf = c->frames[t[i + 3]]; }
        mjsFrame* f = mjs_addFrame(body, pf);
        mjs_setName(f->element, name.c_str());
        for (int k = 0; k < 3; k++) f->pos[k] = num(t[i + 4 + k]);
        i += 7;
        i += ori(t, i, f->quat, &f->alt);
        c->frames[name] = f;
      } else if (cmd == "joint") {
        need(i + 8 < t.size(), "joint");
        need(c->bodies.count(t[i + 2]), "unknown body of joint");
        mjsJoint* j = mjs_addJoint(c->bodies[t[i + 2]], finddef(*c, t[i + 3]));
        mjs_setName(j->element, t[i + 1].c_str());
        int ty = atoi(t[i + 4].c_str());
        j->type = ty == 0 ? mjJNT_FREE : ty == 1 ? mjJNT_BALL : ty == 2 ? mjJNT_SLIDE : mjJNT_HINGE;
        for (int k = 0; k < 3; k++) j->axis[k] = num(t[i + 5 + k]);
        int k = atoi(t[i + 8].c_str());
        i += 9;
        for (int jj = 0; jj < k; jj++, i += 2) {
          need(i + 1 < t.size(), "joint attr");
          const std::string& a = t[i];
          double v = num(t[i + 1]);
          if (a == "damp") j->damping[0] = v;
          else if (a == "arm") j->armature = v;
          else if (a == "stiff") j->stiffness[0] = v;
          else if (a == "lo") j->range[0] = v;
          else if (a == "hi") j->range[1] = v;
          else if (a == "lim") j->limited = (mjtLimited)(int)v;
          else if (a == "ref") j->ref = v;
          else if (a == "sref") j->springref = v;
          else throw Fail{"unknown joint attr " + a};
        }
      } else if (cmd == "geom") {
        need(i + 7 < t.size(), "geom");
        need(c->bodies.count(t[i + 2]), "unknown body of geom");
        mjsGeom* g = mjs_addGeom(c->bodies[t[i + 2]], finddef(*c, t[i + 4]));
        mjs_setName(g->element, t[i + 1].c_str());
        if (t[i + 3] != "-") { need(c->frames.count(t[i + 3]), "unknown frame"); need(mjs_setFrame(g->element, c->frames[t[i + 3]]) == 0, "mjs_setFrame"); }
        for (int k = 0; k < 3; k++) g->pos[k] = num(t[i + 5 + k]);
        g->contype = 0; g->conaffinity = 0;
        i += 8;
        i += ori(t, i, g->quat, &g->alt);
        need(i < t.size(), "geom attr count");
        int k = atoi(t[i].c_str());
        i += 1;
        for (int jj = 0; jj < k; jj++, i += 2) {
          need(i + 1 < t.size(), "geom attr");
          const std::string& a = t[i];
          double v = num(t[i + 1]);
          if (a == "type") g->type = (mjtGeom)(int)v;
          else if (a == "s0") g->size[0] = v;
          else if (a == "s1") g->size[1] = v;
          else if (a == "s2") g->size[2] = v;
          else if (a == "dens") g->density = v;
          else throw Fail{"unknown geom attr " + a};
        }
      } else if (cmd == "attach") {
        need(i + 3 < t.size(), "attach");
        need(cs[1].s != NULL, "no child spec");
        need(cs[0].frames.count(t[i + 1]), "unknown attach frame");
        need(cs[1].bodies.count(t[i + 2]), "unknown child body");
        mjsElement* r = mjs_attach(cs[0].frames[t[i + 1]]->element, cs[1].bodies[t[i + 2]]->element, t[i + 3].c_str(), "");
        if (!r) throw Fail{std::string("mjs_attach failed: ") + mjs_getError(cs[0].s)};
        i += 4;
      } else if (cmd == "attachx") {
        // attachx <parent spec> <frame of the parent spec> <child spec> <body of the child spec> <prefix>   (nested attachment)
        need(i + 5 < t.size(), "attachx");
        int ps = atoi(t[i + 1].c_str()), chs = atoi(t[i + 3].c_str());
        need(ps >= 0 && ps < 8 && chs >= 0 && chs < 8 && ps != chs && cs[ps].s && cs[chs].s, "attachx spec ids");
        need(cs[ps].frames.count(t[i + 2]), "unknown attach frame");
        need(cs[chs].bodies.count(t[i + 4]), "unknown child body");
        mjsElement* r = mjs_attach(cs[ps].frames[t[i + 2]]->element, cs[chs].bodies[t[i + 4]]->element, t[i + 5].c_str(), "");
        if (!r) throw Fail{std::string("mjs_attach failed: ") + mjs_getError(cs[ps].s)};
        i += 6;
      } else if (cmd == "rt") {
        // runtime edit of the compiled model: rt bmass <body> <scale> | rt bpos <body> x y z | rt jarm|jdamp|jsref <joint> <v>
        need(i + 3 < t.size(), "rt");
        size_t n = t[i + 1] == "bpos" ? 6 : 4;
        need(i + n <= t.size(), "rt args");
        rtedits.push_back(Toks(t.begin() + i + 1, t.begin() + i + n));
        i += n;
      } else if (cmd == "presteps") {
        need(i + 1 < t.size(), "presteps"); presteps = atoi(t[i + 1].c_str()); i += 2;
      } else if (cmd == "recompile") {
        recompile = true; i += 1;
      } else if (cmd == "qvel") {
        need(i + 1 < t.size(), "qvel"); qvel0 = num(t[i + 1]); i += 2;
      } else if (cmd == "sim") {
        need(i + 1 < t.size(), "sim"); nsteps = atoi(t[i + 1].c_str()); i += 2;
      } else {
        throw Fail{"unknown command " + cmd};
      }
    }
    if (recompile) {
      result = run_setconst(cs[0].s, cs[2].s, rtedits, presteps, nsteps, qvel0);
      for (int k = 7; k >= 0; k--) if (cs[k].s) { mj_deleteSpec(cs[k].s); cs[k].s = NULL; }
      printf("%s\n", result.c_str());
      return;
    }
    mjModel* m = NULL;
    if (MJG_TRY) { m = mj_compile(cs[0].s, NULL); MJG_END; }
    if (!m) {
      const char* e = mjs_getError(cs[0].s);
      throw Fail{std::string("compile: ") + (e && e[0] ? e : mjg_last_error)};
    }
    mjData* d = mj_makeData(m);
    bool ok = true;
    std::vector<double> x0(7 * m->nbody);
    if (MJG_TRY) {
      for (int k = 0; k < m->nv; k++) d->qvel[k] = qvel0;
      mj_forward(m, d);
      for (int b = 0; b < m->nbody; b++) { for (int k = 0; k < 3; k++) x0[7 * b + k] = d->xpos[3 * b + k]; for (int k = 0; k < 4; k++) x0[7 * b + 3 + k] = d->xquat[4 * b + k]; }
      for (int k = 0; k < nsteps; k++) mj_step(m, d);
      MJG_END;
    } else { ok = false; }
    if (!ok) { mj_deleteData(d); mj_deleteModel(m); throw Fail{std::string("simulation: ") + mjg_last_error}; }
    char buf[512];
    snprintf(buf, sizeof buf, "ok %d", m->nbody - 1);
    result = buf;
    for (int b = 1; b < m->nbody; b++) {
      const char* nm = mj_id2name(m, mjOBJ_BODY, b);
      result += " ";
      result += (nm && nm[0]) ? nm : "?";
      for (int k = 0; k < 7; k++) { snprintf(buf, sizeof buf, " %a", x0[7 * b + k]); result += buf; }
      for (int k = 0; k < 3; k++) { snprintf(buf, sizeof buf, " %a", d->xpos[3 * b + k]); result += buf; }
      for (int k = 0; k < 4; k++) { snprintf(buf, sizeof buf, " %a", d->xquat[4 * b + k]); result += buf; }
    }
    // compiled attribute values (for the default-class tie)
    snprintf(buf, sizeof buf, " G %d", (int)m->ngeom); result += buf;
    for (int g = 0; g < m->ngeom; g++) {
      const char* nm = mj_id2name(m, mjOBJ_GEOM, g);
      snprintf(buf, sizeof buf, " %s %d %a %a %a", (nm && nm[0]) ? nm : "?", (int)m->geom_type[g], m->geom_size[3 * g], m->geom_size[3 * g + 1], m->geom_size[3 * g + 2]);
      result += buf;
    }
    snprintf(buf, sizeof buf, " J %d", (int)m->njnt); result += buf;
    for (int j = 0; j < m->njnt; j++) {
      const char* nm = mj_id2name(m, mjOBJ_JOINT, j);
      int dof = m->jnt_dofadr[j];
      int qa = m->jnt_qposadr[j];
      snprintf(buf, sizeof buf, " %s %a %a %a %d %a %a %a %a", (nm && nm[0]) ? nm : "?", m->jnt_stiffness[j], m->dof_damping[dof], m->dof_armature[dof],
               (int)m->jnt_limited[j], m->jnt_range[2 * j], m->jnt_range[2 * j + 1], m->qpos0[qa], m->qpos_spring[qa]);
      result += buf;
    }
    snprintf(buf, sizeof buf, " B %d", (int)m->nbody - 1); result += buf;
    for (int b = 1; b < m->nbody; b++) {
      const char* nm = mj_id2name(m, mjOBJ_BODY, b);
      snprintf(buf, sizeof buf, " %s %a", (nm && nm[0]) ? nm : "?", m->body_mass[b]);
      result += buf;
    }
    mj_deleteData(d);
    mj_deleteModel(m);
  } catch (Fail& f) {
    result = "err " + f.msg;
    for (char& ch : result) if (ch == '\n' || ch == '\r') ch = ' ';
  }
  for (int k = 7; k >= 0; k--) if (cs[k].s) mj_deleteSpec(cs[k].s);
  printf("%s\n", result.c_str());
}

int main(void) {
  mjg_install_handlers();
  static char line[1 << 20];
  while (fgets(line, sizeof line, stdin)) {
    Toks t = split(line);
    if (t.empty()) { printf("err empty\n"); continue; }
    if (t[0] == "R") {
      if (t.size() < 4) { printf("err parse\n"); continue; }
      mjsOrientation o;
      memset(&o, 0, sizeof o);
      o.type = (mjtOrientation)atoi(t[1].c_str());
      int degree = atoi(t[2].c_str());
      std::string seq = t[3] == "-" ? "" : t[3];
      double* dst = o.type == mjORIENTATION_AXISANGLE ? o.axisangle : o.type == mjORIENTATION_XYAXES ? o.xyaxes : o.type == mjORIENTATION_ZAXIS ? o.zaxis : o.euler;
      int n = o.type == mjORIENTATION_AXISANGLE ? 4 : o.type == mjORIENTATION_XYAXES ? 6 : 3;
      if ((int)t.size() != 4 + n) { printf("err parse\n"); continue; }
      for (int k = 0; k < n; k++) dst[k] = num(t[4 + k]);
      double q[4] = {1, 0, 0, 0};
      char seqbuf[8] = {0, 0, 0, 0, 0, 0, 0, 0};
      snprintf(seqbuf, sizeof seqbuf, "%s", seq.c_str());
      const char* e = mjs_resolveOrientation(q, (mjtByte)degree, seqbuf, &o);
      if (e) printf("err %s\n", e);
      else printf("ok %a %a %a %a\n", q[0], q[1], q[2], q[3]);
    } else if (t[0] == "M") {
      build_and_run(t);
    } else {
      printf("err parse\n");
    }
    fflush(stdout);
  }
  return 0;
}
