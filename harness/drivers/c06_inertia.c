// C06 driver: dof-dof sparsity structure, inertia matrix, LTDL factorisation/solve, RNE.
// stdin : one request per line
//   sparse nv reduced upper  par[nv] simple[nv]           raw mj_makeDofDofSparse on a forest
//   factor nv par[nv] simple[nv] nC vals[nC] x[nv]        mj_factorI / mj_solveLD / mulM / fullM on raw values
//   model seed feat nbody flags                           compiled random tree (mjgen.h), random state
//        flags: 1 = give every tendon an armature, 2 = add simple bodies (free sphere / aligned sliders),
//               4 = add bodies with 2-3 joints in mixed hinge/slide order,
//               8 = add spatial tendons (sites, pulleys with divisor != 1, armature),
//              16 = add actuators with armature on scalar joints / tendons (several per target, gear != 1)
// stdout: one line per request, groups separated by '|', ints decimal, doubles %a
#include "mjgen.h"
#include "engine/engine_io.h"
#include "engine/engine_core_smooth.h"
#include "engine/engine_support.h"
#include "engine/engine_util_sparse.h"

static void pri(const int* x, int n) { for (int i = 0; i < n; i++) printf("%d ", x[i]); printf("| "); }
static void prd(const mjtNum* x, int n) { for (int i = 0; i < n; i++) printf("%a ", x[i]); printf("| "); }
static int rdi(int* x, int n) { for (int i = 0; i < n; i++) if (scanf("%d", x+i) != 1) return 0; return 1; }
static int rdd(mjtNum* x, int n) {
  for (int i = 0; i < n; i++) { char tok[128]; if (scanf("%127s", tok) != 1) return 0; x[i] = strtod(tok, NULL); }
  return 1;
}

#define MAXNV 400
static int par[MAXNV], simple[MAXNV], rownnz[MAXNV], rowadr[MAXNV], diag[MAXNV], remaining[MAXNV];
static int colind[MAXNV*MAXNV];
static mjtNum vals[MAXNV*MAXNV], vals2[MAXNV*MAXNV], vx[MAXNV], vy[MAXNV], dinv[MAXNV], dense[MAXNV*MAXNV];

static void counts(int nv, int* nM, int* nC, int* nD) {
  *nM = *nC = *nD = 0;
  for (int i = 0; i < nv; i++) {
    int depth = 0, j = i;
    while ((j = par[j]) >= 0) depth++;
    *nM += 1 + depth;
    *nC += simple[i] ? 1 : 1 + depth;
    *nD += 1 + 2*depth;
  }
}

int main(void) {
  char op[64];
  mjg_install_handlers();
  while (scanf("%63s", op) == 1) {
    if (!strcmp(op, "sparse")) {
      int nv, reduced, upper;
      if (scanf("%d %d %d", &nv, &reduced, &upper) != 3 || nv > MAXNV || !rdi(par, nv) || !rdi(simple, nv)) return 2;
      int nM, nC, nD; counts(nv, &nM, &nC, &nD);
      // the function checks the total against nD (upper), nC (reduced) or nM: give it the number that
      // belongs to the requested variant (reduced+upper is not used by the engine: its total is passed as nD)
      int tot = 0;
      if (upper && reduced) { for (int i = 0; i < nv; i++) { int depth = 0, j = i; if (!simple[i]) { while ((j = par[j]) >= 0) depth++; } tot += 1 + 2*depth; } nD = tot; }
      if (MJG_TRY) {
        mj_makeDofDofSparse(nv, nC, nD, nM, par, simple, rownnz, rowadr, diag, colind, reduced, upper, remaining);
        MJG_END;
        int total = nv ? rowadr[nv-1] + rownnz[nv-1] : 0;
        pri(rownnz, nv); pri(rowadr, nv); pri(diag, nv); pri(colind, total);
      } else printf("ERR %s", mjg_last_error);
    } else if (!strcmp(op, "factor")) {
      int nv, nC0;
      int nvec, nidx;
      static mjtNum X[8*MAXNV], X2[8*MAXNV]; static int idx[MAXNV];
      if (scanf("%d", &nv) != 1 || nv > MAXNV || !rdi(par, nv) || !rdi(simple, nv) || scanf("%d", &nC0) != 1 || !rdd(vals, nC0) || !rdd(vx, nv) ||
          scanf("%d", &nvec) != 1 || nvec > 8 || !rdd(X, nvec*nv) || scanf("%d", &nidx) != 1 || nidx > nv || !rdi(idx, nidx)) return 2;
      int nM, nC, nD; counts(nv, &nM, &nC, &nD);
      if (MJG_TRY) {
        mj_makeDofDofSparse(nv, nC, nD, nM, par, simple, rownnz, rowadr, NULL, colind, 1, 0, remaining);
        if (nC != nC0) { printf("ERR nC %d %d", nC, nC0); MJG_END; printf("\n"); continue; }
        pri(rownnz, nv); pri(rowadr, nv); pri(colind, nC);
        mju_mulSymVecSparse(vy, vals, vx, nv, rownnz, rowadr, colind); prd(vy, nv);
        mju_sym2dense(dense, vals, nv, rownnz, rowadr, colind); prd(dense, nv*nv);
        memcpy(vals2, vals, sizeof(mjtNum)*nC);
        mj_factorI(vals2, dinv, nv, rownnz, rowadr, colind, NULL); prd(vals2, nC); prd(dinv, nv);
        memcpy(vy, vx, sizeof(mjtNum)*nv);
        mj_solveLD(vy, vals2, dinv, nv, 1, rownnz, rowadr, colind, NULL); prd(vy, nv);
        // batch of nvec right-hand sides (stored one after the other)
        memcpy(X2, X, sizeof(mjtNum)*nvec*nv);
        mj_solveLD(X2, vals2, dinv, nv, nvec, rownnz, rowadr, colind, NULL); prd(X2, nvec*nv);
        // dof skipping: factor and solve only the dofs listed in idx (whole trees, ascending)
        static mjtNum vals3[MAXNV*MAXNV], dinv3[MAXNV];
        memcpy(vals3, vals, sizeof(mjtNum)*nC); for (int i = 0; i < nv; i++) dinv3[i] = -7;
        mj_factorI(vals3, dinv3, nidx, rownnz, rowadr, colind, idx); prd(vals3, nC); prd(dinv3, nv);
        memcpy(vy, vx, sizeof(mjtNum)*nv);
        mj_solveLD(vy, vals3, dinv3, nidx, 1, rownnz, rowadr, colind, idx); prd(vy, nv);
        memcpy(X2, X, sizeof(mjtNum)*nvec*nv);
        // note: with an index the batch stride is still the FIRST argument count passed as nv
        MJG_END;
      } else printf("ERR %s", mjg_last_error);
    } else if (!strcmp(op, "model")) {
      unsigned long long seed; unsigned feat; int nbody, flags;
      if (scanf("%llu %u %d %d", &seed, &feat, &nbody, &flags) != 4) return 2;
      mjSpec* s = mjg_spec(seed, feat, nbody);
      mjg_rng R = { seed ^ 0xABCDEF }; mjg_rng* r = &R;
      if (flags & 1) {
        for (mjsElement* e = mjs_firstElement(s, mjOBJ_TENDON); e; e = mjs_nextElement(s, e)) mjs_asTendon(e)->armature = mjg_range(r, 0.01, 0.2);
      }
      if (flags & 2) {
        // simple bodies (diagonal inertia rows): world children whose inertial frame is the body frame
        int nextra = 1 + mjg_int(r, 2);
        for (int k = 0; k < nextra; k++) {
          mjsBody* body = mjs_addBody(mjs_findBody(s, "world"), NULL);
          body->pos[0] = 2 + k; body->pos[2] = 1;
          mjsGeom* g = mjs_addGeom(body, NULL); g->type = mjGEOM_SPHERE; g->size[0] = mjg_range(r, 0.05, 0.2);
          g->contype = 0; g->conaffinity = 0;
          if (mjg_chance(r, 0.5)) { mjs_addJoint(body, NULL)->type = mjJNT_FREE; }
          else {
            int ns = 1 + mjg_int(r, 3);
            for (int a = 0; a < ns; a++) { mjsJoint* j = mjs_addJoint(body, NULL); j->type = mjJNT_SLIDE; j->axis[0] = j->axis[1] = j->axis[2] = 0; j->axis[a] = 1; j->armature = mjg_range(r, 0, 0.1); }
          }
        }
      }
      if (flags & 4) {
        // bodies with 2-3 joints in mixed hinge/slide order, offset joint anchors, offset/rotated inertial frame
        int nextra = 1 + mjg_int(r, 2);
        for (int k = 0; k < nextra; k++) {
          char pn[16]; snprintf(pn, sizeof(pn), "b%d", mjg_int(r, nbody));
          mjsBody* parent = mjg_chance(r, 0.5) ? mjs_findBody(s, pn) : mjs_findBody(s, "world");
          if (!parent) parent = mjs_findBody(s, "world");
          mjsBody* body = mjs_addBody(parent, NULL);
          for (int a = 0; a < 3; a++) body->pos[a] = mjg_range(r, -0.3, 0.3);
          mjg_quat(r, body->quat);
          mjsGeom* g = mjs_addGeom(body, NULL); g->type = mjGEOM_BOX;
          for (int a = 0; a < 3; a++) { g->size[a] = mjg_range(r, 0.03, 0.15); g->pos[a] = mjg_range(r, -0.2, 0.2); }
          mjg_quat(r, g->quat); g->contype = 0; g->conaffinity = 0;
          int nj = 2 + mjg_int(r, 2);
          for (int a = 0; a < nj; a++) {
            mjsJoint* j = mjs_addJoint(body, NULL);
            j->type = mjg_chance(r, 0.5) ? mjJNT_HINGE : mjJNT_SLIDE;
            for (int c = 0; c < 3; c++) { j->axis[c] = mjg_range(r, -1, 1); j->pos[c] = mjg_range(r, -0.1, 0.1); }
            if (fabs(j->axis[0]) + fabs(j->axis[1]) + fabs(j->axis[2]) < 0.1) j->axis[2] = 1;
            if (mjg_chance(r, 0.5)) j->armature = mjg_range(r, 0, 0.1);
          }
        }
      }
      if (flags & 8) {
        // spatial (site-wrapping) tendons, with and without pulleys (divisor 1, 2, 0.5, 3), with and without armature;
        // sites on the world and on random bodies
        int nsp = 1 + mjg_int(r, 2);
        int sid = 0;
        for (int k = 0; k < nsp; k++) {
          mjsTendon* t = mjs_addTendon(s, NULL);
          if (mjg_chance(r, 0.75)) t->armature = mjg_range(r, 0.05, 1.0);
          int nbranch = 1 + mjg_int(r, 3);
          for (int br = 0; br < nbranch; br++) {
            if (br > 0) { static const double dv[4] = {2, 0.5, 3, 1}; mjs_wrapPulley(t, dv[mjg_int(r, 4)]); }
            int ns = 2 + mjg_int(r, 2);
            for (int q = 0; q < ns; q++) {
              char pn[16], sn[16]; snprintf(pn, sizeof(pn), "b%d", mjg_int(r, nbody)); snprintf(sn, sizeof(sn), "ts%d", sid++);
              mjsBody* body = (q == 0 && mjg_chance(r, 0.4)) ? mjs_findBody(s, "world") : mjs_findBody(s, pn);
              if (!body) body = mjs_findBody(s, "world");
              mjsSite* st = mjs_addSite(body, NULL); mjs_setName(st->element, sn);
              for (int c = 0; c < 3; c++) st->pos[c] = mjg_range(r, -0.3, 0.3);
              mjs_wrapSite(t, sn);
            }
          }
        }
      }
      // actuators with armature (flag 16): on scalar joints and on tendons, several per target, gear != 1;
      // recorded here (name of target, armature*gear^2) so that the reference does not use jnt/tendon_actuatorid
      enum { MAXACT = 16 };
      char act_target[MAXACT][32]; int act_is_tendon[MAXACT]; double act_arm[MAXACT]; int nact16 = 0;
      if (flags & 16) {
        int want = 1 + mjg_int(r, 4);
        for (int k = 0; k < want && nact16 < MAXACT; k++) {
          int on_tendon = mjg_chance(r, 0.4);
          const char* tname = NULL;
          if (on_tendon) {
            int cnt = 0; for (mjsElement* e = mjs_firstElement(s, mjOBJ_TENDON); e; e = mjs_nextElement(s, e)) cnt++;
            if (!cnt) on_tendon = 0;
            else {
              int pick = mjg_int(r, cnt), c = 0;
              for (mjsElement* e = mjs_firstElement(s, mjOBJ_TENDON); e; e = mjs_nextElement(s, e), c++)
                if (c == pick) { mjsTendon* tt = mjs_asTendon(e); if (!mjs_getName(e) || !*mjs_getString(mjs_getName(e))) { char nm[16]; snprintf(nm, sizeof(nm), "xt%d", k); mjs_setName(e, nm); } tname = mjs_getString(mjs_getName(e)); (void)tt; }
            }
          }
          if (!on_tendon) {
            // scalar joints only (hinge / slide)
            int cnt = 0; for (mjsElement* e = mjs_firstElement(s, mjOBJ_JOINT); e; e = mjs_nextElement(s, e)) { mjsJoint* j = mjs_asJoint(e); if (j->type == mjJNT_HINGE || j->type == mjJNT_SLIDE) cnt++; }
            if (!cnt) continue;
            int pick = mjg_int(r, cnt), c = 0;
            for (mjsElement* e = mjs_firstElement(s, mjOBJ_JOINT); e; e = mjs_nextElement(s, e)) {
              mjsJoint* j = mjs_asJoint(e); if (!(j->type == mjJNT_HINGE || j->type == mjJNT_SLIDE)) continue;
              if (c++ == pick) { if (!mjs_getName(e) || !*mjs_getString(mjs_getName(e))) { char nm[16]; snprintf(nm, sizeof(nm), "xj%d", k); mjs_setName(e, nm); } tname = mjs_getString(mjs_getName(e)); }
            }
          }
          if (!tname) continue;
          mjsActuator* a = mjs_addActuator(s, NULL);
          a->trntype = on_tendon ? mjTRN_TENDON : mjTRN_JOINT; mjs_setString(a->target, tname);
          a->gear[0] = mjg_chance(r, 0.3) ? 1.0 : mjg_range(r, 0.5, 3);
          a->armature = mjg_chance(r, 0.8) ? mjg_range(r, 0.01, 0.5) : 0;
          snprintf(act_target[nact16], 32, "%s", tname); act_is_tendon[nact16] = on_tendon; act_arm[nact16] = a->armature * a->gear[0] * a->gear[0];
          nact16++;
        }
      }
      mjModel* m = NULL; mjData* d = NULL;
      if (MJG_TRY) {
        m = mj_compile(s, NULL);
        if (!m) { printf("ERR compile %s\n", mjs_getError(s)); MJG_END; mj_deleteSpec(s); continue; }
        d = mj_makeData(m);
        mjg_random_state(m, d, r, 1.0);
        int nv = m->nv;
        // total armature per dof and per tendon = own armature + sum of armature*gear^2 of the actuators recorded above
        mjtNum* arm_dof = (mjtNum*)calloc(nv + 1, sizeof(mjtNum));
        mjtNum* arm_ten = (mjtNum*)calloc(m->ntendon + 1, sizeof(mjtNum));
        for (int i = 0; i < nv; i++) arm_dof[i] = m->dof_armature[i];
        for (int t = 0; t < m->ntendon; t++) arm_ten[t] = m->tendon_armature[t];
        for (int k = 0; k < nact16; k++) {
          int id = mj_name2id(m, act_is_tendon[k] ? mjOBJ_TENDON : mjOBJ_JOINT, act_target[k]);
          if (id < 0) continue;
          if (act_is_tendon[k]) arm_ten[id] += act_arm[k]; else arm_dof[m->jnt_dofadr[id]] += act_arm[k];
        }
        mj_fwdPosition(m, d);       // kinematics, comPos, crb, tendon armature, factorM
        mj_fwdVelocity(m, d);       // comVel, passive, qfrc_bias = rne(0)
        pri(&nv, 1); pri(m->dof_parentid, nv); pri(m->dof_simplenum, nv);
        pri(m->M_rownnz, nv); pri(m->M_rowadr, nv); pri(m->M_colind, m->nC);
        prd(d->M, m->nC); prd(d->qLD, m->nC); prd(d->qLDiagInv, nv);
        mjtNum* full = (mjtNum*)malloc(sizeof(mjtNum)*(nv*nv+1));
        mj_fullM(m, d, full); prd(full, nv*nv);
        mjtNum* v = (mjtNum*)malloc(sizeof(mjtNum)*(nv+1)), *w = (mjtNum*)malloc(sizeof(mjtNum)*(nv+1)), *u = (mjtNum*)malloc(sizeof(mjtNum)*(nv+1));
        for (int i = 0; i < nv; i++) v[i] = mjg_range(r, -2, 2);
        prd(v, nv);
        mj_mulM(m, d, w, v); prd(w, nv);
        mj_solveM(m, d, u, w, 1); prd(u, nv);                       // solveM(mulM v)
        {
          // batch solve: mj_solveM on 3 right-hand sides at once [mulM v, v, bias-like]; mj_solveM2 / mj_mulM2
          mjtNum* Y = (mjtNum*)malloc(sizeof(mjtNum)*(3*nv+1)), *Z = (mjtNum*)malloc(sizeof(mjtNum)*(3*nv+1)), *sq = (mjtNum*)malloc(sizeof(mjtNum)*(nv+1));
          for (int i = 0; i < nv; i++) { Y[i] = w[i]; Y[nv+i] = v[i]; Y[2*nv+i] = mjg_range(r, -3, 3); }
          prd(Y, 3*nv);
          mj_solveM(m, d, Z, Y, 3); prd(Z, 3*nv);
          for (int i = 0; i < nv; i++) sq[i] = mju_sqrt(d->qLDiagInv[i]);
          mj_solveM2(m, d, Z, Y, sq, 3); prd(Z, 3*nv);
          mj_mulM2(m, d, Z, v); prd(Z, nv);
          free(Y); free(Z); free(sq);
        }
        prd(d->qfrc_bias, nv);
        mj_rne(m, d, 0, w); prd(w, nv);                              // rne(0)
        for (int i = 0; i < nv; i++) d->qacc[i] = v[i];
        mj_rne(m, d, 1, u); prd(u, nv);                              // rne(a), a = v
        prd(arm_dof, nv);
        // independent reference: M = sum_b Jp' m Jp + Jr' (R I R') Jr  + diag(armature)   (no tendon armature)
        mjtNum* jp = (mjtNum*)malloc(sizeof(mjtNum)*(3*nv+1)), *jr = (mjtNum*)malloc(sizeof(mjtNum)*(3*nv+1));
        for (int i = 0; i < nv*nv; i++) full[i] = 0;
        for (int b = 1; b < m->nbody; b++) {
          mj_jac(m, d, jp, jr, d->xipos+3*b, b);
          mjtNum I[9], RI[9], RIR[9], D3[9] = {m->body_inertia[3*b],0,0, 0,m->body_inertia[3*b+1],0, 0,0,m->body_inertia[3*b+2]};
          mju_mulMatMat(RI, d->ximat+9*b, D3, 3, 3, 3); mju_mulMatMatT(RIR, RI, d->ximat+9*b, 3, 3, 3);
          (void)I;
          for (int i = 0; i < nv; i++) for (int j = 0; j < nv; j++) {
            mjtNum acc = 0;
            for (int k = 0; k < 3; k++) acc += m->body_mass[b]*jp[k*nv+i]*jp[k*nv+j];
            for (int k = 0; k < 3; k++) for (int l = 0; l < 3; l++) acc += jr[k*nv+i]*RIR[3*k+l]*jr[l*nv+j];
            full[i*nv+j] += acc;
          }
        }
        for (int i = 0; i < nv; i++) full[i*nv+i] += arm_dof[i];
        prd(full, nv*nv);
        // tendon armature contribution: sum_t armature_t J_t' J_t (dense), so that the oracle can add it
        mjtNum* tj = (mjtNum*)malloc(sizeof(mjtNum)*(nv+1));
        for (int i = 0; i < nv*nv; i++) full[i] = 0;
        for (int t = 0; t < m->ntendon; t++) {
          if (!arm_ten[t]) continue;
          for (int i = 0; i < nv; i++) tj[i] = 0;
          for (int k = 0; k < m->ten_J_rownnz[t]; k++) tj[m->ten_J_colind[m->ten_J_rowadr[t]+k]] = d->ten_J[m->ten_J_rowadr[t]+k];
          for (int i = 0; i < nv; i++) for (int j = 0; j < nv; j++) full[i*nv+j] += arm_ten[t]*tj[i]*tj[j];
        }
        prd(full, nv*nv);
        // independent Newton-Euler at zero acceleration, world frame, no cdof/cdof_dot/cvel:
        //   bias = sum_b Jp' m (Jdot_p v - g) + Jr' (Iw Jdot_r v + w x Iw w),  Jdot v by central differences of
        //   mj_jac (at the moving body COM) along qvel
        {
          mjData* d2 = mj_makeData(m);
          mjtNum eps = 1e-6;
          mjtNum* acc = (mjtNum*)calloc(6*m->nbody*2 + 1, sizeof(mjtNum));   // [sign][body][6] = J v
          mjtNum* tacc = (mjtNum*)calloc(2*m->ntendon + 1, sizeof(mjtNum));  // [sign][tendon] = ten_J v
          for (int sgn = 0; sgn < 2; sgn++) {
            mju_copy(d2->qpos, d->qpos, m->nq);
            mj_integratePos(m, d2->qpos, d->qvel, sgn ? eps : -eps);
            mj_kinematics(m, d2); mj_comPos(m, d2); mj_tendon(m, d2);
            for (int t = 0; t < m->ntendon; t++) {
              mjtNum sv = 0;
              for (int k = 0; k < m->ten_J_rownnz[t]; k++) sv += d2->ten_J[m->ten_J_rowadr[t]+k] * d->qvel[m->ten_J_colind[m->ten_J_rowadr[t]+k]];
              tacc[sgn*m->ntendon + t] = sv;
            }
            for (int b = 1; b < m->nbody; b++) {
              mj_jac(m, d2, jp, jr, d2->xipos+3*b, b);
              for (int k = 0; k < 3; k++) {
                mjtNum sp = 0, sr = 0;
                for (int i = 0; i < nv; i++) { sp += jp[k*nv+i]*d->qvel[i]; sr += jr[k*nv+i]*d->qvel[i]; }
                acc[(sgn*m->nbody + b)*6 + k] = sp; acc[(sgn*m->nbody + b)*6 + 3 + k] = sr;
              }
            }
          }
          for (int i = 0; i < nv; i++) w[i] = 0;
          for (int b = 1; b < m->nbody; b++) {
            mj_jac(m, d, jp, jr, d->xipos+3*b, b);
            mjtNum RI[9], RIR[9], D3[9] = {m->body_inertia[3*b],0,0, 0,m->body_inertia[3*b+1],0, 0,0,m->body_inertia[3*b+2]};
            mju_mulMatMat(RI, d->ximat+9*b, D3, 3, 3, 3); mju_mulMatMatT(RIR, RI, d->ximat+9*b, 3, 3, 3);
            mjtNum ap[3], ar[3], om[3] = {0, 0, 0}, Iw[3], Iar[3], gyro[3], frc[3], trq[3];
            for (int k = 0; k < 3; k++) {
              ap[k] = (acc[(m->nbody + b)*6 + k] - acc[b*6 + k]) / (2*eps);
              ar[k] = (acc[(m->nbody + b)*6 + 3 + k] - acc[b*6 + 3 + k]) / (2*eps);
              for (int i = 0; i < nv; i++) om[k] += jr[k*nv+i]*d->qvel[i];
            }
            mju_mulMatVec3(Iw, RIR, om); mju_mulMatVec3(Iar, RIR, ar); mju_cross(gyro, om, Iw);
            for (int k = 0; k < 3; k++) { frc[k] = m->body_mass[b]*(ap[k] - m->opt.gravity[k]); trq[k] = Iar[k] + gyro[k]; }
            for (int i = 0; i < nv; i++) for (int k = 0; k < 3; k++) w[i] += jp[k*nv+i]*frc[k] + jr[k*nv+i]*trq[k];
          }
          // tendon armature: the kinetic energy 1/2 a (J v)^2 contributes  a J' (Jdot v)  to the bias force
          for (int t = 0; t < m->ntendon; t++) {
            if (!arm_ten[t]) continue;
            mjtNum jdv = (tacc[m->ntendon + t] - tacc[t]) / (2*eps);
            for (int k = 0; k < m->ten_J_rownnz[t]; k++)
              w[m->ten_J_colind[m->ten_J_rowadr[t]+k]] += arm_ten[t] * d->ten_J[m->ten_J_rowadr[t]+k] * jdv;
          }
          prd(w, nv);
          free(acc); free(tacc); mj_deleteData(d2);
        }
        // inverse dynamics for the acceleration a = v:  qfrc_inverse + qfrc_passive + qfrc_constraint  (= M a + bias)
        for (int i = 0; i < nv; i++) d->qacc[i] = v[i];
        mj_inverse(m, d);
        for (int i = 0; i < nv; i++) u[i] = d->qfrc_inverse[i] + d->qfrc_passive[i] + d->qfrc_constraint[i];
        prd(u, nv);
        int info[3] = {m->nC, m->nM, m->ntendon}; pri(info, 3);
        free(full); free(v); free(w); free(u); free(jp); free(jr); free(tj); free(arm_dof); free(arm_ten);
        MJG_END;
      } else printf("ERR %s", mjg_last_error);
      if (d) mj_deleteData(d);
      if (m) mj_deleteModel(m);
      mj_deleteSpec(s);
    } else if (!strcmp(op, "tendemo")) {
      // smallest witness for tendon armature across branches: two hinge bodies hanging from the world,
      // one fixed tendon  length = c0*q0 + c1*q1  with armature a.  args: a c0 c1
      mjtNum a3[3];
      if (!rdd(a3, 3)) return 2;
      mjSpec* s = mj_makeSpec();
      mjsBody* w = mjs_findBody(s, "world");
      for (int b = 0; b < 2; b++) {
        mjsBody* body = mjs_addBody(w, NULL); body->pos[0] = b;
        mjsGeom* g = mjs_addGeom(body, NULL); g->type = mjGEOM_SPHERE; g->size[0] = 0.1; g->pos[2] = -0.3;
        g->contype = 0; g->conaffinity = 0;
        mjsJoint* j = mjs_addJoint(body, NULL); j->type = mjJNT_HINGE; j->axis[0] = 0; j->axis[1] = 1; j->axis[2] = 0;
        mjs_setName(j->element, b ? "j1" : "j0");
      }
      mjsTendon* t = mjs_addTendon(s, NULL); mjs_wrapJoint(t, "j0", a3[1]); mjs_wrapJoint(t, "j1", a3[2]); t->armature = a3[0];
      mjModel* m = mj_compile(s, NULL);
      if (!m) { printf("ERR compile %s\n", mjs_getError(s)); mj_deleteSpec(s); continue; }
      mjData* d = mj_makeData(m);
      mj_forward(m, d);
      mjtNum full[4]; mj_fullM(m, d, full); prd(full, 4);
      pri(m->dof_parentid, 2); pri(m->M_rownnz, 2); pri(m->M_colind, m->nC); prd(d->ten_J, m->ten_J_rownnz[0]);
      mj_deleteData(d); mj_deleteModel(m); mj_deleteSpec(s);
    } else { fprintf(stderr, "unknown op %s\n", op); return 2; }
    printf("\n");
  }
  return 0;
}
