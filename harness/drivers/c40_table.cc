// C40 driver (concurrent part): the unmodified engine_global_table.h of the working tree,
// instantiated with a test object type and compiled against the controlled-scheduler shim
// (shim_atomic.h: std::atomic_int, std::mutex, std::thread replaced).  The test type's
// CopyObject copies FIELD BY FIELD with a scheduling point before each field, and every read of
// a table slot's key / value (ObjectKey, ObjectEqual, the caller's dereference of a returned
// pointer) is a logged scheduling point, so torn objects are observable if the protocol is wrong.
// One process per case (the table is a process-wide singleton).
//
// stdin : <seed> <mode> <victim> <nkeys> <nthreads> <prefill>
//         <key_0> ... <key_{nkeys-1}>
//         per thread: <nops> { A <kid> <val> | S <slot> | K <kid> | L | U }*      (kid -1 = empty key)
// stdout: <thread> <kind> <a> <b> <c> per event, then  END <status> <count at end>
// kinds: ca/ra (AppendIfUnique call/return), cs ck (GetAtSlot / GetByKey call), rn rs (lookup
// returned null / returned slot a with key id b, value c), lk ul (mutex), ld st (count_), wk wv
// (CopyObject writes key / value of slot a), rk rv (read of key / value of slot a), in sp jn ex.
#include "shim_atomic.h"

#include <csetjmp>
#include <cstdarg>

#include "engine/engine_global_table.h"

static int g_next_slot = 0;
static std::vector<std::string> g_keys;

struct TObj {
  int slot_id;
  char key[28];
  long val;
  TObj() : slot_id(g_next_slot++), key{0}, val(0) {}
  TObj(const char* k, long v) : slot_id(-1), key{0}, val(v) { std::strncpy(key, k, sizeof(key) - 1); }
};

static long key_id(const char* k) {
  if (!k[0]) return -1;
  for (size_t i = 0; i < g_keys.size(); i++) if (g_keys[i] == k) return (long)i;
  return -2;
}

static thread_local std::jmp_buf* tl_jmp = nullptr;
extern "C" void mju_error(const char* msg, ...) {
  (void)msg;
  if (tl_jmp) std::longjmp(*tl_jmp, 1);
  std::abort();
}

namespace mujoco {
template <> const char* GlobalTable<TObj>::HumanReadableTypeName() { return "test object"; }
template <> std::string_view GlobalTable<TObj>::ObjectKey(const TObj& o) {
  if (o.slot_id >= 0) {
    verif::point();
    verif::logev("rk", o.slot_id, key_id(o.key));
  }
  return std::string_view(o.key);
}
template <> bool GlobalTable<TObj>::ObjectEqual(const TObj& a, const TObj& b) {
  verif::point();
  verif::logev("rv", b.slot_id, b.val);
  return !std::strcmp(a.key, b.key) && a.val == b.val;
}
template <> bool GlobalTable<TObj>::CopyObject(TObj& dst, const TObj& src, ErrorMessage& err) {
  (void)err;
  verif::point();
  std::strcpy(dst.key, src.key);
  verif::logev("wk", dst.slot_id, key_id(src.key));
  verif::point();
  dst.val = src.val;
  verif::logev("wv", dst.slot_id, src.val);
  return true;
}
}  // namespace mujoco

using Table = mujoco::GlobalTable<TObj>;

struct Op { char kind; long a, b; };

static const char* key_of(long kid) { return kid < 0 ? "" : g_keys[kid].c_str(); }

static void do_append(Table& T, long kid, long val) {
  verif::logev("ca", kid, val);
  TObj o(key_of(kid), val);
  std::jmp_buf jb;
  tl_jmp = &jb;
  volatile int slot = -1;
  if (!setjmp(jb)) {
    slot = T.AppendIfUnique(o);
  } else {
    slot = -1;
  }
  tl_jmp = nullptr;
  verif::logev("ra", slot);
}

static void report(const TObj* p) {
  if (p) {
    verif::point();
    verif::logev("rv", p->slot_id, p->val);
    verif::logev("rs", p->slot_id, key_id(p->key), p->val);
  } else {
    verif::logev("rn");
  }
}

static void run_ops(const std::vector<Op>& ops) {
  Table& T = Table::GetSingleton();
  std::unique_ptr<mujoco::ReentrantWriteLock> outer;
  for (const Op& op : ops) {
    switch (op.kind) {
      case 'A': do_append(T, op.a, op.b); break;
      case 'S': verif::logev("cs", op.a); report(T.GetAtSlot((int)op.a)); break;
      case 'K': {
        verif::logev("ck", op.a);
        int slot = -7;
        const TObj* p = T.GetByKey(key_of(op.a), &slot);
        if (p && slot != p->slot_id) verif::logev("bad-slot-out", slot, p->slot_id);
        if (!p && slot != -1) verif::logev("bad-slot-out", slot, -1);
        report(p);
        break;
      }
      case 'L': if (!outer) outer.reset(new mujoco::ReentrantWriteLock(T.LockExclusively())); break;
      case 'U': outer.reset(); break;
    }
  }
  outer.reset();
}

static void dump(const char* status) {
  verif::Sched& s = verif::S();
  for (const verif::Event& e : s.log_) {
    std::printf("%d %s %ld %ld %ld\n", e.tid, e.kind, e.a, e.b, e.c);
  }
  std::printf("END %s %d\n", status, -1);
  std::fflush(stdout);
}
static void on_abort(const char* why) { dump(why); }

int main() {
  unsigned long long seed;
  int mode, victim, nkeys, nthreads, prefill;
  if (std::scanf("%llu %d %d %d %d %d", &seed, &mode, &victim, &nkeys, &nthreads, &prefill) != 6) return 2;
  for (int i = 0; i < nkeys; i++) {
    char buf[64];
    if (std::scanf("%27s", buf) != 1) return 2;
    g_keys.push_back(buf);
  }
  std::vector<std::vector<Op>> scripts(nthreads);
  for (int t = 0; t < nthreads; t++) {
    int nops;
    if (std::scanf("%d", &nops) != 1) return 2;
    for (int i = 0; i < nops; i++) {
      char k[4];
      Op op{0, 0, 0};
      if (std::scanf("%3s", k) != 1) return 2;
      op.kind = k[0];
      if (op.kind == 'A') { if (std::scanf("%ld %ld", &op.a, &op.b) != 2) return 2; }
      else if (op.kind == 'S' || op.kind == 'K') { if (std::scanf("%ld", &op.a) != 1) return 2; }
      scripts[t].push_back(op);
    }
  }
  verif::S().on_abort = on_abort;
  verif::S().reset(seed, mode, victim);
  Table& T = Table::GetSingleton();
  for (int i = 0; i < prefill; i++) {
    do_append(T, i, 7);          // keys 0..prefill-1 are the prefill keys
  }
  {
    std::vector<std::thread> th;
    for (int t = 1; t < nthreads; t++) {
      th.emplace_back([&scripts, t]() { run_ops(scripts[t]); });
    }
    run_ops(scripts[0]);
    for (auto& x : th) x.join();
  }
  verif::Sched& s = verif::S();
  for (const verif::Event& e : s.log_) {
    std::printf("%d %s %ld %ld %ld\n", e.tid, e.kind, e.a, e.b, e.c);
  }
  std::printf("END OK %d\n", T.count());
  return 0;
}
