// C29 driver: mj_passive (springs, dampers, gravity compensation) and the spring potential of
// mj_energyPos of the working tree on mjgen models extended with polynomial stiffness / damping
// coefficients, spring references, tendon dead bands, gravity compensation routed through actuators.
//
// stdin, one request per line:   M seed feat nbody variant
//   variant % 5 == 1: mjDSBL_SPRING, == 2: mjDSBL_DAMPER
//   variant % 4 == 3: every body gets gravcomp = 1 and qvel = 0 (qfrc_gravcomp must equal qfrc_bias)
//   variant % 6 == 5: qpos = qpos_spring, qvel = 0 (rest)
//   P linear p0 p1 x odd   ->  mju_polyForce and mju_polyPotential
#include "mjgen.h"
#include "engine/engine_util_misc.h"   // mju_polyForce, mju_polyPotential

#if mjNPOLY != 2
#error "C29 models mjNPOLY == 2"
#endif

static void pv(const mjtNum* x, int n) { for (int i = 0; i < n; i++) printf(" %a", x[i]); }


static mjtNum spring_energy(mjModel* m, mjData* d) {
  mjtNum g[3]; mju_copy3(g, m->opt.gravity);
  mju_zero3(m->opt.gravity);
  mj_energyPos(m, d);
  mju_copy3(m->opt.gravity, g);
  return d->energy[0];
}

static void model_case(unsigned long long seed, unsigned feat, int nbody, int variant) {
  mjg_rng R = { seed * 0x9E3779B97F4A7C15ULL + 131u * (unsigned)variant + 9 }; mjg_rng* r = &R;
  mjSpec* s = mjg_spec(seed, feat, nbody);
  for (mjsElement* e = mjs_firstElement(s, mjOBJ_JOINT); e; e = mjs_nextElement(s, e)) {
    mjsJoint* j = mjs_asJoint(e);
    if (!j) continue;
    int scalar = j->type == mjJNT_HINGE || j->type == mjJNT_SLIDE;
    if ((feat & MJG_SPRING) && mjg_chance(r, 0.6)) {
      if (j->type == mjJNT_FREE || mjg_chance(r, 0.5)) j->stiffness[0] = mjg_range(r, 0, 20);
      if (mjg_chance(r, 0.5)) { j->stiffness[1] = mjg_range(r, -3, 6); j->stiffness[2] = mjg_range(r, 0, 8); }
      if (j->type != mjJNT_FREE || mjg_chance(r, 0.5)) {
        if (mjg_chance(r, 0.5)) { j->damping[1] = mjg_range(r, 0, 1); j->damping[2] = mjg_range(r, 0, 0.5); }
        if (j->type == mjJNT_FREE) j->damping[0] = mjg_range(r, 0, 1);
      }
      if (scalar && mjg_chance(r, 0.5)) j->springref = mjg_range(r, -0.4, 0.4);
    }
    if ((feat & MJG_GRAVCOMP) && scalar && mjg_chance(r, 0.3)) j->actgravcomp = 1;
  }
  for (mjsElement* e = mjs_firstElement(s, mjOBJ_TENDON); e; e = mjs_nextElement(s, e)) {
    mjsTendon* t = mjs_asTendon(e);
    if (!t) continue;
    if (mjg_chance(r, 0.6)) { t->stiffness[0] = mjg_range(r, 0, 10); if (mjg_chance(r, 0.5)) { t->stiffness[1] = mjg_range(r, -1, 3); t->stiffness[2] = mjg_range(r, 0, 4); } }
    if (mjg_chance(r, 0.6)) { t->damping[0] = mjg_range(r, 0, 1); if (mjg_chance(r, 0.5)) { t->damping[1] = mjg_range(r, 0, 1); t->damping[2] = mjg_range(r, 0, 1); } }
    if (mjg_chance(r, 0.5)) { t->springlength[0] = mjg_range(r, -0.3, 0); t->springlength[1] = t->springlength[0] + mjg_range(r, 0, 0.4); }
  }
  // actuator-inherited damping: several damped actuators on the same joint / tendon (the compiler then stores the
  // "several actuators" sentinel), gears of both signs and magnitudes != 1, zero / linear / polynomial coefficients;
  // also single damped actuators and undamped companions
  {
    mjsJoint* sj[64]; int nsj = 0;
    for (mjsElement* e = mjs_firstElement(s, mjOBJ_JOINT); e; e = mjs_nextElement(s, e)) {
      mjsJoint* j = mjs_asJoint(e);
      if (j && (j->type == mjJNT_HINGE || j->type == mjJNT_SLIDE) && nsj < 64) sj[nsj++] = j;
    }
    mjsTendon* st[16]; int nst = 0;
    for (mjsElement* e = mjs_firstElement(s, mjOBJ_TENDON); e; e = mjs_nextElement(s, e)) {
      mjsTendon* t = mjs_asTendon(e); if (t && nst < 16) st[nst++] = t;
    }
    int ngroups = (variant % 3 == 0) ? 0 : 1 + mjg_int(r, 3), na_extra = 0;
    for (int gidx = 0; gidx < ngroups && (nsj || nst); gidx++) {
      int on_tendon = nst > 0 && (nsj == 0 || mjg_chance(r, 0.35));
      const char* target = on_tendon ? mjs_getString(mjs_getName(st[mjg_int(r, nst)]->element))
                                     : mjs_getString(mjs_getName(sj[mjg_int(r, nsj)]->element));
      int cnt = 1 + mjg_int(r, 3);
      for (int k = 0; k < cnt; k++) {
        mjsActuator* a = mjs_addActuator(s, NULL);
        char nmb[32]; snprintf(nmb, sizeof(nmb), "dmp%d", na_extra++); mjs_setName(a->element, nmb);
        a->trntype = on_tendon ? mjTRN_TENDON : mjTRN_JOINT;
        mjs_setString(a->target, target);
        mjs_setToMotor(a);
        static const double gears[8] = {1, -1, 2, -2.5, 0.5, -0.3, 3, 0.1};
        a->gear[0] = gears[mjg_int(r, 8)];
        if (mjg_chance(r, 0.8)) a->damping[0] = mjg_range(r, 0.05, 2);
        if (mjg_chance(r, 0.4)) { a->damping[1] = mjg_range(r, 0, 1); a->damping[2] = mjg_range(r, 0, 0.5); }
        if (mjg_chance(r, 0.2)) a->armature = mjg_range(r, 0.001, 0.05);
      }
    }
  }
  if (variant % 5 == 1) s->option.disableflags |= mjDSBL_SPRING;
  if (variant % 5 == 2) s->option.disableflags |= mjDSBL_DAMPER;
  s->option.enableflags |= mjENBL_ENERGY;
  mjModel* m = mj_compile(s, NULL);
  if (!m) { printf("M ERR %s\n", mjs_getError(s)); mj_deleteSpec(s); return; }
  mjData* d = mj_makeData(m);
  mjg_random_state(m, d, r, 1.0);
  int nv = m->nv, nq = m->nq, nt = m->ntendon, nb = m->nbody, nj = m->njnt;
  int g1 = (variant % 4 == 3), rest = (variant % 6 == 5);
  if (g1) { for (int i = 1; i < nb; i++) m->body_gravcomp[i] = 1; m->flg_gravcomp = 1; mju_zero(d->qvel, nv); }
  if (rest) { mju_copy(d->qpos, m->qpos_spring, nq); mju_zero(d->qvel, nv); }
  if (nv == 0 || m->nflex || m->opt.viscosity || m->opt.density) { printf("M SKIP\n"); mj_deleteData(d); mj_deleteModel(m); mj_deleteSpec(s); return; }
  mj_forward(m, d);
  int es = !(m->opt.disableflags & mjDSBL_SPRING), ed = !(m->opt.disableflags & mjDSBL_DAMPER);
  int gc_on = m->flg_gravcomp && !(m->opt.disableflags & mjDSBL_GRAVITY) && mju_norm3(m->opt.gravity) != 0;
  printf("M OK nv %d nj %d nt %d nb %d nact %d es %d ed %d gc %d g1 %d rest %d gravity", nv, nj, nt, nb, m->nactuator, es, ed, gc_on, g1, rest);
  pv(m->opt.gravity, 3); printf("\n");
  for (int j = 0; j < nj; j++) {
    int t = m->jnt_type[j], padr = m->jnt_qposadr[j];
    int n = t == mjJNT_FREE ? 7 : t == mjJNT_BALL ? 4 : 1;
    printf("J %d %d", t, m->jnt_dofadr[j]); pv(m->jnt_stiffness + j, 1); pv(m->jnt_stiffnesspoly + mjNPOLY * j, mjNPOLY);
    pv(d->qpos + padr, n); pv(m->qpos_spring + padr, n); printf("\n");
  }
  // raw damping data: the actuator-inherited part is NOT taken from mj_actuatorDamping but recomputed downstream
  for (int v = 0; v < nv; v++) {
    int j = m->dof_jntid[v];
    printf("D"); pv(m->dof_damping + v, 1); pv(m->dof_dampingpoly + mjNPOLY * v, mjNPOLY); pv(d->qvel + v, 1);
    printf(" %d %d %d\n", m->jnt_actgravcomp[j], j, m->jnt_actuatorid[j]);
  }
  for (int i = 0; i < m->nactuator; i++) {
    printf("AC %d %d", m->actuator_trntype[i], m->actuator_trnid[2 * i]);
    pv(m->actuator_gear + 6 * m->actuator_outadr[i], 1); pv(m->actuator_damping + i, 1); pv(m->actuator_dampingpoly + mjNPOLY * i, mjNPOLY);
    printf("\n");
  }
  mjtNum* row = (mjtNum*)calloc(3 * nv + 1, sizeof(mjtNum));
  for (int i = 0; i < nt; i++) {
    printf("T"); pv(m->tendon_stiffness + i, 1); pv(m->tendon_stiffnesspoly + mjNPOLY * i, mjNPOLY);
    pv(m->tendon_damping + i, 1); pv(m->tendon_dampingpoly + mjNPOLY * i, mjNPOLY);
    pv(d->ten_length + i, 1); pv(d->ten_velocity + i, 1); pv(m->tendon_lengthspring + 2 * i, 2);
    mju_zero(row, nv);
    for (int k = 0; k < m->ten_J_rownnz[i]; k++) row[m->ten_J_colind[m->ten_J_rowadr[i] + k]] += d->ten_J[m->ten_J_rowadr[i] + k];
    pv(row, nv); printf("\n");
  }
  for (int i = 1; i < nb; i++) {
    mj_jac(m, d, row, NULL, d->xipos + 3 * i, i);
    printf("B"); pv(m->body_mass + i, 1); pv(m->body_gravcomp + i, 1); pv(row, 3 * nv); printf("\n");
  }
  free(row);
  printf("S"); pv(d->qfrc_spring, nv); printf("\n");
  printf("P"); pv(d->qfrc_damper, nv); printf("\n");
  printf("G"); pv(d->qfrc_gravcomp, nv); printf("\n");
  printf("Q"); pv(d->qfrc_passive, nv); printf("\n");
  printf("BIAS"); pv(d->qfrc_bias, nv); printf("\n");
  // spring potential and its centred finite differences along every dof
  mjData* d2 = mj_makeData(m);
  mju_copy(d2->qpos, d->qpos, nq);
  mj_fwdPosition(m, d2);
  mjtNum E0 = spring_energy(m, d2);
  printf("E %a FD", E0);
  mjtNum* vel = (mjtNum*)calloc(nv + 1, sizeof(mjtNum));
  const mjtNum eps = 1e-6;
  for (int v = 0; v < nv; v++) {
    mjtNum Ep, Em;
    for (int sgn = 0; sgn < 2; sgn++) {
      mju_copy(d2->qpos, d->qpos, nq);
      mju_zero(vel, nv); vel[v] = 1;
      mj_integratePos(m, d2->qpos, vel, sgn ? -eps : eps);
      mj_fwdPosition(m, d2);
      mjtNum E = spring_energy(m, d2);
      if (sgn) Em = E; else Ep = E;
    }
    mjtNum fd = (Ep - Em) / (2 * eps);
    pv(&fd, 1);
  }
  printf("\n");
  free(vel);
  mj_deleteData(d2); mj_deleteData(d); mj_deleteModel(m); mj_deleteSpec(s);
}

int main(void) {
  mjg_install_handlers();
  char line[4096];
  while (fgets(line, sizeof(line), stdin)) {
    if (line[0] == 'M') {
      unsigned long long seed; unsigned feat; int nbody, variant;
      if (sscanf(line + 1, "%llu %u %d %d", &seed, &feat, &nbody, &variant) != 4) return 2;
      if (MJG_TRY) { model_case(seed, feat, nbody, variant); MJG_END; }
      else printf("M ERR mju_error: %s\n", mjg_last_error);
      fflush(stdout);
    } else if (line[0] == 'P') {
      double x[5]; char* p = line + 1; char* end; int n = 0;
      while (n < 5) { double v = strtod(p, &end); if (end == p) break; x[n++] = v; p = end; }
      if (n != 5) return 2;
      mjtNum poly[2] = { x[1], x[2] };
      printf("P %a %a\n", mju_polyForce(x[0], poly, x[3], mjNPOLY, (int)x[4]), mju_polyPotential(x[0], poly, x[3], mjNPOLY, (int)x[4]));
    } else { fprintf(stderr, "bad request %s", line); return 2; }
  }
  return 0;
}
