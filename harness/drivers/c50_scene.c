// C50 driver: mjv_makeScene / mjv_updateScene of the working tree on mjgen models, for a sweep of
// scene capacities.  stdin: lines "V seed feat nbody mode optseed".
//   mode 0: only model geoms drawn (all vis flags off except a random mjVIS_STATIC, random geomgroup, random catmask)
//   mode 3: as 0, some geoms with alpha 0 and some geom_group values outside 0..mjNGROUP-1
//   mode 1: default mjvOption, catmask all     mode 2: every vis flag on, labels and frames on
// output per scenario:
//   H ngeom_model needed vis_static catmask | geomgroup[6] | per geom "cat:group:alpha:type"
//   M i type hexsize[3] hexpos[3] hexmat[9]                      (model geoms: geom_size, geom_xpos, geom_xmat)
//   S cap ngeom status canary det nwarn prefix sticky | objtype:objid:category:segid ...   (one per capacity)
//   F k objid type hexsize[3] hexpos[3] hexmat[9]                (model geoms found in the unbounded scene)
//   Z
#include "mjgen.h"

static int geq(const mjvGeom* a, const mjvGeom* b) { return memcmp(a, b, sizeof(mjvGeom)) == 0; }

static void scenario(void) {
  int seed, feat, nbody, mode, optseed;
  if (scanf("%d %d %d %d %d", &seed, &feat, &nbody, &mode, &optseed) != 5) exit(2);
  // mjgen model plus (in 3 of 4 scenarios) geoms on frames that are not the world frame: planes (finite
  // and infinite), boxes, spheres, capsules, cylinders on offset+rotated jointless children of the world
  // and on a mocap body that is moved before mj_forward
  mjSpec* spec = mjg_spec(seed, (unsigned)feat, nbody);
  mjg_rng R = { (uint64_t)optseed * 2654435761u + 5 }; mjg_rng* r = &R;
  int nextra = 0;
  if (mjg_int(r, 4) != 0) {
    mjsBody* world = mjs_findBody(spec, "world");
    int nb = 1 + mjg_int(r, 3);
    for (int b = 0; b <= nb; b++) {
      mjsBody* parent = world;
      mjsBody* bd = mjs_addBody(parent, NULL);
      char nm[32]; snprintf(nm, sizeof nm, b == nb ? "vmocap" : "vstatic%d", b); mjs_setName(bd->element, nm);
      if (b == nb) bd->mocap = 1;
      for (int k = 0; k < 3; k++) bd->pos[k] = mjg_range(r, -1.5, 1.5);
      mjg_quat(r, bd->quat);
      int ngm = 1 + mjg_int(r, 3);
      for (int k = 0; k < ngm; k++) {
        mjsGeom* g = mjs_addGeom(bd, NULL);
        int t = k == 0 ? 0 : mjg_int(r, 5);
        g->type = t == 0 ? mjGEOM_PLANE : t == 1 ? mjGEOM_BOX : t == 2 ? mjGEOM_SPHERE : t == 3 ? mjGEOM_CAPSULE : mjGEOM_CYLINDER;
        g->size[0] = mjg_range(r, 0.05, 0.6); g->size[1] = mjg_range(r, 0.05, 0.6); g->size[2] = mjg_range(r, 0.05, 0.3);
        if (t == 0 && mjg_chance(r, 0.3)) g->size[mjg_int(r, 2)] = 0;      // infinite plane along one axis
        for (int j = 0; j < 3; j++) g->pos[j] = mjg_range(r, -0.5, 0.5);
        if (mjg_chance(r, 0.7)) mjg_quat(r, g->quat);
        g->contype = 0; g->conaffinity = 0; g->group = mjg_int(r, 4);
        nextra++;
      }
      if (b < nb && mjg_chance(r, 0.4)) {   // a nested jointless child, also static
        mjsBody* ch = mjs_addBody(bd, NULL); for (int k = 0; k < 3; k++) ch->pos[k] = mjg_range(r, -0.5, 0.5); mjg_quat(r, ch->quat);
        mjsGeom* g = mjs_addGeom(ch, NULL); g->type = mjGEOM_PLANE; g->size[0] = mjg_range(r, 0.1, 0.5); g->size[1] = mjg_range(r, 0.1, 0.5); g->size[2] = 0.1;
        for (int j = 0; j < 3; j++) g->pos[j] = mjg_range(r, -0.3, 0.3);
        mjg_quat(r, g->quat); g->contype = 0; g->conaffinity = 0; g->group = mjg_int(r, 4); nextra++;
      }
    }
  }
  mjModel* m = mj_compile(spec, NULL);
  if (!m) { printf("X compile %s\nZ\n", mjs_getError(spec)); mj_deleteSpec(spec); return; }
  mj_deleteSpec(spec);
  mjData* d = mj_makeData(m);
  mjg_random_state(m, d, r, 0.3);
  for (int i = 0; i < m->nmocap; i++) {      // move and rotate every mocap body
    for (int k = 0; k < 3; k++) d->mocap_pos[3 * i + k] += mjg_range(r, -0.7, 0.7);
    double q[4]; mjg_quat(r, q); for (int k = 0; k < 4; k++) d->mocap_quat[4 * i + k] = q[k];
  }
  if (MJG_TRY) { mj_forward(m, d); MJG_END; } else { printf("X forward %s\nZ\n", mjg_last_error); return; }
  mjvOption opt; mjv_defaultOption(&opt);
  mjvCamera cam; mjv_defaultCamera(&cam);
  int catmask = mjCAT_ALL;
  if (mode == 0 || mode == 3) {
    memset(opt.flags, 0, sizeof(opt.flags));
    opt.flags[mjVIS_STATIC] = mjg_chance(r, 0.7);
    for (int k = 0; k < mjNGROUP; k++) { opt.geomgroup[k] = mjg_chance(r, 0.6); opt.sitegroup[k] = opt.jointgroup[k] = opt.tendongroup[k] = opt.actuatorgroup[k] = opt.flexgroup[k] = opt.skingroup[k] = 0; }
    opt.label = mjLABEL_NONE; opt.frame = mjFRAME_NONE;
    static const int masks[7] = { 7, 7, 3, 2, 1, 6, 5 };
    catmask = masks[mjg_int(r, 7)];
    if (mode == 3) for (int g = 0; g < m->ngeom; g++) {
      if (mjg_chance(r, 0.25)) m->geom_rgba[4 * g + 3] = 0;
      if (mjg_chance(r, 0.2)) m->geom_group[g] = mjg_chance(r, 0.5) ? 6 + mjg_int(r, 3) : -1 - mjg_int(r, 3);
    }
  } else if (mode == 2) {
    for (int k = 0; k < mjNVISFLAG; k++) opt.flags[k] = 1;
    opt.flags[mjVIS_TRANSPARENT] = 0; opt.flags[mjVIS_SDFITER] = 0;
    for (int k = 0; k < mjNGROUP; k++) opt.geomgroup[k] = opt.sitegroup[k] = opt.jointgroup[k] = opt.tendongroup[k] = opt.actuatorgroup[k] = 1;
    opt.label = mjLABEL_BODY; opt.frame = mjFRAME_BODY;
  }
  mjvScene scn; mjv_defaultScene(&scn);
  // full scene
  int big = 20000;
  mjv_makeScene(m, &scn, big);
  int ok = 1;
  if (MJG_TRY) { mjv_updateScene(m, d, &opt, NULL, &cam, catmask, &scn); MJG_END; } else ok = 0;
  if (!ok) { printf("X update %s\nZ\n", mjg_last_error); return; }
  int needed = scn.ngeom;
  mjvGeom* full = (mjvGeom*)malloc(sizeof(mjvGeom) * (needed + 1));
  memcpy(full, scn.geoms, sizeof(mjvGeom) * needed);
  printf("H %d %d %d %d |", m->ngeom, needed, (int)opt.flags[mjVIS_STATIC], catmask);
  for (int k = 0; k < mjNGROUP; k++) printf(" %d", (int)opt.geomgroup[k]);
  printf(" |");
  for (int g = 0; g < m->ngeom; g++)
    printf(" %d:%d:%d:%d", m->body_weldid[m->geom_bodyid[g]] == 0 ? mjCAT_STATIC : mjCAT_DYNAMIC, m->geom_group[g], m->geom_rgba[4 * g + 3] != 0, m->geom_type[g]);
  printf(" | fullstatus %d\n", scn.status);
  for (int g = 0; g < m->ngeom; g++) {
    printf("M %d %d", g, m->geom_type[g]);
    for (int k = 0; k < 3; k++) printf(" %a", m->geom_size[3 * g + k]);
    for (int k = 0; k < 3; k++) printf(" %a", d->geom_xpos[3 * g + k]);
    for (int k = 0; k < 9; k++) printf(" %a", d->geom_xmat[9 * g + k]);
    printf("\n");
  }
  // every model geom of the unbounded scene: slot, objid, type, size, pos, mat
  for (int k = 0; k < needed; k++) if (full[k].objtype == mjOBJ_GEOM && full[k].category != mjCAT_DECOR) {
    printf("F %d %d %d", k, full[k].objid, full[k].type);
    for (int j = 0; j < 3; j++) printf(" %a", (double)full[k].size[j]);
    for (int j = 0; j < 3; j++) printf(" %a", (double)full[k].pos[j]);
    for (int j = 0; j < 9; j++) printf(" %a", (double)full[k].mat[j]);
    printf("\n");
  }
  int has_infinite = 0;
  for (int g = 0; g < m->ngeom; g++) if (m->geom_type[g] == mjGEOM_PLANE && (m->geom_size[3 * g] <= 0 || m->geom_size[3 * g + 1] <= 0)) has_infinite = 1;
  // capacity sweep
  int ncap = 0; int caps[600];
  if (needed <= 120) { for (int c = 0; c <= needed + 2; c++) caps[ncap++] = c; }
  else { for (int c = 0; c <= 40; c++) caps[ncap++] = c; for (int k = 0; k < 40; k++) caps[ncap++] = 41 + mjg_int(r, needed - 41); for (int c = needed - 3; c <= needed + 2; c++) caps[ncap++] = c; }
  for (int ci = 0; ci < ncap; ci++) {
    int cap = caps[ci];
    mjv_makeScene(m, &scn, cap);
    // replace the geom buffer by one with two guard slots after the capacity
    mjvGeom* own = (mjvGeom*)mju_malloc(sizeof(mjvGeom) * (cap + 2));
    memset(own, 0x5A, sizeof(mjvGeom) * (cap + 2));
    if (scn.geoms) mju_free(scn.geoms);
    scn.geoms = own;
    int maxg0 = scn.maxgeom;
    mjg_nwarning = 0;
    if (MJG_TRY) { mjv_updateScene(m, d, &opt, NULL, &cam, catmask, &scn); MJG_END; } else { printf("E cap %d: %s\n", cap, mjg_last_error); continue; }
    int ngeom = scn.ngeom, status = scn.status, nwarn = mjg_nwarning;
    int canary = 1; { const unsigned char* p = (const unsigned char*)(own + cap); for (size_t k = 0; k < 2 * sizeof(mjvGeom); k++) if (p[k] != 0x5A) canary = 0; }
    if (scn.maxgeom != maxg0 || scn.maxgeom != cap) canary = 0;
    int prefix = 1;
    if (ngeom >= 0 && ngeom <= cap) { for (int k = 0; k < ngeom && k < needed; k++) if (!geq(own + k, full + k)) prefix = 0; if (ngeom > needed) prefix = 0; } else prefix = 0;
    int nsafe = ngeom < 0 ? 0 : ngeom > cap ? cap : ngeom;
    mjvGeom* first = (mjvGeom*)malloc(sizeof(mjvGeom) * (nsafe + 1));
    memcpy(first, own, sizeof(mjvGeom) * nsafe);
    // further updates of the same scene: status sticky; the 2nd and 3rd update (same scene camera, which
    // the 1st update of a fresh scene sets) must give identical scenes; without an infinite plane the
    // 1st and 2nd must be identical too
    int det = 1, sticky = 1;
    if (MJG_TRY) { mjv_updateScene(m, d, &opt, NULL, &cam, catmask, &scn); MJG_END; } else det = 0;
    int n2 = scn.ngeom < 0 ? 0 : scn.ngeom > cap ? cap : scn.ngeom;
    if (scn.ngeom != ngeom) det = 0;
    if (!has_infinite) for (int k = 0; k < nsafe && k < n2; k++) if (!geq(own + k, first + k)) det = 0;
    mjvGeom* second = (mjvGeom*)malloc(sizeof(mjvGeom) * (n2 + 1));
    memcpy(second, own, sizeof(mjvGeom) * n2);
    if (MJG_TRY) { mjv_updateScene(m, d, &opt, NULL, &cam, catmask, &scn); MJG_END; } else det = 0;
    if (scn.ngeom != ngeom) det = 0; else for (int k = 0; k < n2; k++) if (!geq(own + k, second + k)) det = 0;
    free(second);
    if (status && scn.status != status) sticky = 0;
    if (!status && scn.status) sticky = 0;
    { const unsigned char* p = (const unsigned char*)(own + cap); for (size_t k = 0; k < 2 * sizeof(mjvGeom); k++) if (p[k] != 0x5A) canary = 0; }
    printf("S %d %d %d %d %d %d %d %d |", cap, ngeom, status, canary, det, nwarn, prefix, sticky);
    if (mode == 0 || mode == 3) for (int k = 0; k < nsafe; k++) printf(" %d:%d:%d:%d", first[k].objtype, first[k].objid, first[k].category, first[k].segid);
    printf("\n");
    free(first);
  }
  printf("Z\n");
  mjv_freeScene(&scn); free(full);
  mj_deleteData(d); mj_deleteModel(m);
}

int main(void) {
  mjg_install_handlers();
  char op[8];
  while (scanf("%7s", op) == 1) {
    if (op[0] == 'V') scenario(); else return 3;
    fflush(stdout);
  }
  return 0;
}
