"""C27 — actuation follows the documented transmission and force laws."""
import math
import framework as F

META = {
    "id": "C27", "category": "proof", "design_ref": "DESIGN.md section 4, C27",
    "technique": "Coq proofs over R of a Gallina model (Model/Actuation.v, generic over Lib/Num) of mj_fwdActuation and the muscle functions + float correspondence of the same model with mj_fwdActuation / mju_muscle* of the working tree on generated models + documented-law oracle on implementation outputs",
    "text": "filled in below",
    "note": "filled in below",
    "assumptions": [
        "theorems are about exact real arithmetic; IEEE rounding is outside every theorem (the model is run at binary64 only for the tie, tolerance 2^-30 scaled)",
        "hand-written model Model/Actuation.v; the tie is differential testing on the cases of this run",
        "the transmission (actuator_length, actuator_velocity, actuator_moment) is an input of the model, taken from the implementation",
        "exp of the float runs (filterexact with actearly) comes from the unverified Lib/FloatFn.v (executable side only)",
    ],
}
META["text"] = (
    "Proved in Coq over the reals, for all inputs, about the model Model/Actuation.v of mj_fwdActuation (single-input single-output actuators without delay, dyntype none/integrator/filter/filterexact/muscle, "
    "gaintype fixed/affine/muscle, biastype none/affine/muscle, non-periodic transmission): every clamp (ctrlrange, forcerange, actrange in mj_nextActivation, joint actfrcrange) lands in its range when lo <= hi and is the identity inside it "
    "(C27_clip_range, C27_clip_id, C27_ctrl_clamped, C27_force_clamped, C27_next_activation_in_range, C27_dof_clamped); with mjDSBL_CLAMPCTRL or ctrllimited off the control is passed unchanged (C27_ctrl_unclamped); "
    "an actuator whose group bit is set in disableactuator (groups 0..30) has zero actuator_force after the whole pipeline (gain/bias, tendon force scaling, forcerange clamp: unconditional since the fix f11675ac7 of /repo, before it a forcerange excluding 0 gave clamp(0)), for every state, and a zero force contributes nothing to qfrc_actuator (C27_disabled_zero_force, C27_disabled_group_bit, C27_zero_force_no_contribution); "
    "the affine law: force = (g0 + g1 l + g2 v) u + b0 + b1 l + b2 v, in particular the position servo kp (u - l) - kv v (C27_affine_law, C27_position_servo); "
    "qfrc_actuator before the per-dof post-processing is moment^T force: additive and homogeneous in the force vector (C27_moment_additive, C27_moment_homogeneous); "
    "muscle: the length curve lies in [0,1], the velocity curve in [0,fvmax] for fvmax >= 1, hence mju_muscleGain <= 0 and >= -force*fvmax for a non-negative peak force, mju_muscleBias <= 0 for non-negative force and fpmax "
    "(MuJoCo's sign convention: muscles pull), mju_sigmoid in [0,1]; activation dynamics move act towards the clamped control (C27_muscle_FL_range, C27_muscle_FV_range, C27_muscle_gain_sign, C27_muscle_bias_sign, C27_sigmoid_range, C27_muscle_dynamics_sign, for all parameters). "
    "Tied on every run: the exported mju_muscleGain/Bias/Dynamics/GainLength/sigmoid on random and branch-boundary inputs, and mj_fwdActuation outputs (act_dot, actuator_force, qfrc_actuator) on mjgen models extended with muscles, actuator groups and disableactuator masks, "
    "forcerange, joint and tendon actuator-force ranges, actuator gravity compensation, actearly and mjDSBL_CLAMPCTRL, all evaluated in the Coq model at binary64. "
    "Oracle on implementation output (independent of the model): qfrc_actuator = clamp(moment^T force + actuator gravcomp) to 1e-12 scaled, forces within forcerange, clamped dofs within actfrcrange, disabled groups give exactly zero force and frozen activations over a step, "
    "activations within actrange after mj_step, the affine/filter/integrator laws recomputed from the state with the clamped control, muscle forces non-positive. "
    "Not covered: PID/DC-motor/SO3/user actuator types, delays, periodic (ball/site) servo setpoints, mj_transmission itself (moment arms are inputs), bad-control zeroing beyond the model's ctrl_vector, sleeping.")
META["note"] = ("Trusted: Coq kernel + the standard-library real-number axioms listed in trusted_base; hand-written model; Lib/FloatFn.v (executable side); "
                "correspondence harness (gcc, driver c27_act.c which #includes engine/engine_forward.c, mjgen.h).")

TOL = "0x1p-30"


def hx(x):
    return float(x).hex()


def fl(t):
    t = t.strip()
    if t in ("nan", "-nan"):
        return math.nan
    if t in ("inf", "-inf"):
        return math.inf if t[0] != "-" else -math.inf
    return float.fromhex(t)


def clip(x, lo, hi):
    return lo if x < lo else (hi if x > hi else x)


def close(a, b, tol=1e-9):
    if a != a or b != b:
        return a != a and b != b
    return abs(a - b) <= tol * (1 + abs(a) + abs(b))


def ff(x):
    return "(%s)%%float" % F.fhex(x)


def zz(n):
    return "(%d)%%Z" % n


def bb(b):
    return "true" if b else "false"


class A:
    pass


def parse_act(t):
    a = A()
    i = 1
    a.dyn, a.gain, a.bias = int(t[1]), int(t[2]), int(t[3])
    i = 4
    a.dynprm = [fl(x) for x in t[i:i + 3]]; i += 3
    a.gainprm = [fl(x) for x in t[i:i + 9]]; i += 9
    a.biasprm = [fl(x) for x in t[i:i + 9]]; i += 9
    a.cl = int(t[i]); a.crange = [fl(t[i + 1]), fl(t[i + 2])]; i += 3
    a.fl = int(t[i]); a.frange = [fl(t[i + 1]), fl(t[i + 2])]; i += 3
    a.al = int(t[i]); a.arange = [fl(t[i + 1]), fl(t[i + 2])]; i += 3
    a.early, a.group, a.actnum, a.actadr = int(t[i]), int(t[i + 1]), int(t[i + 2]), int(t[i + 3]); i += 4
    a.lr = [fl(t[i]), fl(t[i + 1])]; a.acc0 = fl(t[i + 2]); i += 3
    a.tendon = int(t[i]); i += 1
    a.ctrl, a.act, a.len, a.vel, a.dot, a.force = [fl(x) for x in t[i:i + 6]]
    if len(t) != i + 6:
        raise ValueError("actuator line length")
    return a


def coq_act(a):
    return "(%s, %s, %s, (%s, %s, %s), %s, %s, (%s, %s, %s), (%s, %s, %s), (%s, %s, %s), %s, %s, %s, (%s, %s), %s, %s)" % (
        zz(a.dyn), zz(a.gain), zz(a.bias), ff(a.dynprm[0]), ff(a.dynprm[1]), ff(a.dynprm[2]), F.flist(a.gainprm), F.flist(a.biasprm),
        bb(a.cl), ff(a.crange[0]), ff(a.crange[1]), bb(a.fl), ff(a.frange[0]), ff(a.frange[1]), bb(a.al), ff(a.arange[0]), ff(a.arange[1]),
        bb(a.early), zz(a.group), zz(a.actnum), ff(a.lr[0]), ff(a.lr[1]), ff(a.acc0), zz(a.tendon))


PRE = """
Definition AT := (Z * Z * Z * (float * float * float) * list float * list float * (bool * float * float) * (bool * float * float) *
                  (bool * float * float) * bool * Z * Z * (float * float) * float * Z)%type.
Definition mkA (t : AT) : Actuator :=
  match t with (dy, ga, bi, dp, gp, bp, (cl, clo, chi), (fl, flo, fhi), (al, alo, ahi), ea, gr, num, lr, acc0, td) =>
    mkActuator dy ga bi dp gp bp cl (clo, chi) fl (flo, fhi) al (alo, ahi) ea gr num lr acc0 td end.
Definition mkD (t : bool * float * bool * float * float) : option float * bool * float * float :=
  match t with (add, g, lim, lo, hi) => (if add then Some g else None, lim, lo, hi) end.
Definition chkM (c : Z * float * bool * nat * list AT * list float * list (float * float * float) * list (bool * float * float) *
                     list (list float) * list (bool * float * bool * float * float) * (list float * list float * list float)) : bool :=
  match c with (mask, h, noclamp, nv, acts, ctrl, st, tendons, moment, dofs, (dots, forces, qfrc)) =>
    let A := map mkA acts in
    let us := ctrl_vector noclamp A ctrl in
    let f := actuator_forces mask h tendons A us st in
    fclose_list TOL (act_dots A us st) dots && fclose_list TOL f forces &&
    fclose_list TOL (qfrc_actuator nv moment f (map mkD dofs)) qfrc end.
Definition chkF (c : Z * list float * float) : bool :=
  match c with (op, a, out) =>
    let g := fun i => nth i a 0%float in
    let prm := fun k => skipn k a in
    fclose TOL out
      (if (op =? 0)%Z then muscleGain (g 0%nat) (g 1%nat) (g 2%nat, g 3%nat) (g 4%nat) (prm 5%nat)
       else if (op =? 1)%Z then muscleBias (g 0%nat) (g 1%nat, g 2%nat) (g 3%nat) (prm 4%nat)
       else if (op =? 2)%Z then muscleDynamics (g 0%nat) (g 1%nat) (g 2%nat, g 3%nat, g 4%nat)
       else if (op =? 3)%Z then muscleGainLength (g 0%nat) (g 1%nat) (g 2%nat)
       else sigmoid (g 0%nat)) end.
""".replace("TOL", TOL)


def law_force(a, h, mask, u):
    """documented force of a non-muscle actuator before tendon scaling and forcerange (None: not covered by the oracle)"""
    if a.gain == 2 or a.bias == 2 or a.dyn == 4:
        return None
    if 0 <= a.group <= 30 and (mask >> a.group) & 1:
        return 0.0
    g = a.gainprm[0] if a.gain == 0 else a.gainprm[0] + a.gainprm[1] * a.len + a.gainprm[2] * a.vel
    b = 0.0 if a.bias == 0 else a.biasprm[0] + a.biasprm[1] * a.len + a.biasprm[2] * a.vel
    if a.actnum == 0:
        x = u
    else:
        x = a.act
        if a.early:
            if a.dyn == 3:
                tau = max(1e-15, a.dynprm[0])
                x = a.act + a.dot * tau * (1 - math.exp(-h / tau))
            else:
                x = a.act + a.dot * h
            if a.al:
                x = clip(x, a.arange[0], a.arange[1])
    return g * x + b


def run(ctx):
    rng = ctx.rng
    big = ctx.tier != "quick"
    ctx.coq_props(allowed_axioms=F.STD_AXIOMS, extra_targets=["Lib/Num.vo", "Lib/NumF.vo", "Lib/FloatFn.vo", "Model/Actuation.vo"])
    exe = ctx.driver("c27_act", ["c27_act.c"])
    if exe is None:
        return
    MJG = dict(FREE=1, BALL=2, SLIDE=4, TENDON=32, ACTUATOR=64, ACTDYN=128, LIMIT=1024, SPRING=4096, MULTITREE=32768, SITE=65536, GRAVCOMP=1 << 18)
    base = MJG["ACTUATOR"]
    req = []
    nmod = 260 if big else 35
    for k in range(nmod):
        feat = base
        for nm in ("FREE", "BALL", "SLIDE", "TENDON", "ACTDYN", "LIMIT", "SPRING", "MULTITREE", "GRAVCOMP"):
            if rng.random() < (0.75 if nm in ("ACTDYN", "TENDON", "SLIDE") else 0.4):
                feat |= MJG[nm]
        req.append(("M", rng.randrange(1, 10 ** 6), feat, rng.randint(1, 6), k))
    # muscle functions
    fcases = []
    nf = 500 if big else 60

    def rprm():
        return [rng.uniform(0.5, 0.9), rng.uniform(1.0, 1.4), rng.choice([-1.0, rng.uniform(0.5, 80)]), rng.uniform(50, 400), rng.uniform(0.2, 0.8),
                rng.uniform(1.2, 2.0), rng.uniform(0.5, 2.5), rng.uniform(0.5, 2.0), rng.uniform(1.01, 1.8)]
    for k in range(nf):
        prm = rprm()
        lr = [-rng.uniform(0.1, 1), rng.uniform(0.1, 1)]
        acc0 = rng.choice([rng.uniform(0.5, 50), 0.0, 1e-16])
        L0 = (lr[1] - lr[0]) / max(1e-15, prm[1] - prm[0])
        # normalized length targets at and around the branch points of the FL curve and of the passive curve
        a_, b_ = 0.5 * (prm[4] + 1), 0.5 * (1 + prm[5])
        Lt = rng.choice([prm[4], a_, 1.0, b_, prm[5], rng.uniform(0, 2.5), rng.uniform(prm[4], prm[5]), prm[4] - 1e-9, prm[5] + 1e-9])
        length = lr[0] + (Lt - prm[0]) * L0
        Vt = rng.choice([-1.0, 0.0, prm[8] - 1, rng.uniform(-2, 2), -1 - 1e-9, 1e-12])
        vel = Vt * L0 * prm[6]
        fcases.append((0, [length, vel] + lr + [acc0] + prm))
        fcases.append((1, [length] + lr + [acc0] + prm))
        p3 = [rng.uniform(0.005, 0.05), rng.uniform(0.01, 0.1), rng.choice([0.0, 0.0, rng.uniform(0.01, 1), 1e-16])]
        ctrl = rng.choice([rng.uniform(-0.5, 1.5), 0.0, 1.0])
        act = rng.choice([rng.uniform(-0.5, 1.5), ctrl, 0.0, 1.0])
        fcases.append((2, [ctrl, act] + p3))
        fcases.append((3, [Lt, prm[4], prm[5]]))
        fcases.append((4, [rng.choice([rng.uniform(-0.5, 1.5), 0.0, 1.0, 0.5, 1e-300])]))
    # degenerate muscle parameters (denominators below mjMINVAL)
    fcases.append((0, [0.1, 0.2, -0.5, -0.5, 1.0, 0.75, 0.75, 1.0, 200.0, 1.0, 1.0, 0.0, 1.3, 1.0]))
    fcases.append((1, [0.1, 0.3, 0.3, 0.0, 0.75, 1.05, -1.0, 200.0, 0.5, 1.0, 1.5, 1.3, 1.2]))
    fcases.append((3, [1.0, 1.0, 1.0]))
    opc = "GBDLS"
    inp = "".join("M %d %d %d %d\n" % r[1:] for r in req) + "".join("%s %s\n" % (opc[op], " ".join(hx(x) for x in a)) for op, a in fcases)
    rc, out, err = ctx.run(exe, inp)
    lines = out.split("\n")
    if rc != 0:
        ctx.broken.append(("correspondence", "driver c27_act failed", "rc=%s %s" % (rc, err[-800:])))
        return
    pos = 0
    mcases, mmeta = [], []
    stats = dict(models=0, skipped=0, actuators=0, disabled=0, ctrl_clamped=0, force_clamped=0, dof_clamped=0, tendon_scaled=0, muscles=0, actearly=0, gravcomp_dofs=0,
                 law_checks=0, by_type={})
    try:
        for r in req:
            head = lines[pos].split(); pos += 1
            if head[:2] == ["M", "SKIP"]:
                stats["skipped"] += 1
                continue
            if head[:2] != ["M", "OK"]:
                ctx.broken.append(("correspondence", "generated model rejected", " ".join(head[:30]) + " request=%s" % (r,)))
                continue
            nu, nv, na, nt = int(head[3]), int(head[5]), int(head[7]), int(head[9])
            h, mask, noclamp = fl(head[11]), int(head[13]), int(head[15])
            acts = []
            for i in range(nu):
                acts.append(parse_act(lines[pos].split())); pos += 1
            t = lines[pos].split(); pos += 1
            tendons = [(int(t[1 + 3 * k]), fl(t[2 + 3 * k]), fl(t[3 + 3 * k])) for k in range(nt)]
            t = lines[pos].split(); pos += 1
            mom = [fl(x) for x in t[1:]]
            if len(mom) != nu * nv:
                raise ValueError("moment size")
            moment = [mom[i * nv:(i + 1) * nv] for i in range(nu)]
            t = lines[pos].split(); pos += 1
            dofs = [(int(t[1 + 5 * v]), fl(t[2 + 5 * v]), int(t[3 + 5 * v]), fl(t[4 + 5 * v]), fl(t[5 + 5 * v])) for v in range(nv)]
            t = lines[pos].split(); pos += 1
            qfrc = [fl(x) for x in t[1:]]
            t = lines[pos].split(); pos += 1
            anext = [fl(x) for x in t[1:]]
            if len(qfrc) != nv or len(anext) != na:
                raise ValueError("vector sizes")
            stats["models"] += 1
            case = {"request": "M %d %d %d %d" % r[1:]}
            oracle(ctx, case, acts, tendons, moment, dofs, qfrc, anext, h, mask, noclamp, stats)
            mcases.append("(%s, %s, %s, %d%%nat, [%s], %s, [%s], [%s], [%s], [%s], (%s, %s, %s))" % (
                zz(mask), ff(h), bb(noclamp), nv, "; ".join(coq_act(a) for a in acts), F.flist([a.ctrl for a in acts]),
                "; ".join("(%s, %s, %s)" % (ff(a.act), ff(a.len), ff(a.vel)) for a in acts),
                "; ".join("(%s, %s, %s)" % (bb(l), ff(lo), ff(hi)) for l, lo, hi in tendons),
                "; ".join(F.flist(row) for row in moment),
                "; ".join("(%s, %s, %s, %s, %s)" % (bb(ad), ff(g), bb(l), ff(lo), ff(hi)) for ad, g, l, lo, hi in dofs),
                F.flist([a.dot for a in acts]), F.flist([a.force for a in acts]), F.flist(qfrc)))
            mmeta.append(case)
        flits = []
        for op, a in fcases:
            t = lines[pos].split(); pos += 1
            if t[0] != opc[op]:
                raise ValueError("function reply out of order")
            v = fl(t[1])
            flits.append("(%s, %s, %s)" % (zz(op), F.flist(a), ff(v)))
            # sign oracle on implementation output
            prm = a[5:] if op == 0 else a[4:] if op == 1 else None
            if op in (0, 1) and (prm[2] >= 0 or prm[3] >= 0) and v > 0:
                ctx.violation("impl_violation", {"fn": "mju_muscleGain" if op == 0 else "mju_muscleBias", "args": a}, expected="<= 0 (muscles pull)", observed=v,
                              theorem="C27_muscle_gain_sign" if op == 0 else "C27_muscle_bias_sign", signature={"site": "muscle", "class": "sign"})
            if op in (3, 4) and not (0 <= v <= 1):
                ctx.violation("impl_violation", {"fn": "mju_muscleGainLength" if op == 3 else "mju_sigmoid", "args": a}, expected="in [0, 1]", observed=v,
                              theorem="C27_muscle_FL_range" if op == 3 else "C27_sigmoid_range", signature={"site": "muscle", "class": "range"})
            if op == 2:
                d = clip(a[0], 0, 1) - a[1]
                if (d > 0 and v <= 0) or (d < 0 and v >= 0) or (d == 0 and v != 0):
                    ctx.violation("impl_violation", {"fn": "mju_muscleDynamics", "args": a}, expected="act_dot has the sign of clip(ctrl,0,1) - act", observed=v,
                                  theorem="C27_muscle_dynamics_sign", signature={"site": "muscle", "class": "dynamics-sign"})
    except (ValueError, IndexError) as e:
        ctx.broken.append(("correspondence", "driver c27_act output not understood", "%s at line %d: %s" % (e, pos, lines[pos - 1][:300] if 0 < pos <= len(lines) else "")))
        return
    imp = "From Coq Require Import ZArith PrimFloat Bool.\nFrom MJV Require Import Lib.Num Lib.NumF Lib.FloatFn Model.Actuation.\n"
    fails = ctx.coq_eval("c27_model", imp, mcases, "chkM", pre=PRE, shard=40)
    for i in fails[:1]:
        ctx.violation("correspondence", mmeta[i], expected="Model/Actuation.v at binary64 (act_dot, actuator_force, qfrc_actuator)", observed="implementation output differs (tolerance 2^-30 scaled)",
                      found_input=False, theorem="correspondence c27 mj_fwdActuation", signature={"site": "mj_fwdActuation"},
                      note="implementation and Coq model disagree; the law oracle did not flag this input")
    ffails = ctx.coq_eval("c27_fn", imp, flits, "chkF", pre=PRE, shard=400)
    seen = set()
    for i in ffails:
        op, a = fcases[i]
        if op in seen:
            continue
        seen.add(op)
        ctx.violation("correspondence", {"fn": opc[op], "args": a}, expected="Model/Actuation.v muscle function at binary64", observed="differs", found_input=False,
                      theorem="correspondence c27 muscle function " + opc[op], signature={"site": "muscle", "op": opc[op]})
    ctx.cov["evaluations"] = len(mcases) + len(flits)
    ctx.cov["distinct_nontrivial"] = stats["ctrl_clamped"] + stats["force_clamped"] + stats["dof_clamped"] + stats["disabled"] + stats["muscles"] + len(flits)
    ctx.cov["rule"] = ("one evaluation = one generated model state (mj_forward: act_dot, actuator_force, qfrc_actuator of all its actuators compared with the Coq model at binary64) or one muscle-function call; "
                       "non-trivial = actuator instances with an active ctrl clamp / active force clamp / disabled group / muscle type, dofs with an active joint force clamp, and all muscle-function calls (branch points included)")
    ctx.cov["samples"] = [mmeta[0] if mmeta else None, {"fn": opc[fcases[0][0]], "args": fcases[0][1]}]
    ctx.cov["correspondence_disagreements"] = len(fails) + len(ffails)
    ctx.cov["support"]["stats"] = stats
    ctx.cov["explanation"] = ("theorems of Props/C27.v proved over R for all inputs; model tied to mj_fwdActuation on %d model states (%d actuators) and to the muscle functions on %d calls; law oracle: %d checks"
                              % (len(mcases), stats["actuators"], len(flits), stats["law_checks"]))


def oracle(ctx, case, acts, tendons, moment, dofs, qfrc, anext, h, mask, noclamp, stats):
    nv = len(qfrc)
    # control as the actuator sees it
    us = []
    for a in acts:
        u = a.ctrl
        if not noclamp and a.cl:
            u = clip(u, a.crange[0], a.crange[1])
            if u != a.ctrl:
                stats["ctrl_clamped"] += 1
        us.append(u)
    # 1. transmission + post-processing
    for v in range(nv):
        s = 0.0
        for i, a in enumerate(acts):
            s += moment[i][v] * a.force
        add, g, lim, lo, hi = dofs[v]
        if add:
            s += g
            stats["gravcomp_dofs"] += 1
        if lim:
            c = clip(s, lo, hi)
            if c != s:
                stats["dof_clamped"] += 1
            s = c
            if not (lo - 1e-12 <= qfrc[v] <= hi + 1e-12):
                ctx.violation("impl_violation", dict(case, dof=v), expected="qfrc_actuator within jnt_actfrcrange [%r, %r]" % (lo, hi), observed=qfrc[v],
                              theorem="C27_dof_clamped", signature={"site": "mj_fwdActuation", "class": "actfrcrange"})
        stats["law_checks"] += 1
        if not close(qfrc[v], s, 1e-12):
            ctx.violation("impl_violation", dict(case, dof=v), expected="clamp(moment^T force + gravcomp) = %r" % s, observed=qfrc[v],
                          theorem="C27_moment_additive", signature={"site": "mj_fwdActuation", "class": "transmission"})
            break
    # tendon totals of the law forces
    law = [law_force(a, h, mask, u) for a, u in zip(acts, us)]
    tot = {}
    scaled = set()
    for a, f in zip(acts, law):
        if a.tendon >= 0:
            tot.setdefault(a.tendon, []).append(f)
    for tid, fs in tot.items():
        lim, lo, hi = tendons[tid]
        if lim:
            if any(f is None for f in fs):
                scaled.add(tid)        # muscle on a limited tendon: scaling not recomputed by the oracle
            else:
                s = sum(fs)
                if s and (s < lo or s > hi):
                    scaled.add(tid)
                    stats["tendon_scaled"] += 1
    for i, (a, u, f) in enumerate(zip(acts, us, law)):
        stats["actuators"] += 1
        key = "dyn%d/gain%d/bias%d" % (a.dyn, a.gain, a.bias)
        stats["by_type"][key] = stats["by_type"].get(key, 0) + 1
        c = dict(case, actuator=i)
        disabled = 0 <= a.group <= 30 and (mask >> a.group) & 1
        if a.early and a.actnum:
            stats["actearly"] += 1
        if a.gain == 2:
            stats["muscles"] += 1
        if disabled:
            stats["disabled"] += 1
            if a.force != 0.0:
                ctx.violation("impl_violation", c, expected="actuator in disabled group %d (disableactuator=%d) produces zero force" % (a.group, mask), observed=a.force,
                              theorem="C27_disabled_zero_force", signature={"site": "mj_fwdActuation", "class": "disabled-group"},
                              note=("forcerange %r" % a.frange) if a.fl else "")
            if a.fl and not (a.frange[0] <= 0 <= a.frange[1]):
                stats["disabled_forcerange_excludes_zero"] = stats.get("disabled_forcerange_excludes_zero", 0) + 1
            if a.actnum and anext[a.actadr] != a.act:
                ctx.violation("impl_violation", c, expected="activation of a disabled actuator is frozen over mj_step (%r)" % a.act, observed=anext[a.actadr],
                              theorem="C27_disabled_zero_force", signature={"site": "mj_advance", "class": "disabled-act"})
        elif a.actnum and a.al and not (a.arange[0] <= anext[a.actadr] <= a.arange[1]):
            ctx.violation("impl_violation", c, expected="activation within actrange %r after mj_step" % a.arange, observed=anext[a.actadr],
                          theorem="C27_next_activation_in_range", signature={"site": "mj_advance", "class": "actrange"})
        if a.fl and not disabled:
            if not (a.frange[0] <= a.force <= a.frange[1]):
                ctx.violation("impl_violation", c, expected="actuator_force within forcerange %r" % a.frange, observed=a.force,
                              theorem="C27_force_clamped", signature={"site": "mj_fwdActuation", "class": "forcerange"})
        # activation dynamics
        if a.actnum and a.dyn in (1, 2, 3):
            exp = u if a.dyn == 1 else (u - a.act) / max(1e-15, a.dynprm[0])
            stats["law_checks"] += 1
            if not close(a.dot, exp):
                ctx.violation("impl_violation", c, expected="act_dot = %r (dyntype %d with the clamped control %r)" % (exp, a.dyn, u), observed=a.dot,
                              theorem="C27_ctrl_clamped", signature={"site": "mj_fwdActuation", "class": "act_dot"})
        # force law
        if f is not None and a.tendon not in scaled:
            exp = f
            if a.fl and not disabled:
                e2 = clip(exp, a.frange[0], a.frange[1])
                if e2 != exp:
                    stats["force_clamped"] += 1
                exp = e2
            stats["law_checks"] += 1
            if not close(a.force, exp):
                ctx.violation("impl_violation", c, expected="clamp(gain*input + bias) = %r with the clamped control %r" % (exp, u), observed=a.force,
                              theorem="C27_affine_law", signature={"site": "mj_fwdActuation", "class": "force-law"})
        if a.gain == 2 and a.bias == 2 and not disabled and a.gainprm[3] >= 0:
            x = a.act
            if x >= 0 and not a.early and a.force > 1e-12:
                ctx.violation("impl_violation", c, expected="muscle force <= 0 for a non-negative activation", observed=a.force,
                              theorem="C27_muscle_gain_sign", signature={"site": "mj_fwdActuation", "class": "muscle-sign"})
