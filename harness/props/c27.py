"""C27 — actuation follows the documented transmission and force laws."""
import math
import framework as F

META = {
    "id": "C27", "category": "proof", "design_ref": "DESIGN.md section 4, C27",
    "technique": "Coq proofs over R of a Gallina model (Model/Actuation.v, generic over Lib/Num) of mj_fwdActuation and the muscle functions + float correspondence of the same model with mj_fwdActuation / mju_muscle* of the working tree on generated models + documented-law oracle on implementation outputs",
    "text": "filled in below",
    "note": "filled in below",
    "assumptions": [
        "theorems are about exact real arithmetic; IEEE rounding is outside every theorem (the model is run at binary64 only for the tie, tolerance 2^-30 scaled)",
        "hand-written model Model/Actuation.v; the tie is differential testing on the cases of this run",
        "the transmission (actuator_length, actuator_velocity, actuator_moment) is an input of the model, taken from the implementation",
        "exp of the float runs (filterexact with actearly) comes from the unverified Lib/FloatFn.v (executable side only)",
    ],
}
META["text"] = (
    "Proved in Coq over the reals, for all inputs, about the model Model/Actuation.v of mj_fwdActuation (actuators without delay: single-input single-output actuators with dyntype none/integrator/filter/filterexact/muscle, "
    "gaintype fixed/affine/muscle, biastype none/affine/muscle, non-periodic transmission; stateless SO3 orientation servos with 3 or 4 controls and 3 force outputs). The model keeps three index spaces apart: actuator index (parameters, forcerange), "
    "control index (ctrl, ctrlrange, through ctrladr) and output index (actuator_length/velocity/force, moment rows, through outadr). "
    "Clamps: every clamp lands in its range when lo <= hi and is the identity inside it (C27_clip_range, C27_clip_id, C27_ctrl_clamped, C27_next_activation_in_range, C27_dof_clamped); with mjDSBL_CLAMPCTRL or ctrllimited off the control is passed unchanged (C27_ctrl_unclamped); "
    "one step of the forcerange loop clips the OUTPUT block [outadr, outadr+outnum) of actuator i with the forcerange OF ACTUATOR i, leaves every entry outside that block untouched and does nothing for actuators that are not force-limited or are disabled "
    "(C27_clamp_uses_own_range, C27_clamp_frame, C27_clamp_skipped); an SO3 block ends with norm <= forcerange[1] of its actuator (C27_so3_force_clamped); through the whole pipeline, for actuator lists mixing scalar and multi-output actuators in any order, "
    "the actuator_force entry at the output address of an enabled force-limited scalar actuator lies in that actuator's own forcerange (C27_force_clamped, under the non-overlapping cumulative output layout which the driver checks on every model). "
    "Disabled groups: mj_actuatorDisabled tests exactly bit group for groups 0..30 (C27_disabled_group_bit); every entry of the output block of a disabled actuator (scalar or SO3) is zero after gain/bias, tendon force scaling and forcerange clamp, for every state "
    "(C27_disabled_zero_force; unconditional since fix f11675ac7 of /repo), and a zero force contributes nothing to qfrc_actuator (C27_zero_force_no_contribution); with mjDSBL_ACTUATION act_dot, actuator_force and qfrc_actuator are all zero (C27_actuation_disabled_zero, fix 21bbfbf26). "
    "Laws: force = (g0 + g1 l + g2 v) u + b0 + b1 l + b2 v, the position servo kp (u - l) - kv v, gain*act + bias for stateful actuators (C27_affine_law, C27_position_servo, C27_stateful_law); "
    "moment^T force is additive and homogeneous in the force vector (C27_moment_additive, C27_moment_homogeneous); "
    "muscle: length curve in [0,1], velocity curve in [0,fvmax] for fvmax >= 1, mju_muscleGain in [-force*fvmax, 0] and mju_muscleBias <= 0 for non-negative force and fpmax (MuJoCo's sign convention: muscles pull), mju_sigmoid in [0,1], "
    "activation dynamics move act towards the clamped control for all parameters (C27_muscle_FL_range, C27_muscle_FV_range, C27_muscle_gain_sign, C27_muscle_bias_sign, C27_sigmoid_range, C27_muscle_dynamics_sign). "
    "Tied on every run: the exported mju_muscleGain/Bias/Dynamics/GainLength/sigmoid on random and branch-boundary inputs, and mj_fwdActuation outputs (act_dot, actuator_force over all outputs, qfrc_actuator) on mjgen models extended with SO3 servos (exponential-map and quaternion targets) "
    "placed between scalar actuators (so that nactuator, nu and nout all differ), force-limited scalar motors after them with saturating controls, muscles, actuator groups and disableactuator masks, joint and tendon actuator-force ranges, actuator gravity compensation, actearly, "
    "mjDSBL_CLAMPCTRL and mjDSBL_ACTUATION (with stale act_dot planted before the call), and an activation-range stratum (every stateful dyntype x actearly with an asymmetric actrange, time constants of the order of the timestep, the state exactly at / just inside / beyond an end of the range and a control pushing outwards, four mj_steps); act_dot, forces, qfrc and the activation after the first step are evaluated in the Coq model at binary64. "
    "Oracle on implementation output (independent of the model; ranges read by actuator index, outputs by outadr, controls by ctrladr): every enabled force-limited scalar actuator has actuator_force[outadr] within forcerange[i] and equal to clamp(gain*input + bias) recomputed with the clamped control, "
    "SO3 blocks have norm <= forcerange[1], qfrc_actuator = clamp(moment^T force + actuator gravcomp) to 1e-12 scaled, clamped dofs within actfrcrange, disabled groups give exactly zero output blocks and frozen activations over a step, "
    "activations within actrange after each of four mj_steps, filter/integrator act_dot laws, muscle forces non-positive, everything zero with mjDSBL_ACTUATION. "
    "Not covered: PID/DC-motor/user actuator types, SO3 with integrator dynamics or site transmission (the SO3 force law itself is tied but has no theorem beyond the clamp), delays, periodic (ball/site) scalar servo setpoints, mj_transmission itself (moment arms are inputs), sleeping.")
META["note"] = ("Trusted: Coq kernel + the standard-library real-number axioms listed in trusted_base; hand-written model; Lib/FloatFn.v (executable side); "
                "correspondence harness (gcc, driver c27_act.c which #includes engine/engine_forward.c, mjgen.h).")

TOL = "0x1p-30"


def hx(x):
    return float(x).hex()


def fl(t):
    t = t.strip()
    if t in ("nan", "-nan"):
        return math.nan
    if t in ("inf", "-inf"):
        return math.inf if t[0] != "-" else -math.inf
    return float.fromhex(t)


def clip(x, lo, hi):
    return lo if x < lo else (hi if x > hi else x)


def close(a, b, tol=1e-9):
    if a != a or b != b:
        return a != a and b != b
    return abs(a - b) <= tol * (1 + abs(a) + abs(b))


def ff(x):
    return "(%s)%%float" % F.fhex(x)


def zz(n):
    return "(%d)%%Z" % n


def bb(b):
    return "true" if b else "false"


class A:
    pass


def parse_act(t, idx):
    """A-line of the driver: parameters by ACTUATOR index; addresses into the control and output index spaces"""
    a = A()
    a.idx = idx
    a.dyn, a.gain, a.bias = int(t[1]), int(t[2]), int(t[3])
    i = 4
    a.dynprm = [fl(x) for x in t[i:i + 3]]; i += 3
    a.gainprm = [fl(x) for x in t[i:i + 9]]; i += 9
    a.biasprm = [fl(x) for x in t[i:i + 9]]; i += 9
    a.fl = int(t[i]); a.frange = [fl(t[i + 1]), fl(t[i + 2])]; i += 3
    a.al = int(t[i]); a.arange = [fl(t[i + 1]), fl(t[i + 2])]; i += 3
    a.early, a.group, a.actnum, a.actadr = int(t[i]), int(t[i + 1]), int(t[i + 2]), int(t[i + 3]); i += 4
    a.lr = [fl(t[i]), fl(t[i + 1])]; a.acc0 = fl(t[i + 2]); i += 3
    a.tendon = int(t[i]); i += 1
    a.ctrladr, a.ctrlnum, a.ctrlspec, a.outadr, a.outnum = [int(x) for x in t[i:i + 5]]; i += 5
    a.act, a.dot = fl(t[i]), fl(t[i + 1])
    if len(t) != i + 2:
        raise ValueError("actuator line length")
    a.so3 = a.gain == 4
    return a


def coq_act(a):
    return "(%s, %s, %s, (%s, %s, %s), %s, %s, (%s, %s, %s), (%s, %s, %s), %s, %s, %s, (%s, %s), %s, %s, (%s, %s, %s, %s), %s)" % (
        zz(a.dyn), zz(a.gain), zz(a.bias), ff(a.dynprm[0]), ff(a.dynprm[1]), ff(a.dynprm[2]), F.flist(a.gainprm), F.flist(a.biasprm),
        bb(a.fl), ff(a.frange[0]), ff(a.frange[1]), bb(a.al), ff(a.arange[0]), ff(a.arange[1]),
        bb(a.early), zz(a.group), zz(a.actnum), ff(a.lr[0]), ff(a.lr[1]), ff(a.acc0), zz(a.tendon),
        zz(a.ctrladr), zz(a.ctrlspec), zz(a.outadr), zz(a.outnum), ff(a.act))


PRE = """
Definition AT := (Z * Z * Z * (float * float * float) * list float * list float * (bool * float * float) *
                  (bool * float * float) * bool * Z * Z * (float * float) * float * Z * (Z * Z * Z * Z) * float)%type.
Definition mkA (t : AT) : Actuator * float :=
  match t with (dy, ga, bi, dp, gp, bp, (fl, flo, fhi), (al, alo, ahi), ea, gr, num, lr, acc0, td, (cadr, cspec, oadr, onum), act) =>
    (mkActuator dy ga bi dp gp bp fl (flo, fhi) al (alo, ahi) ea gr num lr acc0 td cadr cspec oadr onum, act) end.
Definition mkD (t : bool * float * bool * float * float) : option float * bool * float * float :=
  match t with (add, g, lim, lo, hi) => (if add then Some g else None, lim, lo, hi) end.
Definition chkM (c : (bool * Z * float * bool * nat * nat) * list AT * (list (bool * float * float) * list float * list float * list float) *
                     list (bool * float * float) * list (list float) * list (bool * float * bool * float * float) *
                     (list float * list float * list float * list float)) : bool :=
  match c with ((actoff, mask, h, noclamp, nout, nv), acts, (lims, ctrl, len, vel), tendons, moment, dofs, (dots, forces, qfrc, anext)) =>
    match fwd_actuation actoff mask h nout nv noclamp lims ctrl len vel (map mkA acts) tendons moment (map mkD dofs) with
    | (md, mf, mq) => fclose_list TOL md dots && fclose_list TOL mf forces && fclose_list TOL mq qfrc &&
                      fclose_list TOL (advance_acts actoff mask h (map mkA acts) md) anext
    end end.
Definition chkF (c : Z * list float * float) : bool :=
  match c with (op, a, out) =>
    let g := fun i => nth i a 0%float in
    let prm := fun k => skipn k a in
    fclose TOL out
      (if (op =? 0)%Z then muscleGain (g 0%nat) (g 1%nat) (g 2%nat, g 3%nat) (g 4%nat) (prm 5%nat)
       else if (op =? 1)%Z then muscleBias (g 0%nat) (g 1%nat, g 2%nat) (g 3%nat) (prm 4%nat)
       else if (op =? 2)%Z then muscleDynamics (g 0%nat) (g 1%nat) (g 2%nat, g 3%nat, g 4%nat)
       else if (op =? 3)%Z then muscleGainLength (g 0%nat) (g 1%nat) (g 2%nat)
       else sigmoid (g 0%nat)) end.
""".replace("TOL", TOL)


def law_force(a, h, mask, u):
    """documented force of a scalar non-muscle actuator before tendon scaling and forcerange (None: not covered by the oracle)"""
    if a.so3 or a.gain == 2 or a.bias == 2 or a.dyn == 4:
        return None
    if 0 <= a.group <= 30 and (mask >> a.group) & 1:
        return 0.0
    g = a.gainprm[0] if a.gain == 0 else a.gainprm[0] + a.gainprm[1] * a.len + a.gainprm[2] * a.vel
    b = 0.0 if a.bias == 0 else a.biasprm[0] + a.biasprm[1] * a.len + a.biasprm[2] * a.vel
    if a.actnum == 0:
        x = u
    else:
        x = a.act
        if a.early:
            if a.dyn == 3:
                tau = max(1e-15, a.dynprm[0])
                x = a.act + a.dot * tau * (1 - math.exp(-h / tau))
            else:
                x = a.act + a.dot * h
            if a.al:
                x = clip(x, a.arange[0], a.arange[1])
    return g * x + b


def run(ctx):
    rng = ctx.rng
    big = ctx.tier != "quick"
    ctx.coq_props(allowed_axioms=F.STD_AXIOMS, extra_targets=["Lib/Num.vo", "Lib/NumF.vo", "Lib/FloatFn.vo", "Model/Spatial.vo", "Model/Actuation.vo"])
    exe = ctx.driver("c27_act", ["c27_act.c"])
    if exe is None:
        return
    MJG = dict(FREE=1, BALL=2, SLIDE=4, TENDON=32, ACTUATOR=64, ACTDYN=128, LIMIT=1024, SPRING=4096, MULTITREE=32768, SITE=65536, GRAVCOMP=1 << 18)
    base = MJG["ACTUATOR"]
    req = []
    nmod = 260 if big else 35
    for k in range(nmod):
        feat = base
        for nm in ("FREE", "BALL", "SLIDE", "TENDON", "ACTDYN", "LIMIT", "SPRING", "MULTITREE", "GRAVCOMP"):
            if rng.random() < (0.75 if nm in ("ACTDYN", "TENDON", "SLIDE") else 0.4):
                feat |= MJG[nm]
        req.append(("M", rng.randrange(1, 10 ** 6), feat, rng.randint(1, 6), k))
    # muscle functions
    fcases = []
    nf = 500 if big else 60

    def rprm():
        return [rng.uniform(0.5, 0.9), rng.uniform(1.0, 1.4), rng.choice([-1.0, rng.uniform(0.5, 80)]), rng.uniform(50, 400), rng.uniform(0.2, 0.8),
                rng.uniform(1.2, 2.0), rng.uniform(0.5, 2.5), rng.uniform(0.5, 2.0), rng.uniform(1.01, 1.8)]
    for k in range(nf):
        prm = rprm()
        lr = [-rng.uniform(0.1, 1), rng.uniform(0.1, 1)]
        acc0 = rng.choice([rng.uniform(0.5, 50), 0.0, 1e-16])
        L0 = (lr[1] - lr[0]) / max(1e-15, prm[1] - prm[0])
        # normalized length targets at and around the branch points of the FL curve and of the passive curve
        a_, b_ = 0.5 * (prm[4] + 1), 0.5 * (1 + prm[5])
        Lt = rng.choice([prm[4], a_, 1.0, b_, prm[5], rng.uniform(0, 2.5), rng.uniform(prm[4], prm[5]), prm[4] - 1e-9, prm[5] + 1e-9])
        length = lr[0] + (Lt - prm[0]) * L0
        Vt = rng.choice([-1.0, 0.0, prm[8] - 1, rng.uniform(-2, 2), -1 - 1e-9, 1e-12])
        vel = Vt * L0 * prm[6]
        fcases.append((0, [length, vel] + lr + [acc0] + prm))
        fcases.append((1, [length] + lr + [acc0] + prm))
        p3 = [rng.uniform(0.005, 0.05), rng.uniform(0.01, 0.1), rng.choice([0.0, 0.0, rng.uniform(0.01, 1), 1e-16])]
        ctrl = rng.choice([rng.uniform(-0.5, 1.5), 0.0, 1.0])
        act = rng.choice([rng.uniform(-0.5, 1.5), ctrl, 0.0, 1.0])
        fcases.append((2, [ctrl, act] + p3))
        fcases.append((3, [Lt, prm[4], prm[5]]))
        fcases.append((4, [rng.choice([rng.uniform(-0.5, 1.5), 0.0, 1.0, 0.5, 1e-300])]))
    # degenerate muscle parameters (denominators below mjMINVAL)
    fcases.append((0, [0.1, 0.2, -0.5, -0.5, 1.0, 0.75, 0.75, 1.0, 200.0, 1.0, 1.0, 0.0, 1.3, 1.0]))
    fcases.append((1, [0.1, 0.3, 0.3, 0.0, 0.75, 1.05, -1.0, 200.0, 0.5, 1.0, 1.5, 1.3, 1.2]))
    fcases.append((3, [1.0, 1.0, 1.0]))
    opc = "GBDLS"
    inp = "".join("M %d %d %d %d\n" % r[1:] for r in req) + "".join("%s %s\n" % (opc[op], " ".join(hx(x) for x in a)) for op, a in fcases)
    rc, out, err = ctx.run(exe, inp)
    lines = out.split("\n")
    if rc != 0:
        ctx.broken.append(("correspondence", "driver c27_act failed", "rc=%s %s" % (rc, err[-800:])))
        return
    pos = 0
    mcases, mmeta = [], []
    stats = dict(models=0, skipped=0, multi_output_models=0, so3_actuators=0, so3_clamped=0, actlimited_states=0, actrange_active=0, scalar_limited_after_multi=0, actuation_off=0, actuators=0, disabled=0, ctrl_clamped=0, force_clamped=0, dof_clamped=0, tendon_scaled=0, muscles=0, actearly=0, gravcomp_dofs=0,
                 law_checks=0, by_type={})
    try:
        for r in req:
            head = lines[pos].split(); pos += 1
            if head[:2] == ["M", "SKIP"]:
                stats["skipped"] += 1
                continue
            if head[:2] != ["M", "OK"]:
                ctx.broken.append(("correspondence", "generated model rejected", " ".join(head[:30]) + " request=%s" % (r,)))
                continue
            nact, nu, nout, nv, na, nt = [int(head[k]) for k in (3, 5, 7, 9, 11, 13)]
            h, mask, noclamp, actoff = fl(head[15]), int(head[17]), int(head[19]), int(head[21])
            t = lines[pos].split(); pos += 1
            if t[0] != "C" or len(t) != 1 + 4 * nu:
                raise ValueError("C line")
            lims = [(int(t[1 + 4 * c]), fl(t[2 + 4 * c]), fl(t[3 + 4 * c])) for c in range(nu)]
            ctrl = [fl(t[4 + 4 * c]) for c in range(nu)]
            t = lines[pos].split(); pos += 1
            if t[0] != "O" or len(t) != 1 + 3 * nout:
                raise ValueError("O line")
            length = [fl(t[1 + 3 * o]) for o in range(nout)]
            vel = [fl(t[2 + 3 * o]) for o in range(nout)]
            force = [fl(t[3 + 3 * o]) for o in range(nout)]
            acts = []
            for i in range(nact):
                acts.append(parse_act(lines[pos].split(), i)); pos += 1
            for a in acts:
                if not a.so3:
                    a.ctrl, a.len, a.vel, a.force = ctrl[a.ctrladr], length[a.outadr], vel[a.outadr], force[a.outadr]
            t = lines[pos].split(); pos += 1
            tendons = [(int(t[1 + 3 * k]), fl(t[2 + 3 * k]), fl(t[3 + 3 * k])) for k in range(nt)]
            t = lines[pos].split(); pos += 1
            mom = [fl(x) for x in t[1:]]
            if len(mom) != nout * nv:
                raise ValueError("moment size")
            moment = [mom[i * nv:(i + 1) * nv] for i in range(nout)]
            t = lines[pos].split(); pos += 1
            dofs = [(int(t[1 + 5 * v]), fl(t[2 + 5 * v]), int(t[3 + 5 * v]), fl(t[4 + 5 * v]), fl(t[5 + 5 * v])) for v in range(nv)]
            t = lines[pos].split(); pos += 1
            qfrc = [fl(x) for x in t[1:]]
            t = lines[pos].split(); pos += 1
            adot = [fl(x) for x in t[1:]]
            traj = []
            for k in range(4):
                t = lines[pos].split(); pos += 1
                if t[0] != "N" or len(t) != na + 1:
                    raise ValueError("N line")
                traj.append([fl(x) for x in t[1:]])
            anext = traj[0]
            if len(qfrc) != nv or len(adot) != na:
                raise ValueError("vector sizes")
            stats["models"] += 1
            if nout != nact:
                stats["multi_output_models"] += 1
            case = {"request": "M %d %d %d %d" % r[1:]}
            oracle(ctx, case, acts, lims, ctrl, force, tendons, moment, dofs, qfrc, adot, anext, h, mask, noclamp, actoff, stats, traj)
            mcases.append("((%s, %s, %s, %s, %d%%nat, %d%%nat), [%s], ([%s], %s, %s, %s), [%s], [%s], [%s], (%s, %s, %s))" % (
                bb(actoff), zz(mask), ff(h), bb(noclamp), nout, nv, "; ".join(coq_act(a) for a in acts),
                "; ".join("(%s, %s, %s)" % (bb(l), ff(lo), ff(hi)) for l, lo, hi in lims), F.flist(ctrl), F.flist(length), F.flist(vel),
                "; ".join("(%s, %s, %s)" % (bb(l), ff(lo), ff(hi)) for l, lo, hi in tendons),
                "; ".join(F.flist(row) for row in moment),
                "; ".join("(%s, %s, %s, %s, %s)" % (bb(ad), ff(g), bb(l), ff(lo), ff(hi)) for ad, g, l, lo, hi in dofs),
                F.flist([a.dot for a in acts]), F.flist(force), F.flist(qfrc) + ", " + F.flist([anext[a.actadr] if a.actnum == 1 else 0.0 for a in acts])))
            mmeta.append(case)
        flits = []
        for op, a in fcases:
            t = lines[pos].split(); pos += 1
            if t[0] != opc[op]:
                raise ValueError("function reply out of order")
            v = fl(t[1])
            flits.append("(%s, %s, %s)" % (zz(op), F.flist(a), ff(v)))
            # sign oracle on implementation output
            prm = a[5:] if op == 0 else a[4:] if op == 1 else None
            if op in (0, 1) and (prm[2] >= 0 or prm[3] >= 0) and v > 0:
                ctx.violation("impl_violation", {"fn": "mju_muscleGain" if op == 0 else "mju_muscleBias", "args": a}, expected="<= 0 (muscles pull)", observed=v,
                              theorem="C27_muscle_gain_sign" if op == 0 else "C27_muscle_bias_sign", signature={"site": "muscle", "class": "sign"})
            if op in (3, 4) and not (0 <= v <= 1):
                ctx.violation("impl_violation", {"fn": "mju_muscleGainLength" if op == 3 else "mju_sigmoid", "args": a}, expected="in [0, 1]", observed=v,
                              theorem="C27_muscle_FL_range" if op == 3 else "C27_sigmoid_range", signature={"site": "muscle", "class": "range"})
            if op == 2:
                d = clip(a[0], 0, 1) - a[1]
                if (d > 0 and v <= 0) or (d < 0 and v >= 0) or (d == 0 and v != 0):
                    ctx.violation("impl_violation", {"fn": "mju_muscleDynamics", "args": a}, expected="act_dot has the sign of clip(ctrl,0,1) - act", observed=v,
                                  theorem="C27_muscle_dynamics_sign", signature={"site": "muscle", "class": "dynamics-sign"})
    except (ValueError, IndexError) as e:
        ctx.broken.append(("correspondence", "driver c27_act output not understood", "%s at line %d: %s" % (e, pos, lines[pos - 1][:300] if 0 < pos <= len(lines) else "")))
        return
    imp = "From Coq Require Import ZArith PrimFloat Bool.\nFrom MJV Require Import Lib.Num Lib.NumF Lib.FloatFn Model.Spatial Model.Actuation.\n"
    fails = ctx.coq_eval("c27_model", imp, mcases, "chkM", pre=PRE, shard=40)
    for i in fails[:1]:
        ctx.violation("correspondence", mmeta[i], expected="Model/Actuation.v at binary64 (act_dot, actuator_force, qfrc_actuator)", observed="implementation output differs (tolerance 2^-30 scaled)",
                      found_input=False, theorem="correspondence c27 mj_fwdActuation", signature={"site": "mj_fwdActuation"},
                      note="implementation and Coq model disagree; the law oracle did not flag this input")
    ffails = ctx.coq_eval("c27_fn", imp, flits, "chkF", pre=PRE, shard=400)
    seen = set()
    for i in ffails:
        op, a = fcases[i]
        if op in seen:
            continue
        seen.add(op)
        ctx.violation("correspondence", {"fn": opc[op], "args": a}, expected="Model/Actuation.v muscle function at binary64", observed="differs", found_input=False,
                      theorem="correspondence c27 muscle function " + opc[op], signature={"site": "muscle", "op": opc[op]})
    ctx.cov["evaluations"] = len(mcases) + len(flits)
    ctx.cov["distinct_nontrivial"] = stats["ctrl_clamped"] + stats["force_clamped"] + stats["dof_clamped"] + stats["disabled"] + stats["muscles"] + stats["so3_actuators"] + stats["actrange_active"] + len(flits)
    ctx.cov["rule"] = ("one evaluation = one generated model state (mj_forward: act_dot, actuator_force, qfrc_actuator of all its actuators compared with the Coq model at binary64) or one muscle-function call; "
                       "non-trivial = actuator instances with an active ctrl clamp / active force clamp / disabled group / muscle type / so3 type, dofs with an active joint force clamp, and all muscle-function calls (branch points included)")
    ctx.cov["samples"] = [mmeta[0] if mmeta else None, {"fn": opc[fcases[0][0]], "args": fcases[0][1]}]
    ctx.cov["correspondence_disagreements"] = len(fails) + len(ffails)
    ctx.cov["support"]["stats"] = stats
    ctx.cov["explanation"] = ("theorems of Props/C27.v proved over R for all inputs; model tied to mj_fwdActuation on %d model states (%d actuators) and to the muscle functions on %d calls; law oracle: %d checks"
                              % (len(mcases), stats["actuators"], len(flits), stats["law_checks"]))


def oracle(ctx, case, acts, lims, ctrl, force, tendons, moment, dofs, qfrc, adot, anext, h, mask, noclamp, actoff, stats, traj):
    """ranges are looked up by ACTUATOR index (a.frange comes from actuator_forcerange[2*i]), outputs by OUTPUT address
    (force[a.outadr + k]), controls by CONTROL address (ctrl[a.ctrladr + k], lims[control index])"""
    nv = len(qfrc)
    nout = len(force)
    if actoff:
        stats["actuation_off"] += 1
        if any(force) or any(qfrc) or any(adot):
            ctx.violation("impl_violation", case, expected="mjDSBL_ACTUATION: actuator_force, qfrc_actuator and act_dot all zero", observed={"force": force, "qfrc": qfrc, "act_dot": adot},
                          theorem="C27_actuation_disabled_zero", signature={"site": "mj_fwdActuation", "class": "actuation-disabled"})
        for a in acts:
            if a.actnum and anext[a.actadr] != a.act:
                ctx.violation("impl_violation", dict(case, actuator=a.idx), expected="activations frozen with mjDSBL_ACTUATION", observed=anext[a.actadr],
                              theorem="C27_actuation_disabled_zero", signature={"site": "mj_advance", "class": "actuation-disabled"})
        return
    # control as seen after the clamp (control index space)
    cl = []
    for c, (lim, lo, hi) in enumerate(lims):
        u = ctrl[c]
        if not noclamp and lim:
            u = clip(u, lo, hi)
            if u != ctrl[c]:
                stats["ctrl_clamped"] += 1
        cl.append(u)
    us = [cl[a.ctrladr] for a in acts]
    # 1. transmission + post-processing (output index space)
    for v in range(nv):
        s = 0.0
        for o in range(nout):
            s += moment[o][v] * force[o]
        add, g, lim, lo, hi = dofs[v]
        if add:
            s += g
            stats["gravcomp_dofs"] += 1
        if lim:
            c = clip(s, lo, hi)
            if c != s:
                stats["dof_clamped"] += 1
            s = c
            if not (lo - 1e-12 <= qfrc[v] <= hi + 1e-12):
                ctx.violation("impl_violation", dict(case, dof=v), expected="qfrc_actuator within jnt_actfrcrange [%r, %r]" % (lo, hi), observed=qfrc[v],
                              theorem="C27_dof_clamped", signature={"site": "mj_fwdActuation", "class": "actfrcrange"})
        stats["law_checks"] += 1
        if not close(qfrc[v], s, 1e-12):
            ctx.violation("impl_violation", dict(case, dof=v), expected="clamp(moment^T force + gravcomp) = %r" % s, observed=qfrc[v],
                          theorem="C27_moment_additive", signature={"site": "mj_fwdActuation", "class": "transmission"})
            break
    # SO3 servos: the norm of the 3-output block is bounded by forcerange[1] of THAT actuator; disabled: zero block
    seen_multi = False
    for a in acts:
        if a.so3:
            seen_multi = True
            stats["so3_actuators"] += 1
            blk = force[a.outadr:a.outadr + 3]
            nrm = math.sqrt(sum(x * x for x in blk))
            disabled = 0 <= a.group <= 30 and (mask >> a.group) & 1
            c = dict(case, actuator=a.idx)
            if disabled:
                stats["disabled"] += 1
                if any(blk):
                    ctx.violation("impl_violation", c, expected="so3 actuator in disabled group %d produces a zero output block" % a.group, observed=blk,
                                  theorem="C27_disabled_zero_force", signature={"site": "mj_fwdActuation", "class": "disabled-group"})
            elif a.fl:
                if nrm > a.frange[1] * (1 + 1e-12) + 1e-300:
                    ctx.violation("impl_violation", c, expected="norm of the so3 output block <= forcerange[1] = %r of actuator %d" % (a.frange[1], a.idx), observed=nrm,
                                  theorem="C27_so3_force_clamped", signature={"site": "mj_fwdActuation", "class": "forcerange"})
                if abs(nrm - a.frange[1]) <= 1e-9 * (1 + nrm):
                    stats["so3_clamped"] += 1
        elif seen_multi and a.fl:
            stats["scalar_limited_after_multi"] += 1
    # tendon totals of the law forces
    law = [law_force(a, h, mask, u) for a, u in zip(acts, us)]
    tot = {}
    scaled = set()
    for a, f in zip(acts, law):
        if a.tendon >= 0 and not a.so3:
            tot.setdefault(a.tendon, []).append(f)
    for tid, fs in tot.items():
        lim, lo, hi = tendons[tid]
        if lim:
            if any(f is None for f in fs):
                scaled.add(tid)        # muscle on a limited tendon: scaling not recomputed by the oracle
            else:
                s = sum(fs)
                if s and (s < lo or s > hi):
                    scaled.add(tid)
                    stats["tendon_scaled"] += 1
    for i, (a, u, f) in enumerate(zip(acts, us, law)):
        if a.so3:
            continue
        stats["actuators"] += 1
        key = "dyn%d/gain%d/bias%d" % (a.dyn, a.gain, a.bias)
        stats["by_type"][key] = stats["by_type"].get(key, 0) + 1
        c = dict(case, actuator=i)
        disabled = 0 <= a.group <= 30 and (mask >> a.group) & 1
        if a.early and a.actnum:
            stats["actearly"] += 1
        if a.gain == 2:
            stats["muscles"] += 1
        if disabled:
            stats["disabled"] += 1
            if a.force != 0.0:
                ctx.violation("impl_violation", c, expected="actuator in disabled group %d (disableactuator=%d) produces zero force" % (a.group, mask), observed=a.force,
                              theorem="C27_disabled_zero_force", signature={"site": "mj_fwdActuation", "class": "disabled-group"},
                              note=("forcerange %r" % a.frange) if a.fl else "")
            if a.fl and not (a.frange[0] <= 0 <= a.frange[1]):
                stats["disabled_forcerange_excludes_zero"] = stats.get("disabled_forcerange_excludes_zero", 0) + 1
            frozen = clip(a.act, a.arange[0], a.arange[1]) if a.al else a.act
            if a.actnum and anext[a.actadr] != frozen:
                ctx.violation("impl_violation", c, expected="activation of a disabled actuator is frozen over mj_step (%r)" % frozen, observed=anext[a.actadr],
                              theorem="C27_disabled_zero_force", signature={"site": "mj_advance", "class": "disabled-act"})
        elif a.actnum and a.al:
            stats["actlimited_states"] += 1
            lo_, hi_ = a.arange
            if not (lo_ < a.act < hi_) or any(not (lo_ < row[a.actadr] < hi_) for row in traj):
                stats["actrange_active"] += 1
                key2 = "actrange_active_dyn%d" % a.dyn
                stats[key2] = stats.get(key2, 0) + 1
            for k, row in enumerate(traj):
                if not (lo_ <= row[a.actadr] <= hi_):
                    ctx.violation("impl_violation", dict(c, step=k + 1), expected="activation within actrange %r after every mj_step (dyntype %d, act0 %r, ctrl %r)" % (a.arange, a.dyn, a.act, a.ctrl),
                                  observed=row[a.actadr], theorem="C27_advance_in_range", signature={"site": "mj_advance", "class": "actrange"})
                    break
        if a.fl and not disabled:
            if not (a.frange[0] <= a.force <= a.frange[1]):
                ctx.violation("impl_violation", c, expected="actuator_force within forcerange %r" % a.frange, observed=a.force,
                              theorem="C27_force_clamped", signature={"site": "mj_fwdActuation", "class": "forcerange"})
        # activation dynamics
        if a.actnum and a.dyn in (1, 2, 3):
            exp = u if a.dyn == 1 else (u - a.act) / max(1e-15, a.dynprm[0])
            stats["law_checks"] += 1
            if not close(a.dot, exp):
                ctx.violation("impl_violation", c, expected="act_dot = %r (dyntype %d with the clamped control %r)" % (exp, a.dyn, u), observed=a.dot,
                              theorem="C27_ctrl_clamped", signature={"site": "mj_fwdActuation", "class": "act_dot"})
        # force law
        if f is not None and a.tendon not in scaled:
            exp = f
            if a.fl and not disabled:
                e2 = clip(exp, a.frange[0], a.frange[1])
                if e2 != exp:
                    stats["force_clamped"] += 1
                exp = e2
            stats["law_checks"] += 1
            if not close(a.force, exp):
                ctx.violation("impl_violation", c, expected="clamp(gain*input + bias) = %r with the clamped control %r" % (exp, u), observed=a.force,
                              theorem="C27_affine_law", signature={"site": "mj_fwdActuation", "class": "force-law"})
        if a.gain == 2 and a.bias == 2 and not disabled and a.gainprm[3] >= 0:
            x = a.act
            if x >= 0 and not a.early and a.force > 1e-12:
                ctx.violation("impl_violation", c, expected="muscle force <= 0 for a non-negative activation", observed=a.force,
                              theorem="C27_muscle_gain_sign", signature={"site": "mj_fwdActuation", "class": "muscle-sign"})
