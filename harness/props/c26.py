"""C26 — the state vector API is a faithful serialization; reset equals a fresh mjData."""
import importlib.util, math, os, struct
import framework as F

META = {
    "id": "C26", "category": "proof", "design_ref": "DESIGN.md section 4, C26; section 7 item 8",
    "technique": "Coq proof of a table-generic model of mj_stateSize/getState/setState/extractState/copyState; "
                 "fail-closed translator regenerating the element table (enum mjtState, mj_stateElemSize, mj_stateElemPtr, "
                 "special-case blocks, MJDATA_POINTERS) on every run; exact correspondence over all 2^mjNSTATE signatures",
    "text": "PROVED for every table of state elements whose elements live in pairwise distinct mjData fields (any number of elements, "
            "any sizes, any value type, any idempotent conversion to mjtBool), for every signature and every well-formed mjData: "
            "length(getState) = stateSize; setState(getState d) restores exactly the components in the signature and leaves every other "
            "field untouched; getState after setState returns the vector with the entries of mjtBool components (eq_active) passed through "
            "x!=0, hence the vector itself when those entries are 0/1 (in this tree eq_active is mjtBool=_Bool, not a byte); extractState of "
            "getState equals getState of the sub-signature; copyState = setState after getState; sig<0, sig>=2^n, a non-subset dstsig and an "
            "element without table entry take the error outcome.  PROVED BY COMPUTATION on the table regenerated from the working tree: every "
            "bit below mjNSTATE has exactly one enumerator, a size case and a field; fields are pairwise distinct; each symbolic size equals the "
            "MJDATA_POINTERS dimension of its field; the mjtBool special case is the same in get/set/copy (so the generic theorems apply to the "
            "tree's table for every model).  TIED BY CORRESPONDENCE ONLY: the loop structure of the five functions (hand-written fold model) is "
            "compared exactly with the implementation on 5 mjSpec-built models (activations, history buffers, mocap bodies, equality "
            "constraints, user data, plugin state, a multi-control PID actuator with nu != nactuator and 3 keyframes; one model with pairwise distinct component sizes) over all 2^14 signatures (thorough) or a "
            "sample (quick); _resetData/mj_resetDataKeyframe are procedural: their component-level model (theorems: reset is independent of "
            "the previous contents given the plugin's reset callback overwrites its state, keyframe reset = reset + overwrite of the 7 key "
            "arrays = setState of the key vector) is tied by comparing every MJDATA_POINTERS array and header field of a used-then-reset "
            "mjData with a fresh mj_makeData byte-wise, and the state components with defaults recomputed by the harness.  NOT COVERED: "
            "models that cannot be built without XML/mesh support; arena contents after reset; mj_resetDataDebug.",
    "note": "Trusted: Coq kernel; translate/state2v.py (regex reader, fail-closed); hand-written loop model Model/StateAPI.v; gcc; driver "
            "c26_state.c with its own list of the 14 state arrays. Theorems closed under the global context.",
    "assumptions": ["values are integer-valued doubles in the correspondence runs (exact)",
                    "plugin reset callbacks overwrite the whole plugin state (mjpPlugin.reset is documented as required)"],
}

FIELDS = ["time", "qpos", "qvel", "act", "history", "qacc_warmstart", "ctrl", "qfrc_applied", "xfrc_applied",
          "eq_active", "mocap_pos", "mocap_quat", "userdata", "plugin_state"]   # harness' own list, order of the mjtState bits
BOOL = {"eq_active"}
DIMNAMES = ["nq", "nv", "na", "nhistory", "nu", "nbody", "neq", "nmocap", "nuserdata", "npluginstate", "nkey", "nactuator"]
NMODEL = 5


def field_lens(dims):
    return [1, dims["nq"], dims["nv"], dims["na"], dims["nhistory"], dims["nv"], dims["nu"], dims["nv"], 6 * dims["nbody"],
            dims["neq"], 3 * dims["nmocap"], 4 * dims["nmocap"], dims["nuserdata"], dims["npluginstate"]]


def load_translator():
    p = os.path.join(F.VERIF, "translate", "state2v.py")
    spec = importlib.util.spec_from_file_location("state2v", p)
    mod = importlib.util.module_from_spec(spec)
    spec.loader.exec_module(mod)
    return mod


def vecval(seed, pos):
    return (seed + pos * (pos + 3)) % 7 - 3


def derive_t(sig, seed, nsig):
    """destination signature used with sig in the hashed cases (same formula in COQ_PRE)"""
    return sig & (((sig * 40503 + seed * 977 + 12345) // 16) % nsig)


WMOD = 1000003


def fillval(tag, k, j, isbool):
    if isbool:
        return (k + j) % 2 if tag == 0 else 1 - (k + j) % 2
    return (tag + 1) * 100000 + k * 1000 + j + 1


def parse_vecs(s):
    """' n : a b c ; n : ... ;' -> list of lists of python ints (or None when non-integer)"""
    out = []
    for part in s.split(";"):
        part = part.strip()
        if not part:
            continue
        n, _, body = part.partition(":")
        vals = body.split()
        out.append([int(t) if not t.startswith("X") else None for t in vals])
    return out


def bits2f(u):
    return struct.unpack("<d", struct.pack("<Q", u))[0]


def f2bits(x):
    return struct.unpack("<Q", struct.pack("<d", float(x)))[0]


COQ_PRE = r'''
Open Scope string_scope.
Definition fields : list string := [%(fields)s].
Definition isbool (f : string) : bool := String.eqb f "eq_active".
Definition envs : list (list (string * Z)) := [%(envs)s].
Definition lens : list (list Z) := [%(lens)s].
Definition envf (mid : Z) (k : string) : Z := match assoc k (nth (Z.to_nat mid) envs []) with Some v => v | None => 0%%Z end.
Definition T := gen_tables.
Definition N := Z.to_nat (t_nstate T).
Definition ST := Eval vm_compute in static T.
Definition E (mid : Z) := elems_of_static ST (envf mid).
Fixpoint index (f : string) (l : list string) (k : nat) : option nat :=
  match l with [] => None | g :: r => if String.eqb f g then Some k else index f r (S k) end.
Definition fillD (mid tag : Z) : data Z string := fun f =>
  match index f fields 0 with
  | None => []
  | Some k => map (fun j => if isbool f then (if Z.eqb tag 0 then (Z.of_nat k + Z.of_nat j) mod 2 else 1 - (Z.of_nat k + Z.of_nat j) mod 2)%%Z
                           else ((tag + 1) * 100000 + Z.of_nat k * 1000 + Z.of_nat j + 1)%%Z)
                  (seq 0 (Z.to_nat (nth k (nth (Z.to_nat mid) lens []) 0%%Z)))
  end.
Definition dumpD (d : data Z string) : list Z := flat_map d fields.
Definition vecval (seed : Z) (pos : nat) : Z := ((seed + Z.of_nat pos * (Z.of_nat pos + 3)) mod 7 - 3)%%Z.
Definition wvec (mid seed : Z) : list Z :=
  map (vecval seed) (seq 0 (S (S (Z.to_nat (fold_right Z.add 0%%Z (nth (Z.to_nat mid) lens [])))))).
Definition gS := getState Z string N.
Definition sS := setState Z toBoolZ string String.eqb N.
Definition cS := copyState Z string String.eqb N.
Definition xS := extractState Z string N.
Definition zS := stateSize string N.
(* all outputs of one driver case, as lists *)
Definition outputs (mid sig tsig seed : Z) : option (Z * list (list Z)) :=
  let e := E mid in
  let d0 := fillD mid 0 in let d1 := fillD mid 1 in let d2 := fillD mid 2 in
  match zS e sig, gS e d0 sig, sS e d1 (wvec mid seed) sig, cS e d0 d2 sig with
  | Some size, Some v, Some d1', Some d2' =>
      match gS e d1' sig, sS e d1 v sig with
      | Some g, Some d1'' =>
          let x := match xS e v sig tsig with Some x => x | None => [] end in
          Some (Z.of_nat size, [v; dumpD d1'; g; x; dumpD d2'; dumpD d1''; dumpD d0])
      | _, _ => None
      end
  | _, _, _, _ => None
  end.
Definition flat (ls : list (list Z)) : list Z := flat_map (fun l => Z.of_nat (length l) :: l) ls.
(* full case: [mid; sig; tsig; wseed; size; flat outputs] *)
Definition chk_full (c : list Z) : bool :=
  match c with
  | mid :: sig :: tsig :: seed :: size :: outs =>
    match outputs mid sig tsig seed with
    | Some (s, o) => Z.eqb s size && zlist_eqb (flat o) outs
    | None => false
    end
  | _ => false
  end.
Definition nsig := (2 ^ t_nstate T)%%Z.
Definition derive_t (sig seed : Z) : Z := Z.land sig (((sig * 40503 + seed * 977 + 12345) / 16) mod nsig).
Definition hcase (mid seed sig : Z) : Z :=
  match outputs mid sig (derive_t sig seed) ((seed + sig) mod 1000003) with
  | Some (s, ls) => hall s ls
  | None => (-1)%%Z
  end.
(* hashed chunk: [mid; seed; sig1; H1; sig2; H2; ...] *)
Fixpoint chk_pairs (mid seed : Z) (l : list Z) : bool :=
  match l with
  | [] => true
  | sig :: h :: r => Z.eqb (hcase mid seed sig) h && chk_pairs mid seed r
  | _ => false
  end.
Definition chk_hash (c : list Z) : bool :=
  match c with mid :: seed :: r => chk_pairs mid seed r | _ => false end.
Definition isNone {A} (o : option A) : Z := match o with None => 1%%Z | Some _ => 0%%Z end.
(* error case: [mid; sig; tsig; r0..r4] *)
Definition chk_err (c : list Z) : bool :=
  match c with
  | mid :: sig :: tsig :: outs =>
    let e := E mid in let d0 := fillD mid 0 in
    zlist_eqb outs [isNone (zS e sig); isNone (gS e d0 sig); isNone (sS e d0 [] sig); isNone (xS e [] sig tsig); isNone (cS e d0 d0 sig)]
  | _ => false
  end.
(* reset case: [haskey; length-prefixed segments]: lens, qpos0, mocap_pos, mocap_quat, eq_active0, history0, ctrl0, plugin reset values,
   key time, qpos, qvel, act, mpos, mquat, ctrl, then the 14 state components observed after the reset; values are bit patterns *)
Fixpoint unflat (fuel : nat) (l : list Z) : list (list Z) :=
  match fuel with
  | O => []
  | S f => match l with [] => [] | k :: r => firstn (Z.to_nat k) r :: unflat f (skipn (Z.to_nat k) r) end
  end.
Definition chk_reset (c : list Z) : bool :=
  match c with
  | haskey :: r =>
    let sg := unflat 64 r in
    let g k := nth k sg [] in
    let ln := g 0%%nat in
    let m := mkRModel Z (fun f => match index f fields 0 with Some k => Z.to_nat (nth k ln 0%%Z) | None => 0%%nat end)
                      (g 1%%nat) (g 2%%nat) (g 3%%nat) (g 4%%nat) (g 5%%nat) (g 6%%nat) (fun _ => g 7%%nat) in
    let key := if Z.eqb haskey 1 then Some (mkKey Z (nth 0 (g 8%%nat) 0%%Z) (g 9%%nat) (g 10%%nat) (g 11%%nat) (g 12%%nat) (g 13%%nat) (g 14%%nat))
               else None in
    let junk : rdata Z := fun f => [77; 78; 79]%%Z in
    list_eqb zlist_eqb (map (resetDataKeyframe Z 0%%Z m junk key) fields) (skipn 15 sg)
  | [] => false
  end.
Definition chk_any (c : list Z) : bool :=
  match c with
  | 0%%Z :: r => chk_hash r
  | 1%%Z :: r => chk_full r
  | 2%%Z :: r => chk_err r
  | 3%%Z :: r => chk_reset r
  | _ => false
  end.
'''

COQ_IMPORTS = ("From Coq Require Import String Ascii List ZArith Bool.\n"
               "From MJV Require Import Lib.Eqb Model.StateAPI Gen.StateTable Proof.StateAPIProof.\n"
               "Open Scope Z_scope.")


def zl(xs):
    return F.zlist(xs)


def run(ctx):
    import time
    rng = ctx.rng
    tm = ctx.cov["support"].setdefault("timing_s", {})
    t_last = [time.time()]

    def lap(label):
        now = time.time()
        tm[label] = round(now - t_last[0], 1)
        t_last[0] = now
    tr = load_translator()

    def gen():
        try:
            return {"Gen/StateTable.v": tr.generate(ctx.repo)}
        except tr.TranslatorError as e:
            raise F.TranslatorError(str(e))

    props_ok = ctx.coq_props(allowed_axioms=(), gen=gen,
                             extra_targets=["Lib/Eqb.vo", "Model/StateAPI.vo", "Gen/StateTable.vo", "Proof/StateAPIProof.vo"])
    if not props_ok:
        # make sure the model evaluates (with the last table that translated) so that the failing-input search still runs
        F.coq_make(["Lib/Eqb.vo", "Model/StateAPI.vo", "Gen/StateTable.vo", "Proof/StateAPIProof.vo"])
    lap("coq_props")
    exe = ctx.driver("c26_state", ["c26_state.c"])
    lap("build")
    if exe is None:
        return
    rc, out, err = ctx.run(exe, "D\n")
    if rc != 0:
        ctx.broken.append(("correspondence", "driver c26_state failed on model construction", "rc=%s %s" % (rc, err[-800:])))
        return
    dims = []
    for part in out.strip().split(";"):
        t = part.split()
        if not t:
            continue
        d = dict(zip(["mid", "nstate"] + DIMNAMES, map(int, t[1:])))
        dims.append(d)
    nstate = dims[0]["nstate"]
    if len(dims) != NMODEL or nstate != len(FIELDS):
        ctx.broken.append(("correspondence", "harness component list out of date",
                           "driver reports mjNSTATE=%d, harness knows %d state arrays: extend FIELDS/comps" % (nstate, len(FIELDS))))
        return
    nsig = 1 << nstate
    lens = [field_lens(d) for d in dims]
    # coverage rule: model 0 has pairwise distinct non-zero component sizes apart from the three nv-sized ones
    l0 = lens[0]
    distinct_ok = len(set(l0)) == len(l0) - 2 and min(l0) > 0
    # coverage rule for the keyframe clause: some model has a multi-control actuator (nu != nactuator), activations, a mocap body
    # and at least 3 keyframes, so that every key_* row stride (nq, nv, na, nu, 3*nmocap, 4*nmocap) is exercised with key index >= 1
    if not any(d["nu"] != d["nactuator"] and d["nkey"] >= 3 and d["na"] > 0 and d["nmocap"] > 0 for d in dims):
        ctx.broken.append(("correspondence", "no corpus model with nu != nactuator, na > 0, a mocap body and >= 3 keyframes", str(dims)))
    if not distinct_ok:
        ctx.broken.append(("correspondence", "model 0 no longer has pairwise distinct component sizes", str(l0)))

    # ------------------------------------------------------------ cases
    # hashed cases: chunks (mid, seed, [sig...]); dstsig and vector seed are derived from (sig, seed)
    chunks = []
    CH = 128 if ctx.tier == "thorough" else 32
    if ctx.tier == "thorough":
        for mid in range(NMODEL):
            if mid == 1:
                # minimal model (nearly every component empty): a sample keeps the tier inside its time budget
                sg = sorted(rng.sample(range(nsig), 2048))
                for q in range(0, len(sg), CH):
                    chunks.append((mid, rng.randrange(1, 1000), sg[q:q + CH]))
                continue
            for start in range(0, nsig, CH):
                chunks.append((mid, rng.randrange(1, 1000), list(range(start, min(nsig, start + CH)))))
        nfull = 320
    else:
        for mid in range(NMODEL):
            base = [0, nsig - 1] + [1 << i for i in range(nstate)] + [(nsig - 1) ^ (1 << i) for i in range(nstate)]
            sigs = base + [rng.randrange(nsig) for _ in range(130 if mid == 0 else 34)]
            for q in range(0, len(sigs), CH):
                chunks.append((mid, rng.randrange(1, 1000), sigs[q:q + CH]))
        nfull = 32
    cases = []   # (kind, mid, sig, tsig, wseed)
    for (mid, seed, sigs) in chunks:
        for sig in sigs:
            cases.append(("H", mid, sig, derive_t(sig, seed, nsig), (seed + sig) % WMOD))
    nhash = len(cases)
    for k in range(nfull):
        mid = 0 if k % 2 == 0 else rng.randrange(NMODEL)
        sig = rng.randrange(nsig)
        sub = sig & rng.randrange(nsig)
        t = rng.choice([sig, 0, sub, sub, sig & ~(1 << rng.randrange(nstate))])
        cases.append(("F", mid, sig, t, rng.randrange(1, WMOD)))
    # error outcomes
    ecases = []
    for mid in (0, 1):
        for sig, t in [(-1, 0), (-5, -5), (nsig, 0), (nsig + 3, 1), (1 << 20, 0), (-(1 << 31), 0), ((1 << 31) - 1, 1),
                       (3, 4), (3, 7), (0, 1), (5, -1), (nsig - 1, nsig), (6, 2), (0, 0), (nsig - 1, nsig - 1)]:
            ecases.append((mid, sig, t))
        for _ in range(20):
            ecases.append((mid, rng.randrange(nsig), rng.randrange(nsig)))
    inp = "".join("%s %d %d %d %d\n" % c for c in cases) + "".join("E %d %d %d\n" % c for c in ecases)
    rc, out, err = ctx.run(exe, inp, timeout=900)
    lines = out.split("\n")
    if rc != 0 or len(lines) < len(cases) + len(ecases):
        ctx.broken.append(("correspondence", "driver c26_state failed", "rc=%s %s" % (rc, err[-800:])))
        return

    lap("driver")
    LAWS = {1: "length written by mj_getState != mj_stateSize", 2: "setState(getState(d)) does not restore exactly the components of sig",
            4: "getState after setState does not return the vector", 8: "extractState(getState(d,s),s,t) != getState(d,t)",
            16: "copyState != setState after getState", 64: "getState does not return the components of sig in bit order",
            32: "source mjData modified by getState/copyState"}
    THM = {1: "size_get", 2: "set_get", 4: "get_set", 8: "extract", 16: "copy", 32: "set_get", 64: "set_get"}
    hashes = {}
    full_cases, full_idx = [], []
    nontriv = set()
    viols = []
    for i, (c, line) in enumerate(zip(cases, lines)):
        kind, mid, sig, t, seed = c
        if kind == "H":
            laws, size, h = map(int, line.split())
            hashes[i] = h
        else:
            head, _, rest = line.partition("|")
            laws, size = map(int, head.split())
            vecs = parse_vecs(rest)
            if any(x is None for v in vecs for x in v):
                ctx.broken.append(("correspondence", "non-integer value in driver output", line[:300]))
                continue
            flat = []
            for v in vecs:
                flat += [len(v)] + v
            full_cases.append(zl([mid, sig, t, seed, size] + flat))
            full_idx.append(i)
            # independent python oracle on the full outputs (own component list)
            ln = lens[mid]
            exp_get = [fillval(0, k, j, FIELDS[k] in BOOL) for k in range(nstate) if (sig >> k) & 1 for j in range(ln[k])]
            exp_t = [fillval(0, k, j, FIELDS[k] in BOOL) for k in range(nstate) if (t >> k) & 1 for j in range(ln[k])]
            wv, pos = [], 0
            for k in range(nstate):
                if (sig >> k) & 1:
                    for j in range(ln[k]):
                        x = vecval(seed, pos)
                        wv.append((1 if x != 0 else 0) if FIELDS[k] in BOOL else x)
                        pos += 1
            if vecs[0] != exp_get or size != len(exp_get):
                laws |= 64
            if vecs[2] != wv:
                laws |= 4
            if vecs[3] != exp_t:
                laws |= 8
        if laws:
            viols.append((bin(sig).count("1"), i, laws))
        if bin(sig).count("1") >= 2 and mid != 1:
            nontriv.add((mid, sig))
    seen_law = {}
    for _, i, laws in sorted(viols):      # smallest signatures first, at most 2 per law
        kind, mid, sig, t, seed = cases[i]
        for bit, txt in LAWS.items():
            if laws & bit and seen_law.get(bit, 0) < 2:
                seen_law[bit] = seen_law.get(bit, 0) + 1
                ctx.violation("impl_violation", {"model": mid, "dims": dims[mid], "sig": sig, "dstsig": t, "vector_seed": seed,
                                                 "driver_line": "%s %d %d %d %d" % cases[i]},
                              expected="law holds: " + txt, observed="law fails on the implementation output (memcmp in driver c26_state.c / harness oracle)",
                              theorem="C26_" + THM[bit], signature={"site": "state API", "law": bit})
    for (mid, sig, t), line in zip(ecases, lines[len(cases):]):
        r = list(map(int, line.split()))
        bad_sig = sig < 0 or sig >= nsig
        exp = [int(bad_sig)] * 5
        exp[3] = int(bad_sig or (sig & t) != t)
        if r != exp:
            ctx.violation("impl_violation", {"model": mid, "sig": sig, "dstsig": t}, expected=exp, observed=r,
                          theorem="C26_errors", signature={"site": "state API", "law": "errors"})
    err_cases = [zl([mid, sig, t] + list(map(int, line.split()))) for (mid, sig, t), line in zip(ecases, lines[len(cases):])]

    pre = COQ_PRE % {
        "fields": "; ".join('"%s"' % f for f in FIELDS),
        "envs": "; ".join("[" + "; ".join('("%s", %d%%Z)' % (k, d[k]) for k in DIMNAMES) + "]" for d in dims),
        "lens": "; ".join(zl(l) for l in lens),
    }
    chunk_lits, chunk_rng, pos = [], [], 0
    for (mid, seed, sigs) in chunks:
        flat = [mid, seed]
        for q, sig in enumerate(sigs):
            flat += [sig, hashes[pos + q]]
        chunk_lits.append(zl(flat))
        chunk_rng.append((pos, len(sigs)))
        pos += len(sigs)
    reset_cmds, reset_lines, reset_lits = run_reset(ctx, exe, dims, lens)
    lap("reset_driver")
    # one Coq evaluation for everything: tagged flat cases, interleaved so that the shards are balanced
    tagged = [(0, k, l) for k, l in enumerate(chunk_lits)] + [(1, k, l) for k, l in enumerate(full_cases)] + \
             [(2, k, l) for k, l in enumerate(err_cases)] + [(3, k, l) for k, l in enumerate(reset_lits)]
    nshard = 8
    order = [tagged[i] for sh in range(nshard) for i in range(sh, len(tagged), nshard)]
    lits = ["(%d :: %s)%%Z" % (tag, l) for tag, k, l in order]
    fails = ctx.coq_eval("c26_all", COQ_IMPORTS, lits, "chk_any", pre=pre, shard=max(1, (len(lits) + nshard - 1) // nshard), timeout=1500)
    lap("coq_eval")
    fails_c = [order[i][1] for i in fails if order[i][0] == 0]
    fails_f = [full_idx[order[i][1]] for i in fails if order[i][0] == 1]
    fails_e = [order[i][1] for i in fails if order[i][0] == 2]
    fails_r = [order[i][1] for i in fails if order[i][0] == 3]
    fails_h = []
    if fails_c:
        # pinpoint inside the first failing chunks: one case per signature
        single, single_idx = [], []
        for ci in fails_c[:3]:
            mid, seed, sigs = chunks[ci]
            p0, n = chunk_rng[ci]
            for q, sig in enumerate(sigs):
                single.append("(0 :: %s)%%Z" % zl([mid, seed, sig, hashes[p0 + q]]))
                single_idx.append(p0 + q)
        fs = ctx.coq_eval("c26_hash1", COQ_IMPORTS, single, "chk_any", pre=pre, shard=48)
        fails_h = [single_idx[i] for i in fs]
    for fl, what in ((fails_h, "hashed outputs"), (fails_f, "full outputs")):
        for i in sorted(fl, key=lambda i: bin(cases[i][2]).count("1"))[:3]:
            c = cases[i]
            ctx.violation("correspondence", {"model": c[1], "dims": dims[c[1]], "sig": c[2], "dstsig": c[3], "vector_seed": c[4],
                                             "driver_line": "%s %d %d %d %d" % c},
                          expected="outputs of Model/StateAPI.v on the regenerated table", observed=lines[i][:400],
                          found_input=False, theorem="correspondence c26_state (%s)" % what,
                          note="implementation and Coq model disagree on this input, but the memcmp laws hold on the implementation output")
    if fails_c and not fails_h:
        ctx.broken.append(("correspondence", "hashed chunk disagrees with the model but no single case does", str(chunks[fails_c[0]][:2])))
    for i in fails_e[:3]:
        ctx.violation("correspondence", {"model": ecases[i][0], "sig": ecases[i][1], "dstsig": ecases[i][2]},
                      expected="error outcomes of Model/StateAPI.v", observed=lines[len(cases) + i], found_input=False,
                      theorem="correspondence c26_state (errors)")
    for i in fails_r[:3]:
        c = reset_cmds[i]
        ctx.violation("correspondence", {"op": c[0], "model": c[1], "key": c[2], "nstep": c[3]},
                      expected="component-level reset model (Model/StateAPI.v)", observed=reset_lines[i][:400], found_input=False,
                      theorem="correspondence c26_state (reset)")
    nreset = len(reset_cmds)

    ctx.cov["evaluations"] = len(cases) + len(ecases) + nreset
    ctx.cov["distinct_nontrivial"] = len(nontriv)
    ctx.cov["exhaustive"] = ctx.tier == "thorough"
    ctx.cov["exhaustive_part"] = ("all %d signatures on each of %d models (models 0, 2, 3, 4), 2048 sampled on the minimal model 1" % (nsig, NMODEL - 1)) if ctx.tier == "thorough" else \
        "sample of signatures (the thorough tier enumerates all %d signatures per model)" % nsig
    ctx.cov["rule"] = ("each case runs all five API functions on (model, sig, random dstsig subset of sig, random vector); thorough: every sig in "
                       "0..2^%d-1 for %d models (the minimal model 1 is sampled) (hashed outputs compared with the Coq model) + %d cases with full vectors; error outcomes on invalid "
                       "signatures; reset/keyframe cases; non-trivial = distinct (model, sig) with >= 2 elements on a model with non-empty "
                       "optional components" % (nstate, NMODEL, nfull))
    ctx.cov["samples"] = [{"model": c[1], "sig": c[2], "dstsig": c[3], "seed": c[4], "kind": c[0]} for c in (cases[3], cases[len(cases) // 2], cases[-1])]
    ctx.cov["support"]["model_dims"] = dims
    ctx.cov["correspondence_disagreements"] = len(fails)
    ctx.cov["explanation"] = ("generic theorems for every table + computed check of the regenerated table; loops tied by exact comparison on %d cases"
                              % (len(cases) + len(ecases)))


# ---------------------------------------------------------------------------------------------- reset
def expected_history(nhist, hist, dt):
    """history buffers after _resetData, recomputed from the documented layout:
    [user, cursor, times[n], values[n*dim]] per actuator/sensor with n > 0."""
    h = [0.0] * nhist
    for (adr, n, dim, period, phase, is_sensor) in hist:
        if n <= 0:
            continue
        if is_sensor:
            h[adr] = (-period if phase == 0 else phase) if period > 0 else -dt
        else:
            h[adr] = 0.0
        h[adr + 1] = float(n - 1)
        for j in range(n):
            if is_sensor and period > 0:
                t0 = -period if phase == 0 else phase
                h[adr + 2 + j] = math.ceil((t0 - (n - 1 - j) * period) / dt) * dt
            else:
                h[adr + 2 + j] = -(n - j) * dt
    return h


def run_reset(ctx, exe, dims, lens):
    cmds = []
    for mid in range(NMODEL):
        for nstep in ((1, 7) if ctx.tier == "quick" else (1, 2, 7, 25)):
            cmds.append(("R", mid, 0, nstep))
            for key in range(-1, dims[mid]["nkey"] + 1):
                cmds.append(("K", mid, key, nstep))
    inp = "".join(("R %d %d\n" % (c[1], c[3])) if c[0] == "R" else ("K %d %d %d\n" % (c[1], c[2], c[3])) for c in cmds)
    rc, out, err = ctx.run(exe, inp)
    lines = out.split("\n")
    if rc != 0 or len(lines) < len(cmds):
        ctx.broken.append(("correspondence", "driver c26_state failed on reset cases", "rc=%s %s" % (rc, err[-800:])))
        return [], [], []
    coq_cases = []
    for c, line in zip(cmds, lines):
        kind, mid, key, nstep = c
        parts = line.split("|")
        used = int(parts[0])
        diff = parts[1].split()
        ndiff = int(parts[2])
        comp = parse_vecs(parts[3])
        dpart = parts[4]
        pre_h, _, rest = dpart.partition("hist")
        dv = parse_vecs(pre_h)            # qpos0, mocap_pos, mocap_quat, eq_active0
        htxt, _, rest = rest.partition("; dt")
        htoks = htxt.split(":")[1].split()
        nact = int(htxt.split(":")[0].split()[1])
        hist = []
        for q in range(0, len(htoks), 5):
            hist.append((int(htoks[q]), int(htoks[q + 1]), int(htoks[q + 2]), float.fromhex(htoks[q + 3]), float.fromhex(htoks[q + 4])))
        dtxt, _, rest = rest.partition(";")
        dt = float.fromhex(dtxt.strip())
        tail = parse_vecs(rest)           # plugin reset values, neutral ctrl
        keyv = None
        if kind == "K" and "nokey" not in parts[5]:
            keyv = parse_vecs(parts[5])   # time qpos qvel act ctrl mpos mquat
        case = {"op": "mj_resetDataKeyframe" if kind == "K" else "mj_resetData", "model": mid, "key": key, "nstep": nstep}
        if not used:
            ctx.broken.append(("correspondence", "reset case does not exercise a used mjData", str(case)))
        if ndiff or diff:
            ctx.violation("impl_violation", case, expected="every MJDATA_POINTERS array, scalar and vector header field of the reset mjData equals "
                          "that of a fresh mj_makeData" + (" with the key arrays copied in" if kind == "K" else ""),
                          observed="fields that differ byte-wise: " + " ".join(diff), theorem="C26_reset_fresh" if kind == "R" else "C26_reset_key",
                          signature={"site": "reset", "fields": " ".join(sorted(diff))})
        # harness' own expectation of the state components
        hh = [(adr, n, dim, period, phase, q >= nact) for q, (adr, n, dim, period, phase) in enumerate(hist)]   # actuators first
        eh = [f2bits(x) for x in expected_history(dims[mid]["nhistory"], hh, dt)]
        ln = lens[mid]
        exp = {f: [0] * ln[k] for k, f in enumerate(FIELDS)}
        exp["qpos"], exp["mocap_pos"], exp["mocap_quat"], exp["eq_active"] = dv[0], dv[1], dv[2], dv[3]
        exp["history"] = eh
        exp["plugin_state"], exp["ctrl"] = tail[0], tail[1]
        if keyv is not None:
            for f, v in zip(["time", "qpos", "qvel", "act", "ctrl", "mocap_pos", "mocap_quat"], keyv):
                exp[f] = v
        for k, f in enumerate(FIELDS):
            if comp[k] != exp[f]:
                ctx.violation("impl_violation", dict(case, field=f), expected=[bits2f(u) for u in exp[f]][:40],
                              observed=[bits2f(u) for u in comp[k]][:40], theorem="C26_reset_fresh" if kind == "R" else "C26_reset_key",
                              signature={"site": "reset", "fields": f})
        # Coq component-level model on the same inputs (values = bit patterns): flat, length-prefixed segments
        kv = keyv if keyv is not None else [[0], [], [], [], [], [], []]
        segs = [ln, dv[0], dv[1], dv[2], dv[3], eh, tail[1], tail[0], kv[0], kv[1], kv[2], kv[3], kv[5], kv[6], kv[4]] + comp
        flat = [1 if keyv is not None else 0]
        for sg in segs:
            flat += [len(sg)] + list(sg)
        coq_cases.append(zl(flat))
    ctx.cov["support"]["reset_cases"] = len(cmds)
    return cmds, lines, coq_cases
