"""C03 — thread-pool dispatch runs each task exactly once."""
import hashlib, os
import framework as F

META = {
    "id": "C03", "category": "proof", "design_ref": "DESIGN.md section 4, C03",
    "technique": "Coq proof by inductive invariant over the reachable states of an interleaving (sequentially consistent) model of "
                 "ThreadPoolContext / mju_threadpool / mju_dispatch + trace validation of the unmodified engine_thread.cc under a "
                 "controlled-scheduler shim of std::atomic / std::thread",
    "text": "Proved in Coq (Props/C03.v) for the model Model/ThreadPool.v, for ANY number of workers, ANY ntask, ANY history of "
            "mju_threadpool / mju_dispatch calls and ANY interleaving at the granularity of one atomic operation / thread operation / "
            "task begin or end: (1) within one mju_dispatch call no task id is invoked twice, every invoked id is in 0..ntask-1 and "
            "the thread_id argument is 0 (dispatching thread) or 1..nthread of the current pool (0 only when there is no pool); "
            "(2) mju_dispatch can take its return step only when the finished invocations are exactly a permutation of 0..ntask-1, "
            "every begun invocation has ended and every worker is parked in signal_.wait (both the pooled and the serial path); "
            "(3) between API calls the pool is absent, or all nthread>=1 workers are parked on the current signal value and no worker "
            "step is enabled (create/resize/destroy/dispatch histories of any length); while the dispatcher writes the plain batch "
            "fields no worker can read them; (4) no deadlock: in every reachable state inside an API call some step that strictly "
            "decreases an explicit natural-number variant is enabled, every step inside a call either decreases the variant or is "
            "the dispatcher's unchanged spin load of ndone_, hence every call returns within `measure` non-spin steps under any "
            "scheduler that does not starve the enabled threads forever (C03_call_returns gives the finite path). "
            "Tie: the unmodified engine_thread.cc of the working tree is compiled against harness/drivers/shim_atomic.h; every "
            "logged total order of events (atomic init/store/load/fetch_add/wait-return/notify, spawn/join/exit, API call/return, "
            "task begin/end with the thread_id/task_id arguments) must be accepted event by event by the model's step function "
            "evaluated inside Coq, and end in a quiescent state. An independent Python oracle checks the property text on the "
            "implementation logs (each id once per dispatch, thread ids in range and not shared by two running threads, return after "
            "last task end, DEADLOCK/LIVELOCK watchdog of the scheduler). "
            "NOT covered: weak-memory behaviour of memory_order_relaxed/acquire/release (the model and the shim are sequentially "
            "consistent); the guarantee of std::atomic::wait that it only returns after observing a changed value is assumed "
            "(the protocol is not robust against a wait that returns spuriously, and the model says so by construction); "
            "int overflow of next_ (bounded by ntask + nthread + 1); the mj_markStack/mj_freeStack bookkeeping of mju_dispatch "
            "(only counted by the driver); liveness of the implementation is observed on the explored schedules only.",
    "note": "Trusted: Coq kernel; hand-written model Model/ThreadPool.v; the shim scheduler (harness/drivers/shim_atomic.h) and "
            "driver c03_pool.cc; g++. All theorems closed under the global context.",
    "assumptions": ["sequential consistency at the granularity of one atomic operation",
                    "std::atomic::wait(old) returns only when the value differs from old",
                    "tie is trace validation on the schedules of this run (implementation behaviours are a subset of model behaviours on these runs)"],
}

KINDS = {"cp": "ECallPool", "rp": "ERetPool", "cd": "ECallDispatch", "rd": "ERetDispatch", "in": "EInit", "st": "EStore",
         "ld": "ELoad", "fa": "EFetchAdd", "wr": "EWaitRet", "nt": "ENotify", "sp": "ESpawn", "jn": "EJoin", "ex": "EExit",
         "tb": "EBegin", "te": "EEnd"}
ARITY = {"cp": 1, "rp": 0, "cd": 1, "rd": 0, "in": 2, "st": 2, "ld": 2, "fa": 3, "wr": 2, "nt": 1, "sp": 1, "jn": 1, "ex": 0,
         "tb": 2, "te": 2}


def z(x):
    return "(%d)" % x if x < 0 else str(x)


def coq_event(e):
    t, k, a = e
    if k not in KINDS:
        return None
    n = ARITY[k]
    body = KINDS[k] + "".join(" " + z(v) for v in a[:n])
    return "(%d, %s)" % (t, body if n == 0 else body)


def gen_cases(ctx):
    rng = ctx.rng
    quick = ctx.tier == "quick"
    cases = []

    def add(ops, mode=None):
        ops = list(ops)
        if not ops or ops[-1] != ("P", 0):
            ops.append(("P", 0))
        m = rng.randrange(4) if mode is None else mode
        nthreads = 1 + max([n for (o, n) in ops if o == "P"] + [0])
        cases.append({"seed": rng.randrange(1, 2 ** 31), "mode": m, "victim": rng.randrange(0, max(1, nthreads)), "ops": ops})

    # single dispatch on a fresh pool, all scheduler modes
    reps = 5 if quick else 60
    for N in ((1, 2, 3) if quick else (1, 2, 3, 4, 5, 8)):
        for k in ((0, 1, 2, 5, 17) if quick else (0, 1, 2, 3, 5, 9, 17, 40)):
            for mode in range(4):
                for _ in range(reps):
                    add([("P", N), ("D", k)], mode)
    # two and three consecutive batches (signal alternates -1/+1)
    for _ in range(30 if quick else 1500):
        N = rng.choice((1, 2, 3) if quick else (1, 2, 3, 4, 6))
        add([("P", N)] + [("D", rng.choice((2, 3, 4, 7)))] * rng.choice((2, 3, 4)))
    # lifecycle histories
    for _ in range(60 if quick else 3000):
        ops = []
        for _ in range(rng.randrange(2, 9)):
            if rng.random() < 0.45:
                ops.append(("P", rng.choice((-1, 0, 1, 1, 2, 2, 3, 4) if quick else (-2, -1, 0, 1, 1, 2, 2, 3, 4, 5, 7))))
            else:
                ops.append(("D", rng.choice((-1, 0, 1, 2, 2, 3, 5, 8))))
        add(ops)
    # dispatch without any pool, resize to the same size, destroy twice
    add([("D", 4)])
    add([("P", 2), ("P", 2), ("D", 3), ("P", 2), ("D", 3)])
    add([("P", 0), ("P", 0), ("P", -3), ("D", 2)])
    add([("P", 3), ("P", 1), ("P", 4), ("D", 6)])
    cases.sort(key=lambda c: (len(c["ops"]), sum(abs(x) for _, x in c["ops"])))
    return cases


def case_line(c):
    return "%d %d %d %d %s\n" % (c["seed"], c["mode"], c["victim"], len(c["ops"]), " ".join("%s %d" % op for op in c["ops"]))


def run_driver(ctx, exe, cases):
    """returns list of (status, events, tail) per case; restarts the driver after an aborted case."""
    res = []
    i = 0
    while i < len(cases):
        inp = "".join(case_line(c) for c in cases[i:])
        rc, out, err = ctx.run(exe, inp, timeout=300)
        blocks = out.split("CASE ")[1:]
        got = 0
        for b in blocks:
            lines = b.strip().split("\n")
            evs = []
            status = None
            for ln in lines[1:]:
                tk = ln.split()
                if not tk:
                    continue
                if tk[0] == "END":
                    status = (tk[1], int(tk[2]), int(tk[3]), int(tk[4]))
                    break
                evs.append((int(tk[0]), tk[1], [int(x) for x in tk[2:5]]))
            if status is None:
                status = ("CRASH rc=%s %s" % (rc, err[-200:]), 0, 0, -1)
            res.append((status, evs))
            got += 1
            if status[0] != "OK":
                break
        if got == 0:
            res.append((("CRASH rc=%s %s" % (rc, err[-200:]), 0, 0, -1), []))
            got = 1
        i += got
        if res[-1][0][0] == "OK" and rc != 0 and i < len(cases):
            res.append((("CRASH rc=%s %s" % (rc, err[-200:]), 0, 0, -1), []))
            i += 1
    return res[:len(cases)]


def oracle(case, status, evs):
    """independent check of the property statement on an implementation log; returns list of (what, detail)."""
    bad = []
    if status[0] != "OK":
        bad.append(("deadlock" if status[0] in ("DEADLOCK", "LIVELOCK") else "abnormal-end", status[0]))
    N = 0              # pool size according to the API contract
    batch = None       # {"k":, "begun": {task: tid}, "open": {logical thread: (tid, task)}, "ended": set}
    for idx, (t, k, a) in enumerate(evs):
        if k == "cp":
            pending_n = a[0]
        elif k == "rp":
            N = pending_n if pending_n >= 1 else 0
            if (a[0] != 0) != (N > 0):
                bad.append(("pool-presence", "after mju_threadpool(%d): pool present=%d" % (pending_n, a[0])))
        elif k == "cd":
            batch = {"k": a[0], "begun": {}, "open": {}, "ended": set(), "tidof": {}}
        elif k == "tb":
            tid, task = a[0], a[1]
            if batch is None:
                bad.append(("task-outside-dispatch", "event %d" % idx)); continue
            if not (0 <= task < batch["k"]):
                bad.append(("task-id-out-of-range", "task %d of %d" % (task, batch["k"])))
            if task in batch["begun"]:
                bad.append(("task-invoked-twice", "task %d" % task))
            batch["begun"][task] = tid
            if not (0 <= tid <= N):
                bad.append(("thread-id-out-of-range", "thread_id %d with %d workers" % (tid, N)))
            if (tid == 0) != (t == 0):
                bad.append(("thread-id-zero-misused", "thread_id %d passed on log thread %d" % (tid, t)))
            if any(o[0] == tid for lt, o in batch["open"].items() if lt != t):
                bad.append(("thread-id-shared", "thread_id %d used by two running invocations" % tid))
            if batch["tidof"].setdefault(t, tid) != tid:
                bad.append(("thread-id-unstable", "log thread %d used two thread ids" % t))
            if t in batch["open"]:
                bad.append(("nested-task", "thread %d" % t))
            batch["open"][t] = (tid, task)
        elif k == "te":
            tid, task = a[0], a[1]
            if batch is None or batch["open"].get(t) != (tid, task):
                bad.append(("task-end-without-begin", "event %d" % idx)); continue
            del batch["open"][t]
            batch["ended"].add(task)
        elif k == "rd":
            if batch is None:
                bad.append(("return-without-call", "event %d" % idx)); continue
            if batch["open"]:
                bad.append(("return-before-task-end", "tasks still running: %s" % sorted(batch["open"].values())))
            missing = [x for x in range(max(0, batch["k"])) if x not in batch["ended"]]
            if missing:
                bad.append(("task-lost", "tasks %s of %d not finished at return" % (missing[:8], batch["k"])))
            batch["returned"] = True
            last = batch
            batch = None
    if status[0] == "OK" and status[3] != 1:
        bad.append(("pool-left", "mju_numThread=%d at end" % status[3]))
    return bad


def run(ctx):
    ctx.coq_props(allowed_axioms=(), extra_targets=["Model/ThreadPool.vo"])
    exe = ctx.driver("c03_pool", ["c03_pool.cc"], with_lib=False)
    if exe is None:
        return
    if getattr(ctx, "replay", None) and ctx.replay.get("case"):
        c = ctx.replay["case"]
        cases = [{"seed": c["seed"], "mode": c["mode"], "victim": c["victim"], "ops": [tuple(o) for o in c["ops"]]}]
    else:
        cases = gen_cases(ctx)
    res = run_driver(ctx, exe, cases)
    if len(res) < len(cases):
        ctx.broken.append(("correspondence", "driver c03_pool produced %d of %d logs" % (len(res), len(cases)), ""))
        return
    coq_cases, idxmap = [], []
    distinct, nontriv, nevents, nviol = set(), 0, 0, 0
    modes = [0, 0, 0, 0]
    for i, (c, (status, evs)) in enumerate(zip(cases, res)):
        modes[c["mode"]] += 1
        nevents += len(evs)
        bad = oracle(c, status, evs)
        for what, detail in bad[:1]:
            nviol += 1
            if nviol <= 6:
                ctx.violation("impl_violation", c, expected="property C03 on the implementation log", observed="%s: %s" % (what, detail),
                              theorem="C03_exactly_once / C03_return_after_all / C03_progress", signature={"site": "engine_thread.cc", "what": what},
                              note="log tail: " + " | ".join("%d %s %s" % (t, k, a) for t, k, a in evs[-12:]))
        lits = [coq_event(e) for e in evs]
        if status[0] != "OK" or None in lits:
            if status[0] == "OK":
                ctx.broken.append(("correspondence", "unknown event kind in log", str([e for e in evs if e[1] not in KINDS][:3])))
            continue
        h = hashlib.sha256(repr(evs).encode()).hexdigest()
        if h not in distinct:
            distinct.add(h)
            # non-trivial: some batch in which at least two different threads ran tasks
            cur, multi = set(), False
            for (t, k, a) in evs:
                if k == "cd":
                    cur = set()
                elif k == "tb":
                    cur.add(t)
                    multi = multi or len(cur) >= 2
            nontriv += multi
        coq_cases.append("([%s], false)" % "; ".join(lits))
        idxmap.append(i)
    fails = ctx.coq_eval("c03", "From Coq Require Import ZArith.\nFrom MJV Require Import Model.ThreadPool.\nOpen Scope Z_scope.",
                         coq_cases, "fun c => accepts (fst c) (snd c)", shard=max(50, min(400, len(coq_cases) // 8 + 1)))
    for j in fails[:5]:
        i = idxmap[j]
        c, (status, evs) = cases[i], res[i]
        ok, out = ctx.coq_run("c03_prefix", "From Coq Require Import ZArith List.\nFrom MJV Require Import Model.ThreadPool.\nImport ListNotations.\nOpen Scope Z_scope.\n"
                              "Eval vm_compute in run_prefix init (fst %s) 0.\n" % coq_cases[j])
        import re
        m = re.search(r"=\s*(\d+)", out)
        at = int(m.group(1)) if m else -1
        ctx.violation("correspondence", c, expected="model Model/ThreadPool.v accepts the event log and ends quiescent",
                      observed="model rejects event %d: %s (context: %s)" % (at, evs[at] if 0 <= at < len(evs) else "end state not quiescent",
                                                                          " | ".join("%d %s %s" % e for e in evs[max(0, at - 6):at])),
                      found_input=False, theorem="trace validation c03_pool",
                      note="implementation log is not a behaviour of the proved model, but the implementation log satisfies the oracle")
    ctx.cov["evaluations"] = len(cases)
    ctx.cov["distinct_nontrivial"] = nontriv
    ctx.cov["distinct_logs"] = len(distinct)
    ctx.cov["events_replayed"] = nevents
    ctx.cov["schedules"] = {"uniform": modes[0], "sticky": modes[1], "priority-demotion": modes[2], "starve-one-thread": modes[3]}
    ctx.cov["rule"] = ("histories of mju_threadpool(n)/mju_dispatch(k) ending with mju_threadpool(0): single batches N x ntask x 4 scheduler modes, "
                       "consecutive batches, random lifecycle histories (n in -2..7, k in -1..8); every history run under a seeded scheduler "
                       "(uniform / sticky / priority with random demotion / starve one thread); non-trivial = distinct event log in which "
                       "at least two different threads executed tasks of the same batch")
    ctx.cov["samples"] = [cases[0], cases[len(cases) // 2], cases[-1]]
    ctx.cov["correspondence_disagreements"] = len(fails)
    ctx.cov["support"]["oracle_violations"] = nviol
    ctx.cov["explanation"] = ("All C03 theorems are proved for the model for every number of workers/tasks/history/interleaving (SC). "
                              "The model is tied to engine_thread.cc by replaying %d implementation event logs (%d events) through the model's "
                              "step function inside Coq. Weak-memory effects are outside the model." % (len(coq_cases), nevents))
