"""C08 — conservative systems conserve energy and momentum."""
import math, os, sys
import framework as F

sys.path.insert(0, os.path.join(F.VERIF, "translate"))
import tableau2v  # noqa: E402   (read-only use of C05's translator: regenerates Gen/RK4Tableau.v, which Props/C08.v cites through Props/C05.v)

META = {
    "id": "C08", "category": "proof", "design_ref": "DESIGN.md section 4, C08",
    "technique": "Coq proofs over R (Coquelicot derivatives, induction over the CSR rows and over the polynomial terms) of a Gallina model of mj_energyVel / mj_energyPos / joint and tendon spring forces (Model/Energy.v, generic over Lib/Num) + float correspondence of that model with the working tree on generated models + oracles on implementation output (independent kinetic energy, energy gradient vs forces, RK4 drift order, momentum)",
    "text": "filled in below",
    "note": "filled in below",
    "assumptions": [
        "theorems are about exact real arithmetic; IEEE rounding is outside every theorem (the model is run at binary64 only for the tie, tolerance 2^-30 scaled)",
        "hand-written model Model/Energy.v; CSR addressing (M_rowadr/M_rownnz/M_colind) is abstracted into a list of rows, mju_dot's 4-accumulator summation into a left fold; tie is differential testing on the generated models of this run",
        "the drift-order and momentum clauses are oracles on implementation output, not theorems",
    ],
}
META["text"] = (
    "Proved in Coq over the reals about the model Model/Energy.v: C08_kinetic - for every size, every lower-triangular CSR structure (any number/order/repetition of entries with column < row) and every velocity, "
    "the value mj_energyVel reports (0.5 * dot(mju_mulSymVecSparse(M, qvel), qvel)) equals 1/2 sum_i sum_j v_i M_ij v_j for the symmetric dense matrix M whose diagonal and lower triangle are the stored entries (repeated columns summed) and whose upper triangle is the mirror image, "
    "equivalently 1/2 sum_i (M_ii v_i^2 + 2 sum_{(j,val) in row i} val v_j v_i) (proved through the in-place update loop of mju_mulSymVecSparse, which is correct only because stored columns are smaller than their row; that mj_crb fills M with the joint-space inertia is NOT part of the theorem: oracle). "
    "C08_spring_gradient - slide/hinge joint springs with polynomial stiffness of ANY number of terms: qfrc_spring = - d(reported spring potential)/d qpos (Coquelicot is_derive, induction over the terms); C08_tendon_spring_gradient - the same for tendon springs outside their dead band; "
    "C08_gravity_gradient - the reported gravity potential -sum m_i g.xipos_i changes at rate -m g.u when one body is translated along u. "
    "Partial: C08_spring_gradient_ball_partial - ball joints / rotational part of free joints only in the radial direction (qpos = qpos_spring rotated by t about a fixed axis, 0 < t <= pi, no mjMINVAL guard): potential = polyPotential(t), torque = -(t polyForce(t)) axis, and t polyForce(t) = d polyPotential/dt; tangential directions and the translational free-joint spring have no theorem (finite-difference oracle only). "
    "C08_rk4_scheme_order - inherited from C05_rk4_tableau (not re-proved): the tableau regenerated from engine_forward.c satisfies the order-4 conditions; the SCHEME is 4th order. "
    "NOT theorems (oracle on the implementation only): that the engine's total energy drift under RK4 scales as h^4, and momentum conservation. "
    "Tie: on every run the model is evaluated at binary64 inside Coq on data exported from the compiled model and mjData (gravity, masses, xipos, joint types/stiffness/polynomial coefficients/qpos/qpos_spring, tendon springs with dead bands, the CSR arrays of M, qvel) and compared with energy[0], energy[1] and the joint-level qfrc_spring of the working tree (gravity / spring disable flags included; every joint and tendon gets one of the 8 zero/non-zero combinations of linear, quadratic and cubic stiffness, so purely nonlinear springs - linear coefficient 0 - are always present). "
    "Oracles on implementation output: energy[1] against 1/2 v' fullM v and against the body-level sum 1/2 (m |v_com|^2 + w.I w) + 1/2 armature qvel^2 (independent of M); central finite differences of energy[0] over mj_integratePos perturbations against qfrc_bias - qfrc_spring at zero velocity (covers ball/free/tendon springs and gravity); "
    "on generated conservative trees (damping, friction, actuation, contacts, constraints removed) the maximal energy drift over a fixed horizon under RK4 at h, h/2, h/4, h/8 must shrink by >= 10x per halving at the finest pair of levels above round-off and >= 6x at the next coarser pair (cases entirely at round-off level skipped); "
    "with gravity off, free-floating trees keep linear and angular momentum (computed in python from per-body masses, inertias, poses and velocities, and cross-checked with subtree_linvel / subtree_angmom) to 1e-9 * scale over 20 RK4 steps of 1e-5 s.")
META["note"] = ("Trusted: Coq kernel + the standard-library real-number axioms listed in trusted_base; hand-written models Model/Energy.v, Model/Spatial.v; C05's translator translate/tableau2v.py and theorem C05_rk4_tableau (cited); Lib/FloatFn.v (executable side); "
                "correspondence harness (gcc, driver c08_energy.c, generator mjgen.h).")

TOL = "0x1p-30"
FEAT = {"FREE": 1, "BALL": 2, "SLIDE": 4, "TENDON": 32, "SPRING": 1 << 12, "MULTITREE": 1 << 15, "SITE": 1 << 16}
QUAT_CLASS = "rk4-quaternion-joints-second-order"


def parse_blocks(out):
    blocks, cur = [], {}
    for line in out.split("\n"):
        if not line:
            continue
        if line == "END":
            blocks.append(cur)
            cur = {}
            continue
        toks = line.split()
        name, vals = toks[0], toks[1:]
        if name == "ERR":
            cur["ERR"] = " ".join(vals)
            continue
        if vals and all(("x" not in t and "n" not in t) for t in vals):
            cur[name] = [int(t) for t in vals]
        else:
            cur[name] = [float.fromhex(t) for t in vals]
    return blocks


def cross(a, b):
    return [a[1] * b[2] - a[2] * b[1], a[2] * b[0] - a[0] * b[2], a[0] * b[1] - a[1] * b[0]]


def matvec(m, v):
    return [m[0] * v[0] + m[1] * v[1] + m[2] * v[2], m[3] * v[0] + m[4] * v[1] + m[5] * v[2], m[6] * v[0] + m[7] * v[1] + m[8] * v[2]]


def transpose(a):
    return [a[3 * j + i] for i in range(3) for j in range(3)]


# ------------------------------------------------------------------------------------- Coq cases
def coq_pre():
    return "\n".join([
        "Definition g (l : list float) (i : nat) : float := nth i l 0%float.",
        "Definition V (l : list float) (i : nat) : vec3 float := (g l i, g l (i+1), g l (i+2)).",
        "Definition mkS (t : Z) (k : float) (poly q qs : list float) : sjoint float := mkSJoint (jtype_of_Z t) k poly q qs.",
        "Definition mkT (l poly : list float) : float * list float * (float * float * float) := (g l 0, poly, (g l 1, g l 2, g l 3)).",
        "Definition chk (c : Z * (bool * bool) * list float * list (float * list float) * list (sjoint float) * list (list float * list float) * list (mrow float) * list float) : bool :=",
        "  let '(kind, flags, a, bodies, joints, tendons, rows, expd) := c in",
        "  fclose_list %s" % TOL,
        "    (if (kind =? 0)%Z then",
        "       [energyPos (fst flags) (V a 0) (map (fun b => (fst b, V (snd b) 0)) bodies) (snd flags) joints (map (fun t => mkT (fst t) (snd t)) tendons)]",
        "     else if (kind =? 1)%Z then [energyVel rows a]",
        "     else flat_map jointSpringForce joints) expd.",
    ]) + "\n"


def fl(x):
    return "(%s)%%float" % F.fhex(x)


def nq_of(t):
    return {0: 7, 1: 4, 2: 1, 3: 1}[t]


def joints_literal(D):
    js = []
    npoly = D["npoly"][0]
    for j in range(D["njnt"][0]):
        t = D["jnt_type"][j]
        a, n = D["jnt_qposadr"][j], nq_of(t)
        js.append("mkS %d %s %s %s %s" % (t, fl(D["jnt_stiffness"][j]), F.flist(D["jnt_stiffnesspoly"][npoly * j:npoly * j + npoly]),
                                          F.flist(D["qpos"][a:a + n]), F.flist(D["qpos_spring"][a:a + n])))
    return "[" + ";\n ".join(js) + "]"


def t_cases(D):
    out = []
    npoly = D["npoly"][0]
    bodies = "[" + "; ".join("(%s, %s)" % (fl(D["body_mass"][b]), F.flist(D["xipos"][3 * b:3 * b + 3])) for b in range(1, D["nbody"][0])) + "]"
    tend = "[" + "; ".join("(%s, %s)" % (F.flist([D["tendon_stiffness"][t], D["ten_length"][t], D["tendon_lengthspring"][2 * t], D["tendon_lengthspring"][2 * t + 1]]),
                                          F.flist(D["tendon_stiffnesspoly"][npoly * t:npoly * t + npoly])) for t in range(D["ntendon"][0])) + "]"
    joints = joints_literal(D)
    flags = "(%s, %s)" % ("true" if D["grav_on"][0] else "false", "true" if D["spring_on"][0] else "false")
    out.append(("(0%%Z, %s, %s, %s, %s, %s, [], %s)" % (flags, F.flist(D["gravity"]), bodies, joints, tend, F.flist([D["energy"][0]])), "mj_energyPos"))
    rows = []
    nv = D["nv"][0]
    for i in range(nv):
        a, n = D["M_rowadr"][i], D["M_rownnz"][i]
        ent = "; ".join("(%d%%nat, %s)" % (D["M_colind"][a + k], fl(D["M"][a + k])) for k in range(n - 1))
        rows.append("([%s], %s)" % (ent, fl(D["M"][a + n - 1])))
    out.append(("(1%%Z, (true, true), %s, [], [], [], [%s], %s)" % (F.flist(D["qvel"]), "; ".join(rows), F.flist([D["energy"][1]])), "mj_energyVel"))
    if D["ntendon"][0] == 0 and D["spring_on"][0]:
        out.append(("(2%%Z, (true, true), []%%float, [], %s, [], [], %s)" % (joints, F.flist(D["qfrc_spring"])), "joint springs of mj_springdamper"))
    return out


# ------------------------------------------------------------------------------------- oracles
def oracle_kinetic(D):
    f = []
    nv, nb = D["nv"][0], D["nbody"][0]
    v = D["qvel"]
    e = D["energy"][1]
    full = D["fullM"]
    q = 0.5 * sum(v[i] * full[i * nv + j] * v[j] for i in range(nv) for j in range(nv))
    if abs(q - e) > 1e-10 * (1 + abs(q)):
        f.append(("energy[1] = 1/2 qvel' M qvel with M from mj_fullM", q, e))
    # body level, independent of M
    t = 0.0
    for b in range(1, nb):
        w, vl = D["vel_local"][6 * b:6 * b + 3], D["vel_local"][6 * b + 3:6 * b + 6]
        inert = D["body_inertia"][3 * b:3 * b + 3]
        t += 0.5 * (D["body_mass"][b] * sum(x * x for x in vl) + sum(inert[k] * w[k] * w[k] for k in range(3)))
    t += 0.5 * sum(D["dof_armature"][i] * v[i] * v[i] for i in range(nv))
    if abs(t - e) > 1e-9 * (1 + abs(t)):
        f.append(("energy[1] = sum over bodies 1/2 (m |v_com|^2 + w.I w) + 1/2 armature qvel^2", t, e))
    if e < -1e-12:
        f.append(("kinetic energy is non-negative", ">= 0", e))
    return f


def oracle_gradient(D):
    f = []
    nv = D["nv"][0]
    if nv == 0:
        return f
    eps = D["eps"][0]
    fd = [(D["epot_plus"][k] - D["epot_minus"][k]) / (2 * eps) for k in range(nv)]
    exp = [D["qfrc_bias"][k] - D["qfrc_spring"][k] for k in range(nv)]
    sc = 1 + max(abs(x) for x in fd + exp)
    bad = [k for k in range(nv) if abs(fd[k] - exp[k]) > 2e-6 * sc]
    if bad:
        f.append(("d energy[0] / d q (central difference over mj_integratePos, qvel = 0) = qfrc_bias - qfrc_spring", {"dofs": bad[:6]}, exp, fd))
    return f


def oracle_drift(D, req):
    """max |E - E0| over a fixed horizon at h0, h0/2, h0/4, h0/8.  The order is read off the finest pair of levels that is
    above round-off (>= 10x), the next coarser pair may still be pre-asymptotic (>= 6x).  returns (violation or None, used)"""
    if D["warnings"][0]:
        return None, False
    d = D["drift"]
    floor = 3e-12 * max(1.0, D["escale"][0])
    i = len(d) - 2
    while i >= 0 and d[i + 1] < floor:
        i -= 1
    if i < 0:
        return None, False            # round-off level everywhere: no order can be read off
    ratios = [d[k] / d[k + 1] for k in range(i + 1)]
    rf = ratios[i]
    rc = ratios[i - 1] if i >= 1 else None
    if rf >= 10 and (rc is None or rc >= 6):
        return None, True
    hasquat = any(t in (0, 1) for t in D["jnt_type"])
    judged = [r for r in (rc, rf) if r is not None]
    # recorded finding C08-F1: with ball / free joints the drift is a h^4 + b h^2; the class covers exactly "still at least second
    # order at every judged pair"; anything slower than second order, or any failure without quaternion joints, is generic
    cls = QUAT_CLASS if (hasquat and min(judged) >= 3.5) else "generic"
    return (("RK4 energy drift shrinks at fourth order", {"ratios": ratios, "finest_pair": i, "joint_types": D["jnt_type"], "class": cls},
             ">= 10x per halving of the timestep at the finest resolved pair (>= 6x at the next coarser)", d), True)


def momentum(D, pre):
    P, L = [0.0] * 3, [0.0] * 3
    for b in range(1, D["nbody"][0]):
        m = D["body_mass"][b]
        x, R = D[pre + "xipos"][3 * b:3 * b + 3], D[pre + "ximat"][9 * b:9 * b + 9]
        w, v = D[pre + "vel"][6 * b:6 * b + 3], D[pre + "vel"][6 * b + 3:6 * b + 6]
        inert = D["body_inertia"][3 * b:3 * b + 3]
        wl = matvec(transpose(R), w)
        iw = matvec(R, [inert[k] * wl[k] for k in range(3)])
        xc = cross(x, [m * c for c in v])
        for k in range(3):
            P[k] += m * v[k]
            L[k] += xc[k] + iw[k]
    return P, L


def oracle_momentum(D):
    f = []
    if D["warnings"][0]:
        return f
    (P0, L0), (P1, L1) = momentum(D, "A_"), momentum(D, "B_")
    mtot = sum(D["body_mass"][1:])
    vmax = max([abs(x) for x in D["A_vel"]] + [1.0])
    sp = 1 + mtot * vmax
    sl = 1 + max(abs(x) for x in L0) + mtot * vmax
    if max(abs(a - b) for a, b in zip(P0, P1)) > 1e-9 * sp:
        f.append(("linear momentum of a free-floating system is conserved (gravity off)", P0, P1))
    if max(abs(a - b) for a, b in zip(L0, L1)) > 1e-9 * sl:
        f.append(("angular momentum of a free-floating system is conserved (gravity off)", L0, L1))
    # the engine's own subtree quantities, per root
    for pre, (P, L) in (("A_", (P0, L0)), ("B_", (P1, L1))):
        Ps, Ls = [0.0] * 3, [0.0] * 3
        for b in range(1, D["nbody"][0]):
            if D["body_parentid"][b] != 0:
                continue
            ms = subtree_mass(D, b)
            lv = D[pre + "subtree_linvel"][3 * b:3 * b + 3]
            com = D[pre + "subtree_com"][3 * b:3 * b + 3]
            am = D[pre + "subtree_angmom"][3 * b:3 * b + 3]
            pb = [ms * x for x in lv]
            cx = cross(com, pb)
            for k in range(3):
                Ps[k] += pb[k]
                Ls[k] += am[k] + cx[k]
        if max(abs(a - b) for a, b in zip(P, Ps)) > 1e-9 * sp:
            f.append(("subtree_linvel * subtree mass = sum of body momenta", P, Ps))
        if max(abs(a - b) for a, b in zip(L, Ls)) > 1e-9 * sl:
            f.append(("subtree_angmom + com x P = sum of body angular momenta about the origin", L, Ls))
    return f


def subtree_mass(D, root):
    n = D["nbody"][0]
    insub = [False] * n
    insub[root] = True
    for b in range(root + 1, n):
        insub[b] = insub[D["body_parentid"][b]]
    return sum(D["body_mass"][b] for b in range(n) if insub[b])


# ------------------------------------------------------------------------------------- the check
def run(ctx):
    rng = ctx.rng
    big = ctx.tier != "quick"
    ctx.coq_props(allowed_axioms=F.STD_AXIOMS, gen=lambda: tableau2v.generate(ctx.repo),
                  extra_targets=["Lib/Num.vo", "Lib/NumF.vo", "Lib/FloatFn.vo", "Model/Spatial.vo", "Model/Kinematics.vo", "Model/Energy.vo"])
    exe = ctx.driver("c08_energy", ["c08_energy.c"])
    if exe is None:
        return
    allj = FEAT["FREE"] | FEAT["BALL"] | FEAT["SLIDE"] | FEAT["SPRING"]
    tfeats = [allj, allj | FEAT["TENDON"], allj | FEAT["MULTITREE"], FEAT["SLIDE"] | FEAT["SPRING"] | FEAT["TENDON"], FEAT["BALL"] | FEAT["SPRING"], allj | FEAT["TENDON"] | FEAT["MULTITREE"]]
    reqs = []      # (op, tuple)
    nt = 10 if not big else 80
    for i in range(nt):
        nb = 1 + (i % 3) if i < 3 else rng.choice([2, 3, 4, 5, 6])
        reqs.append(("T", (rng.randrange(1, 10 ** 6), tfeats[i % len(tfeats)], nb, i)))
    ng = 8 if not big else 60
    for i in range(ng):
        nb = 1 + (i % 2) if i < 2 else rng.choice([2, 3, 4, 5])
        reqs.append(("G", (rng.randrange(1, 10 ** 6), tfeats[i % len(tfeats)], nb, i)))
    # drift: hinge/slide trees at h0 = 0.01 and trees with ball/free joints at h0 = 0.0005; the first request is the fixed corpus
    dreq = [("D", (11, 4103, 4, 1, 0.0005, 80))]
    nd = 8 if not big else 50
    for i in range(nd):
        if i % 4 == 3:
            dreq.append(("D", (rng.randrange(1, 10 ** 6), allj, rng.choice([2, 3, 4]), 1 + i, 0.0005, 80)))
        else:
            dreq.append(("D", (rng.randrange(1, 10 ** 6), FEAT["SLIDE"] | FEAT["SPRING"] | (FEAT["MULTITREE"] if i % 3 == 0 else 0), rng.choice([2, 3, 4, 5]), 1 + i, 0.01, 40)))
    preq = []
    npm = 12 if not big else 80
    for i in range(npm):
        preq.append(("P", (rng.randrange(1, 10 ** 6), allj | (FEAT["MULTITREE"] if i % 3 == 2 else 0), rng.choice([1, 2, 3, 4, 5]), 1 + i, 1e-5, 20)))
    allreq = reqs + dreq + preq
    inp = "".join("%s %s\n" % (op, " ".join(repr(x) if isinstance(x, float) else str(x) for x in r)) for op, r in allreq)
    rc, out, err = ctx.run(exe, inp)
    blocks = parse_blocks(out)
    if rc != 0 or len(blocks) != len(allreq):
        ctx.broken.append(("correspondence", "driver c08_energy failed", "rc=%s blocks=%d/%d %s" % (rc, len(blocks), len(allreq), err[-800:])))
        return
    seen = set()

    def report(law, op, req, detail, exp, obs, theorem):
        cls = detail.get("class", "generic") if isinstance(detail, dict) else "generic"
        key = (law.split(" (")[0], cls)
        if key in seen:
            return
        seen.add(key)
        ctx.violation("impl_violation", {"request": "%s %s" % (op, " ".join(str(x) for x in req)), "law": law, "detail": detail}, expected=exp, observed=obs,
                      theorem=theorem, signature={"law": key[0], "class": cls})
    cases, descr = [], []
    counts = {"kinetic": 0, "gradient_dofs": 0, "drift_models_used": 0, "drift_models_skipped": 0, "momentum_models": 0, "momentum_not_floating": 0}
    jt = [0, 0, 0, 0]
    combos = {"T": [0] * 8, "G": [0] * 8, "D": [0] * 8}     # joints per (linear, quadratic, cubic) zero/non-zero combination
    for (op, req), D in zip(allreq, blocks):
        if "ERR" in D:
            ctx.violation("impl_violation", {"request": "%s %s" % (op, " ".join(str(x) for x in req))}, expected="no mju_error on a compiled model", observed=D["ERR"],
                          theorem="C08", signature={"law": "no error", "class": "generic"})
            continue
        if op in combos and "jnt_stiffness" in D:
            npoly = D["npoly"][0]
            for j in range(D["njnt"][0]):
                pl = D["jnt_stiffnesspoly"][npoly * j:npoly * j + npoly]
                combos[op][(1 if D["jnt_stiffness"][j] != 0 else 0) + sum((2 << k) for k in range(min(npoly, 2)) if pl[k] != 0)] += 1
        if op in ("T", "G"):
            for (law, exp, obs) in oracle_kinetic(D):
                report(law, op, req, {}, exp, obs, "C08_kinetic")
            counts["kinetic"] += 1
            for t in D["jnt_type"]:
                jt[t] += 1
        if op == "T":
            for lit, what in t_cases(D):
                cases.append(lit)
                descr.append((req, what))
        elif op == "G":
            for (law, detail, exp, obs) in oracle_gradient(D):
                report(law, op, req, detail, exp, obs, "C08_spring_gradient")
            counts["gradient_dofs"] += D["nv"][0]
        elif op == "D":
            v, used = oracle_drift(D, req)
            counts["drift_models_used" if used else "drift_models_skipped"] += 1
            if v:
                report(v[0], op, req, v[1], v[2], v[3], "C08_rk4_scheme_order (scheme only; drift order is an oracle)")
        elif op == "P":
            if not D["floating"][0]:
                counts["momentum_not_floating"] += 1
                continue
            counts["momentum_models"] += 1
            for (law, exp, obs) in oracle_momentum(D):
                report(law, op, req, {}, exp, obs, "C08 (oracle only)")
    fails = ctx.coq_eval("c08", "From Coq Require Import ZArith PrimFloat Bool.\nFrom MJV Require Import Lib.Num Lib.NumF Lib.FloatFn Model.Spatial Model.Kinematics Model.Energy.\nOpen Scope nat_scope.",
                         cases, "chk", pre=coq_pre(), shard=10 if not big else 40)
    seenw = set()
    for i in fails:
        req, what = descr[i]
        if what in seenw:
            continue
        seenw.add(what)
        ctx.violation("correspondence", {"request": "T %s" % " ".join(str(x) for x in req), "part": what}, expected="model output (Model/Energy.v at binary64, tolerance 2^-30 scaled)",
                      observed="implementation output differs (rerun the request through harness/drivers/c08_energy.c)", found_input=False,
                      theorem="correspondence c08 " + what, signature={"part": what},
                      note="implementation and Coq model disagree on this generated model; see the oracle violations (if any) for a failing input")
    ctx.cov["evaluations"] = len(cases)
    ctx.cov["distinct_nontrivial"] = sum(1 for (req, what) in descr if req[2] >= 2)
    ctx.cov["rule"] = ("one Coq evaluation per (generated model, state, part) with part in {mj_energyPos, mj_energyVel, joint-level qfrc_spring (models without tendons)}; models from mjgen.h with all joint types, joint springs with "
                       "every zero / non-zero combination of linear, quadratic and cubic stiffness coefficients (purely nonlinear springs included), fixed tendons with springs and dead bands, multi-tree, gravity / spring disable flags, unnormalised ball quaternions; non-trivial = model with at least two moving bodies")
    ctx.cov["samples"] = [{"request": "T %s" % " ".join(str(x) for x in d[0]), "part": d[1]} for d in (descr[:1] + descr[len(descr) // 2:len(descr) // 2 + 1] + descr[-1:])]
    ctx.cov["correspondence_disagreements"] = len(fails)
    ctx.cov["support"]["oracle_counts"] = counts
    ctx.cov["support"]["joint_types_seen_free_ball_slide_hinge"] = jt
    ctx.cov["support"]["joint_spring_coefficient_combinations"] = {
        "index": "bit0 linear != 0, bit1 quadratic != 0, bit2 cubic != 0; entries 2, 4, 6 are purely nonlinear springs", "tie": combos["T"], "gradient_oracle": combos["G"], "drift_oracle": combos["D"]}
    for grp, name in (("T", "tie"), ("G", "gradient oracle"), ("D", "drift oracle")):
        if combos[grp][2] + combos[grp][4] + combos[grp][6] == 0:
            ctx.broken.append(("correspondence", "no purely nonlinear joint spring (linear stiffness 0, polynomial coefficients non-zero) was exercised by the " + name, str(combos[grp])))
    ctx.cov["explanation"] = ("theorems of Props/C08.v proved over R; model tied to the working tree on %d evaluations; oracles: %d kinetic-energy states, %d gradient dofs, %d drift models (%d skipped at round-off / coarse level), %d free-floating momentum models"
                              % (len(cases), counts["kinetic"], counts["gradient_dofs"], counts["drift_models_used"], counts["drift_models_skipped"], counts["momentum_models"]))
