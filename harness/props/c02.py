"""C02 — multithreaded stepping is bit-identical to single-threaded."""
import os, re, subprocess, sys
import framework as F
import build as B

META = {
    "id": "C02", "category": "proof", "design_ref": "DESIGN.md section 4, C02",
    "technique": "Coq proof (inductive invariant over the interleavings of a sequentially consistent machine that runs a batch of "
                 "tasks with disjoint footprints at the granularity of one shared access) + observed footprints of the three "
                 "mju_dispatch call sites checked against the model's footprint tables inside Coq + bitwise differential runs of "
                 "the implementation with real thread pools, permuted sequential dispatch and the C03 controlled-scheduler shim",
    "text": "PROVED in Coq (Props/C02.v, model Model/ParMap.v) for every number of tasks, every number of threads, every initial "
            "memory, every family of task programs (trees of single shared reads/writes) and EVERY interleaving of single "
            "accesses and every assignment of tasks to thread ids (any idle thread may claim any unclaimed task at any time: a "
            "superset of the claim loop proved exactly-once in C03): if one classification own : location -> "
            "{read-only | task i | scratch of thread t} exists such that task i run with thread id t reads only read-only, "
            "task-i and thread-t-scratch locations and writes only task-i and thread-t-scratch locations (footprints pairwise "
            "disjoint, no task reads what another writes), and the outputs of a task do not depend on the thread id or on the "
            "initial scratch content, then the memory after the complete batch equals the sequential loop task(0..n-1, thread 0) "
            "at every non-scratch location (C02_schedule_independent, C02_final_characterised, C02_each_task_once; "
            "C02_permuted_dispatch for task-granularity schedules).  Footprint tables of the call sites are Gallina functions "
            "(island_site / collision_site / tactile_site); for address arrays that are prefix sums of the counts (C17_maps) the "
            "island slices are proved owned by their island (C02_slices_owned, C02_island_site_slices) and C02_island_solve "
            "instantiates the theorem for the island-solve site at every location. "
            "TIED BY OBSERVATION, not proved: that the C task functions solveIslandTask / collisionTask / tactileTask satisfy the "
            "footprint hypotheses.  On every run the driver replaces mju_dispatch (the unmodified engine_thread.cc is compiled "
            "into the driver under another name), runs every task of a batch alone from a byte snapshot of mjData, maps the "
            "changed bytes to (array, element) and Coq evaluates the model's table on the implementation's island/chunk/taxel "
            "tables: every observed write must be may_write for its task and thread id, and island_idofadr/island_iefcadr must "
            "equal scan 0 of the counts, and the tactile batches must cover every taxel (tactile_cover_ok; C02_tactile_batches_cover "
            "proves it of ceil-division batching for every taxel and thread count, C02_tactile_floor_batching_refuted refutes the "
            "truncating variant).  The driver also tests, per task: same outputs with another thread id on poisoned "
            "scratch, sequential composition = union of the solo effects, reverse order, rerun on top of all other tasks' "
            "outputs, and rerun with every floating-point output location of the other tasks preset to NaN (a read of another "
            "task's output shows even when multiplied by an exact zero).  Reads are only tested through these dependence experiments. "
            "ORACLE on the implementation (the failing-input search): mj_forward, mj_inverse, mj_step x k, mj_forward on mjgen "
            "models (>= 3 islands, narrow-phase batches of > 16 pairs, tactile sensors with 1201 / 1301 / 1026 taxels whose last taxel (the pole, last mesh vertex) is pressed; PGS/CG/Newton, "
            "pyramidal/elliptic, dense/sparse, all integrators, noslip) with real pools of 1,2,5,8 workers, repeated, every "
            "mjData array/arena array/contact/scalar compared bit for bit with the pool-less run after each call; the same with a "
            "permuted sequential dispatcher (random task order and thread ids, thread lock set) and with engine_thread.cc running "
            "under the C03 scheduler shim with seeded schedules; d->threadlock must be set whenever a task runs under a pool. "
            "NOT covered: data-race freedom in the sense of the C++ memory model and weak memory orders (the machine is SC; in "
            "the thorough tier a ThreadSanitizer build of all engine/user sources + the driver runs up to 14 oracle cases (one per solver x jacobian x tactile x large-narrow-phase class) and every distinct "
            "race it reports is raised as a violation with the two top frames as signature -- a detector run, not a proof); "
            "IEEE arithmetic inside tasks (tasks are arbitrary functions of what they read); the with-PGS-unset island copies "
            "(ifrc_smooth, iacc_smooth, iacc, ifrc_constraint, iefc_force, iefc_aref, iefc_state are allocated but never written "
            "with the PGS solver and are cleared before comparison). KNOWN FINDING C02-F1: the internal knob mj_nesterov_momentum is "
            "thread-local but read inside the dispatched PGS island tasks; set to 0 by the caller, pool workers still use 1 and pooled "
            "results differ from the pool-less run (fixed two-case corpus in both tiers, reported as KNOWN-FINDING; every other "
            "pool-vs-no-pool difference alarms). KNOWN FINDING C02-F3: with the PGS solver and a dense Jacobian the island task "
            "reads the efc_force entries of all other islands (residual() dots the whole vector; the foreign entries meet exact "
            "zeros of efc_AR): the footprint hypothesis of the theorem is FALSE for that task as coded "
            "(C02_pgs_dense_footprint_refuted on a two-island abstract instance), ThreadSanitizer reports the race "
            "(C02-F3a, thorough) and the NaN-taint footprint experiment shows the read (C02-F3b, both tiers); bit-identity of "
            "that configuration rests on 0*finite = +-0 and is only observed by the bitwise oracle.",
    "note": "Trusted: Coq kernel; hand-written model Model/ParMap.v; the footprint observation of driver c02_par.cc (byte diff of "
            "mjData around each task: writes that store the value already present are invisible); g++/gcc. All theorems closed "
            "under the global context.  Cites C03 (exactly-once dispatch), C19_concurrent (stack blocks reserved under the "
            "thread lock are pairwise disjoint), C17_maps (address arrays are prefix sums).",
    "assumptions": ["sequential consistency at the granularity of one shared memory access",
                    "the C task functions satisfy respects/scratch_clean for the footprint tables (observed on the cases of this run, not proved)",
                    "stack scratch reserved under the thread lock is private to the reserving task (C19_concurrent) and is not read before it is written"],
}

BASE = 32768 | 1 | 8            # MJG_MULTITREE | MJG_FREE | MJG_CONTACT
EXTRA = [2, 4, 16, 32, 64, 256, 1024, 2048, 4096, 16384, 65536]
TACTILE = 1 << 30
SRCS = ["c02_par.cc", "c02_site_col.c", "c02_site_sens.c"]
FIELDS = ["mode", "seed", "feat", "nbody", "solver", "cone", "jac", "integ", "noslip", "nsteps", "spread", "nest", "poolmask", "schedseed", "reps"]
POOLS = (1 << 1) | (1 << 2) | (1 << 5) | (1 << 8)


def mk(rng, mode, **kw):
    feat = BASE
    for b in EXTRA:
        if rng.random() < 0.3:
            feat |= b
    c = {"mode": mode, "seed": rng.randrange(1, 10 ** 6), "feat": feat, "nbody": rng.choice((10, 16, 24, 40)),
         "solver": rng.randrange(3), "cone": rng.randrange(2), "jac": rng.randrange(2), "integ": rng.choice((0, 0, 1, 2, 3)),
         "noslip": rng.choice((0, 0, 0, 3)), "nsteps": 2, "spread": rng.choice((1, 1, 3, 3, 2, 0)), "nest": 1,
         "poolmask": POOLS, "schedseed": rng.randrange(1, 10 ** 6), "reps": 1}
    c.update(kw)
    return c


def line(c):
    return " ".join(str(c[k]) for k in FIELDS) + "\n"


def gen_cases(ctx):
    rng = ctx.rng
    q = ctx.tier == "quick"
    cases = []
    # (O) real pools
    for i in range(20 if q else 60):
        kw = {}
        if i % 4 == 0:
            kw = {"feat": BASE | TACTILE | (rng.choice(EXTRA)), "nbody": rng.choice((8, 12))}
        if i % 5 == 1:
            kw["nbody"] = rng.choice((50, 70)); kw["spread"] = rng.choice((2, 3))
        c = mk(rng, "O", **kw)
        c["reps"] = 2
        if not q:
            c["poolmask"] = sum(1 << k for k in range(1, 9))
            c["nsteps"] = 3
        cases.append(c)
    # KNOWN finding C02-F1 (fixed corpus, both tiers): PGS with the thread-local knob mj_nesterov_momentum = 0 set on the
    # calling thread; pool workers keep their own copy = 1 (see handle())
    for (seed, cone, jac) in ((3, 0, 0), (5, 1, 1)):
        cases.append({"mode": "O", "seed": seed, "feat": BASE, "nbody": 24, "solver": 0, "cone": cone, "jac": jac, "integ": 0, "noslip": 0,
                      "nsteps": 2, "spread": 1, "nest": 0, "poolmask": (1 << 1) | (1 << 2) | (1 << 5) | (1 << 8), "schedseed": 1, "reps": 1})
    # KNOWN finding C02-F3b (fixed corpus, both tiers): PGS + dense Jacobian island tasks read the efc_force entries of the
    # other islands (multiplied by exact zeros); shown by the NaN-taint experiment of the footprint mode
    cases.append({"mode": "F", "seed": 3, "feat": BASE, "nbody": 24, "solver": 0, "cone": 0, "jac": 0, "integ": 0, "noslip": 0,
                  "nsteps": 1, "spread": 1, "nest": 1, "poolmask": 1 << 2, "schedseed": 5, "reps": 1})
    # (P) permuted sequential dispatch: several schedules per model
    for i in range(8 if q else 40):
        base = mk(rng, "P", poolmask=rng.choice((1 << 2, 1 << 5, 1 << 8)))
        if i % 3 == 0:
            base["feat"] = BASE | TACTILE; base["nbody"] = 10
        if i % 3 == 1:
            base["nbody"] = 50; base["spread"] = 3
        for s in range(3 if q else 10):
            c = dict(base); c["schedseed"] = rng.randrange(1, 10 ** 6)
            cases.append(c)
    # (F) footprints
    for i in range(8 if q else 80):
        kw = {"poolmask": rng.choice((1 << 2, 1 << 5)), "nsteps": 1}
        if i % 2 == 0:
            kw.update(feat=BASE | TACTILE | rng.choice(EXTRA), nbody=rng.choice((8, 14)), spread=3)
        else:
            kw.update(nbody=rng.choice((30, 50)), spread=rng.choice((2, 3)))
        kw["solver"] = i % 3
        cases.append(mk(rng, "F", **kw))
    return cases


def gen_shim_cases(ctx):
    rng = ctx.rng
    out = []
    for i in range(6 if ctx.tier == "quick" else 20):
        base = mk(rng, "O", poolmask=1 << rng.choice((1, 2, 3, 5)), nbody=rng.choice((10, 20, 40)))
        if i % 3 == 0:
            base["feat"] = BASE | TACTILE; base["nbody"] = 10
        for s in range(2 if ctx.tier == "quick" else 10):
            c = dict(base); c["schedseed"] = rng.randrange(1, 10 ** 6)
            out.append(c)
    return out


def run_batch(ctx, exe, cases, timeout=900):
    """returns list of (status, lines) per case; restarts the driver after a crashed case."""
    res = []
    i = 0
    while i < len(cases):
        rc, out, err = ctx.run(exe, "".join(line(c) for c in cases[i:]), timeout=timeout)
        blocks = re.split(r"^CASE \d+\n", out, flags=re.M)[1:]
        got = 0
        for b in blocks:
            ls = b.strip().split("\n")
            end = [l for l in ls if l.startswith("END ")]
            if end:
                res.append((end[-1][4:].strip(), ls))
                got += 1
            else:
                res.append(("CRASH rc=%s %s" % (rc, err.strip()[-300:]), ls))
                got += 1
                break
        if got == 0:
            res.append(("CRASH rc=%s %s" % (rc, err.strip()[-300:]), []))
            got = 1
        i += got
    return res[:len(cases)]


def parse_fp(ls):
    """F-mode output -> list of dispatch records {site, ntask, nthread, L{}, W[], X[], N{}}"""
    recs = []
    cur = None
    for l in ls:
        t = l.split()
        if not t:
            continue
        if t[0] == "DISP":
            cur = {"site": t[1], "ntask": int(t[2]), "nthread": int(t[3]), "L": {}, "W": [], "X": [], "N": {}}
            recs.append(cur)
        elif cur is None:
            continue
        elif t[0] == "L":
            cur["L"][t[1]] = [int(x) for x in t[3:3 + int(t[2])]]
        elif t[0] == "W":
            cur["W"].append(tuple(int(x) for x in t[1:6]))
        elif t[0] == "X":
            cur["X"].append(l[2:])
        elif t[0] == "N":
            cur["N"][int(t[1])] = t[2]
    return recs


def coq_case(rec):
    zl = F.zlist
    ws = "[" + "; ".join("(%d, %d, %d, %d, %d)" % w for w in rec["W"]) + "]%Z"
    L = rec["L"]
    if rec["site"] == "island":
        ls = [L.get(k, []) for k in ("island_nv", "island_nefc", "island_idofadr", "island_iefcadr", "efc_island", "dof_island", "con_island")]
        return "(0%%Z, %s, [%s], %s)" % (zl(L.get("consts", [0, 0])), "; ".join(zl(x) for x in ls), ws)
    if rec["site"] == "collision":
        return "(1%%Z, %s, [%s], %s)" % (zl(L.get("consts", [0, 0, 0, 0])), zl(L.get("conpos", [])), ws)
    if rec["site"] == "tactile":
        return "(2%%Z, %s, [], %s)" % (zl(L.get("consts", [0, 0])), ws)
    return "(9%%Z, %s, [], %s)" % (zl([]), ws)


def tsan_support(ctx, cases):
    """ThreadSanitizer build of the engine + user sources + driver: returns (info dict, list of distinct races).
    A race is identified by the function names of the top frames of its two accesses."""
    info = {}
    try:
        with F.Lock("lib"):
            lib, _ = B.build_lib(ctx.repo, extra=("-fsanitize=thread",))
        with F.Lock("drv_c02_tsan"):
            exe = B.build_driver("c02_par_tsan", SRCS, ctx.repo, lib, extra=("-fsanitize=thread",), link_extra=("-fsanitize=thread",))
    except RuntimeError as e:
        info["status"] = "tsan build failed: " + str(e)[-300:]
        return info, []
    env = dict(os.environ)
    env["TSAN_OPTIONS"] = "halt_on_error=0 report_signal_unsafe=0 exitcode=0 history_size=7"
    races = {}
    done = 0
    for c in cases:
        rc, out, err = ctx.run(exe, line(c), timeout=600, env=env)
        done += out.count("END ")
        for blk in err.split("WARNING: ThreadSanitizer: ")[1:]:
            kind = blk.split("\n", 1)[0].split("(")[0].strip()
            tops = re.findall(r"^  (?:Read|Write|Previous read|Previous write|Atomic read|Atomic write|Previous atomic read|Previous atomic write)[^\n]*\n\s+#0 (\S+)", blk, flags=re.M)
            key = kind + ":" + "|".join(sorted(tops[:2]))
            if key not in races:
                races[key] = {"kind": kind, "race": "|".join(sorted(tops[:2])), "case": c, "report": blk[:1800]}
    info["status"] = "ran"
    info["cases"] = len(cases)
    info["cases_completed"] = done
    info["distinct_races"] = sorted(races)
    return info, list(races.values())


def run(ctx):
    ctx.coq_props(allowed_axioms=(), extra_targets=["Model/ParMap.vo"])
    exe = ctx.driver("c02_par", SRCS)
    if exe is None:
        return
    shim = ctx.driver("c02_par_shim", SRCS, extra=("-DC02_SHIM",))
    tsan_replay = None
    if getattr(ctx, "replay", None) and ctx.replay.get("case"):
        c = ctx.replay["case"]
        cases = [c] if not c.get("shim") and not c.get("tsan") else []
        scases = [c] if c.get("shim") else []
        tsan_replay = c if c.get("tsan") else None
    else:
        cases = gen_cases(ctx)
        scases = gen_shim_cases(ctx)
    res = run_batch(ctx, exe, cases)
    sres = run_batch(ctx, shim, scases) if shim else []
    nviol = 0
    stats = {"O": 0, "P": 0, "F": 0, "S": 0}
    nontriv = 0
    sites = {"island": 0, "collision": 0, "tactile": 0, "other": 0}
    multi_total = 0
    max_islands = 0
    fp_recs = []      # (case index, record)
    knob = {"cases": 0, "differing": 0}
    ncmp = 0

    def handle(c, status, ls, shim_run=False):
        nonlocal nviol, nontriv, multi_total, max_islands, ncmp
        tag = "S" if shim_run else c["mode"]
        stats[tag] += 1
        cc = dict(c)
        if shim_run:
            cc["shim"] = True
        site_sig = {"O": "real-pool", "P": "permuted-dispatch", "F": "footprint", "S": "scheduler-shim"}[tag]
        if status == "NOCOMPILE":
            return
        if status.startswith("CRASH") or status in ("DEADLOCK", "LIVELOCK"):
            # does the same case run without any pool?
            c0 = dict(c); c0["poolmask"] = 0; c0["mode"] = "O"; c0["reps"] = 1
            r0 = run_batch(ctx, exe, [c0], timeout=300)
            if r0 and r0[0][0] in ("OK", "NOCOMPILE"):
                nviol += 1
                ctx.violation("impl_violation", cc, expected="the calls complete with a thread pool attached as they do without one",
                              observed=status, theorem="C02_schedule_independent", signature={"site": site_sig, "what": "crash-or-hang"},
                              note="the same case completes with no pool; last lines: " + " | ".join(ls[-4:]))
            elif (r0 and "MUJOCO ERROR" in status and "MUJOCO ERROR" in r0[0][0]
                  and "mj_stackAlloc: out of memory" in status and "mj_stackAlloc: out of memory" in r0[0][0]):
                # the generated model does not fit its arena (e.g. PGS needs nefc^2 numbers): the engine reports the same
                # error through mju_error with and without a pool, which is the same observable behaviour - not judged
                stats["arena_exhausted_same_without_pool"] = stats.get("arena_exhausted_same_without_pool", 0) + 1
            else:
                ctx.broken.append(("harness", "driver c02_par failed on a case even without a pool", "%s %s" % (cc, status)))
            return
        st = [l for l in ls if l.startswith("STAT ")]
        dp = [l for l in ls if l.startswith("DISPATCH ")]
        if st:
            t = st[0].split()
            nis = int(t[8]); max_islands = max(max_islands, nis)
        if dp:
            t = dp[0].split()
            d = dict(zip(t[1::2], t[2::2]))
            for k in sites:
                sites[k] += int(d.get(k, 0))
            multi_total += int(d["multi"])
            if int(d["multi"]) > 0 and int(d["maxtask"]) >= 3:
                nontriv += 1
            if int(d["nolock"]) > 0:
                nviol += 1
                ctx.violation("impl_violation", cc, expected="d->threadlock set while tasks run under a pool (stack reservations are only atomic under the lock)",
                              observed="%s task invocations under a pool with d->threadlock == 0" % d["nolock"],
                              theorem="C19_concurrent precondition / C02 scratch privacy", signature={"site": site_sig, "what": "no-threadlock"})
            ncmp += c["reps"] * (3 + c["nsteps"]) * bin(c["poolmask"]).count("1")
        diffs = [l for l in ls if l.startswith("DIFF ")]
        if c["nest"] == 0:
            # KNOWN finding C02-F1: the knob is thread-local but read inside dispatched PGS island tasks
            knob["cases"] += 1
            if diffs:
                knob["differing"] += 1
                knob.setdefault("first", {"case": cc, "observed": diffs[:2]})
                ctx.violation("impl_violation", cc, expected="every mjData field bit-identical to the run without a pool after each call",
                              observed=diffs[:4], theorem="C02_schedule_independent (scratch_clean: outputs independent of the executing thread)",
                              signature={"site": site_sig, "class": "thread-local-nesterov-knob"})
            return
        if diffs:
            nviol += 1
            ctx.violation("impl_violation", cc, expected="every mjData field bit-identical to the run without a pool after each call",
                          observed=diffs[:4], theorem="C02_schedule_independent",
                          signature={"site": site_sig, "what": "result-differs"})
        if tag == "F":
            for rec in parse_fp(ls):
                fp_recs.append((cc, rec))
                for x in rec["X"][:2]:
                    nviol += 1
                    ctx.violation("impl_violation", cc, expected="tasks of one mju_dispatch batch write pairwise disjoint locations, read nothing another task writes and do not depend on thread id or scratch content",
                                  observed="site %s ntask %d: %s" % (rec["site"], rec["ntask"], x), theorem="C02_schedule_independent (hypotheses)",
                                  signature=dict({"site": rec["site"], "what": x.split()[0]},
                                                 **({"config": "PGS-dense" if (c["solver"] == 0 and c["jac"] == 0) else "solver%d-jac%d" % (c["solver"], c["jac"])}
                                                    if x.split()[0] == "reads-other-task-output" else {})))

    for c, (status, ls) in zip(cases, res):
        handle(c, status, ls)
    for c, (status, ls) in zip(scases, sres):
        handle(c, status, ls, shim_run=True)
    if len(res) < len(cases) or len(sres) < len(scases):
        ctx.broken.append(("correspondence", "driver produced fewer results than cases", "%d/%d %d/%d" % (len(res), len(cases), len(sres), len(scases))))

    # footprint correspondence inside Coq
    coq_cases = [coq_case(r) for _, r in fp_recs]
    fails = ctx.coq_eval("c02", "From Coq Require Import ZArith.\nFrom MJV Require Import Model.ParMap.\nOpen Scope Z_scope.",
                         coq_cases, "site_case_ok", shard=40) if coq_cases else []
    for j in fails[:5]:
        cc, rec = fp_recs[j]
        names = rec["N"]
        ctx.violation("correspondence", cc, expected="every observed write of a task lies in its footprint of the model's table (Model/ParMap.v %s_site)" % rec["site"],
                      observed={"site": rec["site"], "ntask": rec["ntask"], "tables": {k: v[:40] for k, v in rec["L"].items()},
                                "writes(task,tid,array,lo,hi)": rec["W"][:60], "array_names": names},
                      found_input=False, theorem="footprint correspondence c02_par (site_case_ok)",
                      note="model table and implementation writes disagree, but the bitwise oracle and the dependence experiments are satisfied on this input")
    nfp = {"island": 0, "collision": 0, "tactile": 0, "other": 0}
    nw = 0
    for _, r in fp_recs:
        nfp[r["site"]] += 1
        nw += len(r["W"])
    ctx.cov["evaluations"] = len(cases) + len(scases)
    ctx.cov["distinct_nontrivial"] = nontriv
    ctx.cov["rule"] = ("mjgen models with MULTITREE|FREE|CONTACT plus random features (and tactile units with 1201/1301/1026 taxels, last taxel pressed), random state, free "
                       "roots spread on a grid and/or midphase disabled (narrow-phase batches > 16 pairs); solver x cone x jacobian x "
                       "integrator x noslip drawn per case; O = real pools {1,2,5,8} (thorough 1..8) x 2 repetitions, P = permuted sequential "
                       "dispatch x schedules, F = footprint observation, S = engine_thread.cc under the scheduler shim x schedules; "
                       "non-trivial = case in which at least one dispatch of >= 3 tasks had tasks executed under >= 2 distinct thread ids")
    ctx.cov["samples"] = [cases[0], cases[len(cases) // 2], cases[-1]] if cases else []
    ctx.cov["cases_by_mode"] = stats
    ctx.cov["bitwise_comparisons"] = ncmp
    ctx.cov["dispatches_by_site"] = sites
    ctx.cov["dispatches_with_several_thread_ids"] = multi_total
    ctx.cov["max_islands"] = max_islands
    ctx.cov["footprint_records"] = nfp
    ctx.cov["footprint_write_ranges_checked_in_coq"] = nw
    ctx.cov["correspondence_disagreements"] = len(fails)
    ctx.cov["support"]["oracle_violations"] = nviol
    ctx.cov["support"]["known_finding_C02_F1_thread_local_nesterov_knob"] = knob
    if (ctx.tier == "thorough" and not getattr(ctx, "replay", None)) or tsan_replay:
        if tsan_replay:
            tsc = [tsan_replay]
        else:
            # fixed first case: KNOWN finding C02-F3a (PGS + dense Jacobian)
            fixed = {"mode": "O", "seed": 18733, "feat": 100459, "nbody": 40, "solver": 0, "cone": 0, "jac": 0, "integ": 2, "noslip": 3,
                     "nsteps": 1, "spread": 2, "nest": 1, "poolmask": 36, "schedseed": 872673, "reps": 1}
            # corpus: one oracle case per (solver, jacobian, tactile, large narrow phase) class, at most 14
            seen, tsc = {(0, 0, False, False)}, [fixed]
            for c in cases:
                key = (c["solver"], c["jac"], bool(c["feat"] & TACTILE), c["nbody"] >= 50)
                if c["mode"] == "O" and c["nest"] == 1 and key not in seen and len(tsc) < 14:
                    seen.add(key); tsc.append(c)
        info, races = tsan_support(ctx, [dict(c, poolmask=(1 << 2) | (1 << 5), reps=1, nsteps=1) for c in tsc])
        ctx.cov["support"]["threadsanitizer"] = info
        for r in races:
            ctx.violation("impl_violation", dict(r["case"], tsan=True), expected="ThreadSanitizer finds no unsynchronized access during mj_forward / mj_inverse / mj_step with a pool",
                          observed="ThreadSanitizer: %s\n%s" % (r["kind"], r["report"]), theorem="C02 (second sentence of the property; outside the Coq model)",
                          signature={"site": "threadsanitizer", "race": r["race"]},
                          note="rerun: build engine + harness/drivers/c02_par.cc with -fsanitize=thread and feed the case line")
    else:
        ctx.cov["support"]["threadsanitizer"] = "thorough tier only"
    ctx.cov["explanation"] = ("Schedule independence is proved for the model for every interleaving; the footprint hypotheses are tied to "
                              "solveIslandTask/collisionTask/tactileTask by %d observed dispatch batches (%d write ranges checked in Coq) and "
                              "dependence experiments; %d bitwise mjData comparisons against the pool-less run" % (len(fp_recs), nw, ncmp))
