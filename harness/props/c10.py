"""C10 — constraint solvers return the optimum of the documented problem."""
import json, math, os, subprocess, time
from concurrent.futures import ThreadPoolExecutor
import framework as F
import c12_common as CU

META = {
    "id": "C10", "category": "proof", "design_ref": "DESIGN.md section 4, C10",
    "technique": "Coq/Coquelicot proof over R (first-order optimality of the documented objective for all sizes, duality-gap certificate, "
                 "instance for the scalar rows of the C12 cost law, accept-or-keep monotonicity, PGS projection kernels) + float correspondence of "
                 "the projection kernels with the static functions of engine_solver.c and of the cost law with mj_constraintUpdate_impl (C12 tie) + "
                 "independent certified reference optimiser compared with Newton / CG / PGS, islands on/off, dense/sparse",
    "text": "Proved in Coq over the reals, for every number of dofs and constraint rows and every symmetric positive-definite M, J, qacc_smooth, aref: "
            "an acceleration that satisfies the stationarity equation M(a - a0) = J' f(J a - aref) is the unique global minimiser of 1/2 (a-a0)'M(a-a0) + s(J a - aref) "
            "for every convex cost s whose directional derivatives are given by minus the force f (C10_stationary_optimal); these hypotheses are proved to hold for every "
            "composition of the scalar rows of the C12 model of mj_constraintUpdate_impl (equality, limit/frictionless/pyramidal, friction loss; C10_scalar_rows_optimal), and for the cost and "
            "force functions computed by the model's row loop constraint_update itself on every row list without elliptic blocks (C10_constraint_update_optimal) - NOT for "
            "elliptic blocks, whose convexity is unproved (C12 is partial there); the exit certificate of mj_solPrimal (cost - cost* <= 1/2 grad'M^-1 grad, C10_gap_certificate); a fully "
            "concrete 1-D instance (C10_example_1d); any accept-or-keep iteration ends at cost <= start + fuel*eps (C10_monotone, C10_monotone_sweep for the PGS costChange rule) "
            "and a convex line-search function satisfies phi(alpha) <= alpha*phi'(alpha) (C10_linesearch_bound: why the PrimalSearch exits that do not compare costs stay within alpha*gtol); "
            "the PGS projection kernel projectCone/projectEllipsoid (faithful model) returns a point of the friction cone, is idempotent, is the identity inside the cone and scales the "
            "tangential force radially (C10_project_cone), and the scalar/box clamps are projections (C10_project_cone_scalar, C10_project_box, C10_project_unilateral). "
            "Tied by correspondence on every run: the projection kernels (static functions reached by including engine_solver.c; float run of the same Coq definitions, 2^-45) and the cost law "
            "(C12 model vs mj_constraintUpdate_impl on the residuals the solvers ended at, and final efc_force of Newton/CG = that law). "
            "NOT proved, only observed by the oracle on small random models (equality, friction loss, limits, pyramidal and elliptic contacts of condim 1/3/4/6): that the solvers converge, "
            "PrimalSearch, MakeHessian/HessianIncremental, the QCQP updates, island decomposition. The oracle rebuilds the objective from dense M, J, D, R, aref, runs its own minimiser "
            "whose distance to the optimum is certified by |grad|_{M^-1}, and requires of every solver run that reports convergence: qacc within 1e-5 and efc_force within 1e-4 (relative; 1e-4 / 1e-3 for PGS, whose stopping test bounds its accuracy only loosely) of "
            "the reference, island = monolithic, final cost <= cost of the start point, reported improvements non-negative and summing to the cost decrease. "
            "Findings (known): C10-F1 PGS with elliptic cones stops at a non-optimal point when a contact sits at the cone apex with a tangential residual outside the polar cone; "
            "C10-F2 mju_QCQP2/3 zero the friction of a valid positive-definite block whose scaled determinant is below the absolute threshold 1e-10 (heavy bodies), so PGS reports "
            "convergence without friction. Both are detected by independent criteria and reported under their own classes; any other disagreement alarms.",
    "note": "Trusted: Coq kernel + std-lib real-number axioms (classical reals, functional extensionality, classic); hand-written models Model/Solver.v, Model/ConstraintUpdate.v; "
            "correspondence harness (gcc, driver c10_solvers.c, Coq PrimFloat evaluation); oracle harness/drivers/c10_oracle.py (numpy). IEEE rounding is outside every theorem.",
    "assumptions": ["theorems are over the real numbers; float runs of the projection kernels are compared with tolerance 2^-45",
                    "convergence of the solvers is not a theorem; the solver-agreement clauses of the property are checked by an oracle on the cases of this run",
                    "elliptic-cone rows are covered by the oracle and by C12's gradient theorem only (convexity of the elliptic cost is not proved)"],
}

SOLVER = {0: "PGS", 1: "CG", 2: "Newton"}
SITE = {0: "solPGS", 1: "mj_solPrimal(CG)", 2: "mj_solPrimal(Newton)"}
REL_QACC, REL_FORCE = 1e-5, 1e-4            # Newton, CG
REL_QACC_PGS, REL_FORCE_PGS = 1e-4, 1e-3    # PGS stops on a small cost improvement per sweep, which bounds its accuracy only loosely
ORACLE = os.path.join(F.VERIF, "harness", "drivers", "c10_oracle.py")


def hx(x):
    return float(x).hex()


# ------------------------------------------------------------------------------------------ projection kernels
def proj_cases(rng, quick):
    """(tag, dict) cases for the `proj` mode of the driver."""
    cases = []
    def mu5():
        return [rng.choice([1.0, 0.5, 0.25, 2.0]) if rng.random() < 0.3 else rng.uniform(0.05, 1.5) for _ in range(5)]
    def val(s):
        r = rng.random()
        if r < 0.08:
            return 0.0
        if r < 0.16:
            return rng.choice([1.0, -1.0, 0.5, -0.5, 2.0, 0.25])
        return rng.gauss(0, 1) * s
    n = 300 if quick else 5000
    for _ in range(n):
        dim = rng.choice([2, 3, 3, 4, 5, 6, 6])
        mu = mu5()
        s = 10 ** rng.uniform(-9, 3)
        kind = rng.random()
        f0 = abs(val(s)) if kind < 0.75 else val(s)
        ft = [val(s) for _ in range(dim - 1)]
        if kind < 0.25 and f0 > 0:          # exactly or nearly on the boundary / inside the cone
            nrm = math.sqrt(sum((t / m) ** 2 for t, m in zip(ft, mu)))
            if nrm > 0:
                k = f0 / nrm * rng.choice([1.0, 1.0, 0.5, 0.999999999, 1.000000001])
                ft = [t * k for t in ft]
        cases.append(("C", {"type": 7, "dim": dim, "f": [f0] + ft, "mu": mu}))
    for _ in range(n // 5):
        cases.append(("C", {"type": rng.choice([3, 4, 5, 6]), "dim": 1, "f": [val(10 ** rng.uniform(-6, 3))], "mu": mu5()}))
    for _ in range(n // 3):
        dim = rng.choice([3, 4, 6])
        s = 10 ** rng.uniform(-12, 3)
        cases.append(("E", {"feasible": rng.randrange(2), "dim": dim, "normal": val(s), "t": [val(s * 10 ** rng.uniform(-8, 1)) for _ in range(dim - 1)], "mu": mu5()}))
    for _ in range(n // 5):
        fl = abs(val(3.0))
        cases.append(("K", {"x": val(5.0), "lo": -fl, "hi": fl}))
    # fixed corner cases
    one = [1.0] * 5
    for f in ([1.0, 3.0, 4.0], [5.0, 3.0, 4.0], [0.0, 3.0, 4.0], [-1.0, 3.0, 4.0], [0.0, 0.0, 0.0], [1.0, 0.0, 0.0], [1e-9, 1e-20, 0.0], [2.0, 1e-8, 1e-8]):
        cases.append(("C", {"type": 7, "dim": 3, "f": f, "mu": one}))
    cases.append(("E", {"feasible": 0, "dim": 3, "normal": 1.0, "t": [0.0, 0.0], "mu": one}))
    cases.append(("E", {"feasible": 0, "dim": 3, "normal": 2.0, "t": [1e-9, 0.0], "mu": one}))
    return cases


def proj_line(tag, c):
    if tag == "C":
        return "C %d %d %s %s" % (c["type"], c["dim"], " ".join(hx(x) for x in c["f"]), " ".join(hx(x) for x in c["mu"]))
    if tag == "E":
        return "E %d %d %s %s %s" % (c["feasible"], c["dim"], hx(c["normal"]), " ".join(hx(x) for x in c["t"]), " ".join(hx(x) for x in c["mu"]))
    return "K %s %s %s" % (hx(c["x"]), hx(c["lo"]), hx(c["hi"]))


def in_cone(f, mu, slack):
    tn = math.sqrt(sum((t / m) ** 2 for t, m in zip(f[1:], mu)))
    return f[0] >= 0 and tn <= f[0] * (1 + slack) + 1e-300


PROJ_PRE = """
Definition tol := 0x1p-45%float.
Definition chk (c : Z * bool * list float * list float * float * list float) : bool :=
  match c with (op, flag, v, mu, x, out) =>
    if (op =? 0)%Z then fclose_list tol out (project_cone (T:=float) v mu flag)
    else if (op =? 1)%Z then fclose_list tol out (project_ellipsoid (T:=float) v x mu flag)
    else match v with lo :: hi :: nil => fclose_list tol out (mju_clip (T:=float) x lo hi :: nil) | _ => false end
  end.
"""
PROJ_IMPORTS = ("From Coq Require Import ZArith List Bool PrimFloat.\nFrom MJV Require Import Lib.Num Lib.NumF Model.Solver.\nOpen Scope float_scope.")


def check_projection(ctx, exe, stats):
    quick = ctx.tier == "quick"
    cases = proj_cases(ctx.rng, quick)
    rc, out, err = ctx.run(exe, "\n".join(proj_line(t, c) for t, c in cases) + "\n", args=["proj"])
    lines = [l for l in out.split("\n") if l.strip() != "" or True][:len(cases)]
    if rc != 0 or len(out.split("\n")) < len(cases):
        ctx.broken.append(("correspondence", "driver c10_solvers proj failed", "rc=%s %s" % (rc, err[-400:])))
        return 0, 0
    outs = [[float.fromhex(x) for x in l.split()] for l in lines]
    # second pass: project the outputs again (idempotence on the implementation)
    again_cases = [(t, dict(c, f=o) if t == "C" else (dict(c, t=o) if t == "E" else dict(c, x=o[0]))) for (t, c), o in zip(cases, outs)]
    rc2, out2, err2 = ctx.run(exe, "\n".join(proj_line(t, c) for t, c in again_cases) + "\n", args=["proj"])
    if rc2 != 0:
        ctx.broken.append(("correspondence", "driver c10_solvers proj failed (second pass)", "rc=%s %s" % (rc2, err2[-400:])))
        return 0, 0
    outs2 = [[float.fromhex(x) for x in l.split()] for l in out2.split("\n")[:len(cases)]]
    lits = []
    for (t, c), o, o2 in zip(cases, outs, outs2):
        sig = {"site": "projectCone" if t == "C" else "projectEllipsoid" if t == "E" else "mju_clip"}
        def viol(what, expected, observed):
            ctx.violation("impl_violation", {"op": t, "input": {k: ([hx(x) for x in v] if isinstance(v, list) else v) for k, v in c.items()}},
                          expected=expected, observed=observed, theorem="C10_project_cone", signature=dict(sig, oracle=what))
            stats.add(what + " FAILED")
        if t == "C":
            f, mu = c["f"], c["mu"]
            if len(o) != len(f) or not all(math.isfinite(x) for x in o):
                viol("finite", "dim finite numbers", o); continue
            if c["type"] == 7:
                if not in_cone(o, mu, 1e-12):
                    viol("in-cone", "f0 >= 0 and |(f_j/mu_j)| <= f0", [hx(x) for x in o])
                else:
                    stats.add("projectCone: result in cone (dim %d)" % c["dim"])
                if in_cone(f, mu, 0.0) and f[0] * f[0] >= sum((x / m) ** 2 for x, m in zip(f[1:], mu)) * (1 + 1e-12):
                    if o != f:
                        viol("identity-inside", [hx(x) for x in f], [hx(x) for x in o])
                    else:
                        stats.add("projectCone: identity inside the cone")
                if f[0] >= 0 and o[0] != f[0]:
                    viol("normal-kept", hx(f[0]), hx(o[0]))
                # in binary64 the projected point can land one ulp outside the ellipsoid and be rescaled again; below the mjMINVAL guard
                # (normal^2 < 1e-15) that second rescaling is not by ~1, so idempotence is only meaningful above it (still a cone point)
                if o[0] * o[0] < 1e-14:
                    if not in_cone(o2, mu, 1e-12):
                        viol("in-cone", "second projection in the cone", [hx(x) for x in o2])
                    else:
                        stats.add("projectCone: tiny normal force, second projection in cone (idempotence not applicable in floats)")
                elif not all(abs(a - b) <= 1e-12 * (abs(a) + abs(b)) for a, b in zip(o, o2)):
                    viol("idempotent", [hx(x) for x in o], [hx(x) for x in o2])
                else:
                    stats.add("projectCone: idempotent")
            else:
                exp = [max(0.0, f[0])]
                if o != exp or o2 != o:
                    viol("scalar-clamp", [hx(x) for x in exp], [hx(x) for x in o])
                else:
                    stats.add("projectCone: scalar clamp")
            lits.append("(0%%Z, %s, %s, %s, 0, %s)" % ("true" if c["type"] == 7 else "false", F.flist(f), F.flist(mu), F.flist(o)))
        elif t == "E":
            if c["feasible"] == 1 and c["normal"] >= 0 and not in_cone([c["normal"]] + o, c["mu"], 1e-12):
                viol("in-cone", "|(t_j/mu_j)| <= normal", [hx(x) for x in o])
            else:
                stats.add("projectEllipsoid")
            lits.append("(1%%Z, %s, %s, %s, %s, %s)" % ("true" if c["feasible"] else "false", F.flist(c["t"]), F.flist(c["mu"]), F.fhex(c["normal"]), F.flist(o)))
        else:
            exp = min(max(c["x"], c["lo"]), c["hi"])
            if o != [exp] or o2 != o:
                viol("clip", hx(exp), [hx(x) for x in o])
            else:
                stats.add("mju_clip")
            lits.append("(2%%Z, false, %s, (@nil float), %s, %s)" % (F.flist([c["lo"], c["hi"]]), F.fhex(c["x"]), F.flist(o)))
    fails = ctx.coq_eval("c10proj", PROJ_IMPORTS, lits, "chk", pre=PROJ_PRE, shard=400)
    for i in fails[:3]:
        t, c = cases[i]
        ctx.violation("correspondence", {"op": t, "input": {k: ([hx(x) for x in v] if isinstance(v, list) else v) for k, v in c.items()}},
                      expected="output of Model/Solver.v (float run)", observed=[hx(x) for x in outs[i]], found_input=False,
                      theorem="correspondence projectCone / projectEllipsoid / mju_clip", signature={"site": "projectCone"})
    return len(cases), len(fails)


# ------------------------------------------------------------------------------------------ solver runs
def run_chunks(ctx, exe, ranges):
    """driver + numpy oracle for every seed range; returns the list of analysed problems (dicts) or None."""
    def work(rg):
        try:
            r = subprocess.run([exe, "solve", str(rg[0]), str(rg[1])], capture_output=True, text=True, timeout=1500)
            if r.returncode != 0:
                return ("driver rc=%s %s" % (r.returncode, r.stderr[-300:]), [], [])
            xs = [l for l in r.stdout.split("\n") if l.startswith("X ")]
            o = subprocess.run(["/venv/bin/python", ORACLE], input=r.stdout, capture_output=True, text=True, timeout=1500)
            if o.returncode != 0:
                return ("oracle rc=%s %s" % (o.returncode, o.stderr[-600:]), [], xs)
            return (None, [json.loads(l) for l in o.stdout.split("\n") if l.strip()], xs)
        except subprocess.TimeoutExpired:
            return ("timeout", [], [])
    with ThreadPoolExecutor(max_workers=4) as ex:
        rs = list(ex.map(work, ranges))
    probs, xs = [], []
    for err, ps, x in rs:
        if err:
            ctx.broken.append(("oracle", "c10_solvers solve / c10_oracle.py failed", err))
            return None, xs
        probs += ps; xs += x
    return probs, xs


SCENES = [
    # (driver args, description, class expected for a PGS disagreement)
    (["0.0999", "1", "0.2"], "free sphere r=0.1 (density 1000) centre z=0.0999 over a plane, condim 3, elliptic cone, qvel=(1,0,0.2,0,0,0), warmstart disabled, tolerance 1e-14",
     "elliptic-apex-stall"),
    (["0.099", "1", "-0.1", "2400000", "4"], "free sphere r=0.1, density 2.4e6 (mass 10053), centre z=0.099 over a plane, condim 4, elliptic cone, qvel=(1,0,-0.1,0,0,0), warmstart disabled, "
     "tolerance 1e-14", "elliptic-qcqp-det-threshold"),
    (["0.099", "1", "-0.1", "1000", "4"], "the same scene with density 1000 (all solvers must agree)", "not-optimal"),
]


def check_apex(ctx, exe, stats):
    """fixed corpus: the scenes of findings C10-F1 and C10-F2 (smallest first) and a control scene."""
    for args, desc, pgs_class in SCENES:
        rc, out, err = ctx.run(exe, "", args=["apex"] + args)
        rows = [l.split() for l in out.split("\n") if l.startswith("A ")]
        if rc != 0 or len(rows) != 3:
            ctx.broken.append(("oracle", "c10_solvers apex failed", "rc=%s %s" % (rc, err[-300:])))
            return
        res = {}
        for t in rows:
            sol, nefc, niter = int(t[1]), int(t[2]), int(t[3])
            v = [float.fromhex(x) for x in t[4:]]
            res[sol] = {"niter": niter, "qacc": v[:6], "force": v[6:6 + nefc]}
        ref = res[2]
        sc = 1 + max(abs(x) for x in ref["qacc"])
        for sol in (1, 0):
            e = max(abs(a - b) for a, b in zip(res[sol]["qacc"], ref["qacc"])) / sc
            if e > REL_QACC:
                f = res[sol]["force"]
                if sol == 0 and pgs_class == "elliptic-apex-stall":
                    known = all(x == 0 for x in f)
                elif sol == 0 and pgs_class == "elliptic-qcqp-det-threshold":
                    known = len(f) >= 2 and f[0] > 0 and all(x == 0 for x in f[1:])
                else:
                    known = False
                ctx.violation("impl_violation", {"scene": desc, "replay": "c10_solvers apex " + " ".join(args)},
                              expected={"solver": "Newton", "qacc": ref["qacc"], "efc_force": ref["force"]},
                              observed={"solver": SOLVER[sol], "niter": res[sol]["niter"], "qacc": res[sol]["qacc"], "efc_force": res[sol]["force"]},
                              theorem="C10_stationary_optimal (oracle: solvers agree)",
                              signature={"site": SITE[sol], "class": pgs_class if known else "not-optimal"})
                stats.add("fixed scene %s: %s disagrees" % (" ".join(args), SOLVER[sol]))
            else:
                stats.add("fixed scene %s: %s agrees" % (" ".join(args), SOLVER[sol]))


def check_solvers(ctx, probs, stats):
    ngate = {"ref-uncertified": 0, "not-converged": 0, "fd-selfcheck-bad": 0}
    nsol = {}
    nconv = {}
    nontrivial = 0
    maxerr = {}
    for P in probs:
        if P.get("bad"):
            ctx.violation("impl_violation", {"src": "mjgen(c10) seed=%d step=%d" % (P["seed"], P["step"]), "replay": {"seed": P["seed"], "step": P["step"]}},
                          expected="finite simulation state and positive-definite inertia at the sample (the model is stepped with the Newton solver under test)",
                          observed=P["bad"], theorem="C10 (solver runs)", signature={"site": "mj_step", "class": "diverged"})
            continue
        case0 = {"src": "mjgen(c10) seed=%d step=%d" % (P["seed"], P["step"]), "replay": {"seed": P["seed"], "step": P["step"]}, "nv": P["nv"], "nefc": P["nefc"],
                 "cone": "elliptic" if P["cone"] else "pyramidal", "rows": P["kinds"]}
        if abs(P["fd"][0] - P["fd"][1]) > 1e-3 * (1 + abs(P["fd"][0])):
            ngate["fd-selfcheck-bad"] += 1
        if P["smooth_resid"] > 1e-9:
            ctx.violation("impl_violation", case0, expected="M qacc_smooth = qfrc_smooth", observed={"relative residual": P["smooth_resid"]},
                          theorem="C10 objective (a0 = qacc_smooth)", signature={"site": "mj_fwdAcceleration", "class": "qacc_smooth"})
        if not P["ref_cert"] <= 1e-8 * (1 + P["ref_mnorm"]):
            ngate["ref-uncertified"] += 1
            continue
        qs, fs = 1 + P["ref_inf"], 1 + P["ref_force_inf"]
        if len(P["kinds"]) >= 2 and P["nefc"] >= 4:
            nontrivial += 1
        for s in [s for s in P["sols"] if s.get("bad")]:
            ctx.violation("impl_violation", dict(case0, solver=SOLVER[s["solver"]], island=bool(s["island"]), sparse=bool(s["sparse"])),
                          expected="finite qacc / efc_force for the same constraint rows", observed=s["bad"], theorem="C10 (solver runs)",
                          signature={"site": SITE[s["solver"]], "class": "non-finite" if not s["finite"] else "problem-differs"})
        P["sols"] = [s for s in P["sols"] if not s.get("bad")]
        chks = sorted(float.fromhex(s["chk"]) for s in P["sols"])
        if (chks and chks[-1] - chks[0] > 1e-11 * (1 + abs(chks[0]))) or any(s["nefc"] != P["nefc"] for s in P["sols"]):
            ctx.violation("impl_violation", case0, expected="the same constraint rows (efc_aref, efc_D) for every solver / island / sparse option",
                          observed={"checksums": chks}, theorem="C10 (same problem)", signature={"site": "mj_makeConstraint", "class": "problem-differs"})
            continue
        for s in P["sols"]:
            name = SOLVER[s["solver"]]
            key = "%s%s%s" % (name, "/island" if s["island"] else "", "/sparse" if s["sparse"] else "")
            nsol[key] = nsol.get(key, 0) + 1
            sig0 = {"site": SITE[s["solver"]], "island": bool(s["island"]), "sparse": bool(s["sparse"])}
            case = dict(case0, solver=name, island=bool(s["island"]), sparse=bool(s["sparse"]), warmstart=not s["cold"], niter=s["niter"], maxiter=s["maxiter"])
            def viol(cls, expected, observed, theorem="C10_stationary_optimal (oracle: solvers agree with the certified reference)"):
                ctx.violation("impl_violation", case, expected=expected, observed=observed, theorem=theorem, signature=dict(sig0, **{"class": cls}))
                stats.add("%s FAILED" % cls)
            if not s["finite"]:
                viol("non-finite", "finite qacc and efc_force", "NaN/inf")
                continue
            conv = all(k < s["maxiter"] for k in s["niter"]) and s["nisland"] <= 20
            # ---- cost never ends higher than the start (primal solvers), reported statistics
            if s["solver"] != 0:
                if s["cost"] - s["cost_start"] > 1e-9 * (1 + abs(s["cost_start"])):
                    viol("cost-increase", "final cost <= cost of the start point (best of warm start / qacc_smooth) = %r" % s["cost_start"], {"final cost": s["cost"]},
                         theorem="C10_monotone (oracle: final cost <= initial cost)")
                else:
                    stats.add("final cost <= start cost (%s)" % name)
                if s["min_improvement"] < -1e-9 * (1 + abs(s["cost_start"])):
                    viol("negative-improvement", "reported improvements >= 0", {"min improvement (unscaled)": s["min_improvement"]}, theorem="C10_monotone (reported statistics)")
                if not s["island"] and s["nstat"] == s["niter"][0] and s["nstat"] > 0:
                    dec = s["cost_start"] - s["cost"]
                    if abs(s["sum_improvement"] - dec) > 1e-6 * (1 + abs(s["cost_start"]) + abs(s["cost"])):
                        viol("statistics-inconsistent", {"cost decrease": dec}, {"sum of reported improvements / scale": s["sum_improvement"]}, theorem="C10_monotone (reported statistics)")
                    else:
                        stats.add("sum of reported improvements = cost decrease (%s)" % name)
                if s["force_law_err"] > 1e-8 * fs:
                    viol("efc_force-not-law", "efc_force = constraint force law at J qacc - aref", {"max abs difference": s["force_law_err"]}, theorem="tie: cost/force law (C12)")
                else:
                    stats.add("efc_force = force law at the final residual (%s)" % name)
            else:
                if s["inadmissible"]:
                    viol("pgs-inadmissible", "PGS forces inside their bounds / cones", {"violating blocks": s["inadmissible"]}, theorem="C10_project_cone (oracle on efc_force)")
                else:
                    stats.add("PGS forces admissible")
                if s["dual"] > 1e-9 * (1 + abs(P["cost_ref"])):
                    viol("dual-cost-increase", "dual cost <= 0 (cost of zero force)", {"dual cost": s["dual"]}, theorem="C10_monotone_sweep (oracle)")
            if not conv:
                ngate["not-converged"] += 1
                stats.add("not converged within maxiter (skipped): %s" % name)
                continue
            nconv[name] = nconv.get(name, 0) + 1
            # ---- agreement with the certified reference
            e, ef = s["err_inf"] / qs, s["force_err"] / fs
            tq, tf = (REL_QACC_PGS, REL_FORCE_PGS) if s["solver"] == 0 else (REL_QACC, REL_FORCE)
            maxerr[name] = max(maxerr.get(name, 0.0), e)
            if e > tq or ef > tf:
                apex = s["solver"] == 0 and P["cone"] == 1 and s["apex_viol"] > 0
                qdet = s["solver"] == 0 and P["cone"] == 1 and s["qcqp_det_viol"] > 0
                viol("elliptic-apex-stall" if apex else "elliptic-qcqp-det-threshold" if qdet else "not-optimal",
                     {"reference qacc within": tq, "efc_force within": tf, "reference certificate |grad|_Minv": P["ref_cert"], "reference cost": P["cost_ref"]},
                     {"relative qacc error": e, "relative efc_force error": ef, "cost - reference cost": s["cost_minus_ref"], "own certificate |grad|_Minv": s["cert"],
                      "apex blocks violating KKT": s["apex_viol"], "blocks zeroed by the QCQP determinant threshold": s["qcqp_det_viol"]})
                continue
            stats.add("agrees with the reference: %s" % key)
            if s["pair_err"] is not None:
                if s["pair_err"] / qs > tq:
                    viol("island-vs-monolithic", "island solve = monolithic solve (qacc within %g)" % tq, {"relative difference": s["pair_err"] / qs})
                else:
                    stats.add("island = monolithic (%s)" % name)
    ngate["max_relative_qacc_error_of_converged_runs"] = maxerr
    return ngate, nsol, nconv, nontrivial


def law_tie(ctx, probs, exe12, stats):
    """the force law the solvers ended with is the C12 kernel: efc_force(final) = mj_constraintUpdate_impl(J qacc - aref) = Coq model."""
    quick = ctx.tier == "quick"
    budget = 1500 if quick else 20000
    items, tot = [], 0
    for P in sorted(probs, key=lambda p: p["nefc"]):
        for s in P["sols"]:
            if s.get("jar") is None:
                continue
            n = P["nefc"] + 8
            if tot + n > budget:
                break
            c = P["cfg"]
            cfg = CU.finish_cfg({"ne": c["ne"], "nf": c["nf"], "D": [float.fromhex(x) for x in c["D"]], "R": [float.fromhex(x) for x in c["R"]],
                                 "fl": [float.fromhex(x) for x in c["fl"]], "type": c["type"], "id": c["id"],
                                 "con": [{"dim": k["dim"], "mu": float.fromhex(k["mu"]), "fr": [float.fromhex(x) for x in k["fr"]], "adr": k["adr"]} for k in c["con"]],
                                 "related": True, "src": "mjgen(c10) seed=%d step=%d solver=%s" % (P["seed"], P["step"], SOLVER[s["solver"]])})
            items.append((cfg, [float.fromhex(x) for x in s["jar"]], [float.fromhex(x) for x in s["force_hex"]]))
            tot += n
    if not items:
        return 0, 0
    outs = CU.run_raw(ctx, exe12, [(cfg, jar, 0) for cfg, jar, _ in items])
    if outs is None:
        return 0, 0
    sel = []
    for (cfg, jar, force), o in zip(items, outs):
        bad = [i for i in range(cfg["nefc"]) if not abs(o["force"][i] - force[i]) <= 1e-6 * (1 + abs(force[i]) + abs(cfg["D"][i] * jar[i]))]
        if bad:
            i = bad[0]
            ctx.violation("correspondence", {"src": cfg["src"], "row": i}, expected="efc_force = mj_constraintUpdate_impl at jar = J*qacc - aref",
                          observed={"efc_force": force[i], "force_law": o["force"][i]}, found_input=False,
                          theorem="tie: efc_force after a primal solver is the output of the C12 force law", signature={"site": "mj_solPrimal"})
        else:
            stats.add("final efc_force = mj_constraintUpdate_impl(J qacc - aref)")
        sel.append({"cfg": cfg, "jar": jar, "flgH": 0, "tag": "engine-jar", "out": o})
    fails = CU.correspond(ctx, "c10law", sel)
    for i in fails[:3]:
        c = sel[i]
        ctx.violation("correspondence", CU.case_json(c), expected="output of Model/ConstraintUpdate.v (float run)", observed=CU.out_json(c["out"]),
                      found_input=False, theorem="correspondence c12_update (cost/force law, C12 tie)", signature={"site": "mj_constraintUpdate_impl"})
    return len(sel), len(fails)


def run(ctx):
    quick = ctx.tier == "quick"
    tm = {}
    t0 = time.time()
    ctx.coq_props(allowed_axioms=F.STD_AXIOMS,
                  extra_targets=["Lib/Num.vo", "Lib/NumF.vo", "Lib/Eqb.vo", "Model/Solver.vo", "Model/ConstraintUpdate.vo"])
    exe = ctx.driver("c10_solvers", ["c10_solvers.c"])
    exe12 = ctx.driver("c12_update", ["c12_update.c"])
    if exe is None or exe12 is None:
        return
    tm["coq_props+build"] = round(time.time() - t0, 1); t0 = time.time()
    stats = CU.Stats()
    # ---- fixed corpus (finding C10-F1), then the projection kernels
    check_apex(ctx, exe, stats)
    nproj, nprojfail = check_projection(ctx, exe, stats)
    tm["projection"] = round(time.time() - t0, 1); t0 = time.time()
    # ---- solver runs
    rep = ctx.replay.get("case") if getattr(ctx, "replay", None) else None
    if isinstance(rep, dict) and isinstance(rep.get("replay"), dict) and "seed" in rep["replay"]:
        s = int(rep["replay"]["seed"])
        ranges = [(s, s + 1)]
    elif quick:
        base = 1 + (ctx.seed - 1) * 1000
        ranges = [(base + 12 * k, base + 12 * (k + 1)) for k in range(4)]
    else:
        base = 1 + (ctx.seed - 1) * 1000
        ranges = [(base + 25 * k, base + 25 * (k + 1)) for k in range(16)]
    probs, xs = run_chunks(ctx, exe, ranges)
    if probs is None:
        return
    tm["solver runs + reference"] = round(time.time() - t0, 1); t0 = time.time()
    for x in xs:
        if " compile" in x:
            continue
        ctx.violation("impl_violation", {"src": "mjgen(c10) " + x}, expected="mj_forward completes", observed=x, theorem="C10 (solver runs)",
                      signature={"site": "mj_forward", "class": "mju_error"})
    ngate, nsol, nconv, nontrivial = check_solvers(ctx, probs, stats)
    probs = [P for P in probs if not P.get("bad")]
    nruns = sum(len(P["sols"]) for P in probs)
    # the gates must not make the oracle vacuous
    if len(probs) < (20 if not rep else 1):
        ctx.broken.append(("oracle", "too few constraint problems were produced", "%d" % len(probs)))
    maxerr = ngate.pop("max_relative_qacc_error_of_converged_runs", {})
    if ngate["ref-uncertified"] > 0.05 * max(1, len(probs)):
        ctx.broken.append(("oracle", "reference optimiser not certified on too many problems", json.dumps(ngate)))
    if ngate["fd-selfcheck-bad"] > 0.2 * max(1, len(probs)):
        ctx.broken.append(("oracle", "finite-difference self-check of the reference gradient fails on too many problems", json.dumps(ngate)))
    if not rep:
        for name in ("Newton", "CG", "PGS"):
            tot = sum(v for k, v in nsol.items() if k.startswith(name))
            if tot and nconv.get(name, 0) < 0.8 * tot:
                ctx.broken.append(("oracle", "solver %s reports convergence on too few runs for the agreement oracle to mean anything" % name,
                                   "%d of %d" % (nconv.get(name, 0), tot)))
    tm["oracle"] = round(time.time() - t0, 1); t0 = time.time()
    exe12 = ctx.driver("c12_update", ["c12_update.c"]) or exe12   # the shared binary cache keeps few versions: re-acquire (relinks if pruned meanwhile)
    nlaw, nlawfail = law_tie(ctx, probs, exe12, stats)
    tm["law tie"] = round(time.time() - t0, 1)
    # ---- coverage
    ctx.cov["evaluations"] = nruns + nproj + nlaw + 3
    ctx.cov["distinct_nontrivial"] = nontrivial
    ctx.cov["rule"] = ("solver runs = (mjgen model of 1..4 bodies with contacts, limits, friction loss, equalities; state at steps 0/6/17/40; warm start perturbed) x "
                       "8 configurations (Newton mono/island dense/sparse, CG mono dense / island sparse, PGS mono dense / island sparse), tolerance 1e-14, "
                       "cone = seed parity, cold start for seed%4 = 3; non-trivial = problem with >= 2 row kinds and >= 4 rows whose reference is certified; "
                       "projection cases = random + boundary + corner inputs of projectCone / projectEllipsoid / mju_clip")
    ctx.cov["solver_runs"] = nsol
    ctx.cov["converged_runs"] = nconv
    ctx.cov["gated_out"] = ngate
    ctx.cov["max_relative_qacc_error_vs_reference"] = maxerr
    ctx.cov["problems"] = len(probs)
    ctx.cov["problems_with_islands>=2"] = sum(1 for P in probs if P["nisland"] >= 2)
    ctx.cov["row_kinds"] = sorted(set(k for P in probs for k in P["kinds"]))
    ctx.cov["oracle_checks"] = stats.as_dict()
    ctx.cov["support"].update({"projection_cases": nproj, "law_tie_cases": nlaw, "timing_s": tm, "skipped_models": len(xs)})
    ctx.cov["samples"] = [{"seed": P["seed"], "step": P["step"], "nv": P["nv"], "nefc": P["nefc"], "rows": P["kinds"], "reference_certificate": P["ref_cert"]}
                          for P in (probs[:1] + probs[len(probs) // 2:len(probs) // 2 + 1] + probs[-1:])]
    ctx.cov["correspondence_disagreements"] = nprojfail + nlawfail
    ctx.cov["explanation"] = ("Theorems of Props/C10.v proved over R; projection kernels tied by %d float cases, cost law by %d cases; %d solver runs on %d problems "
                              "compared with a certified reference (%d oracle checks); convergence itself is not a theorem" % (nproj, nlaw, nruns, len(probs), stats.total()))
