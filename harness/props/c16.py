"""C16 — ray casting returns the nearest intersection."""
import itertools, math, struct
import framework as F

META = {
    "id": "C16", "category": "proof", "design_ref": "DESIGN.md section 4, C16",
    "technique": "Coq proofs about a hand-written model of ray_eliminate, the min-selection loop of mj_ray / mju_singleRay, ray_quad, "
                 "ray_plane, ray_sphere, ray_box (Num-polymorphic kernels proved at R, run at PrimFloat) + exact / numeric correspondence "
                 "with engine_ray.c + brute-force oracle over mju_rayGeom on generated scenes",
    "text": "Proved in Coq: C16_eliminate (ray_eliminate = the rule table: excluded body, invisible geom/material, static filter, group "
            "mask with the clamp to 0..5; all inputs); C16_select (for EVERY totally preordered distance type, every geom list: id -1 iff "
            "all non-eliminated geoms report < 0, otherwise the least non-negative reported distance and the FIRST geom attaining it); "
            "C16_multi (mj_multiRay = mj_ray per ray PROVIDED the per-ray culling only skips geoms that are eliminated or report < 0 - "
            "that geometric hypothesis on cutoff / bounding sphere / bounding angles is validated by the oracle, not proved); over the "
            "reals: C16_quad (least non-negative root or -1), C16_sphere and C16_box (returned t is the least t >= 0 with pnt + t vec on "
            "the surface, -1 iff none; box under a length-preserving frame, positive sizes and a direction that is not within mjMINVAL of "
            "being parallel to a face while non-zero, nor sliding inside a face plane), C16_plane (front-face hit inside the rendered "
            "rectangle, unique). Tie: ray_eliminate exhaustively against the static C function; the selection loop exactly against mj_ray "
            "and mj_multiRay on rows of spheres with engineered integer distances and ties (distances known by construction) and on "
            "generated scenes with the per-geom distances of mju_rayGeom as order-preserving integer codes; ray_quad and mju_rayGeom "
            "(plane, sphere, box) numerically against the float instance of the kernels. Oracle on implementation output: mj_ray == brute "
            "force over mju_rayGeom with the documented filters (group / static / bodyexclude / invisible), geomid NULL variant, "
            "mj_multiRay == repeated mj_ray (cutoff mjMAXVAL; finite cutoff: must agree whenever the mj_ray hit lies within the cutoff), "
            "normals of the two entry points identical; every per-geom distance of mju_rayGeom (plane, sphere, capsule, ellipsoid, "
            "cylinder, box) == an independent analytic computation in the harness (1e-6, grazing rays not judged). Not covered: capsule / "
            "cylinder / ellipsoid formulas in Coq (oracle only), mesh / hfield / SDF / flex rays, IEEE rounding in the kernels, zero-length rays "
            "(mj_ray raises an error; mj_multiRay returns -1 without writing geomid). History: the oracle found two defects of mj_multiRay, "
            "repaired in /repo 9790a1925 - the per-body bounding-sphere centre was not rotated into the world frame (rotated bodies with an "
            "off-centre BVH box were skipped) and unbounded planes were eliminated by a finite cutoff measured from their frame origin; "
            "both minimal scenes are kept as corpus cases (CORPUS 0 / 1) and as revert mutants.",
    "note": "Trusted: Coq kernel + the standard library's classical real-number axioms (sig_forall_dec, sig_not_dec, functional "
            "extensionality) for the theorems over R; hand-written model Model/Ray.v; correspondence harness (gcc, driver c16_ray.c "
            "including engine_ray.c; PrimFloat evaluation).",
    "assumptions": ["distances are not NaN", "IEEE rounding is outside every theorem (kernels proved over R, compared numerically at binary64)",
                    "tie is differential testing on the cases of this run"],
}

IMPORTS = ("From Coq Require Import ZArith Bool PrimFloat.\nFrom MJV Require Import Lib.Eqb Lib.Num Lib.NumF Model.Ray.\n"
           "Open Scope Z_scope.")
MAXVAL = 1e10


def dkey(x):
    b = struct.unpack("<q", struct.pack("<d", x))[0]
    return b if b >= 0 else -(b & 0x7FFFFFFFFFFFFFFF)


def zc(v):
    return "(%d)" % v if v < 0 else "%d" % v


def fl(x):
    return "(%s)%%float" % F.fhex(x).strip("()") if x >= 0 or x != x else "(-%s)%%float" % F.fhex(-x)


def ftuple(xs):
    return "(" + ", ".join(fl(x) for x in xs) + ")"


def elim_rule(g, bodyexclude, flg_static, gg):
    """documented filters (independent of the code under test)."""
    if g["body"] == bodyexclude:
        return True
    if g["mat"] < 0 and g["ga0"]:
        return True
    if g["mat"] >= 0 and g["ma0"]:
        return True
    if not flg_static and g["weld"] == 0:
        return True
    if gg is None:
        return False
    return gg[min(5, max(0, g["group"]))] == 0


def _roots(a, b, c):
    """real roots of a t^2 + 2 b t + c"""
    if a <= 0:
        return []
    det = b * b - a * c
    if det < 0:
        return []
    sq = math.sqrt(det)
    return [(-b - sq) / a, (-b + sq) / a]


def analytic(typ, pos, mat, size, pnt, vec):
    """independent analytic distance to a primitive geom (plane 0, sphere 2, capsule 3, ellipsoid 4, cylinder 5, box 6); -1 = miss"""
    dif = [pnt[i] - pos[i] for i in range(3)]
    lp = [sum(mat[3 * r + k] * dif[r] for r in range(3)) for k in range(3)]
    lv = [sum(mat[3 * r + k] * vec[r] for r in range(3)) for k in range(3)]
    cand = []
    if typ == 0:
        if lv[2] > -1e-15:
            return -1.0
        t = -lp[2] / lv[2]
        if t < 0:
            return -1.0
        x, y = lp[0] + t * lv[0], lp[1] + t * lv[1]
        return t if (size[0] <= 0 or abs(x) <= size[0]) and (size[1] <= 0 or abs(y) <= size[1]) else -1.0
    if typ == 2:
        cand = _roots(sum(v * v for v in lv), sum(lv[i] * lp[i] for i in range(3)), sum(p * p for p in lp) - size[0] ** 2)
    elif typ == 4:
        q = [lp[i] / size[i] for i in range(3)]; w = [lv[i] / size[i] for i in range(3)]
        cand = _roots(sum(v * v for v in w), sum(w[i] * q[i] for i in range(3)), sum(x * x for x in q) - 1)
    elif typ == 6:
        tmin, tmax = -math.inf, math.inf
        for i in range(3):
            if abs(lv[i]) < 1e-300:
                if abs(lp[i]) > size[i]:
                    return -1.0
                continue
            t1, t2 = (-size[i] - lp[i]) / lv[i], (size[i] - lp[i]) / lv[i]
            tmin, tmax = max(tmin, min(t1, t2)), min(tmax, max(t1, t2))
        if tmin > tmax or tmax < 0:
            return -1.0
        return tmin if tmin >= 0 else tmax
    elif typ in (3, 5):
        r, h = size[0], size[1]
        for t in _roots(lv[0] ** 2 + lv[1] ** 2, lv[0] * lp[0] + lv[1] * lp[1], lp[0] ** 2 + lp[1] ** 2 - r * r):
            if abs(lp[2] + t * lv[2]) <= h:
                cand.append(t)
        for sgn in (-1, 1):
            if typ == 5:
                if abs(lv[2]) > 1e-300:
                    t = (sgn * h - lp[2]) / lv[2]
                    if (lp[0] + t * lv[0]) ** 2 + (lp[1] + t * lv[1]) ** 2 <= r * r:
                        cand.append(t)
            else:
                c = [lp[0], lp[1], lp[2] - sgn * h]
                for t in _roots(sum(v * v for v in lv), sum(lv[i] * c[i] for i in range(3)), sum(x * x for x in c) - r * r):
                    if sgn * (lp[2] + t * lv[2]) >= h:
                        cand.append(t)
    nn = [t for t in cand if t >= 0]
    return min(nn) if nn else -1.0


def analytic_check(typ, pos, mat, size, pnt, vec, x):
    """True = agrees, False = disagrees, None = numerically degenerate (grazing / threshold) ray: not judged"""
    def close(a, b):
        return abs(a - b) <= 1e-6 * (1 + abs(a) + abs(b))
    e0 = analytic(typ, pos, mat, size, pnt, vec)
    if close(e0, x):
        return True
    # jitter the direction and the origin: a robust disagreement persists
    outs = [e0]
    for k in range(6):
        dv = [vec[i] * (1 + (1e-7 if (k >> i) & 1 else -1e-7)) for i in range(3)]
        dp = [pnt[i] + (1e-8 if k % 2 else -1e-8) for i in range(3)]
        outs.append(analytic(typ, pos, mat, size, dp, dv))
    if any(close(o, x) for o in outs) or max(outs) - min(outs) > 1e-5 * (1 + abs(e0)):
        return None
    return False


def gg_lit(gg):
    return "(@None (list Z))" if gg is None else "(Some %s)" % F.zlist(list(gg))


def run(ctx):
    import time
    rng = ctx.rng
    quick = ctx.tier == "quick"
    tm = {}
    t0 = time.time()
    ctx.coq_props(allowed_axioms=F.STD_AXIOMS, extra_targets=["Lib/Eqb.vo", "Lib/Num.vo", "Lib/NumF.vo", "Model/Ray.vo"])
    tm["coq_props"] = round(time.time() - t0, 1); t0 = time.time()
    exe = ctx.driver("c16_ray", ["c16_ray.c"])
    if exe is None:
        return
    cmds = []
    # ---- ray_eliminate, exhaustive over a small domain (enumerated again inside Coq)
    GG = [None, (1, 0, 1, 0, 1, 0), (0, 1, 1, 0, 0, 1)]
    ELIM_DOM = [(0, 1), (-1, 0, 1), (-1, 0, 2), (0, 1), (0, 1), (0, 1), (0, 1), (0, 1, 2), (-1, 0, 3, 5, 6)]
    for t in itertools.product(*ELIM_DOM):
        cmds.append(("ELIM", t))
    # ---- ray_quad
    for _ in range(150 if quick else 3000):
        m = rng.choice(["hit", "any", "tiny"])
        if m == "hit":
            a = rng.uniform(0.1, 4); x0, x1 = rng.uniform(-3, 3), rng.uniform(-3, 3); b = -a * (x0 + x1) / 2; c = a * x0 * x1
        elif m == "any":
            a, b, c = rng.uniform(-1, 4), rng.uniform(-5, 5), rng.uniform(-5, 5)
        else:
            a, b, c = rng.choice([0.0, 1e-16, 1e-15, 2e-15]), rng.uniform(-1, 1), rng.uniform(-1, 1)
        cmds.append(("QUAD", (a, b, c)))
    # ---- mju_rayGeom on random plane / sphere / box instances
    def rquat():
        while True:
            q = [rng.uniform(-1, 1) for _ in range(4)]
            n = math.sqrt(sum(x * x for x in q))
            if n > 1e-3:
                return [x / n for x in q]

    def q2m(q):
        w, x, y, z = q
        return [1 - 2 * (y * y + z * z), 2 * (x * y - w * z), 2 * (x * z + w * y),
                2 * (x * y + w * z), 1 - 2 * (x * x + z * z), 2 * (y * z - w * x),
                2 * (x * z - w * y), 2 * (y * z + w * x), 1 - 2 * (x * x + y * y)]
    for _ in range(150 if quick else 3000):
        typ = rng.choice([0, 2, 6, 6])
        pos = [rng.uniform(-1, 1) for _ in range(3)]
        mat = q2m(rquat()) if rng.random() < 0.8 else [1.0, 0, 0, 0, 1.0, 0, 0, 0, 1.0]
        size = [rng.uniform(0.1, 0.8) for _ in range(3)]
        if typ == 0 and rng.random() < 0.5:
            size[rng.randrange(2)] = 0.0
        pnt = [rng.uniform(-2, 2) for _ in range(3)]
        if rng.random() < 0.2:
            pnt = [p + rng.uniform(-0.05, 0.05) for p in pos]          # start inside
        aim = [p + rng.uniform(-0.6, 0.6) for p in pos]
        vec = [aim[i] - pnt[i] for i in range(3)] if rng.random() < 0.7 else [rng.uniform(-1, 1) for _ in range(3)]
        if rng.random() < 0.15:                                       # axis-aligned in the local frame (exactly zero components)
            k = rng.randrange(3); vec = [mat[3 * i + k] * rng.choice([-1, 1]) for i in range(3)]
        if sum(v * v for v in vec) < 1e-6:
            vec = [1.0, 0.0, 0.0]
        cmds.append(("GEOM", (typ, pos, mat, size, pnt, vec)))
    # ---- rows of spheres with engineered integer distances
    for _ in range(150 if quick else 2500):
        n = rng.randrange(1, 9)
        row = []
        for i in range(n):
            d = rng.choice([-3, -1, 1, 1, 2, 2, 3, 4, 5])
            row.append((d, rng.choice([0.5, 0.25, 1.0]), rng.randrange(-1, 7), rng.randrange(2) if rng.random() < 0.4 else 0,
                        1 if rng.random() < 0.15 else 0))
        gg = None if rng.random() < 0.4 else tuple(rng.randrange(2) for _ in range(6))
        cmds.append(("ROW", (row, gg, rng.randrange(2), rng.choice([-1, -1, 0, 1, 2, n]))))
    # ---- scenes
    nsc = 60 if quick else 400
    for _ in range(nsc):
        seed = rng.randrange(1, 1 << 40)
        nb = rng.choice([1, 2, 4, 6, 10]) if quick else rng.choice([1, 2, 4, 6, 10, 16, 24])
        gg = None if rng.random() < 0.4 else tuple(1 if rng.random() < 0.7 else 0 for _ in range(6))
        cutoff = MAXVAL if rng.random() < 0.6 else rng.choice([0.5, 1.0, 2.0, 4.0])
        cmds.append(("SCENE", (seed, nb, 12 if quick else 20, gg, rng.randrange(2), rng.choice([-1, -1, 0, 1, 2, 3, 5]), cutoff)))

    cmds.append(("CORPUS", 0))
    cmds.append(("CORPUS", 1))
    cmds.append(("CORPUS", 2))

    def text(c):
        k, p = c
        if k == "CORPUS":
            return "CORPUS %d" % p
        if k == "ELIM":
            bodyid, bex, matid, ga0, ma0, flg, weld, ggi, group = p
            gg = GG[ggi]
            return "ELIM %d %d %d %d %d %d %d %d %s %d" % (bodyid, bex, matid, ga0, ma0, flg, weld, 0 if gg is None else 1,
                                                            " ".join(map(str, gg or (1,) * 6)), group)
        if k == "QUAD":
            return "QUAD " + " ".join(float(x).hex() for x in p)
        if k == "GEOM":
            typ, pos, mat, size, pnt, vec = p
            return "GEOM %d " % typ + " ".join(float(x).hex() for x in pos + mat + size + pnt + vec)
        if k == "ROW":
            row, gg, flg, bex = p
            return ("ROW %d " % len(row) + " ".join("%d %r %d %d %d" % r for r in row) +
                    " %d %s %d %d" % (0 if gg is None else 1, " ".join(map(str, gg or (1,) * 6)), flg, bex))
        if k == "SCENE":
            seed, nb, nray, gg, flg, bex, cutoff = p
            return "SCENE %d %d %d %d %s %d %d %r" % (seed, nb, nray, 0 if gg is None else 1, " ".join(map(str, gg or (1,) * 6)), flg, bex, cutoff)
    rc, out, err = ctx.run(exe, "\n".join(text(c) for c in cmds) + "\n", timeout=1500)
    tm["driver"] = round(time.time() - t0, 1); t0 = time.time()
    if rc != 0:
        ctx.broken.append(("correspondence", "driver c16_ray failed", "rc=%s %s" % (rc, err[-800:])))
        return
    # one block of lines per command, closed by "#EOC" (a crash inside a command is reported in its own block)
    blocks, cur = [], []
    for ln in out.split("\n"):
        if ln.strip() == "#EOC":
            blocks.append(cur); cur = []
        else:
            cur.append(ln)
    if len(blocks) != len(cmds):
        ctx.broken.append(("correspondence", "driver c16_ray output incomplete", "%d blocks for %d commands; %s" % (len(blocks), len(cmds), err[-300:])))
        return
    outs = []
    crashed = []
    for c, b in zip(cmds, blocks):
        b = [x for x in b if x.strip()]
        if any(x.startswith("CRASH") for x in b):
            crashed.append((c, b))
            outs.append(None)
        elif c[0] == "SCENE":
            outs.append([x for x in b if x.strip() != "END"])
        else:
            outs.append(b[0] if b else "")
    for c, b in crashed[:3]:
        real_model = c[0] in ("SCENE", "ROW", "CORPUS", "GEOM", "QUAD")
        ctx.violation("impl_violation" if real_model else "correspondence", {"op": c[0], "args": c[1], "input_line": text(c)},
                      expected="the call returns", observed=[x for x in b if x.startswith("CRASH")][0],
                      theorem="C16_select" if real_model else "correspondence c16 driver",
                      signature={"site": "engine_ray.c", "class": "crash"}, found_input=real_model,
                      note="" if real_model else "the static function crashed on a hand-built mjModel that only carries the tables the current source reads "
                                                 "(geom_bodyid, geom_matid, geom_rgba, mat_rgba, body_weldid, body_rootid, body_parentid, geom_group): it "
                                                 "now reads another table; the scene oracle decides whether the change breaks the property")
    elim_res = []
    quad_cases, geom_cases, row_cases, sel_cases = [], [], [], []
    quad_src, geom_src, row_src, sel_src = [], [], [], []
    nrays = nhits = nmulti_checked = nties = ndegenerate = nanalytic = 0
    samples = []
    for ci, (c, o) in enumerate(zip(cmds, outs)):
        k, p = c
        if o is None:
            if k == "ELIM":
                elim_res.append(-1)
            continue
        if k == "ELIM":
            bodyid, bex, matid, ga0, ma0, flg, weld, ggi, group = p
            try:
                r = int(o)
            except ValueError:
                ctx.broken.append(("correspondence", "driver output unparsable", "%s -> %r" % (text(c), o))); return
            exp = elim_rule(dict(body=bodyid, mat=matid, ga0=ga0, ma0=ma0, weld=weld, group=group), bex, flg, GG[ggi])
            if bool(r) != exp:
                ctx.violation("impl_violation", {"op": "ray_eliminate", "args": list(p), "geomgroup": GG[ggi]}, expected=int(exp), observed=r,
                              theorem="C16_eliminate", signature={"site": "ray_eliminate"})
            elim_res.append(r)
        elif k == "QUAD":
            t = o.split()
            vals = [float.fromhex(x) for x in t]
            a, b, cc = p
            # oracle: returned value is -1 or a non-negative root, and no smaller non-negative root exists
            det = b * b - a * cc
            ret = vals[0]
            if det >= 0 and a >= 1e-15:
                roots = sorted([(-b - math.sqrt(det)) / a, (-b + math.sqrt(det)) / a])
                nn = [x for x in roots if x >= 0]
                exp = nn[0] if nn else -1.0
            else:
                exp = -1.0
            if abs(ret - exp) > 1e-9 * (1 + abs(exp)):
                ctx.violation("impl_violation", {"op": "ray_quad", "a": a, "b": b, "c": cc}, expected=exp, observed=ret, theorem="C16_quad",
                              signature={"site": "ray_quad"})
            quad_cases.append("(%s, %s, %s, %s)" % (fl(a), fl(b), fl(cc), ftuple(vals[1:3] + vals[0:1])))
            quad_src.append(ci)
        elif k == "GEOM":
            typ, gpos, mat, size, pnt, vec = p
            x = float.fromhex(o.strip())
            geom_cases.append("(%d, %s, %s, %s, %s, %s, %s)" % (typ, ftuple(gpos), ftuple(mat), ftuple(size), ftuple(pnt), ftuple(vec), fl(x)))
            geom_src.append(ci)
            # oracle: independent analytic distance
            ok = analytic_check(typ, gpos, mat, size, pnt, vec, x)
            if ok is None:
                ndegenerate += 1
            elif not ok:
                ctx.violation("impl_violation", {"op": "mju_rayGeom", "geomtype": typ, "pos": gpos, "mat": mat, "size": size, "pnt": pnt, "vec": vec},
                              expected=analytic(typ, gpos, mat, size, pnt, vec), observed=x, theorem="C16_sphere/C16_plane/C16_box",
                              signature={"site": "mju_rayGeom", "geomtype": typ})
        elif k == "ROW":
            row, gg, flg, bex = p
            t = o.split()
            if len(t) < 5 or t[0] != "ROW" or t[1] == "fail":
                ctx.broken.append(("correspondence", "row did not run", "%s -> %r" % (text(c), o))); continue
            d1, g1, dm, gm = float.fromhex(t[1]), int(t[2]), float.fromhex(t[3]), int(t[4])
            # oracle from the construction: geom i is on body i+1; static bodies are welded to the world
            best = (-1.0, -1)
            for i, (d, r, grp, st, a0) in enumerate(row):
                g = dict(body=i + 1, mat=-1, ga0=a0, ma0=0, weld=0 if st else i + 1, group=grp)
                if elim_rule(g, bex, flg, gg) or d < 0:
                    continue
                if best[1] < 0 or d < best[0]:
                    best = (float(d), i)
            if (d1, g1) != best or (dm, gm) != best:
                ctx.violation("impl_violation", {"op": "row of spheres on +x", "row(dist,radius,group,static,alpha0)": row, "geomgroup": gg,
                                                 "flg_static": flg, "bodyexclude": bex},
                              expected=best, observed={"mj_ray": (d1, g1), "mj_multiRay": (dm, gm)}, theorem="C16_select",
                              signature={"site": "mj_ray", "class": "selection"})
            if len({d for d, *_ in row if d > 0}) < len([d for d, *_ in row if d > 0]):
                nties += 1
            glit = "; ".join("(%d, %s, %s, %d, %s)" % (i + 1, "true" if a0 else "false", zc(0 if st else i + 1), zc(grp) if False else grp, zc(d if d > 0 else -1))
                             for i, (d, r, grp, st, a0) in enumerate(row))
            glit = "; ".join("(%d, %s, %d, %s, %s)" % (i + 1, "true" if a0 else "false", 0 if st else i + 1, zc(grp), zc(d if d > 0 else -1))
                             for i, (d, r, grp, st, a0) in enumerate(row))
            row_cases.append("([%s], %s, %s, %s, %s, %s)" % (glit, zc(bex), "true" if flg else "false", gg_lit(gg), zc(int(d1)), zc(g1)))
            row_src.append(ci)
        elif k == "CORPUS":
            t = o.split()
            if len(t) < 6 or t[0] != "CORPUS" or t[1] == "fail":
                ctx.broken.append(("correspondence", "corpus scene did not run", o[:300])); continue
            d1, g1, dm, gm = float.fromhex(t[2]), int(t[3]), float.fromhex(t[4]), int(t[5])
            desc = ["free body rotated 90 deg about x (quat .7071 .7071 0 0) with spheres r=0.1 at (0,0,0) and r=0.3 at (0,0,1) in the body frame; "
                    "ray pnt=(-2,0,0) vec=(1,0,0), cutoff=mjMAXVAL",
                    "infinite plane z=0 in the world body; ray pnt=(10,0,1) vec=(0,0,-1), cutoff=5",
                    "free body (frame = world) with explicit inertial frame ipos=(0.3,0,0) iquat=(.7071,0,0,.7071), spheres r=0.1 at (0,0,0) and "
                    "(2,0,0); ray pnt=(2,-2,0) vec=(0,1,0), cutoff=mjMAXVAL"][p]
            exp_ray = [(1.9, 0), (1.0, 0), (1.9, 1)][p]
            if abs(d1 - exp_ray[0]) > 1e-9 or g1 != exp_ray[1]:
                ctx.violation("impl_violation", {"op": "corpus scene", "scene": desc}, expected=exp_ray, observed=(d1, g1), theorem="C16_select",
                              signature={"site": "mj_ray", "class": "not_nearest"})
            if (dm, gm) != (d1, g1):
                ctx.violation("impl_violation", {"op": "corpus scene", "scene": desc}, expected={"mj_ray": (d1, g1)}, observed={"mj_multiRay": (dm, gm)},
                              theorem="C16_multi", signature={"site": "mj_multiRay", "class": ["body_sphere_cull_drops_hit", "plane_dropped_by_cutoff", "body_sphere_cull_drops_hit"][p]})
        elif k == "SCENE":
            seed, nb, nray, gg, flg, bex, cutoff = p
            case = {"op": "scene", "seed": seed, "nbody": nb, "geomgroup": gg, "flg_static": flg, "bodyexclude": bex, "cutoff": cutoff}
            if not o or not o[0].startswith("SCENE ok"):
                ctx.broken.append(("correspondence", "scene did not run", "%s -> %s" % (text(c), " | ".join(o)[:300]))); continue
            bex_eff = int(o[0].split()[4])
            G, X, pnt = [], {}, None
            Bt = []
            rays = []
            for ln in o[1:]:
                t = ln.split()
                if not t:
                    continue
                if t[0] == "G":
                    G.append(dict(type=int(t[2]), body=int(t[3]), mat=int(t[4]), ga0=int(t[5]), ma0=int(t[6]), weld=int(t[7]), group=int(t[8]),
                                  rbound=float.fromhex(t[9])))
                elif t[0] == "B":
                    Bt.append((int(t[2]), int(t[3]), int(t[4])))      # parentid, jntnum, is mocap
                elif t[0] == "P":
                    pnt = [float.fromhex(x) for x in t[1:4]]
                elif t[0] == "R":
                    ng = len(G)
                    vec = [float.fromhex(x) for x in t[2:5]]
                    rays.append(dict(vec=vec, d1=float.fromhex(t[5]), g1=int(t[6]), dm=float.fromhex(t[7]), gm=int(t[8]), same0=int(t[9]),
                                     d0=float.fromhex(t[10]), table=[float.fromhex(x) for x in t[11:11 + ng]], nsame=int(t[11 + ng])))
                elif t[0] == "X":
                    X[int(t[1])] = (int(t[2]), [float.fromhex(x) for x in t[3:6]], [float.fromhex(x) for x in t[6:15]], [float.fromhex(x) for x in t[15:18]])
            # weld groups computed independently of body_weldid: a body with a joint or a mocap body starts a group,
            # a jointless body belongs to the group of its parent (parents precede children)
            weld = []
            for b, (par, jn, moc) in enumerate(Bt):
                weld.append(b if (b == 0 or jn > 0 or moc) else weld[par])
            for g in G:
                g["weld_impl"] = g["weld"]
                g["weld"] = weld[g["body"]]
            elim = [elim_rule(g, bex_eff, flg, gg) for g in G]
            ray_lits = []
            for ri, r in enumerate(rays):
                nrays += 1
                best = (-1.0, -1)
                for gi, (e, x) in enumerate(zip(elim, r["table"])):
                    if e or not x >= 0:
                        continue
                    if best[1] < 0 or x < best[0]:
                        best = (x, gi)
                rc_case = dict(case, ray=ri, pnt=pnt, vec=r["vec"])
                if best[1] >= 0:
                    nhits += 1
                for who, gid in (("mj_ray", r["g1"]), ("mj_multiRay", r["gm"])):
                    if not (-1 <= gid < len(G)):
                        ctx.violation("impl_violation", rc_case, expected="geom id in -1..ngeom-1", observed={who: gid}, theorem="C16_select",
                                      signature={"site": who, "class": "bad_geomid"})
                    elif gid >= 0 and not flg and G[gid]["weld"] == 0:
                        ctx.violation("impl_violation", dict(rc_case, geom=gid, geom_body=G[gid]["body"]),
                                      expected="with flg_static=0 no returned geom belongs to a body welded to the world",
                                      observed={who: gid, "body": G[gid]["body"], "weld group": 0}, theorem="C16_eliminate",
                                      signature={"site": "ray_eliminate", "class": "static_geom_returned"})
                if (r["d1"], r["g1"]) != best:
                    ctx.violation("impl_violation", rc_case, expected={"dist": best[0], "geomid": best[1]}, observed={"dist": r["d1"], "geomid": r["g1"]},
                                  theorem="C16_select", signature={"site": "mj_ray", "class": "not_nearest"})
                if r["d0"] != r["d1"] or not r["same0"]:
                    ctx.violation("impl_violation", rc_case, expected="same distance with and without the normal output", observed=(r["d0"], r["d1"]),
                                  theorem="C16_select", signature={"site": "mj_ray", "class": "normal_changes_result"})
                vlen = math.sqrt(sum(v * v for v in r["vec"]))
                must_agree = cutoff >= MAXVAL or (best[1] >= 0 and best[0] * vlen <= cutoff * (1 - 1e-9)) or False
                if cutoff < MAXVAL and best[1] < 0:
                    must_agree = True          # nothing to hit at all: multi-ray must also miss
                if must_agree:
                    nmulti_checked += 1
                    if (r["dm"], r["gm"]) != best:
                        cls = "body_sphere_cull_drops_hit" if r["gm"] < 0 else "differs_from_mj_ray"
                        if best[1] >= 0 and G[best[1]]["type"] == 0 and cutoff < MAXVAL and best[1] in X and \
                           math.dist(X[best[1]][1], pnt) > cutoff:
                            cls = "plane_dropped_by_cutoff"
                        ctx.violation("impl_violation", dict(rc_case, hit_geom_type=G[best[1]]["type"] if best[1] >= 0 else None),
                                      expected={"mj_ray": best}, observed={"mj_multiRay": (r["dm"], r["gm"])},
                                      theorem="C16_multi", signature={"site": "mj_multiRay", "class": cls})
                    elif not r["nsame"]:
                        ctx.violation("impl_violation", rc_case, expected="same normal from mj_ray and mj_multiRay", observed="different",
                                      theorem="C16_multi", signature={"site": "mj_multiRay", "class": "normal_differs"})
                else:
                    # beyond the cutoff: any answer must still be a genuine hit of a non-eliminated geom, not nearer than the true one
                    if 0 <= r["gm"] < len(G) and (elim[r["gm"]] or r["table"][r["gm"]] != r["dm"] or (best[1] >= 0 and r["dm"] < best[0])):
                        ctx.violation("impl_violation", rc_case, expected="a reported hit is a real hit", observed=(r["dm"], r["gm"]),
                                      theorem="C16_multi", signature={"site": "mj_multiRay", "class": "bogus_hit"})
                ray_lits.append("(%s, %s, %s)" % (F.zlist([dkey(x) for x in r["table"]]), zc(dkey(r["d1"])), zc(r["g1"])))
                # numeric correspondence of the modelled geom types on real scene geometry
                for gi, (typ, gpos, mat, size) in X.items():
                    ok = analytic_check(typ, gpos, mat, size, pnt, r["vec"], r["table"][gi])
                    nanalytic += 1
                    if ok is None:
                        ndegenerate += 1
                    elif not ok:
                        ctx.violation("impl_violation", dict(rc_case, geom=gi, geomtype=typ, pos=gpos, mat=mat, size=size),
                                      expected=analytic(typ, gpos, mat, size, pnt, r["vec"]), observed=r["table"][gi],
                                      theorem="C16_sphere/C16_plane/C16_box", signature={"site": "mju_rayGeom", "geomtype": typ})
                if ri < 2 and (not quick or len(sel_cases) < 12):
                    for gi, (typ, gpos, mat, size) in X.items():
                        if typ not in (0, 2, 6):
                            continue
                        geom_cases.append("(%d, %s, %s, %s, %s, %s, %s)" % (typ, ftuple(gpos), ftuple(mat), ftuple(size), ftuple(pnt), ftuple(r["vec"]),
                                                                             fl(r["table"][gi])))
                        geom_src.append(ci)
            alit = "; ".join("(%d, %d, %s, %s, %d, %s)" % (g["body"], g["mat"] if g["mat"] >= 0 else 0, "true" if g["ga0"] else "false",
                                                           "true" if g["ma0"] else "false", g["weld"], zc(g["group"])) if g["mat"] >= 0 else
                             "(%d, (-1), %s, %s, %d, %s)" % (g["body"], "true" if g["ga0"] else "false", "true" if g["ma0"] else "false", g["weld"], zc(g["group"]))
                             for g in G)
            if len(sel_cases) < (25 if quick else 300):        # the oracle runs on every scene, the Coq selection model on the first ones (cost)
                sel_cases.append("([%s], %s, %s, %s, [%s])" % (alit, zc(bex_eff), "true" if flg else "false", gg_lit(gg), "; ".join(ray_lits)))
                sel_src.append(ci)
            if len(samples) < 3 and len(G) > 5:
                samples.append(dict(case, ngeom=len(G), nrays=len(rays)))
    tm["oracles"] = round(time.time() - t0, 1); t0 = time.time()
    # ---- model evaluation
    doms = ["[%s]%%Z" % "; ".join(zc(v) for v in dset) for dset in ELIM_DOM]
    names = ["bodyid", "bex", "matid", "ga0", "ma0", "flg", "weld", "ggi", "grp"]
    body = ("[if ray_eliminate bodyid bex matid (negb (ga0 =? 0)) (negb (ma0 =? 0)) (negb (flg =? 0)) weld "
            "(if ggi =? 0 then None else if ggi =? 1 then Some [1;0;1;0;1;0] else Some [0;1;1;0;0;1]) grp then 1 else 0]")
    for nm, dl in reversed(list(zip(names, doms))):
        body = "flat_map (fun %s => %s) %s" % (nm, body, dl)
    chk_elim = "fun res => zlist_eqb (%s) res" % body
    chk_quad = ("fun c => match c with (a, b, cc, (x0, x1, r)) => match ray_quad (T:=float) a b cc with (y0, y1, s) => "
                "fclose 0x1p-44 x0 y0 && fclose 0x1p-44 x1 y1 && fclose 0x1p-44 r s end end")
    chk_geom = ("fun c => match c with (typ, pos, mat, size, pnt, vec, x) => "
                "fclose 0x1p-40 (rayGeom (T:=float) pos mat size pnt vec typ) x end")
    elimf = ("(fun (bex : Z) (flg : bool) (gg : option (list Z)) (g : Z * Z * bool * bool * Z * Z) => match g with (body, mat, ga0, ma0, weld, grp) => "
             "ray_eliminate body bex mat ga0 ma0 flg weld gg grp end)")
    chk_row = ("fun c => match c with (gs, bex, flg, gg, d, id) => "
               "let sel := ray_select Z zcmp 0 (-1) (map (fun g => match g with (body, a0, weld, grp, dist) => "
               "(ray_eliminate body bex (-1) a0 false flg weld gg grp, dist) end) gs) in "
               "(fst sel =? d) && (snd sel =? id) end")
    chk_sel = ("fun c => match c with (attrs, bex, flg, gg, rays) => "
               "let el := map (%s bex flg gg) attrs in "
               "forallb (fun r => match r with (keys, d, id) => "
               "let sel := ray_select Z zcmp %s %s (combine el keys) in (fst sel =? d) && (snd sel =? id) end) rays end"
               % (elimf, zc(dkey(0.0)), zc(dkey(-1.0))))
    jobs = [("c16_elim", [F.zlist(elim_res)], None, chk_elim), ("c16_quad", quad_cases, quad_src, chk_quad),
            ("c16_geom", geom_cases, geom_src, chk_geom), ("c16_row", row_cases, row_src, chk_row), ("c16_sel", sel_cases, sel_src, chk_sel)]
    from concurrent.futures import ThreadPoolExecutor
    import os, shutil
    sfx = "_p%d" % os.getpid()      # private evaluation directories: concurrent runs of this check do not clear each other's files
    with ThreadPoolExecutor(max_workers=len(jobs)) as ex:
        results = list(ex.map(lambda j: ctx.coq_eval(j[0] + sfx, IMPORTS, j[1], j[3], shard={"c16_geom": 80 if quick else 200, "c16_sel": 8}.get(j[0], 1000)), jobs))
    tm["coq_eval"] = round(time.time() - t0, 1)
    if not ctx.broken:
        for j in jobs:
            shutil.rmtree(os.path.join(ctx.scratch, "eval_" + j[0] + sfx), ignore_errors=True)
    nfail = 0
    for (name, cases, src, chk), fails in zip(jobs, results):
        nfail += len(fails)
        if name == "c16_elim":
            if fails:
                ctx.violation("correspondence", {"op": "ray_eliminate", "domain": "exhaustive small domain"}, expected="model output (Model/Ray.v)",
                              observed="some of the %d results differ" % len(elim_res), found_input=False, theorem="correspondence c16_elim",
                              note="implementation and Coq model disagree, but the implementation output satisfies the oracle")
            continue
        for i in fails[:3]:
            c = cmds[src[i]]
            ctx.violation("correspondence", {"op": c[0], "args": c[1]}, expected="model output (Model/Ray.v)",
                          observed=(outs[src[i]] if isinstance(outs[src[i]], str) else "scene rays")[:300], found_input=False,
                          theorem="correspondence " + name,
                          note="implementation and Coq model disagree on this input, but the implementation output satisfies the oracle")
    ctx.cov["support"]["timing_s"] = tm
    ctx.cov["evaluations"] = len(cmds) + nrays
    ctx.cov["distinct_nontrivial"] = nhits + nties
    ctx.cov["rule"] = ("ray_eliminate over an exhaustive small domain (%d cases); ray_quad random incl. a below mjMINVAL; mju_rayGeom on random and scene "
                       "plane/sphere/box geoms incl. rays starting inside and axis-parallel rays; rows of spheres with integer distances, ties, behind-origin "
                       "geoms, all filters; generated scenes (primitive geoms, planes, static/mocap bodies, groups -1..6, invisible geoms and materials) with "
                       "random filters and cutoffs. non-trivial = scene ray with a hit, or row with a distance tie" % len(elim_res))
    ctx.cov["samples"] = samples + [{"op": "ROW", "args": c[1]} for c in cmds if c[0] == "ROW"][:2]
    ctx.cov["correspondence_disagreements"] = nfail
    ctx.cov["support"]["scene_rays"] = nrays
    ctx.cov["support"]["scene_rays_with_hit"] = nhits
    ctx.cov["support"]["multiray_agreement_checked"] = nmulti_checked
    ctx.cov["support"]["rows_with_ties"] = nties
    ctx.cov["support"]["analytic_distance_checks"] = nanalytic
    ctx.cov["support"]["analytic_checks_skipped_as_degenerate"] = ndegenerate
    ctx.cov["explanation"] = ("ray_eliminate (%d), ray_quad (%d), mju_rayGeom (%d), sphere rows (%d) and scene selections (%d scenes, %d rays) compared "
                              "with the Coq model; mj_ray / mj_multiRay compared with the brute-force oracle"
                              % (len(elim_res), len(quad_cases), len(geom_cases), len(row_cases), len(sel_cases), nrays))
