"""C36 — equivalent model descriptions compile to equivalent physics."""
import itertools, math
import framework as F

META = {
    "id": "C36", "category": "proof", "design_ref": "DESIGN.md section 4, C36",
    "technique": "Coq proofs over R of a Gallina model of ResolveOrientation / frame composition (Model/Orient.v over Lib/Num) and of default-class inheritance (discrete) + float correspondence of the model with mjs_resolveOrientation and of the default model with compiled attribute arrays + differential oracle through the mjSpec C API (the same physical model built two ways, compiled, simulated 100 steps)",
    "text": "filled in below",
    "note": "filled in below",
    "assumptions": [
        "theorems are about exact real arithmetic; IEEE rounding is outside every theorem",
        "hand-written models Model/Orient.v, Model/Inertia.v (frameaccum); the tie is differential testing on the cases of this run",
        "sin/cos/atan2 of the float runs come from the unverified Lib/FloatFn.v (executable side only)",
        "no XML parser in this build: XML-only spellings and <replicate> are not covered",
    ],
}
META["text"] = (
    "Proved in Coq over the reals about the model Model/Orient.v of ResolveOrientation (= mjs_resolveOrientation, with mjuu_normvec, mjuu_z2quat, mjuu_frame2quat, mjuu_mulquat as written), "
    "for all inputs outside the stated thresholds: axisangle resolves to the unit quaternion whose matrix is Rodrigues' formula for the normalised axis and the angle (degrees converted by /180*pi; "
    "the degree spelling equals the radian spelling of the converted angle; axis below the mjEPS threshold is an error) (C36_orient_axisangle); euler for EVERY sequence over xyzXYZ (first three "
    "characters), radians or degrees, is the ordered product of the coordinate-axis rotations (upper-case factors reversed on the left, lower-case factors in order on the right), a unit quaternion, "
    "and an error exactly for shorter / invalid sequences (C36_orient_euler; the per-step mjuu_normvec is proved to be the identity on unit quaternions, so the user-side loop equals the engine loop "
    "of C24); xyaxes built from the first two matrix columns of a unit quaternion p with any positive scales and any skew of y along x resolves to p or -p (C36_orient_xyaxes, Gram-Schmidt + the four "
    "arms of frame2quat); zaxis resolves to a unit quaternion with zero z component that maps the z axis onto z/|z| (C36_orient_zaxis, including the exact +-z cases; atan2/half-angle identities "
    "proved); an element wrapped in ANY number of nested frames compiles to the pose written out directly (C36_frames, induction over the nesting; C36_frameaccum_assoc) for unit quaternions; "
    "an attribute resolved through ANY chain of nested default classes is the element's own setting, else that of the innermost class that sets it, else the built-in value (C36_defaults, discrete model "
    "of the copy-then-overwrite construction of classes and elements). C36_joint_degree (round 3): in the model of mjCJoint::Compile's unit conversion the limit range of a limited HINGE or BALL joint and the ref/springref of a hinge joint written in degrees "
    "compile to the radian values, and slide / free / unlimited joints are copied unchanged in both units; every joint of every generated model now carries a limit range (tight ranges are reached within the "
    "simulated steps; one-sided and auto-limited ranges included), ref and springref; they are written in the spec's angle unit, explicitly or through a default class, the attached child spec has its OWN angle unit "
    "(attached elements keep their origin's compiler options), and on EVERY compiled spelling jnt_limited, jnt_range, qpos0 and qpos_spring must equal the abstract radian/metre values (1e-12) and are compared with the Coq model. "
    "PARTIAL: C36_fuse_partial proves only the mass-property algebra of fusing (a set of geoms can be replaced by a lumped body at its "
    "centre of mass without changing mass, first moment or the tensor about any point); mjCBody::AccumulateInertia and the re-parenting done by fusestatic are not modelled. Excluded by explicit premises: "
    "the window 0 < | |v| - 1 | <= 1e-14 in which mjuu_normvec leaves a non-unit vector untouched, and z axes within 1e-7 of +-z but not equal to them (treated as +-z by the code: a 1e-7 rad approximation). "
    "TIE on every run: mjs_resolveOrientation is compared with the model evaluated at binary64 on random and boundary inputs of every spelling (all 216 Euler sequences, degrees and radians, invalid "
    "sequences, thresholds) and with an independent rotation-matrix oracle; compiled joint attributes are compared with the Coq default-class model. ORACLE through the mjSpec C API (no theorem about "
    "mj_compile as a whole): random articulated models are written out explicitly and re-spelled five ways -- orientations as axisangle/euler/xyaxes/zaxis with degree and eulerseq options; bodies and "
    "geoms wrapped in 1-3 nested frames; joint and geom attributes through three nested default classes and childclass; a subtree built in a child spec and attached with mjs_attach; fusestatic on/off -- "
    "both are compiled, run through mj_forward and 100 steps, and the poses of all kept bodies must agree to 1e-9 (fusestatic: 1e-6, because the fused inertia goes through mjuu_eig3 whose designed accuracy "
    "is ~1e-6 rad, see C35; measured ~1e-9). NESTED ATTACHMENT (round 5): the attach spelling now splits every model into 1-3 nested child specs along a root-to-leaf chain (A attached into B, then B into C), "
    "each level with its OWN compiler conventions (angle unit, euler sequence); the elements of a level (body / geom orientations as axisangle or euler, hinge and ball ranges, ref, springref, the attachment frames) "
    "are written natively in that level's convention, so the compiled poses, jnt_range, qpos0, qpos_spring and the trajectories equal the written-out model only if every attached element is compiled with the "
    "settings of the spec it was written in. C36_findspec proves, for a discrete model of mjCModel::FindSpec over ANY attachment tree, that the spec found for a compiler is its owner (never an intermediate spec) "
    "and that every compiler in the tree is found; the tie of that model is indirect (through the compiled angles). "
    "RUNTIME EDITS (round 4, oracle only -- mj_setConst is engine code outside the Coq models): for every generated model (a ball joint is put on the last moving body of most of them, so nq > nv with the "
    "quaternion coordinates trailing) the base spec is compiled and simulated 40-150 steps, then real-valued parameters are edited in mjModel (mass and inertia of 1-2 bodies scaled, a body position, a joint's armature "
    "or damping, a spring reference) and mj_setConst is called on the used mjData; the same edits are made in the spec, which is recompiled; every derived constant (body_subtreemass, body_invweight0, dof_M0, "
    "dof_invweight0, qpos0, qpos_spring, the statistics, and the edited parameters) must agree to 1e-9, must be the same after mj_resetData + mj_setConst (independence of the scratch state), and both models continued "
    "from the saved state for 100 steps must give the same poses (1e-9). "
    "NOT covered: XML-only spellings and <replicate> (no XML parser in this build), discardvisual, runtime edits of tendon / actuator / equality parameters (the generated models have none), default classes inside "
    "attached child specs, name prefixing of non-body elements.")
META["note"] = ("Trusted: Coq kernel + standard-library real-number axioms listed in trusted_base; hand-written models; Lib/FloatFn.v (executable side); "
                "harness (driver c36_equiv.cc, python pose algebra of the rewritings).")
TOL = "0x1p-30"


# ------------------------------------------------------------------------------------- numeric helpers (pure python)
def hx(x):
    return float(x).hex()


def unhx(t):
    t = t.strip()
    if t in ("nan", "-nan", "+nan"):
        return math.nan
    if t in ("inf", "+inf"):
        return math.inf
    if t == "-inf":
        return -math.inf
    return float.fromhex(t)


def q2m(q):
    w, x, y, z = q
    return [[w * w + x * x - y * y - z * z, 2 * (x * y - w * z), 2 * (x * z + w * y)],
            [2 * (x * y + w * z), w * w - x * x + y * y - z * z, 2 * (y * z - w * x)],
            [2 * (x * z - w * y), 2 * (y * z + w * x), w * w - x * x - y * y + z * z]]


def mm(A, B):
    return [[sum(A[i][k] * B[k][j] for k in range(3)) for j in range(3)] for i in range(3)]


def mT(A):
    return [[A[j][i] for j in range(3)] for i in range(3)]


def mv(A, v):
    return [sum(A[i][k] * v[k] for k in range(3)) for i in range(3)]


def maxdiff(A, B):
    return max(abs(A[i][j] - B[i][j]) for i in range(3) for j in range(3))


def unit(v):
    n = math.sqrt(sum(x * x for x in v))
    return [x / n for x in v]


def cross(a, b):
    return [a[1] * b[2] - a[2] * b[1], a[2] * b[0] - a[0] * b[2], a[0] * b[1] - a[1] * b[0]]


def elem(axis, a):
    c, s = math.cos(a), math.sin(a)
    if axis == "x":
        return [[1, 0, 0], [0, c, -s], [0, s, c]]
    if axis == "y":
        return [[c, 0, s], [0, 1, 0], [-s, 0, c]]
    return [[c, -s, 0], [s, c, 0], [0, 0, 1]]


def euler_matrix(seq, e):
    """definition of the convention: lower case = rotation about the current (moving) axis, applied on the right;
    upper case = rotation about the fixed axis, applied on the left; in the order of the sequence"""
    R = [[1.0, 0, 0], [0, 1.0, 0], [0, 0, 1.0]]
    for ch, a in zip(seq, e):
        E = elem(ch.lower(), a)
        R = mm(R, E) if ch.islower() else mm(E, R)
    return R


def rodrigues(ax, th):
    ax = unit(ax)
    K = [[0, -ax[2], ax[1]], [ax[2], 0, -ax[0]], [-ax[1], ax[0], 0]]
    KK = mm(K, K)
    return [[(1.0 if i == j else 0.0) + math.sin(th) * K[i][j] + (1 - math.cos(th)) * KK[i][j] for j in range(3)] for i in range(3)]


def m2q(R):
    """Shepperd's method (python side only)"""
    t = R[0][0] + R[1][1] + R[2][2]
    c = [t, R[0][0], R[1][1], R[2][2]]
    k = c.index(max(c))
    if k == 0:
        w = 0.5 * math.sqrt(1 + t)
        q = [w, (R[2][1] - R[1][2]) / (4 * w), (R[0][2] - R[2][0]) / (4 * w), (R[1][0] - R[0][1]) / (4 * w)]
    elif k == 1:
        x = 0.5 * math.sqrt(1 + R[0][0] - R[1][1] - R[2][2])
        q = [(R[2][1] - R[1][2]) / (4 * x), x, (R[0][1] + R[1][0]) / (4 * x), (R[0][2] + R[2][0]) / (4 * x)]
    elif k == 2:
        y = 0.5 * math.sqrt(1 - R[0][0] + R[1][1] - R[2][2])
        q = [(R[0][2] - R[2][0]) / (4 * y), (R[0][1] + R[1][0]) / (4 * y), y, (R[1][2] + R[2][1]) / (4 * y)]
    else:
        z = 0.5 * math.sqrt(1 - R[0][0] - R[1][1] + R[2][2])
        q = [(R[1][0] - R[0][1]) / (4 * z), (R[0][2] + R[2][0]) / (4 * z), (R[1][2] + R[2][1]) / (4 * z), z]
    return unit(q)


def qmul(a, b):
    return [a[0] * b[0] - a[1] * b[1] - a[2] * b[2] - a[3] * b[3], a[0] * b[1] + a[1] * b[0] + a[2] * b[3] - a[3] * b[2],
            a[0] * b[2] - a[1] * b[3] + a[2] * b[0] + a[3] * b[1], a[0] * b[3] + a[1] * b[2] - a[2] * b[1] + a[3] * b[0]]


def qconj(q):
    return [q[0], -q[1], -q[2], -q[3]]


def pose_mul(p1, p2):
    return ([a + b for a, b in zip(p1[0], mv(q2m(p1[1]), p2[0]))], unit(qmul(p1[1], p2[1])))


def pose_inv(p):
    qi = qconj(p[1])
    return ([-x for x in mv(q2m(qi), p[0])], qi)


def rand_unit_quat(rng):
    return unit([rng.gauss(0, 1) for _ in range(4)])


# ------------------------------------------------------------------------------------- part A: mjs_resolveOrientation
def resolve_cases(ctx):
    rng = ctx.rng
    big = ctx.tier != "quick"
    cs = []      # (type, degree, seq, args, expected matrix | "err" | ("zaxis", v))
    n = 40 if not big else 400
    for k in range(n):
        ax = [rng.gauss(0, 1) * rng.choice([1, 1, 5, 0.01]) for _ in range(3)]
        th = rng.choice([rng.uniform(-7, 7), 0.0, math.pi, -math.pi, 1e-9])
        cs.append((1, 0, "-", ax + [th], rodrigues(ax, th)))
        thd = rng.choice([rng.uniform(-400, 400), 90.0, 180.0, -45.0])
        cs.append((1, 1, "-", ax + [thd], rodrigues(ax, thd / 180 * math.pi)))
    cs.append((1, 0, "-", [0.0, 0.0, 0.0, 1.0], "err"))
    cs.append((1, 0, "-", [5e-8, 0.0, 0.0, 1.0], "err"))          # |axis|^2 < mjEPS
    cs.append((1, 0, "-", [2e-7, 0.0, 0.0, 1.0], rodrigues([1, 0, 0], 1.0)))
    cs.append((1, 0, "-", [1 + 1e-15, 0.0, 0.0, 1.0], rodrigues([1, 0, 0], 1.0)))
    # every Euler sequence, radians and degrees
    for seq in itertools.product("xyzXYZ", repeat=3):
        s = "".join(seq)
        e = [rng.uniform(-3.2, 3.2) for _ in range(3)]
        cs.append((4, 0, s, e, euler_matrix(s, e)))
        ed = [rng.uniform(-200, 200) for _ in range(3)]
        if big or rng.random() < 0.35:
            cs.append((4, 1, s, ed, euler_matrix(s, [x / 180 * math.pi for x in ed])))
    for s in ("xyw", "abc", "Xy1", "xy", "x", "-"):
        cs.append((4, 0, s, [0.1, -0.2, 0.3], "err"))
    cs.append((4, 0, "xyzX", [0.1, -0.2, 0.3], euler_matrix("xyz", [0.1, -0.2, 0.3])))      # only three characters are read
    cs.append((4, 1, "zyx", [90.0, 0.0, -90.0], euler_matrix("zyx", [math.pi / 2, 0.0, -math.pi / 2])))
    # xyaxes: non-orthogonal, scaled
    for k in range(n):
        R = q2m(rand_unit_quat(rng)) if k % 7 else q2m(rng.choice([[1.0, 0, 0, 0], [0, 1.0, 0, 0], [0, 0, 1.0, 0], [0, 0, 0, 1.0], [0.5, 0.5, 0.5, 0.5], [0.5, -0.5, -0.5, 0.5]]))
        c0, c1 = [R[i][0] for i in range(3)], [R[i][1] for i in range(3)]
        s, t, kk = 10 ** rng.uniform(-2, 2), 10 ** rng.uniform(-2, 2), rng.choice([0.0, rng.gauss(0, 1)])
        x = [s * a for a in c0]
        y = [t * b + kk * a for a, b in zip(x, c1)]
        # conditioning of the Gram-Schmidt step: |y| / |component of y orthogonal to x|
        cs.append((2, 0, "-", x + y, ("cond", R, math.sqrt(sum(v * v for v in y)) / t)))
    cs.append((2, 0, "-", [1.0, 0, 0, 2.0, 0, 0], "err"))
    cs.append((2, 0, "-", [0.0, 0, 0, 0, 1.0, 0], "err"))
    cs.append((2, 0, "-", [1.0, 0, 0, 0, 0, 0], "err"))
    # zaxis
    for k in range(n):
        v = [rng.gauss(0, 1) * rng.choice([1, 3, 0.01]) for _ in range(3)]
        cs.append((3, 0, "-", v, ("zaxis", v)))
    for v in ([0.0, 0, 1.0], [0.0, 0, -1.0], [0.0, 0, 5.0], [0.0, 0, -0.2], [1.0, 0, 0], [0.0, -1.0, 0], [1e-9, 0, 1.0], [1e-8, -1e-8, -1.0], [1e-3, 0, -1.0], [3e-7, 0, 1.0]):
        cs.append((3, 0, "-", v, ("zaxis", v)))
    cs.append((3, 0, "-", [0.0, 0, 0], "err"))
    cs.append((3, 0, "-", [0.0, 5e-8, 0], "err"))
    return cs


COQ_PRE = r"""
Definition g (l : list float) (i : nat) : float := nth i l 0%float.
Definition oq (o : option (quat float)) : list float := match o with Some q => q2l q | None => [] end.
Definition model (ty : Z) (degree : bool) (seq : string) (a : list float) : list float :=
  if (ty =? 1)%Z then oq (resolveAxisAngle degree (g a 0, g a 1, g a 2) (g a 3))
  else if (ty =? 2)%Z then oq (resolveXYAxes (g a 0, g a 1, g a 2) (g a 3, g a 4, g a 5))
  else if (ty =? 3)%Z then oq (resolveZAxis (g a 0, g a 1, g a 2))
  else oq (resolveEuler degree (list_ascii_of_string seq) (g a 0, g a 1, g a 2)).
Definition chkR (c : Z * bool * string * list float * list float) : bool :=
  let '(ty, degree, seq, a, out) := c in fclose_list 0x1p-30 (model ty degree seq a) out.
(* default classes: attribute tables as association lists *)
Definition tab (l : list (Z * float)) : Z -> option float :=
  fun a => match find (fun p => (fst p =? a)%Z) l with Some p => Some (snd p) | None => None end.
Definition chkD (c : list (Z * float) * list (list (Z * float)) * list (Z * float) * list (Z * float)) : bool :=
  let '(builtin, chain, own, obs) := c in
  let b := fun a => match tab builtin a with Some v => v | None => 0%float end in
  forallb (fun p => fclose 0x1p-40 (resolveElement b (map tab chain) (tab own) (fst p)) (snd p)) obs.
(* joint angle attributes: (degree, type, limited, written [lo; hi; ref; sref], compiled [range0; range1; qpos0; qpos_spring]) *)
Definition chkJ (c : bool * Z * bool * list float * list float) : bool :=
  let '(degree, ty, limited, w, obs) := c in
  let '(r0, r1) := jointRange degree ty limited (g w 0, g w 1) in
  fclose_list 0x1p-40 ([r0; r1] ++ (if ((ty =? 2) || (ty =? 3))%Z then [jointRef degree ty (g w 2); jointRef degree ty (g w 3)] else []))
              ([g obs 0; g obs 1] ++ (if ((ty =? 2) || (ty =? 3))%Z then [g obs 2; g obs 3] else [])).
Definition bcase : Type := (Z * bool * string * list float * list float)%type.
Definition dcase : Type := (list (Z * float) * list (list (Z * float)) * list (Z * float) * list (Z * float))%type.
Definition jcase : Type := (bool * Z * bool * list float * list float)%type.
Definition IR (x : bcase) : bcase + (dcase + jcase) := inl x.
Definition ID (x : dcase) : bcase + (dcase + jcase) := inr (inl x).
Definition IJ (x : jcase) : bcase + (dcase + jcase) := inr (inr x).
"""


def run_resolve(ctx, exe):
    cs = resolve_cases(ctx)
    rc, out, err = ctx.run(exe, "".join("R %d %d %s %s\n" % (ty, dg, seq, " ".join(hx(x) for x in a)) for ty, dg, seq, a, _ in cs))
    lines = out.strip("\n").split("\n")
    if rc != 0 or len(lines) != len(cs):
        ctx.broken.append(("correspondence", "driver c36_equiv failed (R)", "rc=%s %s" % (rc, err[-500:])))
        return [], 0
    lits = []
    names = {1: "axisangle", 2: "xyaxes", 3: "zaxis", 4: "euler"}
    counts = {}
    for (ty, dg, seq, a, exp), l in zip(cs, lines):
        t = l.split()
        o = [unhx(x) for x in t[1:]] if t and t[0] == "ok" else None
        counts[names[ty]] = counts.get(names[ty], 0) + 1
        lits.append("(IR (%d%%Z, %s, \"%s\"%%string, %s, %s))" % (ty, "true" if dg else "false", "" if seq == "-" else seq, F.flist(a), F.flist(o) if o else "[]%float"))
        case = {"type": names[ty], "degree": dg, "sequence": seq, "args": a}
        sig = {"site": "mjs_resolveOrientation", "spelling": names[ty]}
        if exp == "err":
            if o is not None:
                ctx.violation("impl_violation", case, expected="error", observed=o, theorem="C36_orient oracle", signature=sig)
            continue
        if o is None:
            ctx.violation("impl_violation", case, expected="a quaternion", observed=l[:200], theorem="C36_orient oracle", signature=sig)
            continue
        bad = abs(sum(x * x for x in o) - 1) > 1e-12
        R = q2m(o)
        if isinstance(exp, tuple) and exp[0] == "cond":
            bad = bad or maxdiff(R, exp[1]) > 1e-12 * max(1.0, exp[2])
            expd = {"rotation matrix": exp[1], "conditioning": exp[2]}
        elif isinstance(exp, tuple):
            v = unit(exp[1])
            zc = [R[i][2] for i in range(3)]
            tiny = math.hypot(v[0], v[1]) < 1e-7          # below the mjuu_normvec threshold the vector is treated as +-z
            bad = bad or max(abs(x - y) for x, y in zip(zc, v)) > (2e-7 if tiny else 1e-12) or abs(o[3]) > 1e-12 or o[0] < -1e-15
            expd = {"third column": v, "q3": 0}
        else:
            bad = bad or maxdiff(R, exp) > 1e-12
            expd = {"rotation matrix": exp}
        if bad:
            ctx.violation("impl_violation", case, expected=expd, observed={"quat": o, "matrix": R}, theorem="C36_orient (the spelling denotes this rotation)", signature=sig)
    ctx.cov["support"]["resolveOrientation_cases"] = counts
    return lits, len(cs)


# ------------------------------------------------------------------------------------- part B: equivalent models
GTYPE = {"sphere": 2, "capsule": 3, "ellipsoid": 4, "cylinder": 5, "box": 6}
ATTR_G = ["type", "s0", "s1", "s2", "dens"]
ATTR_J = ["damp", "arm", "stiff"]
DEFKEY = {"type": "gtype", "s0": "gs0", "s1": "gs1", "s2": "gs2", "dens": "gdens", "damp": "jdamp", "arm": "jarm", "stiff": "jstiff"}
ATTR_ID = {"gtype": 0, "gs0": 1, "gs1": 2, "gs2": 3, "gdens": 4, "jdamp": 5, "jarm": 6, "jstiff": 7}
BUILTIN = {"gtype": 2.0, "gs0": 0.0, "gs1": 0.0, "gs2": 0.0, "gdens": 1000.0, "jdamp": 0.0, "jarm": 0.0, "jstiff": 0.0}


def rand_orient(rng, degree, seq, allow_z=True):
    o = rand_orient0(rng, degree, seq, allow_z)
    o["deg"], o["seq"] = bool(degree), seq          # the convention (angle unit, euler sequence) the numbers are written in
    return o


def ori_in(o, degree, seq):
    """the orientation written for a spec whose compiler has the given angle unit and euler sequence: native where the spelling can be
    expressed in that convention (axisangle: angle converted to the unit; euler: only if the sequence is the same), else the quaternion"""
    k = o["kind"]
    conv = (math.pi / 180 if o["deg"] else 1.0) * (180 / math.pi if degree else 1.0)
    if k in ("q", "xy", "z"):
        return ori_native(o)
    if k == "aa":
        return "aa " + " ".join(hx(x) for x in o["args"][:3] + [o["args"][3] * conv])
    if k == "eu" and o["seq"] == seq:
        return "eu " + " ".join(hx(x * conv) for x in o["args"])
    return ori_q(o)


def quat_as_axisangle(q, degree):
    n = math.sqrt(sum(x * x for x in q[1:]))
    if n < 1e-9:
        return "q " + " ".join(hx(x) for x in q)
    ang = 2 * math.atan2(n, q[0])
    return "aa " + " ".join(hx(x / n) for x in q[1:]) + " " + hx(ang * 180 / math.pi if degree else ang)


def rand_orient0(rng, degree, seq, allow_z=True):
    """an orientation in a random native spelling and its canonical quaternion (computed independently in python)"""
    k = rng.choice(["q", "aa", "eu", "xy", "z"] if allow_z else ["q", "aa", "eu", "xy"])
    if k == "q":
        q = rand_unit_quat(rng)
        return {"kind": "q", "args": q, "quat": q}
    if k == "aa":
        ax = [rng.gauss(0, 1) for _ in range(3)]
        th = rng.uniform(-3, 3)
        return {"kind": "aa", "args": ax + [th * 180 / math.pi if degree else th], "quat": m2q(rodrigues(ax, th))}
    if k == "eu":
        e = [rng.uniform(-3, 3) for _ in range(3)]
        return {"kind": "eu", "args": [x * 180 / math.pi for x in e] if degree else e, "quat": m2q(euler_matrix(seq, e))}
    if k == "xy":
        R = q2m(rand_unit_quat(rng))
        s, t, kk = rng.uniform(0.2, 3), rng.uniform(0.2, 3), rng.gauss(0, 1)
        x = [s * R[i][0] for i in range(3)]
        y = [t * R[i][1] + kk * x[i] for i in range(3)]
        return {"kind": "xy", "args": x + y, "quat": m2q(R)}
    v = [rng.gauss(0, 1) for _ in range(3)]
    vn = unit(v)
    axis = cross([0, 0, 1.0], vn)
    s = math.sqrt(sum(x * x for x in axis))
    ang = math.atan2(s, vn[2])
    return {"kind": "z", "args": v, "quat": m2q(rodrigues(axis, ang))}


def rand_joint_angles(rng, jt):
    """limit range, reference and spring reference of a joint, in radians (hinge, ball) or metres (slide); lim: 0 false, 1 true, 2 auto"""
    a = {"lim": 0, "lo": 0.0, "hi": 0.0, "ref": 0.0, "sref": 0.0}
    if jt == 0:
        return a
    if rng.random() < 0.7:
        a["lim"] = rng.choice([1, 1, 2])
        tight = rng.random() < 0.6               # tight ranges are reached within the simulated 0.2 s
        if jt == 1:
            a["hi"] = rng.uniform(0.02, 0.06) if tight else rng.uniform(0.3, 2.5)
        else:
            a["lo"] = -rng.uniform(0.01, 0.04) if tight else -rng.uniform(0.2, 2.0)
            a["hi"] = rng.uniform(0.01, 0.04) if tight else rng.uniform(0.2, 2.0)
            if rng.random() < 0.2:
                a["lo"] = 0.0                    # one-sided: the zero end is not converted by the code
    if jt in (2, 3) and rng.random() < 0.4:
        a["ref"] = rng.uniform(a["lo"], a["hi"]) if a["lim"] else rng.uniform(-0.5, 0.5)
    if jt in (2, 3) and rng.random() < 0.4:
        a["sref"] = rng.uniform(-0.3, 0.3)
    return a


ANG_ORDER = ["lim", "lo", "hi", "ref", "sref"]


def angles_written(a, jt, degree):
    """the numbers to write for this joint in a spec with the given angle unit"""
    k = 180 / math.pi
    w = dict(a)
    if degree and jt == 3:
        for f in ("lo", "hi", "ref", "sref"):
            w[f] = a[f] * k
    if degree and jt == 1:
        w["hi"] = a["hi"] * k
    return w


def _path(parents, i):
    """indices from the root down to body i"""
    p = []
    while i != -1:
        p.append(i)
        i = parents[i]
    return p[::-1]


def gen_model(rng):
    degree = rng.random() < 0.5
    seq = "".join(rng.choice("xyzXYZ") for _ in range(3))
    nb = rng.choice([2, 3, 4, 5])
    # default classes: c1 < c2 < c3 (nested), values for a random subset of attributes
    classes = []
    for k in range(3):
        own = {}
        for a in ("gtype", "gs0", "gs1", "gs2", "gdens", "jdamp", "jarm", "jstiff"):
            if rng.random() < 0.45:
                own[a] = float(rng.choice([3, 4, 5, 6])) if a == "gtype" else (rng.uniform(200, 2000) if a == "gdens" else rng.uniform(0.05, 0.3))
        classes.append(own)
    # attachment partition (used by the "attach" spelling): 1-3 nested child specs along one root-to-leaf chain, every level with its
    # OWN compiler conventions (angle unit, euler sequence); the elements of a level are generated in that level's convention
    parents = [-1] + [rng.randrange(i) for i in range(1, nb)]
    deepest = max(range(nb), key=lambda i: (len(_path(parents, i)), rng.random()))
    path = _path(parents, deepest if rng.random() < 0.7 else rng.randrange(nb))
    k_att = min(len(path), rng.choice([1, 2, 2, 3]))
    roots = sorted(rng.sample(path, k_att), key=path.index)
    settings = [(degree, seq)] + [(rng.random() < 0.5, "".join(rng.choice("xyzXYZ") for _ in range(3))) for _ in roots]
    def level_of(i):
        return sum(1 for r in roots if r in _path(parents, i))
    bodies = []
    for i in range(nb):
        parent = parents[i]
        ldeg, lseq = settings[level_of(i)]
        static = i > 0 and rng.random() < 0.25
        jt = None if static else rng.choice([3, 3, 2, 1] + ([0] if parent == -1 else []))
        cls = rng.choice([None, 0, 1, 2])           # class used by the "defaults" spelling for the elements of this body
        def target(attrs, cls):
            """target attribute values: inherit some from the resolved class, randomise the others"""
            res = dict(BUILTIN)
            if cls is not None:
                for c in classes[:cls + 1]:
                    res.update(c)
            out = {}
            for a in attrs:
                k = DEFKEY[a]
                if cls is not None and rng.random() < 0.6:
                    out[a] = res[k]
                else:
                    out[a] = float(rng.choice([2, 3, 4, 5, 6])) if a == "type" else (rng.uniform(200, 2000) if a == "dens" else rng.uniform(0.05, 0.3))
            return out
        g = target(ATTR_G, cls)
        if g["s0"] <= 0 or g["s1"] <= 0 or g["s2"] <= 0:
            g["s0"], g["s1"], g["s2"] = max(g["s0"], 0.07), max(g["s1"], 0.08), max(g["s2"], 0.09)
        if g["dens"] <= 0:
            g["dens"] = 700.0
        b = {"name": "b%d" % i, "parent": parent, "pos": [rng.uniform(-0.4, 0.4) for _ in range(3)], "ori": rand_orient(rng, ldeg, lseq),
             "joint": None, "cls": cls, "level": level_of(i),
             "geom": {"name": "g%d" % i, "pos": [rng.uniform(-0.2, 0.2) for _ in range(3)], "ori": rand_orient(rng, ldeg, lseq), "attr": g}}
        if jt is not None:
            b["joint"] = {"name": "j%d" % i, "type": jt, "axis": unit([rng.gauss(0, 1) for _ in range(3)]), "attr": target(ATTR_J, cls),
                          "ang": rand_joint_angles(rng, jt)}
        bodies.append(b)
    return {"degree": degree, "seq": seq, "classes": classes, "bodies": bodies, "attach": {"roots": roots, "settings": [[bool(d), q] for d, q in settings]}}


def ori_q(o):
    return "q " + " ".join(hx(x) for x in o["quat"])


def ori_native(o):
    return o["kind"] + " " + " ".join(hx(x) for x in o["args"])


def attrs_txt(d, order):
    items = [(k, d[k]) for k in order if k in d]
    return "%d %s" % (len(items), " ".join("%s %s" % (k, hx(v)) for k, v in items))


def render(model, variant, rng, nsteps=100):
    """variant: base | orient | frames | defaults | attach | fuse ; returns (command text, name map implementation->abstract)"""
    cmds = []
    M = model
    native = variant == "orient"
    attach = variant == "attach"
    fuse = 1 if variant == "fuse" else 0
    att = M.get("attach") or {"roots": [], "settings": [[M["degree"], M["seq"]]]}
    roots, settings = att["roots"], att["settings"]
    if attach:
        cmds.append("opt %d %s 0" % (1 if settings[0][0] else 0, settings[0][1]))
    else:
        cmds.append("opt %d %s %d" % ((1 if M["degree"] else 0) if native else 0, M["seq"] if native else "xyz", fuse))
    def O(o, level=0):
        if attach:
            return ori_in(o, settings[level][0], settings[level][1])
        return ori_in(o, M["degree"], M["seq"]) if native else ori_q(o)
    names = {}
    jwritten = {}
    if variant == "defaults":
        for k, own in enumerate(M["classes"]):
            cmds.append("def c%d %s %s" % (k, "-" if k == 0 else "c%d" % (k - 1), attrs_txt(own, ["gtype", "gs0", "gs1", "gs2", "gdens", "jdamp", "jarm", "jstiff"])))
    def prefix(level):
        return "".join("p%d_" % l for l in range(1, level + 1))
    nframe = [0]
    def wrap(cmds_, body_name, pose, depth):
        """create `depth` nested frames in body_name and return (innermost frame name, pose of the element inside them)"""
        total = None
        parent = "-"
        for d in range(depth):
            fp = ([rng.uniform(-0.3, 0.3) for _ in range(3)], rand_unit_quat(rng))
            nm = "f%d" % nframe[0]
            nframe[0] += 1
            cmds_.append("frame %s %s %s %s q %s" % (nm, body_name, parent, " ".join(hx(x) for x in fp[0]), " ".join(hx(x) for x in fp[1])))
            total = fp if total is None else pose_mul(total, fp)
            parent = nm
        inner = pose_mul(pose_inv(total), pose)
        return parent, inner
    main_cmds = cmds
    level_cmds = [cmds] + [["opt %d %s 0" % (1 if d else 0, q)] for d, q in settings[1:]]
    for i, b in enumerate(M["bodies"]):
        lev = b.get("level", 0) if attach else 0
        sub = lev > 0
        C = level_cmds[lev]
        pname = "world" if b["parent"] == -1 else M["bodies"][b["parent"]]["name"]
        bname = b["name"]
        names[prefix(lev) + bname] = bname
        cls_b = "-"
        use_child = variant == "defaults" and b["cls"] is not None and rng.random() < 0.5     # childclass on the body instead of class on the elements
        if use_child:
            cls_b = "c%d" % b["cls"]
        frame, pos, oritxt = "-", b["pos"], O(b["ori"], lev)
        if variant == "frames" and rng.random() < 0.7:
            frame, inner = wrap(C, pname, (b["pos"], b["ori"]["quat"]), rng.choice([1, 2, 3]))
            pos, oritxt = inner[0], "q " + " ".join(hx(x) for x in inner[1])
        if sub and i == roots[lev - 1]:
            # child spec of this level: the body hangs from that spec's world at pose P_c; the frame F in the enclosing spec (level - 1),
            # written as axisangle in THAT spec's angle unit, satisfies F o P_c = P
            Pc = ([rng.uniform(-0.3, 0.3) for _ in range(3)], rand_unit_quat(rng))
            Fp = pose_mul((b["pos"], b["ori"]["quat"]), pose_inv(Pc))
            level_cmds[lev - 1].append("frame fa%d %s - %s %s" % (lev, pname, " ".join(hx(x) for x in Fp[0]), quat_as_axisangle(Fp[1], settings[lev - 1][0])))
            C.append("body %s world - - %s %s" % (bname, " ".join(hx(x) for x in Pc[0]), quat_as_axisangle(Pc[1], settings[lev][0])))
        else:
            C.append("body %s %s %s %s %s %s" % (bname, pname, frame, cls_b, " ".join(hx(x) for x in pos), oritxt))
        # resolved class values for this body's elements (python semantics: the innermost class that sets the attribute wins)
        res = dict(BUILTIN)
        if variant == "defaults" and b["cls"] is not None:
            for c in M["classes"][:b["cls"] + 1]:
                res.update(c)
        def explicit(attr, order):
            if variant != "defaults" or b["cls"] is None:
                return dict(attr)
            return {k: v for k, v in attr.items() if res[DEFKEY[k]] != v or rng.random() < 0.2}
        ecls = "-" if (variant != "defaults" or b["cls"] is None or use_child) else "c%d" % b["cls"]
        if b["joint"]:
            j = b["joint"]
            # attached elements keep the compiler options of the spec they were written in: the child spec has its own angle unit
            deg_here = bool(settings[lev][0]) if attach else bool(native and M["degree"])
            w = angles_written(j["ang"], j["type"], deg_here)
            ja = explicit(j["attr"], ATTR_J)
            jcls = ecls
            via_class = native and ecls == "-" and not sub and rng.random() < 0.5
            if via_class:
                # the angle attributes come from a default class (they are converted when the joint is compiled)
                jcls = "dj%d" % i
                cmds.append("def %s - %s" % (jcls, attrs_txt({"j" + k: float(w[k]) for k in ANG_ORDER}, ["j" + k for k in ANG_ORDER])))
                # the class is a copy of the built-in joint defaults: damping, armature, stiffness stay explicit
            else:
                ja.update({k: float(w[k]) for k in ANG_ORDER})
            jwritten[j["name"]] = (deg_here, w)
            C.append("joint %s %s %s %d %s %s" % (j["name"], bname, jcls, j["type"], " ".join(hx(x) for x in j["axis"]), attrs_txt(ja, ATTR_J + ANG_ORDER)))
        ge = b["geom"]
        gframe, gpos, gori = "-", ge["pos"], O(ge["ori"], lev)
        if variant == "frames" and rng.random() < 0.7:
            gframe, inner = wrap(C, bname, (ge["pos"], ge["ori"]["quat"]), rng.choice([1, 2]))
            gpos, gori = inner[0], "q " + " ".join(hx(x) for x in inner[1])
        C.append("geom %s %s %s %s %s %s %s" % (ge["name"], bname, gframe, ecls, " ".join(hx(x) for x in gpos), gori, attrs_txt(explicit(ge["attr"], ATTR_G), ATTR_G)))
    if attach:
        # innermost first: level k into level k-1, ..., level 1 into the main spec (A into B, then B into C)
        text = " ".join("spec %d %s" % (l, " ".join(c)) for l, c in enumerate(level_cmds))
        for l in range(len(roots), 0, -1):
            text += " attachx %d fa%d %d %s p%d_" % (l - 1, l, l, M["bodies"][roots[l - 1]]["name"], l)
        text += " spec 0"
    else:
        text = " ".join(main_cmds)
    return "M " + text + " qvel 0.4 sim %d" % nsteps, names, jwritten


def parse_model_out(line):
    t = line.split()
    if not t or t[0] != "ok":
        return None
    n = int(t[1])
    k = 2
    bodies = {}
    for _ in range(n):
        bodies[t[k]] = [unhx(x) for x in t[k + 1:k + 15]]
        k += 15
    assert t[k] == "G"
    ng = int(t[k + 1]); k += 2
    geoms = {}
    for _ in range(ng):
        geoms[t[k]] = [float(t[k + 1])] + [unhx(x) for x in t[k + 2:k + 5]]
        k += 5
    assert t[k] == "J"
    nj = int(t[k + 1]); k += 2
    joints = {}
    for _ in range(nj):
        joints[t[k]] = [unhx(x) for x in t[k + 1:k + 4]] + [float(t[k + 4])] + [unhx(x) for x in t[k + 5:k + 9]]
        k += 9
    assert t[k] == "B"
    nbm = int(t[k + 1]); k += 2
    masses = {}
    for _ in range(nbm):
        masses[t[k]] = unhx(t[k + 1])
        k += 2
    return {"bodies": bodies, "geoms": geoms, "joints": joints, "masses": masses}


def pose_err(a, b):
    """max difference of two 7-vectors (pos, quat), the quaternion compared up to sign"""
    ep = max(abs(x - y) for x, y in zip(a[:3], b[:3]))
    eq = min(max(abs(x - y) for x, y in zip(a[3:], b[3:])), max(abs(x + y) for x, y in zip(a[3:], b[3:])))
    return max(ep, eq)


def check_joint_angles(ctx, M, v, o, jw, case, jlits):
    """degrees versus radians, stated on the compiled model: whatever the angle unit of the spec, jnt_limited / jnt_range / qpos0 /
    qpos_spring of every joint are the radian (metre) values of the abstract model; also records the Coq case (written numbers,
    unit, type -> Model/Orient.v jointRange / jointRef)"""
    n = 0
    for b in M["bodies"]:
        j = b["joint"]
        if not j or j["type"] == 0:
            continue
        nm = j["name"] if j["name"] in o["joints"] else next((k for k in o["joints"] if k.endswith("_" + j["name"])), j["name"])
        obs = o["joints"].get(nm)
        a = j["ang"]
        if obs is None:
            continue
        limited = 1 if (a["lim"] == 1 or (a["lim"] == 2 and (a["lo"] != 0 or a["hi"] != 0))) else 0
        want = [float(limited), a["lo"], a["hi"]] + ([a["ref"], a["sref"]] if j["type"] in (2, 3) else [])
        got = obs[3:6] + (obs[6:8] if j["type"] in (2, 3) else [])
        n += 1
        if any(abs(x - y) > 1e-12 * (1 + abs(x)) for x, y in zip(want, got)):
            ctx.violation("impl_violation", case, expected={"joint": nm, "type": j["type"], "limited, range (rad/m), qpos0, qpos_spring": want},
                          observed={"limited, jnt_range, qpos0, qpos_spring": got, "written": jw.get(j["name"])},
                          theorem="C36_joint_degree (angle-valued joint attributes compile to the same radians in both units)",
                          signature={"site": "mjCJoint::Compile", "rewriting": v})
        if j["name"] in jw:
            deg, w = jw[j["name"]]
            jlits.append("(IJ (%s, %d%%Z, %s, %s, %s))" % ("true" if deg else "false", j["type"], "true" if limited else "false",
                                                         F.flist([w["lo"], w["hi"], w["ref"], w["sref"]]), F.flist(obs[4:8])))
    return n


def setconst_request(M, rng, nsteps=100):
    """runtime edit + mj_setConst versus recompiling the edited spec.  Returns (request text, description of the edits)."""
    import copy
    Mb = copy.deepcopy(M)
    moving = [b for b in Mb["bodies"] if b["joint"] is not None]
    # reach nq > nv with the quaternion coordinates in trailing positions: a ball joint on the last moving body (most models)
    if moving and rng.random() < 0.7 and moving[-1]["joint"]["type"] != 0:
        moving[-1]["joint"]["type"] = 1
        moving[-1]["joint"]["ang"] = rand_joint_angles(rng, 1)
    M2 = copy.deepcopy(Mb)
    edits, descr = [], []
    for b in rng.sample(M2["bodies"], k=min(len(M2["bodies"]), rng.choice([1, 2]))):
        sc = rng.uniform(0.4, 2.5)
        b["geom"]["attr"]["dens"] *= sc
        edits.append("rt bmass %s %s" % (b["name"], hx(sc)))
        descr.append({"edit": "scale mass and inertia (density)", "body": b["name"], "factor": sc})
    cand = [b for b in M2["bodies"] if b["joint"] is None or b["joint"]["type"] != 0]
    if cand and rng.random() < 0.8:
        b = rng.choice(cand)
        b["pos"] = [rng.uniform(-0.4, 0.4) for _ in range(3)]
        edits.append("rt bpos %s %s" % (b["name"], " ".join(hx(x) for x in b["pos"])))
        descr.append({"edit": "body pos", "body": b["name"], "pos": b["pos"]})
    mj = [b for b in M2["bodies"] if b["joint"] is not None]
    if mj:
        b = rng.choice(mj)
        k = rng.choice(["arm", "damp"])
        v = rng.uniform(0.01, 0.5)
        b["joint"]["attr"][k] = v
        edits.append("rt %s %s %s" % ("jarm" if k == "arm" else "jdamp", b["joint"]["name"], hx(v)))
        descr.append({"edit": "joint " + k, "joint": b["joint"]["name"], "value": v})
        hs = [b for b in mj if b["joint"]["type"] in (2, 3)]
        if hs and rng.random() < 0.5:
            b = rng.choice(hs)
            v = rng.uniform(-0.3, 0.3)
            b["joint"]["ang"]["sref"] = v
            edits.append("rt jsref %s %s" % (b["joint"]["name"], hx(v)))
            descr.append({"edit": "springref", "joint": b["joint"]["name"], "value": v})
    def cmds_of(model):
        txt, _, _ = render(model, "base", rng, nsteps)
        assert txt.startswith("M ")
        return txt[2:txt.index(" qvel ")]
    presteps = rng.choice([40, 80, 150])
    req = "M spec 0 %s spec 2 %s spec 0 %s presteps %d recompile qvel 0.7 sim %d" % (cmds_of(Mb), cmds_of(M2), " ".join(edits), presteps, nsteps)
    return req, {"edits": descr, "presteps": presteps, "base": Mb, "edited": M2}


def const_labels(nb, nv, nq):
    L = []
    for b in range(1, nb + 1):
        L += ["body_mass[%d]" % b, "body_subtreemass[%d]" % b] + ["body_inertia[%d][%d]" % (b, k) for k in range(3)] + ["body_invweight0[%d][%d]" % (b, k) for k in range(2)] + \
             ["body_pos[%d][%d]" % (b, k) for k in range(3)]
    for v in range(nv):
        L += ["dof_M0[%d]" % v, "dof_invweight0[%d]" % v, "dof_armature[%d]" % v, "dof_damping[%d]" % v]
    for q in range(nq):
        L += ["qpos0[%d]" % q, "qpos_spring[%d]" % q]
    return L + ["stat.meaninertia", "stat.meanmass", "stat.meansize", "stat.extent", "stat.center[0]", "stat.center[1]", "stat.center[2]"]


def run_setconst(ctx, exe, models):
    rng = ctx.rng
    reqs, infos = [], []
    for M in models:
        r, info = setconst_request(M, rng)
        reqs.append(r)
        infos.append(info)
    rc, out, err = ctx.run(exe, "".join(r + "\n" for r in reqs))
    lines = out.strip("\n").split("\n")
    stat = {"requests": len(reqs), "models_with_nq_gt_nv": 0, "worst_constant_error": 0.0, "worst_pose_error": 0.0, "worst_state_dependence": 0.0}
    if rc != 0 or len(lines) != len(reqs):
        ctx.broken.append(("correspondence", "driver c36_equiv failed (setconst)", "rc=%s lines=%d/%d %s" % (rc, len(lines), len(reqs), err[-500:])))
        return stat
    sig = {"site": "mj_setConst", "rewriting": "setconst"}
    for req, info, l in zip(reqs, infos, lines):
        case = {"rewriting": "setconst", "edits": info["edits"], "presteps": info["presteps"], "model": info["base"], "request": req[:6000]}
        t = l.split()
        if not t or t[0] != "ok":
            ctx.violation("impl_violation", case, expected="base and edited spec compile, mj_setConst runs", observed=l[:300], theorem="C36 oracle (mj_setConst)", signature=sig)
            continue
        n = int(t[1])
        A = [unhx(x) for x in t[3:3 + n]]
        B = [unhx(x) for x in t[4 + n:4 + 2 * n]]
        Cc = [unhx(x) for x in t[5 + 2 * n:5 + 3 * n]]
        k = 5 + 3 * n
        assert t[2] == "A" and t[3 + n] == "B" and t[4 + 2 * n] == "C" and t[k] == "P"
        nb = int(t[k + 1]); k += 2
        nq = sum(1 for b in info["base"]["bodies"] if b["joint"]) and None
        # recover nv, nq from the count: n = 10 nb + 4 nv + 2 nq + 7
        jts = [b["joint"]["type"] for b in info["base"]["bodies"] if b["joint"]]
        nv = sum({0: 6, 1: 3, 2: 1, 3: 1}[j] for j in jts)
        nq = sum({0: 7, 1: 4, 2: 1, 3: 1}[j] for j in jts)
        labels = const_labels(nb, nv, nq) if 10 * nb + 4 * nv + 2 * nq + 7 == n else ["constant %d" % i for i in range(n)]
        if nq > nv:
            stat["models_with_nq_gt_nv"] += 1
        def cmp(X, Y, what, key):
            worst, wi = 0.0, -1
            for i, (x, y) in enumerate(zip(X, Y)):
                e = abs(x - y) / (1 + abs(x) + abs(y)) if not (math.isnan(x) and math.isnan(y)) else 0.0
                if e > worst or e != e:
                    worst, wi = (e if e == e else 1.0), i
            stat[key] = max(stat[key], worst)
            if worst > 1e-9:
                bad = [(labels[i], X[i], Y[i]) for i in range(n) if abs(X[i] - Y[i]) > 1e-9 * (1 + abs(X[i]) + abs(Y[i]))][:8]
                ctx.violation("impl_violation", case, expected=what, observed={"(constant, after runtime edit + mj_setConst, reference)": bad},
                              theorem="C36 oracle (runtime edit + mj_setConst = recompiling the edited spec)", signature=sig)
                return True
            return False
        if cmp(A, B, "every derived constant equals that of the recompiled edited spec (relative 1e-9)", "worst_constant_error"):
            continue
        if cmp(A, Cc, "mj_setConst does not depend on the state of the scratch mjData: the same constants after mj_resetData + mj_setConst", "worst_state_dependence"):
            continue
        for _ in range(nb):
            nm = t[k]
            p1 = [unhx(x) for x in t[k + 1:k + 8]]
            p2 = [unhx(x) for x in t[k + 8:k + 15]]
            k += 15
            e = pose_err(p1, p2)
            stat["worst_pose_error"] = max(stat["worst_pose_error"], e)
            if e > 1e-9:
                ctx.violation("impl_violation", case, expected={"body": nm, "pose after the steps, recompiled edited spec": p2}, observed={"pose after the steps, runtime edit + mj_setConst": p1, "error": e},
                              theorem="C36 oracle (runtime edit + mj_setConst = recompiling the edited spec)", signature=sig)
                break
    return stat


VARIANTS = ["orient", "frames", "defaults", "attach", "fuse"]
# fusestatic sends the fused inertia through mjuu_eig3, whose Jacobi loop stops below ~1.4e-6 rad (see C35): the fused body's principal
# axes are only that accurate, so trajectories of the kept bodies agree to ~1e-8 rather than 1e-9; the other rewritings do not touch inertia.
TOL_TRAJ = {"orient": 1e-9, "frames": 1e-9, "defaults": 1e-9, "attach": 1e-9, "fuse": 1e-6}


def run_models(ctx, exe):
    rng = ctx.rng
    big = ctx.tier != "quick"
    nm = 25 if not big else 250
    reqs, meta = [], []
    models = []
    if getattr(ctx, "replay", None) and (ctx.replay.get("case") or {}).get("model"):
        models.append(ctx.replay["case"]["model"])
    while len(models) < nm:
        models.append(gen_model(rng))
    for mi, M in enumerate(models):
        base, bnames, jw = render(M, "base", rng)
        reqs.append(base)
        meta.append((mi, "base", bnames, jw))
        for v in VARIANTS:
            txt, names, jw = render(M, v, rng)
            reqs.append(txt)
            meta.append((mi, v, names, jw))
    rc, out, err = ctx.run(exe, "".join(r + "\n" for r in reqs))
    lines = out.strip("\n").split("\n")
    if rc != 0 or len(lines) != len(reqs):
        ctx.broken.append(("correspondence", "driver c36_equiv failed (M)", "rc=%s lines=%d/%d %s" % (rc, len(lines), len(reqs), err[-500:])))
        return [], [], {}
    worst = {v: 0.0 for v in VARIANTS}
    ncmp = {v: 0 for v in VARIANTS}
    moved = 0
    dlits = []
    jlits = []
    nj_checked = 0
    base_out = None
    for (mi, v, names, jw), req, l in zip(meta, reqs, lines):
        M = models[mi]
        o = parse_model_out(l)
        case = {"rewriting": v, "model": M, "request": req[:4000]}
        sig = {"site": "mj_compile", "rewriting": v}
        if o is not None:
            jerr = check_joint_angles(ctx, M, v, o, jw, case, jlits)
            nj_checked += jerr
        if v == "base":
            base_out = o
            if o is None:
                ctx.violation("impl_violation", case, expected="the written-out model compiles and simulates", observed=l[:300], theorem="C36 oracle", signature=sig)
            else:
                moved += sum(1 for p in o["bodies"].values() if max(abs(x - y) for x, y in zip(p[:7], p[7:])) > 1e-4)
            continue
        if base_out is None:
            continue
        if o is None:
            ctx.violation("impl_violation", case, expected="compiles like the written-out model", observed=l[:300], theorem="C36 oracle", signature=sig)
            continue
        for iname, aname in names.items():
            if iname not in o["bodies"]:
                if v == "fuse":
                    continue            # fused away: not a kept body
                ctx.violation("impl_violation", case, expected="body %s present" % iname, observed=sorted(o["bodies"]), theorem="C36 oracle", signature=sig)
                continue
            a, b = o["bodies"][iname], base_out["bodies"][aname]
            e = max(pose_err(a[:7], b[:7]), pose_err(a[7:], b[7:]))
            worst[v] = max(worst[v], e)
            ncmp[v] += 1
            if e > TOL_TRAJ[v]:
                ctx.violation("impl_violation", case, expected={"body": aname, "pose at step 0 and after the steps (written-out model)": b}, observed={"body": iname, "pose": a, "error": e},
                              theorem={"orient": "C36_orient", "frames": "C36_frames", "defaults": "C36_defaults", "attach": "C36 oracle (attach)", "fuse": "C36 oracle (fusestatic)"}[v], signature=sig)
                break
        if v == "fuse":
            kept = [b["name"] for b in M["bodies"] if b["joint"] is not None]
            missing = [k for k in kept if k not in o["bodies"]]
            if missing:
                ctx.violation("impl_violation", case, expected="moving bodies are kept by fusestatic", observed=missing, theorem="C36 oracle (fusestatic)", signature=sig)
        if v == "defaults":
            # tie of the default-class model: compiled attribute arrays against Model/Orient.v resolveElement
            for b in M["bodies"]:
                chain = M["classes"][:b["cls"] + 1] if b["cls"] is not None else []
                gobs = o["geoms"].get(b["geom"]["name"])
                tgt = b["geom"]["attr"]
                nrel = {2.0: 1, 3.0: 2, 5.0: 2, 4.0: 3, 6.0: 3}[tgt["type"]]
                want = [tgt["type"]] + [tgt["s0"], tgt["s1"], tgt["s2"]][:nrel]
                if gobs is None or gobs[:1 + nrel] != want:
                    ctx.violation("impl_violation", case, expected={"geom": b["geom"]["name"], "type,size": want}, observed=gobs,
                                  theorem="C36_defaults (the innermost class that sets the attribute wins)", signature=sig)
                if b["joint"]:
                    jobs = o["joints"].get(b["joint"]["name"])
                    tj = b["joint"]["attr"]
                    if jobs is None or jobs[:3] != [tj["stiff"], tj["damp"], tj["arm"]]:
                        ctx.violation("impl_violation", case, expected={"joint": b["joint"]["name"], "stiffness,damping,armature": [tj["stiff"], tj["damp"], tj["arm"]]}, observed=jobs,
                                      theorem="C36_defaults (the innermost class that sets the attribute wins)", signature=sig)
                    # Coq case: what the element wrote explicitly is not recorded here; the model is run on the class chain with the
                    # target values that were NOT inherited as own settings
                    res = dict(BUILTIN)
                    for c in chain:
                        res.update(c)
                    own = {DEFKEY[k]: val for k, val in tj.items() if res[DEFKEY[k]] != val}
                    obs = [(ATTR_ID["jstiff"], jobs[0]), (ATTR_ID["jdamp"], jobs[1]), (ATTR_ID["jarm"], jobs[2])] if jobs else []
                    al = lambda d: "[" + "; ".join("(%d%%Z, %s%%float)" % (ATTR_ID[k], F.fhex(val)) for k, val in d.items()) + "]"
                    dlits.append("(ID (%s, [%s], %s, %s))" % (al(BUILTIN), "; ".join(al(c) for c in chain), al(own),
                                                             "[" + "; ".join("(%d%%Z, %s%%float)" % (k, F.fhex(val)) for k, val in obs) + "]"))
    ctx.cov["support"]["trajectory_worst_error"] = worst
    ctx.cov["support"]["trajectory_body_comparisons"] = ncmp
    ctx.cov["support"]["bodies_that_moved_more_than_1e-4"] = moved
    ctx.cov["support"]["joint_angle_attributes_checked"] = nj_checked
    depth = {}
    for Mx in models:
        a = Mx.get("attach") or {"roots": [], "settings": []}
        dk = len(a["roots"])
        depth[str(dk)] = depth.get(str(dk), 0) + 1
    ctx.cov["support"]["attach_nesting_depth_histogram"] = depth
    ctx.cov["support"]["attach_models_with_level_conventions_differing"] = sum(
        1 for Mx in models if len({tuple(x) for x in (Mx.get("attach") or {"settings": []})["settings"]}) > 1)
    sc = run_setconst(ctx, exe, models)
    ctx.cov["support"]["setconst"] = sc
    return dlits, jlits, {"models": len(models), "compiles": len(reqs) + 2 * sc.get("requests", 0)}


def run(ctx):
    ctx.coq_props(allowed_axioms=F.STD_AXIOMS,
                  extra_targets=["Lib/Num.vo", "Lib/NumF.vo", "Lib/FloatFn.vo", "Model/Spatial.vo", "Model/Inertia.vo", "Model/Orient.vo"])
    exe = ctx.driver("c36_equiv", ["c36_equiv.cc"])
    if exe is None:
        return
    rlits, nres = run_resolve(ctx, exe)
    dlits, jlits, mstat = run_models(ctx, exe)
    imports = ("From Coq Require Import ZArith PrimFloat Bool String Ascii.\n"
               "From MJV Require Import Lib.Num Lib.NumF Lib.FloatFn Model.Spatial Model.Inertia Model.Orient.\nOpen Scope nat_scope.\n")
    fails = ctx.coq_eval("c36", imports, rlits + dlits + jlits, "(fun c => match c with inl b => chkR b | inr (inl d) => chkD d | inr (inr j) => chkJ j end)", pre=COQ_PRE, shard=120)
    for i in fails[:4]:
        if i < len(rlits):
            ctx.violation("correspondence", {"case": rlits[i][:600]}, expected="model output (Model/Orient.v at binary64, tolerance 2^-30 scaled)", observed="see case", found_input=False,
                          theorem="correspondence c36 mjs_resolveOrientation", signature={"site": "mjs_resolveOrientation", "class": "model"})
        elif i < len(rlits) + len(dlits):
            ctx.violation("correspondence", {"case": dlits[i - len(rlits)][:600]}, expected="resolveElement (Model/Orient.v) = compiled joint attributes", observed="see case", found_input=False,
                          theorem="correspondence c36 default classes", signature={"site": "defaults", "class": "model"})
        else:
            ctx.violation("correspondence", {"case": jlits[i - len(rlits) - len(dlits)][:600]}, expected="jointRange / jointRef (Model/Orient.v) = compiled jnt_range, qpos0, qpos_spring", observed="see case",
                          found_input=False, theorem="correspondence c36 joint angle attributes", signature={"site": "mjCJoint::Compile", "class": "model"})
    ctx.cov["evaluations"] = nres + mstat.get("compiles", 0)
    ctx.cov["distinct_nontrivial"] = nres + mstat.get("compiles", 0)
    ctx.cov["rule"] = ("mjs_resolveOrientation: random and special inputs of every spelling (all 216 Euler sequences in radians, a sample in degrees, invalid sequences, axis lengths around the mjEPS "
                       "threshold, non-orthogonal scaled xyaxes, z axes at and near +-z) compared with the Coq model at binary64 and with an independent matrix oracle; models: random trees of 2..5 bodies "
                       "(hinge/slide/ball/free joints, static bodies, one geom per body) written out explicitly and re-spelled five ways, compiled and simulated 100 steps; every request counts once")
    ctx.cov["samples"] = [{"resolve_case": rlits[0][:300]}, {"resolve_case": rlits[len(rlits) // 2][:300]}, {"default_case": (dlits[0][:300] if dlits else "")}]
    ctx.cov["correspondence_disagreements"] = len(fails)
    ctx.cov["support"]["models"] = mstat
    ctx.cov["support"]["not_covered"] = "XML-only spellings, <replicate>, discardvisual, runtime edits of tendon/actuator/equality parameters, attach name-prefixing of non-body elements, default classes in attached child specs"
    ctx.cov["explanation"] = ("theorems of Props/C36.v proved; mjs_resolveOrientation tied on %d calls, default-class model on %d joints; %d models compiled in 6 spellings each"
                              % (nres, len(dlits), mstat.get("models", 0)))
