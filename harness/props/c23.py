"""C23 — linear algebra routines agree with their definitions."""
import math
import framework as F

META = {
    "id": "C23", "category": "proof", "design_ref": "DESIGN.md section 4, C23",
    "technique": "Coq proofs over R of Gallina models (Model/Sparse.v, Model/Chol.v, generic over Lib/Num) + exact (index structure) and float (values) correspondence of the same models with the C functions of the working tree, built twice (scalar and -mavx -DmjUSEPLATFORMSIMD) + dense-definition / residual / KKT oracle on every implementation output",
    "text": "filled in below",
    "note": "filled in below",
    "assumptions": [
        "theorems are about exact real arithmetic; IEEE rounding is outside every theorem (models are run at binary64 only for the tie, tolerance 2^-30 scaled; copies and index arrays are compared exactly)",
        "hand-written models Model/Sparse.v, Model/Chol.v: a CSR matrix is (rownnz, rowadr, zipped (colind,value) array), dense and band matrices are lists of rows (the C arrays are the row-major concatenations); tie is differential testing on the cases of this run",
        "the AVX paths are exercised only if the compiler accepts -mavx and the CPU executes AVX (checked at run time; reported as broken otherwise)",
    ],
}

META["text"] = (
    "Proved in Coq over the reals, for all inputs, about the models Model/Sparse.v and Model/Chol.v (Props/C23.v): "
    "(1) sparse2dense(dense2sparse M) = M for every matrix (any shape, zero rows), the result is well formed, compressed and stores no zero; "
    "(2) mju_mulMatVecSparse and mju_mulMatTVecSparse equal the dense product with sparse2dense(S) for EVERY pattern with distinct in-range columns per row and EVERY layout "
    "(empty rows, gaps between rows, rows stored in any order); the 4-lane accumulation order of mju_dotSparse / mju_dot (identical in the scalar and the AVX code) is part of the model and proved equal to the plain sum; "
    "(3) transposeSparse: dense(transpose S) = dense(S)', result well formed with sorted rows and compressed layout (the model is the functional definition of the result arrays; the C cursor-scatter is tied, not proved); "
    "(4) mju_combineSparse (backward in-place merge) of two sorted sparse vectors = a*dst + b*src on the sorted union pattern; "
    "(5) mju_compressSparse modelled IN PLACE on the shared array: for every layout with rows in address order (gaps allowed) no entry is overwritten before it is read, every result row is the filtered input row, "
    "the layout is compressed, the return value is the total, and densely only entries with |x| <= minval (minval >= 0) become zero (nothing changes for minval < 0); "
    "(6) gather/scatter are mutually inverse on distinct in-range indices; "
    "(7) band-dense format: band2Dense(dense2Band M) keeps exactly the stored part of M and dense2Band(band2Dense B) reproduces the storage including unused slots; symmetrize flag; "
    "(8) mju_sym2dense is the full symmetric matrix of a lower-triangular CSR matrix and mju_mulSymVecSparse multiplies by it (these are mj_fullM / mj_mulM); "
    "(8b) supernodes: the model's rowsuper vector (definition: number of following rows with an identical column list) is proved to mark exactly the maximal runs of identical rows (C23_supernodes); mju_superSparse and the res_rowsuper output of "
    "mju_transposeSparse (sorted input rows) are tied to it exactly, and checked by the oracle, on random and on structured patterns (block-diagonal with single-row and multi-row blocks, staircases, banded, runs of identical rows, empty rows), "
    "and their consumers mju_mulMatVecSparse(rowsuper) and mju_sqrMatTDSparse are checked against the dense products on the same patterns; "
    "(9) mju_cholSolve: for every n, every storage L with non-zero diagonal (strict upper triangle ignored) and every b, (low L)(low L)' x = b; "
    "(10) mju_cholFactor (in-place, column by column): for every n and every A, if mindiag > 0 and no column is rank-deficient (returned rank = n) then the lower triangle holds L with positive diagonal and L L' = A on the lower triangle, "
    "the strict upper triangle is untouched, and cholSolve(cholFactor A, b) solves (symmetric A) x = b (C23_chol_factor, C23_chol_factor_solve); nothing is proved about the rank-deficient branch. "
    "NOT proved (models exist and are tied, oracle on outputs): mju_cholUpdate, mju_combineSparseCount = length of the merge, mju_addToMatSparse/addToSymSparse, mju_dotSparse2, the rank-deficient branch of mju_cholFactor. "
    "NOT modelled (oracle only, on implementation outputs of both builds): the dense blas kernels against their definitions, mju_sqrMatTDSparse(_row/Count) against dense M' diag M and the structural pattern, "
    "mju_cholFactorBand/cholSolveBand/bandMulMatVec, mju_factorLU/solveLU/LU6/solve3, mju_cholFactorSparse/cholSolveSparse/cholUpdateSparse, "
    "mju_factorLUSparse/solveLUSparse (residuals and reconstructions, 1e-9 / 1e-8), mju_eig3 (orthonormal to 1e-9, quaternion consistent, eigenvalues sorted, reconstruction only to ~1e-6 relative: the Jacobi loop stops at rotation angles below ~1.4e-6 by design; "
    "the measured maximum is recorded in the evidence), mju_QCQP/QCQP2/QCQP3 and mju_boxQP (KKT conditions with the routines' own termination tolerances 1e-8 / 1e-7, not 1e-9). "
    "(8c) mju_addToSparseMat: every packed row of the result = dst row + scl*src row on the sorted union pattern, the same pattern for every row (C23_addToSparseMat_row); tied with nrow 1..6 and identical / nested / disjoint / empty index vectors; "
    "mju_addChains, mj_mergeSorted, mju_combineSparseInc, mju_addToSclSparseInc are modelled by their definitions and tied (no theorem). "
    "Oracle only as well: mju_copySparse/zeroSparse, mju_blockDiag/mju_blockDiagSparse (permuted block-diagonal matrices assembled from known blocks), mju_sparseMap, mju_lower2SymMap, mju_cholFactorSymbolic + mju_cholFactorNumeric "
    "(L'L = H, pattern = elimination fill-in computed independently, LT/LT_map consistent, stack and heap scratch). Not covered at all: NaN/Inf inputs. "
    "Tie: every model function is evaluated at binary64 inside Coq on the inputs of this run and compared with the C function of the working tree compiled twice from the same sources "
    "(scalar build; AVX build with -mavx -DmjUSEPLATFORMSIMD which selects engine_util_*_avx.h): index arrays, return values and copied values exactly, computed values with a scaled tolerance of 2^-30.")
META["note"] = ("Trusted: Coq kernel + the standard-library real-number axioms listed in trusted_base; hand-written models Model/Sparse.v and Model/Chol.v (arrays as lists, (colind,value) zipped, dense/band matrices as lists of rows); "
                "correspondence harness (gcc, driver c23_linalg.c which #includes engine_util_blas.c, engine_util_sparse.c, engine_util_solve.c of the working tree); the Python oracle (dense definitions written independently).")

TOL = "0x1p-30"
OTOL = 1e-9
EIG_TOL = 1e-5
STATS = {}


# ------------------------------------------------------------------------------------- helpers
def hx(x):
    return float(x).hex()


def unhx(t):
    t = t.strip()
    if t in ("nan", "-nan", "+nan"):
        return math.nan
    if t in ("inf", "+inf"):
        return math.inf
    if t == "-inf":
        return -math.inf
    return float.fromhex(t)


def close(x, y, tol=OTOL, scale=None):
    if x is None or y is None or len(x) != len(y):
        return False
    sc = scale if scale is not None else 1.0 + max([abs(c) for c in x] + [abs(c) for c in y] + [0.0])
    for a, b in zip(x, y):
        if a != a or b != b:
            if not (a != a and b != b):
                return False
            continue
        if abs(a - b) > tol * sc:
            return False
    return True


def matvec(M, v):
    return [sum(a * b for a, b in zip(r, v)) for r in M]


def matmul(A, B):
    Bt = list(zip(*B)) if B and B[0] else []
    return [[sum(a * b for a, b in zip(r, c)) for c in Bt] for r in A]


def transp(M, nr, nc):
    return [[M[r][c] for r in range(nr)] for c in range(nc)]


def rowsof(flat, nr, nc):
    return [list(flat[r * nc:(r + 1) * nc]) for r in range(nr)]


def flat(M):
    return [x for r in M for x in r]


def pychol(A):
    """textbook Cholesky (independent of the C code); None if not PD."""
    n = len(A)
    L = [[0.0] * n for _ in range(n)]
    for i in range(n):
        for j in range(i + 1):
            s = A[i][j] - sum(L[i][k] * L[j][k] for k in range(j))
            if i == j:
                if s <= 0:
                    return None
                L[i][i] = math.sqrt(s)
            else:
                L[i][j] = s / L[j][j]
    return L


def rvals(rng, n, kind=None):
    kind = kind or rng.choice(["u", "u", "i", "z"])
    if kind == "u":
        return [rng.uniform(-3, 3) for _ in range(n)]
    if kind == "i":
        return [float(rng.randrange(-4, 5)) for _ in range(n)]
    return [rng.choice([0.0, 0.0, -0.0, rng.uniform(-2, 2), 1.0]) for _ in range(n)]


def rnz(rng):
    x = rng.uniform(0.2, 3)
    return x if rng.random() < 0.5 else -x


def rspd(rng, n, lo=0.5):
    """random SPD matrix, moderately conditioned."""
    B = [[rng.uniform(-1, 1) for _ in range(n)] for _ in range(n)]
    A = matmul(B, transp(B, n, n))
    for i in range(n):
        A[i][i] += lo + rng.random()
    return A


class CSR:
    """rows: list of lists of (col, val).  layout: arrays with optional gaps / permuted row storage."""

    def __init__(self, rows, nc, rng=None, layout="compact", room=None):
        self.nr, self.nc = len(rows), nc
        self.rows = [list(r) for r in rows]
        nr = self.nr
        order = list(range(nr))
        if layout == "permuted" and rng:
            rng.shuffle(order)
        adr = 0
        self.rowadr = [0] * nr
        col, val = [], []
        for r in order:
            if layout != "compact" and rng and rng.random() < 0.5:
                g = rng.randrange(0, 4)
                col += [0] * g
                val += [77.0 + k for k in range(g)]
                adr += g
            self.rowadr[r] = adr
            col += [c for c, _ in self.rows[r]]
            val += [v for _, v in self.rows[r]]
            adr += len(self.rows[r])
            if room is not None:
                g = room[r] - len(self.rows[r])
                col += [0] * g
                val += [55.0 + k for k in range(g)]
                adr += g
        if layout != "compact" and rng:
            g = rng.randrange(0, 3)
            col += [0] * g
            val += [33.0] * g
        self.rownnz = [len(r) for r in self.rows]
        self.colind, self.val = col, val

    def text(self):
        return "%d %d %d %s %s %s %s" % (self.nr, self.nc, len(self.colind), " ".join(map(str, self.rownnz)),
                                         " ".join(map(str, self.rowadr)), " ".join(map(str, self.colind)),
                                         " ".join(hx(v) for v in self.val))

    def dense(self):
        M = [[0.0] * self.nc for _ in range(self.nr)]
        for r, es in enumerate(self.rows):
            for c, v in es:
                M[r][c] = v
        return M

    def coq(self):
        return "(mk %s %s %s %s)" % (F.zlist(self.rownnz), F.zlist(self.rowadr), F.zlist(self.colind), F.flist(self.val))

    def summary(self):
        return {"nr": self.nr, "nc": self.nc, "rownnz": self.rownnz, "rowadr": self.rowadr, "colind": self.colind,
                "val": [hx(v) for v in self.val]}


def rand_pattern(rng, nr, nc, dens=None, sort=True, lower=False, diag_last=False, maxrow=None):
    dens = rng.choice([0.0, 0.15, 0.4, 0.8, 1.0]) if dens is None else dens
    rows = []
    for r in range(nr):
        hi = min(nc, r) if lower else nc
        cols = [c for c in range(hi) if rng.random() < dens]
        if maxrow is not None:
            cols = cols[:maxrow]
        if not sort:
            rng.shuffle(cols)
        if diag_last:
            cols.append(r)
        rows.append(cols)
    return rows


def rand_csr(rng, nr, nc, layout=None, sort=None, kind=None, **kw):
    sort = rng.random() < 0.6 if sort is None else sort
    pat = rand_pattern(rng, nr, nc, sort=sort, **kw)
    kind = kind or rng.choice(["u", "i", "z"])
    rows = [[(c, v) for c, v in zip(cols, rvals(rng, len(cols), kind))] for cols in pat]
    layout = layout or rng.choice(["compact", "gaps", "permuted"])
    return CSR(rows, nc, rng, layout)


def parse_out(line, schema):
    """schema: string of 'i'/'d' per '|'-terminated group (extra groups allowed when schema ends with '*')."""
    if line.strip() in ("ERR", ""):
        return None
    groups = [g.split() for g in line.split("|")[:-1]]
    out = []
    for k, g in enumerate(groups):
        t = schema[k] if k < len(schema) else schema[-1]
        out.append([int(x) for x in g] if t == "i" else [unhx(x) for x in g])
    return out


def rows_from_arrays(nr, rownnz, rowadr, colind, val):
    return [[(colind[rowadr[r] + k], val[rowadr[r] + k]) for k in range(rownnz[r])] for r in range(nr)]


def superdef(rows):
    """rowsuper by definition: number of following rows with the same column list (chained)."""
    n = len(rows)
    sup = [0] * n
    for r in range(n - 2, -1, -1):
        if [c for c, _ in rows[r]] == [c for c, _ in rows[r + 1]]:
            sup[r] = 1 + sup[r + 1]
    return sup


# ------------------------------------------------------------------------------------- case classes
class Case:
    schema = "d"
    coq_op = None     # integer op code of the Coq checker, None = oracle only

    def __init__(self, **kw):
        self.__dict__.update(kw)

    def summary(self):
        d = {}
        for k, v in self.__dict__.items():
            if isinstance(v, CSR):
                d[k] = v.summary()
            elif isinstance(v, list) and v and isinstance(v[0], float):
                d[k] = [hx(x) for x in v[:64]]
            elif isinstance(v, list) and v and isinstance(v[0], list):
                d[k] = [[hx(x) if isinstance(x, float) else x for x in r] for r in v[:16]]
            elif k not in ("out",):
                d[k] = v
        d["op"] = self.op
        return d


def fl(xs):
    return " ".join(hx(x) for x in xs)


def il(xs):
    return " ".join(str(x) for x in xs)


NOS = "(mk [] [] [] [])"


def cq(op, S, ints, flts, outi, outf):
    """Coq literal of one case: C op csr int-args float-args int-outputs float-outputs."""
    return "C %d %s %s %s %s %s" % (op, S, "[" + "; ".join(F.zlist(x) for x in ints) + "]",
                                    "[" + "; ".join(F.flist(x) for x in flts) + "]",
                                    "[" + "; ".join(F.zlist(x) for x in outi) + "]",
                                    "[" + "; ".join(F.flist(x) for x in outf) + "]")


def ents(ind, val):
    return "(mk [] [] %s %s)" % (F.zlist(ind), F.flist(val))


class Dot(Case):
    op, schema, coq_op = "dot", "d", 16

    def line(self):
        return "dot %d %s %s" % (len(self.a), fl(self.a), fl(self.b))

    def oracle(self, o):
        e = math.fsum(x * y for x, y in zip(self.a, self.b))
        sc = 1 + sum(abs(x * y) for x, y in zip(self.a, self.b))
        return [] if close(o[0], [e], scale=sc) else [("mju_dot = sum a_i b_i", e, o[0])]

    def coq(self, o):
        return cq(16, NOS, [], [self.a, self.b], [], [o[0]])


class VecOp(Case):
    op, schema, coq_op = "vecop", "d", 17

    def line(self):
        return "vecop %d %s %s %s" % (len(self.a), hx(self.s), fl(self.a), fl(self.b))

    def expected(self):
        a, b, s = self.a, self.b, self.s
        return [[x * s for x in a], [x + y for x, y in zip(a, b)], [x - y for x, y in zip(a, b)], [x + y for x, y in zip(a, b)],
                [x - y for x, y in zip(a, b)], [x + y * s for x, y in zip(a, b)], [x + y * s for x, y in zip(a, b)],
                [x * s + y * 0.5 for x, y in zip(a, b)]]

    def oracle(self, o):
        names = ["mju_scl", "mju_add", "mju_sub", "mju_addTo", "mju_subFrom", "mju_addToScl", "mju_addScl", "mju_addToSclScl"]
        return [(n + " matches its definition", e, g) for n, e, g in zip(names, self.expected(), o) if not close(g, e, 1e-13)]

    def coq(self, o):
        return cq(17, NOS, [], [[self.s], self.a, self.b], [], o)


class MatOp(Case):
    op, schema = "matop", "d"

    def line(self):
        return "matop %d %d %d %s %s %s %s %s %s" % (self.nr, self.nc, self.c2, fl(flat(self.A)), fl(flat(self.B)), fl(flat(self.C)),
                                                    fl(self.v), fl(self.w), fl(self.dg))

    def oracle(self, o):
        nr, nc, c2, A, B, C = self.nr, self.nc, self.c2, self.A, self.B, self.C
        At = transp(A, nr, nc)
        AB = matmul(A, B) if nc else [[0.0] * c2 for _ in range(nr)]
        AtC = matmul(At, C) if nr else [[0.0] * c2 for _ in range(nc)]
        DA = [[self.dg[r] * x for x in A[r]] for r in range(nr)]
        exp = [("mju_mulMatVec", matvec(A, self.v)), ("mju_mulMatTVec", matvec(At, self.w) if nr else [0.0] * nc),
               ("mju_mulMatMat", flat(AB)), ("mju_mulMatTMat", flat(AtC)), ("mju_mulMatMatT", flat(AB)), ("mju_transpose", flat(At)),
               ("mju_sqrMatTD(diag)", flat(matmul(At, DA)) if nr else [0.0] * (nc * nc)),
               ("mju_sqrMatTD(NULL)", flat(matmul(At, A)) if nr else [0.0] * (nc * nc)),
               ("mju_mulVecMatVec", [sum(self.w[i] * x for i, x in enumerate(matvec(A, self.v)))] if nr == nc else [0.0])]
        f = []
        for (n, e), g in zip(exp, o):
            if not close(g, e, 1e-11):
                f.append((n + " equals the dense definition", e, g))
        return f


class D2S(Case):
    op, schema, coq_op = "d2s", "iiiid", 0

    def line(self):
        return "d2s %d %d %d %s" % (self.nr, self.nc, self.cap, fl(flat(self.M)))

    def oracle(self, o):
        tot = sum(1 for x in flat(self.M) if x != 0)
        want = 1 if (self.cap <= 0 or tot > self.cap) else 0
        if o[0] != [want]:
            return [("mju_dense2sparse return value", want, o[0])]
        if want:
            return []
        nnz, adr, col, val = o[1], o[2], o[3], o[4]
        f = []
        if adr != [sum(nnz[:r]) for r in range(self.nr)] or len(col) != tot:
            f.append(("dense2sparse: compressed rowadr", [sum(nnz[:r]) for r in range(self.nr)], adr))
            return f
        rows = rows_from_arrays(self.nr, nnz, adr, col, val)
        back = CSR(rows, self.nc).dense() if all(0 <= c < self.nc for r in rows for c, _ in r) else None
        same = back is not None and all(hx(a) == hx(b) or (a == 0 and b == 0) for a, b in zip(flat(back), flat(self.M)))
        if not same or any(v == 0 for v in val) or any([c for c, _ in r] != sorted(set(c for c, _ in r)) for r in rows):
            f.append(("sparse2dense(dense2sparse(M)) = M, no stored zeros, sorted columns", flat(self.M), [nnz, adr, col, val]))
        return f

    def coq(self, o):
        if o[0] != [0]:
            return cq(0, NOS, [[self.nr, self.nc, self.cap]], [flat(self.M)], [o[0], [], [], []], [[]])
        return cq(0, NOS, [[self.nr, self.nc, self.cap]], [flat(self.M)], [o[0], o[1], o[2], o[3]], [o[4]])


class S2D(Case):
    op, schema, coq_op = "s2d", "d", 1

    def line(self):
        return "s2d " + self.S.text()

    def oracle(self, o):
        e = flat(self.S.dense())
        return [] if [hx(x) for x in e] == [hx(x) for x in o[0]] else [("mju_sparse2dense equals the pattern's dense matrix", e, o[0])]

    def coq(self, o):
        return cq(1, self.S.coq(), [[self.S.nr, self.S.nc]], [], [], [o[0]])


class MulMatVec(Case):
    op, schema, coq_op = "mulMatVec", "d", 2

    def line(self):
        return "mulMatVec %s %s %d" % (self.S.text(), fl(self.v), self.sup)

    def oracle(self, o):
        e = matvec(self.S.dense(), self.v)
        return [] if close(o[0], e, 1e-11) else [("mju_mulMatVecSparse = dense(M) v", e, o[0])]

    def coq(self, o):
        return cq(2, self.S.coq(), [[self.S.nr, self.S.nc]], [self.v], [], [o[0]])


class MulMatTVec(Case):
    op, schema, coq_op = "mulMatTVec", "d", 3

    def line(self):
        return "mulMatTVec %s %s" % (self.S.text(), fl(self.v))

    def oracle(self, o):
        D = self.S.dense()
        e = matvec(transp(D, self.S.nr, self.S.nc), self.v) if self.S.nr else [0.0] * self.S.nc
        return [] if close(o[0], e, 1e-11) else [("mju_mulMatTVecSparse = dense(M)' v", e, o[0])]

    def coq(self, o):
        return cq(3, self.S.coq(), [[self.S.nr, self.S.nc]], [self.v], [], [o[0]])


class DotSparse(Case):
    op, schema, coq_op = "dotSparse", "d", 4

    def line(self):
        return "dotSparse %d %d %s %s %s" % (len(self.ind), len(self.vec), fl(self.val), il(self.ind), fl(self.vec))

    def oracle(self, o):
        e = math.fsum(x * self.vec[i] for x, i in zip(self.val, self.ind))
        return [] if close(o[0], [e], 1e-11, 1 + sum(abs(x * self.vec[i]) for x, i in zip(self.val, self.ind))) else [("mju_dotSparse = sum val_k vec[ind_k]", e, o[0])]

    def coq(self, o):
        return cq(4, ents(self.ind, self.val), [], [self.vec], [], [o[0]])


class DotSparseX3(Case):
    op, schema = "dotSparseX3", "d"

    def line(self):
        return "dotSparseX3 %d %d %s %s %s %s %s" % (len(self.ind), len(self.vec), fl(self.v0), fl(self.v1), fl(self.v2), il(self.ind), fl(self.vec))

    def oracle(self, o):
        e = [math.fsum(x * self.vec[i] for x, i in zip(v, self.ind)) for v in (self.v0, self.v1, self.v2)]
        return [] if close(o[0], e, 1e-11) else [("mju_dotSparseX3 = three sparse dot products", e, o[0])]


class DotSparse2(Case):
    op, schema, coq_op = "dotSparse2", "d", 18

    def line(self):
        return "dotSparse2 %d %d %s %s %s %s" % (len(self.i1), len(self.i2), fl(self.v1), il(self.i1), fl(self.v2), il(self.i2))

    def oracle(self, o):
        d2 = dict(zip(self.i2, self.v2))
        e = math.fsum(x * d2.get(i, 0.0) for x, i in zip(self.v1, self.i1))
        return [] if close(o[0], [e], 1e-11) else [("mju_dotSparse2 = dot of the dense vectors", e, o[0])]

    def coq(self, o):
        return cq(18, ents(self.i1, self.v1), [self.i2], [self.v2], [], [o[0]])


class Combine(Case):
    op, schema, coq_op = "combine", "iiid", 5

    def line(self):
        return "combine %s %s %d %d %s %s %s %s" % (hx(self.a), hx(self.b), len(self.di), len(self.si), il(self.di), fl(self.dv), il(self.si), fl(self.sv))

    def oracle(self, o):
        dd, ss = dict(zip(self.di, self.dv)), dict(zip(self.si, self.sv))
        idx = sorted(set(self.di) | set(self.si))
        e = [(self.a * dd[i] if i in dd else 0.0) + (self.b * ss[i] if i in ss else 0.0) for i in idx]
        f = []
        if o[0] != [len(idx)] or o[1] != [len(idx)] or o[2] != idx:
            f.append(("mju_combineSparse(Count): pattern is the sorted union", idx, [o[0], o[1], o[2]]))
        elif not close(o[3], e, 1e-12):
            f.append(("mju_combineSparse = a*dst + b*src on the union pattern", e, o[3]))
        return f

    def coq(self, o):
        return cq(5, ents(self.di, self.dv), [self.si], [self.sv, [self.a, self.b]], [o[0] + o[1], o[2]], [o[3]])


class AddToMat(Case):
    op, schema, coq_op = "addToMat", "iiid", 6

    def line(self):
        return "addToMat %s %s" % (self.D.text(), self.M.text())

    def oracle(self, o):
        nnz, adr, col, val = o
        f = []
        if adr != self.D.rowadr:
            return [("mju_addToMatSparse leaves rowadr alone", self.D.rowadr, adr)]
        for r in range(self.D.nr):
            dd, ss = dict(self.D.rows[r]), dict(self.M.rows[r])
            idx = sorted(set(dd) | set(ss))
            e = [dd.get(i, 0.0) + ss.get(i, 0.0) for i in idx]
            got = [(col[adr[r] + k], val[adr[r] + k]) for k in range(nnz[r])] if nnz[r] <= len(idx) + 2 else None
            if got is None or [c for c, _ in got] != idx or not close([v for _, v in got], e, 1e-12):
                f.append(("mju_addToMatSparse row %d = dst + M on the union pattern" % r, list(zip(idx, e)), got))
                break
        return f

    def coq(self, o):
        return cq(6, self.D.coq(), [[self.D.nr], self.M.rownnz, self.M.rowadr, self.M.colind, o[0], o[1], o[2]], [self.M.val, o[3]], [], [])


class Compress(Case):
    op, schema, coq_op = "compress", "iiiid", 7

    def line(self):
        return "compress %s %s" % (self.S.text(), hx(self.minval))

    def oracle(self, o):
        ret, nnz, adr, col, val = o
        rm = self.minval >= 0
        exp_rows = [[(c, v) for c, v in r if not (rm and abs(v) <= self.minval)] for r in self.S.rows]
        f = []
        eadr = [sum(len(x) for x in exp_rows[:r]) for r in range(self.S.nr)]
        if nnz != [len(x) for x in exp_rows] or adr != eadr or ret != [sum(len(x) for x in exp_rows)]:
            return [("mju_compressSparse: rownnz/rowadr compact, return = total nnz", [[len(x) for x in exp_rows], eadr], [ret, nnz, adr])]
        got = rows_from_arrays(self.S.nr, nnz, adr, col, val)
        if [[(c, hx(v)) for c, v in r] for r in got] != [[(c, hx(v)) for c, v in r] for r in exp_rows]:
            f.append(("mju_compressSparse keeps exactly the entries with |v| > minval, in order", exp_rows, got))
        return f

    def coq(self, o):
        return cq(7, self.S.coq(), [[self.S.nr]], [[self.minval]], [o[0], o[1], o[2], o[3]], [o[4]])


class Transpose(Case):
    op, schema, coq_op = "transpose", "iiidi", 8

    def line(self):
        return "transpose " + self.S.text()

    def oracle(self, o):
        S = self.S
        if S.nr == 0 or S.nc == 0:
            return []
        nnz, adr, col, val, sup = o
        D = S.dense()
        f = []
        eadr = [sum(nnz[:c]) for c in range(S.nc)]
        if adr != eadr or len(col) != sum(S.rownnz) or any(not (0 <= r < S.nr) for r in col):
            return [("mju_transposeSparse: compact layout with all entries", eadr, [nnz, adr, col])]
        rows = rows_from_arrays(S.nc, nnz, adr, col, val)
        back = CSR(rows, S.nr).dense()
        if [hx(x) for x in flat(back)] != [hx(x) for x in flat(transp(D, S.nr, S.nc))] or \
                any([c for c, _ in r] != sorted(set(c for c, _ in r)) for r in rows):
            f.append(("dense(transposeSparse(M)) = dense(M)' with sorted rows", flat(transp(D, S.nr, S.nc)), rows))
        else:
            # rowsuper: chained counts; a flagged row must have the same column list as the next one (always);
            # every such pair is flagged when the input rows have sorted columns (the detection relies on it)
            want = superdef(rows)
            chain_ok = all(sup[i] == ((1 + sup[i + 1]) if sup[i] > 0 else 0) for i in range(S.nc - 1)) and sup[-1] == 0
            sound = all(want[i] > 0 for i in range(S.nc) if sup[i] > 0)
            insorted = all([c for c, _ in r] == sorted(c for c, _ in r) for r in S.rows)
            if not chain_ok or not sound or (insorted and sup != want):
                f.append(("transposeSparse rowsuper: flagged rows share their column list (and all such rows are flagged for sorted input)", want, sup))
        return f

    def coq(self, o):
        if self.S.nr == 0 or self.S.nc == 0:
            return None
        insorted = all([c for c, _ in r] == sorted(c for c, _ in r) for r in self.S.rows)
        return cq(8, self.S.coq(), [[self.S.nr, self.S.nc, 1 if insorted else 0]], [], [o[0], o[1], o[2], o[4]], [o[3]])


class Super(Case):
    op, schema, coq_op = "super", "i", 19

    def coq(self, o):
        return cq(19, self.S.coq(), [[self.S.nr]], [], [o[0]], [])

    def line(self):
        return "super " + self.S.text()

    def oracle(self, o):
        return [] if o[0] == superdef(self.S.rows) else [("mju_superSparse = supernode definition", superdef(self.S.rows), o[0])]


class SymOps(Case):
    op, schema, coq_op = "symops", "d", 9

    def line(self):
        return "symops %s %s %s" % (self.S.text(), fl(self.v), fl(flat(self.M0)))

    def oracle(self, o):
        n = self.S.nr
        Lo = self.S.dense()
        Full = [[Lo[i][j] if j <= i else Lo[j][i] for j in range(n)] for i in range(n)]
        f = []
        if not close(o[0], matvec(Full, self.v), 1e-11):
            f.append(("mju_mulSymVecSparse = full symmetric matrix times v", matvec(Full, self.v), o[0]))
        if [hx(x) for x in o[1]] != [hx(x) for x in flat(Full)]:
            f.append(("mju_sym2dense = full symmetric matrix", flat(Full), o[1]))
        if not close(o[2], [a + b for a, b in zip(flat(self.M0), flat(Full))], 1e-12):
            f.append(("mju_addToSymSparse(upper) adds the full symmetric matrix", None, o[2]))
        if not close(o[3], [a + b for a, b in zip(flat(self.M0), flat(Lo))], 1e-12):
            f.append(("mju_addToSymSparse(lower) adds the lower triangle", None, o[3]))
        return f

    def coq(self, o):
        return cq(9, self.S.coq(), [[self.S.nr]], [self.v, flat(self.M0)], [], [o[0], o[1], o[2], o[3]])


class Gather(Case):
    op, schema, coq_op = "gather", "d", 10

    def line(self):
        return "gather %d %d %s %s %s" % (len(self.ind), len(self.vec), il(self.ind), fl(self.vec), fl(self.res0))

    def oracle(self, o):
        f = []
        e = [self.vec[i] if i >= 0 else 0.0 for i in self.ind]
        if [hx(x) for x in o[0]] != [hx(x) for x in e]:
            f.append(("mju_gatherMasked", e, o[0]))
        if all(i >= 0 for i in self.ind):
            if [hx(x) for x in o[1]] != [hx(x) for x in e]:
                f.append(("mju_gather: res[i] = vec[ind[i]]", e, o[1]))
            r = list(self.res0)
            for k, i in enumerate(self.ind):
                r[i] = self.vec[k]
            if [hx(x) for x in o[2]] != [hx(x) for x in r]:
                f.append(("mju_scatter: res[ind[i]] = vec[i]", r, o[2]))
        return f

    def coq(self, o):
        return cq(10, NOS, [self.ind], [self.vec, self.res0], [], o)


class SqrSparse(Case):
    op, schema = "sqrSparse", "ddiiii"

    def line(self):
        return "sqrSparse %s %s %d" % (self.S.text(), fl(self.dg), self.usediag)

    def oracle(self, o):
        S = self.S
        D = S.dense()
        Dt = transp(D, S.nr, S.nc)
        DA = [[(self.dg[r] if self.usediag else 1.0) * x for x in D[r]] for r in range(S.nr)]
        E = matmul(Dt, DA)
        Elow = [[E[i][j] if j <= i else 0.0 for j in range(S.nc)] for i in range(S.nc)]
        f = []
        if not close(o[0], flat(E), 1e-11):
            f.append(("mju_sqrMatTDSparse (diagind given) = dense M' diag M", flat(E), o[0]))
        if not close(o[1], flat(Elow), 1e-11):
            f.append(("mju_sqrMatTDSparse_row (no diagind) = lower triangle of dense M' diag M", flat(Elow), o[1]))
        # structural pattern of M'M
        P = [[any(any(c == i for c, _ in r) and any(c == j for c, _ in r) for r in S.rows) for j in range(S.nc)] for i in range(S.nc)]
        lo = [sum(1 for j in range(i + 1) if P[i][j]) for i in range(S.nc)]
        fu = [sum(1 for j in range(S.nc) if P[i][j]) for i in range(S.nc)]
        if o[2] != [sum(lo)] or o[3] != lo or o[4] != [sum(fu)] or o[5] != fu:
            f.append(("mju_sqrMatTDSparseCount = structural nnz of M'M (lower / full)", [lo, fu], o[2:6]))
        return f


class AddToSparseMat(Case):
    op, schema, coq_op = "addToSparseMat", "iid", 20

    def line(self):
        return "addToSparseMat %d %d %s %d %d %s %s %s %s" % (self.n, self.nrow, hx(self.scl), len(self.di), len(self.si), il(self.di), il(self.si),
                                                             fl(flat(self.D)), fl(flat(self.Sv)))

    def oracle(self, o):
        idx = sorted(set(self.di) | set(self.si))
        f = []
        if o[0] != [len(idx)] or o[1] != idx:
            return [("mju_addToSparseMat: pattern is the sorted union", idx, o[:2])]
        got = rowsof(o[2], self.nrow, len(idx)) if idx else [[] for _ in range(self.nrow)]
        for k in range(self.nrow):
            dd, ss = dict(zip(self.di, self.D[k])), dict(zip(self.si, self.Sv[k]))
            e = [dd.get(i, 0.0) + self.scl * ss.get(i, 0.0) for i in idx]
            if not close(got[k], e, 1e-12):
                f.append(("mju_addToSparseMat: packed row %d = dst row + scl * src row" % k, e, got[k]))
                break
        return f

    def coq(self, o):
        return cq(20, NOS, [[self.nrow], self.di, self.si, o[0], o[1]], [[self.scl], flat(self.D), flat(self.Sv), o[2]], [], [])


class AddChains(Case):
    op, schema, coq_op = "addChains", "iiii", 21

    def line(self):
        return "addChains %d %d %d %s %s" % (self.n, len(self.c1), len(self.c2), il(self.c1), il(self.c2))

    def oracle(self, o):
        idx = sorted(set(self.c1) | set(self.c2))
        f = []
        if o[0] != [len(idx)] or o[1] != idx:
            f.append(("mju_addChains = sorted union of the chains", idx, o[:2]))
        if o[2] != [len(idx)] or o[3] != idx:
            f.append(("mj_mergeSorted = sorted union of the chains", idx, o[2:4]))
        return f

    def coq(self, o):
        return cq(21, NOS, [self.c1, self.c2, o[1], o[3]], [], [], [])


class Inc(Case):
    op, schema, coq_op = "inc", "dd", 22

    def line(self):
        return "inc %s %s %d %d %d %s %s %s %s" % (hx(self.a), hx(self.b), self.n, len(self.di), len(self.si), il(self.di), fl(self.dv), il(self.si), fl(self.sv))

    def oracle(self, o):
        ss = dict(zip(self.si, self.sv))
        e1 = [self.a * v + self.b * ss.get(i, 0.0) for i, v in zip(self.di, self.dv)]
        e2 = [v + self.b * ss.get(i, 0.0) for i, v in zip(self.di, self.dv)]
        f = []
        if not close(o[0], e1, 1e-12):
            f.append(("mju_combineSparseInc: dst = a*dst + b*src at the indices of dst", e1, o[0]))
        if not close(o[1], e2, 1e-12):
            f.append(("mju_addToSclSparseInc: dst += scl*src at the indices of dst", e2, o[1]))
        return f

    def coq(self, o):
        return cq(22, ents(self.di, self.dv), [self.si], [self.sv, [self.a, self.b], o[0], o[1]], [], [])


class CopyZero(Case):
    op, schema = "copyzero", "dd"

    def line(self):
        return "copyzero %s %s %d %s" % (self.S.text(), fl(self.init), len(self.sel), il(self.sel))

    def oracle(self, o):
        e1, e2 = list(self.init), list(self.init)
        for r in self.sel:
            for k in range(self.S.rownnz[r]):
                e1[self.S.rowadr[r] + k] = self.S.val[self.S.rowadr[r] + k]
                e2[self.S.rowadr[r] + k] = 0.0
        f = []
        if [hx(x) for x in o[0]] != [hx(x) for x in e1]:
            f.append(("mju_copySparse copies exactly the selected rows", e1, o[0]))
        if [hx(x) for x in o[1]] != [hx(x) for x in e2]:
            f.append(("mju_zeroSparse clears exactly the selected rows", e2, o[1]))
        return f


class BlockDiag(Case):
    op, schema = "blockdiag", "d"

    def line(self):
        return "blockdiag %d %d %d %d %s %s %s %s %s %s %s" % (self.nr, self.nc, len(self.bnr), self.ncres, il(self.pr), il(self.pc), il(self.bnr), il(self.bnc),
                                                               il(self.br), il(self.bc), fl(flat(self.M)))

    def oracle(self, o):
        # definition: block b, local (r, c) -> mat[perm_r[block_r[b] + r]][perm_c[block_c[b] + c]], packed with row stride block_nc[b]
        e = [-77.0] * (self.ncres * self.nr)
        for b in range(len(self.bnr)):
            for r in range(self.bnr[b]):
                for c in range(self.bnc[b]):
                    e[self.ncres * self.br[b] + r * self.bnc[b] + c] = self.M[self.pr[self.br[b] + r]][self.pc[self.bc[b] + c]]
        f = [] if [hx(x) for x in e] == [hx(x) for x in o[0]] else [("mju_blockDiag extracts the permuted diagonal blocks", e, o[0])]
        # independent: the blocks are the ones the matrix was assembled from
        for b in range(len(self.bnr)):
            got = [o[0][self.ncres * self.br[b] + r * self.bnc[b] + c] for r in range(self.bnr[b]) for c in range(self.bnc[b])]
            if [hx(x) for x in got] != [hx(x) for x in flat(self.blocks[b])]:
                f.append(("mju_blockDiag recovers block %d of the permuted block-diagonal matrix" % b, flat(self.blocks[b]), got))
                break
        return f


class BlockDiagSp(Case):
    op, schema = "blockdiagsp", "iiidd"

    def line(self):
        return "blockdiagsp %s %d %s %s %s %s" % (self.S.text(), len(self.br), il(self.pr), il(self.pcf), il(self.br), il(self.bc))

    def oracle(self, o):
        nnz, adr, col, val, val2 = o
        nr = self.S.nr
        f = []
        if adr != [sum(nnz[:r]) for r in range(nr)]:
            return [("mju_blockDiagSparse: compact rowadr", None, adr)]
        rows = rows_from_arrays(nr, nnz, adr, col, val)
        k = 0
        for b, B in enumerate(self.blocks):
            for r, brow in enumerate(B):
                want = sorted((c, v) for c, v in enumerate(brow) if v != 0)
                if sorted(rows[k]) != want:
                    f.append(("mju_blockDiagSparse: row %d of block %d with block-local columns" % (r, b), want, rows[k]))
                    return f
                k += 1
        if [hx(2 * x) for x in val] != [hx(x) for x in val2]:
            f.append(("mju_blockDiagSparse: second value array follows the first", None, None))
        return f


class Maps(Case):
    op, schema = "maps", "i"

    def line(self):
        return "maps %s %s" % (self.R.text(), self.S.text())

    def oracle(self, o):
        mp = o[0]
        for r in range(self.R.nr):
            for k in range(self.R.rownnz[r]):
                a = self.R.rowadr[r] + k
                j = mp[a]
                if not (self.S.rowadr[r] <= j < self.S.rowadr[r] + self.S.rownnz[r]) or self.S.colind[j] != self.R.colind[a]:
                    return [("mju_sparseMap: map[k] is the address in src of the same (row, column)", (r, self.R.colind[a]), j)]
        return []


class SymMap(Case):
    op, schema = "symmap", "i"

    def line(self):
        return "symmap %s %s" % (self.R.text(), self.S.text())

    def oracle(self, o):
        mp = o[0]
        low = {(r, c): self.S.rowadr[r] + k for r in range(self.S.nr) for k, c in enumerate(self.S.colind[self.S.rowadr[r]:self.S.rowadr[r] + self.S.rownnz[r]]) if c <= r}
        for r in range(self.R.nr):
            for k in range(self.R.rownnz[r]):
                a = self.R.rowadr[r] + k
                c = self.R.colind[a]
                want = low.get((max(r, c), min(r, c)), -1)
                if mp[a] != want:
                    return [("mju_lower2SymMap: map of res(r,c) is the address of src(max,min) or -1", {"rc": (r, c), "want": want}, mp[a])]
        return []


class CholSym(Case):
    op, schema = "cholsym", "iiiiidii"

    def line(self):
        return "cholsym %s %s" % (self.S.text(), hx(1e-12))

    def oracle(self, o):
        n = self.S.nr
        H = self.S.dense()
        L = rowsof(o[5], n, n)
        f = []
        if o[0] != [n]:
            f.append(("mju_cholFactorNumeric: full rank on a positive definite matrix", n, o[0]))
        if any(L[i][j] != 0 for i in range(n) for j in range(i + 1, n)):
            f.append(("mju_cholFactorSymbolic/Numeric: factor is lower triangular", None, None))
        LtL = matmul(transp(L, n, n), L)
        if not close(flat(LtL), flat(H), OTOL):
            f.append(("mju_cholFactorSymbolic/Numeric: L' L = H (fill-in included)", flat(H), flat(LtL)))
        # symbolic pattern = pattern of the exact reverse Cholesky factor (elimination fill-in), computed independently
        pat = [[H[i][j] != 0 for j in range(n)] for i in range(n)]
        for r in range(n - 1, -1, -1):
            cs = [c for c in range(r) if pat[r][c]]
            for x in cs:
                for y in cs:
                    pat[x][y] = True
        want_nnz = [1 + sum(1 for c in range(r) if pat[r][c]) for r in range(n)]
        if o[2] != want_nnz or o[1] != [sum(want_nnz)]:
            f.append(("mju_cholFactorSymbolic: row counts = elimination fill-in pattern", want_nnz, o[2]))
        if o[6] != [1]:
            f.append(("mju_cholFactorSymbolic: LT structure / LT_map is the transpose of L", 1, o[6]))
        return f


def band_split(flatb, nt, nb, nd):
    ns = nt - nd
    return rowsof(flatb[:ns * nb], ns, nb), rowsof(flatb[ns * nb:], nd, nt)


def band_dense(flatb, nt, nb, nd, sym):
    B, Dn = band_split(flatb, nt, nb, nd)
    ns = nt - nd
    M = [[0.0] * nt for _ in range(nt)]
    for i in range(ns):
        for j in range(max(0, i - nb + 1), i + 1):
            M[i][j] = B[i][nb - 1 - (i - j)]
    for i in range(ns, nt):
        for j in range(i + 1):
            M[i][j] = Dn[i - ns][j]
    if sym:
        for i in range(nt):
            for j in range(i + 1, nt):
                M[i][j] = M[j][i]
    return M


def band_used(nt, nb, nd):
    """flat addresses of the used slots of the band-dense storage."""
    ns = nt - nd
    used = {}
    for i in range(ns):
        for j in range(max(0, i - nb + 1), i + 1):
            used[i * nb + nb - 1 - (i - j)] = (i, j)
    for i in range(ns, nt):
        for j in range(i + 1):
            used[ns * nb + (i - ns) * nt + j] = (i, j)
    return used


class Band2Dense(Case):
    op, schema, coq_op = "band2dense", "di", 11

    def line(self):
        return "band2dense %d %d %d %d %s" % (self.nt, self.nb, self.nd, self.sym, fl(self.band))

    def oracle(self, o):
        e = flat(band_dense(self.band, self.nt, self.nb, self.nd, self.sym))
        f = []
        if [hx(x) for x in e] != [hx(x) for x in o[0]]:
            f.append(("mju_band2Dense = matrix denoted by the band-dense storage", e, o[0]))
        used = band_used(self.nt, self.nb, self.nd)
        dg = [a for i in range(self.nt) for a, (r, c) in used.items() if r == i and c == i]
        if o[1] != dg:
            f.append(("mju_bandDiag = address of the diagonal entry", dg, o[1]))
        return f

    def coq(self, o):
        return cq(11, NOS, [[self.nt, self.nb, self.nd, self.sym], o[1]], [self.band], [], [o[0]])


class Dense2Band(Case):
    op, schema, coq_op = "dense2band", "d", 12

    def line(self):
        return "dense2band %d %d %d %s %s" % (self.nt, self.nb, self.nd, fl(flat(self.M)), fl(self.init))

    def oracle(self, o):
        used = band_used(self.nt, self.nb, self.nd)
        e = [self.M[used[a][0]][used[a][1]] if a in used else self.init[a] for a in range(len(self.init))]
        return [] if [hx(x) for x in e] == [hx(x) for x in o[0]] else [("mju_dense2Band stores the band/dense-row entries and nothing else", e, o[0])]

    def coq(self, o):
        return cq(12, NOS, [[self.nt, self.nb, self.nd]], [flat(self.M), self.init], [], [o[0]])


class BandChol(Case):
    op, schema = "bandchol", "d"

    def line(self):
        return "bandchol %d %d %d %d %s %s %s %s" % (self.nt, self.nb, self.nd, self.nv, hx(self.dadd), hx(self.dmul), fl(self.band), fl(self.vec))

    def oracle(self, o):
        nt, nb, nd = self.nt, self.nb, self.nd
        Ms = band_dense(self.band, nt, nb, nd, 1)
        Ml = band_dense(self.band, nt, nb, nd, 0)
        f = []
        vs = rowsof(self.vec, self.nv, nt)
        if not close(o[0], flat([matvec(Ms, v) for v in vs]), 1e-11):
            f.append(("mju_bandMulMatVec(sym) = symmetric matrix times vectors", flat([matvec(Ms, v) for v in vs]), o[0]))
        if not close(o[1], flat([matvec(Ml, v) for v in vs]), 1e-11):
            f.append(("mju_bandMulMatVec(lower) = lower-triangular matrix times vectors", flat([matvec(Ml, v) for v in vs]), o[1]))
        A = [[Ms[i][j] + ((self.dadd + self.dmul * Ms[i][i]) if i == j else 0.0) for j in range(nt)] for i in range(nt)]
        Lref = pychol(A)
        if Lref is None or min(Lref[i][i] for i in range(nt)) < 1e-3:
            return f           # (near) rank-deficient input: nothing is claimed
        if o[2][0] <= 0 or len(o) < 5:
            f.append(("mju_cholFactorBand succeeds on a positive definite matrix", "mindiag > 0", o[2]))
            return f
        L = band_dense(o[3], nt, nb, nd, 0)
        LLt = matmul(L, transp(L, nt, nt))
        if not close(flat(LLt), flat(A), OTOL):
            f.append(("mju_cholFactorBand: L L' = A + diag(diagadd + diagmul*A_ii)", flat(A), flat(LLt)))
        if not close([o[2][0]], [min(L[i][i] ** 2 for i in range(nt))], 1e-9):
            f.append(("mju_cholFactorBand returns the smallest pivot", min(L[i][i] ** 2 for i in range(nt)), o[2]))
        x = o[4]
        if not close(matvec(A, x), vs[0], 1e-8):
            f.append(("mju_cholSolveBand solves (A + D) x = b", vs[0], matvec(A, x)))
        return f


class CholFactor(Case):
    op, schema, coq_op = "cholFactor", "id", 13

    def line(self):
        return "cholFactor %d %s %s" % (self.n, hx(self.mindiag), fl(flat(self.A)))

    def oracle(self, o):
        n = self.n
        if not self.spd:
            return []
        L = rowsof(o[1], n, n)
        Ll = [[L[i][j] if j <= i else 0.0 for j in range(n)] for i in range(n)]
        LLt = matmul(Ll, transp(Ll, n, n))
        f = []
        if o[0] != [n]:
            f.append(("mju_cholFactor: full rank on a positive definite matrix", n, o[0]))
        if not close(flat([[LLt[i][j] for j in range(i + 1)] for i in range(n)]), flat([[self.A[i][j] for j in range(i + 1)] for i in range(n)]), OTOL):
            f.append(("mju_cholFactor: L L' = A", flat(self.A), flat(LLt)))
        if any(hx(L[i][j]) != hx(self.A[i][j]) for i in range(n) for j in range(i + 1, n)):
            f.append(("mju_cholFactor leaves the strict upper triangle alone", None, None))
        return f

    def coq(self, o):
        return cq(13, NOS, [[self.n]], [[self.mindiag], flat(self.A)], [o[0]], [o[1]])


class CholSolve(Case):
    op, schema, coq_op = "cholSolve", "d", 14

    def line(self):
        return "cholSolve %d %d %s %s" % (self.n, self.alias, fl(flat(self.L)), fl(self.b))

    def oracle(self, o):
        n = self.n
        Ll = [[self.L[i][j] if j <= i else 0.0 for j in range(n)] for i in range(n)]
        A = matmul(Ll, transp(Ll, n, n))
        return [] if close(matvec(A, o[0]), self.b, 1e-8) else [("mju_cholSolve: L L' x = b", self.b, matvec(A, o[0]))]

    def coq(self, o):
        return cq(14, NOS, [[self.n]], [flat(self.L), self.b], [], [o[0]])


class CholUpdate(Case):
    op, schema, coq_op = "cholUpdate", "idd", 15

    def line(self):
        return "cholUpdate %d %d %s %s" % (self.n, self.plus, fl(flat(self.L)), fl(self.x))

    def oracle(self, o):
        n = self.n
        Ll = [[self.L[i][j] if j <= i else 0.0 for j in range(n)] for i in range(n)]
        A = matmul(Ll, transp(Ll, n, n))
        sg = 1.0 if self.plus else -1.0
        A2 = [[A[i][j] + sg * self.x[i] * self.x[j] for j in range(n)] for i in range(n)]
        ref = pychol(A2)
        if ref is None or min(ref[i][i] for i in range(n)) < 1e-2:
            return []
        N = rowsof(o[1], n, n)
        Nl = [[N[i][j] if j <= i else 0.0 for j in range(n)] for i in range(n)]
        f = []
        if o[0] != [n]:
            f.append(("mju_cholUpdate: full rank when the updated matrix is positive definite", n, o[0]))
        if not close(flat(Nl), flat(ref), 1e-8):
            f.append(("mju_cholUpdate equals re-factorisation of L L' +- x x'", flat(ref), flat(Nl)))
        return f

    def coq(self, o):
        return cq(15, NOS, [[self.n, self.plus]], [flat(self.L), self.x], [o[0]], [o[1], o[2]])


class LU(Case):
    op, schema = "LU", "iidd"

    def line(self):
        return "LU %d %s %s" % (self.n, fl(flat(self.A)), fl(self.b))

    def oracle(self, o):
        n = self.n
        if o[0] != [1]:
            return [("mju_factorLU succeeds on a well-conditioned matrix", 1, o[0])]
        piv, LUm, x = o[1], rowsof(o[2], n, n), o[3]
        PA = [list(r) for r in self.A]
        for k in range(n):
            if not (k <= piv[k] < n):
                return [("mju_factorLU pivot in range", None, piv)]
            PA[k], PA[piv[k]] = PA[piv[k]], PA[k]
        Lm = [[LUm[i][j] if j < i else (1.0 if i == j else 0.0) for j in range(n)] for i in range(n)]
        Um = [[LUm[i][j] if j >= i else 0.0 for j in range(n)] for i in range(n)]
        f = []
        if not close(flat(matmul(Lm, Um)), flat(PA), OTOL):
            f.append(("mju_factorLU: L U = P A", flat(PA), flat(matmul(Lm, Um))))
        if any(abs(LUm[i][j]) > 1 + 1e-12 for i in range(n) for j in range(i)):
            f.append(("mju_factorLU: partial pivoting (|multipliers| <= 1)", None, None))
        if not close(matvec(self.A, x), self.b, 1e-8):
            f.append(("mju_solveLU: A x = b", self.b, matvec(self.A, x)))
        return f


class LU6(Case):
    op, schema = "LU6", "iiiddid"

    def line(self):
        return "LU6 %s %s" % (fl(flat(self.A)), fl(self.b))

    def oracle(self, o):
        if o[0] != [1] or o[1] != [1]:
            return [("mju_factorLU6 succeeds on a well-conditioned matrix", 1, o[:2])]
        f = []
        if o[2] != o[5] or [hx(x) for x in o[3]] != [hx(x) for x in o[6]]:
            f.append(("mju_factorLU6 is identical to mju_factorLU with n = 6", [o[5], o[6]], [o[2], o[3]]))
        if not close(matvec(self.A, o[4]), self.b, 1e-8):
            f.append(("mju_solveLU6: A x = b", self.b, matvec(self.A, o[4])))
        return f


class Solve3(Case):
    op, schema = "solve3", "d"

    def line(self):
        return "solve3 %s %s" % (fl(flat(self.A)), fl(self.b))

    def oracle(self, o):
        return [] if close(matvec(self.A, o[0]), self.b, 1e-8) else [("mju_solve3: A x = b", self.b, matvec(self.A, o[0]))]


class CholSparse(Case):
    op, schema = "cholSparse", "idd"

    def line(self):
        return "cholSparse %s %s %s" % (self.S.text(), hx(1e-10), fl(self.b))

    def oracle(self, o):
        n = self.S.nr
        Lo = self.S.dense()
        A = [[Lo[i][j] if j <= i else Lo[j][i] for j in range(n)] for i in range(n)]
        L = rowsof(o[1], n, n)
        f = []
        if o[0] != [n]:
            f.append(("mju_cholFactorSparse: full rank on a positive definite matrix", n, o[0]))
        if any(L[i][j] != 0 for i in range(n) for j in range(i + 1, n)):
            f.append(("mju_cholFactorSparse: factor is lower triangular", None, None))
        LtL = matmul(transp(L, n, n), L)
        if not close(flat(LtL), flat(A), OTOL):
            f.append(("mju_cholFactorSparse: L' L = A", flat(A), flat(LtL)))
        if not close(matvec(A, o[2]), self.b, 1e-8):
            f.append(("mju_cholSolveSparse: A x = b", self.b, matvec(A, o[2])))
        return f


class CholUpdateSparse(Case):
    op, schema = "cholUpdateSparse", "id"

    def line(self):
        return "cholUpdateSparse %s %d %d %s %s" % (self.S.text(), self.plus, len(self.xi), il(self.xi), fl(self.xv))

    def oracle(self, o):
        n = self.S.nr
        L = self.S.dense()
        A = matmul(transp(L, n, n), L)
        x = [0.0] * n
        for i, v in zip(self.xi, self.xv):
            x[i] = v
        sg = 1.0 if self.plus else -1.0
        A2 = [[A[i][j] + sg * x[i] * x[j] for j in range(n)] for i in range(n)]
        # reverse-order factor L' L = A2  <=> ordinary Cholesky of the index-reversed matrix
        R = [[A2[n - 1 - i][n - 1 - j] for j in range(n)] for i in range(n)]
        ref = pychol(R)
        if ref is None or min(ref[i][i] for i in range(n)) < 1e-2:
            return []
        N = rowsof(o[1], n, n)
        NtN = matmul(transp(N, n, n), N)
        f = []
        if o[0] != [n]:
            f.append(("mju_cholUpdateSparse: full rank when the updated matrix is positive definite", n, o[0]))
        if not close(flat(NtN), flat(A2), 1e-8) or any(N[i][j] != 0 for i in range(n) for j in range(i + 1, n)):
            f.append(("mju_cholUpdateSparse: L' L = old L' L +- x x'", flat(A2), flat(NtN)))
        return f


class LUSparse(Case):
    op, schema = "LUSparse", "dd"

    def line(self):
        return "LUSparse %s %d %s %s" % (self.S.text(), self.useindex, il(self.index), fl(self.b))

    def oracle(self, o):
        A = self.S.dense()
        x = o[1]
        if self.useindex:
            rows = self.index
            # only the rows/columns in index are solved; the matrix is block-closed on them
            e = [self.b[i] for i in rows]
            g = [matvec(A, x)[i] for i in rows]
        else:
            e, g = self.b, matvec(A, x)
        return [] if close(g, e, 1e-8) else [("mju_factorLUSparse/mju_solveLUSparse: A x = b", e, g)]


def quat2mat(q):
    w, x, y, z = q
    return [w * w + x * x - y * y - z * z, 2 * (x * y - w * z), 2 * (x * z + w * y),
            2 * (x * y + w * z), w * w - x * x + y * y - z * z, 2 * (y * z - w * x),
            2 * (x * z - w * y), 2 * (y * z + w * x), w * w - x * x - y * y + z * z]


class Eig3(Case):
    op, schema = "eig3", "iddd"

    def line(self):
        return "eig3 " + fl(self.M)

    def oracle(self, o):
        it, ev, V, q = o
        Vm = rowsof(V, 3, 3)
        f = []
        sc = 1 + max(abs(x) for x in self.M)
        if not close(flat(matmul(transp(Vm, 3, 3), Vm)), [1.0, 0, 0, 0, 1.0, 0, 0, 0, 1.0], OTOL):
            f.append(("mju_eig3: eigvec orthonormal", None, V))
        D = [[ev[i] if i == j else 0.0 for j in range(3)] for i in range(3)]
        rec = matmul(matmul(Vm, D), transp(Vm, 3, 3))
        err = max(abs(a - b) for a, b in zip(flat(rec), self.M)) / sc
        STATS["eig3_max_rel_reconstruction_error"] = max(STATS.get("eig3_max_rel_reconstruction_error", 0.0), err)
        # mju_eig3 stops rotating when the Jacobi cosine exceeds 1 - 1e-12 (rotation angle below ~1.4e-6), so the
        # attainable accuracy of the reconstruction is ~1e-6 relative, not 1e-9; the measured maximum is reported
        if not close(flat(rec), self.M, EIG_TOL, sc):
            f.append(("mju_eig3: eigvec diag(eigval) eigvec' = mat", self.M, flat(rec)))
        if not (ev[0] >= ev[1] - 1e-9 * sc and ev[1] >= ev[2] - 1e-9 * sc):
            f.append(("mju_eig3: eigenvalues in decreasing order", None, ev))
        if not close(quat2mat(q), V, OTOL) or abs(sum(x * x for x in q) - 1) > 1e-9:
            f.append(("mju_eig3: quat is the unit quaternion of eigvec", V, quat2mat(q)))
        return f


class QCQP(Case):
    op, schema = "QCQP", "id"

    def line(self):
        return "QCQP %d %s %s %s %s" % (self.n, hx(self.r), fl(flat(self.A)), fl(self.b), fl(self.d))

    def kkt(self, act, x, name):
        n, A, b, d, r = self.n, self.A, self.b, self.d, self.r
        y = [x[i] / d[i] for i in range(n)]
        As = [[A[i][j] * d[i] * d[j] for j in range(n)] for i in range(n)]
        bs = [b[i] * d[i] for i in range(n)]
        g = [a + c for a, c in zip(matvec(As, y), bs)]          # gradient in scaled coordinates
        yy = sum(t * t for t in y)
        sc = 1 + max(abs(t) for t in bs) + max(abs(t) for t in flat(As))
        f = []
        if yy > r * r + 1e-8 * (1 + r * r):
            f.append((name + ": result inside the cone constraint", r * r, yy))
        if act == 0:
            if max(abs(t) for t in g) > 1e-8 * sc:
                f.append((name + ": returns 0 (unconstrained) => gradient vanishes", 0.0, g))
        else:
            la = -sum(a * c for a, c in zip(g, y)) / yy if yy > 0 else -1.0
            if la < -1e-9 * sc or max(abs(a + la * c) for a, c in zip(g, y)) > 1e-8 * sc or abs(yy - r * r) > 1e-7 * (1 + r * r):
                f.append((name + ": returns 1 => KKT: gradient = -lambda y with lambda >= 0, constraint active", {"lambda": la, "yy": yy, "rr": r * r}, g))
        return f

    def oracle(self, o):
        f = self.kkt(o[0][0], o[1], "mju_QCQP")
        if len(o) >= 4:
            f += self.kkt(o[2][0], o[3], "mju_QCQP%d" % self.n)
        return f


class BoxQP(Case):
    op, schema = "boxQP", "idid"

    def line(self):
        return "boxQP %d %d %s %s %s %s %s" % (self.n, self.bnd, fl(flat(self.H)), fl(self.g), fl(self.lo), fl(self.up), fl(self.x0))

    def oracle(self, o):
        n, H, g = self.n, self.H, self.g
        nfree, x = o[0][0], o[1]
        if nfree < 0:
            return [("mju_boxQP succeeds on a positive definite problem", ">= 0", nfree)]
        lo = self.lo if self.bnd & 1 else [-math.inf] * n
        up = self.up if self.bnd & 2 else [math.inf] * n
        grad = [a + c for a, c in zip(matvec(H, x), g)]
        sc = 1 + max(abs(t) for t in g) + max(abs(t) for t in flat(H))
        f = []
        tol = 1e-7 * sc
        free = []
        for i in range(n):
            if x[i] < lo[i] or x[i] > up[i]:
                f.append(("mju_boxQP: lower <= x <= upper", [lo[i], up[i]], x[i]))
            elif x[i] == lo[i] and grad[i] > 0:
                pass
            elif x[i] == up[i] and grad[i] < 0:
                pass
            else:
                free.append(i)
                if abs(grad[i]) > tol:
                    f.append(("mju_boxQP KKT: gradient vanishes on free dimension %d" % i, 0.0, grad[i]))
        if nfree != len(free):
            f.append(("mju_boxQP returns the number of free dimensions", len(free), nfree))
        elif nfree > 0 and len(o) >= 4:
            if o[2] != free:
                f.append(("mju_boxQP index = free dimensions", free, o[2]))
            else:
                R = rowsof(o[3], nfree, nfree)
                Rl = [[R[i][j] if j <= i else 0.0 for j in range(nfree)] for i in range(nfree)]
                Hf = [[H[a][c] for c in free] for a in free]
                if not close(flat(matmul(Rl, transp(Rl, nfree, nfree))), flat(Hf), OTOL):
                    f.append(("mju_boxQP: R R' = H[free, free]", flat(Hf), None))
        return f


# ------------------------------------------------------------------------------------- generation
def gen_cases(rng, tier):
    T = 1 if tier == "quick" else 5
    cs = []
    lens = list(range(0, 14)) + [15, 16, 17, 19, 20, 23, 31, 32, 33]
    for n in lens:
        for _ in range(T):
            cs.append(Dot(a=rvals(rng, n, "u"), b=rvals(rng, n, "u")))
            cs.append(VecOp(a=rvals(rng, n, "u"), b=rvals(rng, n, "u"), s=rng.uniform(-2, 2)))
            m = max(n, 1) + rng.randrange(0, 3)
            ind = [rng.randrange(m) for _ in range(n)]
            cs.append(DotSparse(val=rvals(rng, n, "u"), ind=ind, vec=rvals(rng, m, "u")))
            cs.append(DotSparseX3(v0=rvals(rng, n, "u"), v1=rvals(rng, n, "u"), v2=rvals(rng, n, "u"), ind=ind, vec=rvals(rng, m, "u")))
    for _ in range(12 * T):
        nr, nc, c2 = rng.randrange(0, 10), rng.randrange(0, 10), rng.randrange(1, 9)
        k = rng.choice(["u", "z"])
        cs.append(MatOp(nr=nr, nc=nc, c2=c2, A=rowsof(rvals(rng, nr * nc, k), nr, nc), B=rowsof(rvals(rng, nc * c2, k), nc, c2),
                        C=rowsof(rvals(rng, nr * c2, k), nr, c2), v=rvals(rng, nc, k), w=rvals(rng, nr, k), dg=rvals(rng, nr, k)))
    # sparse structure
    for _ in range(30 * T):
        nr, nc = rng.randrange(0, 9), rng.randrange(0, 14)
        M = rowsof(rvals(rng, nr * nc, rng.choice(["z", "z", "u", "i"])), nr, nc)
        tot = sum(1 for x in flat(M) if x != 0)
        cs.append(D2S(nr=nr, nc=nc, M=M, cap=rng.choice([tot, tot, tot + 3, tot - 1, 0, 1, nr * nc + 1])))
    for _ in range((18 if T == 1 else 40 * T)):
        nr, nc = rng.randrange(0, 9), rng.randrange(1, 20)
        S = rand_csr(rng, nr, nc)
        cs.append(S2D(S=S))
        cs.append(MulMatVec(S=S, v=rvals(rng, nc), sup=0))
        cs.append(MulMatTVec(S=S, v=rvals(rng, nr)))
        if nr:
            cs.append(Transpose(S=S))
    for _ in range((8 if T == 1 else 15 * T)):
        # supernodes: blocks of identical rows
        nc = rng.randrange(1, 16)
        rows = []
        while len(rows) < rng.randrange(1, 10):
            cols = sorted(rng.sample(range(nc), rng.randrange(0, nc + 1)))
            for _k in range(rng.choice([1, 1, 2, 3, 4, 5])):
                rows.append([(c, rnz(rng)) for c in cols])
        S = CSR(rows, nc, rng, rng.choice(["compact", "gaps", "permuted"]))
        cs.append(Super(S=S))
        cs.append(MulMatVec(S=S, v=rvals(rng, nc), sup=1))
        cs.append(Transpose(S=S))
        cs.append(Transpose(S=CSR(rowsT(rows, nc), len(rows), rng, "compact")))
    # structured patterns (sorted columns): block-diagonal with single-row and multi-row blocks, staircases without and
    # with overlap, banded, runs of identical rows, empty rows in between: supernode detection of transposeSparse /
    # superSparse and its consumers (mulMatVecSparse with supernodes, sqrMatTDSparse)
    for pat, nc in structured_patterns(rng, (2 if T == 1 else 3 * T)):
        rows = [[(c, rnz(rng)) for c in cols] for cols in pat]
        S = CSR(rows, nc, rng, "compact")
        cs.append(Transpose(S=S))
        cs.append(Super(S=S))
        cs.append(MulMatVec(S=S, v=rvals(rng, nc), sup=1))
        St = CSR(rowsT(rows, nc), len(rows), rng, "compact")
        cs.append(Transpose(S=St))
        cs.append(Super(S=St))
        cs.append(MulMatVec(S=St, v=rvals(rng, len(rows)), sup=1))
        if len(rows) <= 10 and nc <= 10 and rows:
            cs.append(SqrSparse(S=S, dg=[rng.uniform(0.2, 2) for _ in rows], usediag=rng.randrange(2)))
            cs.append(SqrSparse(S=St, dg=[rng.uniform(0.2, 2) for _ in range(nc)], usediag=rng.randrange(2)))
    for _ in range((18 if T == 1 else 40 * T)):
        n = rng.randrange(1, 14)
        di = sorted(rng.sample(range(n), rng.randrange(0, n + 1)))
        si = list(di) if rng.random() < 0.25 else sorted(rng.sample(range(n), rng.randrange(0, n + 1)))
        cs.append(Combine(a=rng.choice([1.0, 1.0, rng.uniform(-2, 2)]), b=rng.choice([1.0, -1.0, rng.uniform(-2, 2)]),
                          di=di, dv=rvals(rng, len(di), "u"), si=si, sv=rvals(rng, len(si), "u")))
        cs.append(DotSparse2(i1=di, v1=rvals(rng, len(di), "u"), i2=si, v2=rvals(rng, len(si), "u")))
    for _ in range(15 * T):
        nr, nc = rng.randrange(1, 8), rng.randrange(1, 12)
        M = rand_csr(rng, nr, nc, sort=True)
        Dr = [sorted(rng.sample(range(nc), rng.randrange(0, nc + 1))) if rng.random() < 0.7 else [c for c, _ in M.rows[r]] for r in range(nr)]
        D = CSR([[(c, rnz(rng)) for c in cols] for cols in Dr], nc, rng, "gaps", room=[nc] * nr)
        cs.append(AddToMat(D=D, M=M))
    for _ in range((18 if T == 1 else 40 * T)):
        nr, nc = rng.randrange(1, 9), rng.randrange(1, 12)
        S = rand_csr(rng, nr, nc, layout=rng.choice(["compact", "gaps", "gaps"]), kind=rng.choice(["u", "z", "i"]))
        cs.append(Compress(S=S, minval=rng.choice([-1.0, -1.0, 0.0, 0.0, 0.5, 1.0, 1.5])))
    for _ in range(20 * T):
        n = rng.randrange(1, 10)
        S = rand_csr(rng, n, n, sort=True, lower=True, diag_last=True)
        cs.append(SymOps(S=S, v=rvals(rng, n, "u"), M0=rowsof(rvals(rng, n * n, "u"), n, n)))
    for _ in range(20 * T):
        m = rng.randrange(1, 12)
        n = rng.randrange(0, m + 1)
        ind = rng.sample(range(m), n)
        if rng.random() < 0.3:
            ind = [(-1 if rng.random() < 0.3 else i) for i in ind]
        cs.append(Gather(ind=ind, vec=rvals(rng, m, "u"), res0=rvals(rng, m, "u")))
    for _ in range(10 * T):
        nr, nc = rng.randrange(1, 8), rng.randrange(1, 8)
        S = rand_csr(rng, nr, nc, layout="compact", sort=True, kind="u")
        cs.append(SqrSparse(S=S, dg=[rng.uniform(0.2, 2) for _ in range(nr)], usediag=rng.randrange(2)))
    # ---- merge-type routines with packed blocks / chains: identical patterns, nested, disjoint, empty; nrow 1..6
    for _ in range((24 if T == 1 else 30 * T)):
        n = rng.randrange(1, 12)
        di = sorted(rng.sample(range(n), rng.randrange(0, n + 1)))
        mode = rng.random()
        if mode < 0.35:
            si = list(di)                                       # identical index vectors (fast path)
        elif mode < 0.5:
            si = sorted(rng.sample(di, rng.randrange(0, len(di) + 1))) if di else []   # subset
        else:
            si = sorted(rng.sample(range(n), rng.randrange(0, n + 1)))
        nrow = rng.choice([1, 2, 3, 3, 6])
        cs.append(AddToSparseMat(n=n, nrow=nrow, scl=rng.choice([1.0, -1.0, rng.uniform(-2, 2)]), di=di, si=si,
                                 D=[rvals(rng, len(di), "u") for _k in range(nrow)], Sv=[rvals(rng, len(si), "u") for _k in range(nrow)]))
        cs.append(AddChains(n=n, c1=di, c2=si))
        cs.append(Inc(a=rng.choice([1.0, rng.uniform(-2, 2)]), b=rng.uniform(-2, 2), n=n, di=di, dv=rvals(rng, len(di), "u"), si=si, sv=rvals(rng, len(si), "u")))
    for _ in range((6 if T == 1 else 8 * T)):
        nr, nc = rng.randrange(1, 8), rng.randrange(1, 10)
        S = rand_csr(rng, nr, nc)
        cs.append(CopyZero(S=S, init=rvals(rng, len(S.val), "i"), sel=rng.sample(range(nr), rng.randrange(0, nr + 1))))
        # sparseMap / lower2SymMap: res pattern inside src pattern, sorted columns
        src = rand_csr(rng, nr, nc, sort=True, kind="u")
        res_rows = [[e for e in r if rng.random() < 0.6] for r in src.rows]
        cs.append(Maps(R=CSR(res_rows, nc, rng, rng.choice(["compact", "gaps"])), S=src))
        n = rng.randrange(1, 8)
        low = rand_csr(rng, n, n, sort=True, lower=True, diag_last=True, kind="u", layout="compact")
        full_rows = [sorted(set([c for c, _ in low.rows[i]] + [j for j in range(n) if any(c == i for c, _ in low.rows[j])])) for i in range(n)]
        if rng.random() < 0.5:      # res may have extra entries without a source
            full_rows = [sorted(set(r) | set(c for c in range(n) if rng.random() < 0.2)) for r in full_rows]
        cs.append(SymMap(R=CSR([[(c, 0.0) for c in r] for r in full_rows], n, rng, "compact"), S=low))
    for _ in range((6 if T == 1 else 8 * T)):
        # permuted block-diagonal matrices, dense and sparse
        nb = rng.randrange(1, 4)
        bnr = [rng.randrange(1, 4) for _k in range(nb)]
        bnc = [rng.randrange(1, 4) for _k in range(nb)]
        nr, nc = sum(bnr), sum(bnc)
        br = [sum(bnr[:b]) for b in range(nb)]
        bc = [sum(bnc[:b]) for b in range(nb)]
        blocks = [[[rng.choice([0.0, rnz(rng), rnz(rng)]) for _c in range(bnc[b])] for _r in range(bnr[b])] for b in range(nb)]
        pr = list(range(nr)); rng.shuffle(pr)       # block row k lives in row pr[k] of mat
        pc = list(range(nc)); rng.shuffle(pc)       # block column k lives in column pc[k] of mat
        M = [[0.0] * nc for _k in range(nr)]
        for b in range(nb):
            for r in range(bnr[b]):
                for c in range(bnc[b]):
                    M[pr[br[b] + r]][pc[bc[b] + c]] = blocks[b][r][c]
        cs.append(BlockDiag(nr=nr, nc=nc, ncres=max(bnc), pr=pr, pc=pc, bnr=bnr, bnc=bnc, br=br, bc=bc, M=M, blocks=blocks))
        pcf = [0] * nc
        for k, c in enumerate(pc):
            pcf[c] = k                               # forward permutation: column of mat -> block column
        rows = [[(c, v) for c, v in enumerate(M[r]) if v != 0] for r in range(nr)]
        cs.append(BlockDiagSp(S=CSR(rows, nc, rng, rng.choice(["compact", "gaps", "permuted"])), pr=pr, pcf=pcf, br=br, bc=bc, blocks=blocks))
    for _ in range((6 if T == 1 else 8 * T)):
        n = rng.randrange(1, 10)
        A = rspd(rng, n, 1.0)
        dens = rng.choice([0.15, 0.4, 1.0])
        for i in range(n):
            for j in range(i):
                if rng.random() > dens:
                    A[i][j] = A[j][i] = 0.0
            A[i][i] += n
        cs.append(CholSym(S=CSR([[(j, A[i][j]) for j in range(n) if A[i][j] != 0] for i in range(n)], n, rng, "compact")))
    # band
    for _ in range(25 * T):
        nt = rng.randrange(1, 10)
        nd = rng.randrange(0, nt + 1)
        nb = rng.randrange(1, 5) if nd < nt else rng.randrange(0, 4)
        nB = (nt - nd) * nb + nd * nt
        cs.append(Band2Dense(nt=nt, nb=nb, nd=nd, sym=rng.randrange(2), band=rvals(rng, nB, "u")))
        cs.append(Dense2Band(nt=nt, nb=nb, nd=nd, M=rowsof(rvals(rng, nt * nt, "u"), nt, nt), init=rvals(rng, nB, "i")))
    for _ in range(15 * T):
        nt = rng.randrange(1, 12)
        nd = rng.randrange(0, nt + 1)
        nb = rng.randrange(1, 5)
        nB = (nt - nd) * nb + nd * nt
        band = [rng.uniform(-0.3, 0.3) for _ in range(nB)]
        used = band_used(nt, nb, nd)
        for a, (i, j) in used.items():
            if i == j:
                band[a] = rng.uniform(2, 4)
        cs.append(BandChol(nt=nt, nb=nb, nd=nd, nv=rng.randrange(1, 3), dadd=rng.choice([0.0, 0.1]), dmul=rng.choice([0.0, 0.05]),
                           band=band, vec=None))
        cs[-1].vec = rvals(rng, nt * cs[-1].nv, "u")
    # dense factorizations
    for n in list(range(1, 12)) + [13, 16, 17]:
        for _ in range((1 if T == 1 else 2 * T)):
            A = rspd(rng, n)
            for i in range(n):
                for j in range(i + 1, n):
                    A[i][j] = rng.uniform(-9, 9)          # upper triangle is never read
            cs.append(CholFactor(n=n, A=A, mindiag=1e-15, spd=True))
            L = pychol([[A[i][j] if j <= i else A[j][i] for j in range(n)] for i in range(n)])
            Lg = [[L[i][j] if j <= i else rng.uniform(-9, 9) for j in range(n)] for i in range(n)]
            cs.append(CholSolve(n=n, alias=rng.randrange(2), L=Lg, b=rvals(rng, n, "u")))
            x = [rng.choice([0.0, rng.uniform(-0.4, 0.4)]) for _ in range(n)]
            cs.append(CholUpdate(n=n, plus=1, L=Lg, x=x))
            cs.append(CholUpdate(n=n, plus=0, L=Lg, x=[0.3 * t for t in x]))
            Ag = [[rng.uniform(-1, 1) + (3.0 if i == j and rng.random() < 0.5 else 0.0) for j in range(n)] for i in range(n)]
            cs.append(LU(n=n, A=Ag, b=rvals(rng, n, "u")))
        # rank-deficient input: tie only
        B = [[rng.uniform(-1, 1) for _ in range(max(1, n - 1))] for _ in range(n)]
        A = matmul(B, transp(B, n, max(1, n - 1)))
        cs.append(CholFactor(n=n, A=A, mindiag=rng.choice([1e-10, 1e-3]), spd=False))
    # pivot ties: small-integer matrices (equal magnitudes in a column), accepted when exactly non-singular
    from fractions import Fraction
    for _ in range(8 * T):
        n = rng.randrange(2, 6)
        for _try in range(20):
            Ai = [[rng.randrange(-2, 3) for _j in range(n)] for _i in range(n)]
            Fm = [[Fraction(x) for x in r] for r in Ai]
            det = Fraction(1)
            for k in range(n):
                pv = next((i for i in range(k, n) if Fm[i][k] != 0), None)
                if pv is None:
                    det = Fraction(0)
                    break
                if pv != k:
                    Fm[k], Fm[pv] = Fm[pv], Fm[k]
                    det = -det
                det *= Fm[k][k]
                for i in range(k + 1, n):
                    fct = Fm[i][k] / Fm[k][k]
                    Fm[i] = [a - fct * b for a, b in zip(Fm[i], Fm[k])]
            if det != 0:
                cs.append(LU(n=n, A=[[float(x) for x in r] for r in Ai], b=rvals(rng, n, "i")))
                break
    for _ in range(4 * T):
        A = [[rng.uniform(-1, 1) + (2.0 if i == j else 0.0) for j in range(6)] for i in range(6)]
        cs.append(LU6(A=A, b=rvals(rng, 6, "u")))
        A3 = [[rng.uniform(-1, 1) + (2.0 if i == j else 0.0) for j in range(3)] for i in range(3)]
        cs.append(Solve3(A=A3, b=rvals(rng, 3, "u")))
    # sparse Cholesky (reverse order, fill-in inside preallocated full lower rows) and LU on tree patterns
    for _ in range(10 * T):
        n = rng.randrange(1, 10)
        A = rspd(rng, n, 1.0)
        dens = rng.choice([0.2, 0.5, 1.0])
        for i in range(n):
            for j in range(i):
                if rng.random() > dens:
                    A[i][j] = A[j][i] = 0.0
            A[i][i] += n
        rows = [[(j, A[i][j]) for j in range(i) if A[i][j] != 0] + [(i, A[i][i])] for i in range(n)]
        cs.append(CholSparse(S=CSR(rows, n, rng, "gaps", room=[i + 1 for i in range(n)]), b=rvals(rng, n, "u")))
        L = pychol(A)
        # a dense lower-triangular reverse factor: any lower-triangular L with positive diagonal
        rowsL = [[(j, L[i][j]) for j in range(i + 1)] for i in range(n)]
        xi = sorted(rng.sample(range(n), rng.randrange(0, n + 1)))
        cs.append(CholUpdateSparse(S=CSR(rowsL, n, rng, "gaps"), plus=1, xi=xi, xv=[rng.uniform(-0.5, 0.5) for _ in xi]))
        cs.append(CholUpdateSparse(S=CSR(rowsL, n, rng, "compact"), plus=0, xi=xi, xv=[rng.uniform(-0.1, 0.1) for _ in xi]))
    for _ in range(10 * T):
        n = rng.randrange(1, 11)
        par = [-1] + [rng.randrange(-1, i) for i in range(1, n)]
        anc = []
        for i in range(n):
            a, j = set(), par[i]
            while j >= 0:
                a.add(j)
                j = par[j]
            anc.append(a)
        rows = [[(j, (n + 2.0 + rng.random()) if i == j else rng.uniform(-1, 1)) for j in range(n) if j == i or j in anc[i] or i in anc[j]] for i in range(n)]
        cs.append(LUSparse(S=CSR(rows, n, rng, rng.choice(["compact", "gaps"])), useindex=0, index=list(range(n)), b=rvals(rng, n, "u")))
    # eigen / QP
    for _ in range(25 * T):
        k = rng.random()
        if k < 0.6:
            B = [rng.uniform(-2, 2) for _ in range(6)]
        elif k < 0.8:
            B = [rng.uniform(-2, 2), 0, 0, rng.uniform(-2, 2), 0, rng.uniform(-2, 2)]
        else:
            a = rng.uniform(-2, 2)
            B = [a, 0, rng.choice([0, 0.5]), a, 0, rng.choice([a, 1.0])]
        M = [B[0], B[1], B[2], B[1], B[3], B[4], B[2], B[4], B[5]]
        cs.append(Eig3(M=M))
    # structured symmetric 3x3 matrices: every combination of off-diagonal magnitudes from {0, a, b} with signs (ties between
    # the off-diagonal entries, single pairs, mirror-symmetric inertias), equal / distinct diagonals, tiny entries
    import itertools
    smalls = []
    for o01, o02, o12 in itertools.product([0.0, 1.0, -1.0, 0.3], repeat=3):
        for dg in ((2.0, 3.0, 3.0), (5.0, 1.0, 7.0), (1.0, 1.0, 1.0)):
            smalls.append([dg[0], o01, o02, o01, dg[1], o12, o02, o12, dg[2]])
    smalls.append([2.0, 1.0, 1.0, 1.0, 3.0, 0.0, 1.0, 0.0, 3.0])
    smalls.append([5.0, -0.3, 0.3, -0.3, 1.0, 0.0, 0.3, 0.0, 7.0])
    smalls.append([1.0, 1e-13, 1e-13, 1e-13, 2.0, 0.5, 1e-13, 0.5, 3.0])
    smalls.append([1.0, 0.5, 0.5, 0.5, 2.0, 1e-13, 0.5, 1e-13, 3.0])
    if T == 1:
        rng.shuffle(smalls)
        smalls = smalls[:2] + [m_ for m_ in smalls[2:] if rng.random() < 0.45] + [[2.0, 1.0, 1.0, 1.0, 3.0, 0.0, 1.0, 0.0, 3.0], [5.0, -0.3, 0.3, -0.3, 1.0, 0.0, 0.3, 0.0, 7.0]]
    for M in smalls:
        cs.append(Eig3(M=list(M)))
    for _ in range(10 * T):
        a, b = rng.uniform(-2, 2), rng.uniform(-2, 2)
        pat = rng.choice([(a, a, 0.0), (a, -a, 0.0), (a, 0.0, a), (0.0, a, -a), (a, a, a), (a, a, b), (a, b, a), (b, a, a), (a, -a, 1e-14)])
        dgl = [rng.uniform(-3, 3) for _k in range(3)]
        if rng.random() < 0.3:
            dgl[1] = dgl[2]
        cs.append(Eig3(M=[dgl[0], pat[0], pat[1], pat[0], dgl[1], pat[2], pat[1], pat[2], dgl[2]]))
    for _ in range(30 * T):
        n = rng.randrange(1, 6)
        A = rspd(rng, n, 0.5)
        cs.append(QCQP(n=n, A=A, b=[rng.uniform(-3, 3) for _ in range(n)], d=[rng.uniform(0.3, 2) for _ in range(n)], r=rng.choice([0.1, 0.5, 1.0, 5.0, 50.0])))
    for _ in range(30 * T):
        n = rng.randrange(1, 9)
        H = rspd(rng, n, 0.5)
        lo = [rng.uniform(-2, 0) for _ in range(n)]
        up = [l + rng.uniform(0.1, 3) for l in lo]
        cs.append(BoxQP(n=n, bnd=rng.choice([0, 1, 2, 3, 3, 3]), H=H, g=[rng.uniform(-4, 4) for _ in range(n)], lo=lo, up=up,
                        x0=[rng.uniform(-3, 3) for _ in range(n)]))
    return cs


def structured_patterns(rng, reps):
    """list of (rows as sorted column lists, nc)."""
    out = []
    # the smallest staircases / block diagonals, deterministic
    out.append(([[0, 1], [2, 3, 4], [5]], 6))
    out.append(([[0], [1]], 2))
    out.append(([[0, 1], [2, 3]], 4))
    out.append(([[0], [1], [2], [3]], 4))
    out.append(([[0, 1, 2], [], [3, 4]], 5))
    out.append(([[0, 1], [0, 1], [2, 3], [2, 3]], 4))
    out.append(([[0, 1], [1, 2], [2, 3]], 4))
    for _ in range(reps):
        # block diagonal, single-row blocks (staircase without overlap)
        widths = [rng.randrange(1, 4) for _k in range(rng.randrange(1, 6))]
        pat, c = [], 0
        for w in widths:
            pat.append(list(range(c, c + w)))
            c += w
        out.append((pat, c + rng.randrange(0, 2)))
        # block diagonal, blocks of 1..3 identical rows, optional empty rows
        pat, c = [], 0
        for _k in range(rng.randrange(1, 5)):
            w = rng.randrange(1, 4)
            for _r in range(rng.randrange(1, 4)):
                pat.append(list(range(c, c + w)))
            if rng.random() < 0.3:
                pat.append([])
            c += w
        out.append((pat, c))
        # staircase with overlap / shifted starts
        n, w, sh = rng.randrange(1, 7), rng.randrange(1, 4), rng.randrange(1, 3)
        pat = [list(range(k * sh, k * sh + w)) for k in range(n)]
        out.append((pat, (n - 1) * sh + w))
        # banded
        n, b = rng.randrange(1, 8), rng.randrange(0, 3)
        out.append(([list(range(max(0, k - b), min(n, k + b + 1))) for k in range(n)], n))
        # random rows each followed by a random number of copies, sorted
        nc = rng.randrange(1, 9)
        pat = []
        for _k in range(rng.randrange(1, 5)):
            cols = sorted(rng.sample(range(nc), rng.randrange(0, nc + 1)))
            for _r in range(rng.randrange(1, 3)):
                pat.append(list(cols))
        out.append((pat, nc))
    return out


def rowsT(rows, nc):
    """entry lists of the transpose of a CSR given by rows."""
    out = [[] for _ in range(nc)]
    for r, es in enumerate(rows):
        for c, v in es:
            out[c].append((r, v))
    return out


COQ_PRE = r"""
Definition zn (l : list Z) : list nat := map Z.to_nat l.
Definition mk (nnz adr col : list Z) (val : list float) : csr float := mkcsr (zn nnz) (zn adr) (combine (zn col) val).
Definition gi (l : list (list Z)) (i j : nat) : Z := nth j (nth i l []) 0%Z.
Definition gn (l : list (list Z)) (i j : nat) : nat := Z.to_nat (gi l i j).
Definition li (l : list (list Z)) (i : nat) : list Z := nth i l [].
Definition lf (l : list (list float)) (i : nat) : list float := nth i l [].
Definition g0 (l : list (list float)) (i : nat) : float := nth 0 (nth i l []) 0%float.
Definition rowsOf (nr nc : nat) (l : list float) : list (list float) := map (fun r => slice (r * nc) nc l) (seq 0 nr).
Definition tol : float := """ + TOL + r"""%float.
Definition fex (a b : list float) : bool := fclose_list 0%float a b.
Fixpoint zeq (a b : list Z) : bool := match a, b with [], [] => true | x :: r, y :: s => (x =? y)%Z && zeq r s | _, _ => false end.
Definition nzq (a : list nat) (b : list Z) : bool := zeq (map Z.of_nat a) b.
Definition entq (t : float) (a b : list (nat * float)) : bool :=
  nzq (map fst a) (map (fun e => Z.of_nat (fst e)) b) && fclose_list t (map snd a) (map snd b).
Fixpoint rowsq (t : float) (a b : list (list (nat * float))) : bool :=
  match a, b with [], [] => true | x :: r, y :: s => entq t x y && rowsq t r s | _, _ => false end.
Definition bandsplit (nt nb nd : nat) (l : list float) := (rowsOf (nt - nd) nb (firstn ((nt - nd) * nb) l), rowsOf nd nt (skipn ((nt - nd) * nb) l)).
Definition C (op : Z) (S : csr float) (ia : list (list Z)) (fa : list (list float)) (oi : list (list Z)) (ofl : list (list float)) :=
  (op, (S, ia, fa), (oi, ofl)).
Definition chk (c : Z * (csr float * list (list Z) * list (list float)) * (list (list Z) * list (list float))) : bool :=
  match c with (op, (Sm, ia, fa), (oi, ofl)) =>
  if (op =? 0)%Z then
    let M := rowsOf (gn ia 0 0) (gn ia 0 1) (lf fa 0) in
    let R := dense2sparse M in
    (dense2sparse_ret (gi ia 0 2) M =? gi oi 0 0)%Z &&
    (if (gi oi 0 0 =? 0)%Z then nzq (c_nnz R) (li oi 1) && nzq (c_adr R) (li oi 2) && nzq (map fst (c_ent R)) (li oi 3) && fex (map snd (c_ent R)) (lf ofl 0)
     else true)
  else if (op =? 1)%Z then fex (concat (sparse2dense (gn ia 0 0) (gn ia 0 1) Sm)) (lf ofl 0)
  else if (op =? 2)%Z then fclose_list tol (mulMatVecSparse (gn ia 0 0) Sm (lf fa 0)) (lf ofl 0)
  else if (op =? 3)%Z then fclose_list tol (mulMatTVecSparse (gn ia 0 0) (gn ia 0 1) Sm (lf fa 0)) (lf ofl 0)
  else if (op =? 4)%Z then fclose tol (dotSparse (c_ent Sm) (lf fa 0)) (g0 ofl 0)
  else if (op =? 5)%Z then
    let src := combine (zn (li ia 0)) (lf fa 0) in
    let r := combineSparse (nth 0 (lf fa 1) 0%float) (nth 1 (lf fa 1) 0%float) (c_ent Sm) src in
    (Z.of_nat (combineSparseCount (map fst (c_ent Sm)) (map fst src)) =? gi oi 0 0)%Z && (Z.of_nat (length r) =? gi oi 0 1)%Z &&
    nzq (map fst r) (li oi 1) && fclose_list tol (map snd r) (lf ofl 0)
  else if (op =? 6)%Z then
    let nr := gn ia 0 0 in
    let M := mk (li ia 1) (li ia 2) (li ia 3) (lf fa 0) in
    let O := mk (li ia 4) (li ia 5) (li ia 6) (lf fa 1) in
    rowsq tol (addToMatSparse_rows nr Sm M) (rows nr O) && zeq (li ia 5) (map Z.of_nat (c_adr Sm))
  else if (op =? 7)%Z then
    let nr := gn ia 0 0 in
    let mv := g0 fa 0 in
    let R := compressSparse nr Sm mv in
    (Z.of_nat (compressSparse_ret nr Sm mv) =? gi oi 0 0)%Z && nzq (c_nnz R) (li oi 1) && nzq (c_adr R) (li oi 2) &&
    nzq (map fst (c_ent R)) (li oi 3) && fex (map snd (c_ent R)) (lf ofl 0)
  else if (op =? 8)%Z then
    let R := transposeSparse (gn ia 0 0) (gn ia 0 1) Sm in
    nzq (c_nnz R) (li oi 0) && nzq (c_adr R) (li oi 1) && nzq (map fst (c_ent R)) (li oi 2) && fex (map snd (c_ent R)) (lf ofl 0) &&
    (if (gi ia 0 2 =? 1)%Z then nzq (transposeSparse_super (gn ia 0 0) (gn ia 0 1) Sm) (li oi 3) else true)
  else if (op =? 19)%Z then nzq (superSparse (gn ia 0 0) Sm) (li oi 0)
  else if (op =? 20)%Z then
    let nrow := gn ia 0 0 in let di := zn (li ia 1) in let si := zn (li ia 2) in
    let '(ind, rws) := addToSparseMat (g0 fa 0) di si (rowsOf nrow (length di) (lf fa 1)) (rowsOf nrow (length si) (lf fa 2)) in
    (Z.of_nat (length ind) =? gi ia 3 0)%Z && nzq ind (li ia 4) && fclose_list tol (concat rws) (lf fa 3)
  else if (op =? 21)%Z then
    nzq (addChains (T := float) (zn (li ia 0)) (zn (li ia 1))) (li ia 2) && nzq (addChains (T := float) (zn (li ia 0)) (zn (li ia 1))) (li ia 3)
  else if (op =? 22)%Z then
    let src := combine (zn (li ia 0)) (lf fa 0) in
    fclose_list tol (combineSparseInc (nth 0 (lf fa 1) 0%float) (nth 1 (lf fa 1) 0%float) (c_ent Sm) src) (lf fa 2) &&
    fclose_list tol (addToSclSparseInc (nth 1 (lf fa 1) 0%float) (c_ent Sm) src) (lf fa 3)
  else if (op =? 9)%Z then
    let n := gn ia 0 0 in
    let M0 := rowsOf n n (lf fa 1) in
    fclose_list tol (mulSymVecSparse n Sm (lf fa 0)) (lf ofl 0) && fex (concat (sym2dense n Sm)) (lf ofl 1) &&
    fclose_list tol (concat (addToSymSparse n Sm true M0)) (lf ofl 2) && fclose_list tol (concat (addToSymSparse n Sm false M0)) (lf ofl 3)
  else if (op =? 10)%Z then
    fex (gatherMasked (lf fa 0) (li ia 0)) (lf ofl 0) &&
    (if forallb (fun i => (0 <=? i)%Z) (li ia 0) then fex (gather (lf fa 0) (zn (li ia 0))) (lf ofl 1) && fex (scatter (lf fa 1) (lf fa 0) (zn (li ia 0))) (lf ofl 2) else true)
  else if (op =? 11)%Z then
    let nt := gn ia 0 0 in let nb := gn ia 0 1 in let nd := gn ia 0 2 in
    let '(B, D) := bandsplit nt nb nd (lf fa 0) in
    fex (concat (band2Dense nt nb B D (gi ia 0 3 =? 1)%Z)) (lf ofl 0) && nzq (map (fun i => bandDiag i nt nb nd) (seq 0 nt)) (li ia 1)
  else if (op =? 12)%Z then
    let nt := gn ia 0 0 in let nb := gn ia 0 1 in let nd := gn ia 0 2 in
    let '(B0, D0) := bandsplit nt nb nd (lf fa 1) in
    let '(B, D) := dense2Band nt nb (rowsOf nt nt (lf fa 0)) B0 D0 in
    fex (concat B ++ concat D) (lf ofl 0)
  else if (op =? 13)%Z then
    let n := gn ia 0 0 in
    let '(L, rank) := cholFactor n (g0 fa 0) (rowsOf n n (lf fa 1)) in
    (rank =? gi oi 0 0)%Z && fclose_list tol (concat L) (lf ofl 0)
  else if (op =? 14)%Z then
    let n := gn ia 0 0 in fclose_list tol (cholSolve n (rowsOf n n (lf fa 0)) (lf fa 1)) (lf ofl 0)
  else if (op =? 15)%Z then
    let n := gn ia 0 0 in
    let '(L, x, rank) := cholUpdate n (gi ia 0 1 =? 1)%Z (rowsOf n n (lf fa 0)) (lf fa 1) in
    (rank =? gi oi 0 0)%Z && fclose_list tol (concat L) (lf ofl 0) && fclose_list tol x (lf ofl 1)
  else if (op =? 16)%Z then fclose tol (dot (lf fa 0) (lf fa 1)) (g0 ofl 0)
  else if (op =? 17)%Z then
    let s := g0 fa 0 in let a := lf fa 1 in let b := lf fa 2 in
    fex (v_scl a s) (lf ofl 0) && fex (v_add a b) (lf ofl 1) && fex (v_sub a b) (lf ofl 2) && fex (v_add a b) (lf ofl 3) &&
    fex (v_sub a b) (lf ofl 4) && fex (v_addToScl a b s) (lf ofl 5) && fex (v_addToScl a b s) (lf ofl 6) &&
    fex (v_addToSclScl a b s 0x1p-1%float) (lf ofl 7)
  else if (op =? 18)%Z then fclose tol (dotSparse2 (c_ent Sm) (combine (zn (li ia 0)) (lf fa 0))) (g0 ofl 0)
  else false end.
"""


def run(ctx):
    rng = ctx.rng
    ctx.coq_props(allowed_axioms=F.STD_AXIOMS, extra_targets=["Lib/NumF.vo", "Model/Sparse.vo", "Model/SparseSuper.vo", "Model/SparseExtra.vo", "Model/Chol.vo"])
    builds = [("scalar", ctx.driver("c23_linalg", ["c23_linalg.c"])),
              ("avx", ctx.driver("c23_linalg_avx", ["c23_linalg.c"], extra=("-mavx", "-DmjUSEPLATFORMSIMD")))]
    if any(e is None for _, e in builds):
        return
    cases = gen_cases(rng, ctx.tier)
    if getattr(ctx, "replay", None) and isinstance(ctx.replay.get("case"), dict) and ctx.replay["case"].get("line"):
        cases = [c for c in cases if c.line() == ctx.replay["case"]["line"]] or cases
    inp = "".join(c.line() + "\n" for c in cases)
    coq_cases, coq_src = [], []
    nviol = 0
    stats = {}
    for bname, exe in builds:
        rc, out, err = ctx.run(exe, inp)
        lines = out.split("\n")
        if rc != 0 or len(lines) < len(cases):
            ctx.broken.append(("correspondence", "driver c23_linalg (%s build) failed" % bname, "rc=%s lines=%d/%d %s" % (rc, len(lines), len(cases), err[-500:])))
            continue
        for k, (c, line) in enumerate(zip(cases, lines)):
            o = parse_out(line, c.schema)
            if o is None:
                if c.op == "transpose" and line.strip() == "noop":
                    continue
                ctx.violation("impl_violation", dict(c.summary(), build=bname, line=c.line()[:4000]), expected="a result", observed=line[:200],
                              theorem="oracle", signature={"site": c.op, "build": bname})
                continue
            try:
                fails = c.oracle(o)
            except (IndexError, ValueError, ZeroDivisionError, TypeError) as e:
                fails = [("well-formed output", "parsable output of the expected shape", "%s: %s" % (type(e).__name__, line[:300]))]
            for (law, exp, obs) in fails[:1]:
                nviol += 1
                if nviol <= 40:
                    ctx.violation("impl_violation", dict(c.summary(), build=bname, line=c.line()[:4000]), expected={"law": law, "value": exp}, observed=obs,
                                  theorem="oracle: " + law, signature={"site": c.op, "build": bname})
            if c.coq_op is not None:
                try:
                    cc = c.coq(o)
                except (IndexError, ValueError, TypeError):
                    cc = None
                if cc is not None:
                    coq_cases.append(cc)
                    coq_src.append((bname, k))
            stats[c.op] = stats.get(c.op, 0) + 1
    imports = ("From Coq Require Import ZArith List Bool PrimFloat.\nFrom MJV Require Import Lib.Num Lib.NumF Model.Sparse Model.SparseSuper Model.SparseExtra Model.Chol.\n"
               "Import ListNotations.\nOpen Scope Z_scope.")
    bad = ctx.coq_eval("c23", imports, coq_cases, "chk", shard=250, pre=COQ_PRE)
    seen = set()
    for i in bad:
        bname, k = coq_src[i]
        c = cases[k]
        if (c.op, bname) in seen:
            continue
        seen.add((c.op, bname))
        ctx.violation("correspondence", dict(c.summary(), build=bname, line=c.line()[:4000]), expected="model output (Model/Sparse.v, Model/Chol.v)",
                      observed=coq_cases[i][-600:], found_input=False, theorem="correspondence c23_linalg (%s)" % c.op,
                      signature={"site": c.op, "build": bname},
                      note="implementation and Coq model disagree on this input, but the implementation output still satisfies the dense-definition oracle")
    ctx.cov["evaluations"] = len(cases) * len(builds)
    distinct = set(c.line() for c in cases)
    ctx.cov["distinct_nontrivial"] = len(distinct)
    ctx.cov["rule"] = ("distinct driver input lines (operation + all arguments); every line is run on both builds (scalar, AVX); vector lengths 0..13,15..17,19,20,23,31..33 "
                       "cover every remainder mod 4 of the SIMD tails; sparse patterns are random with densities 0..1 (empty rows, empty matrices, full rows), "
                       "unsorted columns where the routine allows it, compact / gapped / row-permuted storage layouts, explicit zero and negative-zero values")
    ctx.cov["per_operation"] = stats
    ctx.cov["support"].update(STATS)
    ctx.cov["coq_cases"] = len(coq_cases)
    ctx.cov["correspondence_disagreements"] = len(bad)
    pick = [c for c in cases if c.op in ("compress", "transpose", "combine")][:3]
    ctx.cov["samples"] = [dict(c.summary(), line=c.line()[:300]) for c in pick]
    ctx.cov["explanation"] = ("theorems of Props/C23.v proved for all inputs; models tied to the C code on %d calls (%d evaluated inside Coq), oracle on every output"
                              % (len(cases) * len(builds), len(coq_cases)))
